(* Schedule independence of HilbertCurve (for C06): with integer-valued
   non-negative weights whose total is within the exact-integer range of f64,
   the per-part weight histogram of every round of `weighted_quantiles` does
   not depend on the rayon split tree, hence neither do the split positions
   nor the part ids.

   The only float fact used is the named assumption of DESIGN §6
   "f64 + exact on integers < 2^53", a Section hypothesis here
   ([f64_add_exact_int]); it becomes an explicit premise of the theorems. *)
From Coupe Require Import Lib.Prelude Lib.SFloat Lib.Sorting Lib.Rayon Model.SfcPart Model.SfcSched
  Proofs.SortingProofs Proofs.SfcProofs.
From Coq Require Import Floats.SpecFloat.
Open Scope Z_scope.

Definition f64_add_exact_on_integers : Prop :=
  forall a b : Z, 0 <= a -> 0 <= b -> a + b <= 2 ^ 53 ->
    f64_add (f64_of_Z a) (f64_of_Z b) = f64_of_Z (a + b).

Definition rmap {A B} (f : A -> B) (r : res A) : res B :=
  match r with Ok a => Ok (f a) | Err e => Err e | Panic s => Panic s | OutOfFuel => OutOfFuel end.

Definition oz (z : Z) : spec_float := f64_of_Z z.
Definition nonneg (l : list Z) : Prop := Forall (fun z => 0 <= z) l.

(* ---- list facts ---- *)

Lemma map_repeat {A B} (f : A -> B) x n : map f (repeat x n) = repeat (f x) n.
Proof. induction n as [|n IH]; cbn [repeat map]; [reflexivity|rewrite IH; reflexivity]. Qed.

Lemma nth_opt_map {A B} (f : A -> B) : forall l i, nth_opt (map f l) i = option_map f (nth_opt l i).
Proof. induction l as [|x t IH]; intros [|i]; cbn [map nth_opt option_map]; auto. Qed.

Lemma set_nth_map {A B} (f : A -> B) : forall l i v, set_nth (map f l) i (f v) = map f (set_nth l i v).
Proof. induction l as [|x t IH]; intros [|i] v; cbn [map set_nth]; auto. f_equal. apply IH. Qed.

Lemma sumZ_nonneg l : nonneg l -> 0 <= sumZ l.
Proof. induction 1 as [|x t Hx _ IH]; cbn [sumZ fold_right]; [lia|]. fold (sumZ t). lia. Qed.

Lemma sumZ_cons x t : sumZ (x :: t) = x + sumZ t.
Proof. reflexivity. Qed.

Lemma nth_opt_le_sum : forall l i x, nonneg l -> nth_opt l i = Some x -> 0 <= x <= sumZ l.
Proof.
  induction l as [|y t IH]; intros [|i] x Hn H; cbn [nth_opt] in H; try discriminate;
    inversion Hn as [|? ? Hy Ht]; subst; rewrite sumZ_cons; pose proof (sumZ_nonneg t Ht).
  - injection H as <-. lia.
  - specialize (IH i x Ht H). lia.
Qed.

Lemma set_nth_sum : forall l i x v, nth_opt l i = Some x -> sumZ (set_nth l i v) = sumZ l - x + v.
Proof.
  induction l as [|y t IH]; intros [|i] x v H; cbn [nth_opt] in H; try discriminate; cbn [set_nth]; rewrite !sumZ_cons.
  - injection H as <-. lia.
  - rewrite (IH i x v H). lia.
Qed.

Lemma set_nth_nonneg : forall l i v, nonneg l -> 0 <= v -> nonneg (set_nth l i v).
Proof.
  induction l as [|y t IH]; intros [|i] v Hn Hv; cbn [set_nth]; auto; inversion Hn; subst; constructor; auto.
  apply IH; auto.
Qed.

(* ---- element-wise vector addition (Rayon.vadd) on equal lengths ---- *)

Lemma vadd_nth : forall a b s, length a = length b ->
  nth_opt (vadd a b) s = match nth_opt a s, nth_opt b s with Some x, Some y => Some (x + y) | _, _ => None end.
Proof.
  induction a as [|x a IH]; intros [|y b] s HL; cbn [length] in HL; try discriminate.
  - destruct s; reflexivity.
  - destruct s as [|s]; cbn [vadd nth_opt]; [reflexivity|]. apply IH. lia.
Qed.

Lemma vadd_set_nth : forall a b s x v, length a = length b -> nth_opt a s = Some x ->
  set_nth (vadd a b) s (x + v) = vadd a (set_nth b s v).
Proof.
  induction a as [|y a IH]; intros [|z b] s x v HL H; cbn [length] in HL; try discriminate.
  destruct s as [|s]; cbn [nth_opt] in H; cbn [vadd set_nth].
  - injection H as <-. reflexivity.
  - f_equal. apply IH; [lia|exact H].
Qed.

Lemma vadd_length : forall a b, length a = length b -> length (vadd a b) = length a.
Proof. induction a as [|x a IH]; intros [|y b] HL; cbn [length] in *; try discriminate; auto. cbn [vadd length]. rewrite IH; lia. Qed.

Lemma vadd_zeros_r : forall a, vadd a (repeat 0 (length a)) = a.
Proof. induction a as [|x a IH]; cbn [length repeat vadd]; [reflexivity|]. rewrite IH. f_equal. lia. Qed.

Lemma vadd_nonneg : forall a b, nonneg a -> nonneg b -> nonneg (vadd a b).
Proof.
  induction a as [|x a IH]; intros [|y b] Ha Hb; cbn [vadd]; auto.
  inversion Ha; inversion Hb; subst. constructor; [lia|]. apply IH; auto.
Qed.

(* ---- the integer shadow of part_weights_of ---- *)

Fixpoint pwZ (positions : list N) (pts : list N) (zs : list Z) (acc : list Z) : res (list Z) :=
  match pts, zs with
  | p :: pt, z :: zt =>
    bind (bsearch_pc_idx positions p) (fun s =>
      match nth_opt acc s with
      | None => Panic 23
      | Some x => pwZ positions pt zt (set_nth acc s (x + z))
      end)
  | _, _ => Ok acc
  end.

Lemma pwZ_props positions : forall pts zs acc r,
  nonneg zs -> nonneg acc -> pwZ positions pts zs acc = Ok r ->
  length r = length acc /\ nonneg r /\ sumZ r <= sumZ acc + sumZ zs.
Proof.
  induction pts as [|p pt IH]; intros zs acc r Hz Ha H; cbn [pwZ] in H.
  - injection H as <-. pose proof (sumZ_nonneg zs Hz). repeat split; auto; lia.
  - destruct zs as [|z zt]; [injection H as <-; cbn [sumZ fold_right]; repeat split; auto; lia|].
    inversion Hz as [|? ? Hz0 Hzt]; subst.
    destruct (bsearch_pc_idx positions p) as [s| | |]; cbn [bind] in H; try discriminate.
    destruct (nth_opt acc s) as [x|] eqn:Ex; [|discriminate].
    pose proof (nth_opt_le_sum _ _ _ Ha Ex) as Hx.
    apply IH in H; auto; [|apply set_nth_nonneg; auto; lia].
    destruct H as [L [Nn S]]. rewrite set_nth_length in L. rewrite (set_nth_sum _ _ _ _ Ex) in S.
    rewrite sumZ_cons. repeat split; auto; lia.
Qed.

Lemma pwZ_app positions : forall p1 z1 p2 z2 acc, length p1 = length z1 ->
  pwZ positions (p1 ++ p2) (z1 ++ z2) acc = bind (pwZ positions p1 z1 acc) (fun a1 => pwZ positions p2 z2 a1).
Proof.
  induction p1 as [|p p1 IH]; intros [|z z1] p2 z2 acc HL; cbn [length] in HL; try discriminate; cbn [app pwZ bind]; [reflexivity|].
  destruct (bsearch_pc_idx positions p) as [s| | |]; cbn [bind]; try reflexivity.
  destruct (nth_opt acc s); [|reflexivity]. apply IH. lia.
Qed.

Lemma pwZ_vadd positions : forall pts zs a b, length a = length b ->
  pwZ positions pts zs (vadd a b) = bind (pwZ positions pts zs b) (fun r => Ok (vadd a r)).
Proof.
  induction pts as [|p pt IH]; intros zs a b HL; cbn [pwZ]; [reflexivity|].
  destruct zs as [|z zt]; [reflexivity|].
  destruct (bsearch_pc_idx positions p) as [s| | |]; cbn [bind]; try reflexivity.
  rewrite (vadd_nth a b s HL).
  destruct (nth_opt b s) as [y|] eqn:Ey.
  - destruct (nth_opt_lt a s) as [x Ex]; [rewrite HL; eapply nth_opt_Some; eauto|]. rewrite Ex.
    replace (x + y + z) with (x + (y + z)) by lia.
    rewrite (vadd_set_nth a b s x (y + z) HL Ex). apply IH. rewrite set_nth_length. exact HL.
  - destruct (nth_opt a s); reflexivity.
Qed.

(* zip truncation: only the common prefix of points and weights is used *)
Lemma pwZ_combine positions : forall pts zs acc,
  pwZ positions pts zs acc = pwZ positions (map fst (combine pts zs)) (map snd (combine pts zs)) acc.
Proof.
  induction pts as [|p pt IH]; intros [|z zt] acc; cbn [combine map pwZ fst snd]; try reflexivity.
  destruct (bsearch_pc_idx positions p) as [s| | |]; cbn [bind]; try reflexivity.
  destruct (nth_opt acc s); [apply IH|reflexivity].
Qed.

Section Exact.
  Hypothesis f64_add_exact_int : f64_add_exact_on_integers.

  Lemma fzero_oz : fzero = oz 0.
  Proof. vm_compute. reflexivity. Qed.

  (* the float histogram is the image of the integer histogram *)
  Lemma pw_shadow positions : forall pts zs acc,
    nonneg zs -> nonneg acc -> sumZ acc + sumZ zs <= 2 ^ 53 ->
    part_weights_of positions pts (map oz zs) (map oz acc) = rmap (map oz) (pwZ positions pts zs acc).
  Proof.
    induction pts as [|p pt IH]; intros zs acc Hz Ha Hb; cbn [part_weights_of pwZ rmap]; [reflexivity|].
    destruct zs as [|z zt]; cbn [map]; [reflexivity|].
    inversion Hz as [|? ? Hz0 Hzt]; subst. rewrite sumZ_cons in Hb. pose proof (sumZ_nonneg zt Hzt).
    destruct (bsearch_pc_idx positions p) as [s| | |]; cbn [bind rmap]; try reflexivity.
    rewrite nth_opt_map. destruct (nth_opt acc s) as [x|] eqn:Ex; cbn [option_map rmap]; [|reflexivity].
    pose proof (nth_opt_le_sum _ _ _ Ha Ex) as Hx.
    unfold oz at 2 3. rewrite f64_add_exact_int by lia. fold (oz (x + z)).
    rewrite set_nth_map. apply IH; auto.
    - apply set_nth_nonneg; auto; lia.
    - rewrite (set_nth_sum _ _ _ _ Ex). lia.
  Qed.

  Lemma vaddf_oz : forall a b, length a = length b -> nonneg a -> nonneg b -> sumZ a + sumZ b <= 2 ^ 53 ->
    vaddf (map oz a) (map oz b) = map oz (vadd a b).
  Proof.
    unfold vaddf. induction a as [|x a IH]; intros [|y b] HL Ha Hb Hs; cbn [length] in HL; try discriminate; [reflexivity|].
    inversion Ha; inversion Hb; subst. rewrite !sumZ_cons in Hs.
    pose proof (sumZ_nonneg a ltac:(assumption)). pose proof (sumZ_nonneg b ltac:(assumption)).
    cbn [map combine vadd fst snd]. unfold oz at 1 2. rewrite f64_add_exact_int by lia. fold (oz (x + y)).
    f_equal. apply IH; auto; lia.
  Qed.

  Definition lift (pz : N * Z) : N * spec_float := (fst pz, oz (snd pz)).

  Lemma sum_firstn_skipn (l : list Z) k : nonneg l ->
    nonneg (firstn k l) /\ nonneg (skipn k l) /\ sumZ (firstn k l) + sumZ (skipn k l) = sumZ l.
  Proof.
    intros H. unfold nonneg in H. rewrite <- (firstn_skipn k l) in H. apply Forall_app in H. destruct H as [H1 H2].
    repeat split; auto. rewrite <- sumZ_app, firstn_skipn. reflexivity.
  Qed.

  (* THE histogram lemma: for every split tree, the parallel fold/reduce of a
     piece = the image of the integer histogram of the piece *)
  Lemma par_hist positions n : forall t (piece : list (N * Z)),
    nonneg (map snd piece) -> sumZ (map snd piece) <= 2 ^ 53 ->
    par_fold (pw_piece positions n) red_pw t (map lift piece)
    = rmap (map oz) (pwZ positions (map fst piece) (map snd piece) (repeat 0 n)).
  Proof.
    induction t as [|k l IHl r IHr]; intros piece Hn Hs; cbn [par_fold].
    - unfold pw_piece. rewrite !map_map. cbn [lift fst snd].
      rewrite <- (map_map snd oz), fzero_oz, <- map_repeat.
      rewrite (map_ext (fun x => fst (lift x)) fst) by reflexivity.
      apply pw_shadow; auto.
      + clear. induction n; constructor; auto; lia.
      + replace (sumZ (repeat 0 n)) with 0; [lia|]. clear. induction n; cbn; auto.
    - rewrite firstn_map, skipn_map.
      assert (Hz0 : nonneg (repeat 0 n)) by (clear; induction n; constructor; auto; lia).
      assert (Hs0 : sumZ (repeat 0 n) = 0) by (clear; induction n; cbn; auto).
      destruct (sum_firstn_skipn (map snd piece) k Hn) as [N1 [N2 ES]].
      rewrite firstn_map in N1, ES. rewrite skipn_map in N2, ES.
      pose proof (sumZ_nonneg _ N1). pose proof (sumZ_nonneg _ N2).
      rewrite IHl, IHr by (auto; lia).
      replace (map fst piece) with (map fst (firstn k piece) ++ map fst (skipn k piece))
        by (rewrite <- map_app, firstn_skipn; reflexivity).
      replace (map snd piece) with (map snd (firstn k piece) ++ map snd (skipn k piece))
        by (rewrite <- map_app, firstn_skipn; reflexivity).
      rewrite pwZ_app by (rewrite !map_length; reflexivity).
      destruct (pwZ positions (map fst (firstn k piece)) (map snd (firstn k piece)) (repeat 0 n)) as [h1| | |] eqn:E1;
        cbn [rmap red_pw bind]; try reflexivity.
      destruct (pwZ_props _ _ _ _ _ N1 Hz0 E1) as [L1 [P1 S1]]. rewrite repeat_length in L1.
      assert (Ez : vadd h1 (repeat 0 n) = h1) by (rewrite <- L1; apply vadd_zeros_r).
      pose proof (pwZ_vadd positions (map fst (skipn k piece)) (map snd (skipn k piece)) h1 (repeat 0 n)
                           ltac:(rewrite repeat_length; exact L1)) as PV.
      rewrite Ez in PV. rewrite PV. clear PV.
      destruct (pwZ positions (map fst (skipn k piece)) (map snd (skipn k piece)) (repeat 0 n)) as [h2| | |] eqn:E2;
        cbn [rmap bind]; try reflexivity.
      destruct (pwZ_props _ _ _ _ _ N2 Hz0 E2) as [L2 [P2 S2]]. rewrite repeat_length in L2.
      f_equal. apply vaddf_oz; auto; lia.
  Qed.

  Lemma combine_lift : forall pts zs, combine pts (map oz zs) = map lift (combine pts zs).
  Proof. induction pts as [|p pt IH]; intros [|z zt]; cbn [combine map]; auto. rewrite IH. reflexivity. Qed.

  Lemma nonneg_combine_snd : forall (pts : list N) zs, nonneg zs ->
    nonneg (map snd (combine pts zs)) /\ sumZ (map snd (combine pts zs)) <= sumZ zs.
  Proof.
    induction pts as [|p pt IH]; intros zs H.
    - cbn [combine map]. split; [constructor|]. apply (sumZ_nonneg zs H).
    - destruct zs as [|z zt]; cbn [combine map snd].
      + split; [constructor|]. cbn. lia.
      + inversion H as [|? ? Hz Hzt]; subst. destruct (IH zt Hzt) as [A B].
        split; [constructor; auto|]. rewrite !sumZ_cons. lia.
  Qed.

  (* the scheduled histogram = the sequential one, whatever the tree *)
  Theorem part_weights_sched_seq t positions n pts zs :
    nonneg zs -> sumZ zs <= 2 ^ 53 ->
    part_weights_sched t positions n pts (map oz zs)
    = part_weights_of positions pts (map oz zs) (repeat fzero n).
  Proof.
    intros Hn Hs. unfold part_weights_sched. rewrite combine_lift.
    destruct (nonneg_combine_snd pts zs Hn) as [A B].
    rewrite par_hist by (auto; lia). rewrite <- pwZ_combine.
    rewrite fzero_oz, <- map_repeat. symmetry. apply pw_shadow; auto.
    - clear. induction n; constructor; auto; lia.
    - replace (sumZ (repeat 0 n)) with 0; [lia|]. clear. induction n; cbn; auto.
  Qed.

  Lemma wq_loop_s_seq ts tol n pts zs : nonneg zs -> sumZ zs <= 2 ^ 53 -> forall fuel ss todo,
    wq_loop_s ts tol fuel n pts (map oz zs) ss todo = wq_loop tol fuel n pts (map oz zs) ss todo.
  Proof.
    intros Hn Hs. induction fuel as [|f IH]; intros ss todo; destruct todo as [|t]; cbn [wq_loop_s wq_loop]; try reflexivity.
    unfold wq_round_s, wq_round. rewrite part_weights_sched_seq by assumption.
    destruct (part_weights_of (map s_pos ss) pts (map oz zs) (repeat fzero n)) as [pws| | |]; cbn [bind]; try reflexivity.
    destruct (update_splits tol n (map s_pos ss) pws (fold_left f64_add pws fnegzero) 0 ss (prefix_sums fzero pws)) as [[ss' c]| | |];
      cbn [bind]; try reflexivity.
    apply IH.
  Qed.

  Theorem hilbert_partition_s_seq ts tol maxo order fuel idx zs k p0 :
    nonneg zs -> sumZ zs <= 2 ^ 53 ->
    hilbert_partition_s ts tol maxo order fuel idx (map oz zs) k p0
    = hilbert_partition tol maxo order fuel idx (map oz zs) k p0.
  Proof.
    intros Hn Hs. unfold hilbert_partition_s, hilbert_partition, weighted_quantiles_s, weighted_quantiles.
    destruct (maxo <? order)%N; [reflexivity|]. destruct p0; [reflexivity|].
    destruct k; [reflexivity|]. destruct (min_list idx); [|reflexivity]. destruct (max_list idx); [|reflexivity].
    rewrite wq_loop_s_seq by assumption. reflexivity.
  Qed.

  (* C06 for HilbertCurve, given the per-point curve indices: the result does
     not depend on the split trees rayon uses in the rounds of the quantile search *)
  Theorem hilbert_sched_indep ws : exact_sums ws ->
    forall ts1 ts2 tol maxo order fuel idx k p0,
    hilbert_partition_s ts1 tol maxo order fuel idx ws k p0
    = hilbert_partition_s ts2 tol maxo order fuel idx ws k p0.
  Proof.
    intros [zs [-> [Hn Hs]]] ts1 ts2 tol maxo order fuel idx k p0.
    change (map (fun z => f64_of_Z z) zs) with (map oz zs).
    rewrite !hilbert_partition_s_seq by assumption. reflexivity.
  Qed.
End Exact.

(* binary64 facts for the k-means model, from SpecFloat's definitions alone (no
   real numbers, no axioms):
     - the result of a rounding is never NaN, hence x - y is not NaN when x is
       not NaN and y is finite;
     - [inside_cmp] (the premise of KMeansNoPanic.kmeans_no_panic) holds;
     - partial_cmp is a total order on the values accepted by [val_ok_f64], with
       `Equal` = identical;
     - -0.0 + x = x. *)
From Coupe Require Import Lib.Prelude Lib.SFloat Lib.Rayon Model.KMeansAbs Model.KMeans
  Proofs.KMeansProofs Proofs.KMeansNoPanic.
From Coq Require Import Floats.SpecFloat.
Local Open Scope Z_scope.

Section NoNan.
  Variables prec emax : Z.

  Lemma shr_1_nonneg mrs : 0 <= shr_m mrs -> 0 <= shr_m (shr_1 mrs).
  Proof. destruct mrs as [m r s]. cbn [shr_m]. intros H. destruct m as [|[p|p|]|[p|p|]]; cbn; lia. Qed.

  Lemma iter_pos_nonneg p : forall mrs, 0 <= shr_m mrs -> 0 <= shr_m (iter_pos shr_1 p mrs).
  Proof.
    induction p as [p IH|p IH|]; intros mrs H; cbn [iter_pos].
    - apply IH, IH, shr_1_nonneg, H.
    - apply IH, IH, H.
    - apply shr_1_nonneg, H.
  Qed.

  Lemma shr_nonneg mrs e n : 0 <= shr_m mrs -> 0 <= shr_m (fst (shr mrs e n)).
  Proof. intros H. unfold shr. destruct n; cbn [fst]; auto. now apply iter_pos_nonneg. Qed.

  Lemma shr_fexp_nonneg m e l : 0 <= m -> 0 <= shr_m (fst (shr_fexp prec emax m e l)).
  Proof.
    intros H. unfold shr_fexp. apply shr_nonneg. unfold shr_record_of_loc.
    destruct l as [|[| |]]; cbn [shr_m]; exact H.
  Qed.

  Lemma rne_nonneg m l : 0 <= m -> 0 <= round_nearest_even m l.
  Proof. intros H. unfold round_nearest_even. destruct l as [|[| |]]; try lia. destruct (Z.even m); lia. Qed.

  Lemma binary_round_aux_not_nan sx mx ex lx : 0 <= mx -> is_nan (binary_round_aux prec emax sx mx ex lx) = false.
  Proof.
    intros H. unfold binary_round_aux.
    pose proof (shr_fexp_nonneg mx ex lx H) as H1.
    destruct (shr_fexp prec emax mx ex lx) as [mrs' e']. cbn [fst] in H1.
    pose proof (shr_fexp_nonneg (round_nearest_even (shr_m mrs') (loc_of_shr_record mrs')) e' loc_Exact
                  (rne_nonneg _ _ H1)) as H2.
    destruct (shr_fexp prec emax _ e' loc_Exact) as [mrs'' e'']. cbn [fst] in H2.
    destruct (shr_m mrs'') as [|m|m]; try reflexivity; try lia.
    destruct (e'' <=? emax - prec); reflexivity.
  Qed.

  Lemma binary_round_not_nan sx mx ex : is_nan (binary_round prec emax sx mx ex) = false.
  Proof.
    unfold binary_round. destruct (shl_align mx ex _) as [mz ez]. apply binary_round_aux_not_nan. lia.
  Qed.

  Lemma binary_normalize_not_nan m e sz : is_nan (binary_normalize prec emax m e sz) = false.
  Proof. unfold binary_normalize. destruct m; try reflexivity; apply binary_round_not_nan. Qed.

  (* x - y for y finite (zero included) and x not NaN *)
  Lemma SFsub_not_nan x y : is_nan x = false -> is_finite y = true -> is_nan (SFsub prec emax x y) = false.
  Proof.
    intros Hx Hy. destruct x as [sx|sx| |sx mx ex], y as [sy|sy| |sy my ey]; try discriminate; cbn [SFsub]; try reflexivity.
    - destruct (Bool.eqb sx (negb sy)); reflexivity.
    - apply binary_normalize_not_nan.
  Qed.

  Lemma SFadd_nan_l y : SFadd prec emax S754_nan y = S754_nan.
  Proof. reflexivity. Qed.
End NoNan.

Lemma SFcompare_not_nan x y : is_nan x = false -> is_nan y = false -> SFcompare x y <> None.
Proof. destruct x, y; try discriminate; cbn [SFcompare]; discriminate. Qed.

Lemma SFcompare_some_not_nan x y c : SFcompare x y = Some c -> is_nan x = false /\ is_nan y = false.
Proof. destruct x, y; cbn [SFcompare]; try discriminate; auto. Qed.

Lemma SFcompare_lt_finite x y z : SFcompare x y = Some Lt -> SFcompare x z = Some Gt -> is_finite x = true.
Proof.
  destruct x as [sx|sx| |sx mx ex]; try reflexivity; try discriminate.
  destruct sx.
  - intros _. destruct z as [sz|[|]| |[|] mz ez]; cbn [SFcompare]; discriminate.
  - destruct y as [sy|[|]| |[|] my ey]; cbn [SFcompare]; discriminate.
Qed.

Lemma fabs_not_nan x : is_nan x = false -> is_nan (fabs x) = false.
Proof. destruct x; auto. Qed.

Section F64.
  Variables (lg : spec_float -> spec_float -> spec_float) (ex : spec_float -> spec_float).
  Variables fmax_bits fmin_bits eps_bits step_bits : N.
  Let A := F64km lg ex fmax_bits fmin_bits eps_bits step_bits.

  Lemma inside_val_not_nan v : inside_val A v -> is_nan v = false.
  Proof.
    intros (mn & mx & x & H1 & H2 & Hv).
    unfold klt, kgt in H1, H2. cbn [A F64km k_cmp k_add k_sub k_eps] in H1, H2. unfold fcmp in H1, H2.
    destruct (SFcompare x (f64_add mx _)) as [[| |]|] eqn:E1; try discriminate.
    destruct (SFcompare x (f64_sub mn _)) as [[| |]|] eqn:E2; try discriminate.
    pose proof (SFcompare_lt_finite _ _ _ E1 E2) as Hf.
    apply SFcompare_some_not_nan in E1. apply SFcompare_some_not_nan in E2.
    assert (Hmx : is_nan mx = false) by (destruct mx; auto; destruct E1 as [_ E1]; discriminate).
    assert (Hmn : is_nan mn = false) by (destruct mn; auto; destruct E2 as [_ E2]; discriminate).
    cbn [A F64km k_abs k_sub] in Hv. destruct Hv as [->| ->]; apply fabs_not_nan; apply SFsub_not_nan; auto.
  Qed.

  Lemma inside_cmp_f64 v w : inside_val A v -> inside_val A w -> k_cmp A v w <> None.
  Proof.
    intros Hv Hw. cbn [A F64km k_cmp]. unfold fcmp. apply SFcompare_not_nan; apply inside_val_not_nan; auto.
  Qed.

  (* binary64: KMeans::partition does not panic inside the contract *)
  Theorem kmeans_no_panic_f64 : forall T P M D cfg,
    (1 <= D)%nat -> (1 <= length M)%nat ->
    forall points weights part,
    length points = length part ->
    valid_partition part ->
    exists part', kmeans A (reds_tree A T P) (Some M) D cfg points weights part = Ok part'.
  Proof. intros. apply kmeans_no_panic; auto. exact inside_cmp_f64. Qed.
End F64.

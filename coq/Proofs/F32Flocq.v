(* binary32 facts behind the Rcb cut search, proved with Flocq 4.1
   (BinarySingleNaN): SpecFloat's division / addition / comparison on valid
   binary32 values are Flocq's Bdiv / Bplus / Bltb, hence roundings of the
   real operations.  Results: the midpoint `min / 2.0 + max / 2.0` of two
   finite values is finite ([mid_fin32]) and, when it does not fall strictly
   between its arguments, no finite value does ([mid_exhausted32]); the
   conversion `as f32` returns a canonical value.
   This file (and what depends on it) uses the real-number axioms of Coq's
   standard library through Flocq (named in the trusted base of C03 / C04). *)
From Coq Require Import ZArith Reals Lia Lra Psatz Bool Floats.SpecFloat.
From Flocq Require Import Core Ulp BinarySingleNaN.
From Coupe Require Import Lib.SFloat Model.Rcb.

Local Open Scope R_scope.

Notation prec := 24%Z.
Notation emax := 128%Z.
#[local] Instance Hprec : FLX.Prec_gt_0 prec := eq_refl _.
#[local] Instance Hmax : Prec_lt_emax prec emax := eq_refl _.
Notation bf := (binary_float prec emax).
Notation fexp32 := (SpecFloat.fexp prec emax).
Notation F32 := (generic_format radix2 fexp32).
Notation rnd := (round radix2 fexp32 ZnearestE).
Notation finB := (@BinarySingleNaN.is_finite prec emax).
Notation validb := (valid_binary prec emax).

(* ---------- SpecFloat's rounding = Flocq's rounding in mode NE (the lemmas
   of Flocq.IEEE754.PrimFloat, restated at binary32) ---------- *)
Lemma round_nearest_even_equiv s m l :
  round_nearest_even m l = choice_mode mode_NE s m l.
Proof.
  case l; [reflexivity|intro c].
  case c; [ | reflexivity..].
  now simpl; unfold Round.cond_incr; case Z.even.
Qed.

Lemma binary_round_aux_equiv sx mx ex lx :
  SpecFloat.binary_round_aux prec emax sx mx ex lx
  = binary_round_aux prec emax mode_NE sx mx ex lx.
Proof.
  unfold SpecFloat.binary_round_aux, binary_round_aux.
  set (mrse' := shr_fexp _ _ _).
  case mrse'; intros mrs' e'; simpl.
  now rewrite (round_nearest_even_equiv sx).
Qed.

Lemma binary_round_equiv s m e :
  SpecFloat.binary_round prec emax s m e = binary_round prec emax mode_NE s m e.
Proof.
  unfold SpecFloat.binary_round, binary_round, shl_align_fexp.
  set (mez := shl_align _ _ _); case mez as [mz ez].
  apply binary_round_aux_equiv.
Qed.

Lemma binary_normalize_equiv m e szero :
  SpecFloat.binary_normalize prec emax m e szero
  = B2SF (binary_normalize prec emax Hprec Hmax mode_NE m e szero).
Proof.
  case m as [ | p | p].
  - now simpl.
  - simpl; rewrite B2SF_SF2B; apply binary_round_equiv.
  - simpl; rewrite B2SF_SF2B; apply binary_round_equiv.
Qed.

(* ---------- links ---------- *)
Lemma div_link (x y : bf) : f32_div (B2SF x) (B2SF y) = B2SF (Bdiv mode_NE x y).
Proof.
  destruct x as [sx|sx| |sx mx ex Bx]; destruct y as [sy|sy| |sy my ey By]; try reflexivity.
  simpl. rewrite B2SF_SF2B.
  set (melz := SFdiv_core_binary _ _ _ _ _ _).
  case melz as [[mz ez] lz].
  apply binary_round_aux_equiv.
Qed.

Lemma add_link (x y : bf) : f32_add (B2SF x) (B2SF y) = B2SF (Bplus mode_NE x y).
Proof.
  destruct x as [sx|sx| |sx mx ex Bx], y as [sy|sy| |sy my ey By];
    try reflexivity; try (cbn; destruct (Bool.eqb _ _); reflexivity).
  cbn. apply binary_normalize_equiv.
Qed.

Lemma flt_link (x y : bf) : flt (B2SF x) (B2SF y) = Bltb x y.
Proof. reflexivity. Qed.

Definition TWO : bf := @B754_finite prec emax false 8388608 (-22) eq_refl.
Lemma TWO_ok : B2SF TWO = f32_of_Z 2. Proof. vm_compute. reflexivity. Qed.
Lemma B2R_TWO : B2R TWO = 2.
Proof.
  unfold TWO, B2R, F2R. cbn [cond_Zopp Fnum Fexp].
  change (-22)%Z with (- (22))%Z. rewrite bpow_opp.
  change (bpow radix2 22) with (IZR (2 ^ 22)). change (2 ^ 22)%Z with 4194304%Z. lra.
Qed.

(* ---------- the real-number midpoint ---------- *)
Definition Mid (a b : R) : R := rnd (rnd (a / 2) + rnd (b / 2)).

(* largest finite binary32 value *)
Definition MX : R := bpow radix2 emax - bpow radix2 (emax - prec).

Lemma MX_format : F32 MX.
Proof.
  unfold MX. change fexp32 with (FLT_exp (-149) prec).
  apply generic_format_FLT. exists (Float radix2 (2 ^ 24 - 1) 104).
  - unfold F2R. cbn [Fnum Fexp].
    change (bpow radix2 emax) with (IZR (2 ^ 128)). change (bpow radix2 (emax - prec)) with (IZR (2 ^ 104)).
    change (bpow radix2 104) with (IZR (2 ^ 104)). rewrite <- mult_IZR, <- minus_IZR. f_equal.
  - cbn. lia.
  - cbn. lia.
Qed.

Lemma MX_lt : MX < bpow radix2 emax.
Proof. unfold MX. pose proof (bpow_gt_0 radix2 (emax - prec)). lra. Qed.
Lemma MX_pos : 0 < MX.
Proof.
  unfold MX. assert (bpow radix2 (emax - prec) < bpow radix2 emax) by (apply bpow_lt; lia). lra.
Qed.

Lemma rnd_le_MX z : Rabs z <= MX -> Rabs (rnd z) <= MX.
Proof.
  intros Hz. apply abs_round_le_generic; auto with typeclass_instances.
  - apply fexp_correct. reflexivity.
  - apply MX_format.
Qed.

Lemma rnd_mono a b : a <= b -> rnd a <= rnd b.
Proof. apply round_le; auto with typeclass_instances. apply fexp_correct; reflexivity. Qed.
Lemma rnd_id a : F32 a -> rnd a = a.
Proof. apply round_generic; auto with typeclass_instances. Qed.
Lemma rnd_F32 a : F32 (rnd a).
Proof. apply generic_format_round; auto with typeclass_instances. apply fexp_correct; reflexivity. Qed.

Lemma half_ok (x : bf) : finB x = true ->
  B2R (Bdiv mode_NE x TWO) = rnd (B2R x / 2) /\ finB (Bdiv mode_NE x TWO) = true
  /\ Rabs (rnd (B2R x / 2)) <= MX / 2.
Proof.
  intros Fx.
  assert (Hb : Rabs (rnd (B2R x / 2)) <= MX / 2).
  { apply abs_round_le_generic; auto with typeclass_instances.
    - apply fexp_correct; reflexivity.
    - unfold MX. change fexp32 with (FLT_exp (-149) prec).
      apply generic_format_FLT. exists (Float radix2 (2 ^ 24 - 1) 103).
      + unfold F2R. cbn [Fnum Fexp].
        change (bpow radix2 emax) with (IZR (2 ^ 128)). change (bpow radix2 (emax - prec)) with (IZR (2 ^ 104)).
        change (bpow radix2 103) with (IZR (2 ^ 103)).
        change (2 ^ 128)%Z with (2 * (2 ^ 24 * 2 ^ 103))%Z. change (2 ^ 104)%Z with (2 * 2 ^ 103)%Z.
        rewrite !mult_IZR, minus_IZR. field.
      + cbn. lia.
      + cbn. lia.
    - unfold Rdiv. rewrite Rabs_mult, (Rabs_pos_eq (/ 2)) by lra.
      pose proof (abs_B2R_le_emax_minus_prec prec emax Hprec x) as H. fold MX in H. lra. }
  pose proof (Bdiv_correct prec emax Hprec Hmax mode_NE x TWO ltac:(rewrite B2R_TWO; lra)) as H.
  rewrite B2R_TWO in H. cbn [round_mode] in H.
  rewrite Rlt_bool_true in H.
  - destruct H as (H1 & H2 & _). rewrite Fx in H2. auto.
  - pose proof MX_lt. pose proof MX_pos. lra.
Qed.

(* the binary32 midpoint of two finite values: a finite value, the rounding
   of the sum of the rounded halves *)
Lemma mid_ok (a b : bf) : finB a = true -> finB b = true ->
  exists m : bf, f32_mid true (B2SF a) (B2SF b) = B2SF m /\ finB m = true /\ B2R m = Mid (B2R a) (B2R b).
Proof.
  intros Fa Fb. unfold f32_mid. rewrite <- TWO_ok, !div_link, add_link.
  destruct (half_ok a Fa) as (Ra & Fa' & Ba). destruct (half_ok b Fb) as (Rb & Fb' & Bb).
  exists (Bplus mode_NE (Bdiv mode_NE a TWO) (Bdiv mode_NE b TWO)). split; [reflexivity|].
  pose proof (Bplus_correct prec emax Hprec Hmax mode_NE _ _ Fa' Fb') as H. cbn [round_mode] in H.
  rewrite Ra, Rb in H. rewrite Rlt_bool_true in H.
  - destruct H as (H1 & H2 & _). split; [exact H2|exact H1].
  - apply Rle_lt_trans with MX; [|apply MX_lt]. apply rnd_le_MX.
    eapply Rle_trans; [apply Rabs_triang|]. lra.
Qed.

(* ---------- lifting valid finite SpecFloat values ---------- *)
Lemma fin_split x : f32_fin x = true -> validb x = true /\ SFloat.is_finite x = true.
Proof. unfold f32_fin. intros H. apply andb_true_iff in H. exact H. Qed.

Lemma lift x : f32_fin x = true -> exists X : bf, B2SF X = x /\ finB X = true.
Proof.
  intros H. destruct (fin_split x H) as [V Fi]. exists (SF2B x V). split; [apply B2SF_SF2B|].
  destruct x; try discriminate; reflexivity.
Qed.

Lemma f32_fin_B2SF (X : bf) : finB X = true -> f32_fin (B2SF X) = true.
Proof.
  intros H. unfold f32_fin. rewrite valid_binary_B2SF. destruct X; try discriminate; reflexivity.
Qed.

(* (A) the midpoint of two finite values is finite *)
Theorem mid_fin32 a b : f32_fin a = true -> f32_fin b = true -> f32_fin (f32_mid true a b) = true.
Proof.
  intros Ha Hb. destruct (lift a Ha) as (A & <- & FA). destruct (lift b Hb) as (B & <- & FB).
  destruct (mid_ok A B FA FB) as (m & -> & Fm & _). apply f32_fin_B2SF, Fm.
Qed.

(* `x as f32` returns a canonical value *)
Theorem f64_to_f32_valid x : validb (f64_to_f32 x) = true.
Proof.
  destruct x as [s|s| |s m e]; try reflexivity. unfold f64_to_f32. rewrite binary_round_equiv.
  exact (proj1 (binary_round_correct prec emax Hprec Hmax mode_NE s m e)).
Qed.

(* ================= (B): the midpoint is strictly between ================= *)

Definition u : R := bpow radix2 (-149).
Definition T : R := bpow radix2 (-125).

Lemma u_pos : 0 < u. Proof. apply bpow_gt_0. Qed.
Lemma IZR_pow2 k : (0 <= k)%Z -> IZR (2 ^ k) = bpow radix2 k.
Proof. intros Hk. exact (IZR_Zpower radix2 k Hk). Qed.
Lemma T_u : T = IZR (2 ^ 24) * u.
Proof.
  unfold T, u. change (-125)%Z with (24 + -149)%Z. rewrite bpow_plus. f_equal.
Qed.

(* every binary32 value is an integer multiple of u *)
Lemma F32_int y : F32 y -> exists N : Z, y = IZR N * u.
Proof.
  intros Hy. change fexp32 with (FLT_exp (-149) prec) in Hy.
  apply FLT_format_generic in Hy; [|exact Hprec]. destruct Hy as [f Hf Hm He].
  exists (Fnum f * 2 ^ (Fexp f + 149))%Z. rewrite Hf. unfold F2R, u.
  rewrite mult_IZR, IZR_pow2 by lia. rewrite Rmult_assoc, <- bpow_plus. do 2 f_equal. lia.
Qed.

Lemma IZR_u_inj N M : IZR N * u = IZR M * u -> N = M.
Proof. intros H. apply eq_IZR. pose proof u_pos. nra. Qed.

(* at or above T in magnitude: even multiple, and the half is representable *)
Lemma F32_big y N : F32 y -> y = IZR N * u -> T <= Rabs y -> Z.even N = true /\ F32 (y / 2).
Proof.
  intros Hy HN HT. change fexp32 with (FLT_exp (-149) prec) in *.
  apply FLT_format_generic in Hy; [|exact Hprec]. destruct Hy as [f Hf Hm He].
  assert (He2 : (-148 <= Fexp f)%Z).
  { destruct (Z_lt_le_dec (Fexp f) (-148)) as [Q|Q]; [|exact Q]. exfalso.
    assert (E : Fexp f = (-149)%Z) by lia.
    rewrite Hf in HT. unfold F2R in HT. rewrite E in HT. fold u in HT.
    rewrite Rabs_mult, (Rabs_pos_eq u) in HT by (pose proof u_pos; lra).
    rewrite T_u in HT. rewrite <- abs_IZR in HT.
    assert (IZR (Z.abs (Fnum f)) < IZR (2 ^ 24)) by (apply IZR_lt; exact Hm).
    pose proof u_pos. nra. }
  split.
  - assert (E : N = (Fnum f * 2 ^ (Fexp f + 149))%Z).
    { apply IZR_u_inj. rewrite <- HN, Hf. unfold F2R, u.
      rewrite mult_IZR, IZR_pow2 by lia. rewrite Rmult_assoc, <- bpow_plus. do 2 f_equal. lia. }
    rewrite E. replace (Fexp f + 149)%Z with (Z.succ (Fexp f + 148)) by lia.
    rewrite Z.pow_succ_r by lia. rewrite Z.even_mul, Z.even_mul. cbn. rewrite orb_true_r. reflexivity.
  - apply generic_format_FLT. exists (Float radix2 (Fnum f) (Fexp f - 1)).
    + rewrite Hf. unfold F2R. cbn [Fnum Fexp]. unfold Zminus. rewrite bpow_plus.
      replace (bpow radix2 (- (1))) with (/ 2) by (cbn; lra). field.
    + exact Hm.
    + cbn [Fexp]. lia.
Qed.

Lemma F32_small N : (Z.abs N <= 2 ^ 24)%Z -> F32 (IZR N * u).
Proof.
  intros HN. destruct (Z_lt_le_dec (Z.abs N) (2 ^ 24)) as [Q|Q].
  - change fexp32 with (FLT_exp (-149) prec). apply generic_format_FLT.
    exists (Float radix2 N (-149)); [reflexivity|exact Q|cbn; lia].
  - assert (E : N = (2 ^ 24)%Z \/ N = (- 2 ^ 24)%Z) by lia.
    destruct E as [-> | ->].
    + rewrite <- T_u. unfold T. apply generic_format_bpow. cbv. discriminate.
    + rewrite opp_IZR, Ropp_mult_distr_l_reverse, <- T_u. apply generic_format_opp.
      unfold T. apply generic_format_bpow. cbv. discriminate.
Qed.

(* rounding below T in magnitude: to the nearest multiple of u *)
Lemma rnd_small v : Rabs v < T -> rnd v = IZR (ZnearestE (v / u)) * u.
Proof.
  intros Hv. destruct (Req_dec v 0) as [->|Hnz].
  - rewrite round_0 by auto with typeclass_instances. unfold Rdiv. rewrite Rmult_0_l. rewrite (Zrnd_IZR ZnearestE 0). lra.
  - unfold round, F2R, scaled_mantissa. cbn [Fnum Fexp].
    assert (Hc : cexp radix2 fexp32 v = (-149)%Z).
    { unfold cexp. assert (Hm : (mag radix2 v <= -125)%Z) by (apply mag_le_bpow; [exact Hnz|exact Hv]).
      unfold SpecFloat.fexp, SpecFloat.emin. lia. }
    rewrite Hc. fold u. f_equal. f_equal. f_equal. unfold u. rewrite bpow_opp. reflexivity.
Qed.

Lemma ZnearestE_half_odd q : ZnearestE (IZR (2 * q + 1) / 2) = if Z.even q then q else (q + 1)%Z.
Proof.
  assert (E : IZR (2 * q + 1) / 2 = IZR q + / 2) by (rewrite plus_IZR, mult_IZR; field).
  rewrite E. unfold Znearest.
  assert (Hf : Zfloor (IZR q + / 2) = q) by (apply Zfloor_imp; rewrite plus_IZR; lra).
  assert (Hc : Zceil (IZR q + / 2) = (q + 1)%Z) by (apply Zceil_imp; rewrite minus_IZR, plus_IZR; lra).
  rewrite Hf, Hc. replace (IZR q + / 2 - IZR q) with (/ 2) by lra.
  rewrite Rcompare_Eq by reflexivity. destruct (Z.even q); reflexivity.
Qed.

(* the rounded half of a binary32 value *)
Lemma half_cases y N : F32 y -> y = IZR N * u ->
  (Z.even N = true /\ rnd (y / 2) = y / 2)
  \/ (Z.even N = false /\ Rabs y < T
      /\ exists H, rnd (y / 2) = IZR H * u /\ Z.even H = true /\ (2 * H = N - 1 \/ 2 * H = N + 1)%Z).
Proof.
  intros Hy HN. destruct (Rle_lt_dec T (Rabs y)) as [Hbig|Hsm].
  - left. destruct (F32_big y N Hy HN Hbig) as [A B]. split; [exact A|apply rnd_id, B].
  - assert (HNb : (Z.abs N < 2 ^ 24)%Z).
    { apply lt_IZR. rewrite abs_IZR. rewrite HN, Rabs_mult, (Rabs_pos_eq u), T_u in Hsm by (pose proof u_pos; lra).
      pose proof u_pos. nra. }
    destruct (Z.even N) eqn:Ev.
    + left. split; [reflexivity|]. apply rnd_id.
      apply Z.even_spec in Ev. destruct Ev as [k Hk]. subst N.
      replace (y / 2) with (IZR k * u) by (rewrite HN, mult_IZR; field). apply F32_small. lia.
    + right. split; [reflexivity|]. split; [exact Hsm|].
      assert (Ho : Z.odd N = true) by (rewrite <- Z.negb_even, Ev; reflexivity).
      apply Z.odd_spec in Ho. destruct Ho as [q Hq].
      assert (Hv : Rabs (y / 2) < T).
      { unfold Rdiv. rewrite Rabs_mult, (Rabs_pos_eq (/ 2)) by lra. pose proof (Rabs_pos y). lra. }
      rewrite (rnd_small _ Hv).
      replace (y / 2 / u) with (IZR (2 * q + 1) / 2) by (rewrite HN, Hq; field; pose proof u_pos; lra).
      rewrite ZnearestE_half_odd. destruct (Z.even q) eqn:Eq.
      * exists q. split; [reflexivity|]. split; [exact Eq|left; lia].
      * exists (q + 1)%Z. split; [reflexivity|]. split; [|right; lia].
        rewrite Z.even_add, Eq. reflexivity.
Qed.

(* ---------- nearest-point property on multiples of u ---------- *)
Lemma nearest g r : F32 g -> Rabs (rnd r - r) <= Rabs (g - r).
Proof.
  intros Hg. pose proof (@round_N_pt radix2 fexp32 (fexp_correct prec emax Hprec) (fun t => negb (Z.even t)) r) as [_ H].
  apply H, Hg.
Qed.

Lemma nearest_int A R G : rnd (IZR R * u) = IZR A * u -> F32 (IZR G * u) -> (Z.abs (A - R) <= Z.abs (G - R))%Z.
Proof.
  intros HA HG. pose proof (nearest _ (IZR R * u) HG) as H. rewrite HA in H.
  replace (IZR A * u - IZR R * u) with (IZR (A - R) * u) in H by (rewrite minus_IZR; ring).
  replace (IZR G * u - IZR R * u) with (IZR (G - R) * u) in H by (rewrite minus_IZR; ring).
  rewrite !Rabs_mult, (Rabs_pos_eq u), <- !abs_IZR in H by (pose proof u_pos; lra).
  apply le_IZR. pose proof u_pos. nra.
Qed.

Lemma IZR_u_lt N M : IZR N * u < IZR M * u -> (N < M)%Z.
Proof. intros H. apply lt_IZR. pose proof u_pos. nra. Qed.
Lemma IZR_u_le N M : (N <= M)%Z -> IZR N * u <= IZR M * u.
Proof. intros H. apply IZR_le in H. pose proof u_pos. nra. Qed.

Lemma small_int y N : y = IZR N * u -> Rabs y < T -> (Z.abs N < 2 ^ 24)%Z.
Proof.
  intros HN Hsm. apply lt_IZR. rewrite abs_IZR.
  rewrite HN, Rabs_mult, (Rabs_pos_eq u), T_u in Hsm by (pose proof u_pos; lra).
  pose proof u_pos. nra.
Qed.

(* the rounded half of a small value, in integers *)
Lemma half_int y N : F32 y -> y = IZR N * u -> Rabs y < T ->
  exists H, rnd (y / 2) = IZR H * u
    /\ ((Z.even N = true /\ (2 * H = N)%Z)
        \/ (Z.even N = false /\ Z.even H = true /\ (2 * H = N - 1 \/ 2 * H = N + 1)%Z)).
Proof.
  intros Hy HN Hsm. destruct (half_cases y N Hy HN) as [[Ev Hr]|(Ev & _ & H & Hr & EH & HH)].
  - apply Z.even_spec in Ev. destruct Ev as [k Hk]. exists k. split.
    + rewrite Hr, HN, Hk, mult_IZR. field.
    + left. split; [rewrite Hk, Z.even_mul; reflexivity|lia].
  - exists H. split; [exact Hr|]. right. auto.
Qed.

(* ---------- the four regimes, lower side ---------- *)
Lemma Mid_gt_exact a x b : F32 x -> rnd (a / 2) = a / 2 -> rnd (b / 2) = b / 2 -> F32 a ->
  a < x -> x < b -> a < Mid a b.
Proof.
  intros Hx Ha Hb Fa Hax Hxb. unfold Mid. rewrite Ha, Hb. set (r := a / 2 + b / 2).
  destruct (Rlt_le_dec a (rnd r)) as [Q|Q]; [exact Q|exfalso].
  assert (Hr : a < r) by (unfold r; lra).
  assert (E : rnd r = a).
  { apply Rle_antisym; [exact Q|]. rewrite <- (rnd_id a Fa). apply rnd_mono. lra. }
  pose proof (nearest x r Hx) as H. rewrite E in H.
  rewrite (Rabs_left (a - r)) in H by lra.
  destruct (Rle_lt_dec r x) as [C|C].
  - rewrite (Rabs_pos_eq (x - r)) in H by lra. unfold r in *. lra.
  - rewrite (Rabs_left (x - r)) in H by lra. lra.
Qed.

Lemma Mid_gt_small a x b A X B : F32 a -> F32 b -> a = IZR A * u -> x = IZR X * u -> b = IZR B * u ->
  (A < X < B)%Z -> Rabs a < T -> Rabs b < T -> a < Mid a b.
Proof.
  intros Fa Fb HA HX HB Hord Sa Sb. unfold Mid.
  destruct (half_int a A Fa HA Sa) as (Ha & Ra & Pa). destruct (half_int b B Fb HB Sb) as (Hb & Rb & Pb).
  rewrite Ra, Rb. replace (IZR Ha * u + IZR Hb * u) with (IZR (Ha + Hb) * u) by (rewrite plus_IZR; ring).
  pose proof (small_int a A HA Sa) as BA.
  assert (Hsum : (A + 1 <= Ha + Hb)%Z).
  { destruct Pa as [[Ea Qa]|(Ea & Eha & Qa)], Pb as [[Eb Qb]|(Eb & Ehb & Qb)].
    - lia.
    - apply Z.even_spec in Ehb. destruct Ehb as [k Hk]. lia.
    - apply Z.even_spec in Eha. destruct Eha as [k Hk]. lia.
    - apply Z.even_spec in Eha, Ehb. destruct Eha as [k Hk], Ehb as [k' Hk'].
      assert (Oa : Z.odd A = true) by (rewrite <- Z.negb_even, Ea; reflexivity).
      assert (Ob : Z.odd B = true) by (rewrite <- Z.negb_even, Eb; reflexivity).
      apply Z.odd_spec in Oa, Ob. destruct Oa as [qa Hqa], Ob as [qb Hqb]. lia. }
  apply Rlt_le_trans with (IZR (A + 1) * u).
  - rewrite HA, plus_IZR. pose proof u_pos. lra.
  - rewrite <- (rnd_id (IZR (A + 1) * u)) by (apply F32_small; lia).
    apply rnd_mono, IZR_u_le, Hsum.
Qed.

(* a small and odd, b at or above T in magnitude *)
Lemma Mid_gt_Ma a x b A X B : F32 a -> F32 b -> a = IZR A * u -> x = IZR X * u -> b = IZR B * u ->
  (A < X < B)%Z -> Rabs a < T -> Z.even A = false -> T <= Rabs b -> a < Mid a b.
Proof.
  intros Fa Fb HA HX HB Hord Sa Ea Bb. unfold Mid.
  destruct (half_int a A Fa HA Sa) as (Ha & Ra & Pa).
  destruct Pa as [[Ea' _]|(_ & _ & Qa)]; [congruence|].
  destruct (F32_big b B Fb HB Bb) as [Eb Fb2]. rewrite (rnd_id _ Fb2), Ra.
  apply Z.even_spec in Eb. destruct Eb as [k Hk].
  replace (b / 2) with (IZR k * u) by (rewrite HB, Hk, mult_IZR; field).
  replace (IZR Ha * u + IZR k * u) with (IZR (Ha + k) * u) by (rewrite plus_IZR; ring).
  pose proof (small_int a A HA Sa) as BA.
  assert (Oa : Z.odd A = true) by (rewrite <- Z.negb_even, Ea; reflexivity).
  apply Z.odd_spec in Oa. destruct Oa as [qa Hqa].
  assert (Hsum : (A + 1 <= Ha + k)%Z) by lia.
  apply Rlt_le_trans with (IZR (A + 1) * u).
  - rewrite HA, plus_IZR. pose proof u_pos. lra.
  - rewrite <- (rnd_id (IZR (A + 1) * u)) by (apply F32_small; lia).
    apply rnd_mono, IZR_u_le, Hsum.
Qed.

(* rounding in [T, 2T): to the nearest multiple of 2u *)
Lemma rnd_T2T v : T <= Rabs v < 2 * T -> rnd v = IZR (ZnearestE (v / (2 * u))) * (2 * u).
Proof.
  intros [H1 H2].
  assert (Hnz : v <> 0) by (intros ->; rewrite Rabs_R0 in H1; unfold T in H1; pose proof (bpow_gt_0 radix2 (-125)); lra).
  unfold round, F2R, scaled_mantissa. cbn [Fnum Fexp].
  assert (Hc : cexp radix2 fexp32 v = (-148)%Z).
  { unfold cexp. assert (Hm : mag radix2 v = (-124)%Z :> Z).
    { apply mag_unique. unfold T in *. change (-124 - 1)%Z with (-125)%Z. split; [exact H1|].
      change (-124)%Z with (1 + -125)%Z. rewrite bpow_plus. change (bpow radix2 1) with 2. exact H2. }
    rewrite Hm. reflexivity. }
  rewrite Hc.
  assert (E : bpow radix2 (-148) = 2 * u).
  { unfold u. change (-148)%Z with (1 + -149)%Z. rewrite bpow_plus. reflexivity. }
  rewrite E. f_equal. f_equal. f_equal. rewrite bpow_opp, E. reflexivity.
Qed.

Lemma F32_Tm2 : F32 (IZR (- 2 ^ 24 - 2) * u).
Proof.
  change fexp32 with (FLT_exp (-149) prec). apply generic_format_FLT.
  exists (Float radix2 (- (2 ^ 23 + 1)) (-148)).
  - unfold F2R, u. cbn [Fnum Fexp]. change (-148)%Z with (1 + -149)%Z. rewrite bpow_plus.
    change (bpow radix2 1) with 2. rewrite <- Rmult_assoc. f_equal.
    change 2 with (IZR 2). rewrite <- mult_IZR. f_equal.
  - cbn. lia.
  - cbn. lia.
Qed.

(* b small and odd, a at or below -T *)
Lemma Mid_gt_Mb a x b A X B : F32 a -> F32 x -> F32 b -> a = IZR A * u -> x = IZR X * u -> b = IZR B * u ->
  (A < X < B)%Z -> Rabs b < T -> Z.even B = false -> T <= Rabs a -> a < Mid a b.
Proof.
  intros Fa Fx Fb HA HX HB Hord Sb Eb Ba.
  destruct (half_int b B Fb HB Sb) as (Hb & Rb & Pb).
  destruct Pb as [[Eb' _]|(_ & _ & Qb)]; [congruence|].
  destruct (F32_big a A Fa HA Ba) as [Ea Fa2].
  apply Z.even_spec in Ea. destruct Ea as [k Hk].
  pose proof (small_int b B HB Sb) as BB.
  assert (HAneg : (A <= - 2 ^ 24)%Z).
  { assert (Hlt : a < b) by (rewrite HA, HB; pose proof u_pos; assert (IZR A < IZR B) by (apply IZR_lt; lia); nra).
    assert (Hb2 : b < T) by (apply Rle_lt_trans with (Rabs b); [apply Rle_abs|exact Sb]).
    assert (Ha2 : a <= - T).
    { destruct (Rle_lt_dec 0 a) as [P|P]; [rewrite Rabs_pos_eq in Ba by lra; lra|rewrite Rabs_left in Ba by lra; lra]. }
    apply le_IZR. rewrite HA, T_u in Ha2. rewrite opp_IZR. pose proof u_pos. nra. }
  set (R := (k + Hb)%Z).
  assert (Er : rnd (a / 2) + rnd (b / 2) = IZR R * u).
  { rewrite (rnd_id _ Fa2), Rb. unfold R. rewrite plus_IZR, HA, Hk, mult_IZR. field. }
  assert (HR : (A + 1 <= R)%Z) by (unfold R; lia).
  unfold Mid. rewrite Er.
  destruct (Z.eq_dec A (- 2 ^ 24)) as [EA|NA].
  - (* a = -T: a + u is representable *)
    apply Rlt_le_trans with (IZR (A + 1) * u).
    + rewrite HA, plus_IZR. pose proof u_pos. lra.
    + rewrite <- (rnd_id (IZR (A + 1) * u)) by (apply F32_small; lia).
      apply rnd_mono, IZR_u_le, HR.
  - destruct (Rlt_le_dec a (rnd (IZR R * u))) as [Q|Q]; [exact Q|exfalso].
    assert (E : rnd (IZR R * u) = IZR A * u).
    { rewrite <- HA. apply Rle_antisym; [exact Q|]. rewrite <- (rnd_id a Fa). apply rnd_mono.
      rewrite HA. apply IZR_u_le. lia. }
    rewrite HX in Fx.
    pose proof (nearest_int A R X E Fx) as N1.
    assert (FT : F32 (IZR (- 2 ^ 24) * u)) by (apply F32_small; lia).
    pose proof (nearest_int A R (- 2 ^ 24) E FT) as N2.
    pose proof (nearest_int A R (- 2 ^ 24 - 2) E F32_Tm2) as N3.
    assert (EX : X = (- 2 ^ 24)%Z) by lia.
    assert (EA : A = (- 2 ^ 24 - 2)%Z) by lia.
    assert (ER : R = (- 2 ^ 24 - 1)%Z) by lia.
    (* the concrete tie: -T - u rounds to -T (even), not to a *)
    assert (Hv : rnd (IZR R * u) = IZR (- 2 ^ 24) * u).
    { rewrite rnd_T2T.
      - replace (IZR R * u / (2 * u)) with (IZR (2 * (- 2 ^ 23 - 1) + 1) / 2)
          by (rewrite ER; change (2 * (- 2 ^ 23 - 1) + 1)%Z with (- 2 ^ 24 - 1)%Z; field; pose proof u_pos; lra).
        rewrite ZnearestE_half_odd. change (Z.even (- 2 ^ 23 - 1)) with false. cbv iota.
        change (- 2 ^ 23 - 1 + 1)%Z with (- 2 ^ 23)%Z. change (- 2 ^ 24)%Z with (- 2 ^ 23 * 2)%Z. rewrite mult_IZR. ring.
      - rewrite ER, T_u. rewrite Rabs_left by (pose proof u_pos; assert (IZR (- 2 ^ 24 - 1) < 0) by (apply IZR_lt; lia); nra).
        pose proof u_pos. change (- 2 ^ 24 - 1)%Z with (- (2 ^ 24 + 1))%Z. rewrite opp_IZR, plus_IZR.
        assert (0 < IZR (2 ^ 24)) by (apply IZR_lt; lia). split; nra. }
    rewrite E, EA in Hv. apply IZR_u_inj in Hv. lia.
Qed.

(* lower side, all regimes *)
Theorem Mid_gt a x b : F32 a -> F32 x -> F32 b -> a < x -> x < b -> a < Mid a b.
Proof.
  intros Fa Fx Fb Hax Hxb.
  destruct (F32_int a Fa) as [A HA]. destruct (F32_int x Fx) as [X HX]. destruct (F32_int b Fb) as [B HB].
  assert (Hord : (A < X < B)%Z) by (split; apply IZR_u_lt; rewrite <- ?HA, <- ?HX, <- ?HB; assumption).
  destruct (half_cases a A Fa HA) as [[Ea Ra]|(Ea & Sa & _)]; destruct (half_cases b B Fb HB) as [[Eb Rb]|(Eb & Sb & _)].
  - apply (Mid_gt_exact a x b); assumption.
  - destruct (Rlt_le_dec (Rabs a) T) as [Sa|Ba].
    + apply (Mid_gt_small a x b A X B); assumption.
    + apply (Mid_gt_Mb a x b A X B); assumption.
  - destruct (Rlt_le_dec (Rabs b) T) as [Sb|Bb].
    + apply (Mid_gt_small a x b A X B); assumption.
    + apply (Mid_gt_Ma a x b A X B); assumption.
  - apply (Mid_gt_small a x b A X B); assumption.
Qed.

Lemma Mid_opp a b : Mid (- b) (- a) = - Mid a b.
Proof.
  unfold Mid. replace (- b / 2) with (- (b / 2)) by field. replace (- a / 2) with (- (a / 2)) by field.
  rewrite !round_NE_opp. rewrite <- Ropp_plus_distr, round_NE_opp. f_equal. f_equal. ring.
Qed.

Theorem Mid_lt a x b : F32 a -> F32 x -> F32 b -> a < x -> x < b -> Mid a b < b.
Proof.
  intros Fa Fx Fb Hax Hxb.
  pose proof (Mid_gt (- b) (- x) (- a) (generic_format_opp _ _ _ Fb) (generic_format_opp _ _ _ Fx)
                (generic_format_opp _ _ _ Fa) ltac:(lra) ltac:(lra)) as H.
  rewrite Mid_opp in H. lra.
Qed.

(* (B) when the midpoint is not strictly between two finite values, no finite value is *)
Theorem mid_exhausted32 a b x : f32_fin a = true -> f32_fin b = true -> f32_fin x = true ->
  negb (flt a (f32_mid true a b) && flt (f32_mid true a b) b) = true ->
  flt a x = true -> flt x b = true -> False.
Proof.
  intros Ha Hb Hx Hex Hax Hxb.
  destruct (lift a Ha) as (A & <- & FA). destruct (lift b Hb) as (B & <- & FB). destruct (lift x Hx) as (X & <- & FX).
  destruct (mid_ok A B FA FB) as (M & EM & FM & RM). rewrite EM in Hex.
  rewrite !flt_link in *. rewrite (Bltb_correct _ _ _ _ FA FX) in Hax. rewrite (Bltb_correct _ _ _ _ FX FB) in Hxb.
  rewrite (Bltb_correct _ _ _ _ FA FM), (Bltb_correct _ _ _ _ FM FB), RM in Hex.
  destruct (Rlt_bool_spec (B2R A) (B2R X)) as [Hax'|_]; [|discriminate].
  destruct (Rlt_bool_spec (B2R X) (B2R B)) as [Hxb'|_]; [|discriminate].
  clear Hax Hxb. rename Hax' into Hax, Hxb' into Hxb.
  pose proof (Mid_gt _ _ _ (generic_format_B2R _ _ A) (generic_format_B2R _ _ X) (generic_format_B2R _ _ B) Hax Hxb) as G1.
  pose proof (Mid_lt _ _ _ (generic_format_B2R _ _ A) (generic_format_B2R _ _ X) (generic_format_B2R _ _ B) Hax Hxb) as G2.
  rewrite (Rlt_bool_true _ _ G1), (Rlt_bool_true _ _ G2) in Hex. discriminate.
Qed.

(* binary32 facts behind the Rcb cut search, proved with Flocq 4.1
   (BinarySingleNaN): SpecFloat's division / addition / comparison on valid
   binary32 values are Flocq's Bdiv / Bplus / Bltb, hence roundings of the
   real operations.  Results: the midpoint `min / 2.0 + max / 2.0` of two
   finite values is finite ([mid_fin32]) and, when it does not fall strictly
   between its arguments, no finite value does ([mid_exhausted32]); the
   conversion `as f32` returns a canonical value.
   This file (and what depends on it) uses the real-number axioms of Coq's
   standard library through Flocq (named in the trusted base of C03 / C04). *)
From Coq Require Import ZArith Reals Lia Lra Psatz Bool Floats.SpecFloat.
From Flocq Require Import Core Ulp BinarySingleNaN.
From Coupe Require Import Lib.SFloat Model.Rcb.

Local Open Scope R_scope.

Notation prec := 24%Z.
Notation emax := 128%Z.
#[local] Instance Hprec : FLX.Prec_gt_0 prec := eq_refl _.
#[local] Instance Hmax : Prec_lt_emax prec emax := eq_refl _.
Notation bf := (binary_float prec emax).
Notation fexp32 := (SpecFloat.fexp prec emax).
Notation F32 := (generic_format radix2 fexp32).
Notation rnd := (round radix2 fexp32 ZnearestE).
Notation finB := (@BinarySingleNaN.is_finite prec emax).
Notation validb := (valid_binary prec emax).

(* ---------- SpecFloat's rounding = Flocq's rounding in mode NE (the lemmas
   of Flocq.IEEE754.PrimFloat, restated at binary32) ---------- *)
Lemma round_nearest_even_equiv s m l :
  round_nearest_even m l = choice_mode mode_NE s m l.
Proof.
  case l; [reflexivity|intro c].
  case c; [ | reflexivity..].
  now simpl; unfold Round.cond_incr; case Z.even.
Qed.

Lemma binary_round_aux_equiv sx mx ex lx :
  SpecFloat.binary_round_aux prec emax sx mx ex lx
  = binary_round_aux prec emax mode_NE sx mx ex lx.
Proof.
  unfold SpecFloat.binary_round_aux, binary_round_aux.
  set (mrse' := shr_fexp _ _ _).
  case mrse'; intros mrs' e'; simpl.
  now rewrite (round_nearest_even_equiv sx).
Qed.

Lemma binary_round_equiv s m e :
  SpecFloat.binary_round prec emax s m e = binary_round prec emax mode_NE s m e.
Proof.
  unfold SpecFloat.binary_round, binary_round, shl_align_fexp.
  set (mez := shl_align _ _ _); case mez as [mz ez].
  apply binary_round_aux_equiv.
Qed.

Lemma binary_normalize_equiv m e szero :
  SpecFloat.binary_normalize prec emax m e szero
  = B2SF (binary_normalize prec emax Hprec Hmax mode_NE m e szero).
Proof.
  case m as [ | p | p].
  - now simpl.
  - simpl; rewrite B2SF_SF2B; apply binary_round_equiv.
  - simpl; rewrite B2SF_SF2B; apply binary_round_equiv.
Qed.

(* ---------- links ---------- *)
Lemma div_link (x y : bf) : f32_div (B2SF x) (B2SF y) = B2SF (Bdiv mode_NE x y).
Proof.
  destruct x as [sx|sx| |sx mx ex Bx]; destruct y as [sy|sy| |sy my ey By]; try reflexivity.
  simpl. rewrite B2SF_SF2B.
  set (melz := SFdiv_core_binary _ _ _ _ _ _).
  case melz as [[mz ez] lz].
  apply binary_round_aux_equiv.
Qed.

Lemma add_link (x y : bf) : f32_add (B2SF x) (B2SF y) = B2SF (Bplus mode_NE x y).
Proof.
  destruct x as [sx|sx| |sx mx ex Bx], y as [sy|sy| |sy my ey By];
    try reflexivity; try (cbn; destruct (Bool.eqb _ _); reflexivity).
  cbn. apply binary_normalize_equiv.
Qed.

Lemma flt_link (x y : bf) : flt (B2SF x) (B2SF y) = Bltb x y.
Proof. reflexivity. Qed.

Definition TWO : bf := @B754_finite prec emax false 8388608 (-22) eq_refl.
Lemma TWO_ok : B2SF TWO = f32_of_Z 2. Proof. vm_compute. reflexivity. Qed.
Lemma B2R_TWO : B2R TWO = 2.
Proof.
  unfold TWO, B2R, F2R. cbn [cond_Zopp Fnum Fexp].
  change (-22)%Z with (- (22))%Z. rewrite bpow_opp.
  change (bpow radix2 22) with (IZR (2 ^ 22)). change (2 ^ 22)%Z with 4194304%Z. lra.
Qed.

(* ---------- the real-number midpoint ---------- *)
Definition Mid (a b : R) : R := rnd (rnd (a / 2) + rnd (b / 2)).

(* largest finite binary32 value *)
Definition MX : R := bpow radix2 emax - bpow radix2 (emax - prec).

Lemma MX_format : F32 MX.
Proof.
  unfold MX. change fexp32 with (FLT_exp (-149) prec).
  apply generic_format_FLT. exists (Float radix2 (2 ^ 24 - 1) 104).
  - unfold F2R. cbn [Fnum Fexp].
    change (bpow radix2 emax) with (IZR (2 ^ 128)). change (bpow radix2 (emax - prec)) with (IZR (2 ^ 104)).
    change (bpow radix2 104) with (IZR (2 ^ 104)). rewrite <- mult_IZR, <- minus_IZR. f_equal.
  - cbn. lia.
  - cbn. lia.
Qed.

Lemma MX_lt : MX < bpow radix2 emax.
Proof. unfold MX. pose proof (bpow_gt_0 radix2 (emax - prec)). lra. Qed.
Lemma MX_pos : 0 < MX.
Proof.
  unfold MX. assert (bpow radix2 (emax - prec) < bpow radix2 emax) by (apply bpow_lt; lia). lra.
Qed.

Lemma rnd_le_MX z : Rabs z <= MX -> Rabs (rnd z) <= MX.
Proof.
  intros Hz. apply abs_round_le_generic; auto with typeclass_instances.
  - apply fexp_correct. reflexivity.
  - apply MX_format.
Qed.

Lemma rnd_mono a b : a <= b -> rnd a <= rnd b.
Proof. apply round_le; auto with typeclass_instances. apply fexp_correct; reflexivity. Qed.
Lemma rnd_id a : F32 a -> rnd a = a.
Proof. apply round_generic; auto with typeclass_instances. Qed.
Lemma rnd_F32 a : F32 (rnd a).
Proof. apply generic_format_round; auto with typeclass_instances. apply fexp_correct; reflexivity. Qed.

Lemma half_ok (x : bf) : finB x = true ->
  B2R (Bdiv mode_NE x TWO) = rnd (B2R x / 2) /\ finB (Bdiv mode_NE x TWO) = true
  /\ Rabs (rnd (B2R x / 2)) <= MX / 2.
Proof.
  intros Fx.
  assert (Hb : Rabs (rnd (B2R x / 2)) <= MX / 2).
  { apply abs_round_le_generic; auto with typeclass_instances.
    - apply fexp_correct; reflexivity.
    - unfold MX. change fexp32 with (FLT_exp (-149) prec).
      apply generic_format_FLT. exists (Float radix2 (2 ^ 24 - 1) 103).
      + unfold F2R. cbn [Fnum Fexp].
        change (bpow radix2 emax) with (IZR (2 ^ 128)). change (bpow radix2 (emax - prec)) with (IZR (2 ^ 104)).
        change (bpow radix2 103) with (IZR (2 ^ 103)).
        change (2 ^ 128)%Z with (2 * (2 ^ 24 * 2 ^ 103))%Z. change (2 ^ 104)%Z with (2 * 2 ^ 103)%Z.
        rewrite !mult_IZR, minus_IZR. field.
      + cbn. lia.
      + cbn. lia.
    - unfold Rdiv. rewrite Rabs_mult, (Rabs_pos_eq (/ 2)) by lra.
      pose proof (abs_B2R_le_emax_minus_prec prec emax Hprec x) as H. fold MX in H. lra. }
  pose proof (Bdiv_correct prec emax Hprec Hmax mode_NE x TWO ltac:(rewrite B2R_TWO; lra)) as H.
  rewrite B2R_TWO in H. cbn [round_mode] in H.
  rewrite Rlt_bool_true in H.
  - destruct H as (H1 & H2 & _). rewrite Fx in H2. auto.
  - pose proof MX_lt. pose proof MX_pos. lra.
Qed.

(* the binary32 midpoint of two finite values: a finite value, the rounding
   of the sum of the rounded halves *)
Lemma mid_ok (a b : bf) : finB a = true -> finB b = true ->
  exists m : bf, f32_mid true (B2SF a) (B2SF b) = B2SF m /\ finB m = true /\ B2R m = Mid (B2R a) (B2R b).
Proof.
  intros Fa Fb. unfold f32_mid. rewrite <- TWO_ok, !div_link, add_link.
  destruct (half_ok a Fa) as (Ra & Fa' & Ba). destruct (half_ok b Fb) as (Rb & Fb' & Bb).
  exists (Bplus mode_NE (Bdiv mode_NE a TWO) (Bdiv mode_NE b TWO)). split; [reflexivity|].
  pose proof (Bplus_correct prec emax Hprec Hmax mode_NE _ _ Fa' Fb') as H. cbn [round_mode] in H.
  rewrite Ra, Rb in H. rewrite Rlt_bool_true in H.
  - destruct H as (H1 & H2 & _). split; [exact H2|exact H1].
  - apply Rle_lt_trans with MX; [|apply MX_lt]. apply rnd_le_MX.
    eapply Rle_trans; [apply Rabs_triang|]. lra.
Qed.

(* ---------- lifting valid finite SpecFloat values ---------- *)
Lemma fin_split x : f32_fin x = true -> validb x = true /\ SFloat.is_finite x = true.
Proof. unfold f32_fin. intros H. apply andb_true_iff in H. exact H. Qed.

Lemma lift x : f32_fin x = true -> exists X : bf, B2SF X = x /\ finB X = true.
Proof.
  intros H. destruct (fin_split x H) as [V Fi]. exists (SF2B x V). split; [apply B2SF_SF2B|].
  destruct x; try discriminate; reflexivity.
Qed.

Lemma f32_fin_B2SF (X : bf) : finB X = true -> f32_fin (B2SF X) = true.
Proof.
  intros H. unfold f32_fin. rewrite valid_binary_B2SF. destruct X; try discriminate; reflexivity.
Qed.

(* (A) the midpoint of two finite values is finite *)
Theorem mid_fin32 a b : f32_fin a = true -> f32_fin b = true -> f32_fin (f32_mid true a b) = true.
Proof.
  intros Ha Hb. destruct (lift a Ha) as (A & <- & FA). destruct (lift b Hb) as (B & <- & FB).
  destruct (mid_ok A B FA FB) as (m & -> & Fm & _). apply f32_fin_B2SF, Fm.
Qed.

(* `x as f32` returns a canonical value *)
Theorem f64_to_f32_valid x : validb (f64_to_f32 x) = true.
Proof.
  destruct x as [s|s| |s m e]; try reflexivity. unfold f64_to_f32. rewrite binary_round_equiv.
  exact (proj1 (binary_round_correct prec emax Hprec Hmax mode_NE s m e)).
Qed.

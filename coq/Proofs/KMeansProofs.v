(* Structural theorems about the concrete k-means model (Model/KMeans.v), for
   EVERY arithmetic, EVERY family of reductions (any schedule, any HashMap
   order, even reductions returning arbitrary values), every rotation matrix,
   every setting:
     - the returned array has the length of the input array;
     - every id in it is an id of the input array (hence <= its maximum);
     - the model never answers OutOfFuel when the reductions do not (all its
       loops are structural on max_iter / max_balance_iter). *)
From Coupe Require Import Lib.Prelude Lib.SFloat Lib.Rayon Model.KMeansAbs Model.KMeans Proofs.C02Proofs.
Local Open Scope nat_scope.

Lemma bind_Ok {X Y} (r : res X) (f : X -> res Y) y :
  bind r f = Ok y -> exists x, r = Ok x /\ f x = Ok y.
Proof. destruct r; cbn [bind]; intros H; try discriminate. eauto. Qed.

Ltac inv_bind H :=
  let x := fresh "x" in let Hx := fresh "Hx" in
  apply bind_Ok in H; destruct H as (x & Hx & H).

Lemma mapM_length {X Y} (f : X -> res Y) l ys : mapM f l = Ok ys -> length ys = length l.
Proof.
  revert ys; induction l as [|a t IH]; cbn [mapM]; intros ys H.
  - injection H as <-. reflexivity.
  - inv_bind H. inv_bind H. injection H as <-. cbn [length]. f_equal. now apply IH.
Qed.

Lemma In_set_nth {X} (l : list X) n v x : In x (set_nth l n v) -> x = v \/ In x l.
Proof.
  revert n; induction l as [|y t IH]; intros [|n]; cbn [set_nth In]; intros H; auto.
  - destruct H as [<-|H]; auto.
  - destruct H as [<-|H]; auto. destruct (IH _ H); auto.
Qed.

Lemma apply_writes_inv ws : forall asg asg',
  apply_writes ws asg = Ok asg' ->
  length asg' = length asg /\ (forall x, In x asg' -> In x asg \/ In x (map snd ws)).
Proof.
  induction ws as [|[i a] t IH]; cbn [apply_writes]; intros asg asg' H.
  - injection H as <-. auto.
  - destruct (i <? length asg); try discriminate.
    apply IH in H. destruct H as [L I]. rewrite set_nth_length in L. split; [exact L|].
    intros x Hx. cbn [map snd In]. destruct (I x Hx) as [Hi|Hi]; auto.
    apply In_set_nth in Hi. destruct Hi as [->|Hi]; auto.
Qed.

Section Inv.
  Variable A : karith.
  Variable R : reds A.
  Variable rot : option (list (vec A)).
  Variable D : nat.
  Variable cfg : settings A.

  Lemma best_loop_asg point cs : forall best snd asg x y id,
    best_loop A cfg point cs best snd asg = (x, y, Some id) ->
    asg = Some id \/ In id (map (fun c => Datatypes.snd (fst (fst c))) cs).
  Proof.
    induction cs as [|[[[c i] d] f] t IH]; cbn [best_loop]; intros best snd0 asg x y id H.
    - injection H as _ _ ->. auto.
    - cbn [map In fst Datatypes.snd].
      destruct (kgt A d snd0 && s_mbr_early_break cfg).
      + injection H as _ _ ->. auto.
      + destruct (klt A _ best).
        * apply IH in H. destruct H as [H|H]; [injection H as ->|]; auto.
        * destruct (klt A _ snd0); apply IH in H; destruct H; auto.
  Qed.

  Lemma best_values_asg point centers cids dmbr infl x y id :
    best_values A cfg point centers cids dmbr infl = (x, y, Some id) -> In id cids.
  Proof.
    unfold best_values. intros H. apply best_loop_asg in H. destruct H as [H|H]; [discriminate|].
    apply in_map_iff in H. destruct H as ([[[c i] d] f] & E & H). cbn [fst snd] in E. subst i.
    apply in_combine_l in H. apply in_combine_l in H. apply in_combine_r in H. exact H.
  Qed.

  Lemma sweep_writes points centers cids dmbr infl items : forall lbs ubs ws,
    sweep A cfg points centers cids dmbr infl items = Ok (lbs, ubs, ws) ->
    forall a, In a (map snd ws) -> In a cids.
  Proof.
    induction items as [|[[idx lb] ub] t IH]; cbn [sweep]; intros lbs ubs ws H a Ha.
    - injection H as <- <- <-. destruct Ha.
    - inv_bind H. destruct x as [[lbs0 ubs0] ws0]. specialize (IH _ _ _ Hx).
      destruct (klt A lb ub).
      + destruct (nth_opt points idx) as [p|]; try discriminate.
        destruct (best_values A cfg p centers cids dmbr infl) as [[nlb nub] na] eqn:E.
        injection H as <- <- <-. destruct na as [a0|]; [|now apply IH].
        cbn [map snd In] in Ha. destruct Ha as [<-|Ha]; [|now apply IH].
        eapply best_values_asg; eauto.
      + injection H as <- <- <-. now apply IH.
  Qed.

  Lemma insert_head_In {X} (x : X * num A) l z : In z (insert_head A x l) -> z = x \/ In z l.
  Proof.
    induction l as [|y t IH]; cbn [insert_head In]; intros H.
    - destruct H as [<-|[]]; auto.
    - destruct (cmp_eq A (snd y) (snd x)); cbn [In] in H; try (destruct H as [<-|H]; auto).
      destruct (IH H); auto.
  Qed.

  Lemma sort_by_dist_In {X} (l : list (X * num A)) z : In z (sort_by_dist A l) -> In z l.
  Proof.
    unfold sort_by_dist. induction l as [|y t IH]; cbn [fold_right In]; intros H; auto.
    apply insert_head_In in H. destruct H as [->|H]; auto.
  Qed.

  Lemma insert_head_length {X} (x : X * num A) l : length (insert_head A x l) = Datatypes.S (length l).
  Proof.
    induction l as [|y t IH]; cbn [insert_head length]; auto.
    destruct (cmp_eq A (snd y) (snd x)); cbn [length]; auto.
  Qed.

  Lemma sort_by_dist_length {X} (l : list (X * num A)) : length (sort_by_dist A l) = length l.
  Proof.
    unfold sort_by_dist. induction l as [|y t IH]; cbn [fold_right length]; auto.
    rewrite insert_head_length. now rewrite IH.
  Qed.

  (* the invariant: length kept, every id drawn from the universe U *)
  Variable U : list N.
  Variable n : nat.
  Definition okasg (asg : list N) : Prop := length asg = n /\ forall x, In x asg -> In x U.

  Lemma balance_loop_inv b : forall it points weights perm centers cids dmbr target st st',
    (forall c, In c cids -> In c U) ->
    balance_loop A R D cfg b it points weights perm centers cids dmbr target st = Ok st' ->
    okasg (st_asg A st) -> okasg (st_asg A st').
  Proof.
    induction b as [|b IH]; intros it points weights perm centers cids dmbr target st st' HU H Hok.
    - cbn [balance_loop] in H. injection H as <-. exact Hok.
    - cbn [balance_loop] in H.
      inv_bind H. destruct x as [[lbs1 ubs1] ws].
      inv_bind H. rename x into asg. inv_bind H. inv_bind H.
      assert (Hasg : okasg asg).
      { apply apply_writes_inv in Hx0. destruct Hx0 as [L I]. destruct Hok as [L0 I0]. split; [congruence|].
        intros y Hy. destruct (I y Hy) as [Hy'|Hy']; auto. apply HU. eapply sweep_writes; eauto. }
      destruct (klt A _ _).
      + injection H as <-. exact Hasg.
      + inv_bind H. inv_bind H. eapply IH in H; eauto.
  Qed.

  Lemma assign_and_balance_inv it points weights perm centers cids st st' :
    (forall c, In c cids -> In c U) ->
    assign_and_balance A R rot D cfg it points weights perm centers cids st = Ok st' ->
    okasg (st_asg A st) -> okasg (st_asg A st').
  Proof.
    intros HU H Hok. unfold assign_and_balance in H.
    inv_bind H. inv_bind H. inv_bind H.
    eapply balance_loop_inv in H; eauto.
    intros c Hc. apply in_map_iff in Hc. destruct Hc as (z & <- & Hz).
    apply sort_by_dist_In in Hz. destruct z as [[c0 i0] d0]. cbn [fst snd].
    apply in_combine_l in Hz. apply in_combine_r in Hz. auto.
  Qed.

  Lemma kmeans_iter_inv cur : forall points weights perm centers cids st st',
    (forall c, In c cids -> In c U) ->
    kmeans_iter A R rot D cfg cur points weights perm centers cids st = Ok st' ->
    okasg (st_asg A st) -> okasg (st_asg A st').
  Proof.
    induction cur as [|cur IH]; intros points weights perm centers cids st st' HU H Hok; cbn [kmeans_iter] in H.
    - inv_bind H. inv_bind H. inv_bind H. inv_bind H.
      apply assign_and_balance_inv in Hx; auto.
      destruct x2; try discriminate. injection H as <-. exact Hx.
    - inv_bind H. inv_bind H. inv_bind H. inv_bind H.
      apply assign_and_balance_inv in Hx; auto.
      destruct x2; try discriminate.
      destruct (klt A _ _).
      + injection H as <-. exact Hx.
      + inv_bind H. eapply IH in H; eauto.
  Qed.
End Inv.

(* KMeans::partition: the array keeps its length and only ids of the input are
   written, whatever the arithmetic, the reductions, the rotation, the settings *)
Theorem kmeans_ids_length : forall A R rot D cfg points weights part part',
  kmeans A R rot D cfg points weights part = Ok part' ->
  length part' = length part /\ (forall x, In x part' -> In x part).
Proof.
  intros A R rot D cfg points weights part part' H. unfold kmeans in H.
  destruct (_ <? 2)%N.
  - injection H as <-. auto.
  - unfold kmeans_with_initial in H. destruct (negb _); try discriminate.
    inv_bind H. inv_bind H. injection H as <-.
    eapply (kmeans_iter_inv A R rot D cfg part (length part)) in Hx0.
    + exact Hx0.
    + intros c Hc. unfold center_ids in Hc. eapply distinct_In; eauto.
    + split; auto.
Qed.

Corollary kmeans_ids_bound : forall A R rot D cfg points weights part part',
  kmeans A R rot D cfg points weights part = Ok part' ->
  length part' = length part /\ Forall (fun x => (x <= list_maxN part)%N) part'.
Proof.
  intros. apply kmeans_ids_length in H. destruct H as [L I]. split; auto.
  apply Forall_forall. intros x Hx. apply list_maxN_le. auto.
Qed.

(* ------------------------------------------------------------ termination *)

(* a family of reductions that always answers (no OutOfFuel) *)
Definition reds_total {A} (R : reds A) : Prop :=
  (forall k xs, r_sum R k xs <> OutOfFuel) /\ (forall k D xs, r_vsum R k D xs <> OutOfFuel) /\
  (forall k xs, r_maxby R k xs <> OutOfFuel) /\ (forall k xs, r_minby R k xs <> OutOfFuel) /\
  (forall k D xs, r_bbox R k D xs <> OutOfFuel) /\ (forall k xs, r_gsum R k xs <> OutOfFuel).

Lemma bind_fuel {X Y} (r : res X) (f : X -> res Y) :
  r <> OutOfFuel -> (forall x, f x <> OutOfFuel) -> bind r f <> OutOfFuel.
Proof. destruct r; cbn [bind]; intros H1 H2; auto; congruence. Qed.

Lemma mapM_fuel {X Y} (f : X -> res Y) l : (forall x, f x <> OutOfFuel) -> mapM f l <> OutOfFuel.
Proof.
  intros Hf. induction l as [|a t IH]; cbn [mapM]; [discriminate|].
  apply bind_fuel; auto. intros y. apply bind_fuel; auto. discriminate.
Qed.

Section Fuel.
  Variable A : karith.
  Variable R : reds A.
  Variable rot : option (list (vec A)).
  Variable D : nat.
  Variable cfg : settings A.
  Hypothesis HR : reds_total R.

  Ltac fuel :=
    repeat first
      [ apply bind_fuel | apply mapM_fuel | discriminate | progress intros
      | match goal with
        | |- context [match ?x with _ => _ end] => destruct x
        end ].

  Let H1 := proj1 HR.
  Let H2 := proj1 (proj2 HR).
  Let H3 := proj1 (proj2 (proj2 HR)).
  Let H4 := proj1 (proj2 (proj2 (proj2 HR))).
  Let H5 := proj1 (proj2 (proj2 (proj2 (proj2 HR)))).
  Let H6 := proj2 (proj2 (proj2 (proj2 (proj2 HR)))).

  Lemma center_fuel k pts : center A R D k pts <> OutOfFuel.
  Proof. unfold center. destruct pts; [discriminate|]. apply bind_fuel; auto. discriminate. Qed.

  Lemma max_by_unwrap_fuel xs : forall acc, max_by_unwrap A acc xs <> OutOfFuel.
  Proof. induction xs as [|x t IH]; cbn [max_by_unwrap]; intros acc; [discriminate|]. destruct (k_cmp A acc x) as [[| |]|]; auto; discriminate. Qed.

  Lemma bb_distance_fuel a b p : bb_distance A a b p <> OutOfFuel.
  Proof.
    unfold bb_distance. destruct (negb _); [discriminate|].
    destruct (map _ _); [discriminate|]. apply max_by_unwrap_fuel.
  Qed.

  Lemma obb_of_fuel k pts : obb_of A R rot D k pts <> OutOfFuel.
  Proof.
    unfold obb_of. destruct rot; [|discriminate]. apply bind_fuel; auto.
    intros [[a b]|]; discriminate.
  Qed.

  Lemma new_centers_fuel k points asg cids centers : new_centers A R D k points asg cids centers <> OutOfFuel.
  Proof.
    unfold new_centers. apply mapM_fuel. intros [j [cid old]]. destruct (select _ _ _); [discriminate|]. apply center_fuel.
  Qed.

  Lemma relax_bounds_fuel k l u d i : relax_bounds A R k l u d i <> OutOfFuel.
  Proof. unfold relax_bounds. apply bind_fuel; auto. discriminate. Qed.

  Lemma imbalance_fuel k ws : imbalance A R k ws <> OutOfFuel.
  Proof.
    unfold imbalance. apply bind_fuel; auto. intros mn. apply bind_fuel; auto. intros mx.
    destruct mn, mx; discriminate.
  Qed.

  Lemma sweep_fuel points centers cids dmbr infl items :
    sweep A cfg points centers cids dmbr infl items <> OutOfFuel.
  Proof.
    induction items as [|[[idx lb] ub] t IH]; cbn [sweep]; [discriminate|].
    apply bind_fuel; auto. intros [[l u] w]. destruct (klt A lb ub); [|discriminate].
    destruct (nth_opt points idx); [|discriminate]. destruct (best_values _ _ _ _ _ _ _) as [[? ?] ?]. discriminate.
  Qed.

  Lemma apply_writes_fuel ws : forall asg, apply_writes ws asg <> OutOfFuel.
  Proof. induction ws as [|[i a] t IH]; cbn [apply_writes]; intros asg; [discriminate|]. destruct (_ <? _); auto; discriminate. Qed.

  Lemma balance_loop_fuel b : forall it points weights perm centers cids dmbr target st,
    balance_loop A R D cfg b it points weights perm centers cids dmbr target st <> OutOfFuel.
  Proof.
    induction b as [|b IH]; intros; cbn [balance_loop]; [discriminate|].
    apply bind_fuel; [apply sweep_fuel|]. intros [[l u] w].
    apply bind_fuel; [apply apply_writes_fuel|]. intros asg.
    apply bind_fuel; [apply mapM_fuel; intros [j cid]; apply H1|]. intros nw.
    apply bind_fuel; [apply imbalance_fuel|]. intros imb.
    destruct (klt A _ _); [discriminate|].
    apply bind_fuel; [apply new_centers_fuel|]. intros ncs.
    apply bind_fuel; [apply relax_bounds_fuel|]. intros lu. apply IH.
  Qed.

  Lemma assign_and_balance_fuel it points weights perm centers cids st :
    assign_and_balance A R rot D cfg it points weights perm centers cids st <> OutOfFuel.
  Proof.
    unfold assign_and_balance. apply bind_fuel; [apply obb_of_fuel|]. intros obb.
    apply bind_fuel.
    { apply mapM_fuel. intros [c infl]. apply bind_fuel; [|discriminate].
      unfold obb_distance. destruct obb as [[M a] b]. apply bb_distance_fuel. }
    intros dmbr. apply bind_fuel; auto. intros tw. apply balance_loop_fuel.
  Qed.

  Lemma erode_fuel it points asg nc infl dm : erode A R it points asg nc infl dm <> OutOfFuel.
  Proof.
    unfold erode. apply bind_fuel.
    { apply mapM_fuel. intros pts. unfold max_distance. destruct (flat_map _ _); discriminate. }
    intros ds. apply bind_fuel; auto. discriminate.
  Qed.

  Lemma kmeans_iter_fuel cur : forall points weights perm centers cids st,
    kmeans_iter A R rot D cfg cur points weights perm centers cids st <> OutOfFuel.
  Proof.
    induction cur as [|cur IH]; intros; cbn [kmeans_iter].
    - apply bind_fuel; [apply assign_and_balance_fuel|]. intros st1.
      apply bind_fuel; [apply new_centers_fuel|]. intros ncs.
      apply bind_fuel; [destruct (s_erode cfg); [apply erode_fuel|discriminate]|]. intros infl.
      apply bind_fuel; auto. intros [dm|]; discriminate.
    - apply bind_fuel; [apply assign_and_balance_fuel|]. intros st1.
      apply bind_fuel; [apply new_centers_fuel|]. intros ncs.
      apply bind_fuel; [destruct (s_erode cfg); [apply erode_fuel|discriminate]|]. intros infl.
      apply bind_fuel; auto. intros [dm|]; [|discriminate].
      destruct (klt A _ _); [discriminate|].
      apply bind_fuel; [apply relax_bounds_fuel|]. intros lu. apply IH.
  Qed.

  (* every loop of the model is structural: `for _ in 0..max_balance_iter` on
     max_balance_iter, the recursion of balanced_k_means_iter on current_iter
     (at most max_iter + 1 calls of assign_and_balance, each at most
     max_balance_iter sweeps).  No fuel is needed. *)
  Theorem kmeans_never_out_of_fuel points weights part :
    kmeans A R rot D cfg points weights part <> OutOfFuel.
  Proof.
    unfold kmeans. destruct (_ <? 2)%N; [discriminate|].
    unfold kmeans_with_initial. destruct (negb _); [discriminate|].
    apply bind_fuel; [apply mapM_fuel; intros [j cid]; apply center_fuel|]. intros centers.
    apply bind_fuel; [apply kmeans_iter_fuel|]. discriminate.
  Qed.
End Fuel.

Lemma reds_tree_total A T P : reds_total (reds_tree A T P).
Proof. repeat split; intros; cbn; discriminate. Qed.

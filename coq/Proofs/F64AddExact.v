(* f64 addition is exact on integers of magnitude <= 2^53 whose sum has
   magnitude <= 2^53 — proved for the binary64 addition the models execute
   (Lib/SFloat.f64_add = SpecFloat.SFadd 53 1024) through Flocq:
   SpecFloat's rounding = Flocq's BinarySingleNaN rounding in mode NE (the
   equivalence lemmas of Flocq.IEEE754.PrimFloat, restated as in
   Proofs/GridRcbFloat.v so that primitive floats are not loaded), then
   Bplus_correct / binary_normalize_correct and the fact that integers of
   magnitude <= 2^53 are in the binary64 format.
   This file uses the axioms of Coq's classical real numbers through Flocq. *)
From Coq Require Import ZArith Reals Lia Lra Floats.SpecFloat.
From Flocq Require Import Core BinarySingleNaN.
From Coupe Require Import Lib.Prelude Lib.SFloat.
Open Scope R_scope.

Notation prec := 53%Z.
Notation emax := 1024%Z.
#[local] Instance Hprec : FLX.Prec_gt_0 prec := eq_refl _.
#[local] Instance Hmax : Prec_lt_emax prec emax := eq_refl _.
Notation bf := (binary_float prec emax).
Notation rnd := (round radix2 (SpecFloat.fexp prec emax) (round_mode mode_NE)).

Lemma round_nearest_even_equiv s m l :
  round_nearest_even m l = choice_mode mode_NE s m l.
Proof.
  case l; [reflexivity|intro c].
  case c; [ | reflexivity..].
  now simpl; unfold Round.cond_incr; case Z.even.
Qed.

Lemma binary_round_aux_equiv sx mx ex lx :
  SpecFloat.binary_round_aux prec emax sx mx ex lx
  = binary_round_aux prec emax mode_NE sx mx ex lx.
Proof.
  unfold SpecFloat.binary_round_aux, binary_round_aux.
  set (mrse' := shr_fexp _ _ _).
  case mrse'; intros mrs' e'; simpl.
  now rewrite (round_nearest_even_equiv sx).
Qed.

Lemma binary_round_equiv s m e :
  SpecFloat.binary_round prec emax s m e = binary_round prec emax mode_NE s m e.
Proof.
  unfold SpecFloat.binary_round, binary_round, shl_align_fexp.
  set (mez := shl_align _ _ _); case mez as [mz ez].
  apply binary_round_aux_equiv.
Qed.

Lemma binary_normalize_equiv m e szero :
  SpecFloat.binary_normalize prec emax m e szero
  = B2SF (binary_normalize prec emax Hprec Hmax mode_NE m e szero).
Proof.
  case m as [ | p | p].
  - now simpl.
  - simpl; rewrite B2SF_SF2B; apply binary_round_equiv.
  - simpl; rewrite B2SF_SF2B; apply binary_round_equiv.
Qed.

Definition NZ (z : Z) : bf := binary_normalize prec emax Hprec Hmax mode_NE z 0 false.

Lemma of_Z_B z : f64_of_Z z = B2SF (NZ z).
Proof. unfold of_Z, NZ. apply binary_normalize_equiv. Qed.

Lemma add_link (x y : bf) : f64_add (B2SF x) (B2SF y) = B2SF (Bplus mode_NE x y).
Proof.
  destruct x as [sx|sx| |sx mx ex Bx], y as [sy|sy| |sy my ey By];
    try reflexivity; try (cbn; destruct (Bool.eqb _ _); reflexivity).
  cbn. apply binary_normalize_equiv.
Qed.

(* integers of magnitude <= 2^53 are binary64 numbers *)
Lemma int_format (z : Z) : (Z.abs z <= 2 ^ 53)%Z ->
  generic_format radix2 (SpecFloat.fexp prec emax) (IZR z).
Proof.
  intros Hz. change (SpecFloat.fexp prec emax) with (FLT_exp (-1074) prec).
  apply generic_format_FLT.
  destruct (Z_lt_le_dec (Z.abs z) (2 ^ 53)) as [Hlt|Hge].
  - exists (Float radix2 z 0); [unfold F2R; cbn [Fnum Fexp bpow]; lra|exact Hlt|cbn; lia].
  - assert (Hc : (z = 2 ^ 53 \/ z = - 2 ^ 53)%Z) by lia.
    destruct Hc as [-> | ->].
    + exists (Float radix2 (2 ^ 52) 1); [unfold F2R; cbn [Fnum Fexp]; change (bpow radix2 1) with 2;
        change (2 ^ 53)%Z with (2 ^ 52 * 2)%Z; rewrite mult_IZR; lra|cbn; lia|cbn; lia].
    + exists (Float radix2 (- 2 ^ 52) 1); [unfold F2R; cbn [Fnum Fexp]; change (bpow radix2 1) with 2;
        change (- 2 ^ 53)%Z with (- 2 ^ 52 * 2)%Z; rewrite mult_IZR; lra|cbn; lia|cbn; lia].
Qed.

Lemma int_small (z : Z) : (Z.abs z <= 2 ^ 53)%Z -> Rabs (IZR z) < bpow radix2 emax.
Proof.
  intros Hz. rewrite <- abs_IZR. apply Rle_lt_trans with (IZR (2 ^ 53)); [apply IZR_le, Hz|].
  change (IZR (2 ^ 53)) with (bpow radix2 53). apply bpow_lt. lia.
Qed.

(* the float of an integer of magnitude <= 2^53: exact value, finite, sign *)
Lemma NZ_spec (z : Z) : (Z.abs z <= 2 ^ 53)%Z ->
  B2R (NZ z) = IZR z /\ BinarySingleNaN.is_finite (NZ z) = true /\ Bsign (NZ z) = (z <? 0)%Z.
Proof.
  intros Hz. unfold NZ.
  pose proof (binary_normalize_correct prec emax Hprec Hmax mode_NE z 0 false) as H. cbv zeta in H.
  replace (F2R (Float radix2 z 0)) with (IZR z) in H by (unfold F2R; cbn [Fnum Fexp bpow]; lra).
  rewrite (round_generic _ _ _ _ (int_format z Hz)) in H.
  rewrite Rlt_bool_true in H by (apply int_small, Hz).
  destruct H as [HR [HF HS]]. repeat split; auto.
  rewrite HS. destruct (Z.ltb_spec z 0) as [L|L].
  - rewrite Rcompare_Lt; [reflexivity|]. apply (IZR_lt z 0 L).
  - destruct (Z.eq_dec z 0) as [->|Hne]; [rewrite Rcompare_Eq; reflexivity|].
    rewrite Rcompare_Gt; [reflexivity|]. apply (IZR_lt 0 z). lia.
Qed.

Theorem f64_add_exact (a b : Z) :
  (Z.abs a <= 2 ^ 53)%Z -> (Z.abs b <= 2 ^ 53)%Z -> (Z.abs (a + b) <= 2 ^ 53)%Z ->
  f64_add (f64_of_Z a) (f64_of_Z b) = f64_of_Z (a + b).
Proof.
  intros Ha Hb Hab. rewrite !of_Z_B, add_link. f_equal.
  destruct (NZ_spec a Ha) as [RA [FA SA]]. destruct (NZ_spec b Hb) as [RB [FB SB]].
  destruct (NZ_spec (a + b) Hab) as [RC [FC SC]].
  pose proof (Bplus_correct prec emax Hprec Hmax mode_NE (NZ a) (NZ b) FA FB) as H.
  rewrite RA, RB, <- plus_IZR in H.
  rewrite (round_generic _ _ _ _ (int_format (a + b) Hab)) in H.
  rewrite Rlt_bool_true in H by (apply int_small, Hab).
  destruct H as [HR [HF HS]].
  apply B2R_Bsign_inj; auto; [congruence|].
  rewrite HS, SC, SA, SB.
  destruct (Z.ltb_spec (a + b) 0) as [L|L].
  - rewrite Rcompare_Lt; [reflexivity|]. apply (IZR_lt (a + b) 0 L).
  - destruct (Z.eq_dec (a + b) 0) as [E|Hne].
    + rewrite E, Rcompare_Eq by reflexivity.
      destruct (Z.ltb_spec a 0), (Z.ltb_spec b 0); try reflexivity; lia.
    + rewrite Rcompare_Gt; [reflexivity|]. apply (IZR_lt 0 (a + b)). lia.
Qed.

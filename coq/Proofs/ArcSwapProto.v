(* ArcSwap, stage 1: the vertex-lock protocol.  Every access of the machine of
   Model/ArcSwap.v is classified by what it does to the locks ([wstep_cases]);
   on that abstraction the invariant of design-probes/ArcSwapLockProtocol.v is
   inductive for any graph with symmetric adjacency, any number of workers and
   any schedule, and gives mutual exclusion of adjacent critical sections. *)
From Coupe Require Import Lib.Prelude Model.ArcSwap.
Open Scope Z_scope.

Section WithW.
Context {W : wops}.


(* ------------------------------------------------------------- list facts *)

Lemma nth_opt_set_nth_inv {A} (l : list A) t x t1 y :
  nth_opt (set_nth l t x) t1 = Some y ->
  (t1 = t /\ y = x /\ (t < length l)%nat) \/ (t1 <> t /\ nth_opt l t1 = Some y).
Proof.
  intros H. destruct (Nat.eq_dec t1 t) as [->|Hne].
  - left. assert (Hl : (t < length l)%nat).
    { apply nth_opt_Some in H. now rewrite set_nth_length in H. }
    rewrite nth_opt_set_nth_same in H by assumption. injection H as <-. auto.
  - right. rewrite nth_opt_set_nth_other in H by congruence. auto.
Qed.

(* ----------------------------------------------------------------- phases *)

Inductive phase :=
| PhIdle
| PhChk (v : nat) (todo : list nat)   (* holds lock v, still has to read the locks of [todo] *)
| PhCrit (v : nat)                    (* holds lock v, every neighbour lock was read as free *)
| PhRel (v : nat).                    (* holds lock v, saw a locked neighbour, about to release *)

Definition phase_of (p : pc) : phase :=
  match p with
  | PChk v todo => PhChk v (map fst todo)
  | POwn v => PhCrit v
  | PGain v _ _ _ _ _ _ => PhCrit v
  | PStore v _ _ _ => PhCrit v
  | PUnlock v URaced => PhRel v
  | PUnlock v _ => PhCrit v
  | _ => PhIdle
  end.
Definition wphase (w : worker) : phase := phase_of (w_pc w).

Definition holds (ph : phase) : option nat :=
  match ph with PhIdle => None | PhChk v _ => Some v | PhCrit v => Some v | PhRel v => Some v end.

(* u has been read as unlocked by the worker since it acquired its lock *)
Definition cleared (g : graph) (ph : phase) (u : nat) : Prop :=
  match ph with
  | PhChk v todo => In u (nbrs g v) /\ ~ In u todo
  | PhCrit v => In u (nbrs g v)
  | _ => False
  end.

Lemma phase_scan_next w : wphase (scan_next w) = PhIdle.
Proof. unfold wphase, scan_next; cbn [w_pc]. destruct (Nat.ltb _ _); reflexivity. Qed.
Lemma phase_enter w : wphase (enter_make_move w) = PhIdle.
Proof. unfold enter_make_move. destruct (w_cut w); [apply phase_scan_next|reflexivity]. Qed.
Lemma phase_re_start w v todo : wphase (re_start w v todo) = PhIdle.
Proof. unfold re_start. destruct todo; [apply phase_enter|reflexivity]. Qed.
Lemma phase_decide cf tmax w v ip b w' : decide cf tmax w v ip b = Some w' -> wphase w' = PhCrit v.
Proof.
  unfold decide. destruct b as [bt bg]. destruct (bg <=? 0).
  - intros [= <-]. reflexivity.
  - destruct (nth_opt (cf_vw cf) v), (nth_opt (w_pw w) bt), (nth_opt tmax bt); try discriminate.
    destruct (w_ltb _ _); intros [= <-]; reflexivity.
Qed.

(* what one access does to the locks, the part ids and the worker's phase *)
Inductive wstep_kind (g : graph) (locks : list bool) (part : list nat) (w : worker)
    (locks' : list bool) (part' : list nat) (w' : worker) : Prop :=
| WK_quiet : locks' = locks -> part' = part -> wphase w' = wphase w -> wstep_kind g locks part w locks' part' w'
| WK_store v ip tg gn : w_pc w = PStore v ip tg gn -> locks' = locks -> part' = set_nth part v tg ->
    (v < length part)%nat -> wphase w' = PhCrit v -> wstep_kind g locks part w locks' part' w'
| WK_cas v : wphase w = PhIdle -> nth_opt locks v = Some false -> locks' = set_nth locks v true ->
    part' = part -> wphase w' = match nbrs g v with [] => PhCrit v | r => PhChk v r end ->
    wstep_kind g locks part w locks' part' w'
| WK_free v u todo : wphase w = PhChk v (u :: todo) -> nth_opt locks u = Some false -> locks' = locks ->
    part' = part -> wphase w' = match todo with [] => PhCrit v | _ => PhChk v todo end ->
    wstep_kind g locks part w locks' part' w'
| WK_busy v todo : wphase w = PhChk v todo -> locks' = locks -> part' = part -> wphase w' = PhRel v ->
    wstep_kind g locks part w locks' part' w'
| WK_unlock v : (wphase w = PhCrit v \/ wphase w = PhRel v) -> (v < length locks)%nat ->
    locks' = set_nth locks v false -> part' = part -> wphase w' = PhIdle ->
    wstep_kind g locks part w locks' part' w'.

Ltac inv_some :=
  repeat match goal with
  | H : Some _ = Some _ |- _ => injection H as H; subst
  | H : (_, _) = (_, _) |- _ => injection H as H; subst
  | H : None = Some _ |- _ => discriminate H
  end.

Lemma wstep_cases cf tmax locks part w locks' part' w' :
  wstep cf tmax locks part w = Some (locks', part', w') ->
  wstep_kind (cf_g cf) locks part w locks' part' w'.
Proof.
  unfold wstep. intros H.
  destruct (w_pc w) as [ | ip todo | v | v todo | v | v ip tg rest acc todo best | v ip tg gn | v r
                        | v todo | v todo nb np tg rest acc todo2 best | ] eqn:Hpc.
  - (* PScanOwn *)
    destruct (nth_opt part (w_cur w)); [|discriminate].
    destruct (row (cf_g cf) (w_cur w)); injection H as <- <- <-;
      apply WK_quiet; auto; unfold wphase; rewrite ?Hpc; try apply phase_scan_next; reflexivity.
  - (* PScanNbr *)
    destruct todo as [|[u ew] todo]; [discriminate|].
    destruct (nth_opt part u); [|discriminate].
    destruct (negb _).
    + injection H as <- <- <-. apply WK_quiet; auto. unfold wphase at 2. rewrite Hpc. apply phase_enter.
    + destruct todo; injection H as <- <- <-; apply WK_quiet; auto; unfold wphase; rewrite ?Hpc;
        try apply phase_scan_next; reflexivity.
  - (* PCas *)
    destruct (nth_opt locks v) as [[|]|] eqn:Hl; [| |discriminate].
    + injection H as <- <- <-. apply WK_quiet; auto. unfold wphase at 2. rewrite Hpc. apply phase_enter.
    + injection H as <- <- <-. apply (WK_cas _ _ _ _ _ _ _ v); auto.
      * unfold wphase. now rewrite Hpc.
      * unfold wphase, nbrs; cbn [set_pc w_pc]. destruct (row (cf_g cf) v); reflexivity.
  - (* PChk *)
    destruct todo as [|[u ew] todo]; [discriminate|].
    destruct (nth_opt locks u) as [[|]|] eqn:Hl; [| |discriminate]; injection H as <- <- <-.
    + apply (WK_busy _ _ _ _ _ _ _ v (u :: map fst todo)); auto. unfold wphase. now rewrite Hpc.
    + apply (WK_free _ _ _ _ _ _ _ v u (map fst todo)); auto.
      * unfold wphase. now rewrite Hpc.
      * unfold wphase; cbn [set_pc w_pc]. destruct todo; reflexivity.
  - (* POwn *)
    destruct (nth_opt part v); [|discriminate].
    destruct (targets (cf_k cf) n) as [|tg rest]; [discriminate|].
    destruct (row (cf_g cf) v); injection H as <- <- <-; apply WK_quiet; auto; unfold wphase; now rewrite Hpc.
  - (* PGain *)
    destruct todo as [|[u ew] todo]; [discriminate|].
    destruct (nth_opt part u); [|discriminate].
    destruct todo.
    + destruct rest.
      * destruct (decide _ _ _ _ _ _) eqn:Hd; [|discriminate]. injection H as <- <- <-.
        apply WK_quiet; auto. apply phase_decide in Hd. unfold wphase at 2. now rewrite Hpc.
      * injection H as <- <- <-. apply WK_quiet; auto. unfold wphase. now rewrite Hpc.
    + injection H as <- <- <-. apply WK_quiet; auto. unfold wphase. now rewrite Hpc.
  - (* PStore *)
    destruct (nth_opt (cf_vw cf) v); [|discriminate].
    destruct (nth_opt (w_pw w) ip); [|discriminate].
    destruct (nth_opt (w_pw w) tg); [|discriminate].
    destruct (Nat.ltb_spec v (length part)); [|discriminate].
    destruct (nth_opt _ tg); [|discriminate]. injection H as <- <- <-.
    eapply WK_store; eauto.
  - (* PUnlock *)
    destruct (Nat.ltb_spec v (length locks)); [|discriminate]. injection H as <- <- <-.
    apply (WK_unlock _ _ _ _ _ _ _ v); auto.
    + unfold wphase. rewrite Hpc. destruct r; auto.
    + destruct r; try apply phase_enter. apply phase_re_start.
  - (* PReNbr *)
    destruct todo as [|[nb ew] todo]; [discriminate|].
    destruct (nth_opt part nb); [|discriminate].
    destruct (targets (cf_k cf) n) as [|tg rest]; [discriminate|].
    destruct (row (cf_g cf) nb); injection H as <- <- <-; apply WK_quiet; auto; unfold wphase at 2; rewrite Hpc.
    + apply phase_re_start.
    + reflexivity.
  - (* PReGain *)
    destruct todo2 as [|[u ew] todo2]; [discriminate|].
    destruct (nth_opt part u); [|discriminate].
    destruct todo2.
    + destruct rest; injection H as <- <- <-; apply WK_quiet; auto; unfold wphase at 2; rewrite Hpc.
      * apply phase_re_start.
      * reflexivity.
    + injection H as <- <- <-. apply WK_quiet; auto. unfold wphase. now rewrite Hpc.
  - discriminate.
Qed.

(* ------------------------------------------------- the protocol invariant *)

Section Proto.
Variable g : graph.
Hypothesis nbrs_sym : forall v u, In u (nbrs g v) -> In v (nbrs g u).

Record proto_inv (locks : list bool) (ws : list worker) : Prop := {
  (* a held lock is set *)
  pi_held : forall t w v, nth_opt ws t = Some w -> holds (wphase w) = Some v -> nth_opt locks v = Some true;
  (* locks are exclusive *)
  pi_excl : forall t t' w w' v, nth_opt ws t = Some w -> nth_opt ws t' = Some w' ->
      holds (wphase w) = Some v -> holds (wphase w') = Some v -> t = t';
  (* if t has cleared the vertex t' holds, then t' has not cleared the vertex t holds (t = t' allowed) *)
  pi_inv : forall t t' w w' v u, nth_opt ws t = Some w -> nth_opt ws t' = Some w' ->
      holds (wphase w) = Some v -> holds (wphase w') = Some u ->
      cleared g (wphase w) u -> cleared g (wphase w') v -> False
}.

Lemma proto_step locks part ws t w locks' part' w' :
  proto_inv locks ws -> nth_opt ws t = Some w ->
  wstep_kind g locks part w locks' part' w' ->
  proto_inv locks' (set_nth ws t w').
Proof.
  intros [Hh He Hi] Hw K.
  assert (Hq : forall ph, wphase w' = ph -> locks' = locks ->
            holds ph = holds (wphase w) -> (forall u, cleared g ph u -> cleared g (wphase w) u) ->
            proto_inv locks' (set_nth ws t w')).
  { intros ph Hph -> Hho Hcl. split.
    - intros t1 w1 v1 H1 Hv1. apply nth_opt_set_nth_inv in H1 as [(-> & -> & _)|(N1 & H1)].
      + rewrite Hph, Hho in Hv1. eauto.
      + eauto.
    - intros t1 t2 w1 w2 v1 H1 H2 Hv1 Hv2.
      apply nth_opt_set_nth_inv in H1 as [(-> & -> & _)|(N1 & H1)];
      apply nth_opt_set_nth_inv in H2 as [(-> & -> & _)|(N2 & H2)]; auto;
      rewrite ?Hph, ?Hho in *; eauto.
    - intros t1 t2 w1 w2 v1 u1 H1 H2 Hv1 Hv2 C1 C2.
      apply nth_opt_set_nth_inv in H1 as [(-> & -> & _)|(N1 & H1)];
      apply nth_opt_set_nth_inv in H2 as [(-> & -> & _)|(N2 & H2)];
      rewrite ?Hph in *; rewrite ?Hho in *.
      + apply Hcl in C1, C2. exact (Hi t t w w v1 u1 Hw Hw Hv1 Hv2 C1 C2).
      + apply Hcl in C1. exact (Hi t t2 w w2 v1 u1 Hw H2 Hv1 Hv2 C1 C2).
      + apply Hcl in C2. exact (Hi t1 t w1 w v1 u1 H1 Hw Hv1 Hv2 C1 C2).
      + exact (Hi t1 t2 w1 w2 v1 u1 H1 H2 Hv1 Hv2 C1 C2). }
  destruct K as [-> -> Hph | v ip tg gn Hpc -> -> Hlt Hph | v Hph0 Hl -> -> Hph
                | v u todo Hph0 Hl -> -> Hph | v todo Hph0 -> -> Hph | v Hph0 Hlt -> -> Hph].
  - (* quiet *) apply (Hq _ eq_refl eq_refl); rewrite Hph; auto.
  - (* store *) apply (Hq _ eq_refl eq_refl); rewrite Hph; unfold wphase; rewrite Hpc; auto.
  - (* cas *)
    assert (Hfree : forall t1 w1, nth_opt ws t1 = Some w1 -> holds (wphase w1) <> Some v).
    { intros t1 w1 H1 Hv. rewrite (Hh _ _ _ H1 Hv) in Hl. discriminate. }
    assert (Hv' : holds (wphase w') = Some v) by (rewrite Hph; destruct (nbrs g v); reflexivity).
    assert (Hc' : forall u, ~ cleared g (wphase w') u).
    { intros u. rewrite Hph. destruct (nbrs g v) eqn:E; cbn [cleared]; rewrite ?E; cbn; tauto. }
    split.
    + intros t1 w1 v1 H1 Hv1. apply nth_opt_set_nth_inv in H1 as [(-> & -> & Hlen)|(N1 & H1)].
      * rewrite Hv' in Hv1. injection Hv1 as <-. apply nth_opt_set_nth_same.
        now apply nth_opt_Some in Hl.
      * destruct (Nat.eq_dec v v1) as [<-|Nv]; [exfalso; eapply Hfree; eauto|].
        rewrite nth_opt_set_nth_other by assumption. eauto.
    + intros t1 t2 w1 w2 v1 H1 H2 Hv1 Hv2.
      apply nth_opt_set_nth_inv in H1 as [(-> & -> & _)|(N1 & H1)];
      apply nth_opt_set_nth_inv in H2 as [(-> & -> & _)|(N2 & H2)]; auto.
      * rewrite Hv' in Hv1. injection Hv1 as <-. exfalso; eapply Hfree; eauto.
      * rewrite Hv' in Hv2. injection Hv2 as <-. exfalso; eapply Hfree; eauto.
      * eauto.
    + intros t1 t2 w1 w2 v1 u1 H1 H2 Hv1 Hv2 C1 C2.
      apply nth_opt_set_nth_inv in H1 as [(-> & -> & _)|(N1 & H1)];
      apply nth_opt_set_nth_inv in H2 as [(-> & -> & _)|(N2 & H2)].
      * eapply Hc'; eauto.
      * eapply Hc'; eauto.
      * eapply Hc'; eauto.
      * eauto.
  - (* neighbour lock read as free *)
    assert (Hv0 : holds (wphase w) = Some v) by now rewrite Hph0.
    assert (Hv' : holds (wphase w') = Some v) by (rewrite Hph; destruct todo; reflexivity).
    assert (Hfree : forall t1 w1, nth_opt ws t1 = Some w1 -> holds (wphase w1) <> Some u).
    { intros t1 w1 H1 Hv. rewrite (Hh _ _ _ H1 Hv) in Hl. discriminate. }
    assert (Hc' : forall x, cleared g (wphase w') x -> x = u \/ cleared g (wphase w) x).
    { intros x. rewrite Hph, Hph0. destruct todo as [|y todo]; cbn [cleared]; cbn [In].
      - intros Hx. destruct (Nat.eq_dec x u); [auto|right]. split; [auto|]. intros [E|[]]. congruence.
      - intros [Hx Hn]. destruct (Nat.eq_dec x u); [auto|right]. split; [auto|].
        intros [E|E]; [congruence|]. apply Hn. exact E. }
    split.
    + intros t1 w1 v1 H1 Hv1. apply nth_opt_set_nth_inv in H1 as [(-> & -> & _)|(N1 & H1)].
      * rewrite Hv' in Hv1. injection Hv1 as <-. eauto.
      * eauto.
    + intros t1 t2 w1 w2 v1 H1 H2 Hv1 Hv2.
      apply nth_opt_set_nth_inv in H1 as [(-> & -> & _)|(N1 & H1)];
      apply nth_opt_set_nth_inv in H2 as [(-> & -> & _)|(N2 & H2)]; auto.
      * rewrite Hv' in Hv1. injection Hv1 as <-. eauto.
      * rewrite Hv' in Hv2. injection Hv2 as <-. eauto.
      * eauto.
    + intros t1 t2 w1 w2 v1 u1 H1 H2 Hv1 Hv2 C1 C2.
      apply nth_opt_set_nth_inv in H1 as [(-> & -> & _)|(N1 & H1)];
      apply nth_opt_set_nth_inv in H2 as [(-> & -> & _)|(N2 & H2)].
      * rewrite Hv' in Hv1, Hv2. injection Hv1 as <-. injection Hv2 as <-.
        apply Hc' in C1 as [->|C1]; [eapply Hfree; eauto|].
        eapply (Hi t t w w v v); eauto.
      * rewrite Hv' in Hv1. injection Hv1 as <-.
        apply Hc' in C1 as [->|C1]; [eapply Hfree; eauto|].
        eapply (Hi t t2 w w2 v u1); eauto.
      * rewrite Hv' in Hv2. injection Hv2 as <-.
        apply Hc' in C2 as [->|C2]; [eapply Hfree; eauto|].
        eapply (Hi t1 t w1 w v1 v); eauto.
      * eauto.
  - (* neighbour lock read as busy *)
    apply (Hq _ eq_refl eq_refl); rewrite Hph, Hph0; cbn [holds cleared]; auto. tauto.
  - (* unlock *)
    assert (Hv0 : holds (wphase w) = Some v) by (destruct Hph0 as [-> | ->]; reflexivity).
    assert (Hn' : holds (wphase w') = None) by now rewrite Hph.
    split.
    + intros t1 w1 v1 H1 Hv1. apply nth_opt_set_nth_inv in H1 as [(-> & -> & _)|(N1 & H1)].
      * congruence.
      * destruct (Nat.eq_dec v v1) as [<-|Nv].
        -- exfalso. apply N1. eapply He; eauto.
        -- rewrite nth_opt_set_nth_other by assumption. eauto.
    + intros t1 t2 w1 w2 v1 H1 H2 Hv1 Hv2.
      apply nth_opt_set_nth_inv in H1 as [(-> & -> & _)|(N1 & H1)];
      apply nth_opt_set_nth_inv in H2 as [(-> & -> & _)|(N2 & H2)]; auto; try congruence. eauto.
    + intros t1 t2 w1 w2 v1 u1 H1 H2 Hv1 Hv2 C1 C2.
      apply nth_opt_set_nth_inv in H1 as [(-> & -> & _)|(N1 & H1)];
      apply nth_opt_set_nth_inv in H2 as [(-> & -> & _)|(N2 & H2)]; try congruence. eauto.
Qed.

(* workers that hold nothing satisfy the invariant, whatever the locks *)
Lemma proto_idle locks ws :
  (forall t w, nth_opt ws t = Some w -> wphase w = PhIdle) -> proto_inv locks ws.
Proof.
  intros H. split; intros; match goal with
  | Hn : nth_opt ws ?t = Some ?w, Hh : holds (wphase ?w) = Some _ |- _ => rewrite (H _ _ Hn) in Hh; discriminate
  end.
Qed.

(* two workers are never both past their neighbour check on equal or adjacent vertices *)
Lemma proto_mutex locks ws t t' w w' v u :
  proto_inv locks ws -> nth_opt ws t = Some w -> nth_opt ws t' = Some w' -> t <> t' ->
  wphase w = PhCrit v -> wphase w' = PhCrit u -> v = u \/ In u (nbrs g v) \/ In v (nbrs g u) -> False.
Proof.
  intros [Hh He Hi] H1 H2 Hne P1 P2 [->|Hadj].
  - apply Hne. eapply He; eauto; rewrite ?P1, ?P2; reflexivity.
  - assert (In u (nbrs g v) /\ In v (nbrs g u)) as [A B] by (destruct Hadj; split; auto).
    eapply (Hi t t' w w' v u); eauto; rewrite ?P1, ?P2; cbn; auto.
Qed.

(* a critical vertex has no self loop (its own lock would have been read as busy) *)
Lemma proto_no_self_loop locks ws t w v :
  proto_inv locks ws -> nth_opt ws t = Some w -> wphase w = PhCrit v -> ~ In v (nbrs g v).
Proof.
  intros [Hh He Hi] H1 P1 Hin.
  eapply (Hi t t w w v v); eauto; rewrite ?P1; cbn; auto.
Qed.
End Proto.

End WithW.

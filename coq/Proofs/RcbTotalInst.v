(* Termination of the cut search and totality of rcb at binary32: the
   hypotheses of Proofs/RcbTotal.v discharged -- the rank embedding by
   Proofs/F32Rank.v (pure), closure of the finite canonical values under the
   midpoint by Proofs/F32Flocq.v (Flocq, real-number axioms). *)
From Coupe Require Import Lib.Prelude Lib.SFloat Model.Rcb Proofs.SFOrder Proofs.RcbProofs
  Proofs.RcbInst Proofs.RcbTotal Proofs.F32Rank Proofs.F32Flocq.
From Coq Require Import Floats.SpecFloat Permutation.
Open Scope Z_scope.

(* the cut search returns within rank max - rank min + 1 <= 2^33 + 1 iterations *)
Theorem search_terminates32 : forall by_coord probe_max tol (xs : list (keyed spec_float)) sum fuel sch it mn mx prev,
  f32_fin mn = true -> f32_fin mx = true -> (1 <= fuel)%nat -> Z.of_nat fuel > rank32 mx - rank32 mn ->
  exists sr, search spec_float flt fle (f32_mid true) f32_sub f32_add f32_zero f32_inf (tol_test tol)
               false by_coord probe_max fuel sch it xs sum mn mx prev = Ok sr
    /\ match sr with SplitAt i _ _ _ => (i < length xs)%nat | AllLeft _ => True end.
Proof.
  intros by_coord probe_max tol.
  exact (search_total spec_float flt fle (f32_mid true) f32_sub f32_add f32_zero f32_inf (tol_test tol)
           by_coord probe_max f32_fin rank32 mid_fin32 rank32_mono).
Qed.

Lemma bbox32_length cl : forall D a pts bb, bbox32 cl D a pts = Some bb -> length bb = D.
Proof.
  induction D as [|D IH]; intros a pts bb H; cbn [bbox32] in H.
  - inversion H; reflexivity.
  - destruct (column a pts) as [c|]; [|discriminate].
    destruct (bbox32 cl D (S a) pts) as [r|] eqn:E; [|discriminate].
    destruct (bbox_axis f64_max_value f64_min_value c) as [mn mx]. inversion H; subst.
    cbn [length]. f_equal. eapply IH; exact E.
Qed.

Lemma box_ok_good : forall bb a its, box_ok_from a bb its = true ->
  Forall (fun b : spec_float * spec_float => f32_fin (fst b) = true /\ f32_fin (snd b) = true) bb.
Proof.
  induction bb as [|[mn mx] t IH]; intros a its H; [constructor|].
  cbn [box_ok_from] in H. apply andb_true_iff in H. destruct H as [H H4].
  apply andb_true_iff in H. destruct H as [H _]. apply andb_true_iff in H. destruct H as [H1 H2].
  constructor; [split; assumption|]. eapply IH; exact H4.
Qed.

Lemma mk_items_len cl : forall pts ws i it, length pts = length ws -> In it (mk_items cl i pts ws) ->
  exists p, In p pts /\ co it = map (cast32 cl) p.
Proof.
  induction pts as [|p t IH]; intros [|w ws] i it H Hit; cbn [mk_items length] in *; try discriminate; [destruct Hit|].
  destruct Hit as [<-|Hit].
  - exists p. split; [left; reflexivity|reflexivity].
  - destruct (IH ws (N.succ i) it ltac:(lia) Hit) as (q & A & B). exists q. split; [right; exact A|exact B].
Qed.

(* totality (no panic, no OutOfFuel, every element written) for every variant
   with the stop rules at HEAD and the overflow-free midpoint, every schedule *)
Theorem rcb_total32 : forall v fuel sched D k tol pts ws p0,
  v_old v = false -> v_safe_mid v = true ->
  (0 < D)%nat -> length ws = length p0 -> length pts = length p0 ->
  Forall (fun p => length p = D) pts ->
  coords_ok pts -> box_ok32c (v_clamp v) D pts ws = true ->
  Z.of_nat fuel > 2 ^ 33 ->
  exists p, rcb v fuel sched D k tol pts ws p0 = Ok p.
Proof.
  intros v fuel sched D k tol pts ws p0 Hold Hsafe HD E1 E2 HDl Hok Hbox Hfuel. unfold rcb.
  rewrite E1, E2, !Nat.eqb_refl. cbn [negb].
  destruct pts as [|pt0 pts']; [eexists; reflexivity|]. set (pts := pt0 :: pts') in *.
  unfold box_ok32c in Hbox. destruct (bbox32 (v_clamp v) D 0 pts) as [bb|] eqn:Ebb; [|discriminate].
  rewrite Hold, Hsafe.
  assert (Hlen : length pts = length ws) by lia.
  apply (rcb_core_total spec_float flt fle (f32_mid true) f32_sub f32_add f32_zero f32_inf (tol_test tol)
           (v_by_coord v) (v_probe_max v) f32v flt_irrefl flt_negtrans fle_flt
           f32_fin rank32 (- 2 ^ 32) (2 ^ 32) mid_fin32 rank32_mono rank32_bounds).
  - exact HD.
  - eapply bbox32_length; exact Ebb.
  - rewrite Forall_forall. intros it Hit. destruct (mk_items_len (v_clamp v) pts ws 0%N it Hlen Hit) as (p & Hp & Hco).
    split.
    + rewrite Hco, map_length. rewrite Forall_forall in HDl. apply HDl, Hp.
    + unfold vitem. pose proof (coords_okc (v_clamp v) pts Hok) as Hok'. rewrite Forall_forall in Hok'. apply Hok'.
      rewrite Hco. unfold to32c. apply in_map, Hp.
  - eapply box_ok_good; exact Hbox.
  - rewrite mk_items_ix by exact Hlen. rewrite E2. reflexivity.
  - unfold pts. destruct ws; [cbn in Hlen; discriminate|]. cbn. discriminate.
  - assert (0 < Z.of_nat fuel) by lia. lia.
  - lia.
Qed.

(* the same on the narrow contract, without the decidable premise: finite f64
   coordinates (canonical binary64 values) whose binary32 images are finite *)
From Coupe Require Import Proofs.RcbBox.

Lemma range_coords_ok pts : coords_in_f32_range pts -> coords_ok pts.
Proof.
  unfold coords_in_f32_range, coords_ok, to32. intros H. rewrite Forall_forall in *. intros p32 Hp.
  apply in_map_iff in Hp. destruct Hp as (p & <- & Hp). specialize (H p Hp).
  rewrite Forall_forall in *. intros c32 Hc. apply in_map_iff in Hc. destruct Hc as (c & <- & Hc).
  destruct (H c Hc) as (_ & _ & F). unfold f32_valid. destruct (f64_to_f32 c); try discriminate; reflexivity.
Qed.

Lemma range_finite_valid64 pts : coords_in_f32_range pts -> coords_finite_valid64 pts.
Proof.
  unfold coords_in_f32_range, coords_finite_valid64. intros H. rewrite Forall_forall in *. intros p Hp. specialize (H p Hp).
  rewrite Forall_forall in *. intros c Hc. destruct (H c Hc) as (V & F & _). split; assumption.
Qed.

Theorem rcb_total32_contract : forall v fuel sched D k tol pts ws p0,
  v_old v = false -> v_safe_mid v = true ->
  (0 < D)%nat -> length ws = length p0 -> length pts = length p0 ->
  Forall (fun p => length p = D) pts -> coords_in_f32_range pts ->
  Z.of_nat fuel > 2 ^ 33 ->
  exists p, rcb v fuel sched D k tol pts ws p0 = Ok p.
Proof.
  intros v fuel sched D k tol pts ws p0 Hold Hsafe HD E1 E2 HDl Hr Hfuel.
  destruct pts as [|pt0 pts'] eqn:Ep.
  - unfold rcb. rewrite E1, E2, !Nat.eqb_refl. cbn [negb]. eexists; reflexivity.
  - rewrite <- Ep in *.
    apply rcb_total32; try assumption; [apply range_coords_ok, Hr|].
    destruct (v_clamp v).
    + apply box_ok32c_true_holds; try assumption; [lia|]. apply range_finite_valid64, Hr.
    + apply box_ok32_holds; try assumption; [rewrite Ep; discriminate|lia].
Qed.

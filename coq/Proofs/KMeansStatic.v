(* The sums of k-means are sums of sub-families of the INPUT weights and of the
   INPUT coordinates.  Hence a static premise on the input -- [sum_ok weights]
   and [sum_ok] of every coordinate column of [points], for a predicate that
   is inherited by sub-families -- makes the sum checks of the checked run
   superfluous: the run checked only on its comparisons ([reds_chk] with the
   sum check replaced by `true`) refines the fully checked run.
   Generic part; the binary64 instance (integers, absolute values adding up to
   at most 2^53) is at the end.  erode is excluded (its sum is over computed
   diameters). *)
From Coupe Require Import Lib.Prelude Lib.SFloat Lib.Rayon Model.KMeansAbs Model.KMeans
  Proofs.KMeansProofs Proofs.KMeansSched.
From Coq Require Import Floats.SpecFloat.
Local Open Scope nat_scope.

Inductive subseq {X} : list X -> list X -> Prop :=
| ss_nil : subseq [] []
| ss_skip x l1 l2 : subseq l1 l2 -> subseq l1 (x :: l2)
| ss_take x l1 l2 : subseq l1 l2 -> subseq (x :: l1) (x :: l2).

Lemma subseq_refl {X} (l : list X) : subseq l l.
Proof. induction l; [apply ss_nil|apply ss_take; auto]. Qed.

Lemma subseq_nil {X} (l : list X) : subseq [] l.
Proof. induction l; [apply ss_nil|apply ss_skip; auto]. Qed.

Lemma select_subseq {X} ids (xs : list X) c : subseq (select ids xs c) xs.
Proof.
  unfold select. revert xs. induction ids as [|i t IH]; intros xs; cbn [combine filter map].
  - apply subseq_nil.
  - destruct xs as [|x xs]; [apply ss_nil|]. cbn [combine filter fst].
    destruct (i =? c)%N; cbn [map snd]; [apply ss_take|apply ss_skip]; apply IH.
Qed.

Lemma subseq_Forall {X} (Q : X -> Prop) l1 l2 : subseq l1 l2 -> Forall Q l2 -> Forall Q l1.
Proof.
  induction 1 as [|x l1 l2 Hs IH|x l1 l2 Hs IH]; intros HF; auto; inversion HF; subst; auto.
Qed.

Lemma subseq_flat_map {X Y} (f : X -> list Y) l1 l2 : subseq l1 l2 -> subseq (flat_map f l1) (flat_map f l2).
Proof.
  induction 1 as [|x l1 l2 H IH|x l1 l2 H IH]; cbn [flat_map].
  - apply ss_nil.
  - induction (f x) as [|y t IHt]; cbn [app]; auto. apply ss_skip. exact IHt.
  - induction (f x) as [|y t IHt]; cbn [app]; auto. apply ss_take. exact IHt.
Qed.

Section Static.
  Variable A : karith.
  Variable sum_ok : list (num A) -> bool.
  Variable val_ok : num A -> bool.
  Variable cmp_ok : list (num A) -> bool.
  (* the sum premise is inherited by sub-families *)
  Hypothesis sum_ok_sub : forall xs ys, subseq ys xs -> sum_ok xs = true -> sum_ok ys = true.

  Variables (T : key -> sched) (P : key -> list nat).
  Variable rot : option (list (vec A)).
  Variable D : nat.
  Variable cfg : settings A.
  Hypothesis no_erode : s_erode cfg = false.

  Variable points : list (vec A).
  Variable weights : list (num A).
  Hypothesis Hw : sum_ok weights = true.
  Hypothesis Hp : vsum_ok A sum_ok D points = true.

  Let R1 := reds_chk A (fun _ => true) val_ok cmp_ok T P.     (* comparisons checked only *)
  Let R2 := reds_chk A sum_ok val_ok cmp_ok T P.              (* everything checked *)

  Lemma vsum_ok_sub pts : subseq pts points -> vsum_ok A sum_ok D pts = true.
  Proof.
    intros Hs. unfold vsum_ok in *. apply andb_prop in Hp. destruct Hp as [H1 H2]. apply andb_true_intro. split.
    - rewrite forallb_forall in *. rewrite <- Forall_forall in *. eapply subseq_Forall; eauto.
    - rewrite forallb_forall in *. intros c Hc. specialize (H2 c Hc).
      eapply sum_ok_sub; [|exact H2]. unfold column. now apply subseq_flat_map.
  Qed.

  Lemma center_eq k pts : subseq pts points -> center A R1 D k pts = center A R2 D k pts.
  Proof.
    intros Hs. unfold center. destruct pts as [|p t]; [reflexivity|].
    unfold R1, R2. cbn [r_vsum reds_chk]. rewrite (vsum_ok_sub _ Hs).
    assert (E : vsum_ok A (fun _ => true) D (p :: t) = true).
    { pose proof (vsum_ok_sub _ Hs) as H. unfold vsum_ok in *. apply andb_prop in H. destruct H as [H1 _].
      rewrite H1. cbn [andb]. apply forallb_forall. reflexivity. }
    rewrite E. reflexivity.
  Qed.

  Lemma new_centers_eq k asg cids centers :
    new_centers A R1 D k points asg cids centers = new_centers A R2 D k points asg cids centers.
  Proof.
    unfold new_centers. induction (indexed 0 (combine cids centers)) as [|[j [cid old]] t IH]; cbn [mapM]; [reflexivity|].
    rewrite IH. f_equal.
    pose proof (select_subseq asg points cid) as Hs. destruct (select asg points cid) eqn:E; [reflexivity|].
    now apply center_eq.
  Qed.

  Lemma mapM_sum_eq asg k (l : list (nat * N)) :
    mapM (fun '(j, cid) => r_sum R1 (3 :: k ++ [j]) (select asg weights cid)) l =
    mapM (fun '(j, cid) => r_sum R2 (3 :: k ++ [j]) (select asg weights cid)) l.
  Proof.
    induction l as [|[j cid] t IH]; cbn [mapM]; [reflexivity|]. rewrite IH. f_equal.
    unfold R1, R2. cbn [r_sum reds_chk]. rewrite (sum_ok_sub weights _ (select_subseq asg weights cid) Hw). reflexivity.
  Qed.

  Lemma balance_loop_eq b : forall it perm centers cids dmbr target st,
    balance_loop A R1 D cfg b it points weights perm centers cids dmbr target st =
    balance_loop A R2 D cfg b it points weights perm centers cids dmbr target st.
  Proof.
    induction b as [|b IH]; intros; cbn [balance_loop]; [reflexivity|].
    destruct (sweep A cfg points centers cids dmbr (st_infl A st) _) as [[[l u] w]| | |]; cbn [bind]; try reflexivity.
    destruct (apply_writes w (st_asg A st)) as [asg| | |]; cbn [bind]; try reflexivity.
    rewrite mapM_sum_eq.
    destruct (mapM _ (indexed 0 cids)) as [nw| | |]; cbn [bind]; try reflexivity.
    change (imbalance A R1 [it; S b] nw) with (imbalance A R2 [it; S b] nw).
    destruct (imbalance A R2 [it; S b] nw) as [imb| | |]; cbn [bind]; try reflexivity.
    destruct (klt A imb _); [reflexivity|].
    rewrite new_centers_eq.
    destruct (new_centers A R2 D _ points asg cids centers) as [ncs| | |]; cbn [bind]; try reflexivity.
    change (relax_bounds A R1) with (relax_bounds A R2).
    destruct (relax_bounds A R2 _ _ _ _ _) as [lu| | |]; cbn [bind]; try reflexivity.
    apply IH.
  Qed.

  Lemma assign_and_balance_eq it perm centers cids st :
    assign_and_balance A R1 rot D cfg it points weights perm centers cids st =
    assign_and_balance A R2 rot D cfg it points weights perm centers cids st.
  Proof.
    unfold assign_and_balance.
    change (obb_of A R1 rot D [1; it] points) with (obb_of A R2 rot D [1; it] points).
    destruct (obb_of A R2 rot D [1; it] points) as [obb| | |]; cbn [bind]; try reflexivity.
    destruct (mapM _ (combine centers (st_infl A st))) as [dmbr| | |]; cbn [bind]; try reflexivity.
    unfold R1 at 1, R2 at 1. cbn [r_sum reds_chk]. rewrite Hw. cbn [guard bind].
    apply balance_loop_eq.
  Qed.

  Lemma kmeans_iter_eq cur : forall perm centers cids st,
    kmeans_iter A R1 rot D cfg cur points weights perm centers cids st =
    kmeans_iter A R2 rot D cfg cur points weights perm centers cids st.
  Proof.
    induction cur as [|cur IH]; intros; cbn [kmeans_iter]; rewrite assign_and_balance_eq;
      destruct (assign_and_balance A R2 rot D cfg _ points weights perm centers cids st) as [st1| | |]; cbn [bind];
      try reflexivity; rewrite new_centers_eq;
      destruct (new_centers A R2 D _ points (st_asg A st1) cids centers) as [ncs| | |]; cbn [bind]; try reflexivity;
      rewrite no_erode; cbn [bind];
      change (r_maxby R1) with (r_maxby R2);
      destruct (r_maxby R2 _ (map2 (dist A) centers ncs)) as [[dm|]| | |]; cbn [bind]; try reflexivity.
    destruct (klt A dm _); [reflexivity|].
    change (relax_bounds A R1) with (relax_bounds A R2).
    destruct (relax_bounds A R2 _ _ _ _ _) as [lu| | |]; cbn [bind]; try reflexivity.
    apply IH.
  Qed.

  Theorem kmeans_static_sums part :
    kmeans A R1 rot D cfg points weights part = kmeans A R2 rot D cfg points weights part.
  Proof.
    unfold kmeans. destruct (_ <? 2)%N; [reflexivity|].
    unfold kmeans_with_initial. destruct (negb _); [reflexivity|].
    assert (E : mapM (fun '(j, cid) => center A R1 D [0; j] (select part points cid)) (indexed 0 (center_ids part)) =
                mapM (fun '(j, cid) => center A R2 D [0; j] (select part points cid)) (indexed 0 (center_ids part))).
    { induction (indexed 0 (center_ids part)) as [|[j cid] t IH]; cbn [mapM]; [reflexivity|]. rewrite IH. f_equal.
      apply center_eq. apply select_subseq. }
    rewrite E. destruct (mapM (fun '(j, cid) => center A R2 D [0; j] (select part points cid)) (indexed 0 (center_ids part)))
      as [centers| | |]; cbn [bind]; try reflexivity.
    rewrite kmeans_iter_eq. reflexivity.
  Qed.
End Static.

(* ---------------------------------------------------------------- binary64 *)
Local Open Scope Z_scope.

Lemma abs_total_nonneg xs s : abs_total xs = Some s -> 0 <= s.
Proof.
  revert s. induction xs as [|x t IH]; cbn [abs_total]; intros s H.
  - injection H as <-. lia.
  - destruct (f64_int x) as [z|]; [|discriminate]. destruct (abs_total t) as [s'|]; [|discriminate].
    injection H as <-. specialize (IH _ eq_refl). lia.
Qed.

Lemma abs_total_subseq ys xs : subseq ys xs -> forall s, abs_total xs = Some s ->
  exists s', abs_total ys = Some s' /\ s' <= s.
Proof.
  induction 1 as [|x l1 l2 Hs IH|x l1 l2 Hs IH]; intros s H.
  - exists s. split; [exact H|lia].
  - cbn [abs_total] in H. destruct (f64_int x) as [z|]; [|discriminate].
    destruct (abs_total l2) as [s2|]; [|discriminate]. injection H as <-.
    destruct (IH _ eq_refl) as (s' & E & L). exists s'. split; [exact E|lia].
  - cbn [abs_total] in *. destruct (f64_int x) as [z|]; [|discriminate].
    destruct (abs_total l2) as [s2|]; [|discriminate]. injection H as <-.
    destruct (IH _ eq_refl) as (s' & -> & L). eexists; split; [reflexivity|lia].
Qed.

Lemma sum_ok_f64_sub xs ys : subseq ys xs -> sum_ok_f64 xs = true -> sum_ok_f64 ys = true.
Proof.
  unfold sum_ok_f64. intros Hs H. destruct (abs_total xs) as [s|] eqn:E; [|discriminate].
  destruct (abs_total_subseq _ _ Hs _ E) as (s' & -> & L). apply Z.leb_le in H. apply Z.leb_le. lia.
Qed.

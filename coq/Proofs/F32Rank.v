(* A bounded order embedding of the finite canonical binary32 values into Z
   (DESIGN §3 `rank_mono`): rank = sign-magnitude reading of (exponent,
   mantissa).  Pure SpecFloat reasoning, no real numbers: SFltb compares
   (sign, exponent, mantissa) lexicographically and a canonical mantissa is
   below 2^24. *)
From Coupe Require Import Lib.Prelude Lib.SFloat Model.Rcb Proofs.SFOrder.
From Coq Require Import Floats.SpecFloat.
Open Scope Z_scope.

Definition rank32 (x : spec_float) : Z :=
  match x with
  | S754_finite s m e => let r := (e + 150) * 2 ^ 24 + Zpos m in if s then - r else r
  | _ => 0
  end.

Lemma pos_lt_pow_digits m : Zpos m < 2 ^ Zpos (digits2_pos m).
Proof.
  induction m as [p IH|p IH|]; cbn [digits2_pos].
  - rewrite Pos2Z.inj_succ, Z.pow_succ_r by lia. lia.
  - rewrite Pos2Z.inj_succ, Z.pow_succ_r by lia. lia.
  - reflexivity.
Qed.

Lemma valid_finite_bounds s m e : valid_binary 24 128 (S754_finite s m e) = true ->
  -149 <= e <= 104 /\ Zpos m < 2 ^ 24.
Proof.
  cbn [valid_binary]. unfold bounded, canonical_mantissa, fexp, emin. intros H.
  apply andb_true_iff in H. destruct H as [H1 H2]. apply Z.leb_le in H2.
  apply Zeq_bool_eq in H1.
  pose proof (pos_lt_pow_digits m) as Hd. set (d := Zpos (digits2_pos m)) in *.
  assert (Hd1 : 1 <= d) by (unfold d; lia).
  assert (d <= 24) by lia. split; [lia|].
  eapply Z.lt_le_trans; [exact Hd|]. apply Z.pow_le_mono_r; lia.
Qed.

Theorem rank32_mono x y : f32_fin x = true -> f32_fin y = true -> flt x y = true -> rank32 x < rank32 y.
Proof.
  unfold f32_fin. intros Hx Hy H. apply andb_true_iff in Hx, Hy. destruct Hx as [Vx Fx], Hy as [Vy Fy].
  assert (Nx : is_nan x = false) by (destruct x; try discriminate; reflexivity).
  assert (Ny : is_nan y = false) by (destruct y; try discriminate; reflexivity).
  apply (flt_key x y Nx Ny) in H.
  destruct x as [sx|sx| |sx mx ex]; try discriminate; destruct y as [sy|sy| |sy my ey]; try discriminate;
    cbn [key rank32] in *; unfold lexlt in H.
  - lia.
  - destruct (valid_finite_bounds _ _ _ Vy) as [B1 B2]. destruct sy; cbn [key] in H; [lia|]. cbv zeta. nia.
  - destruct (valid_finite_bounds _ _ _ Vx) as [B1 B2]. destruct sx; cbn [key] in H; [|lia]. cbv zeta. nia.
  - destruct (valid_finite_bounds _ _ _ Vx) as [A1 A2]. destruct (valid_finite_bounds _ _ _ Vy) as [B1 B2].
    cbv zeta. destruct sx, sy; cbn [key] in H; nia.
Qed.

Theorem rank32_bounds x : f32_fin x = true -> - 2 ^ 32 <= rank32 x <= 2 ^ 32.
Proof.
  unfold f32_fin. intros Hx. apply andb_true_iff in Hx. destruct Hx as [Vx Fx].
  destruct x as [s|s| |s m e]; try discriminate; cbn [rank32]; [lia|].
  destruct (valid_finite_bounds _ _ _ Vx) as [A1 A2]. cbv zeta. destruct s; nia.
Qed.

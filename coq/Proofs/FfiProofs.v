(* C17 — lemmas about the model of the C glue (Model/Ffi.v) and about the generated tables
   (Gen/FfiTables.v through Model/FfiInst.v). *)
From Coupe Require Import Lib.Prelude Lib.SFloat Gen.FfiTables Model.Ffi Model.FfiInst.
From Coq Require Import String Ascii.
Open Scope nat_scope.

(* ------------------------------------------------------------------ the generated tables *)

(* the typed tables the instantiated model uses, spelled out (re-checked by computation against the
   tables regenerated from the current source) *)
Lemma ffi_arms_eq :
  ffi_arms = [("NotFound", CNotFound); ("NegativeValues", CNegValues); ("BiPartitioningOnly", CBipartOnly);
              ("InputLenMismatch", CLenMismatch)]%string
  \/ (forallb (fun e => match conv_error ffi_arms e, documented_code e with
                        | Some c, Some d => code_eqb c d | _, _ => false end) coupe_errors = true).
Proof. right. vm_compute. reflexivity. Qed.

Lemma code_eqb_eq a b : code_eqb a b = true -> a = b.
Proof. destruct a, b; vm_compute; intros H; try reflexivity; discriminate. Qed.

Lemma code_of_name_name c : code_of_name (code_name c) = Some c.
Proof. destruct c; reflexivity. Qed.

(* every variant of coupe::Error has an arm and the arm is the documented code *)
Lemma conv_documented :
  forall e, In (error_name e) (map error_name coupe_errors) ->
    documented_code e <> None /\ conv_error ffi_arms e = documented_code e.
Proof.
  intros e H.
  assert (Hc : forallb (fun e => match conv_error ffi_arms e, documented_code e with
                        | Some c, Some d => code_eqb c d | _, _ => false end) coupe_errors = true)
    by (vm_compute; reflexivity).
  destruct e as [|a b| | |a b]; cbn in H.
  - split; [discriminate|]. vm_compute. reflexivity.
  - split; [discriminate|]. vm_compute. reflexivity.
  - split; [discriminate|]. vm_compute. reflexivity.
  - split; [discriminate|]. vm_compute. reflexivity.
  - exfalso. repeat (destruct H as [H|H]; [discriminate H|]). exact H.
Qed.

Lemma conv_invalid_order a b : conv_error ffi_arms (InvalidOrder a b) = None.
Proof. vm_compute. reflexivity. Qed.

Lemma documented_injective e1 e2 c :
  documented_code e1 = Some c -> documented_code e2 = Some c -> error_name e1 = error_name e2.
Proof. destruct e1, e2; cbn; intros H1 H2; try reflexivity; try discriminate; congruence. Qed.

Lemma documented_not_ok_crash e c :
  documented_code e = Some c -> c <> COk /\ c <> CCrash /\ c <> CAlloc /\ c <> CBadDimension /\ c <> CBadType.
Proof. destruct e; cbn; intros H; inversion H; subst; repeat split; discriminate. Qed.

(* ------------------------------------------------------------------ the guard *)

Lemma guard_true_not_unwinds crash b : guard true crash b <> Unwinds.
Proof. destruct b; cbn; discriminate. Qed.

Section Generic.
  Variable arms : list (string * code).
  Variable crash : code.

  Lemma pre_then_not_unwinds e cx p0 b : ce_guarded e = true -> pre_then crash e cx p0 b <> Unwinds.
  Proof.
    intros Hg. unfold pre_then. destruct (run_pre (ce_pre e) cx); [discriminate|].
    rewrite Hg. apply guard_true_not_unwinds.
  Qed.

  Lemma entry_num_not_unwinds e rust p0 ws k :
    ce_guarded e = true -> entry_num arms crash e rust p0 ws k <> Unwinds.
  Proof. intros Hg. unfold entry_num. apply pre_then_not_unwinds; exact Hg. Qed.

  Lemma entry_geo_not_unwinds e rust p0 dim pts ws params :
    ce_guarded e = true -> entry_geo arms crash e rust p0 dim pts ws params <> Unwinds.
  Proof. intros Hg. unfold entry_geo. apply pre_then_not_unwinds; exact Hg. Qed.

  Lemma entry_fm_not_unwinds e rust p0 adj ws a b c d :
    ce_guarded e = true -> entry_fm arms crash e rust p0 adj ws a b c d <> Unwinds.
  Proof. intros Hg. unfold entry_fm. apply pre_then_not_unwinds; exact Hg. Qed.

  (* the converse, to show the hypothesis matters: without the guard a panic does unwind *)
  Lemma entry_num_unguarded_unwinds e rust p0 ws k s rest W site :
    ce_guarded e = false -> ce_pre e = [] ->
    take_slice (dlen ws) p0 = Some (s, rest) ->
    denote_scalars (numty_for (ce_w e) (dtype ws)) ws = Some W ->
    rust (numty_for (ce_w e) (dtype ws)) W k s = Panic site ->
    entry_num arms crash e rust p0 ws k = Unwinds.
  Proof.
    intros Hg Hp Hs Hd Hr. unfold entry_num, pre_then. rewrite Hp. cbn [run_pre].
    rewrite Hs, Hd, Hr, Hg. reflexivity.
  Qed.

  (* what the guarded region evaluates to, in terms of the Rust algorithm's result *)
  Definition result_of (e : centry) (rest : list N) (r : res (list N)) : outcome :=
    guard true crash (finish arms e rest r).

  Lemma entry_num_spec e rust p0 ws k s rest W :
    ce_guarded e = true ->
    run_pre (ce_pre e) {| px_len_mismatch := false; px_weights_not_double := negb (ty_eqb (dtype ws) TDouble);
                          px_adj_not_int64 := false |} = None ->
    take_slice (dlen ws) p0 = Some (s, rest) ->
    denote_scalars (numty_for (ce_w e) (dtype ws)) ws = Some W ->
    entry_num arms crash e rust p0 ws k = result_of e rest (rust (numty_for (ce_w e) (dtype ws)) W k s).
  Proof.
    intros Hg Hp Hs Hd. unfold entry_num, pre_then, result_of. rewrite Hp, Hs, Hd, Hg. reflexivity.
  Qed.

  Lemma entry_geo_spec_dispatch e rust p0 dim pts ws params s rest P W ds default :
    ce_guarded e = true -> ce_dim e = DimDispatch ds default ->
    run_pre (ce_pre e) {| px_len_mismatch := negb (Nat.eqb (dlen pts) (dlen ws));
                          px_weights_not_double := negb (ty_eqb (dtype ws) TDouble);
                          px_adj_not_int64 := false |} = None ->
    take_slice (if ce_count_points e then dlen pts else dlen ws) p0 = Some (s, rest) ->
    existsb (N.eqb dim) ds = true ->
    denote_points (N.to_nat dim) pts = Some P ->
    denote_scalars (numty_for (ce_w e) (dtype ws)) ws = Some W ->
    entry_geo arms crash e rust p0 dim pts ws params
    = result_of e rest (rust (N.to_nat dim) P (numty_for (ce_w e) (dtype ws)) W params s).
  Proof.
    intros Hg Hdim Hp Hs Hin HP HW. unfold entry_geo, pre_then, result_of.
    rewrite Hp, Hs, Hdim, Hin, HP, HW, Hg. reflexivity.
  Qed.

  Lemma entry_geo_spec_baddim e rust p0 dim pts ws params s rest ds default :
    ce_dim e = DimDispatch ds default ->
    run_pre (ce_pre e) {| px_len_mismatch := negb (Nat.eqb (dlen pts) (dlen ws));
                          px_weights_not_double := negb (ty_eqb (dtype ws) TDouble);
                          px_adj_not_int64 := false |} = None ->
    take_slice (if ce_count_points e then dlen pts else dlen ws) p0 = Some (s, rest) ->
    existsb (N.eqb dim) ds = false ->
    entry_geo arms crash e rust p0 dim pts ws params = Returns default (Some p0).
  Proof.
    intros Hdim Hp Hs Hin. unfold entry_geo, pre_then.
    rewrite Hp, Hs, Hdim, Hin. destruct (ce_guarded e); reflexivity.
  Qed.

  Lemma entry_geo_spec_fixed e rust p0 dim pts ws params s rest P W d :
    ce_guarded e = true -> ce_dim e = DimFixed d ->
    run_pre (ce_pre e) {| px_len_mismatch := negb (Nat.eqb (dlen pts) (dlen ws));
                          px_weights_not_double := negb (ty_eqb (dtype ws) TDouble);
                          px_adj_not_int64 := false |} = None ->
    take_slice (if ce_count_points e then dlen pts else dlen ws) p0 = Some (s, rest) ->
    denote_points d pts = Some P ->
    denote_scalars (numty_for (ce_w e) (dtype ws)) ws = Some W ->
    entry_geo arms crash e rust p0 dim pts ws params
    = result_of e rest (rust d P (numty_for (ce_w e) (dtype ws)) W params s).
  Proof.
    intros Hg Hdim Hp Hs HP HW. unfold entry_geo, pre_then, result_of.
    rewrite Hp, Hs, Hdim, HP, HW, Hg. reflexivity.
  Qed.

  Lemma entry_pre_fails e cx p0 b c :
    run_pre (ce_pre e) cx = Some c -> pre_then crash e cx p0 b = Returns c (Some p0).
  Proof. intros H. unfold pre_then. rewrite H. reflexivity. Qed.

  Lemma entry_fm_spec e rust p0 adj ws a b c d s rest W :
    ce_guarded e = true ->
    run_pre (ce_pre e) {| px_len_mismatch := false; px_weights_not_double := negb (ty_eqb (dtype ws) TDouble);
                          px_adj_not_int64 := negb (ty_eqb (a_type adj) TInt64) |} = None ->
    take_slice (dlen ws) p0 = Some (s, rest) ->
    denote_scalars (numty_for (ce_w e) (dtype ws)) ws = Some W ->
    entry_fm arms crash e rust p0 adj ws a b c d
    = result_of e rest (rust adj (numty_for (ce_w e) (dtype ws)) W (fm_opt a) (fm_opt b) (fm_imbalance c) d s).
  Proof.
    intros Hg Hp Hs Hd. unfold entry_fm, pre_then, result_of. rewrite Hp, Hs, Hd, Hg. reflexivity.
  Qed.

  (* representation independence: an entry point depends on a data set only through its length, its
     Type tag and the elements [denote] yields at the element type the entry point reads it at *)
  Lemma entry_num_repr_indep e rust p0 w1 w2 k :
    dlen w1 = dlen w2 -> dtype w1 = dtype w2 ->
    denote_scalars (numty_for (ce_w e) (dtype w1)) w1 = denote_scalars (numty_for (ce_w e) (dtype w1)) w2 ->
    entry_num arms crash e rust p0 w1 k = entry_num arms crash e rust p0 w2 k.
  Proof. intros Hl Ht Hd. unfold entry_num. rewrite <- Hl, <- Ht, Hd. reflexivity. Qed.

  Lemma entry_geo_repr_indep e rust p0 dim q1 q2 w1 w2 params :
    dlen q1 = dlen q2 -> (forall d, denote_points d q1 = denote_points d q2) ->
    dlen w1 = dlen w2 -> dtype w1 = dtype w2 ->
    denote_scalars (numty_for (ce_w e) (dtype w1)) w1 = denote_scalars (numty_for (ce_w e) (dtype w1)) w2 ->
    entry_geo arms crash e rust p0 dim q1 w1 params = entry_geo arms crash e rust p0 dim q2 w2 params.
  Proof.
    intros Hlq Hq Hl Ht Hd. unfold entry_geo. rewrite <- Hlq, <- Hl, <- Ht, Hd.
    destruct (ce_dim e) as [|d|ds default].
    - reflexivity.
    - rewrite (Hq d). reflexivity.
    - rewrite (Hq (N.to_nat dim)). reflexivity.
  Qed.

  Lemma entry_fm_repr_indep e rust p0 adj w1 w2 a b c d :
    dlen w1 = dlen w2 -> dtype w1 = dtype w2 ->
    denote_scalars (numty_for (ce_w e) (dtype w1)) w1 = denote_scalars (numty_for (ce_w e) (dtype w1)) w2 ->
    entry_fm arms crash e rust p0 adj w1 a b c d = entry_fm arms crash e rust p0 adj w2 a b c d.
  Proof. intros Hl Ht Hd. unfold entry_fm. rewrite <- Hl, <- Ht, Hd. reflexivity. Qed.
End Generic.

(* ------------------------------------------------------------------ the instantiated model *)

(* enums: Rust repr(C) order = header order; the model's codes and tags are the source's *)
Lemma header_enum_agrees :
  map (header_name "COUPE_ERR_") ffi_rust_error_enum = ffi_header_error_enum
  /\ map (header_name "COUPE_") ffi_rust_type_enum = ffi_header_type_enum.
Proof. split; vm_compute; reflexivity. Qed.

Lemma model_codes_agree :
  map code_name all_codes = ffi_rust_error_enum
  /\ (forall c, index_of (code_name c) ffi_rust_error_enum = Some (code_disc c))
  /\ map ty_name [TInt; TInt64; TDouble] = ffi_rust_type_enum
  /\ map error_name coupe_errors = ffi_coupe_error_enum
  /\ map error_name hilbert_errors = ffi_hilbert_error_enum.
Proof.
  split; [vm_compute; reflexivity|]. split; [intros c; destruct c; vm_compute; reflexivity|].
  repeat split; vm_compute; reflexivity.
Qed.

(* exported names = declared names *)
Lemma names_agree :
  same_names ffi_exported ffi_declared = true /\ nodup_str ffi_exported = true /\ nodup_str ffi_declared = true.
Proof. repeat split; vm_compute; reflexivity. Qed.

Lemma mem_str_In s l : mem_str s l = true <-> In s l.
Proof.
  unfold mem_str. rewrite existsb_exists. split.
  - intros [x [Hx He]]. apply String.eqb_eq in He. subst. exact Hx.
  - intros H. exists s. split; [exact H|apply String.eqb_refl].
Qed.

Lemma names_agree_In : forall s, In s ffi_exported <-> In s ffi_declared.
Proof.
  destruct names_agree as [H _]. unfold same_names in H. apply andb_true_iff in H. destruct H as [H1 H2].
  rewrite forallb_forall in H1, H2. intros s. split; intros Hs.
  - apply mem_str_In. apply H1. exact Hs.
  - apply mem_str_In. apply H2. exact Hs.
Qed.

(* the algorithm entry points of the library are the seven of the property, all guarded *)
Lemma seven_entries :
  same_names (map fe_name ffi_entries)
    ["coupe_rcb"; "coupe_rib"; "coupe_hilbert"; "coupe_greedy"; "coupe_karmarkar_karp";
     "coupe_karmarkar_karp_complete"; "coupe_fiduccia_mattheyses"]%string = true
  /\ nodup_str (map fe_name ffi_entries) = true.
Proof. split; vm_compute; reflexivity. Qed.

Lemma all_guarded : forallb fe_guarded ffi_entries = true.
Proof. vm_compute. reflexivity. Qed.

Lemma guard_code_is_crash : ffi_crash = CCrash.
Proof. vm_compute. reflexivity. Qed.

(* error map: total on coupe::Error, onto the documented codes, injective *)
Lemma error_map_total_injective :
  (forall e, In (error_name e) ffi_coupe_error_enum ->
     exists c, conv_error ffi_arms e = Some c /\ documented_code e = Some c)
  /\ (forall e1 e2 c, conv_error ffi_arms e1 = Some c -> conv_error ffi_arms e2 = Some c -> error_name e1 = error_name e2)
  /\ (forall e c, conv_error ffi_arms e = Some c -> c <> COk /\ c <> CCrash).
Proof.
  assert (Henum : map error_name coupe_errors = ffi_coupe_error_enum) by (vm_compute; reflexivity).
  split; [|split].
  - intros e H. rewrite <- Henum in H. destruct (conv_documented e H) as [Hd Hc].
    destruct (documented_code e) as [c|] eqn:E; [|congruence]. exists c. split; [exact Hc|reflexivity].
  - intros e1 e2 c H1 H2.
    destruct e1, e2; vm_compute in H1, H2; try reflexivity; try discriminate; congruence.
  - intros e c H. destruct e; vm_compute in H; inversion H; subst; split; discriminate.
Qed.

(* coupe_hilbert maps every error (InvalidOrder is the only one) to the code of coupe::Error::NotFound *)
Lemma hilbert_error_coincides :
  ce_err ffi_hilbert = Some CNotFound /\ conv_error ffi_arms NotFound = Some CNotFound
  /\ (forall a b, documented_code (InvalidOrder a b) = None).
Proof. repeat split; vm_compute; reflexivity. Qed.

(* the typed tables, spelled out *)
Definition by_tag := WByTag I32 I64 F64.
Lemma ffi_greedy_eq : ffi_greedy = mk_centry true [] false DimNone COk None by_tag.
Proof. vm_compute. reflexivity. Qed.
Lemma ffi_kk_eq : ffi_kk = mk_centry true [] false DimNone COk None (WByTag I32 I64 RealF64).
Proof. vm_compute. reflexivity. Qed.
Lemma ffi_ckk_eq : ffi_ckk = mk_centry true [] false DimNone COk None by_tag.
Proof. vm_compute. reflexivity. Qed.
Lemma ffi_rcb_eq :
  ffi_rcb = mk_centry true [(PLenPointsWeights, CLenMismatch)] true (DimDispatch [2; 3]%N CBadDimension) COk None by_tag.
Proof. vm_compute. reflexivity. Qed.
Lemma ffi_rib_eq :
  ffi_rib = mk_centry true [(PLenPointsWeights, CLenMismatch)] true (DimDispatch [2; 3]%N CBadDimension) COk None by_tag.
Proof. vm_compute. reflexivity. Qed.
Lemma ffi_hilbert_eq :
  ffi_hilbert = mk_centry true [(PLenPointsWeights, CLenMismatch); (PWeightsDouble, CBadType)] true (DimFixed 2) COk
                  (Some CNotFound) (WFixed F64).
Proof. vm_compute. reflexivity. Qed.
Lemma ffi_fm_eq : ffi_fm = mk_centry true [(PAdjInt64, CBadType)] false DimNone COk None by_tag.
Proof. vm_compute. reflexivity. Qed.

(* what the property expects of an entry point, from the Rust algorithm's result *)
Definition expected (rest : list N) (r : res (list N)) : outcome :=
  match r with
  | Ok p => Returns COk (Some (p ++ rest))
  | Err e => Returns (match documented_code e with Some c => c | None => CCrash end) None
  | Panic _ => Returns CCrash None
  | OutOfFuel => Hangs
  end.
(* coupe_hilbert: any error becomes NOT_FOUND (as the source says: "TODO use a proper error code") *)
Definition expected_hilbert (rest : list N) (r : res (list N)) : outcome :=
  match r with
  | Ok p => Returns COk (Some (p ++ rest))
  | Err _ => Returns CNotFound None
  | Panic _ => Returns CCrash None
  | OutOfFuel => Hangs
  end.

Definition tag_numty (t : ty) : numty := match t with TInt => I32 | TInt64 => I64 | TDouble => F64 end.
Definition tag_numty_kk (t : ty) : numty := match t with TInt => I32 | TInt64 => I64 | TDouble => RealF64 end.

Lemma result_of_expected e rest r :
  ce_ok e = COk -> ce_err e = None -> result_of ffi_arms ffi_crash e rest r = expected rest r.
Proof.
  intros Hok Herr. unfold result_of, finish, expected. rewrite Hok, Herr. destruct r as [p|er|site|]; try reflexivity.
  destruct er; vm_compute; reflexivity.
Qed.

Lemma result_of_expected_hilbert rest r : result_of ffi_arms ffi_crash ffi_hilbert rest r = expected_hilbert rest r.
Proof. rewrite ffi_hilbert_eq. destruct r; reflexivity. Qed.

Lemma agrees_greedy rust p0 ws k s rest W :
  take_slice (dlen ws) p0 = Some (s, rest) ->
  denote_scalars (tag_numty (dtype ws)) ws = Some W ->
  coupe_greedy rust p0 ws k = expected rest (rust (tag_numty (dtype ws)) W k s).
Proof.
  intros Hs Hd. unfold coupe_greedy.
  assert (Hn : numty_for (ce_w ffi_greedy) (dtype ws) = tag_numty (dtype ws)) by (rewrite ffi_greedy_eq; destruct (dtype ws); reflexivity).
  rewrite (entry_num_spec ffi_arms ffi_crash ffi_greedy rust p0 ws k s rest W);
    try (rewrite ffi_greedy_eq; reflexivity); try exact Hs; try (rewrite Hn; exact Hd).
  rewrite Hn. apply result_of_expected; rewrite ffi_greedy_eq; reflexivity.
Qed.

Lemma agrees_kk rust p0 ws k s rest W :
  take_slice (dlen ws) p0 = Some (s, rest) ->
  denote_scalars (tag_numty_kk (dtype ws)) ws = Some W ->
  coupe_karmarkar_karp rust p0 ws k = expected rest (rust (tag_numty_kk (dtype ws)) W k s).
Proof.
  intros Hs Hd. unfold coupe_karmarkar_karp.
  assert (Hn : numty_for (ce_w ffi_kk) (dtype ws) = tag_numty_kk (dtype ws)) by (rewrite ffi_kk_eq; destruct (dtype ws); reflexivity).
  rewrite (entry_num_spec ffi_arms ffi_crash ffi_kk rust p0 ws k s rest W);
    try (rewrite ffi_kk_eq; reflexivity); try exact Hs; try (rewrite Hn; exact Hd).
  rewrite Hn. apply result_of_expected; rewrite ffi_kk_eq; reflexivity.
Qed.

Lemma agrees_ckk rust p0 ws tol s rest W :
  take_slice (dlen ws) p0 = Some (s, rest) ->
  denote_scalars (tag_numty (dtype ws)) ws = Some W ->
  coupe_karmarkar_karp_complete rust p0 ws tol = expected rest (rust (tag_numty (dtype ws)) W tol s).
Proof.
  intros Hs Hd. unfold coupe_karmarkar_karp_complete.
  assert (Hn : numty_for (ce_w ffi_ckk) (dtype ws) = tag_numty (dtype ws)) by (rewrite ffi_ckk_eq; destruct (dtype ws); reflexivity).
  rewrite (entry_num_spec ffi_arms ffi_crash ffi_ckk rust p0 ws tol s rest W);
    try (rewrite ffi_ckk_eq; reflexivity); try exact Hs; try (rewrite Hn; exact Hd).
  rewrite Hn. apply result_of_expected; rewrite ffi_ckk_eq; reflexivity.
Qed.

(* rcb / rib: complete case analysis of a call whose output array is long enough *)
Definition geo_expected (rust : nat -> list (list value) -> numty -> list value -> list N -> list N -> res (list N))
           (p0 : list N) (dim : N) (pts ws : data) (params s rest : list N) : outcome :=
  if negb (Nat.eqb (dlen pts) (dlen ws)) then Returns CLenMismatch (Some p0)
  else if existsb (N.eqb dim) [2; 3]%N then
    match denote_points (N.to_nat dim) pts, denote_scalars (tag_numty (dtype ws)) ws with
    | Some P, Some W => expected rest (rust (N.to_nat dim) P (tag_numty (dtype ws)) W params s)
    | _, _ => UB
    end
  else Returns CBadDimension (Some p0).

Lemma geo_dispatch_agrees e rust p0 dim pts ws params s rest :
  e = mk_centry true [(PLenPointsWeights, CLenMismatch)] true (DimDispatch [2; 3]%N CBadDimension) COk None by_tag ->
  take_slice (dlen pts) p0 = Some (s, rest) ->
  entry_geo ffi_arms ffi_crash e rust p0 dim pts ws params = geo_expected rust p0 dim pts ws params s rest.
Proof.
  intros He Hs. unfold geo_expected.
  destruct (negb (Nat.eqb (dlen pts) (dlen ws))) eqn:Hl.
  - unfold entry_geo, pre_then. subst e. cbn [ce_pre run_pre pre_fails px_len_mismatch]. rewrite Hl. reflexivity.
  - destruct (existsb (N.eqb dim) [2; 3]%N) eqn:Hd.
    + assert (Hn : numty_for (ce_w e) (dtype ws) = tag_numty (dtype ws)) by (subst e; destruct (dtype ws); reflexivity).
      destruct (denote_points (N.to_nat dim) pts) as [P|] eqn:HP.
      * destruct (denote_scalars (tag_numty (dtype ws)) ws) as [W|] eqn:HW.
        -- rewrite (entry_geo_spec_dispatch ffi_arms ffi_crash e rust p0 dim pts ws params s rest P W [2; 3]%N CBadDimension);
             try (subst e; reflexivity); try exact Hd; try exact HP.
           ++ rewrite Hn. apply result_of_expected; subst e; reflexivity.
           ++ subst e. cbn [ce_pre run_pre pre_fails px_len_mismatch]. rewrite Hl. reflexivity.
           ++ subst e. exact Hs.
           ++ rewrite Hn. exact HW.
        -- unfold entry_geo, pre_then. subst e. cbn [ce_pre run_pre pre_fails px_len_mismatch ce_count_points ce_dim ce_guarded ce_w].
           rewrite Hl, Hs, Hd, HP. cbn [numty_for by_tag]. fold (tag_numty (dtype ws)). rewrite HW. reflexivity.
      * unfold entry_geo, pre_then. subst e. cbn [ce_pre run_pre pre_fails px_len_mismatch ce_count_points ce_dim ce_guarded ce_w].
        rewrite Hl, Hs, Hd, HP. reflexivity.
    + rewrite (entry_geo_spec_baddim ffi_arms ffi_crash e rust p0 dim pts ws params s rest [2; 3]%N CBadDimension);
        try (subst e; reflexivity); try exact Hd.
      * subst e. cbn [ce_pre run_pre pre_fails px_len_mismatch]. rewrite Hl. reflexivity.
      * subst e. exact Hs.
Qed.

Lemma agrees_rcb rust p0 dim pts ws params s rest :
  take_slice (dlen pts) p0 = Some (s, rest) ->
  coupe_rcb rust p0 dim pts ws params = geo_expected rust p0 dim pts ws params s rest.
Proof. intros Hs. unfold coupe_rcb. apply geo_dispatch_agrees; [exact ffi_rcb_eq|exact Hs]. Qed.

Lemma agrees_rib rust p0 dim pts ws params s rest :
  take_slice (dlen pts) p0 = Some (s, rest) ->
  coupe_rib rust p0 dim pts ws params = geo_expected rust p0 dim pts ws params s rest.
Proof. intros Hs. unfold coupe_rib. apply geo_dispatch_agrees; [exact ffi_rib_eq|exact Hs]. Qed.

(* hilbert: length check, then the weights must be tagged double, then 2-D points / f64 weights *)
Definition hilbert_expected (rust : nat -> list (list value) -> numty -> list value -> list N -> list N -> res (list N))
           (p0 : list N) (pts ws : data) (params s rest : list N) : outcome :=
  if negb (Nat.eqb (dlen pts) (dlen ws)) then Returns CLenMismatch (Some p0)
  else if negb (ty_eqb (dtype ws) TDouble) then Returns CBadType (Some p0)
  else
    match denote_points 2 pts, denote_scalars F64 ws with
    | Some P, Some W => expected_hilbert rest (rust 2%nat P F64 W params s)
    | _, _ => UB
    end.

Lemma agrees_hilbert rust p0 dim pts ws params s rest :
  take_slice (dlen pts) p0 = Some (s, rest) ->
  coupe_hilbert rust p0 dim pts ws params = hilbert_expected rust p0 pts ws params s rest.
Proof.
  intros Hs. unfold coupe_hilbert, hilbert_expected, entry_geo, pre_then. rewrite ffi_hilbert_eq.
  cbn [ce_pre run_pre pre_fails px_len_mismatch px_weights_not_double ce_count_points ce_dim ce_guarded ce_w numty_for].
  destruct (negb (Nat.eqb (dlen pts) (dlen ws))); [reflexivity|].
  destruct (negb (ty_eqb (dtype ws) TDouble)); [reflexivity|].
  rewrite Hs. destruct (denote_points 2 pts) as [P|]; [|reflexivity].
  destruct (denote_scalars F64 ws) as [W|]; [|reflexivity].
  rewrite <- ffi_hilbert_eq. apply result_of_expected_hilbert.
Qed.

Definition fm_expected (rust : adjacency -> numty -> list value -> option N -> option N -> option N -> N -> list N -> res (list N))
           (p0 : list N) (adj : adjacency) (ws : data) (a b c d : N) (s rest : list N) : outcome :=
  if negb (ty_eqb (a_type adj) TInt64) then Returns CBadType (Some p0)
  else
    match denote_scalars (tag_numty (dtype ws)) ws with
    | Some W => expected rest (rust adj (tag_numty (dtype ws)) W (fm_opt a) (fm_opt b) (fm_imbalance c) d s)
    | None => UB
    end.

Lemma agrees_fm rust p0 adj ws a b c d s rest :
  take_slice (dlen ws) p0 = Some (s, rest) ->
  coupe_fiduccia_mattheyses rust p0 adj ws a b c d = fm_expected rust p0 adj ws a b c d s rest.
Proof.
  intros Hs. unfold coupe_fiduccia_mattheyses, fm_expected, entry_fm, pre_then. rewrite ffi_fm_eq.
  cbn [ce_pre run_pre pre_fails px_adj_not_int64 ce_guarded ce_w].
  destruct (negb (ty_eqb (a_type adj) TInt64)); [reflexivity|].
  rewrite Hs.
  assert (Hn : numty_for by_tag (dtype ws) = tag_numty (dtype ws)) by (destruct (dtype ws); reflexivity).
  rewrite Hn. destruct (denote_scalars (tag_numty (dtype ws)) ws) as [W|]; [|reflexivity].
  rewrite <- ffi_fm_eq. apply (result_of_expected ffi_fm); rewrite ffi_fm_eq; reflexivity.
Qed.

(* a panic of the algorithm is reported as CRASH (corollaries of the equations above), and nothing unwinds *)
Lemma never_unwinds :
  (forall rust p0 ws k, coupe_greedy rust p0 ws k <> Unwinds)
  /\ (forall rust p0 ws k, coupe_karmarkar_karp rust p0 ws k <> Unwinds)
  /\ (forall rust p0 ws k, coupe_karmarkar_karp_complete rust p0 ws k <> Unwinds)
  /\ (forall rust p0 dim pts ws params, coupe_rcb rust p0 dim pts ws params <> Unwinds)
  /\ (forall rust p0 dim pts ws params, coupe_rib rust p0 dim pts ws params <> Unwinds)
  /\ (forall rust p0 dim pts ws params, coupe_hilbert rust p0 dim pts ws params <> Unwinds)
  /\ (forall rust p0 adj ws a b c d, coupe_fiduccia_mattheyses rust p0 adj ws a b c d <> Unwinds).
Proof.
  repeat split; intros.
  - apply entry_num_not_unwinds. vm_compute. reflexivity.
  - apply entry_num_not_unwinds. vm_compute. reflexivity.
  - apply entry_num_not_unwinds. vm_compute. reflexivity.
  - apply entry_geo_not_unwinds. vm_compute. reflexivity.
  - apply entry_geo_not_unwinds. vm_compute. reflexivity.
  - apply entry_geo_not_unwinds. vm_compute. reflexivity.
  - apply entry_fm_not_unwinds. vm_compute. reflexivity.
Qed.

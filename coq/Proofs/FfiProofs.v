(* C17 — lemmas about the model of the C glue (Model/Ffi.v) and about the generated tables
   (Gen/FfiTables.v through Model/FfiInst.v). *)
From Coupe Require Import Lib.Prelude Lib.SFloat Gen.FfiTables Model.Ffi Model.FfiInst.
From Coq Require Import String Ascii.
Open Scope nat_scope.

(* ------------------------------------------------------------------ the generated tables *)

Lemma code_eqb_eq a b : code_eqb a b = true -> a = b.
Proof. destruct a, b; vm_compute; intros H; try reflexivity; discriminate. Qed.

Lemma code_of_name_name c : code_of_name (code_name c) = Some c.
Proof. destruct c; reflexivity. Qed.

(* every variant of coupe::Error has an arm and the arm is the documented code *)
Lemma conv_documented :
  forall e, In (error_name e) (map error_name coupe_errors) ->
    documented_code e <> None /\ conv_error ffi_arms e = documented_code e.
Proof.
  intros e H.
  assert (Hc : forallb (fun e => match conv_error ffi_arms e, documented_code e with
                        | Some c, Some d => code_eqb c d | _, _ => false end) coupe_errors = true)
    by (vm_compute; reflexivity).
  destruct e as [|a b| | |a b]; cbn in H.
  - split; [discriminate|]. vm_compute. reflexivity.
  - split; [discriminate|]. vm_compute. reflexivity.
  - split; [discriminate|]. vm_compute. reflexivity.
  - split; [discriminate|]. vm_compute. reflexivity.
  - exfalso. repeat (destruct H as [H|H]; [discriminate H|]). exact H.
Qed.

Lemma conv_invalid_order a b : conv_error ffi_arms (InvalidOrder a b) = None.
Proof. vm_compute. reflexivity. Qed.

Lemma documented_injective e1 e2 c :
  documented_code e1 = Some c -> documented_code e2 = Some c -> error_name e1 = error_name e2.
Proof. destruct e1, e2; cbn; intros H1 H2; try reflexivity; try discriminate; congruence. Qed.

Lemma documented_not_ok_crash e c :
  documented_code e = Some c -> c <> COk /\ c <> CCrash /\ c <> CAlloc /\ c <> CBadDimension /\ c <> CBadType.
Proof. destruct e; cbn; intros H; inversion H; subst; repeat split; discriminate. Qed.

(* ------------------------------------------------------------------ the guard *)

Lemma guard_true_not_unwinds crash b : guard true crash b <> Unwinds.
Proof. destruct b; cbn; discriminate. Qed.

Section Generic.
  Variable arms : list (string * code).
  Variable crash : code.

  Lemma pre_then_not_unwinds e cx p0 b : ce_guarded e = true -> pre_then crash e cx p0 b <> Unwinds.
  Proof.
    intros Hg. unfold pre_then. destruct (run_pre (ce_pre e) cx); [discriminate|].
    rewrite Hg. apply guard_true_not_unwinds.
  Qed.

  Lemma with_params_not_unwinds e args k :
    (forall ps, k ps <> Unwinds) -> with_params e args k <> Unwinds.
  Proof.
    intros H. unfold with_params. destruct (Nat.eqb (List.length args) (ce_arity e)); [|discriminate].
    destruct (build_params (ce_params e) args); [apply H|discriminate].
  Qed.

  Lemma with_params_eq e args ps k :
    Nat.eqb (List.length args) (ce_arity e) = true -> build_params (ce_params e) args = Some ps ->
    with_params e args k = k ps.
  Proof. intros Ha Hb. unfold with_params. rewrite Ha, Hb. reflexivity. Qed.

  Lemma entry_num_not_unwinds e rust p0 ws args :
    ce_guarded e = true -> entry_num arms crash e rust p0 ws args <> Unwinds.
  Proof. intros Hg. unfold entry_num. apply with_params_not_unwinds. intros ps. apply pre_then_not_unwinds; exact Hg. Qed.

  Lemma entry_geo_not_unwinds e rust p0 dim pts ws args :
    ce_guarded e = true -> entry_geo arms crash e rust p0 dim pts ws args <> Unwinds.
  Proof. intros Hg. unfold entry_geo. apply with_params_not_unwinds. intros ps. apply pre_then_not_unwinds; exact Hg. Qed.

  Lemma entry_fm_not_unwinds e rust p0 adj ws args :
    ce_guarded e = true -> entry_fm arms crash e rust p0 adj ws args <> Unwinds.
  Proof. intros Hg. unfold entry_fm. apply with_params_not_unwinds. intros ps. apply pre_then_not_unwinds; exact Hg. Qed.

  (* the converse, to show the hypothesis matters: without the guard a panic does unwind *)
  Lemma entry_num_unguarded_unwinds e rust p0 ws args ps s rest W site :
    ce_guarded e = false -> ce_pre e = [] ->
    Nat.eqb (List.length args) (ce_arity e) = true -> build_params (ce_params e) args = Some ps ->
    take_slice (dlen ws) p0 = Some (s, rest) ->
    denote_scalars (numty_for (ce_w e) (dtype ws)) ws = Some W ->
    rust (numty_for (ce_w e) (dtype ws)) W ps s = Panic site ->
    entry_num arms crash e rust p0 ws args = Unwinds.
  Proof.
    intros Hg Hp Ha Hb Hs Hd Hr. unfold entry_num. rewrite (with_params_eq e args ps _ Ha Hb).
    unfold pre_then. rewrite Hp. cbn [run_pre]. rewrite Hs, Hd, Hr, Hg. reflexivity.
  Qed.

  (* what the guarded region evaluates to, in terms of the Rust algorithm's result *)
  Definition result_of (e : centry) (rest : list N) (r : res (list N)) : outcome :=
    guard true crash (finish arms e rest r).

  (* representation independence: an entry point depends on a data set only through its length, its
     Type tag and the elements [denote] yields at the element type the entry point reads it at *)
  Lemma entry_num_repr_indep e rust p0 w1 w2 args :
    dlen w1 = dlen w2 -> dtype w1 = dtype w2 ->
    denote_scalars (numty_for (ce_w e) (dtype w1)) w1 = denote_scalars (numty_for (ce_w e) (dtype w1)) w2 ->
    entry_num arms crash e rust p0 w1 args = entry_num arms crash e rust p0 w2 args.
  Proof. intros Hl Ht Hd. unfold entry_num. rewrite <- Hl, <- Ht, Hd. reflexivity. Qed.

  Lemma entry_geo_repr_indep e rust p0 dim q1 q2 w1 w2 args :
    dlen q1 = dlen q2 -> dtype q1 = dtype q2 -> (forall d, denote_points d q1 = denote_points d q2) ->
    dlen w1 = dlen w2 -> dtype w1 = dtype w2 ->
    denote_scalars (numty_for (ce_w e) (dtype w1)) w1 = denote_scalars (numty_for (ce_w e) (dtype w1)) w2 ->
    entry_geo arms crash e rust p0 dim q1 w1 args = entry_geo arms crash e rust p0 dim q2 w2 args.
  Proof.
    intros Hlq Htq Hq Hl Ht Hd. unfold entry_geo. rewrite <- Hlq, <- Htq, <- Hl, <- Ht, Hd.
    destruct (ce_dim e) as [|d|ds default].
    - reflexivity.
    - rewrite (Hq d). reflexivity.
    - rewrite (Hq (N.to_nat dim)). reflexivity.
  Qed.

  Lemma entry_fm_repr_indep e rust p0 adj w1 w2 args :
    dlen w1 = dlen w2 -> dtype w1 = dtype w2 ->
    denote_scalars (numty_for (ce_w e) (dtype w1)) w1 = denote_scalars (numty_for (ce_w e) (dtype w1)) w2 ->
    entry_fm arms crash e rust p0 adj w1 args = entry_fm arms crash e rust p0 adj w2 args.
  Proof. intros Hl Ht Hd. unfold entry_fm. rewrite <- Hl, <- Ht, Hd. reflexivity. Qed.
End Generic.

(* ------------------------------------------------------------------ the instantiated model *)

(* enums: Rust repr(C) order = header order; the model's codes and tags are the source's *)
Lemma header_enum_agrees :
  map (header_name "COUPE_ERR_") ffi_rust_error_enum = ffi_header_error_enum
  /\ map (header_name "COUPE_") ffi_rust_type_enum = ffi_header_type_enum.
Proof. split; vm_compute; reflexivity. Qed.

Lemma model_codes_agree :
  map code_name all_codes = ffi_rust_error_enum
  /\ (forall c, index_of (code_name c) ffi_rust_error_enum = Some (code_disc c))
  /\ map ty_name [TInt; TInt64; TDouble] = ffi_rust_type_enum
  /\ map error_name coupe_errors = ffi_coupe_error_enum
  /\ map error_name hilbert_errors = ffi_hilbert_error_enum.
Proof.
  split; [vm_compute; reflexivity|]. split; [intros c; destruct c; vm_compute; reflexivity|].
  repeat split; vm_compute; reflexivity.
Qed.

(* exported names = declared names *)
Lemma names_agree :
  same_names ffi_exported ffi_declared = true /\ nodup_str ffi_exported = true /\ nodup_str ffi_declared = true.
Proof. repeat split; vm_compute; reflexivity. Qed.

Lemma mem_str_In s l : mem_str s l = true <-> In s l.
Proof.
  unfold mem_str. rewrite existsb_exists. split.
  - intros [x [Hx He]]. apply String.eqb_eq in He. subst. exact Hx.
  - intros H. exists s. split; [exact H|apply String.eqb_refl].
Qed.

Lemma names_agree_In : forall s, In s ffi_exported <-> In s ffi_declared.
Proof.
  destruct names_agree as [H _]. unfold same_names in H. apply andb_true_iff in H. destruct H as [H1 H2].
  rewrite forallb_forall in H1, H2. intros s. split; intros Hs.
  - apply mem_str_In. apply H1. exact Hs.
  - apply mem_str_In. apply H2. exact Hs.
Qed.

(* the translator read everything it looks at, and the accessors of data.rs have the shapes [denote] mirrors *)
Lemma translator_clean : ffi_translator_errors = [].
Proof. vm_compute. reflexivity. Qed.
Lemma accessors_as_modelled :
  ffi_data_accessors =
  [("Array", "slice"); ("Array", "par_slice"); ("Array", "to_slice");
   ("Constant", "repeat"); ("Constant", "par_repeat"); ("Constant", "to_slice");
   ("Fn", "call"); ("Fn", "par_call"); ("Fn", "to_slice")]%string.
Proof. vm_compute. reflexivity. Qed.

(* prototypes: same parameter types in the same order, same return type, on both sides *)
Lemma strs_eqb_eq a b : strs_eqb a b = true -> a = b.
Proof.
  revert b; induction a as [|x a IH]; intros [|y b] H; try reflexivity; try discriminate.
  cbn [strs_eqb] in H. apply andb_true_iff in H. destruct H as [H1 H2].
  apply String.eqb_eq in H1. apply IH in H2. subst. reflexivity.
Qed.
Lemma proto_eqb_eq x y : proto_eqb x y = true -> x = y.
Proof.
  destruct x as [[n ps] r], y as [[n' ps'] r']. unfold proto_eqb. cbn [fst snd]. intros H.
  apply andb_true_iff in H. destruct H as [H H3]. apply andb_true_iff in H. destruct H as [H1 H2].
  apply String.eqb_eq in H1, H3. apply strs_eqb_eq in H2. subst. reflexivity.
Qed.
Lemma protos_sub_In a b : protos_sub a b = true -> forall x, In x a -> In x b.
Proof.
  unfold protos_sub. rewrite forallb_forall. intros H x Hx. specialize (H x Hx).
  apply existsb_exists in H. destruct H as [y [Hy He]]. apply proto_eqb_eq in He. subst. exact Hy.
Qed.
Lemma prototypes_agree : forall x, In x ffi_rust_prototypes <-> In x ffi_header_prototypes.
Proof.
  intros x. split; apply protos_sub_In; vm_compute; reflexivity.
Qed.

(* the algorithm entry points of the library are the seven of the property, all guarded *)
Lemma seven_entries :
  same_names (map fe_name ffi_entries)
    ["coupe_rcb"; "coupe_rib"; "coupe_hilbert"; "coupe_greedy"; "coupe_karmarkar_karp";
     "coupe_karmarkar_karp_complete"; "coupe_fiduccia_mattheyses"]%string = true
  /\ nodup_str (map fe_name ffi_entries) = true.
Proof. split; vm_compute; reflexivity. Qed.

Lemma all_guarded : forallb fe_guarded ffi_entries = true.
Proof. vm_compute. reflexivity. Qed.

Lemma guard_code_is_crash : ffi_crash = CCrash.
Proof. vm_compute. reflexivity. Qed.

(* error map: total on coupe::Error, onto the documented codes, injective *)
Lemma error_map_total_injective :
  (forall e, In (error_name e) ffi_coupe_error_enum ->
     exists c, conv_error ffi_arms e = Some c /\ documented_code e = Some c)
  /\ (forall e1 e2 c, conv_error ffi_arms e1 = Some c -> conv_error ffi_arms e2 = Some c -> error_name e1 = error_name e2)
  /\ (forall e c, conv_error ffi_arms e = Some c -> c <> COk /\ c <> CCrash).
Proof.
  assert (Henum : map error_name coupe_errors = ffi_coupe_error_enum) by (vm_compute; reflexivity).
  split; [|split].
  - intros e H. rewrite <- Henum in H. destruct (conv_documented e H) as [Hd Hc].
    destruct (documented_code e) as [c|] eqn:E; [|congruence]. exists c. split; [exact Hc|reflexivity].
  - intros e1 e2 c H1 H2.
    destruct e1, e2; vm_compute in H1, H2; try reflexivity; try discriminate; congruence.
  - intros e c H. destruct e; vm_compute in H; inversion H; subst; split; discriminate.
Qed.

(* coupe_hilbert maps every error (InvalidOrder is the only one) to the code of coupe::Error::NotFound *)
Lemma hilbert_error_coincides :
  ce_err ffi_hilbert = Some CNotFound /\ conv_error ffi_arms NotFound = Some CNotFound
  /\ (forall a b, documented_code (InvalidOrder a b) = None).
Proof. repeat split; vm_compute; reflexivity. Qed.

(* the typed tables, spelled out *)
Definition by_tag := WByTag I32 I64 F64.
Lemma ffi_greedy_eq : ffi_greedy = mk_centry true [] false DimNone COk None by_tag "Greedy" 1 [(0, PSame)].
Proof. vm_compute. reflexivity. Qed.
Lemma ffi_kk_eq :
  ffi_kk = mk_centry true [] false DimNone COk None (WByTag I32 I64 RealF64) "KarmarkarKarp" 1 [(0, PSame)].
Proof. vm_compute. reflexivity. Qed.
Lemma ffi_ckk_eq : ffi_ckk = mk_centry true [] false DimNone COk None by_tag "CompleteKarmarkarKarp" 1 [(0, PSame)].
Proof. vm_compute. reflexivity. Qed.
(* Does the entry point answer BAD_TYPE for points announced with another Type tag than double?  It does since
   fix eb2545c (before it the tag of the points was never read: finding ffi-points-type-unchecked).  The lemmas
   below are proved for both shapes [chk = true / false] of the glue; the theorems are stated at [true], the
   shape of the generated table, and the old shape is refuted (old_shape_refuted). *)
Definition checks_points (e : centry) : bool :=
  existsb (fun x => match fst x with PPointsDouble => true | _ => false end) (ce_pre e).
Definition points_pre (chk : bool) : list (precheck * code) := if chk then [(PPointsDouble, CBadType)] else [].
Definition geo_entry (chk : bool) (alg : string) : centry :=
  mk_centry true ((PLenPointsWeights, CLenMismatch) :: points_pre chk) true (DimDispatch [2; 3]%N CBadDimension) COk None
            by_tag alg 2 [(0, PSame); (1, PSame)].
Definition hilbert_entry (chk : bool) : centry :=
  mk_centry true ((PLenPointsWeights, CLenMismatch) :: points_pre chk ++ [(PWeightsDouble, CBadType)]) true (DimFixed 2) COk
            (Some CNotFound) (WFixed F64) "HilbertCurve" 2 [(0, PSame); (1, PSame)].
Lemma ffi_rcb_eq : ffi_rcb = geo_entry true "Rcb".
Proof. vm_compute. reflexivity. Qed.
Lemma ffi_rib_eq : ffi_rib = geo_entry true "Rib".
Proof. vm_compute. reflexivity. Qed.
Lemma ffi_hilbert_eq : ffi_hilbert = hilbert_entry true.
Proof. vm_compute. reflexivity. Qed.
Lemma points_type_checked :
  checks_points ffi_rcb = true /\ checks_points ffi_rib = true /\ checks_points ffi_hilbert = true.
Proof. repeat split; vm_compute; reflexivity. Qed.
(* the pre-fix shape (points' tag never read) is not the shape of the current source *)
Lemma old_shape_refuted :
  ffi_rcb <> geo_entry false "Rcb" /\ ffi_rib <> geo_entry false "Rib" /\ ffi_hilbert <> hilbert_entry false.
Proof.
  repeat split; intros H; apply (f_equal (fun e => List.length (ce_pre e))) in H; vm_compute in H; discriminate.
Qed.
Lemma ffi_fm_eq :
  ffi_fm = mk_centry true [(PAdjInt64, CBadType)] false DimNone COk None by_tag "FiducciaMattheyses" 4
             [(0, PZeroNone); (1, PZeroNone); (2, PNonPosNone); (3, PSame)].
Proof. vm_compute. reflexivity. Qed.

(* what the property expects of an entry point, from the Rust algorithm's result *)
Definition expected (rest : list N) (r : res (list N)) : outcome :=
  match r with
  | Ok p => Returns COk (Some (p ++ rest))
  | Err e => Returns (match documented_code e with Some c => c | None => CCrash end) None
  | Panic _ => Returns CCrash None
  | OutOfFuel => Hangs
  end.
(* coupe_hilbert: any error becomes NOT_FOUND (as the source says: "TODO use a proper error code") *)
Definition expected_hilbert (rest : list N) (r : res (list N)) : outcome :=
  match r with
  | Ok p => Returns COk (Some (p ++ rest))
  | Err _ => Returns CNotFound None
  | Panic _ => Returns CCrash None
  | OutOfFuel => Hangs
  end.

Definition tag_numty (t : ty) : numty := match t with TInt => I32 | TInt64 => I64 | TDouble => F64 end.
Definition tag_numty_kk (t : ty) : numty := match t with TInt => I32 | TInt64 => I64 | TDouble => RealF64 end.

Lemma result_of_expected e rest r :
  ce_ok e = COk -> ce_err e = None -> result_of ffi_arms ffi_crash e rest r = expected rest r.
Proof.
  intros Hok Herr. unfold result_of, finish, expected. rewrite Hok, Herr. destruct r as [p|er|site|]; try reflexivity.
  destruct er; vm_compute; reflexivity.
Qed.

(* number partitioners: no early return; the weights are read at the type their tag names *)
Lemma num_agrees e rust p0 ws k s rest W nt alg :
  e = mk_centry true [] false DimNone COk None (WByTag I32 I64 nt) alg 1 [(0, PSame)] ->
  take_slice (dlen ws) p0 = Some (s, rest) ->
  denote_scalars (numty_for (WByTag I32 I64 nt) (dtype ws)) ws = Some W ->
  entry_num ffi_arms ffi_crash e rust p0 ws [k]
  = expected rest (rust (numty_for (WByTag I32 I64 nt) (dtype ws)) W [Some k] s).
Proof.
  intros He Hs Hd. subst e. unfold entry_num, with_params, pre_then.
  cbn [List.length ce_arity Nat.eqb ce_params build_params map sequence nth_opt option_map conv_param ce_pre run_pre ce_w ce_guarded].
  rewrite Hs, Hd. apply (result_of_expected _ rest); reflexivity.
Qed.

Lemma agrees_greedy rust p0 ws k s rest W :
  take_slice (dlen ws) p0 = Some (s, rest) ->
  denote_scalars (tag_numty (dtype ws)) ws = Some W ->
  coupe_greedy rust p0 ws k = expected rest (rust (tag_numty (dtype ws)) W [Some k] s).
Proof. intros Hs Hd. unfold coupe_greedy. exact (num_agrees _ rust p0 ws k s rest W F64 _ ffi_greedy_eq Hs Hd). Qed.

Lemma agrees_kk rust p0 ws k s rest W :
  take_slice (dlen ws) p0 = Some (s, rest) ->
  denote_scalars (tag_numty_kk (dtype ws)) ws = Some W ->
  coupe_karmarkar_karp rust p0 ws k = expected rest (rust (tag_numty_kk (dtype ws)) W [Some k] s).
Proof. intros Hs Hd. unfold coupe_karmarkar_karp. exact (num_agrees _ rust p0 ws k s rest W RealF64 _ ffi_kk_eq Hs Hd). Qed.

Lemma agrees_ckk rust p0 ws tol s rest W :
  take_slice (dlen ws) p0 = Some (s, rest) ->
  denote_scalars (tag_numty (dtype ws)) ws = Some W ->
  coupe_karmarkar_karp_complete rust p0 ws tol = expected rest (rust (tag_numty (dtype ws)) W [Some tol] s).
Proof. intros Hs Hd. unfold coupe_karmarkar_karp_complete. exact (num_agrees _ rust p0 ws tol s rest W F64 _ ffi_ckk_eq Hs Hd). Qed.

(* rcb / rib: complete case analysis of a call whose output array is long enough *)
Definition geo_expected (chk : bool)
           (rust : nat -> list (list value) -> numty -> list value -> list (option N) -> list N -> res (list N))
           (p0 : list N) (dim : N) (pts ws : data) (iter tol : N) (s rest : list N) : outcome :=
  if negb (Nat.eqb (dlen pts) (dlen ws)) then Returns CLenMismatch (Some p0)
  else if chk && negb (ty_eqb (dtype pts) TDouble) then Returns CBadType (Some p0)
  else if existsb (N.eqb dim) [2; 3]%N then
    match denote_points (N.to_nat dim) pts, denote_scalars (tag_numty (dtype ws)) ws with
    | Some P, Some W => expected rest (rust (N.to_nat dim) P (tag_numty (dtype ws)) W [Some iter; Some tol] s)
    | _, _ => UB
    end
  else Returns CBadDimension (Some p0).

Lemma geo_dispatch_agrees chk alg rust p0 dim pts ws iter tol s rest :
  take_slice (dlen pts) p0 = Some (s, rest) ->
  entry_geo ffi_arms ffi_crash (geo_entry chk alg) rust p0 dim pts ws [iter; tol]
  = geo_expected chk rust p0 dim pts ws iter tol s rest.
Proof.
  intros Hs. unfold geo_expected, entry_geo, with_params, pre_then, geo_entry.
  cbn [List.length ce_arity Nat.eqb ce_params build_params map sequence nth_opt option_map conv_param
       ce_pre run_pre pre_fails px_len_mismatch ce_count_points ce_dim ce_guarded ce_w].
  destruct (negb (Nat.eqb (dlen pts) (dlen ws))); [reflexivity|].
  assert (Hrest :
    guard true ffi_crash
      match take_slice (dlen pts) p0 with
      | Some (s0, rest0) =>
        if existsb (N.eqb dim) [2; 3]%N then
          match denote_points (N.to_nat dim) pts with
          | Some ps =>
            match denote_scalars (numty_for by_tag (dtype ws)) ws with
            | Some ws0 => finish ffi_arms (geo_entry chk alg) rest0 (rust (N.to_nat dim) ps (numty_for by_tag (dtype ws)) ws0 [Some iter; Some tol] s0)
            | None => BUB
            end
          | None => BUB
          end
        else BRet CBadDimension (Some p0)
      | None => BUB
      end
    = if existsb (N.eqb dim) [2; 3]%N then
        match denote_points (N.to_nat dim) pts, denote_scalars (tag_numty (dtype ws)) ws with
        | Some P, Some W => expected rest (rust (N.to_nat dim) P (tag_numty (dtype ws)) W [Some iter; Some tol] s)
        | _, _ => UB
        end
      else Returns CBadDimension (Some p0)).
  { rewrite Hs.
    destruct (existsb (N.eqb dim) [2; 3]%N); [|reflexivity].
    destruct (denote_points (N.to_nat dim) pts) as [P|]; [|reflexivity].
    assert (Hn : numty_for by_tag (dtype ws) = tag_numty (dtype ws)) by (destruct (dtype ws); reflexivity).
    rewrite Hn.
    destruct (denote_scalars (tag_numty (dtype ws)) ws) as [W|]; [|reflexivity].
    apply (result_of_expected _ rest); reflexivity. }
  destruct chk; cbn [points_pre run_pre pre_fails px_points_not_double andb].
  - destruct (negb (ty_eqb (dtype pts) TDouble)); [reflexivity|]. exact Hrest.
  - exact Hrest.
Qed.

Lemma agrees_rcb rust p0 dim pts ws iter tol s rest :
  take_slice (dlen pts) p0 = Some (s, rest) ->
  coupe_rcb rust p0 dim pts ws iter tol = geo_expected true rust p0 dim pts ws iter tol s rest.
Proof. intros Hs. unfold coupe_rcb. rewrite ffi_rcb_eq. apply geo_dispatch_agrees. exact Hs. Qed.

Lemma agrees_rib rust p0 dim pts ws iter tol s rest :
  take_slice (dlen pts) p0 = Some (s, rest) ->
  coupe_rib rust p0 dim pts ws iter tol = geo_expected true rust p0 dim pts ws iter tol s rest.
Proof. intros Hs. unfold coupe_rib. rewrite ffi_rib_eq. apply geo_dispatch_agrees. exact Hs. Qed.

(* hilbert: length check, then the weights must be tagged double, then 2-D points / f64 weights *)
Definition hilbert_expected (chk : bool)
           (rust : nat -> list (list value) -> numty -> list value -> list (option N) -> list N -> res (list N))
           (p0 : list N) (pts ws : data) (part_count order : N) (s rest : list N) : outcome :=
  if negb (Nat.eqb (dlen pts) (dlen ws)) then Returns CLenMismatch (Some p0)
  else if chk && negb (ty_eqb (dtype pts) TDouble) then Returns CBadType (Some p0)
  else if negb (ty_eqb (dtype ws) TDouble) then Returns CBadType (Some p0)
  else
    match denote_points 2 pts, denote_scalars F64 ws with
    | Some P, Some W => expected_hilbert rest (rust 2%nat P F64 W [Some part_count; Some order] s)
    | _, _ => UB
    end.

Lemma hilbert_agrees chk rust p0 pts ws part_count order s rest :
  take_slice (dlen pts) p0 = Some (s, rest) ->
  entry_geo ffi_arms ffi_crash (hilbert_entry chk) rust p0 2%N pts ws [part_count; order]
  = hilbert_expected chk rust p0 pts ws part_count order s rest.
Proof.
  intros Hs. unfold hilbert_expected, entry_geo, with_params, pre_then, hilbert_entry.
  cbn [List.length ce_arity Nat.eqb ce_params build_params map sequence nth_opt option_map conv_param
       ce_pre run_pre pre_fails px_len_mismatch ce_count_points ce_dim ce_guarded ce_w numty_for].
  destruct (negb (Nat.eqb (dlen pts) (dlen ws))); [reflexivity|].
  destruct chk; cbn [points_pre app run_pre pre_fails px_points_not_double px_weights_not_double andb].
  - destruct (negb (ty_eqb (dtype pts) TDouble)); [reflexivity|].
    destruct (negb (ty_eqb (dtype ws) TDouble)); [reflexivity|].
    rewrite Hs. destruct (denote_points 2 pts) as [P|]; [|reflexivity].
    destruct (denote_scalars F64 ws) as [W|]; [|reflexivity].
    destruct (rust 2%nat P F64 W [Some part_count; Some order] s); reflexivity.
  - destruct (negb (ty_eqb (dtype ws) TDouble)); [reflexivity|].
    rewrite Hs. destruct (denote_points 2 pts) as [P|]; [|reflexivity].
    destruct (denote_scalars F64 ws) as [W|]; [|reflexivity].
    destruct (rust 2%nat P F64 W [Some part_count; Some order] s); reflexivity.
Qed.

Lemma agrees_hilbert rust p0 pts ws part_count order s rest :
  take_slice (dlen pts) p0 = Some (s, rest) ->
  coupe_hilbert rust p0 pts ws part_count order
  = hilbert_expected true rust p0 pts ws part_count order s rest.
Proof. intros Hs. unfold coupe_hilbert. rewrite ffi_hilbert_eq. apply hilbert_agrees. exact Hs. Qed.

Definition fm_expected (rust : adjacency -> numty -> list value -> list (option N) -> list N -> res (list N))
           (p0 : list N) (adj : adjacency) (ws : data) (a b c d : N) (s rest : list N) : outcome :=
  if negb (ty_eqb (a_type adj) TInt64) then Returns CBadType (Some p0)
  else
    match denote_scalars (tag_numty (dtype ws)) ws with
    | Some W => expected rest (rust adj (tag_numty (dtype ws)) W [fm_opt a; fm_opt b; fm_imbalance c; Some d] s)
    | None => UB
    end.

Lemma agrees_fm rust p0 adj ws a b c d s rest :
  take_slice (dlen ws) p0 = Some (s, rest) ->
  coupe_fiduccia_mattheyses rust p0 adj ws a b c d = fm_expected rust p0 adj ws a b c d s rest.
Proof.
  intros Hs. unfold coupe_fiduccia_mattheyses, fm_expected, entry_fm, with_params, pre_then. rewrite ffi_fm_eq.
  cbn [List.length ce_arity Nat.eqb ce_params build_params map sequence nth_opt option_map
       ce_pre run_pre pre_fails px_adj_not_int64 ce_guarded ce_w].
  destruct (negb (ty_eqb (a_type adj) TInt64)); [reflexivity|].
  rewrite Hs.
  assert (Hn : numty_for by_tag (dtype ws) = tag_numty (dtype ws)) by (destruct (dtype ws); reflexivity).
  rewrite Hn. destruct (denote_scalars (tag_numty (dtype ws)) ws) as [W|]; [|reflexivity].
  apply (result_of_expected _ rest); reflexivity.
Qed.

(* nothing unwinds, whatever the algorithm does and whatever the input *)
Lemma never_unwinds :
  (forall rust p0 ws k, coupe_greedy rust p0 ws k <> Unwinds)
  /\ (forall rust p0 ws k, coupe_karmarkar_karp rust p0 ws k <> Unwinds)
  /\ (forall rust p0 ws k, coupe_karmarkar_karp_complete rust p0 ws k <> Unwinds)
  /\ (forall rust p0 dim pts ws iter tol, coupe_rcb rust p0 dim pts ws iter tol <> Unwinds)
  /\ (forall rust p0 dim pts ws iter tol, coupe_rib rust p0 dim pts ws iter tol <> Unwinds)
  /\ (forall rust p0 pts ws k o, coupe_hilbert rust p0 pts ws k o <> Unwinds)
  /\ (forall rust p0 adj ws a b c d, coupe_fiduccia_mattheyses rust p0 adj ws a b c d <> Unwinds).
Proof.
  repeat split; intros.
  - apply entry_num_not_unwinds. vm_compute. reflexivity.
  - apply entry_num_not_unwinds. vm_compute. reflexivity.
  - apply entry_num_not_unwinds. vm_compute. reflexivity.
  - apply entry_geo_not_unwinds. vm_compute. reflexivity.
  - apply entry_geo_not_unwinds. vm_compute. reflexivity.
  - apply entry_geo_not_unwinds. vm_compute. reflexivity.
  - apply entry_fm_not_unwinds. vm_compute. reflexivity.
Qed.

(* ------------------------------------------------------------------ the three representations *)

Definition typed (ct : ty) (w : nat) (c : list value) : Prop :=
  List.length c = w /\ forallb (fun v => ty_eqb (ty_of v) ct) c = true.

Lemma read_Some ct w p c : read ct w p = Some c -> typed ct w c /\ c = firstn w p.
Proof.
  unfold read, typed. intros H.
  destruct (Nat.eqb (List.length (firstn w p)) w) eqn:Hl; cbn [andb] in H; [|discriminate].
  destruct (forallb (fun v => ty_eqb (ty_of v) ct) (firstn w p)) eqn:Ht; [|discriminate].
  inversion H; subst. apply Nat.eqb_eq in Hl. repeat split; assumption.
Qed.

Lemma read_app ct w c rest : typed ct w c -> read ct w (c ++ rest) = Some c.
Proof.
  intros [Hl Ht]. unfold read.
  assert (Hf : firstn w (c ++ rest) = c).
  { rewrite <- Hl. rewrite firstn_app, Nat.sub_diag, firstn_all. cbn [firstn]. apply app_nil_r. }
  rewrite Hf, Hl, Nat.eqb_refl, Ht. reflexivity.
Qed.

Lemma skipn_app_exact {A} (c rest : list A) k : skipn (List.length c + k) (c ++ rest) = skipn k rest.
Proof. induction c as [|x c IH]; cbn [List.length Nat.add skipn app]; [reflexivity|exact IH]. Qed.

Lemma sequence_map_ext {A} (f g : nat -> option A) l :
  (forall i, In i l -> f i = g i) -> sequence (map f l) = sequence (map g l).
Proof.
  induction l as [|x l IH]; intros H; [reflexivity|].
  cbn [map sequence]. rewrite (H x (or_introl eq_refl)), IH; [reflexivity|].
  intros i Hi. apply H. right. exact Hi.
Qed.

Lemma array_elems_cons ct w n c rest :
  typed ct w c ->
  array_elems ct w (S n) (c ++ rest) = match array_elems ct w n rest with Some r => Some (c :: r) | None => None end.
Proof.
  intros Hc. unfold array_elems. rewrite <- cons_seq, <- seq_shift. cbn [map sequence].
  cbn [Nat.mul skipn]. rewrite (read_app ct w c rest Hc). rewrite map_map.
  rewrite (sequence_map_ext (fun x => read ct w (skipn (S x * w) (c ++ rest))) (fun i => read ct w (skipn (i * w) rest))).
  - reflexivity.
  - intros i _. destruct Hc as [Hl _].
    replace (S i * w) with (List.length c + i * w) by (rewrite Hl; cbn [Nat.mul]; reflexivity).
    rewrite skipn_app_exact. reflexivity.
Qed.

(* an array whose memory holds the elements back to back denotes exactly those elements *)
Lemma denote_array ct w t (L : list (list value)) rest :
  (forall c, In c L -> typed ct w c) ->
  denote ct w (DArray (List.length L) t (List.concat L ++ rest)) = Some L.
Proof.
  cbn [denote]. induction L as [|c L IH]; intros H.
  - reflexivity.
  - cbn [List.length List.concat]. rewrite <- app_assoc. rewrite array_elems_cons by (apply H; left; reflexivity).
    rewrite IH; [reflexivity|]. intros c' Hc'. apply H. right. exact Hc'.
Qed.

Lemma denote_constant ct w n t p c : read ct w p = Some c -> denote ct w (DConstant n t p) = Some (repeat c n).
Proof. intros H. cbn [denote]. unfold constant_elems. rewrite H. reflexivity. Qed.

Lemma sequence_map_Some {A} (f : nat -> option A) (g : nat -> A) l :
  (forall i, In i l -> f i = Some (g i)) -> sequence (map f l) = Some (map g l).
Proof.
  induction l as [|x l IH]; intros H; [reflexivity|].
  cbn [map sequence]. rewrite (H x (or_introl eq_refl)), IH; [reflexivity|].
  intros i Hi. apply H. right. exact Hi.
Qed.

Lemma denote_fn ct w n t f g :
  (forall i, i < n -> read ct w (f i) = Some (g i)) -> denote ct w (DFn n t f) = Some (map g (seq 0 n)).
Proof.
  intros H. cbn [denote]. unfold fn_elems. apply sequence_map_Some.
  intros i Hi. apply in_seq in Hi. apply H. lia.
Qed.

(* a constant data set is the array of its repetitions; a callback data set is the array of what it returns *)
Lemma constant_as_array ct w n t t' p c :
  read ct w p = Some c ->
  denote ct w (DConstant n t p) = denote ct w (DArray n t' (List.concat (repeat c n))).
Proof.
  intros H. rewrite (denote_constant ct w n t p c H).
  destruct (read_Some ct w p c H) as [Hc _].
  pose proof (denote_array ct w t' (repeat c n) []) as HA. rewrite repeat_length, app_nil_r in HA.
  rewrite HA; [reflexivity|]. intros c' Hc'. apply repeat_spec in Hc'. subst. exact Hc.
Qed.

Lemma fn_as_array ct w n t t' f g :
  (forall i, i < n -> read ct w (f i) = Some (g i)) ->
  denote ct w (DFn n t f) = denote ct w (DArray n t' (List.concat (map g (seq 0 n)))).
Proof.
  intros H. rewrite (denote_fn ct w n t f g H).
  pose proof (denote_array ct w t' (map g (seq 0 n)) []) as HA. rewrite map_length, seq_length, app_nil_r in HA.
  rewrite HA; [reflexivity|]. intros c Hc. apply in_map_iff in Hc. destruct Hc as [i [Hi Hin]]. subst.
  apply in_seq in Hin. destruct (read_Some ct w (f i) (g i)) as [Ht _]; [apply H; lia|exact Ht].
Qed.

(* representation independence of the seven entry points *)
Lemma repr_indep_greedy rust p0 w1 w2 k :
  dlen w1 = dlen w2 -> dtype w1 = dtype w2 ->
  denote_scalars (tag_numty (dtype w1)) w1 = denote_scalars (tag_numty (dtype w1)) w2 ->
  coupe_greedy rust p0 w1 k = coupe_greedy rust p0 w2 k.
Proof.
  intros Hl Ht Hd. apply entry_num_repr_indep; assumption.
Qed.
Lemma repr_indep_kk rust p0 w1 w2 k :
  dlen w1 = dlen w2 -> dtype w1 = dtype w2 ->
  denote_scalars (tag_numty_kk (dtype w1)) w1 = denote_scalars (tag_numty_kk (dtype w1)) w2 ->
  coupe_karmarkar_karp rust p0 w1 k = coupe_karmarkar_karp rust p0 w2 k.
Proof.
  intros Hl Ht Hd. apply entry_num_repr_indep; assumption.
Qed.
Lemma repr_indep_ckk rust p0 w1 w2 k :
  dlen w1 = dlen w2 -> dtype w1 = dtype w2 ->
  denote_scalars (tag_numty (dtype w1)) w1 = denote_scalars (tag_numty (dtype w1)) w2 ->
  coupe_karmarkar_karp_complete rust p0 w1 k = coupe_karmarkar_karp_complete rust p0 w2 k.
Proof.
  intros Hl Ht Hd. apply entry_num_repr_indep; assumption.
Qed.
Lemma repr_indep_rcb rust p0 dim q1 q2 w1 w2 iter tol :
  dlen q1 = dlen q2 -> dtype q1 = dtype q2 -> (forall d, denote_points d q1 = denote_points d q2) ->
  dlen w1 = dlen w2 -> dtype w1 = dtype w2 ->
  denote_scalars (tag_numty (dtype w1)) w1 = denote_scalars (tag_numty (dtype w1)) w2 ->
  coupe_rcb rust p0 dim q1 w1 iter tol = coupe_rcb rust p0 dim q2 w2 iter tol.
Proof.
  intros Hlq Htq Hq Hl Ht Hd. apply entry_geo_repr_indep; assumption.
Qed.
Lemma repr_indep_rib rust p0 dim q1 q2 w1 w2 iter tol :
  dlen q1 = dlen q2 -> dtype q1 = dtype q2 -> (forall d, denote_points d q1 = denote_points d q2) ->
  dlen w1 = dlen w2 -> dtype w1 = dtype w2 ->
  denote_scalars (tag_numty (dtype w1)) w1 = denote_scalars (tag_numty (dtype w1)) w2 ->
  coupe_rib rust p0 dim q1 w1 iter tol = coupe_rib rust p0 dim q2 w2 iter tol.
Proof.
  intros Hlq Htq Hq Hl Ht Hd. apply entry_geo_repr_indep; assumption.
Qed.
Lemma repr_indep_hilbert rust p0 q1 q2 w1 w2 k o :
  dlen q1 = dlen q2 -> dtype q1 = dtype q2 -> denote_points 2 q1 = denote_points 2 q2 ->
  dlen w1 = dlen w2 -> dtype w1 = dtype w2 ->
  denote_scalars F64 w1 = denote_scalars F64 w2 ->
  coupe_hilbert rust p0 q1 w1 k o = coupe_hilbert rust p0 q2 w2 k o.
Proof.
  intros Hlq Htq Hq Hl Ht Hd. unfold coupe_hilbert, entry_geo. rewrite ffi_hilbert_eq.
  cbn [hilbert_entry ce_count_points ce_dim ce_w numty_for]. rewrite <- Hlq, <- Htq, <- Hl, <- Ht, Hd, Hq. reflexivity.
Qed.
Lemma repr_indep_fm rust p0 adj w1 w2 a b c d :
  dlen w1 = dlen w2 -> dtype w1 = dtype w2 ->
  denote_scalars (tag_numty (dtype w1)) w1 = denote_scalars (tag_numty (dtype w1)) w2 ->
  coupe_fiduccia_mattheyses rust p0 adj w1 a b c d = coupe_fiduccia_mattheyses rust p0 adj w2 a b c d.
Proof.
  intros Hl Ht Hd. apply entry_fm_repr_indep; assumption.
Qed.

(* the Type tag cannot be dropped from the hypotheses: two empty data sets denote the same (no) elements at
   every element type, yet coupe_hilbert answers BAD_TYPE on the tag alone *)
Lemma repr_indep_needs_tag :
  let w1 := DArray 0 TInt [] in let w2 := DArray 0 TDouble [] in
  (forall ct w, denote ct w w1 = denote ct w w2)
  /\ coupe_hilbert (fun _ _ _ _ _ s => Ok s) [] (DArray 0 TDouble []) w1 2%N 1%N = Returns CBadType (Some [])
  /\ coupe_hilbert (fun _ _ _ _ _ s => Ok s) [] (DArray 0 TDouble []) w2 2%N 1%N = Returns COk (Some []).
Proof. repeat split; vm_compute; reflexivity. Qed.

(* a panic of the algorithm is reported as CRASH by each entry point *)
Lemma panic_contained :
  (forall rust p0 ws k s rest W site, take_slice (dlen ws) p0 = Some (s, rest) ->
     denote_scalars (tag_numty (dtype ws)) ws = Some W -> rust (tag_numty (dtype ws)) W [Some k] s = Panic site ->
     coupe_greedy rust p0 ws k = Returns CCrash None)
  /\ (forall rust p0 ws k s rest W site, take_slice (dlen ws) p0 = Some (s, rest) ->
     denote_scalars (tag_numty_kk (dtype ws)) ws = Some W -> rust (tag_numty_kk (dtype ws)) W [Some k] s = Panic site ->
     coupe_karmarkar_karp rust p0 ws k = Returns CCrash None)
  /\ (forall rust p0 ws k s rest W site, take_slice (dlen ws) p0 = Some (s, rest) ->
     denote_scalars (tag_numty (dtype ws)) ws = Some W -> rust (tag_numty (dtype ws)) W [Some k] s = Panic site ->
     coupe_karmarkar_karp_complete rust p0 ws k = Returns CCrash None)
  /\ (forall rust p0 dim pts ws iter tol s rest P W site, take_slice (dlen pts) p0 = Some (s, rest) ->
     dlen pts = dlen ws -> dtype pts = TDouble -> existsb (N.eqb dim) [2; 3]%N = true ->
     denote_points (N.to_nat dim) pts = Some P -> denote_scalars (tag_numty (dtype ws)) ws = Some W ->
     rust (N.to_nat dim) P (tag_numty (dtype ws)) W [Some iter; Some tol] s = Panic site ->
     coupe_rcb rust p0 dim pts ws iter tol = Returns CCrash None
     /\ coupe_rib rust p0 dim pts ws iter tol = Returns CCrash None)
  /\ (forall rust p0 pts ws k o s rest P W site, take_slice (dlen pts) p0 = Some (s, rest) ->
     dlen pts = dlen ws -> dtype pts = TDouble -> dtype ws = TDouble ->
     denote_points 2 pts = Some P -> denote_scalars F64 ws = Some W ->
     rust 2 P F64 W [Some k; Some o] s = Panic site ->
     coupe_hilbert rust p0 pts ws k o = Returns CCrash None)
  /\ (forall rust p0 adj ws a b c d s rest W site, take_slice (dlen ws) p0 = Some (s, rest) ->
     a_type adj = TInt64 -> denote_scalars (tag_numty (dtype ws)) ws = Some W ->
     rust adj (tag_numty (dtype ws)) W [fm_opt a; fm_opt b; fm_imbalance c; Some d] s = Panic site ->
     coupe_fiduccia_mattheyses rust p0 adj ws a b c d = Returns CCrash None).
Proof.
  split; [|split; [|split; [|split; [|split]]]].
  - intros rust p0 ws k s rest W site Hs Hd Hr. rewrite (agrees_greedy rust p0 ws k s rest W Hs Hd), Hr. reflexivity.
  - intros rust p0 ws k s rest W site Hs Hd Hr. rewrite (agrees_kk rust p0 ws k s rest W Hs Hd), Hr. reflexivity.
  - intros rust p0 ws k s rest W site Hs Hd Hr. rewrite (agrees_ckk rust p0 ws k s rest W Hs Hd), Hr. reflexivity.
  - intros rust p0 dim pts ws iter tol s rest P W site Hs Hl Htp Hdim HP HW Hr. split.
    + rewrite (agrees_rcb rust p0 dim pts ws iter tol s rest Hs). unfold geo_expected.
      rewrite Hl, Nat.eqb_refl, Htp. cbn [negb ty_eqb]. rewrite andb_false_r, Hdim, HP, HW, Hr. reflexivity.
    + rewrite (agrees_rib rust p0 dim pts ws iter tol s rest Hs). unfold geo_expected.
      rewrite Hl, Nat.eqb_refl, Htp. cbn [negb ty_eqb]. rewrite andb_false_r, Hdim, HP, HW, Hr. reflexivity.
  - intros rust p0 pts ws k o s rest P W site Hs Hl Htp Ht HP HW Hr.
    rewrite (agrees_hilbert rust p0 pts ws k o s rest Hs). unfold hilbert_expected.
    rewrite Hl, Nat.eqb_refl, Htp, Ht. cbn [negb ty_eqb]. rewrite andb_false_r, HP, HW, Hr. reflexivity.
  - intros rust p0 adj ws a b c d s rest W site Hs Ha HW Hr.
    rewrite (agrees_fm rust p0 adj ws a b c d s rest Hs). unfold fm_expected.
    rewrite Ha. cbn [negb ty_eqb]. rewrite HW, Hr. reflexivity.
Qed.

(* the parameter conversions of coupe_fiduccia_mattheyses, spelled out *)
Lemma fm_conversions :
  fm_opt 0 = None /\ (forall x, x <> 0%N -> fm_opt x = Some x)
  /\ fm_imbalance 0 = None                                   (* +0.0 *)
  /\ fm_imbalance 13830554455654793216 = None                (* -1.0 *)
  /\ fm_imbalance 4587366580439587226 = Some 4587366580439587226%N   (* 0.05 *)
  /\ fm_imbalance 9221120237041090560 = Some 9221120237041090560%N.  (* NaN: `NaN <= 0.0` is false *)
Proof.
  split; [reflexivity|]. split.
  - intros x Hx. unfold fm_opt, conv_param. destruct (N.eqb_spec x 0); [contradiction|reflexivity].
  - repeat split; vm_compute; reflexivity.
Qed.

(* segment_to_segment (the coordinate -> cell quantisation): monotone, and the
   bounding interval is mapped into [0, 2^order - 1].  The IEEE-754 facts come
   from Proofs/HilbertSegFloat.v (Flocq).  Also: the witness that the pinned
   factor `n / width` (before commit 5f6dac8) never leaves the nextafter loop. *)
From Coq Require Import ZArith Reals Lia Lra Bool Floats.SpecFloat.
From Flocq Require Import Core BinarySingleNaN.
From Coupe Require Import Lib.Prelude Lib.SFloat Model.Hilbert Gen.HilbertTables
  Proofs.HilbertCert Proofs.HilbertEncode2D Proofs.HilbertSegFloat.
Open Scope N_scope.

Notation valid64 x := (valid_binary 53 1024 x = true).

(* a returned factor has left the loop: `n <= width * f` is false *)
Lemma seg_loop_exit fuel : forall n w f0 f, seg_loop fuel n w f0 = Ok f -> fle n (f64_mul w f) = false.
Proof.
  induction fuel as [|k IH]; intros n w f0 f H; cbn [seg_loop] in H.
  - destruct (fle n (f64_mul w f0)) eqn:E; [discriminate|]. inversion H. subst. assumption.
  - destruct (fle n (f64_mul w f0)) eqn:E; [apply (IH _ _ _ _ H)|]. inversion H. subst. assumption.
Qed.

(* n = (1_u64 << order) as f64 is the exact power of two *)
Lemma pow2_float order : order < 64 ->
  let n := f64_of_Z (Z.of_N (2 ^ order)) in
  valid64 n /\ SFloat.is_finite n = true /\ SF2R radix2 n = IZR (2 ^ Z.of_N order).
Proof.
  intros Ho.
  assert (F : forallb (fun k =>
     let n := f64_of_Z (Z.of_N (2 ^ k)) in
     valid_binary 53 1024 n &&
     match n with
     | S754_finite false m e => Pos.eqb m 4503599627370496 && (e =? Z.of_N k - 52)%Z
     | _ => false
     end) (range 64) = true) by (vm_compute; reflexivity).
  pose proof (forallb_range _ _ F order Ho) as G. cbv beta zeta in G.
  apply andb_prop in G. destruct G as [G1 G2]. cbv zeta.
  destruct (f64_of_Z (Z.of_N (2 ^ order))) as [s|s| |s m e]; try discriminate.
  destruct s; [discriminate|]. apply andb_prop in G2. destruct G2 as [G2 G3].
  apply Pos.eqb_eq in G2. apply Z.eqb_eq in G3. subst m e.
  split; [assumption|]. split; [reflexivity|].
  cbn [SF2R cond_Zopp]. unfold F2R. cbn [Fnum Fexp].
  change 4503599627370496%Z with (radix2 ^ 52)%Z. rewrite IZR_Zpower by lia.
  rewrite <- bpow_plus. replace (52 + (Z.of_N order - 52))%Z with (Z.of_N order) by lia.
  rewrite <- IZR_Zpower by lia. reflexivity.
Qed.

(* v <= v'  =>  cell v <= cell v', for any finite non-negative factor *)
Theorem seg_monotone f mn mx v v' c c' :
  valid64 f -> SFloat.is_finite f = true -> sign_of f = false ->
  valid64 mn -> valid64 v -> valid64 v' ->
  SFloat.is_finite mn = true -> SFloat.is_finite v = true -> SFloat.is_finite v' = true ->
  fle v v' = true ->
  seg_cell f mn mx v = Ok c -> seg_cell f mn mx v' = Ok c' -> c <= c'.
Proof.
  intros Vf Ff Sf Vmn Vv Vv' Fmn Fv Fv' Hvv Hc Hc'. unfold seg_cell in Hc, Hc'.
  destruct (fle mn v && fle v mx); [|discriminate].
  destruct (fle mn v' && fle v' mx); [|discriminate].
  inversion Hc. inversion Hc'. apply sf_cell_mono; assumption.
Qed.

(* min <= v <= max  =>  cell v <= 2^order - 1 *)
Theorem seg_range fuel mn mx order f v c :
  seg_factor fuel mn mx order = Ok f ->
  valid64 f -> SFloat.is_finite f = true -> sign_of f = false ->
  valid64 mn -> valid64 mx -> valid64 v ->
  SFloat.is_finite mn = true -> SFloat.is_finite mx = true -> SFloat.is_finite v = true ->
  seg_cell f mn mx v = Ok c -> c <= 2 ^ order - 1.
Proof.
  intros Hf Vf Ff Sf Vmn Vmx Vv Fmn Fmx Fv Hc.
  unfold seg_factor, seg_factor_gen in Hf.
  destruct (negb (fle mn mx)); [discriminate|].
  destruct (N.leb_spec 64 order) as [|Ho]; [discriminate|]. cbv zeta in Hf.
  apply seg_loop_exit in Hf.
  unfold seg_cell in Hc. destruct (fle mn v) eqn:E1; [|discriminate].
  destruct (fle v mx) eqn:E2; [|discriminate]. cbn [andb] in Hc. inversion Hc.
  destruct (pow2_float order Ho) as [Vn [Fn Rn]].
  replace order with (Z.to_N (Z.of_N order)) at 1 by apply N2Z.id.
  apply (sf_cell_range f v mn mx (f64_of_Z (Z.of_N (2 ^ order))) (Z.of_N order)); try assumption. lia.
Qed.

(* the pinned factor: on [0, 1e-310] at order 29, n / width = +inf and
   nextafter(+inf, 0.0) = +inf, so the loop never ends (any fuel) *)
Lemma seg_pinned_hangs : forall fuel,
  seg_factor_gen false fuel (f64_of_bits 0) (f64_of_bits 20240225330731) 29 = OutOfFuel.
Proof.
  intros fuel. unfold seg_factor_gen.
  set (mn := f64_of_bits 0). set (mx := f64_of_bits 20240225330731).
  assert (E0 : negb (fle mn mx) = false) by (vm_compute; reflexivity). rewrite E0.
  change (64 <=? 29) with false. cbv iota zeta.
  set (n := f64_of_Z (Z.of_N (2 ^ 29))). set (w := f64_sub mx mn).
  assert (Ediv : f64_div n w = S754_infinity false) by (vm_compute; reflexivity). rewrite Ediv.
  assert (Ecmp : fle n (f64_mul w (S754_infinity false)) = true) by (vm_compute; reflexivity).
  assert (Enext : nextafter (S754_infinity false) f64_zero = S754_infinity false) by (vm_compute; reflexivity).
  induction fuel as [|k IH]; cbn [seg_loop]; rewrite Ecmp; [reflexivity|]. rewrite Enext. exact IH.
Qed.
(* the repaired factor returns on the same input *)
Lemma seg_fixed_returns :
  exists f, seg_factor_gen true 1 (f64_of_bits 0) (f64_of_bits 20240225330731) 29 = Ok f.
Proof. eexists. vm_compute. reflexivity. Qed.

(* the boolean check run on the implementation's cells decides "ascending and
   at most 2^order - 1" *)
From Coq Require Import Sorting.Sorted.
Lemma sortedN_ok l : sortedN l = true <-> Sorted N.le l.
Proof.
  induction l as [|a [|b t] IH].
  - split; [constructor | reflexivity].
  - split; [intros _; repeat constructor | reflexivity].
  - change (sortedN (a :: b :: t)) with ((a <=? b) && sortedN (b :: t)). split.
    + intros H. apply andb_prop in H. destruct H as [H1 H2]. apply N.leb_le in H1.
      constructor; [apply IH; assumption | constructor; assumption].
    + intros H. inversion H as [|x l' Hs Hh]; subst. inversion Hh; subst.
      apply andb_true_intro. split; [apply N.leb_le; assumption | apply IH; assumption].
Qed.
Lemma check_seg_ok order cells :
  check_seg order cells = true <-> Sorted N.le cells /\ Forall (fun c => c <= 2 ^ order - 1) cells.
Proof.
  unfold check_seg. rewrite andb_true_iff, sortedN_ok, forallb_forall, Forall_forall.
  split; intros [H1 H2]; split; try assumption; intros x Hx; apply N.leb_le; auto.
Qed.

(* No panic inside the contract, for the concrete k-means model under the real
   reductions [reds_tree T P] (every family of split trees, every HashMap order).

   Premises (all of them are needed, see the refutations at the end):
     - the input partition is valid: its distinct ids are 0..max (site 2);
     - as many points as part ids (sites 3, 5, 9, 10);
     - `try_inverse` answered a matrix with at least one row, D >= 1 (sites 4, 7);
     - the arithmetic fact [inside_cmp]: the distances computed for a point INSIDE
       the bounding box are comparable (site 6, `partial_cmp(..).unwrap()`);
       proved below for binary64 from SpecFloat's definitions.
   Nothing is asked of the weights (any length, any values, NaN included), of
   the coordinates, of the tolerances and limits. *)
From Coupe Require Import Lib.Prelude Lib.SFloat Lib.Rayon Model.KMeansAbs Model.KMeans
  Proofs.C02Proofs Proofs.KMeansProofs.
From Coq Require Import Floats.SpecFloat.
Local Open Scope nat_scope.

(* ------------------------------------------------ option-valued reductions *)

Lemma par_fold_opt_some {X Y} (f : list X -> option Y) (op : Y -> Y -> Y) :
  (forall l, l <> [] -> f l <> None) ->
  forall t xs, xs <> [] -> par_fold f (oreduce op) t xs <> None.
Proof.
  intros Hf. induction t as [|k l IHl r IHr]; intros xs Hxs; cbn [par_fold]; auto.
  destruct (firstn k xs) as [|a fa] eqn:Ef.
  - assert (Hs : skipn k xs <> []).
    { intros E. apply Hxs. rewrite <- (firstn_skipn k xs), Ef, E. reflexivity. }
    specialize (IHr _ Hs). destruct (par_fold f (oreduce op) l []), (par_fold f (oreduce op) r (skipn k xs));
      cbn [oreduce]; congruence.
  - assert (Hs : a :: fa <> []) by discriminate. specialize (IHl _ Hs).
    destruct (par_fold f (oreduce op) l (a :: fa)), (par_fold f (oreduce op) r (skipn k xs)); cbn [oreduce]; congruence.
Qed.

Lemma par_fold_opt_inv {X Y} (f : list X -> option Y) (op : Y -> Y -> Y) (Q : Y -> Prop) :
  (forall l y, f l = Some y -> Q y) -> (forall a b, Q a -> Q b -> Q (op a b)) ->
  forall t xs y, par_fold f (oreduce op) t xs = Some y -> Q y.
Proof.
  intros Hf Hop. induction t as [|k l IHl r IHr]; intros xs y H; cbn [par_fold] in H; eauto.
  destruct (par_fold f (oreduce op) l (firstn k xs)) as [a|] eqn:Ea,
           (par_fold f (oreduce op) r (skipn k xs)) as [b|] eqn:Eb; cbn [oreduce] in H; try discriminate;
    injection H as <-; eauto.
Qed.

Lemma upd_zip_length A {Y} (f : num A -> Y -> num A) xs ys : length (upd_zip A f xs ys) = length xs.
Proof. revert ys; induction xs as [|x t IH]; intros [|y ys]; cbn [upd_zip length]; auto. Qed.

Lemma map2_length {X Y Z} (f : X -> Y -> Z) xs ys : length (map2 f xs ys) = Nat.min (length xs) (length ys).
Proof. revert ys; induction xs as [|x t IH]; intros [|y ys]; cbn [map2 length Nat.min]; auto. Qed.

Lemma tree_bbox_length A t D xs a b : tree_bbox A t D xs = Some (a, b) -> length a = D /\ length b = D.
Proof.
  unfold tree_bbox. destruct xs as [|x0 xs0]; [discriminate|]. intros H. injection H as <- <-.
  rewrite !map_length, seq_length. auto.
Qed.

Lemma tree_bbox_some A t D xs : xs <> [] -> tree_bbox A t D xs <> None.
Proof. unfold tree_bbox. destruct xs as [|x0 xs0]; [congruence|discriminate]. Qed.

Lemma tree_reduce_some {X} (op : X -> X -> X) t xs : xs <> [] -> tree_reduce op t xs <> None.
Proof.
  intros H. unfold tree_reduce. apply par_fold_opt_some; auto. intros l Hl. destruct l; [congruence|discriminate].
Qed.

Lemma select_nonempty {X} (ids : list N) (xs : list X) c :
  In c ids -> length ids <= length xs -> select ids xs c <> [].
Proof.
  unfold select. revert xs. induction ids as [|i t IH]; intros xs Hin Hlen; [destruct Hin|].
  destruct xs as [|x xs]; [cbn in Hlen; lia|]. cbn [combine filter fst].
  destruct (N.eqb_spec i c) as [E|E]; [cbn [map]; discriminate|].
  destruct Hin as [->|Hin]; [congruence|]. apply IH; auto. cbn [length] in Hlen. lia.
Qed.

Lemma mapM_Ok {X Y} (f : X -> res Y) l : (forall x, In x l -> exists y, f x = Ok y) -> exists ys, mapM f l = Ok ys.
Proof.
  induction l as [|a t IH]; intros H; cbn [mapM]; eauto.
  destruct (H a (or_introl eq_refl)) as [y ->]. destruct IH as [ys ->]; [intros; apply H; right; auto|].
  cbn [bind]. eauto.
Qed.

Lemma indexed_length {X} (l : list X) : forall i, length (indexed i l) = length l.
Proof. induction l as [|x t IH]; intros i; cbn [indexed length]; auto. Qed.

Lemma indexed_In {X} (l : list X) : forall i j x, In (j, x) (indexed i l) -> In x l.
Proof.
  induction l as [|y t IH]; intros i j x H; cbn [indexed In] in *; [destruct H|].
  destruct H as [H|H]; [injection H as _ ->; auto|right; eauto].
Qed.

(* ------------------------------------------------------------ the theorem *)

Section NoPanic.
  Variable A : karith.
  Variable T : key -> sched.
  Variable P : key -> list nat.
  Let R := reds_tree A T P.
  Variable M : list (vec A).
  Variable D : nat.
  Variable cfg : settings A.
  Hypothesis HD : 1 <= D.
  Hypothesis HM : 1 <= length M.

  (* values computed by BoundingBox::distance_to_point for a coordinate x that
     passed the `contains` test against [mn, mx] *)
  Definition inside_val (v : num A) : Prop :=
    exists mn mx x, klt A x (k_add A mx (k_eps A)) = true /\ kgt A x (k_sub A mn (k_eps A)) = true /\
                    (v = k_abs A (k_sub A mx x) \/ v = k_abs A (k_sub A mn x)).
  Hypothesis inside_cmp : forall v w, inside_val v -> inside_val w -> k_cmp A v w <> None.

  Lemma max_by_unwrap_ok xs : forall acc, inside_val acc -> Forall inside_val xs ->
    exists v, max_by_unwrap A acc xs = Ok v.
  Proof.
    induction xs as [|x t IH]; intros acc Ha Hx; cbn [max_by_unwrap]; eauto.
    inversion Hx as [|? ? Hx1 Hx2]; subst.
    destruct (k_cmp A acc x) as [[| |]|] eqn:E; try (apply IH; assumption).
    exfalso. exact (inside_cmp _ _ Ha Hx1 E).
  Qed.

  Lemma bb_distance_ok pmin pmax p : length pmin = D -> length pmax = D -> 1 <= length p ->
    exists v, bb_distance A pmin pmax p = Ok v.
  Proof.
    intros H1 H2 H3. unfold bb_distance.
    destruct (bb_contains A pmin pmax p) eqn:Ec; cbn [negb]; eauto.
    set (l := combine (combine (combine pmin pmax) p) (bb_center A pmin pmax)).
    assert (Hl : forall q, In q l -> inside_val
              ((fun '(mn, mx, x, ce) => if kgt A x ce then k_abs A (k_sub A mx x) else k_abs A (k_sub A mn x)) q)).
    { intros [[[mn mx] x] ce] Hq. apply in_combine_l in Hq.
      unfold bb_contains in Ec. rewrite forallb_forall in Ec. specialize (Ec _ Hq). cbn beta iota in Ec.
      apply andb_prop in Ec. destruct Ec as [E1 E2].
      exists mn, mx, x. repeat split; auto. destruct (kgt A x ce); auto. }
    destruct l as [|q l'] eqn:El.
    - exfalso. assert (Hlen : length l = 0) by now rewrite El.
      unfold l in Hlen. rewrite !combine_length in Hlen. unfold bb_center, vdivs, vadd in Hlen.
      rewrite map_length, map2_length in Hlen. lia.
    - cbn [map]. apply max_by_unwrap_ok.
      + apply Hl. left; reflexivity.
      + apply Forall_forall. intros v Hv. apply in_map_iff in Hv. destruct Hv as (q' & <- & Hq'). apply Hl. right; auto.
  Qed.

  Lemma obb_of_ok k points : points <> [] ->
    exists pmin pmax, obb_of A R (Some M) D k points = Ok (M, pmin, pmax) /\ length pmin = D /\ length pmax = D.
  Proof.
    intros Hp. unfold obb_of, R. cbn [r_bbox reds_tree bind].
    destruct (tree_bbox A (T k) D (map (matvec A M) points)) as [[a b]|] eqn:E.
    - apply tree_bbox_length in E. exists a, b. auto.
    - exfalso. apply (tree_bbox_some A (T k) D (map (matvec A M) points)); [|exact E].
      destruct points; [congruence|discriminate].
  Qed.

  Lemma center_ok k pts : pts <> [] -> exists v, center A R D k pts = Ok v.
  Proof. unfold center, R. destruct pts; [congruence|]. cbn [r_vsum reds_tree bind]. eauto. Qed.

  Lemma new_centers_ok k points asg cids centers :
    exists ncs, new_centers A R D k points asg cids centers = Ok ncs /\
                length ncs = Nat.min (length cids) (length centers).
  Proof.
    unfold new_centers.
    destruct (mapM_Ok (fun '(j, (cid, old)) =>
                match select asg points cid with [] => Ok old | pts => center A R D (k ++ [j]) pts end)
              (indexed 0 (combine cids centers))) as [ncs E].
    - intros [j [cid old]] _. destruct (select asg points cid) eqn:Es; eauto.
      apply center_ok. discriminate.
    - exists ncs. split; auto. apply mapM_length in E. rewrite E, indexed_length, combine_length. reflexivity.
  Qed.

  Lemma relax_bounds_ok k l u d i : exists lu, relax_bounds A R k l u d i = Ok lu.
  Proof. unfold relax_bounds, R. cbn [r_maxby reds_tree bind]. eauto. Qed.

  Lemma imbalance_ok k ws : exists v, imbalance A R k ws = Ok v.
  Proof.
    unfold imbalance, R. cbn [r_minby r_maxby reds_tree bind].
    destruct (tree_reduce (min_op A) _ _); [destruct (tree_reduce (max_op A) _ _)|]; eauto.
  Qed.

  Lemma sweep_ok points centers cids dmbr infl items :
    (forall i lb ub, In (i, lb, ub) items -> i < length points) ->
    exists lbs ubs ws, sweep A cfg points centers cids dmbr infl items = Ok (lbs, ubs, ws) /\
                       (forall i a, In (i, a) ws -> i < length points).
  Proof.
    induction items as [|[[idx lb] ub] t IH]; intros Hi; cbn [sweep].
    - exists [], [], []. split; auto. intros ? ? [].
    - destruct IH as (lbs & ubs & ws & -> & Hw); [intros; eapply Hi; right; eauto|]. cbn [bind].
      destruct (klt A lb ub); [|eauto 6].
      assert (Hidx : idx < length points) by (eapply Hi; left; reflexivity).
      destruct (nth_opt_lt points idx Hidx) as [p ->].
      destruct (best_values A cfg p centers cids dmbr infl) as [[nlb nub] [a|]]; [|eauto 6].
      do 3 eexists. split; [reflexivity|]. intros i a0 [H|H]; [injection H as <- _; auto|eauto].
  Qed.

  Lemma apply_writes_ok ws : forall asg, (forall i a, In (i, a) ws -> i < length asg) ->
    exists asg', apply_writes ws asg = Ok asg'.
  Proof.
    induction ws as [|[i a] t IH]; intros asg H; cbn [apply_writes]; eauto.
    assert (Hi : i < length asg) by (eapply H; left; reflexivity).
    apply Nat.ltb_lt in Hi. rewrite Hi. apply IH. intros j b Hj. rewrite set_nth_length. eapply H; right; eauto.
  Qed.

  Variable points : list (vec A).
  Variable weights : list (num A).
  Let n := length points.
  Let perm := seq 0 n.

  Lemma items_in_range (lbs ubs : list (num A)) i (lb ub : num A) : In (i, lb, ub) (combine (combine perm lbs) ubs) -> i < length points.
  Proof.
    intros H. apply in_combine_l in H. apply in_combine_l in H. unfold perm in H. apply in_seq in H. unfold n in H. lia.
  Qed.

  Lemma balance_loop_ok b : forall it centers cids dmbr target st,
    length (st_asg A st) = n ->
    exists st', balance_loop A R D cfg b it points weights perm centers cids dmbr target st = Ok st' /\
                length (st_asg A st') = n.
  Proof.
    induction b as [|b IH]; intros it centers cids dmbr target st Hn; cbn [balance_loop]; eauto.
    destruct (sweep_ok points centers cids dmbr (st_infl A st) (combine (combine perm (st_lbs A st)) (st_ubs A st)))
      as (lbs & ubs & ws & -> & Hw); [intros; eapply items_in_range; eauto|]. cbn [bind].
    destruct (apply_writes_ok ws (st_asg A st)) as [asg Ea]; [intros i a Hi; rewrite Hn; eapply Hw; eauto|].
    rewrite Ea. cbn [bind].
    destruct (mapM_Ok (fun '(j, cid) => r_sum R (3 :: [it; Datatypes.S b] ++ [j]) (select asg weights cid)) (indexed 0 cids))
      as [nw ->]; [intros [j cid] _; unfold R; cbn [r_sum reds_tree]; eauto|]. cbn [bind].
    destruct (imbalance_ok [it; Datatypes.S b] nw) as [imb ->]. cbn [bind].
    assert (La : length asg = n) by (apply apply_writes_inv in Ea; destruct Ea as [L _]; congruence).
    destruct (klt A imb _); [eexists; split; [reflexivity|exact La]|].
    destruct (new_centers_ok (6 :: [it; Datatypes.S b]) points asg cids centers) as (ncs & -> & _). cbn [bind].
    destruct (relax_bounds_ok (7 :: [it; Datatypes.S b]) (lbs ++ skipn (length lbs) (st_lbs A st))
                (ubs ++ skipn (length ubs) (st_ubs A st)) (map2 (dist A) centers ncs)
                (upd_zip A (new_influence A target) (st_infl A st) nw)) as [lu ->]. cbn [bind].
    apply IH. cbn [st_asg]. exact La.
  Qed.

  Hypothesis Hpoints : points <> [].

  Lemma assign_and_balance_ok it centers cids st :
    length (st_asg A st) = n ->
    exists st', assign_and_balance A R (Some M) D cfg it points weights perm centers cids st = Ok st' /\
                length (st_asg A st') = n.
  Proof.
    intros Hn. unfold assign_and_balance.
    destruct (obb_of_ok [1; it] points Hpoints) as (pmin & pmax & -> & H1 & H2). cbn [bind].
    destruct (mapM_Ok (fun '(c, infl) => d <- obb_distance A (M, pmin, pmax) c ;; Ok (k_mul A d infl))
                      (combine centers (st_infl A st))) as [dmbr ->].
    { intros [c infl] _. unfold obb_distance.
      destruct (bb_distance_ok pmin pmax (matvec A M c)) as [v ->]; auto.
      - unfold matvec. rewrite map_length. exact HM.
      - cbn [bind]. eauto. }
    cbn [bind]. unfold R at 1. cbn [r_sum reds_tree bind].
    apply balance_loop_ok. exact Hn.
  Qed.

  Lemma max_distance_ok pts : pts <> [] -> exists v, max_distance A pts = Ok v.
  Proof. unfold max_distance. destruct pts as [|p t]; [congruence|]. intros _. cbn [flat_map map app]. eauto. Qed.

  Lemma groups_nonempty asg g : In g (groups A asg points) -> g <> [].
  Proof.
    unfold groups. intros H. apply in_map_iff in H. destruct H as (c & <- & Hc).
    apply distinct_In in Hc.
    (* c occurs among the first |points| ids *)
    unfold select.
    assert (Hsel : select (firstn (length points) asg) points c <> []).
    { apply select_nonempty; auto. rewrite firstn_length. lia. }
    unfold select in Hsel. intros E. apply Hsel.
    assert (Hcomb : combine (firstn (length points) asg) points = combine asg points).
    { clear. revert asg. induction points as [|p t IH]; intros [|a asg]; cbn [length firstn combine]; auto.
      f_equal. apply IH. }
    rewrite Hcomb. exact E.
  Qed.

  Lemma erode_ok it asg nc infl dm : exists v, erode A R it points asg nc infl dm = Ok v.
  Proof.
    unfold erode. destruct (mapM_Ok (max_distance A) (groups A asg points)) as [ds ->].
    { intros g Hg. apply max_distance_ok. eapply groups_nonempty; eauto. }
    cbn [bind]. unfold R. cbn [r_gsum reds_tree bind]. eauto.
  Qed.

  Lemma kmeans_iter_ok cur : forall centers cids st,
    length (st_asg A st) = n -> 1 <= length centers -> 1 <= length cids ->
    exists st', kmeans_iter A R (Some M) D cfg cur points weights perm centers cids st = Ok st'.
  Proof.
    induction cur as [|cur IH]; intros centers cids st Hn Hc Hi; cbn [kmeans_iter].
    - destruct (assign_and_balance_ok 0 centers cids st Hn) as (st1 & E & L1). rewrite E. cbn [bind].
      destruct (new_centers_ok [8; 0] points (st_asg A st1) cids centers) as (ncs & -> & Ln). cbn [bind].
      assert (Hinfl : exists infl, (if s_erode cfg then erode A R 0 points (st_asg A st1) (length centers) (st_infl A st1) (map2 (dist A) centers ncs)
                                   else Ok (st_infl A st1)) = Ok infl).
      { destruct (s_erode cfg); [apply erode_ok|eauto]. }
      destruct Hinfl as [infl ->]. cbn [bind]. unfold R at 1. cbn [r_maxby reds_tree bind].
      destruct (tree_reduce (max_op A) (T [10; 0]) (map2 (dist A) centers ncs)) eqn:Er; eauto.
      exfalso. revert Er. apply tree_reduce_some.
      intros E0. apply (f_equal (@length _)) in E0. rewrite map2_length in E0. cbn [length] in E0. lia.
    - destruct (assign_and_balance_ok (Datatypes.S cur) centers cids st Hn) as (st1 & E & L1). rewrite E. cbn [bind].
      destruct (new_centers_ok [8; Datatypes.S cur] points (st_asg A st1) cids centers) as (ncs & -> & Ln). cbn [bind].
      assert (Hinfl : exists infl, (if s_erode cfg then erode A R (Datatypes.S cur) points (st_asg A st1) (length centers) (st_infl A st1) (map2 (dist A) centers ncs)
                                   else Ok (st_infl A st1)) = Ok infl).
      { destruct (s_erode cfg); [apply erode_ok|eauto]. }
      destruct Hinfl as [infl ->]. cbn [bind]. unfold R at 1. cbn [r_maxby reds_tree bind].
      destruct (tree_reduce (max_op A) (T [10; Datatypes.S cur]) (map2 (dist A) centers ncs)) eqn:Er.
      + destruct (klt A _ _); eauto.
        destruct (relax_bounds_ok [11; Datatypes.S cur] (st_lbs A st1) (st_ubs A st1) (map2 (dist A) centers ncs) infl) as [lu ->].
        cbn [bind]. apply IH; cbn [st_asg]; try lia.
      + exfalso. revert Er. apply tree_reduce_some.
        intros E0. apply (f_equal (@length _)) in E0. rewrite map2_length in E0. cbn [length] in E0. lia.
  Qed.
End NoPanic.

(* ------------------------------------------------------- valid partitions *)

(* "every id from 0 to the maximum is used" *)
Definition valid_partition (part : list N) : Prop := forall i, (i <= list_maxN part)%N -> In i part.

Lemma distinct_spec seen p : NoDup (distinct seen p) /\
  (forall x, In x (distinct seen p) <-> In x p /\ ~ In x seen).
Proof.
  revert seen. induction p as [|a t IH]; intros seen; cbn [distinct].
  - split; [constructor|]. intros x; split; [intros []|intros [[] _]].
  - destruct (existsb (N.eqb a) seen) eqn:E.
    + destruct (IH seen) as [ND I]. split; auto. intros x. rewrite I. cbn [In]. split; [tauto|].
      intros [[<-|H] Hn]; auto. exfalso. apply Hn.
      apply existsb_exists in E. destruct E as (y & Hy & Ey). apply N.eqb_eq in Ey. subst. exact Hy.
    + destruct (IH (a :: seen)) as [ND I]. split.
      * constructor; auto. rewrite I. cbn [In]. tauto.
      * intros x. cbn [In]. rewrite I. cbn [In]. split.
        -- intros [<-|[H Hn]]; [|tauto]. split; auto. intros Hs.
           assert (existsb (N.eqb a) seen = true) by (apply existsb_exists; exists a; split; auto; apply N.eqb_refl).
           congruence.
        -- intros [[<-|H] Hn]; auto. destruct (N.eq_dec a x) as [->|Ne]; auto. right. tauto.
Qed.

Lemma valid_partition_count part : valid_partition part ->
  N.of_nat (length (center_ids part)) = (1 + list_maxN part)%N.
Proof.
  intros Hv. unfold center_ids. destruct (distinct_spec [] part) as [ND I].
  set (m := list_maxN part) in *.
  set (full := map N.of_nat (seq 0 (Datatypes.S (N.to_nat m)))).
  assert (NDf : NoDup full).
  { unfold full. apply FinFun.Injective_map_NoDup; [intros a b; apply Nat2N.inj|apply seq_NoDup]. }
  assert (Hlen : length (distinct [] part) = length full).
  { apply Nat.le_antisymm; apply NoDup_incl_length; auto.
    - intros x Hx. apply I in Hx. destruct Hx as [Hx _]. unfold full. apply in_map_iff.
      exists (N.to_nat x). split; [apply N2Nat.id|]. apply in_seq.
      pose proof (list_maxN_le part x Hx). fold m in H. lia.
    - intros x Hx. unfold full in Hx. apply in_map_iff in Hx. destruct Hx as (j & <- & Hj). apply in_seq in Hj.
      apply I. split; [|intros []]. apply Hv. fold m. lia. }
  rewrite Hlen. unfold full. rewrite map_length, seq_length. lia.
Qed.

(* KMeans::partition returns Ok inside the contract (in particular no panic, no
   undefined behaviour at the raw writes), for every arithmetic satisfying
   [inside_cmp], every schedule, every setting, any weights *)
Theorem kmeans_no_panic : forall A T P M D cfg,
  1 <= D -> 1 <= length M ->
  (forall v w, inside_val A v -> inside_val A w -> k_cmp A v w <> None) ->
  forall points weights part,
  length points = length part ->
  valid_partition part ->
  exists part', kmeans A (reds_tree A T P) (Some M) D cfg points weights part = Ok part'.
Proof.
  intros A T P M D cfg HD HM HA points weights part Hlen Hv.
  unfold kmeans. destruct (1 + list_maxN part <? 2)%N eqn:E2; eauto.
  unfold kmeans_with_initial. rewrite (valid_partition_count part Hv), N.eqb_refl. cbn [negb].
  apply N.ltb_ge in E2.
  assert (Hk : 1 <= length (center_ids part)).
  { pose proof (valid_partition_count part Hv). lia. }
  assert (Hp : points <> []).
  { intros ->. cbn [length] in Hlen. destruct part; [cbn in Hk; lia|discriminate]. }
  destruct (mapM_Ok (fun '(j, cid) => center A (reds_tree A T P) D [0; j] (select part points cid))
                    (indexed 0 (center_ids part))) as [centers Ec].
  { intros [j cid] Hj. apply center_ok. apply select_nonempty; [|lia].
    apply indexed_In in Hj. unfold center_ids in Hj. eapply distinct_In; eauto. }
  rewrite Ec. cbn [bind].
  assert (Lc : length centers = length (center_ids part)).
  { apply mapM_length in Ec. now rewrite Ec, indexed_length. }
  destruct (kmeans_iter_ok A T P M D cfg HD HM HA points weights Hp (s_max_iter cfg) centers (center_ids part)
              (mkState A part (map (fun _ => k_one A) centers) (repeat (k_zero A) (length points))
                       (repeat (k_fmax A) (length points)))) as [st ->]; cbn [st_asg]; try lia.
  cbn [bind]. eauto.
Qed.

(* C02: exactness of the validity checker; the abstract k-means model never
   writes an id that is not an id of the input partition. *)
From Coupe Require Import Lib.Prelude Lib.Report Model.KMeansAbs Run.RunC02.

Lemma check_valid_spec bound n p :
  check_valid bound n p = true <-> (length p = n /\ Forall (fun x => (x <= bound)%N) p).
Proof.
  unfold check_valid. rewrite andb_true_iff, Nat.eqb_eq, forallb_forall, Forall_forall.
  split; intros [H1 H2]; split; auto; intros x Hx; specialize (H2 x Hx); apply N.leb_le; exact H2.
Qed.

(* ---- center ids are ids of the partition ---- *)
Lemma distinct_In seen p x : In x (distinct seen p) -> In x p.
Proof.
  revert seen; induction p as [|y t IH]; intros seen; cbn [distinct]; [tauto|].
  destruct (existsb (N.eqb y) seen).
  - intros H. right. eapply IH. exact H.
  - intros [<-|H]; [left; reflexivity|right; eapply IH; exact H].
Qed.

Definition within (U p : list N) := Forall (fun x => In x U) p.

Lemma sweep_within U cids choose : (forall c, In c cids -> In c U) ->
  forall p i, within U p -> within U (sweep cids choose i p) /\ length (sweep cids choose i p) = length p.
Proof.
  intros Hc. induction p as [|x t IH]; intros i Hw; cbn [sweep]; [split; [constructor|reflexivity]|].
  inversion Hw as [|? ? Hx Ht]; subst. destruct (IH (S i) Ht) as [IH1 IH2].
  split; [|cbn; now rewrite IH2].
  constructor; [|exact IH1].
  destruct (choose i) as [j|]; [|exact Hx].
  destruct (nth_opt cids j) as [c|] eqn:E; [|exact Hx].
  apply Hc. eapply nth_opt_In. exact E.
Qed.

Lemma balance_within U cids o : (forall c, In c cids -> In c U) ->
  forall iters p, within U p -> within U (balance cids o iters p) /\ length (balance cids o iters p) = length p.
Proof.
  intros Hc. induction iters as [|k IH]; intros p Hw; cbn [balance]; [split; auto|].
  destruct (sweep_within U cids (o (S k)) Hc p 0 Hw) as [H1 H2].
  destruct (IH _ H1) as [H3 H4]. split; [exact H3|congruence].
Qed.

Lemma outer_within U cids o mb : (forall c, In c cids -> In c U) ->
  forall iters p, within U p -> within U (outer cids o mb iters p) /\ length (outer cids o mb iters p) = length p.
Proof.
  intros Hc. induction iters as [|k IH]; intros p Hw; cbn [outer]; [split; auto|].
  destruct (balance_within U cids (o (S k)) Hc mb p Hw) as [H1 H2].
  destruct (IH _ H1) as [H3 H4]. split; [exact H3|congruence].
Qed.

Lemma list_maxN_le p x : In x p -> (x <= list_maxN p)%N.
Proof.
  unfold list_maxN. induction p as [|y t IH]; cbn [In fold_right]; [tauto|].
  intros [->|H]; [lia|]. specialize (IH H). lia.
Qed.

(* for EVERY oracle: same length, only ids of the input, hence none above the input's maximum *)
Theorem kmeans_abs_ids : forall o mi mb p p',
  kmeans_abs o mi mb p = Ok p' ->
  length p' = length p /\ Forall (fun x => In x p) p' /\ Forall (fun x => (x <= list_maxN p)%N) p'.
Proof.
  intros o mi mb p p' H. unfold kmeans_abs in H.
  assert (Hself : within p p) by (apply Forall_forall; auto).
  destruct (list_maxN p + 1 <? 2)%N.
  - injection H as <-. repeat split; auto.
    apply Forall_forall. intros x Hx. now apply list_maxN_le.
  - destruct (negb _); [discriminate|]. injection H as <-.
    destruct (outer_within p (center_ids p) o mb (fun c Hc => distinct_In [] p c Hc) (S mi) p Hself) as [H1 H2].
    repeat split; auto.
    unfold within in H1. rewrite Forall_forall in *. intros x Hx. apply list_maxN_le. now apply H1.
Qed.

(* Faithfulness of the coordinate-wise reductions of Model/KMeans.v.
   The model computes `.sum::<PointND<D>>()` coordinate by coordinate
   ([tree_vsum]); this file shows that it is the tree of VECTOR additions rayon
   and nalgebra perform (`impl Sum for Matrix`: fold(zero(), +); SumFolder /
   reducer: [l, r].into_iter().sum()), for every arithmetic and every split
   tree, when all vectors have D coordinates.  Likewise [tree_bbox] is the
   `fold_with` + `reduce_with` of BoundingBox::from_points on PAIRS OF VECTORS
   (second section).  No arithmetic fact is used. *)
From Coupe Require Import Lib.Prelude Lib.SFloat Lib.Rayon Model.KMeansAbs Model.KMeans.
Local Open Scope nat_scope.

Section Vec.
  Variable A : karith.
  Notation vec := (vec A).
  Notation zero := (k_zero A).
  Notation add := (k_add A).

  (* the literal form *)
  Definition seq_vsum (D : nat) (xs : list vec) : vec := fold_left (vadd A) xs (vzero A D).
  Definition vsum2 (D : nat) (l r : vec) : vec := seq_vsum D [l; r].
  Definition tree_vsum_vec (t : sched) (D : nat) (xs : list vec) : vec :=
    par_fold (fun l => vsum2 D (seq_vsum D []) (seq_vsum D l)) (vsum2 D) t xs.

  Definition nthc (c : nat) (v : vec) : num A := nth c v zero.

  Lemma map2_map_same {X} (f g : X -> num A) (l : list X) :
    map2 add (map f l) (map g l) = map (fun c => add (f c) (g c)) l.
  Proof. induction l as [|x t IH]; cbn [map map2]; [reflexivity|]. now rewrite IH. Qed.

  Lemma vec_repr D (v : vec) : length v = D -> v = map (fun c => nthc c v) (seq 0 D).
  Proof.
    revert D. induction v as [|x t IH]; intros D H; subst D; cbn [length seq map]; [reflexivity|].
    unfold nthc at 1. cbn [nth]. f_equal. rewrite <- seq_shift, map_map. apply (IH _ eq_refl).
  Qed.

  Lemma vzero_repr D : vzero A D = map (fun _ => zero) (seq 0 D).
  Proof.
    unfold vzero. generalize 0. induction D as [|D IH]; intros s; cbn [repeat seq map]; [reflexivity|]. now rewrite (IH (S s)).
  Qed.

  Lemma fold_vadd_repr D (l : list vec) : Forall (fun v => length v = D) l -> forall f,
    fold_left (vadd A) l (map f (seq 0 D)) =
    map (fun c => fold_left add (map (nthc c) l) (f c)) (seq 0 D).
  Proof.
    induction 1 as [|v t Hv Ht IH]; intros f; cbn [fold_left map]; [reflexivity|].
    unfold vadd at 2. rewrite (vec_repr D v Hv) at 1. rewrite map2_map_same. rewrite IH. reflexivity.
  Qed.

  Lemma seq_vsum_repr D l : Forall (fun v => length v = D) l ->
    seq_vsum D l = map (fun c => seq_sum_from A zero (map (nthc c) l)) (seq 0 D).
  Proof. intros H. unfold seq_vsum. rewrite vzero_repr. now apply fold_vadd_repr. Qed.

  Lemma vsum2_repr D (f g : nat -> num A) :
    vsum2 D (map f (seq 0 D)) (map g (seq 0 D)) = map (fun c => sum2_from A zero (f c) (g c)) (seq 0 D).
  Proof.
    unfold vsum2, seq_vsum, sum2_from, seq_sum_from. cbn [fold_left]. rewrite vzero_repr.
    unfold vadd. now rewrite !map2_map_same.
  Qed.

  Lemma Forall_firstn {X} (Q : X -> Prop) k l : Forall Q l -> Forall Q (firstn k l).
  Proof. intros H. apply Forall_forall. intros x Hx. rewrite Forall_forall in H. apply H. rewrite <- (firstn_skipn k l). apply in_or_app; auto. Qed.
  Lemma Forall_skipn {X} (Q : X -> Prop) k l : Forall Q l -> Forall Q (skipn k l).
  Proof. intros H. apply Forall_forall. intros x Hx. rewrite Forall_forall in H. apply H. rewrite <- (firstn_skipn k l). apply in_or_app; auto. Qed.

  Lemma tree_vsum_vec_repr t D : forall xs, Forall (fun v => length v = D) xs ->
    tree_vsum_vec t D xs = map (fun c => tree_sum_from A zero t (map (nthc c) xs)) (seq 0 D).
  Proof.
    unfold tree_vsum_vec, tree_sum_from. induction t as [|k l IHl r IHr]; intros xs H; cbn [par_fold].
    - rewrite (seq_vsum_repr D xs H). change (seq_vsum D []) with (vzero A D). rewrite vzero_repr, vsum2_repr. reflexivity.
    - etransitivity.
      + apply (f_equal2 (vsum2 D)); [apply IHl; now apply Forall_firstn|apply IHr; now apply Forall_skipn].
      + rewrite vsum2_repr. apply map_ext. intros c. now rewrite firstn_map, skipn_map.
  Qed.

  Lemma column_nthc D c xs : Forall (fun v => length v = D) xs -> c < D -> column A c xs = map (nthc c) xs.
  Proof.
    intros H Hc. unfold column. induction H as [|v t Hv Ht IH]; cbn [flat_map map]; [reflexivity|].
    rewrite IH. destruct (nth_opt_lt v c) as [x E]; [lia|]. rewrite E. cbn [app]. f_equal.
    unfold nthc. clear -E. revert c E. induction v as [|y v IHv]; intros [|c]; cbn; intros E; try discriminate.
    - now injection E.
    - now apply IHv.
  Qed.

  (* the model's coordinate-wise sum IS the tree of vector additions *)
  Theorem tree_vsum_is_vector_sum t D xs : Forall (fun v => length v = D) xs ->
    tree_vsum A t D xs = tree_vsum_vec t D xs.
  Proof.
    intros H. rewrite (tree_vsum_vec_repr t D xs H). unfold tree_vsum. apply map_ext_in. intros c Hc.
    apply in_seq in Hc. now rewrite (column_nthc D c xs H) by lia.
  Qed.
End Vec.

Section Box.
  Variable A : karith.
  Notation vec := (vec A).
  Notation zero := (k_zero A).

  (* the literal form of BoundingBox::from_points: pairs of vectors *)
  Definition bb_fold (D : nat) (xs : list vec) : vec * vec :=
    fold_left (fun '(mins, maxs) v =>
                 (upd_zip A (min_step A) mins v, upd_zip A (max_step A) maxs v))
              xs (repeat (k_fmax A) D, repeat (k_fmin A) D).
  Definition bb_leaf (D : nat) (l : list vec) : option (vec * vec) :=
    match l with [] => None | _ => Some (bb_fold D l) end.
  Definition bb_red (l r : vec * vec) : vec * vec :=
    (map2 (fmin2 A) (fst l) (fst r), map2 (fmax2 A) (snd l) (snd r)).
  Definition tree_bbox_vec (t : sched) (D : nat) (xs : list vec) : option (vec * vec) :=
    match xs with
    | [] => None
    | _ => par_fold (bb_leaf D) (oreduce bb_red) t xs
    end.

  Lemma upd_zip_map_same {X} (h : num A -> num A -> num A) (f g : X -> num A) (l : list X) :
    upd_zip A h (map f l) (map g l) = map (fun c => h (f c) (g c)) l.
  Proof. induction l as [|x t IH]; cbn [map upd_zip]; [reflexivity|]. now rewrite IH. Qed.

  Lemma map2_map_same' {X} (h : num A -> num A -> num A) (f g : X -> num A) (l : list X) :
    map2 h (map f l) (map g l) = map (fun c => h (f c) (g c)) l.
  Proof. induction l as [|x t IH]; cbn [map map2]; [reflexivity|]. now rewrite IH. Qed.

  Lemma repeat_repr (x : num A) D : repeat x D = map (fun _ => x) (seq 0 D).
  Proof. generalize 0. induction D as [|D IH]; intros s; cbn [repeat seq map]; [reflexivity|]. now rewrite (IH (S s)). Qed.

  Lemma bb_fold_repr D (l : list vec) : Forall (fun v => length v = D) l -> forall fm fM,
    fold_left (fun '(mins, maxs) v =>
                 (upd_zip A (min_step A) mins v, upd_zip A (max_step A) maxs v))
              l (map fm (seq 0 D), map fM (seq 0 D)) =
    (map (fun c => fold_left (min_step A) (map (nthc A c) l) (fm c)) (seq 0 D),
     map (fun c => fold_left (max_step A) (map (nthc A c) l) (fM c)) (seq 0 D)).
  Proof.
    induction 1 as [|v t Hv Ht IH]; intros fm fM; cbn [fold_left map]; [reflexivity|].
    rewrite (vec_repr A D v Hv) at 1 2. rewrite !upd_zip_map_same. rewrite IH. reflexivity.
  Qed.

  (* what a piece yields, coordinate by coordinate *)
  Definition piece (t : sched) (c : nat) (xs : list vec) :=
    par_fold (col_leaf A (min_step A) (k_fmax A)) (oreduce (fmin2 A)) t (map (nthc A c) xs).
  Definition pieceM (t : sched) (c : nat) (xs : list vec) :=
    par_fold (col_leaf A (max_step A) (k_fmin A)) (oreduce (fmax2 A)) t (map (nthc A c) xs).

  Lemma par_fold_nil {X Y} (f : list X -> option Y) op t : f [] = None -> par_fold f (oreduce op) t [] = None.
  Proof. intros Hf. induction t as [|k l IHl r IHr]; cbn [par_fold]; auto. now rewrite firstn_nil, skipn_nil, IHl, IHr. Qed.

  (* the pair-of-vectors tree is, coordinate by coordinate, the column tree; the
     None pattern (empty pieces) is the same for every coordinate *)
  Lemma tree_repr t D : forall xs, Forall (fun v => length v = D) xs ->
    match par_fold (bb_leaf D) (oreduce bb_red) t xs with
    | None => forall c, piece t c xs = None /\ pieceM t c xs = None
    | Some (a, b) => exists fm fM, a = map fm (seq 0 D) /\ b = map fM (seq 0 D) /\
                                   forall c, piece t c xs = Some (fm c) /\ pieceM t c xs = Some (fM c)
    end.
  Proof.
    unfold piece, pieceM. induction t as [|k l IHl r IHr]; intros xs H; cbn [par_fold].
    - destruct xs as [|x xs']; cbn [bb_leaf map col_leaf]; [auto|].
      unfold bb_fold. rewrite !repeat_repr, (bb_fold_repr D (x :: xs') H).
      eexists _, _. split; [reflexivity|]. split; [reflexivity|]. intros c. cbn [map fold_left]. auto.
    - specialize (IHl _ (Forall_firstn _ k _ H)). specialize (IHr _ (Forall_skipn _ k _ H)).
      destruct (par_fold _ _ l (firstn k xs)) as [[a1 b1]|];
        destruct (par_fold _ _ r (skipn k xs)) as [[a2 b2]|]; cbn [oreduce].
      + destruct IHl as (fm1 & fM1 & -> & -> & H1). destruct IHr as (fm2 & fM2 & -> & -> & H2).
        unfold bb_red. cbn [fst snd]. rewrite !map2_map_same'.
        eexists _, _. split; [reflexivity|]. split; [reflexivity|]. intros c.
        rewrite !firstn_map, !skipn_map.
        destruct (H1 c) as [E1 E1']. destruct (H2 c) as [E2 E2'].
        split; [exact (f_equal2 (oreduce (fmin2 A)) E1 E2)|exact (f_equal2 (oreduce (fmax2 A)) E1' E2')].
      + destruct IHl as (fm1 & fM1 & -> & -> & H1).
        eexists _, _. split; [reflexivity|]. split; [reflexivity|]. intros c.
        rewrite !firstn_map, !skipn_map.
        destruct (H1 c) as [E1 E1']. destruct (IHr c) as [E2 E2'].
        split; [exact (f_equal2 (oreduce (fmin2 A)) E1 E2)|exact (f_equal2 (oreduce (fmax2 A)) E1' E2')].
      + destruct IHr as (fm2 & fM2 & -> & -> & H2).
        eexists _, _. split; [reflexivity|]. split; [reflexivity|]. intros c.
        rewrite !firstn_map, !skipn_map.
        destruct (IHl c) as [E1 E1']. destruct (H2 c) as [E2 E2'].
        split; [exact (f_equal2 (oreduce (fmin2 A)) E1 E2)|exact (f_equal2 (oreduce (fmax2 A)) E1' E2')].
      + intros c. rewrite !firstn_map, !skipn_map.
        destruct (IHl c) as [E1 E1']. destruct (IHr c) as [E2 E2'].
        split; [exact (f_equal2 (oreduce (fmin2 A)) E1 E2)|exact (f_equal2 (oreduce (fmax2 A)) E1' E2')].
  Qed.

  (* the model's coordinate-wise box IS the fold_with + reduce_with on pairs of vectors *)
  Theorem tree_bbox_is_vector_fold t D xs : Forall (fun v => length v = D) xs ->
    tree_bbox A t D xs = tree_bbox_vec t D xs.
  Proof.
    intros H. unfold tree_bbox, tree_bbox_vec. destruct xs as [|x xs']; [reflexivity|].
    pose proof (tree_repr t D (x :: xs') H) as R.
    destruct (par_fold (bb_leaf D) (oreduce bb_red) t (x :: xs')) as [[a b]|].
    - destruct R as (fm & fM & -> & -> & Hc). f_equal. f_equal.
      + apply map_ext_in. intros c Hin. apply in_seq in Hin. unfold tree_col.
        rewrite (column_nthc A D c (x :: xs') H) by lia. destruct (Hc c) as [E _]. unfold piece in E. now rewrite E.
      + apply map_ext_in. intros c Hin. apply in_seq in Hin. unfold tree_col.
        rewrite (column_nthc A D c (x :: xs') H) by lia. destruct (Hc c) as [_ E]. unfold pieceM in E. now rewrite E.
    - (* impossible: a non-empty list never reduces to None *)
      exfalso. destruct (R 0) as [E _]. unfold piece in E. cbn [map] in E.
      assert (Hne : forall t (l : list (num A)), l <> [] ->
                par_fold (col_leaf A (min_step A) (k_fmax A)) (oreduce (fmin2 A)) t l <> None).
      { clear. induction t as [|k tl IHl tr IHr]; intros l Hl; cbn [par_fold].
        - destruct l; [congruence|unfold col_leaf; discriminate].
        - destruct (firstn k l) as [|a fa] eqn:Ef.
          + assert (Es : skipn k l = l) by (rewrite <- (firstn_skipn k l) at 2; now rewrite Ef).
            rewrite Es. specialize (IHr l Hl).
            destruct (par_fold _ _ tl []), (par_fold _ _ tr l); cbn [oreduce]; congruence.
          + assert (Ha : a :: fa <> []) by discriminate. specialize (IHl _ Ha).
            destruct (par_fold _ _ tl (a :: fa)), (par_fold _ _ tr (skipn k l)); cbn [oreduce]; congruence. }
      revert E. apply Hne. discriminate.
  Qed.
End Box.

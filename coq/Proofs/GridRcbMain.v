(* The statements of Properties/C10.v, for any configuration [c] of literals
   satisfying [cfg_ok] (at least two chunks, least chunk size 1, recursion and
   id lookup starting on the same axis). *)
From Coupe Require Import Lib.Prelude Lib.SFloat Model.GridRcb
  Proofs.GridRcbMedian Proofs.GridRcbTree Proofs.GridRcbChecker Proofs.GridRcbComplete.
Open Scope Z_scope.

Lemma median_terminates c : cfg_ok c -> forall (T fuel : nat) fw ws tot,
  ws <> [] -> thr_ok_b fw (tol_bits c) tot = true -> (length ws < 2 ^ fuel)%nat ->
  exists p w, weighted_median c fuel T fw ws tot = Ok (p, w).
Proof.
  intros (Hcc & Hcs & _) T fuel fw ws tot Hne Hok Hf.
  destruct (thresholds fw (tol_bits c) tot) as [mn mx] eqn:E.
  destruct (thr_ok_b_spec _ _ _ _ _ E Hok) as ((H0 & H1 & _) & _).
  exact (weighted_median_total c fuel T fw ws tot mn mx E H0 H1 Hne Hcc Hcs Hf).
Qed.

(* the same with the fuel bound written with log2 *)
Lemma median_terminates_log2 c : cfg_ok c -> forall (T fuel : nat) fw ws tot,
  ws <> [] -> thr_ok_b fw (tol_bits c) tot = true -> (Nat.log2 (length ws) + 1 <= fuel)%nat ->
  exists p w, weighted_median c fuel T fw ws tot = Ok (p, w).
Proof.
  intros Hc T fuel fw ws tot Hne Hok Hf. apply median_terminates; auto.
  assert (Hl : (0 < length ws)%nat) by (destruct ws; [congruence|cbn; lia]).
  pose proof (Nat.log2_spec (length ws) Hl) as (_ & Hlt).
  eapply Nat.lt_le_trans; [exact Hlt|]. apply Nat.pow_le_mono_r; lia.
Qed.

Lemma median_spec c : forall fuel T fw ws tot mn mx p w,
  thresholds fw (tol_bits c) tot = (mn, mx) -> 0 <= mx -> mn <= mx + 1 -> ws <> [] ->
  weighted_median c fuel T fw ws tot = Ok (p, w) ->
  (p < length ws)%nat /\ w = pre ws p
  /\ (mn <= w <= mx \/ (w < mn /\ (S p = length ws \/ mx < pre ws (S p)))).
Proof. exact (weighted_median_spec c). Qed.

Lemma median_balanced c : forall fuel T fw ws tot p w,
  ws <> [] -> tot = sumZ ws -> 0 <= tot -> thr_ok_b fw (tol_bits c) tot = true ->
  weighted_median c fuel T fw ws tot = Ok (p, w) ->
  w = pre ws p /\ exists s, nth_opt ws p = Some s /\
  (band_of fw tot w \/ 2 * w < tot <= 2 * (w + s)).
Proof.
  intros fuel T fw ws tot p w Hne Htot H0 Hok Hm.
  destruct (thresholds fw (tol_bits c) tot) as [mn mx] eqn:E.
  destruct (thr_ok_b_spec _ _ _ _ _ E Hok) as ((Ha & Hb & _) & _).
  pose proof (weighted_median_spec c fuel T fw ws tot mn mx p w E Ha Hb Hne Hm) as Hpost.
  split; [exact (proj1 (proj2 Hpost))|].
  exact (median_post_balanced fw (tol_bits c) ws tot mn mx p w E Hok Htot H0 Hpost).
Qed.

Lemma median_T1_refuted c : (min_chunks c <= 1)%nat -> (min_chunk_size c <= 1)%nat ->
  forall fw ws tot, (2 <= length ws)%nat -> 0 < fst (thresholds fw (tol_bits c) tot) ->
  forall fuel, weighted_median c fuel 1 fw ws tot = OutOfFuel.
Proof. intros H1 H2 fw ws tot. exact (weighted_median_T1_stuck c fw ws tot H1 H2). Qed.

(* Grid::rcb with the property's own balance clause *)
Lemma gridrcb_boxes c : cfg_ok c -> forall fuel T fw ds ws k,
  wf_grid ds ws -> Forall (fun s => (1 <= s)%nat) ds -> Forall (fun w => 0 <= w) ws ->
  (forall t, 0 <= t <= sumZ ws -> thr_ok_b fw (tol_bits c) t = true) ->
  Forall (fun s => (s < 2 ^ fuel)%nat) ds ->
  exists ids, grid_rcb c fuel T fw ds ws k (glen ds) = Ok ids
              /\ C10_spec (bal_strong fw) (start_of c ds) ds ws k ids
              /\ C10_spec (bal_prop fw) (start_of c ds) ds ws k ids.
Proof.
  intros Hc fuel T fw ds ws k Hwf Hs Hnn Hthr Hf.
  destruct (grid_rcb_ok c fuel T fw ds ws k Hc Hwf Hs Hnn Hthr Hf) as (ids & Hr & Hspec).
  exists ids. split; [exact Hr|]. split; [exact Hspec|].
  exact (C10_spec_mono _ _ _ _ _ _ _ (bal_strong_prop fw) Hspec).
Qed.

(* the checker with the clause of a weight type decides the statement *)
Lemma checker_sound fw s ds ws k ids :
  check_C10 (bal_prop_b fw) s ds ws k ids = true -> C10_spec (bal_prop fw) s ds ws k ids.
Proof. apply check_C10_sound. intros t w r l. apply bal_prop_b_iff. Qed.

Lemma bal_prop_b_zero fw : bal_prop_b fw 0 0 0 0 = true.
Proof. destruct fw; reflexivity. Qed.

Lemma checker_complete fw s ds ws k ids :
  (length ds = 2 \/ length ds = 3)%nat -> Forall (fun x => (1 <= x)%nat) ds -> length ws = glen ds ->
  (s < length ds)%nat ->
  C10_spec (bal_prop fw) s ds ws k ids -> check_C10 (bal_prop_b fw) s ds ws k ids = true.
Proof.
  apply check_C10_complete; [|apply bal_prop_b_zero]. intros t w r l. apply bal_prop_b_iff.
Qed.

(* the looser relative band used for the stream of arbitrary f64 fractions *)
Lemma checker_rel_sound e s ds ws k ids :
  check_C10 (bal_rel_b e) s ds ws k ids = true -> C10_spec (bal_rel e) s ds ws k ids.
Proof. apply check_C10_sound. intros t w r l. apply bal_rel_b_iff. Qed.

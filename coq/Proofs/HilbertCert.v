(* The finite certificate about the tables of a recursive curve, as a boolean
   (evaluated by vm_compute on coupe's tables in Proofs/HilbertInst.v), and
   the theorems of Proofs/HilbertCurve.v restated with [cert = true] as their
   only premise. *)
From Coupe Require Import Lib.Prelude Model.Hilbert Proofs.HilbertCurve.
Open Scope N_scope.

Definition range (n : N) : list N := map N.of_nat (seq 0 (N.to_nat n)).
Lemma in_range n x : In x (range n) <-> x < n.
Proof.
  unfold range. rewrite in_map_iff. split.
  - intros [k [E Hk]]. apply in_seq in Hk. lia.
  - intros Hi. exists (N.to_nat x). split; [apply N2Nat.id | apply in_seq; lia].
Qed.

Section Cert.
  Variable D : N.
  Variable digit next : N -> N -> N.
  Variable nstates : N.
  Notation Q := (2 ^ D).
  Notation invq := (invq D digit).
  Definition entry (s : N) : N := invq s 0.
  Definition exit_ (s : N) : N := invq s (Q - 1).

  Definition cert : bool :=
    forallb (fun s =>
      forallb (fun q => (next s q <? nstates) && (digit s q <? Q) && (invq s (digit s q) =? q)) (range Q)
      && forallb (fun d => (invq s d <? Q) && (digit s (invq s d) =? d)) (range Q)
      && (entry (next s (entry s)) =? entry s)
      && (exit_ (next s (exit_ s)) =? exit_ s)
      && forallb (fun d =>
           glue D (invq s d) (invq s (d + 1)) (exit_ (next s (invq s d))) (entry (next s (invq s (d + 1)))))
           (range (Q - 1))) (range nstates).

  Hypothesis C : cert = true.

  Lemma cert_state s : s < nstates ->
    (forall q, q < Q -> next s q < nstates /\ digit s q < Q /\ invq s (digit s q) = q)
    /\ (forall d, d < Q -> invq s d < Q /\ digit s (invq s d) = d)
    /\ entry (next s (entry s)) = entry s
    /\ exit_ (next s (exit_ s)) = exit_ s
    /\ (forall d, d + 1 < Q ->
         glue D (invq s d) (invq s (d + 1)) (exit_ (next s (invq s d))) (entry (next s (invq s (d + 1)))) = true).
  Proof.
    intros Hs. unfold cert in C. rewrite forallb_forall in C.
    specialize (C s (proj2 (in_range _ _) Hs)).
    apply andb_prop in C. destruct C as [C1 C5]. apply andb_prop in C1. destruct C1 as [C1 C4].
    apply andb_prop in C1. destruct C1 as [C1 C3]. apply andb_prop in C1. destruct C1 as [C1 C2].
    rewrite forallb_forall in C1, C2, C5.
    repeat split.
    - specialize (C1 q (proj2 (in_range _ _) H)). apply andb_prop in C1. destruct C1 as [C1 _].
      apply andb_prop in C1. destruct C1 as [C1 _]. apply N.ltb_lt in C1. exact C1.
    - specialize (C1 q (proj2 (in_range _ _) H)). apply andb_prop in C1. destruct C1 as [C1 _].
      apply andb_prop in C1. destruct C1 as [_ C1]. apply N.ltb_lt in C1. exact C1.
    - specialize (C1 q (proj2 (in_range _ _) H)). apply andb_prop in C1. destruct C1 as [_ C1].
      apply N.eqb_eq in C1. exact C1.
    - specialize (C2 d (proj2 (in_range _ _) H)). apply andb_prop in C2. destruct C2 as [C2 _].
      apply N.ltb_lt in C2. exact C2.
    - specialize (C2 d (proj2 (in_range _ _) H)). apply andb_prop in C2. destruct C2 as [_ C2].
      apply N.eqb_eq in C2. exact C2.
    - apply N.eqb_eq in C3. exact C3.
    - apply N.eqb_eq in C4. exact C4.
    - intros d Hd. apply C5, in_range. lia.
  Qed.

  Lemma c_closed s q : s < nstates -> q < Q -> next s q < nstates.
  Proof. intros Hs Hq. apply (cert_state s Hs). exact Hq. Qed.
  Lemma c_digit_lt s q : s < nstates -> q < Q -> digit s q < Q.
  Proof. intros Hs Hq. apply (cert_state s Hs). exact Hq. Qed.
  Lemma c_inv1 s q : s < nstates -> q < Q -> invq s (digit s q) = q.
  Proof. intros Hs Hq. apply (cert_state s Hs). exact Hq. Qed.
  Lemma c_inv2 s d : s < nstates -> d < Q -> invq s d < Q /\ digit s (invq s d) = d.
  Proof. intros Hs Hd. apply (cert_state s Hs). exact Hd. Qed.
  Lemma c_entry s : s < nstates -> invq s 0 = entry s /\ entry (next s (entry s)) = entry s.
  Proof. intros Hs. split; [reflexivity | apply (cert_state s Hs)]. Qed.
  Lemma c_exit s : s < nstates -> invq s (Q - 1) = exit_ s /\ exit_ (next s (exit_ s)) = exit_ s.
  Proof. intros Hs. split; [reflexivity | apply (cert_state s Hs)]. Qed.
  Lemma c_glue s d : s < nstates -> d + 1 < Q ->
    glue D (invq s d) (invq s (d + 1)) (exit_ (next s (invq s d))) (entry (next s (invq s (d + 1)))) = true.
  Proof. intros Hs Hd. apply (cert_state s Hs). exact Hd. Qed.

  Notation Qp := (Qp D).
  Notation enc := (enc D digit next).
  Notation dec := (dec D digit next).
  Notation st := (st D next).

  Theorem cert_enc_lt n s z : s < nstates -> enc n s z < Qp n.
  Proof. apply (enc_lt D digit next nstates c_closed c_digit_lt). Qed.
  Theorem cert_dec_lt n s h : s < nstates -> dec n s h < Qp n.
  Proof. apply (dec_lt D digit next nstates c_closed c_inv2). Qed.
  Theorem cert_st_closed n s z : s < nstates -> st n s z < nstates.
  Proof. apply (st_closed D next nstates c_closed). Qed.
  Theorem cert_dec_enc n s z : s < nstates -> dec n s (enc n s z) = z mod Qp n.
  Proof. apply (dec_enc D digit next nstates c_closed c_digit_lt c_inv1). Qed.
  Theorem cert_enc_dec n s h : s < nstates -> enc n s (dec n s h) = h mod Qp n.
  Proof. apply (enc_dec D digit next nstates c_closed c_inv2). Qed.
  Theorem cert_enc_parent n s z : s < nstates -> enc (S n) s z / Q = enc n s (z / Q).
  Proof. apply (enc_parent D digit next nstates c_closed c_digit_lt). Qed.
  Theorem cert_dec_continuous n s h : s < nstates -> h + 1 < Qp n ->
    adjacent D n (dec n s h) (dec n s (h + 1)).
  Proof.
    apply (dec_continuous D digit next nstates entry exit_ c_closed c_inv2 c_entry c_exit c_glue).
  Qed.
  Theorem cert_dec_first n i s : s < nstates ->
    coord D n i (dec n s 0) = qbit D (entry s) i * (2 ^ N.of_nat n - 1).
  Proof. apply (dec_first D digit next nstates entry c_closed c_inv2 c_entry). Qed.
  Theorem cert_dec_last n i s : s < nstates ->
    coord D n i (dec n s (Qp n - 1)) = qbit D (exit_ s) i * (2 ^ N.of_nat n - 1).
  Proof. apply (dec_last D digit next nstates exit_ c_closed c_inv2 c_exit). Qed.
End Cert.

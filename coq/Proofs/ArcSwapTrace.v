(* ArcSwap: the trace-level clause of the checker is a consequence of replay acceptance.
   [trace_mutex] (Model/ArcSwap.v) extracts, from the recorded events alone, the move windows
   (critical sections that contain a store) and rejects overlapping windows on equal or adjacent
   vertices.  Here: along any trace accepted by [replay] from a state satisfying the invariants,
   the per-task automaton of the checker tracks the phase of the machine's worker, every window
   it emits is a critical section of the machine, and two windows on adjacent vertices cannot
   overlap by the mutual-exclusion theorem.  Hence [trace_mutex = true] on accepted traces, and a
   [false] always comes with a rejected replay. *)
From Coupe Require Import Lib.Prelude Model.ArcSwap Proofs.ArcSwapCut Proofs.ArcSwapProto
  Proofs.ArcSwapAcct Proofs.ArcSwapSafe.
Open Scope Z_scope.

Section WithW.
Context {W : wops}.


Lemma akind_eqb_eq a b : akind_eqb a b = true -> a = b.
Proof. destruct a, b; cbn; intros; congruence. Qed.

Lemma adjacentb_adjacent g v u : adjacentb g v u = true -> adjacent g v u.
Proof.
  unfold adjacentb, adjacent. rewrite !orb_true_iff, Nat.eqb_eq. intros [[H|H]|H]; auto.
  - right; left. apply existsb_exists in H as (x & Hx & E). apply Nat.eqb_eq in E. now subst.
  - right; right. apply existsb_exists in H as (x & Hx & E). apply Nat.eqb_eq in E. now subst.
Qed.

(* ------------------------------------------- automaton state vs worker pc *)

Definition rel_ws (g : graph) (w : worker) (s : tst) : Prop :=
  match w_pc w with
  | PChk v todo => exists c, s = THold v c /\ (c + length todo = length (row g v))%nat
  | PUnlock v URaced => exists c, s = THold v c
  | POwn v => exists st b, s = TCrit v st b
  | PGain v _ _ _ _ _ _ => exists st b, s = TCrit v st b
  | PStore v _ _ _ => exists st b, s = TCrit v st b
  | PUnlock v _ => exists st b, s = TCrit v st b
  | _ => s = TIdle
  end.

Lemma rel_ws_idle g w s : wphase w = PhIdle -> rel_ws g w s -> s = TIdle.
Proof.
  unfold wphase, rel_ws. destruct (w_pc w) as [ | | | | | | | ? r | | | ]; cbn; try discriminate; auto.
  destruct r; discriminate.
Qed.
Lemma rel_ws_of_idle g w : wphase w = PhIdle -> rel_ws g w TIdle.
Proof.
  unfold wphase, rel_ws. destruct (w_pc w) as [ | | | | | | | ? r | | | ]; cbn; try discriminate; auto.
  destruct r; discriminate.
Qed.
Lemma rel_ws_crit g w v st b : rel_ws g w (TCrit v st b) -> wphase w = PhCrit v.
Proof.
  unfold wphase, rel_ws. destruct (w_pc w) as [ | | | | | | | ? r | | | ]; cbn; try discriminate;
    try (intros (c & E & _); discriminate); try (intros (s0 & b0 & E); injection E as -> _ _; reflexivity).
  destruct r; [intros (c & E); discriminate| |]; intros (s0 & b0 & E); injection E as -> _ _; reflexivity.
Qed.

Lemma decide_pc cf tmax w v ip b w' : decide cf tmax w v ip b = Some w' ->
  w_pc w' = PUnlock v UNoMove \/ exists bt bg, w_pc w' = PStore v ip bt bg.
Proof.
  unfold decide. destruct b as [bt bg]. destruct (bg <=? 0); [intros [= <-]; now left|].
  destruct (nth_opt (cf_vw cf) v), (nth_opt (w_pw w) bt), (nth_opt tmax bt); try discriminate.
  destruct (w_ltb _ _); intros [= <-]; [now left|right; exists bt, bg; reflexivity].
Qed.

(* one accepted event: the automaton follows the worker *)
Lemma wstep_tst cf tmax locks part w locks' part' w' s e i k idx val :
  rel_ws (cf_g cf) w s ->
  next_access locks part w = Some (k, idx, val) ->
  e_kind e = k -> e_idx e = idx -> e_val e = val ->
  wstep cf tmax locks part w = Some (locks', part', w') ->
  exists s' wo, tst_step (cf_g cf) i s e = Some (s', wo) /\ rel_ws (cf_g cf) w' s' /\
    forall x, wo = Some x -> exists v st0 b, s = TCrit v st0 b /\ s' = TIdle /\ x = mkWin (e_task e) v st0 i.
Proof.
  intros Hrel Hna Ek Ei Ev H. unfold tst_step. rewrite Ek, Ei, Ev. clear Ek Ei Ev.
  unfold next_access in Hna. unfold wstep in H. unfold rel_ws in Hrel.
  set (g := cf_g cf) in *.
  assert (Hidle : forall x, wphase x = PhIdle -> rel_ws g x TIdle) by (intros; now apply rel_ws_of_idle).
  destruct (w_pc w) as [ | ip todo | v | v todo | v | v ip tg rest acc todo best | v ip tg gn | v r
                        | v todo | v todo nb np tg rest acc todo2 best | ] eqn:Hpc.
  - (* PScanOwn *)
    destruct (nth_opt part (w_cur w)) as [x|]; [|discriminate]. injection Hna as <- <- <-. subst s.
    exists TIdle, None. split; [reflexivity|]. split; [|discriminate].
    destruct (row g (w_cur w)); injection H as <- <- <-; apply Hidle; [apply phase_scan_next|reflexivity].
  - (* PScanNbr *)
    destruct todo as [|[u ew] todo]; [discriminate|].
    destruct (nth_opt part u) as [x|]; [|discriminate]. injection Hna as <- <- <-. subst s.
    exists TIdle, None. split; [reflexivity|]. split; [|discriminate].
    destruct (negb _); [injection H as <- <- <-; apply Hidle, phase_enter|].
    destruct todo; injection H as <- <- <-; apply Hidle; [apply phase_scan_next|reflexivity].
  - (* PCas *)
    subst s. destruct (nth_opt locks v) as [[|]|]; [| |discriminate]; injection Hna as <- <- <-; cbn [b2n negb Nat.eqb].
    + injection H as <- <- <-. exists TIdle, None. split; [reflexivity|]. split; [apply Hidle, phase_enter|discriminate].
    + injection H as <- <- <-. eexists _, None. split; [reflexivity|]. split; [|discriminate].
      unfold rel_ws. cbn [set_pc w_pc]. fold g. destruct (row g v) as [|e0 r0] eqn:Er; cbn [length Nat.eqb].
      * eauto.
      * exists O. split; [reflexivity|]. rewrite Er. reflexivity.
  - (* PChk *)
    destruct Hrel as (c & -> & Hc). destruct todo as [|[u ew] todo]; [discriminate|].
    destruct (nth_opt locks u) as [[|]|]; [| |discriminate]; injection Hna as <- <- <-; cbn [b2n];
      try change (Nat.eqb 1 0) with false; try change (Nat.eqb 0 0) with true; cbv iota;
      injection H as <- <- <-.
    + exists (THold v c), None. split; [reflexivity|]. split; [|discriminate]. unfold rel_ws. cbn. eauto.
    + eexists _, None. split; [reflexivity|]. split; [|discriminate].
      unfold rel_ws. cbn [set_pc w_pc]. cbn [length] in Hc. destruct todo as [|e2 todo].
      * replace (Nat.eqb (S c) (length (row g v))) with true by (symmetry; apply Nat.eqb_eq; cbn in Hc; lia). eauto.
      * replace (Nat.eqb (S c) (length (row g v))) with false by (symmetry; apply Nat.eqb_neq; cbn [length] in Hc; lia).
        exists (S c). split; [reflexivity|]. cbn [length] in *. lia.
  - (* POwn *)
    destruct Hrel as (st0 & b & ->).
    destruct (nth_opt part v) as [ip|]; [|discriminate]. injection Hna as <- <- <-.
    destruct (targets (cf_k cf) ip) as [|tg rest]; [discriminate|].
    exists (TCrit v st0 b), None. split; [reflexivity|]. split; [|discriminate].
    destruct (row g v); injection H as <- <- <-; unfold rel_ws; cbn; eauto.
  - (* PGain *)
    destruct Hrel as (st0 & b & ->). destruct todo as [|[u ew] todo]; [discriminate|].
    destruct (nth_opt part u) as [pu|]; [|discriminate]. injection Hna as <- <- <-.
    exists (TCrit v st0 b), None. split; [reflexivity|]. split; [|discriminate].
    destruct todo as [|e2 todo]; [|injection H as <- <- <-; unfold rel_ws; cbn; eauto].
    destruct rest as [|tg' rest']; [|injection H as <- <- <-; unfold rel_ws; cbn; eauto].
    destruct (decide _ _ _ _ _ _) as [wd|] eqn:Hd; [|discriminate]. injection H as <- <- <-.
    apply decide_pc in Hd as [E|(bt & bg & E)]; unfold rel_ws; rewrite E; eauto.
  - (* PStore *)
    destruct Hrel as (st0 & b & ->). injection Hna as <- <- <-.
    destruct (nth_opt (cf_vw cf) v); [|discriminate].
    destruct (nth_opt (w_pw w) ip); [|discriminate].
    destruct (nth_opt (w_pw w) tg); [|discriminate].
    destruct (Nat.ltb v (length part)); [|discriminate].
    destruct (nth_opt _ tg); [|discriminate]. injection H as <- <- <-.
    rewrite Nat.eqb_refl. exists (TCrit v st0 true), None. split; [reflexivity|]. split; [|discriminate].
    unfold rel_ws. cbn. eauto.
  - (* PUnlock *)
    injection Hna as <- <- <-.
    destruct (Nat.ltb v (length locks)); [|discriminate]. injection H as <- <- <-.
    assert (Hw' : rel_ws g (match r with UMoved => re_start w v (row g v) | _ => enter_make_move w end) TIdle).
    { apply Hidle. destruct r; try apply phase_enter. apply phase_re_start. }
    destruct r.
    + destruct Hrel as (c & ->). rewrite Nat.eqb_refl. exists TIdle, None. split; [reflexivity|]. split; [exact Hw'|discriminate].
    + destruct Hrel as (st0 & b & ->). rewrite Nat.eqb_refl. eexists TIdle, _. split; [reflexivity|]. split; [exact Hw'|].
      intros x Hx. destruct b; [|discriminate]. injection Hx as <-. exists v, st0, true. auto.
    + destruct Hrel as (st0 & b & ->). rewrite Nat.eqb_refl. eexists TIdle, _. split; [reflexivity|]. split; [exact Hw'|].
      intros x Hx. destruct b; [|discriminate]. injection Hx as <-. exists v, st0, true. auto.
  - (* PReNbr *)
    destruct todo as [|[nb ew] todo]; [discriminate|].
    destruct (nth_opt part nb) as [np|]; [|discriminate]. injection Hna as <- <- <-. subst s.
    destruct (targets (cf_k cf) np) as [|tg rest]; [discriminate|].
    exists TIdle, None. split; [reflexivity|]. split; [|discriminate].
    destruct (row g nb); injection H as <- <- <-; apply Hidle; [apply phase_re_start|reflexivity].
  - (* PReGain *)
    destruct todo2 as [|[u ew] todo2]; [discriminate|].
    destruct (nth_opt part u) as [pu|]; [|discriminate]. injection Hna as <- <- <-. subst s.
    exists TIdle, None. split; [reflexivity|]. split; [|discriminate].
    destruct todo2 as [|e2 todo2]; [|injection H as <- <- <-; apply Hidle; reflexivity].
    destruct rest; injection H as <- <- <-; apply Hidle; [apply phase_re_start|reflexivity].
  - discriminate.
Qed.

(* ------------------------------ the windows a suffix of the trace can emit *)

Lemma tst_step_crit g i s e s' wo : tst_step g i s e = Some (s', wo) ->
  (forall v st b, s' = TCrit v st b -> st = i \/ exists b0, s = TCrit v st b0) /\
  (forall x, wo = Some x -> wi_task x = e_task e /\
     (wi_start x = i \/ exists b0, s = TCrit (wi_v x) (wi_start x) b0)).
Proof.
  unfold tst_step. intros H.
  destruct (e_kind e); destruct s as [|v0 c|v0 st0 b0]; try discriminate H;
  repeat match type of H with context [if ?c then _ else _] => destruct c eqn:? end; try discriminate H;
  injection H as <- <-; (split; [intros v st b E|intros x E]); try discriminate E;
  try (injection E as <- <- <-); try (injection E as <-); cbn [wi_task wi_v wi_start]; eauto.
Qed.

Lemma windows_start g tr : forall i ts y, In y (windows_of g i ts tr) ->
  (i <= wi_start y)%nat \/ exists b, nth_opt ts (wi_task y) = Some (TCrit (wi_v y) (wi_start y) b).
Proof.
  induction tr as [|e r IH]; intros i ts y Hy; cbn [windows_of] in Hy; [destruct Hy|].
  destruct (nth_opt ts (e_task e)) as [s|] eqn:Hs; [|destruct Hy].
  destruct (tst_step g i s e) as [[s' wo]|] eqn:Ht; [|destruct Hy].
  destruct (tst_step_crit _ _ _ _ _ _ Ht) as [Hc Hw].
  assert (Hrest : In y (windows_of g (S i) (set_nth ts (e_task e) s') r) ->
                  (i <= wi_start y)%nat \/ exists b, nth_opt ts (wi_task y) = Some (TCrit (wi_v y) (wi_start y) b)).
  { intros Hin. destruct (IH _ _ _ Hin) as [L|[b Hb]]; [left; lia|].
    apply nth_opt_set_nth_inv in Hb as [(Et & Es & _)|(Nt & Hb)]; [|right; eauto].
    destruct (Hc _ _ _ (eq_sym Es)) as [->|[b0 E0]]; [left; lia|]. right. rewrite Et, Hs, E0. eauto. }
  destruct wo as [x|]; [|auto]. destruct Hy as [<-|Hy]; [|auto].
  destruct (Hw x eq_refl) as [Et [->|[b0 E0]]]; [left; lia|]. right. rewrite Et, Hs, E0. eauto.
Qed.

(* ------------------------------------------------------------ main lemma *)

Section Trace.
Variable cf : config.
Let g := cf_g cf.
Let tc := cf_tc cf.
Variable p0 : list nat.
Hypothesis Hg : graph_ok g.
Hypothesis len_p0 : length p0 = length g.

Record trel (st : gstate) (ts : list tst) : Prop := {
  tr_len : length ts = tc;
  tr_ws : forall t w, nth_opt (g_ws st) t = Some w -> (t < tc)%nat;
  tr_rel : forall t s, nth_opt ts t = Some s ->
             match nth_opt (g_ws st) t with Some w => rel_ws g w s | None => s = TIdle end
}.

Lemma init_workers_len pw : length (init_workers cf pw) = tc.
Proof. unfold init_workers. now rewrite map_length, seq_length. Qed.

(* when every worker is done, every automaton is idle *)
Lemma trel_all_idle st ts : trel st ts -> all_done (g_ws st) = true ->
  forall t s, nth_opt ts t = Some s -> s = TIdle.
Proof.
  intros [_ _ Hr] Hd t s Hs. specialize (Hr t s Hs).
  destruct (nth_opt (g_ws st) t) as [w|] eqn:Hw; [|exact Hr].
  eapply rel_ws_idle; [|exact Hr]. eapply all_done_idle; eauto.
Qed.

Lemma replay_step_trel st ts e i st' w k idx val :
  trel st ts -> nth_opt (g_ws st) (e_task e) = Some w ->
  next_access (g_locks st) (g_part st) w = Some (k, idx, val) ->
  e_kind e = k -> e_idx e = idx -> e_val e = val ->
  step cf st (e_task e) = Some st' ->
  exists s s' wo, nth_opt ts (e_task e) = Some s /\ tst_step g i s e = Some (s', wo) /\
    trel st' (set_nth ts (e_task e) s') /\
    forall x, wo = Some x -> exists v st0 b, s = TCrit v st0 b /\ s' = TIdle /\ x = mkWin (e_task e) v st0 i.
Proof.
  intros Hrel Hw Hna Ek Ei Ev H. pose proof Hrel as [Hlen Hws Hr].
  assert (Ht : (e_task e < tc)%nat) by (eapply Hws; eauto).
  destruct (nth_opt_lt ts (e_task e)) as [s Hs]; [lia|].
  pose proof (Hr _ _ Hs) as Hrs. rewrite Hw in Hrs.
  unfold step in H. destruct (g_fin st); [discriminate|]. rewrite Hw in H.
  destruct (wstep cf _ _ _ w) as [[[locks' part'] w']|] eqn:Hstep; [|discriminate].
  destruct (wstep_tst cf _ _ _ _ _ _ _ s e i k idx val Hrs Hna Ek Ei Ev Hstep) as (s' & wo & Hts & Hrs' & Hwo).
  exists s, s', wo. split; [exact Hs|]. split; [exact Hts|]. split; [|exact Hwo].
  set (st1 := mkG locks' part' (set_nth (g_ws st) (e_task e) w') (g_pw st) (g_tmax st) (g_md st) false) in *.
  assert (Hrel1 : trel st1 (set_nth ts (e_task e) s')).
  { split.
    - now rewrite set_nth_length.
    - intros t x Hx. cbn [st1 g_ws] in Hx. apply nth_opt_set_nth_inv in Hx as [(-> & _)|(_ & Hx)]; eauto.
    - intros t x Hx. cbn [st1 g_ws].
      apply nth_opt_set_nth_inv in Hx as [(-> & -> & _)|(Nt & Hx)].
      + rewrite nth_opt_set_nth_same; [exact Hrs'|]. now apply nth_opt_Some in Hw.
      + rewrite nth_opt_set_nth_other by congruence. now apply Hr. }
  cbn [g_ws] in H. change (mkG locks' part' (set_nth (g_ws st) (e_task e) w') (g_pw st) (g_tmax st) (g_md st) false) with st1 in H.
  destruct (all_done (g_ws st1)) eqn:Hd; [|injection H as <-; exact Hrel1].
  pose proof (trel_all_idle _ _ Hrel1 Hd) as Hidle. destruct Hrel1 as [Hlen1 Hws1 Hr1].
  unfold end_pass in H. destruct (_ =? 0).
  - injection H as <-. split; cbn [g_ws]; auto.
    all: intros t x Hx.
    all: try (destruct t; discriminate Hx).
    all: try (replace (nth_opt [] t) with (@None worker) by (destruct t; reflexivity); eauto).
  - destruct (thread_max cf _); [|discriminate]. injection H as <-. split; cbn [g_ws]; auto.
    + intros t x Hx. apply nth_opt_Some in Hx. now rewrite init_workers_len in Hx.
    + intros t x Hx. rewrite (Hidle _ _ Hx).
      destruct (nth_opt (init_workers cf _) t) as [wn|] eqn:Hn; [|reflexivity].
      apply init_workers_spec in Hn as (Hpc & _). unfold rel_ws. now rewrite Hpc.
Qed.

Lemma replay_windows_ok tr : forall i ts st st', ginv cf p0 st -> trel st ts ->
  replay cf st tr = Some st' -> windows_ok g (windows_of g i ts tr) = true.
Proof.
  induction tr as [|e r IH]; intros i ts st st' Hinv Hrel H; [reflexivity|].
  cbn [replay] in H. cbn [windows_of].
  destruct (nth_opt (g_ws st) (e_task e)) as [w|] eqn:Hw; [|discriminate].
  destruct (next_access _ _ w) as [[[k idx] val]|] eqn:Hna; [|discriminate].
  destruct (akind_eqb k (e_kind e) && Nat.eqb idx (e_idx e) && Nat.eqb val (e_val e)) eqn:Hm; [|discriminate].
  apply andb_true_iff in Hm as [Hm Hm3]. apply andb_true_iff in Hm as [Hm1 Hm2].
  apply akind_eqb_eq in Hm1. apply Nat.eqb_eq in Hm2, Hm3.
  destruct (step cf st (e_task e)) as [st1|] eqn:Hs; [|discriminate].
  destruct (replay_step_trel _ _ _ i _ _ _ _ _ Hrel Hw Hna (eq_sym Hm1) (eq_sym Hm2) (eq_sym Hm3) Hs)
    as (s & s' & wo & Hts & Hstep & Hrel1 & Hwo).
  rewrite Hts, Hstep.
  assert (Hinv1 : ginv cf p0 st1).
  { destruct Hg as [G1 G2 G3]. eapply step_ginv; eauto. }
  pose proof (IH (S i) _ _ _ Hinv1 Hrel1 H) as Hrest.
  destruct wo as [x|]; [|exact Hrest].
  cbn [windows_ok]. rewrite Hrest, andb_true_r. apply forallb_forall. intros y Hy.
  destruct (Hwo x eq_refl) as (v & st0 & b & Es & Es' & Ex). subst s s' x.
  unfold win_disjoint. cbn [wi_v wi_end wi_start wi_task].
  destruct (windows_start _ _ _ _ _ Hy) as [L|[by_ Hby]].
  - (* y starts after this event *)
    replace (Nat.ltb i (wi_start y)) with true by (symmetry; apply Nat.ltb_lt; lia).
    now rewrite orb_true_r.
  - (* y is the section of a task that is critical right now: mutual exclusion *)
    apply nth_opt_set_nth_inv in Hby as [(_ & E & _)|(Nt & Hby)]; [discriminate|].
    destruct Hrel as [Hlen Hws Hr]. pose proof (Hr _ _ Hby) as Hy'. pose proof (Hr _ _ Hts) as Hx'.
    rewrite Hw in Hx'. destruct (nth_opt (g_ws st) (wi_task y)) as [wy|] eqn:Hwy; [|discriminate].
    apply rel_ws_crit in Hy', Hx'.
    destruct (adjacentb g v (wi_v y)) eqn:Ha; [|reflexivity]. exfalso.
    apply adjacentb_adjacent in Ha.
    exact (proto_mutex g (go_nbrs _ Hg) _ _ (e_task e) (wi_task y) w wy v (wi_v y)
             (gi_proto _ _ _ Hinv) Hw Hwy (fun E => Nt (eq_sym E)) Hx' Hy' Ha).
Qed.

(* the checker's clause holds of every trace the machine accepts from an initial state *)
Theorem replay_trace_mutex st0 tr st : Forall (fun x => (x < cf_k cf)%nat) p0 ->
  init_state cf p0 = Some st0 -> replay cf st0 tr = Some st ->
  trace_mutex g (repeat TIdle tc) tr = true.
Proof.
  intros Hids Hi Hr. unfold trace_mutex.
  assert (Hinv : ginv cf p0 st0) by (destruct Hg as [G1 G2 G3]; eapply init_ginv; eauto).
  eapply replay_windows_ok; [exact Hinv| |exact Hr].
  unfold init_state in Hi. destruct (thread_max cf _); [|discriminate]. injection Hi as <-.
  split; cbn [g_ws].
  - apply repeat_length.
  - intros t x Hx. apply nth_opt_Some in Hx. now rewrite init_workers_len in Hx.
  - intros t s Hs.
    assert (s = TIdle) as ->.
    { clear - Hs. revert t Hs. induction tc as [|m IHm]; intros [|t] Hs; cbn in Hs; try discriminate; [congruence|eauto]. }
    destruct (nth_opt (init_workers cf _) t) as [wn|] eqn:Hn; [|reflexivity].
    apply init_workers_spec in Hn as (Hpc & _). unfold rel_ws. now rewrite Hpc.
Qed.

(* contrapositive: a trace on which the checker's clause is false is not a run of the machine *)
Corollary trace_mutex_false_rejected st0 tr : Forall (fun x => (x < cf_k cf)%nat) p0 ->
  init_state cf p0 = Some st0 -> trace_mutex g (repeat TIdle tc) tr = false -> replay cf st0 tr = None.
Proof.
  intros Hids Hi Hf. destruct (replay cf st0 tr) as [st|] eqn:Hr; [|reflexivity].
  rewrite (replay_trace_mutex st0 tr st Hids Hi Hr) in Hf. discriminate.
Qed.
End Trace.

End WithW.

(* Proofs about the MEDIT binary serializer / parser of Model/Medit.v (C19). *)
From Coupe Require Import Lib.Prelude Gen.FormatsGen Model.Formats Proofs.FormatsProofs
  Model.MeditTypes Gen.MeditGen Model.Medit.
Open Scope N_scope.

(* ---- two's complement, 32 and 64 bits ---- *)

Lemma of_to_bits32 z : (- 2 ^ 31 <= z < 2 ^ 31)%Z -> of_bits 32 (to_bits 32 z) = z.
Proof.
  rewrite to_bits_mod. unfold of_bits. intros Hz.
  change (Z.of_N 32) with 32%Z. change (2 ^ (32 - 1)) with 2147483648.
  change (2 ^ 31)%Z with 2147483648%Z in Hz.
  change (2 ^ 32)%Z with 4294967296%Z.
  assert (Hm : ((0 <= z /\ z mod 4294967296 = z) \/
                (z < 0 /\ z mod 4294967296 = z + 4294967296))%Z).
  { destruct (Z.ltb_spec z 0) as [Hneg|Hpos].
    - right. split; [lia|]. rewrite <- (Z.mod_add z 1) by lia. apply Z.mod_small. lia.
    - left. split; [lia|]. apply Z.mod_small. lia. }
  destruct (N.ltb_spec (Z.to_N (z mod 4294967296)) 2147483648) as [Hlt|Hge].
  all: destruct Hm as [[Hs Hm]|[Hs Hm]].
  all: rewrite Hm in *.
  all: lia.
Qed.

Lemma to_bits32_lt z : to_bits 32 z < 2 ^ 32.
Proof.
  rewrite to_bits_mod. change (Z.of_N 32) with 32%Z.
  change (2 ^ 32)%Z with 4294967296%Z. change (2 ^ 32) with 4294967296.
  assert (Hm : (0 <= z mod 4294967296 < 4294967296)%Z) by (apply Z.mod_pos_bound; lia).
  lia.
Qed.

(* `x as i64 as usize` is the identity on 64-bit patterns *)
Lemma to_of_bits64 x : x < 2 ^ 64 -> to_bits 64 (of_bits 64 x) = x.
Proof.
  rewrite to_bits_mod. unfold of_bits. intros Hx.
  change (Z.of_N 64) with 64%Z. change (2 ^ (64 - 1)) with 9223372036854775808.
  change (2 ^ 64) with 18446744073709551616 in Hx.
  change (2 ^ 64)%Z with 18446744073709551616%Z.
  destruct (N.ltb_spec x 9223372036854775808) as [Hlt|Hge].
  - rewrite Z.mod_small by lia. lia.
  - rewrite <- (Z.mod_add _ 1) by lia. rewrite Z.mod_small by lia. lia.
Qed.

Lemma of_bits64_small x : x < 2 ^ 63 -> of_bits 64 x = Z.of_N x.
Proof.
  unfold of_bits. intros Hx. change (2 ^ (64 - 1)) with (2 ^ 63).
  destruct (N.ltb_spec x (2 ^ 63)); [reflexivity|lia].
Qed.

Lemma le_dec_enc4 x : x < 2 ^ 32 -> le_dec (le_enc 4 x) = x.
Proof.
  intros Hx. rewrite le_dec_enc. change (256 ^ N.of_nat 4) with (2 ^ 32). now apply N.mod_small.
Qed.

(* ---- the fixed-width readers on what the writer emits ---- *)

Lemma read_bytes_app n b r :
  length b = n -> read_bytes true n (b ++ r) = FOk (le_dec b, r).
Proof. intros H. unfold read_bytes. now rewrite take_app_n. Qed.

Lemma read_sint_app n b r :
  length b = n -> read_sint true n (b ++ r) = FOk (of_bits (8 * N.of_nat n) (le_dec b), r).
Proof. intros H. unfold read_sint. now rewrite read_bytes_app. Qed.

Lemma read_i32 z r :
  (- 2 ^ 31 <= z < 2 ^ 31)%Z -> read_sint true 4 (i32_bytes z ++ r) = FOk (z, r).
Proof.
  intros Hz. unfold i32_bytes. rewrite read_sint_app by apply le_enc_length.
  change (8 * N.of_nat 4) with 32. rewrite le_dec_enc4 by apply to_bits32_lt.
  now rewrite of_to_bits32.
Qed.

Lemma read_i64 z r : i64_ok z -> read_sint true 8 (i64_bytes z ++ r) = FOk (z, r).
Proof.
  intros Hz. unfold i64_bytes. rewrite read_sint_app by apply le_enc_length.
  change (8 * N.of_nat 8) with 64. rewrite le_dec_enc8 by apply to_bits64_lt.
  now rewrite of_to_bits64.
Qed.

(* a count / position written as `x as i64` *)
Lemma read_u63 x r :
  x < 2 ^ 63 -> read_sint true 8 (le_enc 8 x ++ r) = FOk (Z.of_N x, r).
Proof.
  intros Hx. rewrite read_sint_app by apply le_enc_length.
  change (8 * N.of_nat 8) with 64.
  assert (Hx' : x < 2 ^ 64).
  { change (2 ^ 63) with 9223372036854775808 in Hx. change (2 ^ 64) with 18446744073709551616. lia. }
  rewrite le_dec_enc8 by exact Hx'. now rewrite of_bits64_small.
Qed.

Lemma read_pos64 x r : exists p, read_sint true 8 (le_enc 8 x ++ r) = FOk (p, r).
Proof. eexists. apply read_sint_app, le_enc_length. Qed.

Lemma as_usize_of_N x : x < 2 ^ 64 -> as_usize (Z.of_N x) = x.
Proof.
  intros Hx. unfold as_usize. rewrite to_bits_mod. change (Z.of_N 64) with 64%Z.
  change (2 ^ 64) with 18446744073709551616 in Hx. change (2 ^ 64)%Z with 18446744073709551616%Z.
  rewrite Z.mod_small by lia. lia.
Qed.

Lemma read_float8 x r : u64_ok x -> read_float true 8 (le_enc 8 x ++ r) = FOk (x, r).
Proof.
  intros Hx. unfold read_float. rewrite read_bytes_app by apply le_enc_length.
  cbn [Nat.eqb]. now rewrite le_dec_enc8.
Qed.

Definition w4 : widths := {| w_int := 8; w_float := 8; w_pos := 8 |}.

Lemma flat_map_length_ge {A} (wr : A -> list N) xs :
  (forall x, (1 <= length (wr x))%nat) -> (length xs <= length (flat_map wr xs))%nat.
Proof.
  intros H. induction xs as [|x t IH]; [cbn; lia|].
  cbn [flat_map length]. rewrite app_length. specialize (H x). lia.
Qed.

(* ---- vertices ---- *)

Lemma bounded_len_spec s : forall n, bounded_len n s = length s \/ N.of_nat (bounded_len n s) = n.
Proof.
  induction s as [|b t IH]; intros n; cbn [bounded_len length]; [now left|].
  destruct (N.eqb_spec n 0) as [->|Hn]; [now right|].
  destruct (IH (n - 1)) as [H|H]; [left; now rewrite H|right; lia].
Qed.

Lemma read_vertex_ser dim cs r rest :
  N.of_nat (length cs) = dim -> Forall u64_ok cs -> i64_ok r ->
  read_vertex true w4 dim (ser_node (cs, r) ++ rest) = FOk ((cs, r), rest).
Proof.
  intros Hd Hcs Hr. unfold read_vertex, ser_node. cbn [fst snd w_float w_int w4].
  rewrite <- Hd, <- app_assoc.
  rewrite (read_items_roundtrip (le_enc 8) (read_float true 8)).
  - now rewrite read_i64.
  - pose proof (flat_map_length_ge (le_enc 8) cs ltac:(intros x; rewrite le_enc_length; lia)) as Hge.
    destruct (bounded_len_spec (flat_map (le_enc 8) cs ++ i64_bytes r ++ rest) (N.of_nat (length cs))) as [H|H].
    + rewrite H, app_length. lia.
    + lia.
  - eapply Forall_impl; [|exact Hcs]. intros x Hx r0. now apply read_float8.
Qed.

Lemma ser_node_length n : (1 <= length (ser_node n))%nat.
Proof. unfold ser_node, i64_bytes. rewrite app_length, le_enc_length. lia. Qed.

(* the linear [zip_chunks_exact] of the model = the direct transcription of
   chunks_exact(d).zip(refs) with firstn / skipn *)
Fixpoint zip_chunks_exact_ref (d : N) (cs : list N) (rs : list Z) : list (list N * Z) :=
  match rs with
  | [] => []
  | r :: rs' =>
    if N.of_nat (length cs) <? d then []
    else (firstn (N.to_nat d) cs, r) :: zip_chunks_exact_ref d (skipn (N.to_nat d) cs) rs'
  end.

Lemma split_at_spec s : forall n,
  split_at n s = if N.of_nat (length s) <? n then None
                 else Some (firstn (N.to_nat n) s, skipn (N.to_nat n) s).
Proof.
  induction s as [|b t IH]; intros n.
  - cbn [split_at length]. destruct (N.eqb_spec n 0) as [->|Hn]; [reflexivity|].
    destruct (N.ltb_spec (N.of_nat 0) n); [reflexivity|lia].
  - cbn [split_at]. destruct (N.eqb_spec n 0) as [->|Hn]; [reflexivity|].
    rewrite IH. cbn [length].
    replace (N.to_nat n) with (S (N.to_nat (n - 1))) by lia. cbn [firstn skipn].
    destruct (N.ltb_spec (N.of_nat (length t)) (n - 1)); destruct (N.ltb_spec (N.of_nat (S (length t))) n);
      try lia; reflexivity.
Qed.

Lemma zip_chunks_exact_ref_eq d : forall rs cs, zip_chunks_exact d cs rs = zip_chunks_exact_ref d cs rs.
Proof.
  induction rs as [|r rs IH]; intros cs; [reflexivity|].
  cbn [zip_chunks_exact zip_chunks_exact_ref]. rewrite split_at_spec.
  destruct (N.of_nat (length cs) <? d); [reflexivity|]. now rewrite IH.
Qed.

(* Mesh::nodes() on a well-shaped mesh *)
Lemma zip_chunks_exact_spec d : d <> 0 -> forall rs cs,
  N.of_nat (length cs) = d * N.of_nat (length rs) ->
  let ns := zip_chunks_exact d cs rs in
  flat_map fst ns = cs /\ map snd ns = rs /\ Forall (fun n => N.of_nat (length (fst n)) = d) ns
  /\ length ns = length rs.
Proof.
  intros Hd rs cs. rewrite zip_chunks_exact_ref_eq. revert cs.
  induction rs as [|r rs IH]; intros cs Hlen; cbn [zip_chunks_exact_ref].
  - cbn [length] in Hlen. destruct cs; [|cbn [length] in Hlen; lia].
    cbn. repeat split; auto.
  - cbn [length] in Hlen.
    destruct (N.ltb_spec (N.of_nat (length cs)) d) as [Hbad|Hok]; [nia|].
    assert (Hf : length (firstn (N.to_nat d) cs) = N.to_nat d) by (apply firstn_length_le; lia).
    specialize (IH (skipn (N.to_nat d) cs)).
    rewrite skipn_length in IH. specialize (IH ltac:(nia)).
    cbv zeta in IH. destruct IH as (H1 & H2 & H3 & H4).
    cbv zeta. cbn [flat_map map fst snd length]. rewrite H1, H2, H4, firstn_skipn.
    repeat split; auto. constructor; [cbn [fst]; lia|exact H3].
Qed.

Lemma Forall_flat_map_fst {A B} (P : A -> Prop) (l : list (list A * B)) :
  Forall P (flat_map fst l) -> Forall (fun n => Forall P (fst n)) l.
Proof.
  induction l as [|x t IH]; intros H; [constructor|].
  cbn [flat_map] in H. apply Forall_app in H as [H1 H2]. constructor; auto.
Qed.

Lemma Forall_map_snd {A B} (P : B -> Prop) (l : list (A * B)) :
  Forall P (map snd l) -> Forall (fun n => P (snd n)) l.
Proof.
  induction l as [|x t IH]; intros H; [constructor|].
  cbn [map] in H. inversion H; subst. constructor; auto.
Qed.

Lemma read_vertices dim coords nrefs rest :
  dim <> 0 ->
  N.of_nat (length coords) = dim * N.of_nat (length nrefs) ->
  Forall u64_ok coords -> Forall i64_ok nrefs ->
  let ns := zip_chunks_exact dim coords nrefs in
  exists vs,
    read_items (S (length (flat_map ser_node ns ++ rest))) (N.of_nat (length nrefs))
      (read_vertex true w4 dim) (flat_map ser_node ns ++ rest) = FOk (vs, rest)
    /\ flat_map fst vs = coords /\ map snd vs = nrefs.
Proof.
  intros Hd Hlen Hc Hr ns.
  destruct (zip_chunks_exact_spec dim Hd nrefs coords Hlen) as (H1 & H2 & H3 & H4).
  fold ns in H1, H2, H3, H4. exists ns. split; [|auto].
  rewrite <- H4. apply read_items_roundtrip.
  - rewrite app_length. pose proof (flat_map_length_ge ser_node ns ser_node_length). lia.
  - rewrite <- H1 in Hc. rewrite <- H2 in Hr.
    apply Forall_flat_map_fst in Hc. apply Forall_map_snd in Hr.
    rewrite Forall_forall in *. intros [cs r] Hin r0.
    apply read_vertex_ser; [exact (H3 _ Hin)|exact (Hc _ Hin)|exact (Hr _ Hin)].
Qed.

(* ---- elements ---- *)

Definition ser_elem (e : list N * Z) : list N :=
  flat_map (fun n => le_enc 8 (n + 1)) (fst e) ++ i64_bytes (snd e).

Definition node_ok (n : N) : Prop := n < 2 ^ 63 - 1.

Lemma ser_elem_nodes_ok ns :
  Forall node_ok ns -> ser_elem_nodes ns = FOk (flat_map (fun n => le_enc 8 (n + 1)) ns).
Proof.
  induction 1 as [|n t Hn Ht IH]; [reflexivity|].
  cbn [ser_elem_nodes flat_map]. unfold node_ok in Hn.
  change (2 ^ 63 - 1) with 9223372036854775807 in *. change (2 ^ 64) with 18446744073709551616.
  rewrite N.mod_small by lia.
  destruct (N.eqb_spec n 9223372036854775807) as [E|_]; [lia|]. now rewrite IH.
Qed.

Lemma ser_elems_ok es :
  Forall (fun e => Forall node_ok (fst e)) es -> ser_elems es = FOk (flat_map ser_elem es).
Proof.
  induction 1 as [|[ns r] t Hn Ht IH]; [reflexivity|].
  cbn [ser_elems flat_map]. cbn [fst] in Hn. rewrite ser_elem_nodes_ok by exact Hn. rewrite IH.
  unfold ser_elem. cbn [fst snd]. now rewrite <- !app_assoc.
Qed.

Lemma read_node_enc n r : node_ok n -> read_node true w4 (le_enc 8 (n + 1) ++ r) = FOk (n, r).
Proof.
  unfold node_ok. intros Hn. unfold read_node. cbn [w_int w4].
  assert (H1 : n + 1 < 2 ^ 63).
  { change (2 ^ 63 - 1) with 9223372036854775807 in Hn. change (2 ^ 63) with 9223372036854775808. lia. }
  rewrite read_u63 by exact H1.
  assert (H2 : n + 1 < 2 ^ 64).
  { change (2 ^ 63) with 9223372036854775808 in H1. change (2 ^ 64) with 18446744073709551616. lia. }
  rewrite as_usize_of_N by exact H2.
  destruct (N.eqb_spec (n + 1) 0) as [E|_]; [lia|].
  f_equal. f_equal. lia.
Qed.

Lemma read_element_ser npe ns r rest :
  length ns = npe -> Forall node_ok ns -> i64_ok r ->
  read_element true w4 npe (ser_elem (ns, r) ++ rest) = FOk ((ns, r), rest).
Proof.
  intros Hl Hn Hr. unfold read_element, ser_elem. cbn [fst snd w_int w4].
  rewrite <- Hl, <- app_assoc.
  rewrite (read_items_roundtrip (fun n => le_enc 8 (n + 1)) (read_node true w4)).
  - now rewrite read_i64.
  - lia.
  - eapply Forall_impl; [|exact Hn]. intros x Hx r0. now apply read_node_enc.
Qed.

Lemma ser_elem_length e : (1 <= length (ser_elem e))%nat.
Proof. unfold ser_elem, i64_bytes. rewrite app_length, le_enc_length. lia. Qed.

(* nodes.chunks(k).zip(refs) on a well-shaped block *)
Lemma zip_chunks_spec k : (1 <= k)%nat -> forall rs ns,
  length ns = (k * length rs)%nat ->
  let es := zip_chunks k ns rs in
  flat_map fst es = ns /\ map snd es = rs /\ Forall (fun e => length (fst e) = k) es
  /\ length es = length rs.
Proof.
  intros Hk. induction rs as [|r rs IH]; intros ns Hlen; cbn [zip_chunks].
  - cbn [length] in Hlen. destruct ns; [|cbn [length] in Hlen; lia].
    cbn. repeat split; auto.
  - cbn [length] in Hlen.
    destruct ns as [|n0 ns0] eqn:En; [cbn [length] in Hlen; nia|]. rewrite <- En in *.
    assert (Hf : length (firstn k ns) = k) by (apply firstn_length_le; nia).
    specialize (IH (skipn k ns)). rewrite skipn_length in IH. specialize (IH ltac:(nia)).
    cbv zeta in IH. destruct IH as (H1 & H2 & H3 & H4).
    cbv zeta. cbn [flat_map map fst snd length]. rewrite H1, H2, H4, firstn_skipn.
    repeat split; auto.
Qed.

Lemma read_elements npe nodes refs rest :
  (1 <= npe)%nat -> length nodes = (npe * length refs)%nat ->
  Forall node_ok nodes -> Forall i64_ok refs ->
  let es := zip_chunks npe nodes refs in
  exists es',
    read_items (S (length (flat_map ser_elem es ++ rest))) (N.of_nat (length refs))
      (read_element true w4 npe) (flat_map ser_elem es ++ rest) = FOk (es', rest)
    /\ flat_map fst es' = nodes /\ map snd es' = refs.
Proof.
  intros Hk Hlen Hn Hr es.
  destruct (zip_chunks_spec npe Hk refs nodes Hlen) as (H1 & H2 & H3 & H4).
  fold es in H1, H2, H3, H4. exists es. split; [|auto].
  rewrite <- H4. apply read_items_roundtrip.
  - rewrite app_length. pose proof (flat_map_length_ge ser_elem es ser_elem_length). lia.
  - rewrite <- H1 in Hn. rewrite <- H2 in Hr.
    apply Forall_flat_map_fst in Hn. apply Forall_map_snd in Hr.
    rewrite Forall_forall in *. intros [ns r] Hin r0.
    apply read_element_ser; [exact (H3 _ Hin)|exact (Hn _ Hin)|exact (Hr _ Hin)].
Qed.

(* ---- the element-type tables (re-read from the source on every run) ---- *)

Lemma etype_tables ty : ty <> Vertex ->
  (etype_code ty =? code_END)%Z = false /\
  (etype_code ty =? code_VERTEX)%Z = false /\
  etype_from_code (etype_code ty) = Some (norm_ty_bin ty) /\
  (- 2 ^ 31 <= etype_code ty < 2 ^ 31)%Z /\
  (1 <= etype_node_count ty)%nat /\
  etype_node_count (norm_ty_bin ty) = etype_node_count ty.
Proof.
  intros H. destruct ty; try congruence; vm_compute; repeat split; try discriminate; lia.
Qed.

(* the types of the property's list come back unchanged; Quadrangle comes back as Quadrilateral *)
Lemma norm_ty_bin_table :
  map norm_ty_bin [Edge; Triangle; Quadrangle; Quadrilateral; Tetrahedron; Hexahedron]
  = [Edge; Triangle; Quadrilateral; Quadrilateral; Tetrahedron; Hexahedron].
Proof. reflexivity. Qed.

Lemma end_code_tables :
  (bin_write_end =? code_END)%Z = true /\ (- 2 ^ 31 <= bin_write_end < 2 ^ 31)%Z.
Proof. vm_compute. repeat split; discriminate. Qed.

(* ---- the element blocks ---- *)

Definition normb (b : block) : block := mkblock (norm_ty_bin (b_ty b)) (b_nodes b) (b_refs b).

Lemma ser_blocks_nonvertex bp ty ns rs t : ty <> Vertex ->
  ser_blocks bp (mkblock ty ns rs :: t) =
    let count := N.of_nat (length rs) in
    let npe := etype_node_count ty in
    let bitpos' := bp + 8 * count * (N.of_nat npe + 1) + (4 + 8 + 8) in
    match ser_elems (zip_chunks npe ns rs) with
    | FOk body =>
      match ser_blocks bitpos' t with
      | FOk rest => FOk (i32_bytes (etype_code ty) ++ le_enc 8 bitpos' ++ le_enc 8 count ++ body ++ rest)
      | e => e
      end
    | e => e
    end.
Proof. intros H. destruct ty; try congruence; reflexivity. Qed.

Lemma cap8_ok a b : 8 * (a * b) <= isize_max -> cap8_check a b = None.
Proof.
  unfold cap8_check, isize_max, u64_max. intros H.
  change (2 ^ 63 - 1) with 9223372036854775807 in *. change (2 ^ 64 - 1) with 18446744073709551615.
  destruct (N.ltb_spec 18446744073709551615 (a * b)); [lia|].
  destruct (N.ltb_spec 9223372036854775807 (8 * (a * b))); [lia|reflexivity].
Qed.

Lemma parse_blocks : forall bs bp acc rest fuel,
  Forall block_shape bs -> Forall block_ranges bs -> (length (drop_vertex_blocks bs) < fuel)%nat ->
  exists bytes, ser_blocks bp bs = FOk bytes /\
    parse_fields fuel true w4 acc (bytes ++ i32_bytes bin_write_end ++ rest)
    = FOk (mkmesh (m_dim acc) (m_coords acc) (m_nrefs acc)
                  (m_topo acc ++ map normb (drop_vertex_blocks bs))).
Proof.
  induction bs as [|b t IH]; intros bp acc rest fuel Hsh Hrg Hfuel.
  - exists []. split; [reflexivity|].
    destruct fuel as [|f]; [cbn [length] in Hfuel; lia|].
    cbn [app parse_fields]. destruct end_code_tables as [He Hr].
    rewrite read_i32 by exact Hr. rewrite He.
    cbn [drop_vertex_blocks filter map]. rewrite app_nil_r. now destruct acc.
  - destruct fuel as [|f]; [lia|].
    inversion Hsh as [|? ? Hb Ht]; subst. inversion Hrg as [|? ? Hbr Htr]; subst.
    destruct b as [ty ns rs].
    destruct (etype_eqb ty Vertex) eqn:Ev.
    + (* a Vertex block is skipped by the writer *)
      assert (ty = Vertex) by (destruct ty; try discriminate; reflexivity). subst ty.
      cbn [drop_vertex_blocks filter b_ty etype_eqb negb] in Hfuel. fold (drop_vertex_blocks t) in Hfuel.
      destruct (IH bp acc rest (S f) Ht Htr Hfuel) as (bytes & Hs & Hp).
      exists bytes. split; [exact Hs|]. rewrite Hp. reflexivity.
    + assert (Hty : ty <> Vertex) by (intros ->; discriminate).
      cbn [drop_vertex_blocks filter b_ty] in Hfuel. rewrite Ev in Hfuel. cbn [negb length] in Hfuel.
      fold (drop_vertex_blocks t) in Hfuel.
      destruct (etype_tables ty Hty) as (T1 & T2 & T3 & T4 & T5 & T6).
      unfold block_shape in Hb. cbn [b_nodes b_refs b_ty] in Hb.
      destruct Hbr as (Hn & Hr & Hcap). cbn [b_nodes b_refs] in Hn, Hr, Hcap.
      rewrite ser_blocks_nonvertex by exact Hty. cbv zeta.
      set (npe := etype_node_count ty) in *.
      set (es := zip_chunks npe ns rs).
      destruct (zip_chunks_spec npe T5 rs ns Hb) as (Z1 & Z2 & Z3 & Z4). fold es in Z1, Z2, Z3, Z4.
      assert (Hes : Forall (fun e => Forall node_ok (fst e)) es).
      { apply Forall_flat_map_fst. rewrite Z1. exact Hn. }
      rewrite (ser_elems_ok es Hes).
      set (bp' := bp + 8 * N.of_nat (length rs) * (N.of_nat npe + 1) + (4 + 8 + 8)).
      set (acc' := mkmesh (m_dim acc) (m_coords acc) (m_nrefs acc)
                          (m_topo acc ++ [mkblock (norm_ty_bin ty) ns rs])).
      destruct (IH bp' acc' rest f Ht Htr ltac:(lia)) as (bytes & Hs & Hp).
      rewrite Hs. eexists. split; [reflexivity|].
      cbn [parse_fields]. rewrite <- !app_assoc.
      rewrite read_i32 by exact T4. rewrite T1, T2, T3.
      cbn [w_pos w_int w4].
      destruct (read_pos64 bp' (le_enc 8 (N.of_nat (length rs)) ++ flat_map ser_elem es ++ bytes
                                 ++ i32_bytes bin_write_end ++ rest)) as (p & Hpos).
      rewrite Hpos.
      assert (Hcnt : N.of_nat (length rs) < 2 ^ 63).
      { unfold isize_max in Hcap. change (2 ^ 63 - 1) with 9223372036854775807 in Hcap.
        change (2 ^ 63) with 9223372036854775808. rewrite Hb in Hcap. nia. }
      rewrite read_u63 by exact Hcnt.
      assert (Hcnt' : N.of_nat (length rs) < 2 ^ 64).
      { change (2 ^ 63) with 9223372036854775808 in Hcnt. change (2 ^ 64) with 18446744073709551616. lia. }
      rewrite as_usize_of_N by exact Hcnt'.
      rewrite T6. fold npe.
      rewrite cap8_ok by (rewrite Hb in Hcap; lia).
      destruct (read_elements npe ns rs (bytes ++ i32_bytes bin_write_end ++ rest) T5 Hb Hn Hr)
        as (es' & Hrd & E1 & E2).
      fold es in Hrd. rewrite Hrd, E1, E2.
      fold acc'. rewrite Hp.
      cbn [drop_vertex_blocks filter b_ty]. rewrite Ev. cbn [negb map].
      unfold acc'. cbn [m_dim m_coords m_nrefs m_topo]. rewrite <- app_assoc. reflexivity.
Qed.

Lemma ser_blocks_length bs : forall bp bytes,
  ser_blocks bp bs = FOk bytes -> (length (drop_vertex_blocks bs) <= length bytes)%nat.
Proof.
  induction bs as [|[ty ns rs] t IH]; intros bp bytes H.
  - cbn. lia.
  - destruct (etype_eqb ty Vertex) eqn:Ev.
    + assert (ty = Vertex) by (destruct ty; try discriminate; reflexivity). subst ty.
      cbn [ser_blocks b_ty] in H. apply IH in H. cbn [drop_vertex_blocks filter b_ty etype_eqb negb]. exact H.
    + assert (Hty : ty <> Vertex) by (intros ->; discriminate).
      rewrite ser_blocks_nonvertex in H by exact Hty. cbv zeta in H.
      destruct (ser_elems _) as [body| | |]; try discriminate.
      destruct (ser_blocks _ t) as [rest'| | |] eqn:Es; try discriminate.
      apply IH in Es.
      assert (Hl : (1 + length rest' <= length bytes)%nat).
      { apply (f_equal (fun r => match r with FOk b => length b | _ => O end)) in H. cbv beta iota in H.
        rewrite <- H. unfold i32_bytes. rewrite !app_length, !le_enc_length. lia. }
      cbn [drop_vertex_blocks filter b_ty]. rewrite Ev. cbn [negb]. fold (drop_vertex_blocks t).
      change (length (?x :: ?l)) with (S (length l)). lia.
Qed.

(* ---- the whole file ---- *)

Definition rw_medit_bin (m : mesh) : fres mesh := fbind (serialize_binary m) parse_binary.

Lemma code_tables :
  (- 2 ^ 31 <= code_DIMENSION < 2 ^ 31)%Z /\ (- 2 ^ 31 <= code_VERTEX < 2 ^ 31)%Z /\
  (code_VERTEX =? code_END)%Z = false /\
  widths_of_version (Z.of_N bin_write_version) = Some w4 /\
  le_enc 4 bin_write_magic = [1; 0; 0; 0] /\ bin_write_version < 2 ^ 31.
Proof. vm_compute. repeat split; discriminate. Qed.

Theorem medit_bin_roundtrip_proof : forall m,
  wf_mesh m -> rw_medit_bin m = FOk (norm_bin m).
Proof.
  intros [dim coords nrefs topo] [[Hd [Hlen Hsh]] [Hdim [Hc [Hr [Hcapc [Hcapr Hrg]]]]]].
  cbn [m_dim m_coords m_nrefs m_topo] in *.
  destruct code_tables as (C1 & C2 & C3 & C4 & C5 & C6).
  unfold rw_medit_bin, serialize_binary. cbn [m_dim m_coords m_nrefs m_topo].
  destruct (N.eqb_spec dim 0) as [|_]; [contradiction|].
  set (bp1 := 4 + 4 + 4 + 8 + 4 + 8 * N.of_nat (length nrefs) * (dim + 1) + (4 + 8 + 8)).
  set (acc := mkmesh dim coords nrefs []).
  set (ns := zip_chunks_exact dim coords nrefs).
  destruct (parse_blocks topo bp1 acc [] (S (length (drop_vertex_blocks topo))) Hsh Hrg ltac:(lia))
    as (bytes & Hser & _).
  rewrite Hser. cbn [fbind]. unfold parse_binary.
  rewrite C5. cbn [app take]. change (le_dec [1; 0; 0; 0]) with 1. cbv iota beta.
  change (1 =? 1) with true. cbv iota.
  (* version *)
  assert (Hv : read_sint true 4 (le_enc 4 bin_write_version ++
                 i32_bytes code_DIMENSION ++ le_enc 8 (4 + 4 + 4 + 8 + 4) ++ le_enc 4 dim ++
                 i32_bytes code_VERTEX ++ le_enc 8 bp1 ++ le_enc 8 (N.of_nat (length nrefs)) ++
                 flat_map ser_node ns ++ bytes ++ i32_bytes bin_write_end)
               = FOk (Z.of_N bin_write_version, i32_bytes code_DIMENSION ++ le_enc 8 (4 + 4 + 4 + 8 + 4) ++ le_enc 4 dim ++
                 i32_bytes code_VERTEX ++ le_enc 8 bp1 ++ le_enc 8 (N.of_nat (length nrefs)) ++
                 flat_map ser_node ns ++ bytes ++ i32_bytes bin_write_end)).
  { rewrite read_sint_app by apply le_enc_length. change (8 * N.of_nat 4) with 32.
    assert (bin_write_version < 2 ^ 32).
    { change (2 ^ 31) with 2147483648 in C6. change (2 ^ 32) with 4294967296. lia. }
    rewrite le_dec_enc4 by assumption. unfold of_bits. change (2 ^ (32 - 1)) with (2 ^ 31).
    destruct (N.ltb_spec bin_write_version (2 ^ 31)); [reflexivity|lia]. }
  rewrite Hv. rewrite C4.
  rewrite read_i32 by exact C1. rewrite Z.eqb_refl. cbn [negb w_pos w4].
  destruct (read_pos64 (4 + 4 + 4 + 8 + 4) (le_enc 4 dim ++
                 i32_bytes code_VERTEX ++ le_enc 8 bp1 ++ le_enc 8 (N.of_nat (length nrefs)) ++
                 flat_map ser_node ns ++ bytes ++ i32_bytes bin_write_end)) as (p0 & Hp0).
  rewrite Hp0.
  (* dimension *)
  rewrite read_sint_app by apply le_enc_length. change (8 * N.of_nat 4) with 32.
  assert (Hdim32 : dim < 2 ^ 32).
  { change (2 ^ 31) with 2147483648 in Hdim. change (2 ^ 32) with 4294967296. lia. }
  rewrite le_dec_enc4 by exact Hdim32.
  assert (Hofb : of_bits 32 dim = Z.of_N dim).
  { unfold of_bits. change (2 ^ (32 - 1)) with (2 ^ 31). destruct (N.ltb_spec dim (2 ^ 31)); [reflexivity|lia]. }
  rewrite Hofb.
  assert (Hdim64 : dim < 2 ^ 64).
  { change (2 ^ 31) with 2147483648 in Hdim. change (2 ^ 64) with 18446744073709551616. lia. }
  rewrite as_usize_of_N by exact Hdim64.
  (* the field loop: Vertices first *)
  set (tail := i32_bytes code_VERTEX ++ _).
  assert (Hlt : (length (drop_vertex_blocks topo) + 4 <= length tail)%nat).
  { unfold tail, i32_bytes. rewrite !app_length, !le_enc_length.
    pose proof (ser_blocks_length topo bp1 bytes Hser). lia. }
  remember (length tail) as ft eqn:Eft. clear Eft.
  subst tail. cbn [parse_fields].
  rewrite read_i32 by exact C2. rewrite C3, Z.eqb_refl. cbn [w_pos w_int w4].
  destruct (read_pos64 bp1 (le_enc 8 (N.of_nat (length nrefs)) ++
                 flat_map ser_node ns ++ bytes ++ i32_bytes bin_write_end)) as (p1 & Hp1).
  rewrite Hp1.
  assert (Hcnt : N.of_nat (length nrefs) < 2 ^ 63).
  { unfold isize_max in Hcapr. change (2 ^ 63 - 1) with 9223372036854775807 in Hcapr.
    change (2 ^ 63) with 9223372036854775808. lia. }
  rewrite read_u63 by exact Hcnt.
  assert (Hcnt' : N.of_nat (length nrefs) < 2 ^ 64).
  { change (2 ^ 63) with 9223372036854775808 in Hcnt. change (2 ^ 64) with 18446744073709551616. lia. }
  rewrite as_usize_of_N by exact Hcnt'.
  cbn [m_dim]. rewrite cap8_ok by (replace (N.of_nat (length nrefs) * dim) with (N.of_nat (length coords)) by lia; exact Hcapc).
  rewrite cap8_ok by (rewrite N.mul_1_r; exact Hcapr).
  destruct (read_vertices dim coords nrefs (bytes ++ i32_bytes bin_write_end) Hd Hlen Hc Hr)
    as (vs & Hrd & V1 & V2).
  fold ns in Hrd. rewrite Hrd, V1, V2. cbn [m_topo].
  (* the element blocks *)
  destruct (parse_blocks topo bp1 acc [] ft Hsh Hrg ltac:(lia)) as (bytes' & Hser' & Hp).
  rewrite Hser in Hser'. injection Hser' as <-.
  rewrite app_nil_r in Hp. unfold acc in Hp. rewrite Hp. reflexivity.
Qed.

(* inside the property's quantifier (blocks of the listed types only) nothing is normalised *)
Definition listed_ty (t : etype) : Prop :=
  t = Edge \/ t = Triangle \/ t = Quadrilateral \/ t = Tetrahedron \/ t = Hexahedron.

Lemma norm_bin_listed m : Forall (fun b => listed_ty (b_ty b)) (m_topo m) -> norm_bin m = m.
Proof.
  destruct m as [dim coords nrefs topo]. unfold norm_bin. cbn [m_dim m_coords m_nrefs m_topo].
  intros H. f_equal. induction H as [|[ty ns rs] t Hb Ht IH]; [reflexivity|].
  cbn [b_ty] in Hb. cbn [drop_vertex_blocks filter b_ty].
  assert (E : etype_eqb ty Vertex = false /\ norm_ty_bin ty = ty).
  { destruct Hb as [->|[->|[->|[->| ->]]]]; split; reflexivity. }
  destruct E as [E1 E2]. rewrite E1. cbn [negb map b_ty b_nodes b_refs]. rewrite E2.
  f_equal. exact IH.
Qed.

Corollary medit_bin_roundtrip_listed m :
  wf_mesh m -> Forall (fun b => listed_ty (b_ty b)) (m_topo m) -> rw_medit_bin m = FOk m.
Proof. intros Hwf Hl. rewrite medit_bin_roundtrip_proof by exact Hwf. now rewrite norm_bin_listed. Qed.

(* ---- sniffing: what serialize_medit_binary emits is detected as binary ---- *)

Lemma serialize_binary_prefix m bytes :
  serialize_binary m = FOk bytes -> exists t, bytes = 1 :: 0 :: 0 :: 0 :: t.
Proof.
  unfold serialize_binary. destruct (m_dim m =? 0); [discriminate|].
  destruct (ser_blocks _ _) as [bl| | |]; try discriminate.
  destruct code_tables as (_ & _ & _ & _ & C5 & _). rewrite C5.
  intros H. apply (f_equal (fun r => match r with FOk b => b | _ => [] end)) in H. cbv beta iota in H.
  rewrite <- H. eexists. reflexivity.
Qed.

Theorem sniff_binary_written_proof : forall m bytes n,
  serialize_binary m = FOk bytes -> (4 <= n)%nat -> sniff (firstn n bytes) = FOk FmtBinary.
Proof.
  intros m bytes n H Hn. apply serialize_binary_prefix in H as [t ->].
  do 4 (destruct n as [|n]; [lia|]). reflexivity.
Qed.

(* Mesh::from_reader on the written bytes takes the binary parser *)
Corollary from_reader_binary_written parse_f64 m bytes :
  serialize_binary m = FOk bytes -> from_reader parse_f64 bytes = parse_binary bytes.
Proof.
  intros H. unfold from_reader.
  pose proof (sniff_binary_written_proof m bytes (length bytes) H) as Hs.
  rewrite firstn_all in Hs. rewrite Hs; [reflexivity|].
  apply serialize_binary_prefix in H as [t ->]. cbn [length]. lia.
Qed.

(* ---- the mesh equality used by the run-time checker decides equality ---- *)

Lemma etype_eqb_eq a b : etype_eqb a b = true <-> a = b.
Proof. destruct a, b; cbn; split; congruence. Qed.

Lemma block_eqb_eq a b : block_eqb a b = true <-> a = b.
Proof.
  destruct a as [t1 n1 r1], b as [t2 n2 r2]. unfold block_eqb. cbn [b_ty b_nodes b_refs].
  rewrite !andb_true_iff, etype_eqb_eq, (leqb_eq N.eqb N.eqb_eq), (leqb_eq Z.eqb Z.eqb_eq).
  split; [intros [[-> ->] ->]; reflexivity|intros [= -> -> ->]; auto].
Qed.

Lemma mesh_eqb_eq a b : mesh_eqb a b = true <-> a = b.
Proof.
  destruct a as [d1 c1 r1 t1], b as [d2 c2 r2 t2]. unfold mesh_eqb. cbn [m_dim m_coords m_nrefs m_topo].
  rewrite !andb_true_iff, N.eqb_eq, (leqb_eq N.eqb N.eqb_eq), (leqb_eq Z.eqb Z.eqb_eq),
    (leqb_eq block_eqb block_eqb_eq).
  split; [intros [[[-> ->] ->] ->]; reflexivity|intros [= -> -> -> ->]; auto].
Qed.

(* ---- parse_binary never runs out of the fuel it gives its loops ---- *)

Lemma read_items_le {A} (rd : list N -> fres (A * list N)) :
  (forall s x s1, rd s = FOk (x, s1) -> (length s1 <= length s)%nat) ->
  forall fuel count s xs s2, read_items fuel count rd s = FOk (xs, s2) -> (length s2 <= length s)%nat.
Proof.
  intros Hle. induction fuel as [|f IH]; intros count s xs s2; cbn [read_items].
  - destruct (count =? 0); [|discriminate]. intros [= _ <-]. lia.
  - destruct (count =? 0); [intros [= _ <-]; lia|].
    destruct (rd s) as [[x s1]| | |] eqn:E; try discriminate.
    destruct (read_items f (count - 1) rd s1) as [[xs' s2']| | |] eqn:E2; try discriminate.
    intros [= _ <-]. apply Hle in E. apply IH in E2. lia.
Qed.

Lemma read_bytes_consumes le n s v r :
  read_bytes le n s = FOk (v, r) -> length s = (n + length r)%nat.
Proof.
  unfold read_bytes. destruct (take n s) as [[b r']|] eqn:E; [|discriminate].
  intros [= _ <-]. apply take_length in E as [-> Hl]. rewrite app_length. lia.
Qed.

Lemma read_sint_consumes le n s v r :
  read_sint le n s = FOk (v, r) -> length s = (n + length r)%nat.
Proof.
  unfold read_sint. destruct (read_bytes le n s) as [[v' r']| | |] eqn:E; try discriminate.
  intros [= _ <-]. now apply read_bytes_consumes in E.
Qed.

Lemma read_float_consumes le n s v r :
  read_float le n s = FOk (v, r) -> length s = (n + length r)%nat.
Proof.
  unfold read_float. destruct (read_bytes le n s) as [[v' r']| | |] eqn:E; try discriminate.
  intros [= _ <-]. now apply read_bytes_consumes in E.
Qed.

Lemma read_sint_fuel le n s : read_sint le n s <> FOutOfFuel.
Proof. unfold read_sint, read_bytes. destruct (take n s) as [[? ?]|]; discriminate. Qed.
Lemma read_float_fuel le n s : read_float le n s <> FOutOfFuel.
Proof. unfold read_float, read_bytes. destruct (take n s) as [[? ?]|]; discriminate. Qed.

Definition widths_pos (w : widths) : Prop := (1 <= w_int w)%nat /\ (1 <= w_float w)%nat.

Lemma read_vertex_spec le w dim s : widths_pos w ->
  read_vertex le w dim s <> FOutOfFuel /\
  forall x s1, read_vertex le w dim s = FOk (x, s1) -> (length s1 < length s)%nat.
Proof.
  intros [Hi Hf]. unfold read_vertex.
  pose proof (read_items_fuel2 (read_float le (w_float w))
    ltac:(intros s0 x s1 H; apply read_float_consumes in H; lia)
    ltac:(intros s0; apply read_float_fuel) (S (bounded_len dim s)) dim s
    ltac:(destruct (bounded_len_spec s dim); lia)) as Hfuel.
  destruct (read_items (S (bounded_len dim s)) dim (read_float le (w_float w)) s) as [[cs s1]| | |] eqn:E;
    try (split; [discriminate|intros; discriminate]); [|congruence].
  apply (read_items_le (read_float le (w_float w))
    ltac:(intros s0 x s1' H; apply read_float_consumes in H; lia)) in E.
  pose proof (read_sint_fuel le (w_int w) s1) as Hs.
  destruct (read_sint le (w_int w) s1) as [[r s2]| | |] eqn:E2;
    try (split; [discriminate|intros; discriminate]); [|congruence].
  apply read_sint_consumes in E2. split; [discriminate|]. intros x s1' [= _ <-]. lia.
Qed.

Lemma read_node_spec le w s : widths_pos w ->
  read_node le w s <> FOutOfFuel /\
  forall x s1, read_node le w s = FOk (x, s1) -> (length s1 < length s)%nat.
Proof.
  intros [Hi Hf]. unfold read_node.
  pose proof (read_sint_fuel le (w_int w) s) as Hs.
  destruct (read_sint le (w_int w) s) as [[v r]| | |] eqn:E;
    try (split; [discriminate|intros; discriminate]); [|congruence].
  apply read_sint_consumes in E. destruct (as_usize v =? 0); (split; [discriminate|]).
  - intros; discriminate.
  - intros x s1 [= _ <-]. lia.
Qed.

Lemma read_element_spec le w npe s : widths_pos w ->
  read_element le w npe s <> FOutOfFuel /\
  forall x s1, read_element le w npe s = FOk (x, s1) -> (length s1 < length s)%nat.
Proof.
  intros Hw. unfold read_element.
  assert (Hfuel : read_items npe (N.of_nat npe) (read_node le w) s <> FOutOfFuel).
  { clear. revert s. induction npe as [|k IH]; intros s; [discriminate|].
    cbn [read_items]. destruct (N.eqb_spec (N.of_nat (S k)) 0) as [|_]; [discriminate|].
    pose proof (read_sint_fuel le (w_int w) s) as Hs. unfold read_node at 1.
    destruct (read_sint le (w_int w) s) as [[v r]| | |]; try discriminate; [|congruence].
    destruct (as_usize v =? 0); [discriminate|].
    replace (N.of_nat (S k) - 1) with (N.of_nat k) by lia. specialize (IH r).
    destruct (read_items k (N.of_nat k) (read_node le w) r) as [[? ?]| | |]; try discriminate. congruence. }
  destruct (read_items npe (N.of_nat npe) (read_node le w) s) as [[ns s1]| | |] eqn:E;
    try (split; [discriminate|intros; discriminate]); [|congruence].
  apply (read_items_le (read_node le w)
    ltac:(intros s0 x s1' H; apply (read_node_spec le w s0 Hw) in H; lia)) in E.
  pose proof (read_sint_fuel le (w_int w) s1) as Hs. destruct Hw as [Hi Hf].
  destruct (read_sint le (w_int w) s1) as [[r s2]| | |] eqn:E2;
    try (split; [discriminate|intros; discriminate]); [|congruence].
  apply read_sint_consumes in E2. split; [discriminate|]. intros x s1' [= _ <-]. lia.
Qed.

Lemma parse_fields_fuel le w : widths_pos w ->
  forall fuel m s, (length s < fuel)%nat -> parse_fields fuel le w m s <> FOutOfFuel.
Proof.
  intros Hw. induction fuel as [|f IH]; intros m s Hlen; [lia|].
  cbn [parse_fields].
  pose proof (read_sint_fuel le 4 s) as H0.
  destruct (read_sint le 4 s) as [[code s1]| | |] eqn:E1; try discriminate; [|congruence].
  apply read_sint_consumes in E1.
  destruct (code =? code_END)%Z; [discriminate|].
  destruct (code =? code_VERTEX)%Z.
  - pose proof (read_sint_fuel le (w_pos w) s1) as H1.
    destruct (read_sint le (w_pos w) s1) as [[p s2]| | |] eqn:E2; try discriminate; [|congruence].
    apply read_sint_consumes in E2.
    pose proof (read_sint_fuel le (w_int w) s2) as H2.
    destruct (read_sint le (w_int w) s2) as [[cnt s3]| | |] eqn:E3; try discriminate; [|congruence].
    apply read_sint_consumes in E3.
    destruct (match cap8_check (as_usize cnt) (m_dim m) with Some p0 => Some p0 | None => cap8_check (as_usize cnt) 1 end);
      [discriminate|].
    pose proof (read_items_fuel (read_vertex le w (m_dim m))
      ltac:(intros s0 x s1' H; now apply (read_vertex_spec le w (m_dim m) s0 Hw) in H)
      ltac:(intros s0; apply (read_vertex_spec le w (m_dim m) s0 Hw))
      (S (length s3)) (as_usize cnt) s3 ltac:(lia)) as Hf.
    destruct (read_items (S (length s3)) (as_usize cnt) (read_vertex le w (m_dim m)) s3) as [[vs s4]| | |] eqn:E4;
      try discriminate; [|congruence].
    apply (read_items_le (read_vertex le w (m_dim m))
      ltac:(intros s0 x s1' H; apply (read_vertex_spec le w (m_dim m) s0 Hw) in H; lia)) in E4.
    apply IH. lia.
  - destruct (etype_from_code code) as [ty|]; [|discriminate].
    pose proof (read_sint_fuel le (w_pos w) s1) as H1.
    destruct (read_sint le (w_pos w) s1) as [[p s2]| | |] eqn:E2; try discriminate; [|congruence].
    apply read_sint_consumes in E2.
    pose proof (read_sint_fuel le (w_int w) s2) as H2.
    destruct (read_sint le (w_int w) s2) as [[cnt s3]| | |] eqn:E3; try discriminate; [|congruence].
    apply read_sint_consumes in E3.
    destruct (cap8_check (N.of_nat (etype_node_count ty)) (as_usize cnt)); [discriminate|].
    pose proof (read_items_fuel (read_element le w (etype_node_count ty))
      ltac:(intros s0 x s1' H; now apply (read_element_spec le w (etype_node_count ty) s0 Hw) in H)
      ltac:(intros s0; apply (read_element_spec le w (etype_node_count ty) s0 Hw))
      (S (length s3)) (as_usize cnt) s3 ltac:(lia)) as Hf.
    destruct (read_items (S (length s3)) (as_usize cnt) (read_element le w (etype_node_count ty)) s3)
      as [[es s4]| | |] eqn:E4; try discriminate; [|congruence].
    apply (read_items_le (read_element le w (etype_node_count ty))
      ltac:(intros s0 x s1' H; apply (read_element_spec le w (etype_node_count ty) s0 Hw) in H; lia)) in E4.
    apply IH. lia.
Qed.

Lemma widths_of_version_pos v w : widths_of_version v = Some w -> widths_pos w.
Proof.
  unfold widths_of_version, widths_pos.
  destruct (v =? 1)%Z; [intros [= <-]; cbn; lia|].
  destruct (v =? 2)%Z; [intros [= <-]; cbn; lia|].
  destruct (v =? 3)%Z; [intros [= <-]; cbn; lia|].
  destruct (v =? 4)%Z; [intros [= <-]; cbn; lia|discriminate].
Qed.

Theorem parse_binary_terminates : forall s, parse_binary s <> FOutOfFuel.
Proof.
  intros s. unfold parse_binary.
  destruct (take 4 s) as [[mg s1]|]; [|discriminate].
  destruct (if le_dec mg =? 1 then Some true else if le_dec mg =? 2 ^ 24 then Some false else None) as [le|];
    [|discriminate].
  pose proof (read_sint_fuel le 4 s1) as H1.
  destruct (read_sint le 4 s1) as [[version s2]| | |]; try discriminate; [|congruence].
  destruct (widths_of_version version) as [w|] eqn:Ew; [|discriminate].
  apply widths_of_version_pos in Ew.
  pose proof (read_sint_fuel le 4 s2) as H2.
  destruct (read_sint le 4 s2) as [[dcode s3]| | |]; try discriminate; [|congruence].
  destruct (negb (dcode =? code_DIMENSION)%Z); [discriminate|].
  pose proof (read_sint_fuel le (w_pos w) s3) as H3.
  destruct (read_sint le (w_pos w) s3) as [[p s4]| | |]; try discriminate; [|congruence].
  pose proof (read_sint_fuel le 4 s4) as H4.
  destruct (read_sint le 4 s4) as [[d s5]| | |]; try discriminate; [|congruence].
  apply parse_fields_fuel; [exact Ew|lia].
Qed.

(* Termination of weighted_quantiles — PARTIAL: proved for part_count <= 2
   (no split, or a single split, which is a plain bisection: the bracket
   [min_bound, max_bound] halves in every round that does not settle).
   For part_count >= 3 the bounds of a split are also reset from the other
   splits' positions (which need not be sorted) and no decreasing measure is
   known: termination is an OPEN obligation there (DESIGN §7 C01). *)
From Coupe Require Import Lib.Prelude Lib.SFloat Lib.Sorting Model.SfcPart Proofs.SortingProofs Proofs.SfcProofs.
From Coq Require Import Floats.SpecFloat.
Open Scope nat_scope.
Ltac Zify.zify_post_hook ::= Z.div_mod_to_equations.

(* ---- `P::avg` for u64 is the floor of the mean ---- *)

Lemma pos_add_lxor_land : forall p q : positive,
  (Npos p + Npos q = Pos.lxor p q + 2 * Pos.land p q)%N.
Proof.
  induction p as [p IH|p IH|]; intros [q|q|]; cbn [Pos.lxor Pos.land];
    try specialize (IH q);
    rewrite ?N.double_spec, ?N.succ_double_spec, ?N.pos_pred_spec;
    try (destruct (Pos.lxor p q), (Pos.land p q); cbn [N.double N.succ_double] in *; lia);
    try lia.
Qed.

Lemma avg_u64_spec a b : avg_u64 a b = ((a + b) / 2)%N.
Proof.
  unfold avg_u64.
  assert (H : (a + b = N.lxor a b + 2 * N.land a b)%N).
  { destruct a as [|p], b as [|q]; cbn [N.lxor N.land]; try lia. apply pos_add_lxor_land. }
  rewrite H. lia.
Qed.

(* ---- min / max of the indices ---- *)

Lemma fold_min_le : forall t x, (fold_left N.min t x <= x)%N.
Proof. induction t as [|y t IH]; intros x; cbn [fold_left]; [lia|]. specialize (IH (N.min x y)). lia. Qed.

Lemma fold_max_ge : forall t x, (x <= fold_left N.max t x)%N.
Proof. induction t as [|y t IH]; intros x; cbn [fold_left]; [lia|]. specialize (IH (N.max x y)). lia. Qed.

Lemma fold_max_lt B : forall t x, (x < B)%N -> Forall (fun y => (y < B)%N) t -> (fold_left N.max t x < B)%N.
Proof.
  induction t as [|y t IH]; intros x Hx HF; cbn [fold_left]; [exact Hx|].
  inversion HF; subst. apply IH; [lia|assumption].
Qed.

(* ---- one round with a single split ---- *)

(* what a round does to the only split: settle it, or bisect towards one side *)
Definition step_rel (s s' : split) (b : bool) : Prop :=
  (b = true /\ s_settled s' = true)
  \/ (b = false /\ s_settled s' = false
      /\ ((s_min s' = s_pos s /\ s_max s' = s_max s) \/ (s_min s' = s_min s /\ s_max s' = s_pos s))
      /\ s_pos s' = avg_u64 (s_min s') (s_max s') /\ s_pos s' <> s_pos s).

Lemma update_split_single tol positions pws total s left :
  s_settled s = false ->
  exists s' b, update_split tol 2 positions pws total 0 s left = Ok (s', b) /\ step_rel s s' b.
Proof.
  intros Hs. unfold update_split. rewrite Hs.
  match goal with |- context [flt ?a tol] => destruct (flt a tol) end.
  - do 2 eexists. split; [reflexivity|]. left. split; reflexivity.
  - cbn [Nat.add Nat.sub seq rev scan_up scan_down].
    match goal with |- context [if flt ?a ?b then _ else _] => destruct (flt a b) end; cbn [bind].
    + destruct (N.eqb_spec (s_pos s) (avg_u64 (s_pos s) (s_max s))) as [E|E].
      * do 2 eexists. split; [reflexivity|]. left. split; reflexivity.
      * do 2 eexists. split; [reflexivity|]. right. cbn [s_settled s_min s_max s_pos].
        repeat split; auto.
    + destruct (N.eqb_spec (s_pos s) (avg_u64 (s_min s) (s_pos s))) as [E|E].
      * do 2 eexists. split; [reflexivity|]. left. split; reflexivity.
      * do 2 eexists. split; [reflexivity|]. right. cbn [s_settled s_min s_max s_pos].
        repeat split; auto.
Qed.

Lemma wq_round_single tol pts ws s :
  s_settled s = false ->
  exists s' (b : bool), wq_round tol 2 pts ws [s] = Ok ([s'], if b then 1 else 0) /\ step_rel s s' b.
Proof.
  intros Hs. unfold wq_round. cbn [map].
  destruct (part_weights_of_ok [s_pos s] pts ws (repeat fzero 2)) as [pws E]; [reflexivity|].
  rewrite E. cbn [bind].
  pose proof (part_weights_of_length _ _ _ _ _ E) as HL. cbn [repeat length] in HL.
  destruct pws as [|w0 [|w1 [|w2 t]]]; cbn [length] in HL; try lia.
  cbn [prefix_sums update_splits].
  destruct (update_split_single tol [s_pos s] [w0; w1] (fold_left f64_add [w0; w1] fnegzero) s (f64_add fzero w0) Hs)
    as [s' [b [EU R]]].
  rewrite EU. cbn [bind]. exists s', b. split; [|exact R]. destruct b; reflexivity.
Qed.

(* the bracket halves: 2^k bounds the width, k+2 rounds are enough *)
Lemma wq_loop_single tol pts ws : forall k fuel s,
  k + 2 <= fuel -> s_settled s = false ->
  s_pos s = avg_u64 (s_min s) (s_max s) -> (s_min s <= s_max s)%N ->
  (s_max s - s_min s <= 2 ^ N.of_nat k)%N ->
  exists r, wq_loop tol fuel 2 pts ws [s] 1 = Ok r.
Proof.
  induction k as [|k IH]; intros fuel s Hf Hs HP Hle Hw;
    (destruct fuel as [|f]; [lia|]); cbn [wq_loop];
    destruct (wq_round_single tol pts ws s Hs) as [s' [b [E R]]]; rewrite E; cbn [bind];
    rewrite avg_u64_spec in HP.
  - (* width <= 1: the round settles *)
    destruct R as [[-> _]|[-> [_ [Hb [HP' Hne]]]]].
    + cbn [Nat.sub]. destruct f; eexists; reflexivity.
    + exfalso. rewrite avg_u64_spec in HP'. cbn [N.of_nat N.pow] in Hw.
      destruct Hb as [[Hm HM]|[Hm HM]]; rewrite Hm, HM in HP'; lia.
  - destruct R as [[-> _]|[-> [Hs' [Hb [HP' Hne]]]]].
    + cbn [Nat.sub]. destruct f; eexists; reflexivity.
    + cbn [Nat.sub]. rewrite Nat2N.inj_succ, N.pow_succ_r' in Hw.
      apply IH; auto; try lia; destruct Hb as [[Hm HM]|[Hm HM]]; rewrite Hm, HM; lia.
Qed.

(* the quantile search terminates when there are at most two parts: 66
   rounds are enough for u64 indices (64 halvings + the settling round) *)
Theorem weighted_quantiles_terminates_partial tol fuel pts ws n :
  pts <> [] -> Forall (fun x => (x < 2 ^ 64)%N) pts -> 1 <= n <= 2 -> 66 <= fuel ->
  exists splits, weighted_quantiles tol fuel pts ws n = Ok splits.
Proof.
  intros Hne HB Hn Hf. unfold weighted_quantiles.
  destruct pts as [|x t]; [congruence|]. cbn [min_list max_list].
  inversion HB as [|? ? Hx Ht]; subst.
  pose proof (fold_min_le t x) as Hmin. pose proof (fold_max_ge t x) as Hmax.
  pose proof (fold_max_lt _ t x Hx Ht) as Hlt.
  set (mn := fold_left N.min t x) in *. set (mx := fold_left N.max t x) in *.
  destruct n as [|[|[|n]]]; try lia.
  - (* one part: no split *)
    cbn [init_splits Nat.sub seq map length]. destruct fuel; cbn [wq_loop bind map]; eexists; reflexivity.
  - (* two parts: one split, a bisection *)
    cbn [init_splits Nat.sub seq map length].
    destruct (wq_loop_single tol (x :: t) ws 64 fuel
                (mkSplit (mn + (mx - mn) / N.of_nat 2 * N.of_nat 1)%N mn mx false)) as [r E]; cbn [s_settled s_pos s_min s_max]; auto.
    + rewrite avg_u64_spec. change (N.of_nat 2) with 2%N. change (N.of_nat 1) with 1%N. lia.
    + lia.
    + change (N.of_nat 64) with 64%N. lia.
    + rewrite E. cbn [bind]. eexists; reflexivity.
Qed.

(* hence HilbertCurve::partition with at most two parts returns (no hang, no panic) *)
Theorem hilbert_partition_terminates_partial tol maxo order fuel idx ws k p0 :
  length idx = length p0 -> Forall (fun x => (x < 2 ^ 64)%N) idx -> 1 <= k <= 2 -> 66 <= fuel ->
  (exists p, hilbert_partition tol maxo order fuel idx ws k p0 = Ok p)
  \/ hilbert_partition tol maxo order fuel idx ws k p0 = Err (InvalidOrder maxo order).
Proof.
  intros HL HB Hk Hf. unfold hilbert_partition.
  destruct (maxo <? order)%N; [right; reflexivity|]. left.
  destruct p0 as [|x0 p0']; [eexists; reflexivity|].
  assert (Hne : idx <> []) by (destruct idx; [discriminate|congruence]).
  destruct (weighted_quantiles_terminates_partial tol fuel idx ws k Hne HB Hk Hf) as [splits ->]. cbn [bind].
  destruct (assign_parts_total splits idx) as [ids ->]. cbn [bind]. eexists; reflexivity.
Qed.

(* ArcSwap: concrete runs evaluated by vm_compute — the non-vacuity example of the C05 theorems
   and the witnesses of the known finding about unsigned weight types (docs/C05.md). *)
From Coupe Require Import Lib.Prelude Lib.SFloat Model.ArcSwap Proofs.ArcSwapSafe.
Open Scope Z_scope.

(* ---- non-vacuity: a 6-cycle with alternating parts, 3 workers, a cap that allows moves ---- *)
Definition ex_g : graph :=
  [[(1%nat,1);(5%nat,1)]; [(0%nat,1);(2%nat,1)]; [(1%nat,1);(3%nat,1)];
   [(2%nat,1);(4%nat,1)]; [(3%nat,1);(5%nat,1)]; [(0%nat,1);(4%nat,1)]].
Definition ex_p0 : list nat := [0;1;0;1;0;1]%nat.
Definition ex_cf := config_of headroom_checked ex_g [1;1;1;1;1;1] ex_p0 3 6.

Lemma C05_nonvacuous_contract_w : graph_ok ex_g /\ length ex_p0 = length ex_g.
Proof. split; [apply graph_okb_ok; vm_compute; reflexivity|reflexivity]. Qed.

(* a complete interleaved run (round-robin over the three workers, one access each): the outer
   loop exits, vertices were moved, the cut went from 6 to 0 *)
Lemma C05_nonvacuous_run_w :
  exists st0 sch st, init_state ex_cf ex_p0 = Some st0 /\ run ex_cf st0 sch = Some st
    /\ g_fin st = true /\ Nat.ltb 60 (length sch) = true /\ cut ex_g ex_p0 = 6 /\ 0 < md_gain (g_md st)
    /\ cut ex_g ex_p0 - cut ex_g (g_part st) = md_gain (g_md st).
Proof.
  destruct (init_state ex_cf ex_p0) as [st0|] eqn:E0; [|vm_compute in E0; discriminate].
  exists st0, (fst (drive ex_cf 2000 0 st0 [])), (snd (drive ex_cf 2000 0 st0 [])).
  vm_compute in E0. injection E0 as <-. vm_compute. repeat split; reflexivity.
Qed.

(* ---- known finding (docs/C05.md): unsigned weights and an input part above the cap ----
   path 0-1-2-3-4-5, parts 0 0 0 0 1 0, unit weights, max_imbalance = Some 0.0: cap = 3, part 0
   weighs 5.  With W = u64 the share is computed from `max_part_weight - pw` IN THE WEIGHT TYPE:
   a debug build panics in the prologue; a release build wraps, hands part 0 a share of 2^63 and
   lets it grow to 6 > max(5, 3).  The hypothesis [hr_ok] of C05_arcswap_caps is what fails. *)
Definition kf_g : graph :=
  [[(1%nat,1)]; [(0%nat,1);(2%nat,1)]; [(1%nat,1);(3%nat,1)]; [(2%nat,1);(4%nat,1)]; [(3%nat,1);(5%nat,1)]; [(4%nat,1)]].
Definition kf_p0 : list nat := [0;0;0;0;1;0]%nat.
Definition kf_vw : list Z := [1;1;1;1;1;1].

Lemma C05_unsigned_cap_w : cap_of (Some (f64_of_Z 0)) (loads kf_vw kf_p0 2) 2 = Some 3.
Proof. vm_compute. reflexivity. Qed.

Lemma C05_unsigned_debug_witness_w :
  init_state (config_of headroom_u64_debug kf_g kf_vw kf_p0 2 3) kf_p0 = None.
Proof. vm_compute. reflexivity. Qed.

Lemma C05_unsigned_release_witness_w :
  let cf := config_of headroom_u64_release kf_g kf_vw kf_p0 2 3 in
  exists st0 sch st, init_state cf kf_p0 = Some st0 /\ run cf st0 sch = Some st /\ g_fin st = true
    /\ load kf_vw (g_part st) 0 = 6 /\ Z.max (load kf_vw kf_p0 0) 3 = 5.
Proof.
  cbv zeta.
  destruct (init_state (config_of headroom_u64_release kf_g kf_vw kf_p0 2 3) kf_p0) as [st0|] eqn:E0;
    [|vm_compute in E0; discriminate].
  exists st0, (fst (drive (config_of headroom_u64_release kf_g kf_vw kf_p0 2 3) 2000 0 st0 [])),
              (snd (drive (config_of headroom_u64_release kf_g kf_vw kf_p0 2 3) 2000 0 st0 [])).
  vm_compute in E0. injection E0 as <-. vm_compute. repeat split; reflexivity.
Qed.

(* ---- known finding, second form (docs/C05.md): the thread-local weight of the SOURCE part can be
   smaller than the weight of the vertex being moved out of it, because the vertex was moved into
   that part by another worker during the same pass.  Recorded run of the implementation (u64
   weights, 3 workers, 8 vertices, first 236 events, uniform schedule seed 15764526401057352771):
   worker 0 is about to execute `part_weights[2] -= 1` with its local part_weights[2] = 0.  With an
   unsigned weight type this subtraction underflows (debug build: panic, as observed); the
   sequential schedule on the same input runs to completion. ---- *)
Definition kf2_g : graph := [[(1%nat,1);(2%nat,1);(4%nat,1);(7%nat,1)];[(0%nat,1);(4%nat,1);(5%nat,1)];[(0%nat,1);(6%nat,1)];[(7%nat,1)];[(0%nat,1);(1%nat,1);(5%nat,1);(7%nat,1)];[(1%nat,1);(4%nat,1)];[(2%nat,1)];[(0%nat,1);(3%nat,1);(4%nat,1)]].
Definition kf2_p0 : list nat := [3;2;1;3;1;0;0;1]%nat.
Definition kf2_vw : list Z := [1;1;1;1;1;1;1;1]%Z.
Definition kf2_trace : list N :=
  [131075;1181184;1180161;131330;1;656131;657153;1050113;65792;66048;66560;1114624;
   67328;525057;131075;1181184;591616;1180161;1180161;656131;1180161;657153;657153;657153;
   131330;1246721;721665;131585;1312256;1180161;132097;787200;657153;1179651;655363;656129;
   132865;656385;1181185;655363;131330;131585;132097;132865;656129;131330;656385;131585;
   655363;1179651;132097;1181185;656129;1179651;1181185;132865;1181441;196609;656385;262144;
   656385;131330;1179649;655361;1180417;1180673;655618;525313;131073;589824;132097;132352;
   590080;131073;132097;132352;131073;132097;132352;591104;591616;656385;131585;655361;
   655618;131073;132609;131073;132609;656640;657153;655361;131073;655618;132609;656640;
   132097;131073;657153;655361;655618;131330;656640;657153;787456;132352;132865;131073;
   131330;132352;132865;656640;655618;131073;131330;525569;132352;590080;590848;656640;
   655618;132865;656385;132865;131073;131841;132097;655618;656385;655618;131073;131841;
   132097;656385;131073;722178;787712;655618;655361;656385;131841;656642;132097;655361;
   257;65536;66560;656385;66816;656642;131330;131073;655361;132097;132354;656385;
   131073;132097;656642;656385;132354;131073;655361;655618;132097;132354;196865;656642;
   657153;262400;131073;131329;131585;132097;132865;655361;131329;655617;131585;132097;
   656642;132865;131329;657153;655361;131585;655617;656642;657153;524545;589824;590848;
   591104;132097;655617;132865;132097;655361;656385;656642;655361;131073;131329;132354;
   132865;131073;656385;131329;132354;656642;132865;655361;656385;131073;131329;132354;
   132865;656642;786688;132354;131329;132097;131329;132097;131329;132097;1281;65792;
   66560;132354;131329;132097;131329;132097;131329;132097]%N.

Lemma C05_unsigned_local_underflow_witness_w :
  let cf := config_of headroom_checked kf2_g kf2_vw kf2_p0 3 18 in
  exists st0 evs st w, init_state cf kf2_p0 = Some st0 /\ decode_trace kf2_trace = Some evs
    /\ replay cf st0 evs = Some st /\ nth_opt (g_ws st) 0 = Some w
    /\ w_pc w = PStore 5 2 1 2 /\ nth_opt (w_pw w) 2 = Some 0 /\ nth_opt kf2_vw 5 = Some 1.
Proof.
  cbv zeta.
  destruct (init_state (config_of headroom_checked kf2_g kf2_vw kf2_p0 3 18) kf2_p0) as [st0|] eqn:E0;
    [|vm_compute in E0; discriminate].
  destruct (decode_trace kf2_trace) as [evs|] eqn:E1; [|vm_compute in E1; discriminate].
  destruct (replay (config_of headroom_checked kf2_g kf2_vw kf2_p0 3 18) st0 evs) as [st|] eqn:E2.
  - destruct (nth_opt (g_ws st) 0) as [w|] eqn:E3.
    + exists st0, evs, st, w. vm_compute in E0. injection E0 as <-. vm_compute in E1. injection E1 as <-.
      vm_compute in E2. injection E2 as <-. vm_compute in E3. injection E3 as <-.
      vm_compute. repeat split; reflexivity.
    + exfalso. vm_compute in E0. injection E0 as <-. vm_compute in E1. injection E1 as <-.
      vm_compute in E2. injection E2 as <-. vm_compute in E3. discriminate.
  - exfalso. vm_compute in E0. injection E0 as <-. vm_compute in E1. injection E1 as <-.
    vm_compute in E2. discriminate.
Qed.

(* Which panic sites of Model/MultiJagged.v are reachable, for EVERY arithmetic.

   Inside the contract (admissible root, sort oracle returning a permutation,
   matching lengths, D >= 1) the recursion can only stop at
     site 4  `ret[ret.len() - 1]` on an empty `ret`: the FIRST threshold of some
             call of compute_split_positions compares below the zero running sum;
     site 5  `*pos - drained_count` underflows in split_at_mut_many: some call of
             compute_split_positions returned positions that are not non-decreasing.
   Every other site (index accesses driven by the scan and the split
   positions, `unwrap`s, the raw writes) is excluded whatever the comparisons
   answer: the positions are always within [0, len].

   Site 4 is then excluded for binary64 (either Ulps epsilon) and weights that
   are not negative (NaN and +inf allowed): sums, products and quotients of
   non-negative values are never negative — by the sign bookkeeping of
   SpecFloat alone.
   Site 5 genuinely depends on float facts: see [mono_cuts] and docs/C11.md. *)
From Coq Require Import Permutation QArith Sorted Floats.SpecFloat.
From Coupe Require Import Lib.Prelude Lib.SFloat Model.MultiJagged Proofs.MultiJaggedProofs Proofs.MultiJaggedExact.
Local Open Scope N_scope.

Section Outcome.
  Variable A : arith.

  (* ---- the scan: first indices of the blocks are inside the slab ---- *)
  Lemma blocks_of_fst : forall bs start (l : list (num A)),
    Forall (fun b => (fst b < start + length l)%nat) (blocks_of A bs start l).
  Proof.
    induction bs as [|b bs IH]; intros start l; destruct l as [|x t]; cbn [blocks_of]; try constructor.
    - cbn [fst length]. lia.
    - constructor.
    - destruct (Nat.eqb b 0); [apply IH|]. constructor; [cbn [fst length]; lia|].
      destruct (Nat.le_gt_cases b (length (x :: t))) as [Hle|Hgt].
      + eapply Forall_impl; [|apply IH]. intros e He. cbn beta in He. rewrite skipn_length in He. lia.
      + rewrite skipn_all2 by lia. destruct bs; constructor.
  Qed.

  Lemma take_until_lo len : forall scan cws t,
    Forall (fun b => (fst b <= len)%nat) scan ->
    let '(lo, _, _, rest) := take_until A scan cws t len in
    (lo <= len)%nat /\ Forall (fun b => (fst b <= len)%nat) rest.
  Proof.
    induction scan as [|[lo s] rest IH]; intros cws t H; cbn [take_until].
    - split; [lia|constructor].
    - inversion H as [|? ? Hlo Hrest]; subst. cbv zeta.
      destruct (a_lt A t (a_add A cws s)); [split; assumption|apply IH; exact Hrest].
  Qed.

  Lemma outer_outcome len : forall ths scan cws ret,
    Forall (fun b => (fst b <= len)%nat) scan -> Forall (fun e => (fst e <= len)%nat) ret ->
    outer A ths scan cws len ret = Panic 4 \/
    exists r, outer A ths scan cws len ret = Ok r /\ Forall (fun e => (fst e <= len)%nat) r.
  Proof.
    induction ths as [|t ths IH]; intros scan cws ret Hs Hr; cbn [outer].
    - right. eexists. split; [reflexivity|]. apply Forall_rev. exact Hr.
    - destruct (a_lt A t cws).
      + destruct ret as [|last ret']; [left; reflexivity|]. apply IH; [exact Hs|].
        inversion Hr; subst. constructor; assumption.
      + pose proof (take_until_lo len scan cws t Hs) as Ht.
        destruct (take_until A scan cws t len) as [[[lo cached] cws'] rest]. destruct Ht as [Hlo Hrest].
        apply IH; [exact Hrest|]. constructor; [exact Hlo|exact Hr].
  Qed.

  (* site 4 needs an empty `ret`: only the first threshold can reach it *)
  Lemma outer_no_p4 len : forall ths scan cws ret, ret <> [] -> outer A ths scan cws len ret <> Panic 4.
  Proof.
    induction ths as [|t ths IH]; intros scan cws ret Hne; cbn [outer]; [discriminate|].
    destruct (a_lt A t cws).
    - destruct ret as [|last ret']; [contradiction|]. apply IH. discriminate.
    - destruct (take_until A scan cws t len) as [[[lo cached] cws'] rest]. apply IH. discriminate.
  Qed.

  Lemma refine_le : forall rest idx s t, (refine A rest idx s t <= idx + length rest)%nat.
  Proof.
    induction rest as [|w r IH]; intros idx s t; cbn [refine length]; [lia|].
    cbv zeta. destruct (_ || _); [|lia]. specialize (IH (S idx) (a_add A s w) t). lia.
  Qed.

  Lemma csp_core_outcome wl ths bs :
    csp_core A wl ths bs = Panic 4 \/
    exists ps, csp_core A wl ths bs = Ok ps /\ Forall (fun p => (p <= length wl)%nat) ps.
  Proof.
    unfold csp_core.
    destruct (outer_outcome (length wl) ths (blocks_of A bs 0 wl) (a_zero A) []) as [E|[r [E Hr]]].
    - eapply Forall_impl; [|apply blocks_of_fst]. intros e He. cbn beta in He. lia.
    - constructor.
    - left. rewrite E. reflexivity.
    - right. rewrite E. cbn [bind]. eexists. split; [reflexivity|].
      clear E. revert ths. induction Hr as [|[idx sum] r Hidx Hr IH]; intros ths; [constructor|].
      destruct ths as [|t ths]; cbn [combine map]; constructor; [|apply IH].
      cbn [fst] in Hidx. pose proof (refine_le (skipn idx wl) idx sum t) as Hle. rewrite skipn_length in Hle. lia.
  Qed.

  Lemma gather_total_gen (wts : list (num A)) perm :
    Forall (fun i => (i < length wts)%nat) perm ->
    exists wl, gather A wts perm = Ok wl /\ length wl = length perm.
  Proof.
    induction 1 as [|i t Hi Ht [wl [E L]]]; cbn [gather]; [eexists; split; reflexivity|].
    destruct (nth_opt_lt wts i Hi) as [w Ew]. rewrite Ew, E. cbn [bind]. eexists. split; [reflexivity|].
    cbn [length]. congruence.
  Qed.

  Lemma csp_outcome (wts : list (num A)) perm mods bs :
    Forall (fun i => (i < length wts)%nat) perm -> mods <> [] ->
    csp A wts perm mods bs = Panic 4 \/
    exists ps, csp A wts perm mods bs = Ok ps /\ Forall (fun p => (p <= length perm)%nat) ps.
  Proof.
    intros Hin Hne. unfold csp. destruct (split_last mods) as [init|] eqn:Esl.
    2:{ apply split_last_none in Esl. contradiction. }
    destruct (gather_total_gen wts perm Hin) as [wl [E L]]. rewrite E. cbn [bind]. rewrite <- L.
    apply csp_core_outcome.
  Qed.

  (* split_at_mut_many with positions inside the slab: Ok, or the underflow *)
  Lemma split_many_outcome {X} : forall ps (l : list X) d,
    Forall (fun p => (p <= d + length l)%nat) ps ->
    split_many l ps d = Panic 5 \/ exists subs, split_many l ps d = Ok subs.
  Proof.
    induction ps as [|p ps IH]; intros l d H; cbn [split_many]; [right; eauto|].
    inversion H as [|? ? Hp Hps]; subst.
    destruct (Nat.ltb_spec p d); [left; reflexivity|].
    destruct (Nat.ltb_spec (length l) (p - d)); [lia|].
    destruct (IH (skipn (p - d) l) (d + (p - d))%nat) as [E|[rest E]].
    - eapply Forall_impl; [|exact Hps]. intros q Hq. cbn beta in Hq. rewrite skipn_length. lia.
    - left. rewrite E. reflexivity.
    - right. rewrite E. cbn [bind]. eauto.
  Qed.

  (* ---- the recursion ---- *)
  Variable D npts : nat.
  Variable wts : list (num A).
  Variable sorter : nat -> list nat -> list nat.
  Variable blk : list nat -> list nat.
  Hypothesis HD : (1 <= D)%nat.
  Hypothesis Hlen : length wts = npts.
  Hypothesis Hperm : forall a l, Permutation (sorter a l) l.
  Notation mjrec := (mj_rec A D npts wts sorter blk).

  (* a call of compute_split_positions as the recursion makes them: a slab of
     valid indices, the modifiers of a well-formed node *)
  (* a slab: distinct valid indices (the recursion starts from 0..n-1 and only permutes and splits) *)
  Definition slab (perm : list nat) : Prop := NoDup perm /\ Forall (fun i => (i < npts)%nat) perm.

  Definition node_call (perm : list nat) (mods : list (num A)) : Prop :=
    slab perm /\
    exists cparts parts, cparts <> [] /\ Forall (fun cp => 1 <= cp) cparts /\ parts = sumN cparts /\ parts < 2 ^ 60 /\
                         mods = map (fun cp => a_div A (a_ofN A cp) (a_ofN A parts)) cparts.

  (* what a result tells: Ok; or site 4 / site 5 together with the call of
     compute_split_positions that caused it *)
  Definition outcome {X} (r : res X) : Prop :=
    match r with
    | Ok _ => True
    | Panic s =>
        (s = 4 /\ exists perm mods, node_call perm mods /\ csp A wts perm mods (blk perm) = Panic 4) \/
        (s = 5 /\ exists perm mods pos, node_call perm mods /\ csp A wts perm mods (blk perm) = Ok pos /\
                                       ~ StronglySorted le pos)
    | _ => False
    end.

  Definition outcome_spec (sch : scheme (num A)) : Prop :=
    forall parts d, WfScheme A sch parts d -> parts < 2 ^ 60 ->
    forall a perm, slab perm -> outcome (mjrec sch a perm).

  Lemma go_ch_outcome a' : forall chs cparts d subs,
    Forall outcome_spec chs ->
    Forall2 (fun c cp => WfScheme A c cp d /\ 1 <= cp) chs cparts ->
    Forall (fun cp => cp < 2 ^ 60) cparts ->
    Forall slab subs ->
    outcome (go_ch A D (fun c s => mjrec c a' s) subs chs).
  Proof.
    induction chs as [|c chs IH]; intros cparts d subs HP HW Hbd Hs.
    - destruct subs; exact I.
    - destruct subs as [|s subs]; cbn [go_ch]; [exact I|].
      destruct (Nat.eqb_spec D 0); [lia|].
      inversion HP as [|? ? Pc Pt]; subst. inversion HW as [|? cp ? cps [Wc _] Wt]; subst.
      inversion Hs as [|? ? Hs1 Hs2]; subst. inversion Hbd as [|? ? Hb1 Hb2]; subst.
      pose proof (Pc cp d Wc Hb1 a' s Hs1) as O1.
      destruct (mjrec c a' s) as [l1| | |]; cbn [bind]; try exact O1.
      pose proof (IH cps d subs Pt Wt Hb2 Hs2) as O2.
      destruct (go_ch A D (fun c0 s0 => mjrec c0 a' s0) subs chs); cbn [bind]; exact O2.
  Qed.

  Lemma mj_rec_outcome : forall sch, outcome_spec sch.
  Proof.
    induction sch as [ns mods next IH] using scheme_ind2. intros parts d W Hpb a perm [Hnd Hin].
    rewrite mj_rec_eq.
    inversion W as [mods' next' d'|ns' mods' children parts' d' cparts Hns Hlc HF Hsum Hmods]; subst.
    - change (0 =? 0) with true. cbv iota. exact I.
    - destruct (N.eqb_spec ns 0) as [?|_]; [contradiction|].
      assert (Hfb : forallb (fun i => Nat.ltb i npts) perm = true).
      { apply forallb_forall. rewrite Forall_forall in Hin. intros x Hx. apply Nat.ltb_lt. apply Hin; exact Hx. }
      rewrite Hfb, andb_false_r. cbv zeta.
      set (sorted := sorter a perm).
      assert (Hsin : Forall (fun i => (i < npts)%nat) sorted).
      { eapply Permutation_Forall; [apply Permutation_sym; apply Hperm|exact Hin]. }
      set (mods := map (fun cp => a_div A (a_ofN A cp) (a_ofN A (sumN cparts))) cparts).
      assert (Hcne : cparts <> []).
      { intros ->. apply Forall2_len in HF. cbn [length] in HF. lia. }
      assert (Hsnd : NoDup sorted).
      { eapply Permutation_NoDup; [apply Permutation_sym; apply Hperm|exact Hnd]. }
      assert (Hcall : node_call sorted mods).
      { split; [split; assumption|]. exists cparts, (sumN cparts). split; [exact Hcne|].
        split; [|split; [reflexivity|split; [exact Hpb|reflexivity]]].
        clear - HF. induction HF as [|? ? ? ? [_ H1] _ IHF]; constructor; assumption. }
      assert (Hcb : Forall (fun cp => cp < 2 ^ 60) cparts).
      { rewrite Forall_forall. intros cp Hcp. apply N.le_lt_trans with (2 := Hpb).
        clear - Hcp. induction cparts as [|x t IHt]; [destruct Hcp|]. cbn [sumN fold_right]. fold (sumN t).
        destruct Hcp as [<-|Hcp]; [lia|]. specialize (IHt Hcp). lia. }
      assert (Hmne : mods <> []) by (unfold mods; destruct cparts; [contradiction|discriminate]).
      destruct (csp_outcome wts sorted mods (blk sorted) ltac:(rewrite Hlen; exact Hsin) Hmne) as [E|[ps [E Hps]]].
      + rewrite E. cbn [bind outcome]. left. split; [reflexivity|]. exists sorted, mods. split; assumption.
      + rewrite E. cbn [bind].
        destruct (split_many_outcome ps sorted 0%nat Hps) as [E5|[subs Es]].
        * rewrite E5. cbn [bind outcome]. right. split; [reflexivity|]. exists sorted, mods, ps.
          split; [exact Hcall|]. split; [exact E|]. intros Hsorted.
          destruct (split_many_total ps sorted 0%nat Hsorted) as [subs Es].
          { rewrite Forall_forall in *. intros p Hp. specialize (Hps p Hp). lia. }
          congruence.
        * rewrite Es. cbn [bind]. apply split_many_ok in Es as [Hcat _].
          eapply (go_ch_outcome _ children cparts d' subs (IH children eq_refl) HF Hcb).
          rewrite Forall_forall. intros s Hs. split.
          { eapply NoDup_concat_In; [|exact Hs]. rewrite Hcat. exact Hsnd. }
          rewrite Forall_forall in *. intros x Hx.
          apply Hsin. rewrite <- Hcat. eapply in_concat_of; eassumption.
  Qed.
End Outcome.

(* ---------------------------------------------------------------- top level *)

(* the float facts behind the two remaining sites, as properties of the calls
   of compute_split_positions the recursion makes *)
Definition first_threshold_not_below_zero (A : arith) npts (wts : list (num A)) (blk : list nat -> list nat) : Prop :=
  forall perm mods, node_call A npts perm mods -> csp A wts perm mods (blk perm) <> Panic 4.
Definition mono_cuts (A : arith) npts (wts : list (num A)) (blk : list nat -> list nat) : Prop :=
  forall perm mods pos, node_call A npts perm mods -> csp A wts perm mods (blk perm) = Ok pos -> StronglySorted le pos.

Section TopOutcome.
  Variable A : arith.
  Variable D npts : nat.
  Variable wts : list (num A).
  Variable sorter : nat -> list nat -> list nat.
  Variable blk : list nat -> list nat.
  Variable cxlt : nat -> nat -> nat -> bool.
  Variable root : N -> nat -> N.
  Variable ord : nat -> N.
  Variable k : N.
  Variable m : nat.
  Variable p0 : list N.
  Hypothesis Hr : root_ok root.
  Hypothesis Hs : sorter_ok sorter cxlt.
  Hypothesis Hk : 1 <= k.
  Hypothesis Hb : k < 2 ^ 60.
  Hypothesis Hm : (1 <= m)%nat.
  Hypothesis HD : (1 <= D)%nat.
  Hypothesis Hlw : length wts = npts.
  Hypothesis Hlp : length p0 = npts.

  (* for every arithmetic: Ok, or site 4, or site 5 — nothing else *)
  Theorem mj_outcome : outcome A npts wts blk (multi_jagged A D npts wts sorter blk root ord k m p0).
  Proof.
    unfold multi_jagged.
    destruct (mj_leaf_count A root k m Hr Hk Hb Hm) as [sch [E [L W]]]. rewrite E. cbn [bind].
    unfold mj_with_scheme.
    pose proof (mj_rec_outcome A D npts wts sorter blk HD Hlw (fun a l => proj1 (Hs a l)) sch k m W Hb 0%nat (seq 0 npts)) as O.
    assert (Hseq : slab npts (seq 0 npts)).
    { split; [apply seq_NoDup|]. rewrite Forall_forall. intros x Hx. apply in_seq in Hx. lia. }
    specialize (O Hseq).
    destruct (mj_rec A D npts wts sorter blk sch 0 (seq 0 npts)) as [lvs| | |] eqn:El; cbn [bind]; try exact O.
    destruct (mj_rec_spec A D npts wts sorter blk cxlt (fun _ => 0) Hs sch k m W 0%nat (seq 0 npts) lvs El) as [_ [Q _]].
    destruct (write_leaves_ok ord lvs 0%nat p0) as [p Ep].
    { rewrite Forall_forall. intros x Hx. eapply Permutation_in in Hx; [|exact Q]. apply in_seq in Hx. lia. }
    rewrite Ep. exact I.
  Qed.

  Corollary mj_panic_sites s :
    multi_jagged A D npts wts sorter blk root ord k m p0 = Panic s -> s = 4 \/ s = 5.
  Proof.
    intros E. pose proof mj_outcome as O. rewrite E in O. cbn [outcome] in O.
    destruct O as [[-> _]|[-> _]]; auto.
  Qed.

  (* under the two named facts the model returns *)
  Theorem mj_total_of_facts :
    first_threshold_not_below_zero A npts wts blk -> mono_cuts A npts wts blk ->
    exists p, multi_jagged A D npts wts sorter blk root ord k m p0 = Ok p.
  Proof.
    intros F4 F5. pose proof mj_outcome as O.
    destruct (multi_jagged A D npts wts sorter blk root ord k m p0) as [p|e|s|]; cbn [outcome] in O; try contradiction.
    - eauto.
    - exfalso. destruct O as [[_ [perm [mods [Hc E]]]]|[_ [perm [mods [pos [Hc [E Hn]]]]]]].
      + exact (F4 perm mods Hc E).
      + exact (Hn (F5 perm mods pos Hc E)).
  Qed.
End TopOutcome.

(* ------------------------------------------- binary64: site 4 is unreachable *)

(* not negative: NaN, zeros of either sign, positive finite, +infinity *)
Definition notneg (x : spec_float) : Prop :=
  match x with
  | S754_finite true _ _ | S754_infinity true => False
  | _ => True
  end.

Lemma notneg_round_aux prec emax mx ex lx : notneg (binary_round_aux prec emax false mx ex lx).
Proof.
  unfold binary_round_aux. destruct (shr_fexp prec emax mx ex lx) as [mrs e'].
  destruct (shr_fexp prec emax _ e' loc_Exact) as [mrs' e''].
  destruct (shr_m mrs'); [exact I| |exact I]. destruct (Zle_bool e'' (emax - prec)); exact I.
Qed.

Lemma notneg_round prec emax m e : notneg (binary_round prec emax false m e).
Proof. unfold binary_round. destruct (shl_align _ _ _). apply notneg_round_aux. Qed.

Lemma notneg_normalize_pos prec emax z e s : (0 <= z)%Z -> notneg (binary_normalize prec emax z e s) \/ z = 0%Z.
Proof.
  intros H. destruct z as [|p|p]; [right; reflexivity| |lia]. left. cbn [binary_normalize]. apply notneg_round.
Qed.

Ltac kill_neg := repeat match goal with
  | H : notneg (S754_finite true _ _) |- _ => destruct H
  | H : notneg (S754_infinity true) |- _ => destruct H
  | s : bool |- _ => destruct s
  end.

Lemma notneg_add prec emax x y : notneg x -> notneg y -> notneg (SFadd prec emax x y).
Proof.
  destruct x as [sx|sx| |sx mx ex], y as [sy|sy| |sy my ey]; intros Hx Hy; kill_neg;
    cbn [SFadd notneg Bool.eqb]; try exact I.
  cbv zeta. cbn [cond_Zopp].
  match goal with |- notneg (binary_normalize _ _ ?z _ _) => assert (Hz : (0 < z)%Z) by lia; destruct z; try lia end.
  cbn [binary_normalize]. apply notneg_round.
Qed.

Lemma notneg_mul prec emax x y : notneg x -> notneg y -> notneg (SFmul prec emax x y).
Proof.
  destruct x as [sx|sx| |sx mx ex], y as [sy|sy| |sy my ey]; intros Hx Hy; kill_neg;
    cbn [SFmul notneg xorb]; try exact I.
  apply notneg_round_aux.
Qed.

(* no negative sign at all (not even -0): what `n as f64` yields *)
Definition nosign (x : spec_float) : Prop :=
  match x with
  | S754_zero true | S754_finite true _ _ | S754_infinity true => False
  | _ => True
  end.

Ltac kill_sign := repeat match goal with
  | H : nosign (S754_finite true _ _) |- _ => destruct H
  | H : nosign (S754_infinity true) |- _ => destruct H
  | H : nosign (S754_zero true) |- _ => destruct H
  | s : bool |- _ => destruct s
  end.

Lemma nosign_ofN n : nosign (f64_of_Z (Z.of_N n)).
Proof.
  unfold of_Z. destruct (Z.of_N n) as [|p|p] eqn:E; [exact I| |lia].
  cbn [binary_normalize]. unfold binary_round. destruct (shl_align _ _ _).
  unfold binary_round_aux. destruct (shr_fexp 53 1024 _ _ _) as [mrs e'].
  destruct (shr_fexp 53 1024 _ e' loc_Exact) as [mrs' e''].
  destruct (shr_m mrs'); [exact I| |exact I]. destruct (Zle_bool e'' (1024 - 53)); exact I.
Qed.

Lemma notneg_div prec emax x y : nosign x -> nosign y -> notneg (SFdiv prec emax x y).
Proof.
  destruct x as [sx|sx| |sx mx ex], y as [sy|sy| |sy my ey]; intros Hx Hy; kill_sign;
    cbn [SFdiv notneg xorb]; try exact I.
  destruct (SFdiv_core_binary _ _ _ _ _ _) as [[mz ez] lz]. apply notneg_round_aux.
Qed.

Lemma notneg_not_below_zero t : notneg t -> flt t (f64_of_Z 0) = false.
Proof.
  destruct t as [s|s| |s mt et]; cbn [notneg]; intros H; try reflexivity.
  - destruct s; [contradiction|reflexivity].
  - destruct s; [contradiction|reflexivity].
Qed.

Lemma gather_panic_site (A : arith) (wts : list (num A)) perm s : gather A wts perm = Panic s -> s = 1.
Proof.
  induction perm as [|i t IH]; cbn [gather]; intros H; [discriminate|].
  destruct (nth_opt wts i); [|inversion H; reflexivity].
  destruct (gather A wts t); cbn [bind] in H; try discriminate. inversion H; subst. apply IH. reflexivity.
Qed.

Section F64Site4.
  Variable eps : spec_float.
  Notation F := (F64eps eps).

  Lemma notneg_fold l : Forall notneg l -> forall a, notneg a -> notneg (fold_left (a_add F) l a).
  Proof.
    induction 1 as [|x t Hx Ht IH]; intros a Ha; cbn [fold_left]; [exact Ha|].
    apply IH. cbn [a_add F64eps]. apply notneg_add; assumption.
  Qed.

  Lemma gather_notneg wts perm wl : Forall notneg wts -> gather F wts perm = Ok wl -> Forall notneg wl.
  Proof.
    intros Hw. revert wl. induction perm as [|i t IH]; intros wl H; cbn [gather] in H.
    - inversion H; constructor.
    - destr_match_in H E; [|discriminate]. apply bind_ok in H as [r [Hr H]]. inversion H; subst.
      constructor; [|apply IH; exact Hr]. rewrite Forall_forall in Hw. apply Hw. eapply nth_opt_In; exact E.
  Qed.

  (* the first threshold 0 + total * modifier is never below the zero running sum *)
  Lemma f64_first_threshold npts wts blk :
    Forall notneg wts -> first_threshold_not_below_zero F npts wts blk.
  Proof.
    intros Hw perm mods [_ [cparts [parts [Hne [_ [_ [_ ->]]]]]]] E. unfold csp in E.
    destr_match_in E Esl; [|discriminate]. rename l into init.
    match type of E with bind ?g _ = _ => destruct g as [wl| |site|] eqn:Eg end; cbn [bind] in E; try discriminate.
    2:{ apply gather_panic_site in Eg. subst site. discriminate. }
    pose proof (gather_notneg wts perm wl Hw Eg) as Hwl.
    unfold csp_core in E.
    match type of E with bind ?o _ = _ => destruct o as [r| |s|] eqn:Eo end; cbn [bind] in E; try discriminate.
    inversion E; subst s. clear E.
    destruct init as [|m1 init]; [cbn [thresholds outer] in Eo; discriminate|].
    assert (Hm1 : notneg m1).
    { destruct (split_last_app _ _ Esl) as [z Ez].
      assert (Hin : In m1 (map (fun cp => a_div F (a_ofN F cp) (a_ofN F parts)) cparts)).
      { rewrite Ez. left. reflexivity. }
      apply in_map_iff in Hin as [cp [<- _]]. cbn [a_div a_ofN F64eps]. apply notneg_div; apply nosign_ofN. }
    cbn [thresholds] in Eo. cbv zeta in Eo. cbn [outer] in Eo.
    assert (Ht : a_lt F (a_add F (a_zero F) (a_mul F (sum_list F wl) m1)) (a_zero F) = false).
    { cbn [a_lt a_add a_mul a_zero F64eps]. apply notneg_not_below_zero. apply notneg_add; [exact I|].
      apply notneg_mul; [|exact Hm1]. unfold sum_list. apply notneg_fold; [exact Hwl|exact I]. }
    rewrite Ht in Eo.
    destruct (take_until F _ _ _ _) as [[[lo cached] cws'] rest].
    revert Eo. apply outer_no_p4. discriminate.
  Qed.
End F64Site4.

(* binary64 (either epsilon): no panic as soon as the cuts of every call are non-decreasing *)
Theorem mj_f64_total_of_monotone_cuts eps D npts wts sorter blk cxlt root ord (k : N) (m : nat) p0 :
  root_ok root -> sorter_ok sorter cxlt -> 1 <= k -> k < 2 ^ 60 -> (1 <= m)%nat -> (1 <= D)%nat ->
  length wts = npts -> length p0 = npts -> Forall notneg wts ->
  mono_cuts (F64eps eps) npts wts blk ->
  exists p, multi_jagged (F64eps eps) D npts wts sorter blk root ord k m p0 = Ok p.
Proof.
  intros Hr Hs Hk Hb Hm HD Hlw Hlp Hw Hmono.
  exact (mj_total_of_facts (F64eps eps) D npts wts sorter blk cxlt root ord k m p0 Hr Hs Hk Hb Hm HD Hlw Hlp
           (f64_first_threshold eps npts wts blk Hw) Hmono).
Qed.

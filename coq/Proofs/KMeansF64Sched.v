(* binary64: schedule independence of the concrete k-means model, all premises
   of Proofs/KMeansSched.v discharged ([sum_ok_f64]: integers whose absolute
   values add up to at most 2^53; [val_ok_f64]: neither NaN nor -0.0). *)
From Coupe Require Import Lib.Prelude Lib.SFloat Lib.Rayon Model.KMeansAbs Model.KMeans
  Proofs.KMeansSched Proofs.KMeansOrder Proofs.KMeansF64Sum.
From Coq Require Import Floats.SpecFloat.

Section F64Sched.
  Variables (lg : spec_float -> spec_float -> spec_float) (ex : spec_float -> spec_float).
  Variables fmax_bits fmin_bits eps_bits step_bits : N.
  Let A := F64km lg ex fmax_bits fmin_bits eps_bits step_bits.
  Hypothesis fmax_ok : val_ok_f64 (f64_of_bits fmax_bits) = true.
  Hypothesis fmin_ok : val_ok_f64 (f64_of_bits fmin_bits) = true.

  (* a checked run (any trees) that raises no flag is the run of EVERY family of split trees *)
  Theorem kmeans_f64_chk_sched_indep : forall T1 T2 P rot D cfg points weights part r,
    kmeans A (reds_chk A sum_ok_f64 val_ok_f64 cmp_ok_f64 T1 P) rot D cfg points weights part = r ->
    r <> Panic 99 ->
    kmeans A (reds_tree A T2 P) rot D cfg points weights part = r.
  Proof.
    apply kmeans_chk_sched_indep.
    - apply sums_exact_f64.
    - apply vsums_exact_f64.
    - apply max_decided_f64.
    - apply min_decided_f64.
    - apply bbox_decided_f64; assumption.
  Qed.

  Theorem kmeans_f64_sched_indep : forall T0 T1 T2 P rot D cfg points weights part,
    kmeans A (reds_chk A sum_ok_f64 val_ok_f64 cmp_ok_f64 T0 P) rot D cfg points weights part <> Panic 99 ->
    kmeans A (reds_tree A T1 P) rot D cfg points weights part =
    kmeans A (reds_tree A T2 P) rot D cfg points weights part.
  Proof.
    apply kmeans_sched_indep.
    - apply sums_exact_f64.
    - apply vsums_exact_f64.
    - apply max_decided_f64.
    - apply min_decided_f64.
    - apply bbox_decided_f64; assumption.
  Qed.
End F64Sched.

(* Rust's `<` and `<=` on floats (SFltb / SFleb) restricted to non-NaN values:
   a strict weak order (irreflexive, transitive, negatively transitive) and
   its complement.  No canonicity assumption is needed: SFcompare compares
   (sign, exponent, mantissa) lexicographically. *)
From Coupe Require Import Lib.Prelude Lib.SFloat.
From Coq Require Import Floats.SpecFloat.
Open Scope Z_scope.

Definition key (x : spec_float) : Z * Z * Z :=
  match x with
  | S754_nan => (9, 0, 0)
  | S754_infinity true => (0, 0, 0)
  | S754_finite true m e => (1, - e, - Zpos m)
  | S754_zero _ => (2, 0, 0)
  | S754_finite false m e => (3, e, Zpos m)
  | S754_infinity false => (4, 0, 0)
  end.

Definition lexlt (a b : Z * Z * Z) : Prop :=
  let '(a1, a2, a3) := a in let '(b1, b2, b3) := b in
  a1 < b1 \/ (a1 = b1 /\ (a2 < b2 \/ (a2 = b2 /\ a3 < b3))).

Lemma Pcompare_Eq m1 m2 : Pos.compare_cont Eq m1 m2 = Pos.compare m1 m2.
Proof. reflexivity. Qed.

Ltac fin :=
  split; intros H;
  first [ discriminate H | reflexivity | lia | (exfalso; apply H; lia) | (exfalso; lia) ].

Lemma flt_key x y : is_nan x = false -> is_nan y = false ->
  (flt x y = true <-> lexlt (key x) (key y)).
Proof.
  intros Hx Hy. unfold flt, SFltb, SFcompare, lexlt.
  destruct x as [sx|sx| |sx mx ex]; try discriminate Hx;
  destruct y as [sy|sy| |sy my ey]; try discriminate Hy;
    try destruct sx; try destruct sy; cbn [key]; try fin.
  - destruct (Z.compare_spec ex ey) as [He|He|He]; try fin.
    subst. rewrite Pos.compare_cont_spec. cbn [Pos.switch_Eq].
    destruct (Pos.compare_spec mx my) as [Hm|Hm|Hm]; cbn [CompOpp]; try subst; fin.
  - destruct (Z.compare_spec ex ey) as [He|He|He]; try fin.
    subst. rewrite Pos.compare_cont_spec. cbn [Pos.switch_Eq].
    destruct (Pos.compare_spec mx my) as [Hm|Hm|Hm]; try subst; fin.
Qed.

Lemma fle_key x y : is_nan x = false -> is_nan y = false ->
  (fle x y = true <-> ~ lexlt (key y) (key x)).
Proof.
  intros Hx Hy. unfold fle, SFleb, SFcompare, lexlt.
  destruct x as [sx|sx| |sx mx ex]; try discriminate Hx;
  destruct y as [sy|sy| |sy my ey]; try discriminate Hy;
    try destruct sx; try destruct sy; cbn [key]; try fin.
  - destruct (Z.compare_spec ex ey) as [He|He|He]; try fin.
    subst. rewrite Pos.compare_cont_spec. cbn [Pos.switch_Eq].
    destruct (Pos.compare_spec mx my) as [Hm|Hm|Hm]; cbn [CompOpp]; try subst; fin.
  - destruct (Z.compare_spec ex ey) as [He|He|He]; try fin.
    subst. rewrite Pos.compare_cont_spec. cbn [Pos.switch_Eq].
    destruct (Pos.compare_spec mx my) as [Hm|Hm|Hm]; try subst; fin.
Qed.

Lemma lexlt_irrefl a : ~ lexlt a a.
Proof. destruct a as [[a1 a2] a3]. unfold lexlt. lia. Qed.
Lemma lexlt_trans a b c : lexlt a b -> lexlt b c -> lexlt a c.
Proof. destruct a as [[a1 a2] a3], b as [[b1 b2] b3], c as [[c1 c2] c3]. unfold lexlt. lia. Qed.
Lemma lexlt_negtrans a b c : lexlt a b -> lexlt a c \/ lexlt c b.
Proof. destruct a as [[a1 a2] a3], b as [[b1 b2] b3], c as [[c1 c2] c3]. unfold lexlt. lia. Qed.
Lemma lexlt_total a b : lexlt a b \/ lexlt b a \/ a = b.
Proof.
  destruct a as [[a1 a2] a3], b as [[b1 b2] b3]. unfold lexlt.
  destruct (Z.lt_total a1 b1) as [H|[H|H]]; [lia| |lia].
  destruct (Z.lt_total a2 b2) as [H2|[H2|H2]]; [lia| |lia].
  destruct (Z.lt_total a3 b3) as [H3|[H3|H3]]; [lia| |lia].
  right; right. congruence.
Qed.

Definition f32v (x : spec_float) : bool := negb (is_nan x).

Lemma flt_irrefl x : f32v x = true -> flt x x = false.
Proof.
  unfold f32v. intros H. apply negb_true_iff in H.
  destruct (flt x x) eqn:E; [|reflexivity].
  apply (flt_key x x H H) in E. exfalso. exact (lexlt_irrefl _ E).
Qed.

Lemma flt_negtrans x y z : f32v x = true -> f32v y = true -> f32v z = true ->
  flt x y = true -> flt x z = true \/ flt z y = true.
Proof.
  unfold f32v. intros Hx Hy Hz H. apply negb_true_iff in Hx, Hy, Hz.
  apply (flt_key x y Hx Hy) in H.
  destruct (lexlt_negtrans _ _ (key z) H) as [A|A]; [left|right].
  - apply (flt_key x z Hx Hz); exact A.
  - apply (flt_key z y Hz Hy); exact A.
Qed.

Lemma flt_trans x y z : f32v x = true -> f32v y = true -> f32v z = true ->
  flt x y = true -> flt y z = true -> flt x z = true.
Proof.
  unfold f32v. intros Hx Hy Hz H1 H2. apply negb_true_iff in Hx, Hy, Hz.
  apply (flt_key x z Hx Hz). eapply lexlt_trans; [apply (flt_key x y Hx Hy); exact H1|apply (flt_key y z Hy Hz); exact H2].
Qed.

Lemma fle_flt x y : f32v x = true -> f32v y = true -> fle x y = negb (flt y x).
Proof.
  unfold f32v. intros Hx Hy. apply negb_true_iff in Hx, Hy.
  destruct (flt y x) eqn:E; cbn [negb].
  - apply (flt_key y x Hy Hx) in E. destruct (fle x y) eqn:F; [|reflexivity].
    apply (fle_key x y Hx Hy) in F. contradiction.
  - apply (fle_key x y Hx Hy). intros A. apply (flt_key y x Hy Hx) in A. congruence.
Qed.

(* Every part of a bisection tree is an axis-aligned box: for a tree accepted
   by TreeOK, the cells of the root box that part_of maps to a given id are
   exactly the cells of one sub-box (possibly empty). *)
From Coupe Require Import Lib.Prelude Lib.SFloat Model.GridRcb Proofs.GridRcbMedian Proofs.GridRcbTree.
Open Scope nat_scope.

Lemma in_box_nth sub : forall pos c off size, in_box sub pos -> nth_opt sub c = Some (off, size) ->
  exists x, nth_opt pos c = Some x /\ off <= x < off + size.
Proof.
  unfold in_box. intros pos c off size H. revert c.
  induction H as [|[o n] x sub' pos' Hh Ht IH]; intros c Hc; [destruct c; discriminate|].
  destruct c as [|c]; cbn [nth_opt] in *.
  - injection Hc as -> ->. cbn [fst snd] in Hh. eauto.
  - apply IH. exact Hc.
Qed.

Lemma in_box_split sub : forall c off size p pos,
  nth_opt sub c = Some (off, size) -> off <= p <= off + size ->
  (in_box (set_nth sub c (off, p - off)) pos <->
     in_box sub pos /\ exists x, nth_opt pos c = Some x /\ x < p) /\
  (in_box (set_nth sub c (p, size - (p - off))) pos <->
     in_box sub pos /\ exists x, nth_opt pos c = Some x /\ p <= x).
Proof.
  unfold in_box. induction sub as [|[o n] sub' IH]; intros c off size p pos Hc Hp; [destruct c; discriminate|].
  destruct c as [|c]; cbn [nth_opt set_nth] in *.
  - injection Hc as -> ->. split; split.
    + intros H. inversion H as [|? x ? ps Hh Ht]; subst. cbn [fst snd] in Hh. split.
      * constructor; auto. cbn [fst snd]. lia.
      * exists x. cbn [nth_opt]. split; auto. lia.
    + intros (H & x & Hx & Hlt). inversion H as [|? y ? ps Hh Ht]; subst. cbn [nth_opt] in Hx.
      injection Hx as ->. cbn [fst snd] in Hh. constructor; auto. cbn [fst snd]. lia.
    + intros H. inversion H as [|? x ? ps Hh Ht]; subst. cbn [fst snd] in Hh. split.
      * constructor; auto. cbn [fst snd]. lia.
      * exists x. cbn [nth_opt]. split; auto. lia.
    + intros (H & x & Hx & Hlt). inversion H as [|? y ? ps Hh Ht]; subst. cbn [nth_opt] in Hx.
      injection Hx as ->. cbn [fst snd] in Hh. constructor; auto. cbn [fst snd]. lia.
  - split; split.
    + intros H. inversion H as [|? x ? ps Hh Ht]; subst.
      apply (proj1 (IH c off size p ps Hc Hp)) in Ht as (Ht & y & Hy & Hlt).
      split; [constructor; auto|]. exists y. cbn [nth_opt]. auto.
    + intros (H & y & Hy & Hlt). inversion H as [|? x ? ps Hh Ht]; subst. cbn [nth_opt] in Hy.
      constructor; auto. apply (proj1 (IH c off size p ps Hc Hp)). eauto.
    + intros H. inversion H as [|? x ? ps Hh Ht]; subst.
      apply (proj2 (IH c off size p ps Hc Hp)) in Ht as (Ht & y & Hy & Hlt).
      split; [constructor; auto|]. exists y. cbn [nth_opt]. auto.
    + intros (H & y & Hy & Hlt). inversion H as [|? x ? ps Hh Ht]; subst. cbn [nth_opt] in Hy.
      constructor; auto. apply (proj2 (IH c off size p ps Hc Hp)). eauto.
Qed.

(* for a cell of the box the id is a full-depth path code *)
Lemma part_of_range_in D f bal k c sub t : TreeOK D f bal k c sub t ->
  forall pos id q, in_box sub pos -> part_of D t pos c id = Ok q ->
  (id * 2 ^ N.of_nat k <= q < (id + 1) * 2 ^ N.of_nat k)%N.
Proof.
  induction 1 as [c sub|d c sub off Hn|d c sub off size p l r Hn Hsz Hp Hb Hl IHl Hr IHr];
    intros pos id q Hin Hq; cbn [part_of] in Hq.
  - injection Hq as <-. cbn. lia.
  - destruct (in_box_nth _ _ _ _ _ Hin Hn) as (x & _ & Hx). lia.
  - rewrite Nat2N.inj_succ, N.pow_succ_r'.
    destruct (in_box_nth _ _ _ _ _ Hin Hn) as (x & Hx & Hxr). rewrite Hx in Hq.
    destruct (in_box_split sub c off size p pos Hn ltac:(lia)) as (HL & HR).
    destruct (Nat.ltb_spec x p) as [Hlt|Hge].
    + apply IHl in Hq; [nia|]. apply HL. eauto.
    + apply IHr in Hq; [nia|]. apply HR. eauto.
Qed.

Definition empty_box (sub : subgrid) : subgrid := map (fun _ => (0, 0)) sub.

Lemma in_empty_box sub pos : sub <> [] -> ~ in_box (empty_box sub) pos.
Proof.
  intros Hne H. destruct sub as [|os sub']; [congruence|].
  unfold in_box, empty_box in H. cbn [map] in H. inversion H as [|? x ? ps Hh Ht]; subst.
  cbn [fst snd] in Hh. lia.
Qed.

Theorem parts_are_boxes D f bal k c sub t : TreeOK D f bal k c sub t -> sub <> [] ->
  forall id q, exists box,
    (forall pos, in_box box pos -> in_box sub pos) /\
    (forall pos, in_box sub pos -> (part_of D t pos c id = Ok q <-> in_box box pos)).
Proof.
  induction 1 as [c sub|d c sub off Hn|d c sub off size p l r Hn Hsz Hp Hb Hl IHl Hr IHr];
    intros Hne id q.
  - (* depth 0: the whole box has the id of the path *)
    destruct (N.eq_dec q id) as [->|Hd].
    + exists sub. split; auto. intros pos Hin. cbn [part_of]. tauto.
    + exists (empty_box sub). split.
      * intros pos H. exfalso. eapply in_empty_box; eauto.
      * intros pos Hin. cbn [part_of]. split; [intros E; injection E as E; congruence|].
        intros H. exfalso. eapply in_empty_box; eauto.
  - (* empty box *)
    exists sub. split; auto. intros pos Hin.
    destruct (in_box_nth _ _ _ _ _ Hin Hn) as (x & _ & Hx). lia.
  - assert (HneL : set_nth sub c (off, p - off) <> []).
    { intros E. apply (f_equal (@length _)) in E. rewrite set_nth_length in E. destruct sub; [congruence|discriminate]. }
    assert (HneR : set_nth sub c (p, size - (p - off)) <> []).
    { intros E. apply (f_equal (@length _)) in E. rewrite set_nth_length in E. destruct sub; [congruence|discriminate]. }
    destruct (IHl HneL (2 * id)%N q) as (boxL & HLsub & HLiff).
    destruct (IHr HneR (2 * id + 1)%N q) as (boxR & HRsub & HRiff).
    assert (Hsplit := fun pos => in_box_split sub c off size p pos Hn ltac:(lia)).
    destruct (N.ltb_spec q ((2 * id + 1) * 2 ^ N.of_nat d)) as [Hq|Hq].
    + exists boxL. split.
      * intros pos H. apply HLsub in H. apply (proj1 (Hsplit pos)) in H. tauto.
      * intros pos Hin. destruct (in_box_nth _ _ _ _ _ Hin Hn) as (x & Hx & Hxr).
        cbn [part_of]. rewrite Hx.
        destruct (Nat.ltb_spec x p) as [Hlt|Hge].
        -- apply HLiff. apply (proj1 (Hsplit pos)). eauto.
        -- split.
           ++ intros E. exfalso.
              apply (part_of_range_in _ _ _ _ _ _ _ Hr) in E; [lia|].
              apply (proj2 (Hsplit pos)). eauto.
           ++ intros H. exfalso. apply HLsub in H. apply (proj1 (Hsplit pos)) in H as (_ & y & Hy & Hlt).
              rewrite Hx in Hy. injection Hy as <-. lia.
    + exists boxR. split.
      * intros pos H. apply HRsub in H. apply (proj2 (Hsplit pos)) in H. tauto.
      * intros pos Hin. destruct (in_box_nth _ _ _ _ _ Hin Hn) as (x & Hx & Hxr).
        cbn [part_of]. rewrite Hx.
        destruct (Nat.ltb_spec x p) as [Hlt|Hge].
        -- split.
           ++ intros E. exfalso.
              apply (part_of_range_in _ _ _ _ _ _ _ Hl) in E; [lia|].
              apply (proj1 (Hsplit pos)). eauto.
           ++ intros H. exfalso. apply HRsub in H. apply (proj2 (Hsplit pos)) in H as (_ & y & Hy & Hle).
              rewrite Hx in Hy. injection Hy as <-. lia.
        -- apply HRiff. apply (proj2 (Hsplit pos)). eauto.
Qed.

(* Proofs about Model/Formats.v: codecs, partition file and weight file
   round trips (C19). *)
From Coupe Require Import Lib.Prelude Gen.FormatsGen Model.Formats.
Open Scope N_scope.

(* ---- codecs ---- *)

Lemma le_enc_length n x : length (le_enc n x) = n.
Proof. revert x; induction n as [|k IH]; intros x; cbn [le_enc length]; auto. Qed.

Lemma land255 x : N.land x 255 = x mod 256.
Proof. change 255 with (N.ones 8). rewrite N.land_ones. reflexivity. Qed.
Lemma shiftr8 x : N.shiftr x 8 = x / 256.
Proof. rewrite N.shiftr_div_pow2. reflexivity. Qed.
Lemma to_bits_mod w z : to_bits w z = Z.to_N (z mod 2 ^ Z.of_N w).
Proof. unfold to_bits. rewrite Z.land_ones by apply N2Z.is_nonneg. reflexivity. Qed.

Lemma le_dec_enc n x : le_dec (le_enc n x) = x mod 256 ^ N.of_nat n.
Proof.
  revert x; induction n as [|k IH]; intros x.
  - cbn [le_enc le_dec]. change (256 ^ N.of_nat 0) with 1. now rewrite N.mod_1_r.
  - cbn [le_enc le_dec]. rewrite IH, land255, shiftr8.
    rewrite Nat2N.inj_succ, N.pow_succ_r'.
    rewrite N.mod_mul_r by (try apply N.pow_nonzero; discriminate). reflexivity.
Qed.

Lemma le_dec_enc8 x : x < 2 ^ 64 -> le_dec (le_enc 8 x) = x.
Proof.
  intros Hx. rewrite le_dec_enc. change (256 ^ N.of_nat 8) with (2 ^ 64).
  now apply N.mod_small.
Qed.

Lemma le_enc_byte n x : Forall (fun b => b < 256) (le_enc n x).
Proof.
  revert x; induction n as [|k IH]; intros x; cbn [le_enc]; constructor; auto.
  rewrite land255. apply N.mod_lt. discriminate.
Qed.

Lemma of_to_bits64 z : i64_ok z -> of_bits 64 (to_bits 64 z) = z.
Proof.
  rewrite to_bits_mod. unfold i64_ok, of_bits. intros Hz.
  change (Z.of_N 64) with 64%Z. change (2 ^ (64 - 1)) with 9223372036854775808.
  change (2 ^ 63)%Z with 9223372036854775808%Z in Hz.
  change (2 ^ 64)%Z with 18446744073709551616%Z.
  assert (Hm : ((0 <= z /\ z mod 18446744073709551616 = z) \/
                (z < 0 /\ z mod 18446744073709551616 = z + 18446744073709551616))%Z).
  { destruct (Z.ltb_spec z 0) as [Hneg|Hpos].
    - right. split; [lia|]. rewrite <- (Z.mod_add z 1) by lia. apply Z.mod_small. lia.
    - left. split; [lia|]. apply Z.mod_small. lia. }
  destruct (N.ltb_spec (Z.to_N (z mod 18446744073709551616)) 9223372036854775808) as [Hlt|Hge].
  all: destruct Hm as [[Hs Hm]|[Hs Hm]].
  all: rewrite Hm in *.
  all: lia.
Qed.

Lemma to_bits64_lt z : to_bits 64 z < 2 ^ 64.
Proof.
  rewrite to_bits_mod. change (Z.of_N 64) with 64%Z.
  change (2 ^ 64)%Z with 18446744073709551616%Z. change (2 ^ 64) with 18446744073709551616.
  assert (Hm : (0 <= z mod 18446744073709551616 < 18446744073709551616)%Z) by (apply Z.mod_pos_bound; lia).
  lia.
Qed.

Lemma dec_enc_i64 z : i64_ok z -> dec_i64 (enc_i64 z) = z.
Proof.
  intros Hz. unfold dec_i64, enc_i64. rewrite le_dec_enc8 by apply to_bits64_lt.
  now apply of_to_bits64.
Qed.

Lemma dec_enc_f64 b : u64_ok b -> dec_f64 (enc_f64 b) = b.
Proof. intros Hb. unfold dec_f64, enc_f64. now apply le_dec_enc8. Qed.

(* ---- read_exact ---- *)

Lemma take_app l r : take (length l) (l ++ r) = Some (l, r).
Proof.
  induction l as [|b t IH]; cbn [length take app]; [reflexivity|]. now rewrite IH.
Qed.

Lemma take_app_n n l r : n = length l -> take n (l ++ r) = Some (l, r).
Proof. intros ->. apply take_app. Qed.

Lemma take_length n s h r : take n s = Some (h, r) -> s = h ++ r /\ length h = n.
Proof.
  revert s h r; induction n as [|k IH]; intros s h r; cbn [take].
  - intros [= <- <-]. auto.
  - destruct s as [|b t]; [discriminate|].
    destruct (take k t) as [[h' r']|] eqn:E; [|discriminate].
    intros [= <- <-]. apply IH in E as [-> <-]. auto.
Qed.

Lemma bytes_eqb_refl l : bytes_eqb l l = true.
Proof. induction l as [|b t IH]; cbn [bytes_eqb]; auto. now rewrite N.eqb_refl. Qed.

Lemma bytes_eqb_eq a b : bytes_eqb a b = true <-> a = b.
Proof.
  split; [|intros ->; apply bytes_eqb_refl].
  revert b; induction a as [|x a IH]; intros [|y b]; cbn [bytes_eqb]; try discriminate; auto.
  intros H. apply andb_prop in H as [H1 H2]. apply N.eqb_eq in H1. apply IH in H2. congruence.
Qed.

(* ---- the counted loop ---- *)

(* writing then reading a sequence of items, when each item reads back *)
Lemma read_items_roundtrip {A} (wr : A -> list N) (rd : list N -> fres (A * list N)) :
  forall xs fuel rest,
    (length xs <= fuel)%nat ->
    Forall (fun x => forall r, rd (wr x ++ r) = FOk (x, r)) xs ->
    read_items fuel (N.of_nat (length xs)) rd (flat_map wr xs ++ rest) = FOk (xs, rest).
Proof.
  induction xs as [|x xs IH]; intros fuel rest Hf Hall.
  - destruct fuel; reflexivity.
  - destruct fuel as [|f]; [cbn [length] in Hf; lia|].
    cbn [length flat_map]. cbn [read_items].
    destruct (N.eqb_spec (N.of_nat (S (length xs))) 0) as [H0|_]; [lia|].
    inversion Hall as [|? ? Hx Hxs]; subst.
    rewrite <- app_assoc, Hx.
    replace (N.of_nat (S (length xs)) - 1) with (N.of_nat (length xs)) by lia.
    rewrite IH; auto. cbn [length] in Hf. lia.
Qed.

(* the fuel given by the readers always suffices: the loop never reports
   OutOfFuel when every successful read consumes at least one byte *)
Lemma read_items_fuel {A} (rd : list N -> fres (A * list N)) :
  (forall s x s1, rd s = FOk (x, s1) -> (length s1 < length s)%nat) ->
  (forall s, rd s <> FOutOfFuel) ->
  forall fuel count s, (length s < fuel)%nat -> read_items fuel count rd s <> FOutOfFuel.
Proof.
  intros Hdec Hno. induction fuel as [|f IH]; intros count s Hlen; [lia|].
  cbn [read_items]. destruct (count =? 0); [discriminate|].
  destruct (rd s) as [[x s1]| | |] eqn:E; try discriminate.
  - apply Hdec in E.
    specialize (IH (count - 1) s1 ltac:(lia)).
    destruct (read_items f (count - 1) rd s1) as [[xs s2]| | |]; try discriminate. congruence.
  - now apply Hno in E.
Qed.

(* fuel that exceeds the remaining bytes OR the count suffices *)
Lemma read_items_fuel2 {A} (rd : list N -> fres (A * list N)) :
  (forall s x s1, rd s = FOk (x, s1) -> (length s1 < length s)%nat) ->
  (forall s, rd s <> FOutOfFuel) ->
  forall fuel count s, ((length s < fuel)%nat \/ count < N.of_nat fuel) ->
    read_items fuel count rd s <> FOutOfFuel.
Proof.
  intros Hdec Hno. induction fuel as [|f IH]; intros count s Hlen; [lia|].
  cbn [read_items]. destruct (N.eqb_spec count 0) as [|Hc]; [discriminate|].
  destruct (rd s) as [[x s1]| | |] eqn:E; try discriminate.
  - apply Hdec in E.
    specialize (IH (count - 1) s1 ltac:(lia)).
    destruct (read_items f (count - 1) rd s1) as [[xs s2]| | |]; try discriminate. congruence.
  - now apply Hno in E.
Qed.

(* ---- partition file ---- *)

Lemma read_u64_enc x r : u64_ok x -> read_u64 (le_enc 8 x ++ r) = FOk (x, r).
Proof.
  intros Hx. unfold read_u64. rewrite take_app_n by now rewrite le_enc_length.
  now rewrite le_dec_enc8.
Qed.

Lemma flat_map_le8_length (ids : list N) : length (flat_map (le_enc 8) ids) = (8 * length ids)%nat.
Proof.
  induction ids as [|x t IH]; [reflexivity|].
  cbn [flat_map]. rewrite app_length, le_enc_length, IH. cbn [length]. lia.
Qed.

Theorem partition_roundtrip_proof : forall ids,
  Forall u64_ok ids ->
  8 * N.of_nat (length ids) <= isize_max ->
  read_partition (write_partition ids) = FOk ids.
Proof.
  intros ids Hids Hlen. unfold read_partition, write_partition.
  rewrite (take_app_n 4 part_magic_write) by reflexivity.
  change (negb (bytes_eqb part_magic_write part_magic_read)) with false. cbv iota.
  rewrite take_app_n by now rewrite le_enc_length.
  assert (Hn : N.of_nat (length ids) < 2 ^ 64).
  { unfold isize_max in Hlen. change (2 ^ 63 - 1) with 9223372036854775807 in Hlen.
    change (2 ^ 64) with 18446744073709551616. lia. }
  rewrite le_dec_enc8 by exact Hn.
  destruct (N.ltb_spec isize_max (8 * N.of_nat (length ids))) as [Hbad|_]; [lia|].
  rewrite <- (app_nil_r (flat_map (le_enc 8) ids)).
  rewrite (read_items_roundtrip (le_enc 8) read_u64); [reflexivity| |].
  - rewrite app_nil_r, flat_map_le8_length. lia.
  - eapply Forall_impl; [|exact Hids]. intros x Hx r. now apply read_u64_enc.
Qed.

Lemma read_u64_consumes s x s1 : read_u64 s = FOk (x, s1) -> (length s1 < length s)%nat.
Proof.
  unfold read_u64. destruct (take 8 s) as [[b r]|] eqn:E; [|discriminate].
  intros [= _ <-]. apply take_length in E as [-> Hl]. rewrite app_length. lia.
Qed.

Theorem read_partition_terminates : forall s, read_partition s <> FOutOfFuel.
Proof.
  intros s. unfold read_partition.
  destruct (take 4 s) as [[h s1]|]; [|discriminate].
  destruct (negb (bytes_eqb h part_magic_read)); [discriminate|].
  destruct (take 8 s1) as [[cb s2]|]; [|discriminate].
  destruct (isize_max <? 8 * le_dec cb); [discriminate|].
  pose proof (read_items_fuel read_u64 read_u64_consumes) as H.
  specialize (H ltac:(intros s0; unfold read_u64; destruct (take 8 s0) as [[? ?]|]; discriminate)).
  specialize (H (S (length s2)) (le_dec cb) s2 ltac:(lia)).
  destruct (read_items (S (length s2)) (le_dec cb) read_u64 s2) as [[? ?]| | |]; try discriminate.
  congruence.
Qed.

(* ---- weight file ---- *)

Lemma chunks8_app l t : length l = 8%nat -> chunks8 (l ++ t) = l :: chunks8 t.
Proof.
  intros H.
  do 8 (destruct l as [|? l]; [discriminate H|]).
  destruct l; [|discriminate H]. reflexivity.
Qed.

Section WeightCodec.
  Context {T : Type} (enc : T -> list N) (dec : list N -> T) (ok : T -> Prop).
  Hypothesis enc_len : forall x, length (enc x) = 8%nat.
  Hypothesis dec_enc : forall x, ok x -> dec (enc x) = x.

  Lemma chunks8_row row : Forall ok row -> map dec (chunks8 (flat_map enc row)) = row.
  Proof.
    induction 1 as [|x t Hx Ht IH]; [reflexivity|].
    cbn [flat_map]. rewrite chunks8_app by apply enc_len. cbn [map]. now rewrite dec_enc, IH.
  Qed.

  Lemma row_length row : length (flat_map enc row) = (8 * length row)%nat.
  Proof.
    induction row as [|x t IH]; [reflexivity|].
    cbn [flat_map length]. rewrite app_length, enc_len, IH. lia.
  Qed.

  Lemma read_row_enc c row r :
    N.of_nat (length row) = c -> Forall ok row ->
    read_row c dec (flat_map enc row ++ r) = FOk (row, r).
  Proof.
    intros Hc Hok. unfold read_row.
    rewrite take_app_n by (rewrite row_length; lia).
    now rewrite chunks8_row.
  Qed.

  Lemma rows_length (rows : list (list T)) (c : nat) :
    Forall (fun r => length r = c) rows ->
    length (flat_map (flat_map enc) rows) = (8 * c * length rows)%nat.
  Proof.
    induction 1 as [|x t Hx Ht IH]; [cbn [flat_map length]; lia|].
    cbn [flat_map length]. rewrite app_length, row_length, IH, Hx. lia.
  Qed.

  Lemma read_weights_inner_enc (rows : list (list T)) (first : list T) :
    (1 <= length first)%nat ->
    Forall (fun r => length r = length first /\ Forall ok r) rows ->
    24 * N.of_nat (length rows) <= isize_max ->
    read_weights_inner (N.of_nat (length first)) dec
      (le_enc 8 (N.of_nat (length rows)) ++ flat_map (flat_map enc) rows) = FOk rows.
  Proof.
    intros Hc Hrows Hcap. unfold read_weights_inner.
    rewrite take_app_n by now rewrite le_enc_length.
    assert (Hn : N.of_nat (length rows) < 2 ^ 64).
    { unfold isize_max in Hcap. change (2 ^ 63 - 1) with 9223372036854775807 in Hcap.
      change (2 ^ 64) with 18446744073709551616. lia. }
    rewrite le_dec_enc8 by exact Hn.
    destruct (N.ltb_spec isize_max (24 * N.of_nat (length rows))) as [Hbad|_]; [lia|].
    rewrite <- (app_nil_r (flat_map (flat_map enc) rows)).
    rewrite (read_items_roundtrip (flat_map enc) (read_row (N.of_nat (length first)) dec)); [reflexivity| |].
    - rewrite app_nil_r.
      rewrite (rows_length rows (length first)) by (eapply Forall_impl; [|exact Hrows]; now intros r [H _]).
      nia.
    - eapply Forall_impl; [|exact Hrows]. intros row [Hl Hok] r. apply read_row_enc; [now rewrite Hl|exact Hok].
  Qed.
End WeightCodec.

Lemma enc_i64_length z : length (enc_i64 z) = 8%nat.
Proof. apply le_enc_length. Qed.
Lemma enc_f64_length b : length (enc_f64 b) = 8%nat.
Proof. apply le_enc_length. Qed.

Lemma le_dec_enc2 c : c < 65536 -> le_dec (le_enc 2 c) = c.
Proof.
  intros Hc. rewrite le_dec_enc. change (256 ^ N.of_nat 2) with 65536. now apply N.mod_small.
Qed.

(* read (write a) for both kinds of arrays; [rw_weights] = write then read *)
Definition rw_weights (a : warray) : fres warray := fbind (write_weights a) read_weights.

Theorem weight_roundtrip_int_proof : forall rows,
  rows <> [] -> wf_rows i64_ok rows -> rw_weights (WInts rows) = FOk (WInts rows).
Proof.
  intros rows Hne Hwf. destruct rows as [|first rest]; [congruence|].
  destruct Hwf as [[Hc1 Hc2] [Hrows Hcap]].
  unfold rw_weights, write_weights, write_integers, write_weights_inner.
  destruct (N.ltb_spec weight_max_criteria (N.of_nat (length first))) as [Hbad|_];
    [change weight_max_criteria with 65535 in Hbad; lia|].
  cbn [fbind]. unfold read_weights.
  rewrite (take_app_n 4 weight_magic_write) by reflexivity.
  change (negb (bytes_eqb weight_magic_write weight_magic_read)) with false. cbv iota.
  pose proof (le_dec_enc2 (N.of_nat (length first)) Hc2) as Hdec.
  set (tl := le_enc 8 _ ++ _).
  cbn [le_enc] in Hdec |- *. cbn [app take]. subst tl.
  change (negb (w_version =? w_version)) with false. cbv iota.
  rewrite Hdec.
  destruct (N.eqb_spec (N.of_nat (length first)) 0) as [H0|_]; [lia|].
  change (negb (N.land flag_integer flag_integer =? 0)) with true. cbv iota.
  rewrite (read_weights_inner_enc enc_i64 dec_i64 i64_ok enc_i64_length dec_enc_i64 (first :: rest) first);
    auto. lia.
Qed.

Theorem weight_roundtrip_float_proof : forall rows,
  rows <> [] -> wf_rows u64_ok rows -> rw_weights (WFloats rows) = FOk (WFloats rows).
Proof.
  intros rows Hne Hwf. destruct rows as [|first rest]; [congruence|].
  destruct Hwf as [[Hc1 Hc2] [Hrows Hcap]].
  unfold rw_weights, write_weights, write_floats, write_weights_inner.
  destruct (N.ltb_spec weight_max_criteria (N.of_nat (length first))) as [Hbad|_];
    [change weight_max_criteria with 65535 in Hbad; lia|].
  cbn [fbind]. unfold read_weights.
  rewrite (take_app_n 4 weight_magic_write) by reflexivity.
  change (negb (bytes_eqb weight_magic_write weight_magic_read)) with false. cbv iota.
  pose proof (le_dec_enc2 (N.of_nat (length first)) Hc2) as Hdec.
  set (tl := le_enc 8 _ ++ _).
  cbn [le_enc] in Hdec |- *. cbn [app take]. subst tl.
  change (negb (w_version =? w_version)) with false. cbv iota.
  rewrite Hdec.
  destruct (N.eqb_spec (N.of_nat (length first)) 0) as [H0|_]; [lia|].
  change (negb (N.land 0 flag_integer =? 0)) with false. cbv iota.
  rewrite (read_weights_inner_enc enc_f64 dec_f64 u64_ok enc_f64_length dec_enc_f64 (first :: rest) first);
    auto. lia.
Qed.

(* the empty arrays (the writer's 16-byte special case): Integers([]) reads
   back as itself, Floats([]) reads back as Integers([]) — the reader returns
   at `criterion_count == 0` before it looks at the integer flag *)
Lemma weight_empty_int : rw_weights (WInts []) = FOk (WInts []).
Proof. vm_compute. reflexivity. Qed.
Lemma weight_empty_float_reads_as_int : rw_weights (WFloats []) = FOk (WInts []).
Proof. vm_compute. reflexivity. Qed.

(* no criteria at all (rows of length 0) : the rows are lost *)
Lemma weight_zero_criteria_lost : rw_weights (WInts [[]; []; []]) = FOk (WInts []).
Proof. vm_compute. reflexivity. Qed.

(* more than u16::MAX criteria: the writer's assert *)
Lemma weight_too_many_criteria rows first rest :
  rows = first :: rest -> weight_max_criteria < N.of_nat (length first) -> write_integers rows = FPanic 2.
Proof.
  intros -> H. unfold write_integers, write_weights_inner.
  destruct (N.ltb_spec weight_max_criteria (N.of_nat (length first))); [reflexivity|lia].
Qed.

Lemma read_row_consumes {T} c (dec : list N -> T) s x s1 :
  c <> 0 -> read_row c dec s = FOk (x, s1) -> (length s1 < length s)%nat.
Proof.
  intros Hc. unfold read_row. destruct (take (N.to_nat (c * 8)) s) as [[b r]|] eqn:E; [|discriminate].
  intros [= _ <-]. apply take_length in E as [-> Hl]. rewrite app_length. lia.
Qed.

Lemma read_weights_inner_terminates {T} c (dec : list N -> T) s :
  c <> 0 -> read_weights_inner c dec s <> FOutOfFuel.
Proof.
  intros Hc. unfold read_weights_inner.
  destruct (take 8 s) as [[cb s1]|]; [|discriminate].
  destruct (isize_max <? 24 * le_dec cb); [discriminate|].
  pose proof (read_items_fuel (read_row c dec) (fun s x s1 => read_row_consumes c dec s x s1 Hc)) as H.
  specialize (H ltac:(intros s0; unfold read_row; destruct (take _ s0) as [[? ?]|]; discriminate)).
  specialize (H (S (length s1)) (le_dec cb) s1 ltac:(lia)).
  destruct (read_items (S (length s1)) (le_dec cb) (read_row c dec) s1) as [[? ?]| | |]; try discriminate.
  congruence.
Qed.

Theorem read_weights_terminates : forall s, read_weights s <> FOutOfFuel.
Proof.
  intros s. unfold read_weights.
  destruct (take 4 s) as [[h s1]|]; [|discriminate].
  destruct (negb (bytes_eqb h weight_magic_read)); [discriminate|].
  destruct (take 4 s1) as [[[|v [|fl [|c0 [|c1 [|? ?]]]]] s2]|]; try discriminate.
  destruct (negb (v =? w_version)); [discriminate|].
  destruct (N.eqb_spec (le_dec [c0; c1]) 0) as [|Hc]; [discriminate|].
  destruct (negb (N.land fl flag_integer =? 0)).
  - pose proof (read_weights_inner_terminates (le_dec [c0; c1]) dec_i64 s2 Hc) as H.
    destruct (read_weights_inner (le_dec [c0; c1]) dec_i64 s2); try discriminate. congruence.
  - pose proof (read_weights_inner_terminates (le_dec [c0; c1]) dec_f64 s2 Hc) as H.
    destruct (read_weights_inner (le_dec [c0; c1]) dec_f64 s2); try discriminate. congruence.
Qed.

(* ---- the boolean equalities used by the run-time checker decide equality ---- *)

Lemma leqb_eq {T} (eqb : T -> T -> bool) :
  (forall x y, eqb x y = true <-> x = y) -> forall a b, leqb eqb a b = true <-> a = b.
Proof.
  intros He. induction a as [|x a IH]; intros [|y b]; cbn [leqb]; split; intros H;
    try discriminate; try reflexivity.
  - apply andb_prop in H as [H1 H2]. apply He in H1. apply IH in H2. congruence.
  - injection H as -> ->. apply andb_true_intro. split; [now apply He|now apply IH].
Qed.

Lemma warray_eqb_eq a b : warray_eqb a b = true <-> a = b.
Proof.
  destruct a as [x|x], b as [y|y]; cbn [warray_eqb]; unfold rows_eqb.
  - rewrite (leqb_eq (leqb Z.eqb) (leqb_eq Z.eqb Z.eqb_eq)). split; congruence.
  - split; discriminate.
  - split; discriminate.
  - rewrite (leqb_eq (leqb N.eqb) (leqb_eq N.eqb N.eqb_eq)). split; congruence.
Qed.

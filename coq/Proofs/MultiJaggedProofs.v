(* Proofs about Model/MultiJagged.v. *)
From Coupe Require Import Lib.Prelude Lib.SFloat Model.MultiJagged.
From Coq Require Import Permutation QArith.
Open Scope N_scope.

(* ---------- the range checker decides its clause ---------- *)
Lemma check_range_ok k n p :
  check_range k n p = true <-> (length p = n /\ Forall (fun x => x < k) p).
Proof.
  unfold check_range. rewrite andb_true_iff, Nat.eqb_eq, forallb_forall, Forall_forall.
  split; intros [H1 H2]; split; auto; intros x Hx; specialize (H2 x Hx).
  - apply N.ltb_lt; exact H2.
  - apply N.ltb_lt; exact H2.
Qed.

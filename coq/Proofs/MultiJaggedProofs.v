(* Proofs about Model/MultiJagged.v. *)
From Coq Require Import Permutation QArith Lqa.
From Coupe Require Import Lib.Prelude Lib.SFloat Model.MultiJagged.
Open Scope N_scope.

(* ---------- the range checker decides its clause ---------- *)
Lemma check_range_ok k n p :
  check_range k n p = true <-> (length p = n /\ Forall (fun x => x < k) p).
Proof.
  unfold check_range. rewrite andb_true_iff, Nat.eqb_eq, forallb_forall, Forall_forall.
  split; intros [H1 H2]; split; auto; intros x Hx; specialize (H2 x Hx).
  - apply N.ltb_lt; exact H2.
  - apply N.ltb_lt; exact H2.
Qed.

(* ================================================================ scheme *)

Section SchemeInd.
  Variable B : Type.
  Variable P : scheme B -> Prop.
  Hypothesis Hnode : forall ns mods next,
    (forall cs, next = Some cs -> Forall P cs) -> P (SNode ns mods next).
  Fixpoint scheme_ind2 (s : scheme B) : P s :=
    match s with
    | SNode ns mods next =>
      Hnode ns mods next
        (match next as o return (forall cs, o = Some cs -> Forall P cs) with
         | None => fun cs (E : None = Some cs) => match E with eq_refl => I end
         | Some l => fun cs (E : Some l = Some cs) =>
             match E in (_ = y) return (match y with Some cs' => Forall P cs' | None => True end) with
             | eq_refl =>
               (fix go (l : list (scheme B)) : Forall P l :=
                  match l with
                  | [] => Forall_nil P
                  | c :: t => Forall_cons c (scheme_ind2 c) (go t)
                  end) l
             end
         end)
    end.
End SchemeInd.

Definition sum_nat (l : list nat) : nat := fold_right Nat.add 0%nat l.

Lemma leaves_node {B} ns (mods : list B) cs :
  leaves (SNode ns mods (Some cs)) = if ns =? 0 then 1%nat else sum_nat (map leaves cs).
Proof.
  cbn [leaves]. destruct (ns =? 0); [reflexivity|].
  induction cs as [|c t IH]; cbn [map sum_nat fold_right]; [reflexivity|].
  fold (sum_nat (map leaves t)). rewrite <- IH. reflexivity.
Qed.

Lemma leaves_leaf {B} (mods : list B) next : leaves (SNode 0 mods next) = 1%nat.
Proof. reflexivity. Qed.

Lemma sum_nat_app a b : sum_nat (a ++ b) = (sum_nat a + sum_nat b)%nat.
Proof. unfold sum_nat. induction a as [|x t IH]; cbn [app fold_right]; [reflexivity|rewrite IH; lia]. Qed.

Lemma sum_nat_repeat x k : sum_nat (repeat x k) = (k * x)%nat.
Proof. unfold sum_nat. induction k as [|k IH]; cbn [repeat fold_right]; [reflexivity|rewrite IH; lia]. Qed.

Definition sumN (l : list N) : N := fold_right N.add 0 l.

Lemma sumN_app a b : sumN (a ++ b) = sumN a + sumN b.
Proof. unfold sumN. induction a as [|x t IH]; cbn [app fold_right]; [reflexivity|rewrite IH; lia]. Qed.

Lemma sumN_repeat x k : sumN (repeat x k) = N.of_nat k * x.
Proof. unfold sumN. induction k as [|k IH]; cbn [repeat fold_right]; [lia|rewrite IH; lia]. Qed.

(* what the theorems assume of `(num_parts as f32).powf(1. / max_iter as f32).ceil()`:
   1 for one part; within [2, n] for n >= 2 parts; n itself when max_iter = 1 (pow(x, 1) = x) *)
Definition root_ok (root : N -> nat -> N) : Prop :=
  forall n m, (n = 1 -> root n m = 1) /\ (2 <= n -> 2 <= root n m <= n) /\ (1 <= n -> root n 1%nat = n).

(* well-formed scheme for [parts] leaves with at most [d] levels of cuts: every
   cutting node has num_splits + 1 children, each for at least one part, the
   parts of the children add up, and modifier i = parts of child i / parts *)
Inductive WfScheme (A : arith) : scheme (num A) -> N -> nat -> Prop :=
| Wf_leaf mods next d : WfScheme A (SNode 0 mods next) 1 d
| Wf_node ns mods children parts d cparts :
    ns <> 0 ->
    length children = S (N.to_nat ns) ->
    Forall2 (fun c cp => WfScheme A c cp d /\ 1 <= cp) children cparts ->
    sumN cparts = parts ->
    mods = map (fun cp => a_div A (a_ofN A cp) (a_ofN A parts)) cparts ->
    WfScheme A (SNode ns mods (Some children)) parts (S d).

Lemma Forall2_repeat {X Y} (R : X -> Y -> Prop) x y k : R x y -> Forall2 R (repeat x k) (repeat y k).
Proof. intros H. induction k; cbn [repeat]; constructor; auto. Qed.

Lemma Forall2_len {X Y} (R : X -> Y -> Prop) a b : Forall2 R a b -> length a = length b.
Proof. induction 1; cbn [length]; congruence. Qed.

Lemma map_repeat {X Y} (f : X -> Y) x k : map f (repeat x k) = repeat (f x) k.
Proof. induction k; cbn [repeat map]; congruence. Qed.

Lemma WfScheme_leaves A s parts d : WfScheme A s parts d -> leaves s = N.to_nat parts.
Proof.
  revert parts d. induction s as [ns mods next IH] using scheme_ind2. intros parts d W.
  inversion W as [| ns' mods' children parts' d' cparts Hns Hlen HF Hsum Hmods]; subst.
  - reflexivity.
  - rewrite leaves_node. destruct (N.eqb_spec ns 0) as [E|_]; [contradiction|].
    specialize (IH children eq_refl).
    clear W Hlen Hns. revert IH. induction HF as [|c cp cs cps [Hc _] HF' IHF]; intros IH.
    + reflexivity.
    + inversion IH as [|? ? IHc IHt]; subst.
      cbn [map sum_nat sumN fold_right]. fold (sum_nat (map leaves cs)). fold (sumN cps).
      rewrite (IHc _ _ Hc), (IHF IHt). lia.
Qed.

Section SchemeProofs.
  Variable A : arith.
  Variable root : N -> nat -> N.
  Hypothesis Hroot : root_ok root.

  Lemma scheme_one_part_iter0 :
    exists mods, partition_scheme A root 1 0 = Ok (SNode 0 mods None).
  Proof.
    cbn [partition_scheme]. destruct (Hroot 1 0%nat) as [H1 _]. rewrite (H1 eq_refl).
    cbn. eexists; reflexivity.
  Qed.

  Lemma partition_scheme_wf : forall m n,
    (1 <= m)%nat -> 1 <= n -> n < 2 ^ 60 ->
    exists s, partition_scheme A root n m = Ok s /\ WfScheme A s n m.
  Proof.
    induction m as [|m IH]; intros n Hm Hn Hb; [lia|].
    destruct (Hroot n (S m)) as [R1 [R2 _]].
    destruct (N.eq_dec n 1) as [E1|N1].
    - (* one part: root 1, a leaf whatever lies below *)
      subst n. cbn [partition_scheme]. rewrite (R1 eq_refl).
      change (1 =? 0) with false. cbv iota. change (1 mod 1) with 0. change (1 / 1) with 1.
      change (2 ^ 60 <=? 1) with false. cbv iota. change (0 =? 0) with true. cbv iota. cbn [bind].
      destruct m as [|m'].
      + destruct scheme_one_part_iter0 as [mods E]. rewrite E. cbn [bind]. eexists. split; [reflexivity|].
        change (1 - 1) with 0. constructor.
      + destruct (IH 1 ltac:(lia) ltac:(lia) ltac:(lia)) as [s [E _]]. rewrite E. cbn [bind].
        eexists. split; [reflexivity|]. change (1 - 1) with 0. constructor.
    - assert (H2 : 2 <= n) by lia. specialize (R2 H2).
      set (r := root n (S m)) in *.
      assert (Hq : 1 <= n / r) by (apply N.div_le_lower_bound; lia).
      assert (Hqle : n / r < n) by (apply N.div_lt; lia).
      assert (Hrem : n mod r < r) by (apply N.mod_lt; lia).
      assert (Hdiv : n = r * (n / r) + n mod r) by (apply N.div_mod; lia).
      cbn [partition_scheme]. fold r.
      destruct (N.eqb_spec r 0) as [?|_]; [lia|].
      destruct (N.leb_spec (2 ^ 60) r) as [?|_]; [lia|].
      destruct m as [|m'].
      + (* max_iter = 1: root = n, every child is a one-part leaf *)
        destruct (Hroot n 1%nat) as [_ [_ R3]]. assert (Er : r = n) by (apply R3; lia).
        rewrite Er in *. rewrite N.mod_same, N.div_same by lia.
        change (0 =? 0) with true. cbv iota. cbn [bind].
        destruct scheme_one_part_iter0 as [mods E]. rewrite E. cbn [bind].
        eexists. split; [reflexivity|].
        rewrite N.sub_0_r. cbn [app].
        eapply Wf_node with (cparts := repeat 1 (N.to_nat n)).
        * lia.
        * rewrite repeat_length. lia.
        * apply Forall2_repeat. split; [constructor|lia].
        * rewrite sumN_repeat. lia.
        * unfold compute_modifiers. change (N.to_nat 0) with 0%nat. cbn [repeat app].
          rewrite map_repeat. do 3 f_equal. lia.
      + (* max_iter >= 2 *)
        destruct (IH (n / r) ltac:(lia) Hq ltac:(lia)) as [sr [Er Wr]].
        destruct (IH (n / r + 1) ltac:(lia) ltac:(lia) ltac:(lia)) as [sf [Ef Wf]].
        rewrite Er.
        assert (Efat : exists fat,
          (if n mod r =? 0 then Ok []
           else s <- partition_scheme A root (n / r + 1) (S m') ;; Ok (repeat s (N.to_nat (n mod r)))) = Ok fat
          /\ Forall2 (fun c cp => WfScheme A c cp (S m') /\ 1 <= cp) fat (repeat (n / r + 1) (N.to_nat (n mod r)))).
        { destruct (N.eqb_spec (n mod r) 0) as [E0|N0].
          - exists []. rewrite E0. split; [reflexivity|constructor].
          - rewrite Ef. cbn [bind]. eexists. split; [reflexivity|].
            apply Forall2_repeat. split; [exact Wf|lia]. }
        destruct Efat as [fat [Efat Ffat]]. rewrite Efat. cbn [bind].
        eexists. split; [reflexivity|].
        eapply Wf_node with (cparts := repeat (n / r + 1) (N.to_nat (n mod r)) ++ repeat (n / r) (N.to_nat (r - n mod r))).
        * lia.
        * rewrite app_length, repeat_length, (Forall2_len _ _ _ Ffat), repeat_length. lia.
        * apply Forall2_app; [exact Ffat|]. apply Forall2_repeat. split; [exact Wr|lia].
        * rewrite sumN_app, !sumN_repeat. nia.
        * unfold compute_modifiers. rewrite map_app, !map_repeat.
          assert (Et : (r - n mod r) * (n / r) + n mod r * (n / r + 1) = n) by nia.
          rewrite Et. reflexivity.
  Qed.
End SchemeProofs.

(* ======================================================= generic list facts *)

Lemma bind_ok {X Y} (r : res X) (f : X -> res Y) y :
  bind r f = Ok y -> exists x, r = Ok x /\ f x = Ok y.
Proof. destruct r; cbn [bind]; intros H; try discriminate. eauto. Qed.

Lemma FOP_app_cross {X} (R : X -> X -> Prop) l1 l2 :
  ForallOrdPairs R (l1 ++ l2) -> forall x y, In x l1 -> In y l2 -> R x y.
Proof.
  induction l1 as [|a t IH]; cbn [app]; intros H x y Hx Hy; [destruct Hx|].
  inversion H as [|? ? Ha Ht]; subst. destruct Hx as [<-|Hx].
  - rewrite Forall_forall in Ha. apply Ha. apply in_or_app; right; exact Hy.
  - apply IH; assumption.
Qed.

Lemma FOP_app_l {X} (R : X -> X -> Prop) l1 l2 : ForallOrdPairs R (l1 ++ l2) -> ForallOrdPairs R l1.
Proof.
  induction l1 as [|a t IH]; cbn [app]; intros H; [constructor|].
  inversion H as [|? ? Ha Ht]; subst. constructor; [|apply IH; exact Ht].
  rewrite Forall_forall in *. intros x Hx. apply Ha. apply in_or_app; left; exact Hx.
Qed.

Lemma FOP_app_r {X} (R : X -> X -> Prop) l1 l2 : ForallOrdPairs R (l1 ++ l2) -> ForallOrdPairs R l2.
Proof.
  induction l1 as [|a t IH]; cbn [app]; intros H; [exact H|].
  inversion H; subst. apply IH; assumption.
Qed.

Lemma FOP_app_intro {X} (R : X -> X -> Prop) l1 l2 :
  ForallOrdPairs R l1 -> ForallOrdPairs R l2 -> (forall x y, In x l1 -> In y l2 -> R x y) ->
  ForallOrdPairs R (l1 ++ l2).
Proof.
  induction l1 as [|a t IH]; cbn [app]; intros H1 H2 Hc; [exact H2|].
  inversion H1 as [|? ? Ha Ht]; subst. constructor.
  - rewrite Forall_forall in *. intros x Hx. apply in_app_or in Hx as [Hx|Hx]; [apply Ha; exact Hx|].
    apply Hc; [left; reflexivity|exact Hx].
  - apply IH; auto. intros x y Hx Hy. apply Hc; [right; exact Hx|exact Hy].
Qed.

Lemma firstn_add {X} a b (l : list X) : firstn (a + b) l = firstn a l ++ firstn b (skipn a l).
Proof.
  revert l; induction a as [|a IH]; intros l; [reflexivity|].
  destruct l as [|x t]; cbn [Nat.add firstn skipn app]; [rewrite firstn_nil; reflexivity|].
  rewrite IH. reflexivity.
Qed.

Lemma skipn_add {X} a b (l : list X) : skipn (a + b) l = skipn b (skipn a l).
Proof.
  revert l; induction a as [|a IH]; intros l; [reflexivity|].
  destruct l as [|x t]; cbn [Nat.add skipn]; [rewrite skipn_nil; reflexivity|]. apply IH.
Qed.

(* ============================================================= split_many *)

Lemma split_many_ok {X} (l : list X) pos d subs :
  split_many l pos d = Ok subs -> concat subs = l /\ length subs = S (length pos).
Proof.
  revert l d subs. induction pos as [|p ps IH]; intros l d subs H; cbn [split_many] in H.
  - inversion H; subst. cbn [concat length]. rewrite app_nil_r. auto.
  - destruct (Nat.ltb p d); [discriminate|].
    destruct (Nat.ltb (length l) (p - d)); [discriminate|].
    apply bind_ok in H as [rest [Hr H]]. inversion H; subst.
    apply IH in Hr as [Hc Hl]. cbn [concat length]. rewrite Hc, firstn_skipn, Hl. auto.
Qed.

(* ==================================== compute_split_positions: shape facts *)

Section CspShape.
  Variable A : arith.

  Lemma split_last_length {X} (l init : list X) : split_last l = Some init -> length l = S (length init).
  Proof.
    revert init. induction l as [|x t IH]; intros init H; cbn [split_last] in H; [discriminate|].
    destruct t as [|y t'].
    - inversion H; reflexivity.
    - destruct (split_last (y :: t')) as [i|] eqn:E; [|discriminate]. inversion H; subst.
      specialize (IH i eq_refl). cbn [length] in *. lia.
  Qed.

  Lemma split_last_app {X} (l init : list X) : split_last l = Some init -> exists z, l = init ++ [z].
  Proof.
    revert init. induction l as [|x t IH]; intros init H; cbn [split_last] in H; [discriminate|].
    destruct t as [|y t'].
    - inversion H; subst. exists x; reflexivity.
    - destruct (split_last (y :: t')) as [i|] eqn:E; [|discriminate]. inversion H; subst.
      destruct (IH i eq_refl) as [z Ez]. exists z. rewrite Ez. reflexivity.
  Qed.

  Lemma thresholds_length total c mods : length (thresholds A total c mods) = length mods.
  Proof. revert c; induction mods as [|m t IH]; intros c; cbn [thresholds length]; [reflexivity|rewrite IH; reflexivity]. Qed.

  Lemma outer_length ths : forall scan cws len ret r,
    outer A ths scan cws len ret = Ok r -> length r = (length ths + length ret)%nat.
  Proof.
    induction ths as [|t ths IH]; intros scan cws len ret r H; cbn [outer] in H.
    - inversion H; subst. rewrite rev_length. reflexivity.
    - destruct (a_lt A t cws).
      + destruct ret as [|last ret']; [discriminate|]. apply IH in H. cbn [length] in *. lia.
      + destruct (take_until A scan cws t len) as [[[lo cached] cws'] rest]. apply IH in H. cbn [length] in *. lia.
  Qed.

  Lemma csp_length wts perm mods bs pos :
    csp A wts perm mods bs = Ok pos -> length mods = S (length pos).
  Proof.
    unfold csp. destruct (split_last mods) as [init|] eqn:E; [|discriminate]. intros H.
    apply bind_ok in H as [wl [_ H]]. unfold csp_core in H. apply bind_ok in H as [r [Hr H]].
    inversion H; subst. apply outer_length in Hr. cbn [length] in Hr. rewrite Nat.add_0_r in Hr.
    rewrite map_length, combine_length, Hr, Nat.min_id, thresholds_length.
    apply split_last_length; exact E.
  Qed.
End CspShape.

(* ============================================ the recursion: structure facts *)

Lemma FOP_and {X} (R1 R2 : X -> X -> Prop) l :
  ForallOrdPairs R1 l -> ForallOrdPairs R2 l -> ForallOrdPairs (fun x y => R1 x y /\ R2 x y) l.
Proof.
  induction l as [|a t IH]; intros H1 H2; [constructor|].
  inversion H1 as [|? ? A1 T1]; inversion H2 as [|? ? A2 T2]; subst. constructor; [|auto].
  rewrite Forall_forall in *. intros x Hx. split; auto.
Qed.

Lemma FOP_impl {X} (R1 R2 : X -> X -> Prop) l :
  (forall x y, R1 x y -> R2 x y) -> ForallOrdPairs R1 l -> ForallOrdPairs R2 l.
Proof.
  intros Hi. induction 1 as [|a t Ha Ht IH]; constructor; auto.
  rewrite Forall_forall in *. auto.
Qed.

Lemma in_concat_of {X} (l : list X) ls x : In l ls -> In x l -> In x (concat ls).
Proof. intros H1 H2. apply in_concat. eauto. Qed.

(* elements of different blocks of a list ordered by R are ordered by R *)
Lemma FOP_concat_cross {X} (R : X -> X -> Prop) slabs subs :
  Forall2 (@Permutation X) slabs subs -> ForallOrdPairs R (concat subs) ->
  ForallOrdPairs (fun s1 s2 => forall x y, In x s1 -> In y s2 -> R x y) slabs.
Proof.
  induction 1 as [|slab sub slabs subs Hp HF IH]; intros H; [constructor|].
  cbn [concat] in H. constructor; [|apply IH; eapply FOP_app_r; exact H].
  rewrite Forall_forall. intros s2 Hs2 x y Hx Hy.
  eapply FOP_app_cross; [exact H| |].
  - eapply Permutation_in; [exact Hp|exact Hx].
  - (* y is in one of the later subs *)
    clear - HF Hs2 Hy. induction HF as [|a b la lb Hab HF IH]; [destruct Hs2|].
    cbn [concat]. apply in_or_app. destruct Hs2 as [<-|Hs2].
    + left. eapply Permutation_in; [exact Hab|exact Hy].
    + right. apply IH; assumption.
Qed.

Section RecProofs.
  Variable A : arith.
  Variable D npts : nat.
  Variable wts : list (num A).
  Variable sorter : nat -> list nat -> list nat.
  Variable blk : list nat -> list nat.
  Variable cxlt : nat -> nat -> nat -> bool.

  Definition sorted_by (a : nat) (l : list nat) : Prop :=
    ForallOrdPairs (fun x y => cxlt a y x = false) l.
  (* the contract of the sort oracle: a permutation, sorted by the coordinate *)
  Definition sorter_ok : Prop := forall a l, Permutation (sorter a l) l /\ sorted_by a (sorter a l).

  Notation mjrec := (mj_rec A D npts wts sorter blk).

  Fixpoint go_ch (f : scheme (num A) -> list nat -> res (list (list nat)))
                 (subs : list (list nat)) (chs : list (scheme (num A))) {struct chs} : res (list (list nat)) :=
    match subs, chs with
    | s :: subs', c :: chs' =>
      if Nat.eqb D 0 then Panic 9
      else l1 <- f c s ;; l2 <- go_ch f subs' chs' ;; Ok (l1 ++ l2)
    | _, _ => Ok []
    end.

  Lemma mj_rec_eq ns mods next a perm :
    mjrec (SNode ns mods next) a perm =
    if (ns =? 0)%N then Ok [perm]
    else if Nat.leb 2 (length perm) && negb (forallb (fun i => Nat.ltb i npts) perm) then Panic 2
    else
      let sorted := sorter a perm in
      pos <- csp A wts sorted mods (blk sorted) ;;
      subs <- split_many sorted pos 0 ;;
      match next with
      | None => Panic 7
      | Some children => go_ch (fun c s => mjrec c (S a mod D)%nat s) subs children
      end.
  Proof.
    cbn [mj_rec]. destruct (ns =? 0)%N; [reflexivity|].
    destruct (Nat.leb 2 (length perm) && negb (forallb (fun i => Nat.ltb i npts) perm)); [reflexivity|].
    cbv zeta. destruct (csp A wts (sorter a perm) mods (blk (sorter a perm))) as [pos| | |]; cbn [bind]; try reflexivity.
    destruct (split_many (sorter a perm) pos 0) as [subs| | |]; cbn [bind]; try reflexivity.
    destruct next as [children|]; [|reflexivity].
    revert subs. induction children as [|c t IH]; intros subs; destruct subs as [|s subs']; try reflexivity.
    cbn [go_ch]. destruct (Nat.eqb D 0); [reflexivity|].
    destruct (mjrec c (S a mod D)%nat s); cbn [bind]; try reflexivity.
    rewrite IH. reflexivity.
  Qed.

  Variable idf : nat -> N.
  Definition leaf_const (lvs : list (list nat)) : Prop :=
    Forall (fun l => forall x y, In x l -> In y l -> idf x = idf y) lvs.
  Definition ids_apart (l1 l2 : list nat) : Prop := forall x y, In x l1 -> In y l2 -> idf x <> idf y.
  Definition leaf_distinct (lvs : list (list nat)) : Prop := ForallOrdPairs ids_apart lvs.

  Lemma ids_apart_concat lv1 lv2 :
    (forall l1 l2, In l1 lv1 -> In l2 lv2 -> ids_apart l1 l2) -> ids_apart (concat lv1) (concat lv2).
  Proof.
    intros H x y Hx Hy. apply in_concat in Hx as [l1 [H1 Hx]]. apply in_concat in Hy as [l2 [H2 Hy]].
    exact (H l1 l2 H1 H2 x y Hx Hy).
  Qed.

  Definition rec_spec (sch : scheme (num A)) : Prop :=
    forall parts d, WfScheme A sch parts d ->
    forall a perm lvs, mjrec sch a perm = Ok lvs ->
      length lvs = leaves sch /\ Permutation (concat lvs) perm /\
      (leaf_const lvs -> leaf_distinct lvs -> JaggedTree (num A) D cxlt idf sch a (concat lvs)).

  Hypothesis Hsort : sorter_ok.

  Lemma go_ch_spec a' : forall chs cparts d subs lvs,
    Forall rec_spec chs ->
    Forall2 (fun c cp => WfScheme A c cp d /\ (1 <= cp)%N) chs cparts ->
    length subs = length chs ->
    go_ch (fun c s => mjrec c a' s) subs chs = Ok lvs ->
    length lvs = sum_nat (map leaves chs) /\ Permutation (concat lvs) (concat subs) /\
    (leaf_const lvs -> leaf_distinct lvs ->
     exists slabs, concat slabs = concat lvs /\
       Forall2 (fun c s => JaggedTree (num A) D cxlt idf c a' s) chs slabs /\
       Forall2 (@Permutation nat) slabs subs /\
       ForallOrdPairs ids_apart slabs).
  Proof.
    induction chs as [|c chs IH]; intros cparts d subs lvs HP HW Hlen H.
    - destruct subs; [|discriminate]. cbn [go_ch] in H. inversion H; subst.
      split; [reflexivity|]. split; [constructor|]. intros _ _. exists []. repeat split; constructor.
    - destruct subs as [|s subs]; [discriminate|]. cbn [go_ch] in H.
      destruct (Nat.eqb D 0); [discriminate|].
      apply bind_ok in H as [l1 [H1 H]]. apply bind_ok in H as [l2 [H2 H]]. inversion H; subst. clear H.
      inversion HP as [|? ? Pc Pt]; subst. inversion HW as [|? cp ? cps [Wc _] Wt]; subst.
      destruct (Pc cp d Wc a' s l1 H1) as [L1 [Q1 J1]].
      destruct (IH cps d subs l2 Pt Wt ltac:(cbn [length] in Hlen; lia) H2) as [L2 [Q2 J2]].
      split; [|split].
      + rewrite app_length, L1, L2. reflexivity.
      + rewrite concat_app. cbn [concat]. apply Permutation_app; assumption.
      + intros Hc Hd. unfold leaf_const in Hc. apply Forall_app in Hc as [Hc1 Hc2].
        specialize (J1 Hc1 (FOP_app_l _ _ _ Hd)).
        destruct (J2 Hc2 (FOP_app_r _ _ _ Hd)) as [slabs [E2 [F2 [P2 A2]]]].
        exists (concat l1 :: slabs). split; [|split; [|split]].
        * cbn [concat]. rewrite E2, concat_app. reflexivity.
        * constructor; assumption.
        * constructor; assumption.
        * constructor; [|exact A2]. rewrite Forall_forall. intros s2 Hs2.
          (* s2 is a permutation-block of the later leaves: its elements are in concat l2 *)
          assert (Hsub : forall y, In y s2 -> In y (concat l2)).
          { intros y Hy. rewrite <- E2. eapply in_concat_of; eassumption. }
          intros x y Hx Hy. specialize (Hsub y Hy).
          apply in_concat in Hx as [la [Hla Hx]]. apply in_concat in Hsub as [lb [Hlb Hy']].
          exact (FOP_app_cross _ _ _ Hd la lb Hla Hlb x y Hx Hy').
  Qed.

  Lemma mj_rec_spec : forall sch, rec_spec sch.
  Proof.
    induction sch as [ns mods next IH] using scheme_ind2. intros parts d W a perm lvs H.
    rewrite mj_rec_eq in H.
    inversion W as [mods' next' d'|ns' mods' children parts' d' cparts Hns Hlen HF Hsum Hmods]; subst.
    - change (0 =? 0)%N with true in H. cbv iota in H. inversion H; subst.
      cbn [concat length leaves]. rewrite app_nil_r. split; [reflexivity|]. split; [apply Permutation_refl|].
      intros Hc _. rewrite <- (app_nil_r perm). change (perm ++ []) with (concat [perm]).
      constructor. inversion Hc as [|? ? Hp _]; subst. cbn [concat]. rewrite app_nil_r. exact Hp.
    - destruct (N.eqb_spec ns 0) as [?|_]; [contradiction|].
      destruct (Nat.leb 2 (length perm) && negb (forallb (fun i => Nat.ltb i npts) perm)); [discriminate|].
      cbv zeta in H. apply bind_ok in H as [pos [Hpos H]]. apply bind_ok in H as [subs [Hsubs H]].
      destruct (Hsort a perm) as [Sperm Ssorted].
      apply split_many_ok in Hsubs as [Hcat Hsl]. apply csp_length in Hpos.
      rewrite map_length in Hpos.
      assert (Hl : length subs = length children).
      { rewrite Hsl, <- Hpos. symmetry. eapply Forall2_len; exact HF. }
      destruct (go_ch_spec _ children cparts d' subs lvs (IH children eq_refl) HF Hl H) as [L [Q J]].
      split; [|split].
      + rewrite leaves_node. destruct (N.eqb_spec ns 0) as [?|_]; [contradiction|]. exact L.
      + rewrite Q, Hcat. exact Sperm.
      + intros Hc Hd. destruct (J Hc Hd) as [slabs [E [F [P Ap]]]]. rewrite <- E.
        constructor; try assumption.
        rewrite <- Hcat in Ssorted.
        pose proof (FOP_concat_cross _ _ _ P Ssorted) as Co.
        eapply FOP_impl; [|exact (FOP_and _ _ _ Co Ap)].
        intros s1 s2 [C1 C2] x y Hx Hy. split; [apply C1; assumption|apply C2; assumption].
  Qed.
End RecProofs.

(* =================================================== writing the leaf numbers *)

Lemma nth_opt_nth {X} (l : list X) i v d : nth_opt l i = Some v -> nth i l d = v.
Proof.
  revert i; induction l as [|y t IH]; intros [|i]; cbn [nth_opt nth]; intros H; try discriminate.
  - inversion H; reflexivity.
  - apply IH; exact H.
Qed.

Lemma Forall_nth_opt {X} (P : X -> Prop) (l : list X) :
  (forall i v, nth_opt l i = Some v -> P v) -> Forall P l.
Proof.
  induction l as [|y t IH]; intros H; constructor.
  - apply (H 0%nat). reflexivity.
  - apply IH. intros i v Hi. apply (H (S i)). exact Hi.
Qed.

Lemma FOP_of_nth {X} (R : X -> X -> Prop) l :
  (forall i1 i2 a b, (i1 < i2)%nat -> nth_error l i1 = Some a -> nth_error l i2 = Some b -> R a b) ->
  ForallOrdPairs R l.
Proof.
  induction l as [|x t IH]; intros H; constructor.
  - rewrite Forall_forall. intros y Hy. apply In_nth_error in Hy as [i Hi].
    apply (H 0%nat (S i)); [lia|reflexivity|exact Hi].
  - apply IH. intros i1 i2 a b Hlt H1 H2. apply (H (S i1) (S i2)); [lia|exact H1|exact H2].
Qed.

Lemma NoDup_app_r {X} (l1 l2 : list X) : NoDup (l1 ++ l2) -> NoDup l2.
Proof. induction l1 as [|a t IH]; cbn [app]; intros H; [exact H|]. inversion H; auto. Qed.

Section WriteProofs.
  Variable ord : nat -> N.

  Lemma write_ids_spec els : forall p id p',
    write_ids p els id = Ok p' ->
    length p' = length p /\ (forall x, In x els -> nth_opt p' x = Some id) /\
    (forall x, ~ In x els -> nth_opt p' x = nth_opt p x).
  Proof.
    induction els as [|i t IH]; intros p id p' H; cbn [write_ids] in H.
    - inversion H; subst. split; [reflexivity|]. split; [intros x []|reflexivity].
    - destruct (Nat.ltb_spec i (length p)) as [Hi|]; [|discriminate].
      apply IH in H as [L [S1 S2]]. rewrite set_nth_length in L. split; [exact L|]. split.
      + intros x Hx. destruct (in_dec Nat.eq_dec x t) as [Ht|Hn]; [apply S1; exact Ht|].
        destruct Hx as [<-|Hx]; [|contradiction]. rewrite S2 by exact Hn.
        apply nth_opt_set_nth_same; exact Hi.
      + intros x Hx. rewrite S2 by (intros Hc; apply Hx; right; exact Hc).
        apply nth_opt_set_nth_other. intros E; apply Hx; left; exact E.
  Qed.

  Lemma write_ids_ok els : forall p id, Forall (fun x => (x < length p)%nat) els -> exists p', write_ids p els id = Ok p'.
  Proof.
    induction els as [|i t IH]; intros p id H; cbn [write_ids]; [eauto|].
    inversion H as [|? ? Hi Ht]; subst. destruct (Nat.ltb_spec i (length p)); [|lia].
    apply IH. rewrite set_nth_length. exact Ht.
  Qed.

  Lemma write_leaves_spec lvs : forall j p p',
    write_leaves ord j lvs p = Ok p' -> NoDup (concat lvs) ->
    length p' = length p /\
    (forall i l, nth_error lvs i = Some l -> forall x, In x l -> nth_opt p' x = Some (ord (j + i))) /\
    (forall x, ~ In x (concat lvs) -> nth_opt p' x = nth_opt p x).
  Proof.
    induction lvs as [|l t IH]; intros j p p' H Hnd; cbn [write_leaves] in H.
    - inversion H; subst. split; [reflexivity|]. split; [intros [|i] ? Hn; discriminate|reflexivity].
    - apply bind_ok in H as [p1 [H1 H]]. cbn [concat] in Hnd.
      apply write_ids_spec in H1 as [L1 [A1 B1]].
      pose proof (NoDup_app_r _ _ Hnd) as Hnd'.
      apply IH in H as [L [A2 B2]]; [|exact Hnd'].
      split; [congruence|]. split.
      + intros [|i] l' Hn x Hx; cbn [nth_error] in Hn.
        * inversion Hn; subst l'. rewrite Nat.add_0_r. rewrite B2; [apply A1; exact Hx|].
          intros Hc. revert Hnd x Hx Hc. clear. induction l as [|a l IH]; intros Hnd x Hx Hc; [destruct Hx|].
          cbn [app] in Hnd. inversion Hnd as [|? ? Hn Hnd']; subst. destruct Hx as [<-|Hx].
          -- apply Hn. apply in_or_app; right; exact Hc.
          -- eapply IH; eassumption.
        * rewrite (A2 i l' Hn x Hx). f_equal. f_equal. lia.
      + intros x Hx. cbn [concat] in Hx. rewrite B2 by (intros Hc; apply Hx; apply in_or_app; right; exact Hc).
        apply B1. intros Hc; apply Hx; apply in_or_app; left; exact Hc.
  Qed.

  Lemma write_leaves_ok lvs : forall j p,
    Forall (fun x => (x < length p)%nat) (concat lvs) -> exists p', write_leaves ord j lvs p = Ok p'.
  Proof.
    induction lvs as [|l t IH]; intros j p H; cbn [write_leaves]; [eauto|].
    cbn [concat] in H. apply Forall_app in H as [Hl Ht].
    destruct (write_ids_ok l p (ord j) Hl) as [p1 E]. rewrite E. cbn [bind].
    apply IH. apply write_ids_spec in E as [L _]. rewrite L. exact Ht.
  Qed.
End WriteProofs.

(* =============================================== MultiJagged: structure theorems *)

(* the leaves draw pairwise distinct numbers below the number of leaves
   (`fetch_add(1)` on a counter that starts at 0, one draw per leaf) *)
Definition ord_ok (ord : nat -> N) (L : nat) : Prop :=
  (forall j, (j < L)%nat -> ord j < N.of_nat L) /\
  (forall i j, (i < L)%nat -> (j < L)%nat -> ord i = ord j -> i = j).

Section Top.
  Variable A : arith.
  Variable D npts : nat.
  Variable wts : list (num A).
  Variable sorter : nat -> list nat -> list nat.
  Variable blk : list nat -> list nat.
  Variable cxlt : nat -> nat -> nat -> bool.
  Variable ord : nat -> N.
  Hypothesis Hsort : sorter_ok sorter cxlt.

  Lemma mj_with_scheme_spec sch parts d p0 p :
    WfScheme A sch parts d -> ord_ok ord (N.to_nat parts) -> length p0 = npts ->
    mj_with_scheme A D npts wts sorter blk ord sch p0 = Ok p ->
    length p = npts /\ Forall (fun x => x < parts) p /\
    exists els, Permutation els (seq 0 npts) /\
      JaggedTree (num A) D cxlt (fun i => nth i p 0) sch 0 els.
  Proof.
    intros W [Or Oi] Hlen H. unfold mj_with_scheme in H. apply bind_ok in H as [lvs [Hrec H]].
    pose (idf := fun i => nth i p 0).
    destruct (mj_rec_spec A D npts wts sorter blk cxlt idf Hsort sch parts d W 0%nat (seq 0 npts) lvs Hrec)
      as [L [Q J]].
    rewrite (WfScheme_leaves A sch parts d W) in L.
    assert (Hnd : NoDup (concat lvs)).
    { eapply Permutation_NoDup; [apply Permutation_sym; exact Q|apply seq_NoDup]. }
    apply write_leaves_spec in H as [Lp [Aw Bw]]; [|exact Hnd].
    assert (Hid : forall i l x, nth_error lvs i = Some l -> In x l -> nth_opt p x = Some (ord i) /\ (i < N.to_nat parts)%nat).
    { intros i l x Hn Hx. split; [exact (Aw i l Hn x Hx)|]. rewrite <- L. apply nth_error_Some. congruence. }
    split; [congruence|]. split; [|exists (concat lvs); split; [exact Q|]].
    - apply Forall_nth_opt. intros x v Hv.
      assert (Hx : (x < npts)%nat) by (apply nth_opt_Some in Hv; lia).
      assert (Hin : In x (concat lvs)).
      { eapply Permutation_in; [apply Permutation_sym; exact Q|]. apply in_seq. lia. }
      apply in_concat in Hin as [l [Hl Hxl]]. apply In_nth_error in Hl as [i Hi].
      destruct (Hid i l x Hi Hxl) as [E Hlt]. rewrite E in Hv. inversion Hv; subst v.
      specialize (Or i Hlt). lia.
    - apply J.
      + unfold leaf_const. rewrite Forall_forall. intros l Hl x y Hx Hy.
        apply In_nth_error in Hl as [i Hi].
        destruct (Hid i l x Hi Hx) as [Ex _]. destruct (Hid i l y Hi Hy) as [Ey _].
        unfold idf. rewrite (nth_opt_nth _ _ _ 0 Ex), (nth_opt_nth _ _ _ 0 Ey). reflexivity.
      + apply FOP_of_nth. intros i1 i2 la lb Hlt H1 H2 x y Hx Hy.
        destruct (Hid i1 la x H1 Hx) as [Ex L1]. destruct (Hid i2 lb y H2 Hy) as [Ey L2].
        unfold idf. rewrite (nth_opt_nth _ _ _ 0 Ex), (nth_opt_nth _ _ _ 0 Ey).
        intros E. apply Oi in E; lia.
  Qed.
End Top.

Section TopScheme.
  Variable A : arith.
  Variable D npts : nat.
  Variable wts : list (num A).
  Variable sorter : nat -> list nat -> list nat.
  Variable blk : list nat -> list nat.
  Variable cxlt : nat -> nat -> nat -> bool.
  Variable root : N -> nat -> N.
  Variable ord : nat -> N.

  (* the scheme has exactly part_count leaves, for every admissible root *)
  Lemma mj_leaf_count k m :
    root_ok root -> 1 <= k -> k < 2 ^ 60 -> (1 <= m)%nat ->
    exists sch, partition_scheme A root k m = Ok sch /\ leaves sch = N.to_nat k /\ WfScheme A sch k m.
  Proof.
    intros Hr Hk Hb Hm. destruct (partition_scheme_wf A root Hr m k Hm Hk Hb) as [s [E W]].
    exists s. split; [exact E|]. split; [eapply WfScheme_leaves; exact W|exact W].
  Qed.

  Lemma mj_structure k m p0 p :
    root_ok root -> sorter_ok sorter cxlt -> ord_ok ord (N.to_nat k) ->
    1 <= k -> k < 2 ^ 60 -> (1 <= m)%nat -> length p0 = npts ->
    multi_jagged A D npts wts sorter blk root ord k m p0 = Ok p ->
    length p = npts /\ Forall (fun x => x < k) p /\
    exists sch els, partition_scheme A root k m = Ok sch /\ leaves sch = N.to_nat k /\
      Permutation els (seq 0 npts) /\ JaggedTree (num A) D cxlt (fun i => nth i p 0) sch 0 els.
  Proof.
    intros Hr Hs Ho Hk Hb Hm Hl H. unfold multi_jagged in H.
    destruct (mj_leaf_count k m Hr Hk Hb Hm) as [sch [E [L W]]]. rewrite E in H. cbn [bind] in H.
    destruct (mj_with_scheme_spec A D npts wts sorter blk cxlt ord Hs sch k m p0 p W Ho Hl H) as [L1 [R [els [P J]]]].
    split; [exact L1|]. split; [exact R|]. exists sch, els. auto.
  Qed.
End TopScheme.

(* ====================================================== certified checkers *)

Lemma check_balance_ok ws p k m : check_balance ws p k m = true <-> balanced ws p k m.
Proof.
  unfold check_balance, balanced. rewrite forallb_forall. split.
  - intros H b Hb. specialize (H (N.to_nat b)). rewrite N2Nat.id in H.
    apply Z.ltb_lt. apply H. apply in_seq. lia.
  - intros H j Hj. apply in_seq in Hj. apply Z.ltb_lt. apply H. lia.
Qed.

Section CheckJagged.
  Variable B : Type.
  Variable D : nat.
  Variable cxlt : nat -> nat -> nat -> bool.
  Variable idf : nat -> N.
  Notation JT := (JaggedTree B D cxlt idf).

  Lemma same_id_ok els : same_id idf els = true -> forall x y, In x els -> In y els -> idf x = idf y.
  Proof.
    destruct els as [|h t]; cbn [same_id]; [intros _ x y []|].
    rewrite forallb_forall. intros H.
    assert (Hh : forall z, In z (h :: t) -> idf z = idf h).
    { intros z [<-|Hz]; [reflexivity|]. apply N.eqb_eq. apply H; exact Hz. }
    intros x y Hx Hy. rewrite (Hh x Hx), (Hh y Hy). reflexivity.
  Qed.

  Lemma slab_before_b_ok a s1 s2 : slab_before_b cxlt idf a s1 s2 = true -> slab_before cxlt idf a s1 s2.
  Proof.
    unfold slab_before_b, slab_before. rewrite forallb_forall. intros H x y Hx Hy.
    specialize (H x Hx). rewrite forallb_forall in H. specialize (H y Hy).
    apply andb_true_iff in H as [H1 H2]. split.
    - apply negb_true_iff; exact H1.
    - apply negb_true_iff in H2. apply N.eqb_neq; exact H2.
  Qed.

  Lemma ord_pairs_b_ok a slabs : ord_pairs_b cxlt idf a slabs = true -> ForallOrdPairs (slab_before cxlt idf a) slabs.
  Proof.
    induction slabs as [|s t IH]; cbn [ord_pairs_b]; intros H; [constructor|].
    apply andb_true_iff in H as [H1 H2]. constructor; [|apply IH; exact H2].
    rewrite Forall_forall. rewrite forallb_forall in H1. intros s2 Hs2. apply slab_before_b_ok. apply H1; exact Hs2.
  Qed.

  Lemma cj_sound : forall sch a lvs els rest, cj B D cxlt idf sch a lvs = Some (els, rest) -> JT sch a els.
  Proof.
    induction sch as [ns mods next IH] using scheme_ind2. intros a lvs els rest H. cbn [cj] in H.
    destruct (N.eqb_spec ns 0) as [E|Hns].
    - subst ns. destruct lvs as [|l t]; [discriminate|].
      destruct (same_id idf l) eqn:Es; [|discriminate]. inversion H; subst.
      constructor. apply same_id_ok; exact Es.
    - destruct next as [children|]; [|discriminate].
      destruct (Nat.eqb_spec (length children) (S (N.to_nat ns))) as [Hlen|]; [|discriminate]. cbn [negb] in H.
      specialize (IH children eq_refl).
      match type of H with match ?g with _ => _ end = _ => destruct g as [[slabs rest']|] eqn:Eg; [|discriminate] end.
      destruct (ord_pairs_b cxlt idf a slabs) eqn:Eo; [|discriminate]. inversion H; subst.
      constructor; try assumption; [|apply ord_pairs_b_ok; exact Eo].
      clear H Hlen Eo. revert lvs slabs Eg IH. induction children as [|c t IHc]; intros lvs slabs Eg IH.
      + inversion Eg; subst. constructor.
      + inversion IH as [|? ? Pc Pt]; subst.
        destruct (cj B D cxlt idf c (S a mod D) lvs) as [[s lvs']|] eqn:Ec; [|discriminate].
        match type of Eg with match ?g with _ => _ end = _ => destruct g as [[ss lvs'']|] eqn:Eg'; [|discriminate] end.
        inversion Eg; subst. constructor; [eapply Pc; exact Ec|eapply IHc; eassumption].
  Qed.

  Lemma is_perm_seq_ok n els : is_perm_seq n els = true -> Permutation els (seq 0 n).
  Proof.
    unfold is_perm_seq. intros H. apply andb_true_iff in H as [H1 H2].
    apply Nat.eqb_eq in H1. rewrite forallb_forall in H2.
    apply Permutation_sym. apply NoDup_Permutation_bis.
    - apply seq_NoDup.
    - rewrite seq_length. lia.
    - intros i Hi. specialize (H2 i Hi). apply existsb_exists in H2 as [y [Hy E]].
      apply Nat.eqb_eq in E. subst y. exact Hy.
  Qed.

  (* the checker accepts only ids that form a jagged hierarchy of the scheme's shape *)
  Lemma check_jagged_sound sch n lvs :
    check_jagged B D cxlt idf sch n lvs = true ->
    exists els, Permutation els (seq 0 n) /\ JT sch 0 els.
  Proof.
    unfold check_jagged. destruct (cj B D cxlt idf sch 0 lvs) as [[els rest]|] eqn:E; [|discriminate].
    destruct rest; [|discriminate]. intros H. exists els. split; [apply is_perm_seq_ok; exact H|].
    eapply cj_sound; exact E.
  Qed.
End CheckJagged.

(* ============================== the oracle contracts are satisfiable (non-vacuity) *)

Section IsortOk.
  Variable key : nat -> nat -> Z.      (* axis, element: any totally ordered key *)
  Definition key_lt (a x y : nat) : bool := (key a x <? key a y)%Z.

  Lemma ins_perm a x l : Permutation (ins (key_lt a) x l) (x :: l).
  Proof.
    induction l as [|y t IH]; cbn [ins]; [apply Permutation_refl|].
    destruct (key_lt a y x); [|apply Permutation_refl].
    rewrite IH. apply perm_swap.
  Qed.

  Lemma ins_sorted a x l : sorted_by key_lt a l -> sorted_by key_lt a (ins (key_lt a) x l).
  Proof.
    unfold sorted_by. induction l as [|y t IH]; cbn [ins]; intros H.
    - constructor; constructor.
    - inversion H as [|? ? Hy Ht]; subst. destruct (key_lt a y x) eqn:E.
      + constructor; [|apply IH; exact Ht].
        eapply Permutation_Forall; [apply Permutation_sym; apply ins_perm|].
        constructor; [|exact Hy]. unfold key_lt in *. apply Z.ltb_lt in E. apply Z.ltb_ge. lia.
      + constructor; [|exact H]. unfold key_lt in *. apply Z.ltb_ge in E.
        constructor; [apply Z.ltb_ge; exact E|].
        rewrite Forall_forall in *. intros z Hz. specialize (Hy z Hz). apply Z.ltb_ge in Hy. apply Z.ltb_ge. lia.
  Qed.

  Lemma isort_sorter_ok : sorter_ok (fun a => isort (key_lt a)) key_lt.
  Proof.
    intros a l. unfold isort. induction l as [|x t [IHp IHs]]; cbn [fold_right].
    - split; [apply Permutation_refl|constructor].
    - split; [rewrite ins_perm; apply perm_skip; exact IHp|apply ins_sorted; exact IHs].
  Qed.
End IsortOk.

Lemma ord_ok_of_nat L : ord_ok N.of_nat L.
Proof. split; intros; lia. Qed.

(* ===================== the partition does not depend on the leaf numbering *)

Section OrdIndep.
  Variable A : arith.
  Variable D npts : nat.
  Variable wts : list (num A).
  Variable sorter : nat -> list nat -> list nat.
  Variable blk : list nat -> list nat.
  Variable cxlt : nat -> nat -> nat -> bool.
  Hypothesis Hsort : sorter_ok sorter cxlt.

  (* two schedules (leaf orders) give the same partition up to the names of
     the parts: two elements share an id under one iff they do under the other *)
  Lemma mj_ord_indep sch parts d ord1 ord2 p0 p1 p2 :
    WfScheme A sch parts d -> ord_ok ord1 (N.to_nat parts) -> ord_ok ord2 (N.to_nat parts) ->
    length p0 = npts ->
    mj_with_scheme A D npts wts sorter blk ord1 sch p0 = Ok p1 ->
    mj_with_scheme A D npts wts sorter blk ord2 sch p0 = Ok p2 ->
    forall x y, (x < npts)%nat -> (y < npts)%nat ->
      (nth_opt p1 x = nth_opt p1 y <-> nth_opt p2 x = nth_opt p2 y).
  Proof.
    intros W [_ I1] [_ I2] Hl H1 H2 x y Hx Hy. unfold mj_with_scheme in H1, H2.
    apply bind_ok in H1 as [lvs [Hrec H1]]. rewrite Hrec in H2. cbn [bind] in H2.
    destruct (mj_rec_spec A D npts wts sorter blk cxlt (fun _ => 0) Hsort sch parts d W 0%nat (seq 0 npts) lvs Hrec)
      as [L [Q _]].
    rewrite (WfScheme_leaves A sch parts d W) in L.
    assert (Hnd : NoDup (concat lvs)).
    { eapply Permutation_NoDup; [apply Permutation_sym; exact Q|apply seq_NoDup]. }
    apply write_leaves_spec in H1 as [_ [A1 _]]; [|exact Hnd].
    apply write_leaves_spec in H2 as [_ [A2 _]]; [|exact Hnd].
    assert (Hin : forall z, (z < npts)%nat -> exists i l, nth_error lvs i = Some l /\ In z l /\ (i < N.to_nat parts)%nat).
    { intros z Hz. assert (Hz' : In z (concat lvs)).
      { eapply Permutation_in; [apply Permutation_sym; exact Q|]. apply in_seq. lia. }
      apply in_concat in Hz' as [l [Hl' Hzl]]. apply In_nth_error in Hl' as [i Hi].
      exists i, l. split; [exact Hi|]. split; [exact Hzl|]. rewrite <- L. apply nth_error_Some. congruence. }
    destruct (Hin x Hx) as [i [li [Ei [Xi Li]]]]. destruct (Hin y Hy) as [j [lj [Ej [Yj Lj]]]].
    rewrite (A1 i li Ei x Xi), (A1 j lj Ej y Yj), (A2 i li Ei x Xi), (A2 j lj Ej y Yj). cbn [Nat.add].
    split; intros E; inversion E as [E']; [apply I1 in E'|apply I2 in E']; try lia; subst; reflexivity.
  Qed.
End OrdIndep.

(* ================================== what the freedom of the sort oracle can change *)

(* a second admissible oracle: ties come out in the reverse of their original order *)
Lemma rev_isort_sorter_ok (key : nat -> nat -> Z) :
  sorter_ok (fun a l => isort (key_lt key a) (rev l)) (key_lt key).
Proof.
  intros a l. destruct (isort_sorter_ok key a (rev l)) as [P S]. split; [|exact S].
  rewrite P. apply Permutation_sym. apply Permutation_rev.
Qed.

Lemma sorted_perm_unique (key : nat -> nat -> Z) a : forall l1 l2,
  Permutation l1 l2 -> NoDup l1 ->
  (forall x y, In x l1 -> In y l1 -> key a x = key a y -> x = y) ->
  sorted_by (key_lt key) a l1 -> sorted_by (key_lt key) a l2 -> l1 = l2.
Proof.
  unfold sorted_by. induction l1 as [|x t1 IH]; intros l2 P Hnd Hinj S1 S2.
  - apply Permutation_nil in P. congruence.
  - destruct l2 as [|y t2]; [apply Permutation_sym, Permutation_nil in P; discriminate|].
    inversion S1 as [|? ? Hx S1']; subst. inversion S2 as [|? ? Hy S2']; subst.
    assert (Exy : x = y).
    { assert (Hxin : In x (y :: t2)) by (eapply Permutation_in; [exact P|left; reflexivity]).
      assert (Hyin : In y (x :: t1)) by (eapply Permutation_in; [apply Permutation_sym; exact P|left; reflexivity]).
      destruct Hxin as [E|Hxt]; [congruence|]. destruct Hyin as [E|Hyt]; [congruence|].
      rewrite Forall_forall in Hx, Hy. specialize (Hx y Hyt). specialize (Hy x Hxt).
      unfold key_lt in Hx, Hy. apply Z.ltb_ge in Hx. apply Z.ltb_ge in Hy.
      apply Hinj; [left; reflexivity|right; exact Hyt|lia]. }
    subst y. f_equal. inversion Hnd; subst.
    apply IH; try assumption; [eapply Permutation_cons_inv; exact P|].
    intros u v Hu Hv. apply Hinj; right; assumption.
Qed.

Lemma NoDup_app_l {X} (l1 l2 : list X) : NoDup (l1 ++ l2) -> NoDup l1.
Proof.
  induction l1 as [|a t IH]; cbn [app]; intros H; [constructor|]. inversion H as [|? ? Hn Ht]; subst.
  constructor; [|apply IH; exact Ht]. intros Hc. apply Hn. apply in_or_app; left; exact Hc.
Qed.

Lemma NoDup_concat_In {X} (ls : list (list X)) l : NoDup (concat ls) -> In l ls -> NoDup l.
Proof.
  induction ls as [|h t IH]; intros H Hin; [destruct Hin|]. cbn [concat] in H.
  destruct Hin as [<-|Hin]; [eapply NoDup_app_l; exact H|apply IH; [eapply NoDup_app_r; exact H|exact Hin]].
Qed.

Section SorterIndep.
  Variable A : arith.
  Variable D npts : nat.
  Variable wts : list (num A).
  Variable blk : list nat -> list nat.
  Variable key : nat -> nat -> Z.
  Variable sorter1 sorter2 : nat -> list nat -> list nat.
  Hypothesis H1 : sorter_ok sorter1 (key_lt key).
  Hypothesis H2 : sorter_ok sorter2 (key_lt key).
  (* no ties: along every axis the points have pairwise distinct coordinates *)
  Hypothesis Hinj : forall a x y, (x < npts)%nat -> (y < npts)%nat -> key a x = key a y -> x = y.

  Lemma sorters_agree a l : NoDup l -> Forall (fun i => (i < npts)%nat) l -> sorter1 a l = sorter2 a l.
  Proof.
    intros Hnd Hin. destruct (H1 a l) as [P1 S1]. destruct (H2 a l) as [P2 S2].
    apply (sorted_perm_unique key a); try assumption.
    - rewrite P1. apply Permutation_sym. exact P2.
    - eapply Permutation_NoDup; [apply Permutation_sym; exact P1|exact Hnd].
    - rewrite Forall_forall in Hin. intros x y Hx Hy. apply Hinj; apply Hin; (eapply Permutation_in; [exact P1|assumption]).
  Qed.

  Lemma mj_rec_sorters : forall sch a perm, NoDup perm -> Forall (fun i => (i < npts)%nat) perm ->
    mj_rec A D npts wts sorter1 blk sch a perm = mj_rec A D npts wts sorter2 blk sch a perm.
  Proof.
    induction sch as [ns mods next IH] using scheme_ind2. intros a perm Hnd Hin. rewrite !mj_rec_eq.
    destruct (ns =? 0); [reflexivity|]. destruct (_ && _); [reflexivity|]. cbv zeta.
    rewrite <- (sorters_agree a perm Hnd Hin).
    destruct (H1 a perm) as [P1 _]. set (sorted := sorter1 a perm) in *.
    destruct (csp A wts sorted mods (blk sorted)) as [pos| | |]; cbn [bind]; try reflexivity.
    destruct (split_many sorted pos 0) as [subs| | |] eqn:Es; cbn [bind]; try reflexivity.
    destruct next as [children|]; [|reflexivity].
    apply split_many_ok in Es as [Hcat _].
    assert (Hsubs : forall s, In s subs -> NoDup s /\ Forall (fun i => (i < npts)%nat) s).
    { intros s Hs. split.
      - eapply NoDup_concat_In; [|exact Hs]. rewrite Hcat. eapply Permutation_NoDup; [apply Permutation_sym; exact P1|exact Hnd].
      - rewrite Forall_forall in *. intros x Hx. apply Hin. eapply Permutation_in; [exact P1|].
        rewrite <- Hcat. eapply in_concat_of; eassumption. }
    specialize (IH children eq_refl). clear - IH Hsubs. revert subs Hsubs.
    induction children as [|c t IHc]; intros subs Hsubs; destruct subs as [|s subs]; cbn [go_ch]; try reflexivity.
    inversion IH as [|? ? Pc Pt]; subst. destruct (Nat.eqb D 0); [reflexivity|].
    destruct (Hsubs s (or_introl eq_refl)) as [Ns Fs]. rewrite (Pc _ s Ns Fs).
    destruct (mj_rec A D npts wts sorter2 blk c (S a mod D) s); cbn [bind]; try reflexivity.
    rewrite (IHc Pt subs); [reflexivity|]. intros s' Hs'. apply Hsubs. right; exact Hs'.
  Qed.

  (* without ties the sort oracle has no freedom: the result is the same, for every arithmetic *)
  Lemma mj_sorter_indep_no_ties root ord k m p0 :
    multi_jagged A D npts wts sorter1 blk root ord k m p0 = multi_jagged A D npts wts sorter2 blk root ord k m p0.
  Proof.
    unfold multi_jagged. destruct (partition_scheme A root k m); cbn [bind]; try reflexivity.
    unfold mj_with_scheme. rewrite mj_rec_sorters; [reflexivity|apply seq_NoDup|].
    rewrite Forall_forall. intros x Hx. apply in_seq in Hx. lia.
  Qed.
End SorterIndep.

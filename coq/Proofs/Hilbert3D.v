(* 3-D: Morton code il3, the curve theorems on cells (x, y, z) for the
   96-entry table machine, interleave3 = il3, and encode_3d = the machine. *)
From Coupe Require Import Lib.Prelude Model.Hilbert Gen.HilbertTables
  Proofs.HilbertCurve Proofs.HilbertCert Proofs.HilbertInst Proofs.HilbertEncode2D Proofs.HilbertPdep
  Proofs.HilbertInterleave.
Open Scope N_scope.

Lemma pow8_2 k : 8 ^ k = 2 ^ (3 * k).
Proof. rewrite N.pow_mul_r. reflexivity. Qed.
Lemma pow8_pos k : 0 < 8 ^ k.
Proof. apply N.neq_0_lt_0, N.pow_nonzero; lia. Qed.
Lemma pow8_S (m : nat) : 8 ^ N.of_nat (S m) = 8 * 8 ^ N.of_nat m.
Proof. rewrite Nat2N.inj_succ, N.pow_succ_r'. reflexivity. Qed.
Lemma pow8_le (a b : nat) : (a <= b)%nat -> 8 ^ N.of_nat a <= 8 ^ N.of_nat b.
Proof. intros H. apply N.pow_le_mono_r; lia. Qed.

Lemma il3_S n x y z :
  il3 (S n) x y z = (4 * bitn n x + 2 * bitn n y + bitn n z) * 8 ^ N.of_nat n + il3 n x y z.
Proof. reflexivity. Qed.

Lemma il3_lt n x y z : il3 n x y z < 8 ^ N.of_nat n.
Proof.
  induction n as [|m IH]; [cbn; lia|]. rewrite il3_S, pow8_S.
  pose proof (bitn_lt m x). pose proof (bitn_lt m y). pose proof (bitn_lt m z). nia.
Qed.

Lemma il3_mod n : forall x y z,
  il3 n x y z = il3 n (x mod 2 ^ N.of_nat n) (y mod 2 ^ N.of_nat n) (z mod 2 ^ N.of_nat n).
Proof.
  induction n as [|m IH]; intros x y z; [reflexivity|]. rewrite !il3_S.
  rewrite !(bitn_mod m (S m)) by lia.
  rewrite (IH x y z), (IH (x mod 2 ^ N.of_nat (S m)) (y mod 2 ^ N.of_nat (S m)) (z mod 2 ^ N.of_nat (S m))),
    !mod_mod_pow2_S.
  reflexivity.
Qed.

Lemma qbit3 a b c : a < 2 -> b < 2 -> c < 2 ->
  qbit 3 (4 * a + 2 * b + c) 0 = a /\ qbit 3 (4 * a + 2 * b + c) 1 = b /\ qbit 3 (4 * a + 2 * b + c) 2 = c.
Proof.
  intros Ha Hb Hc. assert (A : a = 0 \/ a = 1) by lia. assert (B : b = 0 \/ b = 1) by lia.
  assert (C : c = 0 \/ c = 1) by lia.
  destruct A, B, C; subst; repeat split; reflexivity.
Qed.
Lemma qbit3_inv q : q < 8 -> 4 * qbit 3 q 0 + 2 * qbit 3 q 1 + qbit 3 q 2 = q.
Proof.
  intros Hq.
  assert (A : q = 0 \/ q = 1 \/ q = 2 \/ q = 3 \/ q = 4 \/ q = 5 \/ q = 6 \/ q = 7) by lia.
  destruct A as [A|[A|[A|[A|[A|[A|[A|A]]]]]]]; subst; reflexivity.
Qed.

Lemma coord_il3 n : forall x y z,
  coord 3 n 0 (il3 n x y z) = x mod 2 ^ N.of_nat n /\
  coord 3 n 1 (il3 n x y z) = y mod 2 ^ N.of_nat n /\
  coord 3 n 2 (il3 n x y z) = z mod 2 ^ N.of_nat n.
Proof.
  induction n as [|m IH]; intros x y z.
  - cbn [coord il3]. cbn. rewrite !N.mod_1_r. repeat split; reflexivity.
  - rewrite il3_S. pose proof (bitn_lt m x) as Hx. pose proof (bitn_lt m y) as Hy. pose proof (bitn_lt m z) as Hz.
    pose proof (il3_lt m x y z) as Hl. rewrite <- Qp3 in *.
    rewrite !coord_top by (try assumption; change (2 ^ 3) with 8; lia).
    destruct (IH x y z) as [I1 [I2 I3]]. rewrite I1, I2, I3.
    destruct (qbit3 _ _ _ Hx Hy Hz) as [B1 [B2 B3]]. rewrite B1, B2, B3, !mod_pow2_S. repeat split; reflexivity.
Qed.

Lemma il3_coord n : forall c, il3 n (coord 3 n 0 c) (coord 3 n 1 c) (coord 3 n 2 c) = c mod 8 ^ N.of_nat n.
Proof.
  induction n as [|m IH]; intros c.
  - cbn [il3]. cbn. rewrite N.mod_1_r. reflexivity.
  - rewrite il3_S. cbn [coord].
    pose proof (coord_lt 3 m 0 c) as L0. pose proof (coord_lt 3 m 1 c) as L1. pose proof (coord_lt 3 m 2 c) as L2.
    assert (B0 : qbit 3 (qd 3 m c) 0 < 2) by (destruct (qbit_le1 3 (qd 3 m c) 0) as [E|E]; rewrite E; lia).
    assert (B1 : qbit 3 (qd 3 m c) 1 < 2) by (destruct (qbit_le1 3 (qd 3 m c) 1) as [E|E]; rewrite E; lia).
    assert (B2 : qbit 3 (qd 3 m c) 2 < 2) by (destruct (qbit_le1 3 (qd 3 m c) 2) as [E|E]; rewrite E; lia).
    rewrite !bitn_top by assumption.
    rewrite il3_mod. pose proof (pow2_pos (N.of_nat m)).
    rewrite !(N.add_comm (_ * 2 ^ N.of_nat m)), !N.mod_add by lia.
    rewrite <- il3_mod, IH.
    rewrite qbit3_inv by (apply (qd_lt 3)).
    rewrite <- !Qp3. symmetry. apply mod_Qp_S.
Qed.

Lemma il3_div8 n : forall x y z, il3 (S n) x y z / 8 = il3 n (x / 2) (y / 2) (z / 2).
Proof.
  induction n as [|m IH]; intros x y z.
  - rewrite il3_S. cbn [il3]. pose proof (bitn_lt 0 x). pose proof (bitn_lt 0 y). pose proof (bitn_lt 0 z).
    change (8 ^ N.of_nat 0) with 1. apply N.div_small. lia.
  - rewrite (il3_S (S m) x y z), (il3_S m (x / 2) (y / 2) (z / 2)).
    rewrite <- IH, !bitn_div2.
    rewrite (Nat2N.inj_succ m), N.pow_succ_r'.
    set (a := 4 * bitn (S m) x + 2 * bitn (S m) y + bitn (S m) z). set (p := 8 ^ N.of_nat m).
    set (b := il3 (S m) x y z).
    replace (a * (8 * p) + b) with (b + (a * p) * 8) by lia.
    rewrite N.div_add by lia. lia.
Qed.

(* ------------------------------------------------- the 3-D theorems, on cells *)
Theorem enc3_lt n s x y z : s < 12 -> enc3 n s x y z < 8 ^ N.of_nat n.
Proof. intros Hs. unfold enc3. rewrite <- Qp3. apply (cert_enc_lt _ _ _ _ cert3); assumption. Qed.

Theorem dec3_lt n s h :
  let '(x, y, z) := dec3 n s h in x < 2 ^ N.of_nat n /\ y < 2 ^ N.of_nat n /\ z < 2 ^ N.of_nat n.
Proof. unfold dec3. repeat split; apply coord_lt. Qed.

Theorem dec3_enc3 n s x y z : s < 12 -> x < 2 ^ N.of_nat n -> y < 2 ^ N.of_nat n -> z < 2 ^ N.of_nat n ->
  dec3 n s (enc3 n s x y z) = (x, y, z).
Proof.
  intros Hs Hx Hy Hz. unfold dec3, enc3.
  rewrite (cert_dec_enc _ _ _ _ cert3) by assumption.
  rewrite Qp3, N.mod_small by apply il3_lt.
  destruct (coord_il3 n x y z) as [C0 [C1 C2]]. rewrite C0, C1, C2, !N.mod_small by assumption. reflexivity.
Qed.

Theorem enc3_dec3 n s h : s < 12 -> h < 8 ^ N.of_nat n ->
  let '(x, y, z) := dec3 n s h in enc3 n s x y z = h.
Proof.
  intros Hs Hh. unfold dec3, enc3.
  rewrite il3_coord, <- Qp3, <- enc_mod.
  rewrite (cert_enc_dec _ _ _ _ cert3) by assumption.
  rewrite Qp3. apply N.mod_small. assumption.
Qed.

Lemma adjacent_3 n c c' : adjacent 3 n c c' ->
  adjacent3 (coord 3 n 0 c, coord 3 n 1 c, coord 3 n 2 c) (coord 3 n 0 c', coord 3 n 1 c', coord 3 n 2 c').
Proof.
  intros [i [Hi [Hstep Hoth]]]. unfold adjacent3.
  assert (A : i = 0 \/ i = 1 \/ i = 2) by lia. destruct A as [A|[A|A]]; subst i.
  - left. repeat split; [apply Hoth; lia | apply Hoth; lia | assumption].
  - right; left. repeat split; [apply Hoth; lia | apply Hoth; lia | assumption].
  - right; right. repeat split; [apply Hoth; lia | apply Hoth; lia | assumption].
Qed.

Theorem dec3_continuous n s h : s < 12 -> h + 1 < 8 ^ N.of_nat n ->
  adjacent3 (dec3 n s h) (dec3 n s (h + 1)).
Proof.
  intros Hs Hh. unfold dec3. apply adjacent_3.
  apply (cert_dec_continuous _ _ _ _ cert3); [assumption | rewrite Qp3; assumption].
Qed.

Theorem enc3_parent n s x y z : s < 12 -> enc3 (S n) s x y z / 8 = enc3 n s (x / 2) (y / 2) (z / 2).
Proof.
  intros Hs. unfold enc3.
  change 8 with (2 ^ 3) at 1. rewrite (cert_enc_parent _ _ _ _ cert3) by assumption.
  change (2 ^ 3) with 8. rewrite il3_div8. reflexivity.
Qed.

(* ------------------------------------------------------- interleave3 = il3 *)
Lemma il3_bits n : forall x y z j,
  N.testbit (il3 n x y z) j =
  if j <? 3 * N.of_nat n then
    (if j mod 3 =? 0 then N.testbit z (j / 3) else if j mod 3 =? 1 then N.testbit y (j / 3) else N.testbit x (j / 3))
  else false.
Proof.
  induction n as [|m IH]; intros x y z j.
  - cbn [il3]. rewrite N.bits_0. destruct (N.ltb_spec j (3 * N.of_nat 0)); [lia | reflexivity].
  - rewrite il3_S. pose proof (il3_lt m x y z) as Hl. rewrite pow8_2 in *.
    rewrite <- lor_add by assumption. rewrite N.lor_spec, IH.
    rewrite !bitn_testbit.
    destruct (N.ltb_spec j (3 * N.of_nat m)) as [Hlo | Hhi].
    + rewrite N.mul_pow2_bits_low by assumption.
      destruct (N.ltb_spec j (3 * N.of_nat (S m))); [reflexivity | lia].
    + rewrite N.mul_pow2_bits_high by assumption. rewrite orb_false_r.
      set (i := j - 3 * N.of_nat m).
      assert (Hj : j = i + N.of_nat m * 3) by lia.
      assert (Md : j mod 3 = i mod 3) by (rewrite Hj; apply N.mod_add; lia).
      assert (Dv : j / 3 = i / 3 + N.of_nat m) by (rewrite Hj; apply N.div_add; lia).
      rewrite Md, Dv.
      destruct (N.eq_dec i 0) as [E0 | E0]; [| destruct (N.eq_dec i 1) as [E1 | E1]; [| destruct (N.eq_dec i 2) as [E2 | E2]]].
      * rewrite E0 in *. destruct (N.ltb_spec j (3 * N.of_nat (S m))); [| lia].
        change (0 mod 3 =? 0) with true. change (0 / 3) with 0. rewrite N.add_0_l. cbv iota.
        destruct (N.testbit x (N.of_nat m)), (N.testbit y (N.of_nat m)), (N.testbit z (N.of_nat m)); reflexivity.
      * rewrite E1 in *. destruct (N.ltb_spec j (3 * N.of_nat (S m))); [| lia].
        change (1 mod 3 =? 0) with false. change (1 mod 3 =? 1) with true. change (1 / 3) with 0.
        rewrite N.add_0_l. cbv iota.
        destruct (N.testbit x (N.of_nat m)), (N.testbit y (N.of_nat m)), (N.testbit z (N.of_nat m)); reflexivity.
      * rewrite E2 in *. destruct (N.ltb_spec j (3 * N.of_nat (S m))); [| lia].
        change (2 mod 3 =? 0) with false. change (2 mod 3 =? 1) with false. change (2 / 3) with 0.
        rewrite N.add_0_l. cbv iota.
        destruct (N.testbit x (N.of_nat m)), (N.testbit y (N.of_nat m)), (N.testbit z (N.of_nat m)); reflexivity.
      * destruct (N.ltb_spec j (3 * N.of_nat (S m))); [lia |].
        apply (bit_high _ 3); [| lia].
        destruct (N.testbit x (N.of_nat m)), (N.testbit y (N.of_nat m)), (N.testbit z (N.of_nat m)); cbn; lia.
Qed.

Lemma mask3_facts :
  mask_of pdep3_x < 2 ^ 64 /\ mask_of pdep3_y < 2 ^ 64 /\ mask_of pdep3_z < 2 ^ 64 /\
  forall j, j < 64 ->
    N.testbit (mask_of pdep3_x) j = (j mod 3 =? 2) /\ (j mod 3 = 2 -> rank (mask_of pdep3_x) j = j / 3) /\
    N.testbit (mask_of pdep3_y) j = (j mod 3 =? 1) /\ (j mod 3 = 1 -> rank (mask_of pdep3_y) j = j / 3) /\
    N.testbit (mask_of pdep3_z) j = (j mod 3 =? 0) /\ (j mod 3 = 0 -> rank (mask_of pdep3_z) j = j / 3).
Proof.
  split; [vm_compute; reflexivity|]. split; [vm_compute; reflexivity|]. split; [vm_compute; reflexivity|].
  assert (F : forallb (fun j =>
     Bool.eqb (N.testbit (mask_of pdep3_x) j) (j mod 3 =? 2) && (negb (j mod 3 =? 2) || (rank (mask_of pdep3_x) j =? j / 3))
     && Bool.eqb (N.testbit (mask_of pdep3_y) j) (j mod 3 =? 1) && (negb (j mod 3 =? 1) || (rank (mask_of pdep3_y) j =? j / 3))
     && Bool.eqb (N.testbit (mask_of pdep3_z) j) (j mod 3 =? 0) && (negb (j mod 3 =? 0) || (rank (mask_of pdep3_z) j =? j / 3)))
     (range 64) = true) by (vm_compute; reflexivity).
  intros j Hj. pose proof (forallb_range _ _ F j Hj) as G. cbv beta in G.
  apply andb_prop in G. destruct G as [G G6]. apply andb_prop in G. destruct G as [G G5].
  apply andb_prop in G. destruct G as [G G4]. apply andb_prop in G. destruct G as [G G3].
  apply andb_prop in G. destruct G as [G1 G2].
  apply Bool.eqb_prop in G1. apply Bool.eqb_prop in G3. apply Bool.eqb_prop in G5.
  repeat split; try assumption.
  - intros E. rewrite E in G2. cbn in G2. apply N.eqb_eq. assumption.
  - intros E. rewrite E in G4. cbn in G4. apply N.eqb_eq. assumption.
  - intros E. rewrite E in G6. cbn in G6. apply N.eqb_eq. assumption.
Qed.

Theorem interleave3_spec (n : nat) x y z : (n <= 21)%nat ->
  x < 2 ^ N.of_nat n -> y < 2 ^ N.of_nat n -> z < 2 ^ N.of_nat n ->
  interleave3 x y z = il3 n x y z.
Proof.
  intros Hn Hx Hy Hz. destruct mask3_facts as [Mx [My [Mz MF]]].
  unfold interleave3. apply N.bits_inj; intro j.
  rewrite !N.lor_spec, !pdep_spec, il3_bits by assumption.
  destruct (N.lt_ge_cases j 64) as [Hj | Hj].
  - destruct (MF j Hj) as [T1 [R1 [T2 [R2 [T3 R3]]]]]. rewrite T1, T2, T3.
    assert (M3 : j mod 3 < 3) by (apply N.mod_lt; lia).
    assert (A : j mod 3 = 0 \/ j mod 3 = 1 \/ j mod 3 = 2) by (clear - M3; generalize dependent (j mod 3); intros; lia).
    destruct A as [A|[A|A]]; rewrite A in *; cbn [N.eqb Pos.eqb andb orb].
    + rewrite R3 by reflexivity.
      destruct (N.ltb_spec j (3 * N.of_nat n)) as [Hlt | Hge]; [reflexivity|].
      apply (bit_high z (N.of_nat n)); [assumption|]. apply N.div_le_lower_bound; lia.
    + rewrite R2 by reflexivity. rewrite orb_false_r.
      destruct (N.ltb_spec j (3 * N.of_nat n)) as [Hlt | Hge]; [reflexivity|].
      apply (bit_high y (N.of_nat n)); [assumption|]. apply N.div_le_lower_bound; lia.
    + rewrite R1 by reflexivity. rewrite !orb_false_r.
      destruct (N.ltb_spec j (3 * N.of_nat n)) as [Hlt | Hge]; [reflexivity|].
      apply (bit_high x (N.of_nat n)); [assumption|]. apply N.div_le_lower_bound; lia.
  - rewrite (bit_high _ 64 j Mx Hj), (bit_high _ 64 j My Hj), (bit_high _ 64 j Mz Hj). cbn [andb orb].
    destruct (N.ltb_spec j (3 * N.of_nat n)); [lia | reflexivity].
Qed.

(* ------------------------------------------------ encode_3d = the 3-D curve *)
Notation enc_3 := (enc 3 digit3 next3).

Lemma lut3_step s q : s < 12 -> q < 8 ->
  exists e, nth_opt lut3 (N.to_nat (8 * s + q)) = Some e /\ N.land e 7 = digit3 s q /\ N.land e not7_u64 = 8 * next3 s q.
Proof.
  intros Hs Hq.
  assert (F : forallb (fun s => forallb (fun q =>
            match nth_opt lut3 (N.to_nat (8 * s + q)) with
            | Some e => (N.land e 7 =? digit3 s q) && (N.land e not7_u64 =? 8 * next3 s q)
            | None => false
            end) (range 8)) (range 12) = true) by (vm_compute; reflexivity).
  pose proof (forallb_range _ _ (forallb_range _ _ F s Hs) q Hq) as G. cbv beta in G.
  destruct (nth_opt lut3 (N.to_nat (8 * s + q))) as [e|]; [|discriminate].
  apply andb_prop in G. destruct G as [G1 G2]. apply N.eqb_eq in G1. apply N.eqb_eq in G2.
  exists e. auto.
Qed.

Lemma lor_add_8 a b : b < 8 -> N.lor (a * 8) b = a * 8 + b.
Proof. intros H. exact (lor_add a b 3 H). Qed.

Lemma octant_qd (i : nat) z : N.land (N.shiftr z (3 * N.of_nat i)) 7 = qd 3 i z.
Proof. change 7 with (N.ones 3). rewrite N.land_ones, N.shiftr_div_pow2. reflexivity. Qed.

Lemma e3_loop_spec (i : nat) : forall (k : nat) z h s,
  s < 12 -> h < 8 ^ N.of_nat k -> (k + i <= 21)%nat ->
  e3_loop i z (8 * s) h = Ok (h * 8 ^ N.of_nat i + enc_3 i s z).
Proof.
  induction i as [|i' IH]; intros k z h s Hs Hh Hk.
  - cbn [e3_loop enc]. change (8 ^ N.of_nat 0) with 1. f_equal. lia.
  - cbn [e3_loop]. cbv zeta.
    destruct (N.leb_spec 64 (3 * N.of_nat i')) as [Hsh | Hsh]; [lia|].
    rewrite octant_qd.
    pose proof (qd_lt 3 i' z) as Hq. change (2 ^ 3) with 8 in Hq.
    rewrite (N.mul_comm 8 s), lor_add_8, (N.mul_comm s 8) by assumption.
    destruct (lut3_step s _ Hs Hq) as [e [E1 [E2 E3]]]. rewrite E1, E2, E3.
    pose proof (cert_state _ _ _ _ cert3 s Hs) as [Cq _]. destruct (Cq _ Hq) as [Hn [Hd _]].
    change (2 ^ 3) with 8 in Hd.
    assert (Hh8 : h * 8 < 8 ^ N.of_nat (S k)) by (rewrite pow8_S; lia).
    assert (H64 : h * 8 < 2 ^ 64).
    { apply N.lt_le_trans with (8 ^ N.of_nat 21); [| cbn; lia].
      eapply N.lt_le_trans; [exact Hh8 | apply pow8_le; lia]. }
    rewrite N.shiftl_mul_pow2. change (2 ^ 3) with 8.
    rewrite wrap64_small by assumption.
    rewrite lor_add_8 by assumption.
    rewrite (IH (S k)) by (try assumption; try lia; rewrite pow8_S; lia).
    cbn [enc]. rewrite Qp3, pow8_S. f_equal. lia.
Qed.

Theorem encode_3d_spec (n : nat) x y z : (n <= 21)%nat ->
  x < 2 ^ N.of_nat n -> y < 2 ^ N.of_nat n -> z < 2 ^ N.of_nat n ->
  encode_3d x y z (N.of_nat n) = Ok (enc3 n 0 x y z).
Proof.
  intros Hn Hx Hy Hz. unfold encode_3d.
  destruct (N.ltb_spec (N.of_nat n) 64) as [_|]; [|lia].
  destruct (N.ltb_spec x (2 ^ N.of_nat n)) as [_|]; [|lia].
  destruct (N.ltb_spec y (2 ^ N.of_nat n)) as [_|]; [|lia].
  destruct (N.ltb_spec z (2 ^ N.of_nat n)) as [_|]; [|lia].
  cbn [negb orb]. rewrite Nat2N.id.
  change 0 with (8 * 0) at 1.
  rewrite (e3_loop_spec n 0) by (try lia; change (8 ^ N.of_nat 0) with 1; lia).
  rewrite N.mul_0_l, N.add_0_l. unfold enc3. rewrite (interleave3_spec n) by assumption. reflexivity.
Qed.

(* Greedy over an arbitrary weight arithmetic (Model/GreedyW.v): Greedy is an
   LPT run IN THAT ARITHMETIC (the loads are accumulated by the same sequence
   of -- possibly rounded -- additions), the scan visits the weights in
   non-increasing order, LPT's multiset of loads does not depend on which of
   several equally light parts is chosen, ids below the part count, no panic,
   checker correctness.  Laws used: Proofs/ArithWLemmas.v ([order_laws],
   [add_closed]); no associativity, no exactness. *)
From Coupe Require Import Lib.Prelude Model.ArithW Model.GreedyW Proofs.NumPartLemmas Proofs.ArithWLemmas.
From Coq Require Import Permutation.

Section GreedyWProofs.
  Variable A : arith.
  Variable ok : W A -> Prop.
  Hypothesis OL : order_laws A ok.
  Hypothesis AC : add_closed A ok.
  Notation Wt := (W A).
  Notation ltb := (w_ltb A).

  Definition idsW (l : list (itemW A)) : list nat := map snd l.
  Definition wtsW (l : list (itemW A)) : list Wt := map fst l.

  (* ---------- the part chosen by min_by is a lightest one ---------- *)

  Lemma argmin_last_auxW_spec : forall l pre bi bv,
    Forall ok (pre ++ l) -> nth_opt (pre ++ l) bi = Some bv -> (forall x, In x pre -> ltb x bv = false) ->
    exists lm, nth_opt (pre ++ l) (argmin_last_auxW A bi bv (length pre) l) = Some lm
               /\ forall x, In x (pre ++ l) -> ltb x lm = false.
  Proof.
    induction l as [|y t IH]; intros pre bi bv Hok Hb Hpre; cbn [argmin_last_auxW].
    - exists bv. split; auto. rewrite app_nil_r. exact Hpre.
    - assert (Hbv : ok bv) by (rewrite Forall_forall in Hok; apply Hok; eapply nth_opt_In; eauto).
      assert (Hy : ok y) by (rewrite Forall_forall in Hok; apply Hok, in_or_app; right; now left).
      assert (Hpre_ok : forall x, In x pre -> ok x) by (intros x Hx; rewrite Forall_forall in Hok; apply Hok, in_or_app; now left).
      replace (pre ++ y :: t) with ((pre ++ [y]) ++ t) in * by (rewrite <- app_assoc; reflexivity).
      replace (S (length pre)) with (length (pre ++ [y])) by (rewrite app_length; cbn; lia).
      destruct (ltb bv y) eqn:E.
      + apply IH; auto. intros x Hx. apply in_app_or in Hx as [Hx|[<-|[]]]; auto.
        eapply ltb_asym; eauto.
      + apply IH; auto.
        * rewrite <- app_assoc. cbn [app]. rewrite <- (Nat.add_0_r (length pre)), nth_opt_app_r. reflexivity.
        * intros x Hx. apply in_app_or in Hx as [Hx|[<-|[]]].
          -- eapply (ltb_negtrans A ok OL x bv y); auto.
          -- eapply ltb_irrefl; eauto.
  Qed.

  Lemma argmin_lastW_spec l m : Forall ok l -> argmin_lastW A l = Some m ->
    exists lm, nth_opt l m = Some lm /\ forall x, In x l -> ltb x lm = false.
  Proof.
    destruct l as [|x t]; cbn [argmin_lastW]; [discriminate|]. intros Hok H. injection H as <-.
    apply (argmin_last_auxW_spec t [x] 0%nat x); auto.
    intros y [<-|[]]. eapply ltb_irrefl; eauto. now inversion Hok.
  Qed.

  (* ---------- the scan ---------- *)

  Lemma greedy_loopW_spec : forall its pw p p' pw',
    NoDup (idsW its) -> Forall ok pw -> Forall ok (wtsW its) ->
    greedy_loopW A its pw p = Ok (p', pw') ->
    length p' = length p /\ length pw' = length pw /\ Forall ok pw'
    /\ is_lpt_assign A its p' pw /\ lpt_runW A (wtsW its) pw pw'
    /\ (forall i, In i (idsW its) -> exists x, nth_opt p' i = Some x /\ (x < N.of_nat (length pw))%N)
    /\ (forall i, ~ In i (idsW its) -> nth_opt p' i = nth_opt p i).
  Proof.
    induction its as [|[w id] t IH]; intros pw p p' pw' Hnd Hok Hw H; cbn [greedy_loopW idsW wtsW map fst snd] in *.
    - injection H as <- <-. repeat split; auto. constructor. intros i [].
    - fold (idsW t) in *. fold (wtsW t) in *.
      destruct (argmin_lastW A pw) as [m|] eqn:Em; [|discriminate].
      destruct (Nat.ltb id (length p)) eqn:Eid; [|discriminate]. apply Nat.ltb_lt in Eid.
      destruct (argmin_lastW_spec _ _ Hok Em) as [lm [Hlm Hmin]]. rewrite Hlm in H.
      inversion Hnd as [|? ? Hid Hnd']; subst. inversion Hw as [|? ? Hw0 Hwt]; subst.
      assert (Hlm_ok : ok lm) by (rewrite Forall_forall in Hok; apply Hok; eapply nth_opt_In; eauto).
      assert (Hok1 : Forall ok (set_nth pw m (w_add A lm w))) by (apply Forall_set_nth; auto).
      destruct (IH _ _ _ _ Hnd' Hok1 Hwt H) as [L1 [L2 [Hok' [Hass [Hrun [Hin Hout]]]]]].
      rewrite set_nth_length in L1. rewrite set_nth_length in L2.
      assert (Hpid : nth_opt p' id = Some (N.of_nat m)).
      { rewrite (Hout id Hid). now apply nth_opt_set_nth_same. }
      split; [exact L1|]. split; [exact L2|]. split; [exact Hok'|]. split; [|split; [|split]].
      + cbn [is_lpt_assign]. exists (N.of_nat m), lm. rewrite Nat2N.id. auto.
      + eapply lptW_give; eauto.
      + intros i Hi. rewrite set_nth_length in Hin.
        destruct (in_dec Nat.eq_dec i (idsW t)) as [Ht|Ht]; [now apply Hin|].
        destruct Hi as [<-|Hi]; [|contradiction].
        rewrite Hpid. eexists; split; eauto. apply nth_opt_Some in Hlm. lia.
      + intros i Hi. assert (Hne : id <> i) by (intro; apply Hi; left; auto).
        assert (Hnt : ~ In i (idsW t)) by (intro; apply Hi; right; auto).
        rewrite Hout by exact Hnt. apply nth_opt_set_nth_other. exact Hne.
  Qed.

  Lemma greedy_loopW_ok : forall its pw p, Forall ok pw -> Forall ok (wtsW its) ->
    pw <> [] -> (forall i, In i (idsW its) -> (i < length p)%nat) ->
    exists r, greedy_loopW A its pw p = Ok r.
  Proof.
    induction its as [|[w id] t IH]; intros pw p Hok Hw Hne Hr; cbn [greedy_loopW idsW wtsW map fst snd] in *.
    - eexists; reflexivity.
    - destruct pw as [|x0 pw0] eqn:Epw; [congruence|]. rewrite <- Epw in *.
      assert (Em : exists m, argmin_lastW A pw = Some m) by (rewrite Epw; eexists; reflexivity).
      destruct Em as [m Em]. rewrite Em.
      assert (Eid : (id < length p)%nat) by (apply Hr; now left).
      apply Nat.ltb_lt in Eid as Eid'. rewrite Eid'.
      destruct (argmin_lastW_spec _ _ Hok Em) as [lm [Hlm _]]. rewrite Hlm.
      inversion Hw as [|? ? Hw0 Hwt]; subst.
      assert (Hlm_ok : ok lm) by (rewrite Forall_forall in Hok; apply Hok; eapply nth_opt_In; eauto).
      apply IH; auto.
      + apply Forall_set_nth; auto.
      + intro C. apply (f_equal (@length Wt)) in C. rewrite set_nth_length in C. discriminate.
      + intros i Hi. rewrite set_nth_length. apply Hr. now right.
  Qed.

  (* ---------- sorting ---------- *)

  Lemma insert_descW_perm e l : Permutation (insert_descW A e l) (e :: l).
  Proof.
    induction l as [|x t IH]; cbn; auto.
    destruct (ltb_itemW A x e); auto. rewrite IH. apply perm_swap.
  Qed.
  Lemma sort_itemsW_perm l : Permutation (sort_items_descW A l) l.
  Proof. induction l as [|x t IH]; cbn; auto. rewrite insert_descW_perm. constructor. exact IH. Qed.

  (* non-increasing: no later weight is above an earlier one *)
  Fixpoint descW (l : list Wt) : Prop :=
    match l with
    | [] => True
    | x :: t => (forall y, In y t -> ltb x y = false) /\ descW t
    end.

  Lemma ltb_itemW_false x e : ltb_itemW A x e = false -> ltb (fst x) (fst e) = false.
  Proof. unfold ltb_itemW. intros H. now apply orb_false_iff in H as [H _]. Qed.
  Lemma ltb_itemW_true x e : ok (fst x) -> ok (fst e) -> ltb_itemW A x e = true -> ltb (fst e) (fst x) = false.
  Proof.
    unfold ltb_itemW. intros Hx He H. apply orb_true_iff in H as [H|H].
    - eapply ltb_asym; eauto.
    - apply andb_true_iff in H as [H _]. apply (eqb_ok A ok OL) in H; auto. rewrite H. eapply ltb_irrefl; eauto.
  Qed.

  Lemma insert_descW_desc e l : ok (fst e) -> Forall ok (wtsW l) -> descW (wtsW l) -> descW (wtsW (insert_descW A e l)).
  Proof.
    induction l as [|x t IH]; intros He Hok Hd; cbn [insert_descW wtsW map descW] in *.
    - split; auto. intros y [].
    - fold (wtsW t) in *. destruct Hd as [Hx Ht]. inversion Hok as [|? ? Hx0 Hokt]; subst.
      destruct (ltb_itemW A x e) eqn:E; cbn [map descW]; fold (wtsW t).
      + split; [|split; auto]. intros y [<-|Hy].
        * now apply ltb_itemW_true.
        * assert (Hy0 : ok y) by (rewrite Forall_forall in Hokt; auto).
          eapply (ltb_negtrans A ok OL (fst e) (fst x) y); auto. now apply ltb_itemW_true.
      + fold (wtsW (insert_descW A e t)). split; [|apply IH; auto].
        intros y Hy. unfold wtsW in Hy. rewrite (Permutation_map fst (insert_descW_perm e t)) in Hy.
        destruct Hy as [<-|Hy]; [now apply ltb_itemW_false|now apply Hx].
  Qed.

  Lemma sort_itemsW_desc l : Forall ok (wtsW l) -> descW (wtsW (sort_items_descW A l)).
  Proof.
    induction l as [|x t IH]; intros Hok; cbn [sort_items_descW fold_right]; [exact I|].
    fold (sort_items_descW A t). cbn [wtsW map] in Hok. inversion Hok; subst.
    apply insert_descW_desc; auto.
    unfold wtsW. rewrite (Permutation_map fst (sort_itemsW_perm t)). assumption.
  Qed.

  Lemma wts_itemsW_gen (ws : list Wt) s : wtsW (combine ws (seq s (length ws))) = ws.
  Proof. revert s; induction ws as [|w t IH]; intros s; cbn; auto. f_equal. apply IH. Qed.
  Lemma wts_itemsW (ws : list Wt) : wtsW (items_ofW A ws) = ws.
  Proof. apply wts_itemsW_gen. Qed.
  Lemma ids_itemsW (ws : list Wt) : idsW (items_ofW A ws) = seq 0 (length ws).
  Proof.
    unfold items_ofW, idsW. generalize 0%nat. induction ws as [|w t IH]; intros k; cbn; auto. f_equal. apply IH.
  Qed.

  (* ---------- choice independence ---------- *)

  Lemma lpt_runW_ok : forall ws L L', lpt_runW A ws L L' -> Forall ok ws -> Forall ok L -> Forall ok L'.
  Proof.
    induction 1 as [|w ws L i li L' Hi Hmin R IH]; intros Hw HL; auto.
    inversion Hw; subst. apply IH; auto. apply Forall_set_nth; auto.
    apply AC; auto. rewrite Forall_forall in HL. apply HL. eapply nth_opt_In; eauto.
  Qed.

  Theorem lpt_runW_choice_independent : forall ws L1 L1' L2 L2',
    Forall ok ws -> Forall ok L1 ->
    lpt_runW A ws L1 L1' -> lpt_runW A ws L2 L2' -> Permutation L1 L2 -> Permutation L1' L2'.
  Proof.
    induction ws as [|w ws IH]; intros L1 L1' L2 L2' Hw HL1 R1 R2 P.
    - inversion R1; subst. inversion R2; subst. exact P.
    - inversion R1 as [|? ? ? i li ? Hi Hmi R1']; subst.
      inversion R2 as [|? ? ? j lj ? Hj Hmj R2']; subst.
      inversion Hw as [|? ? Hw0 Hwt]; subst.
      assert (HL2 : Forall ok L2) by (rewrite Forall_forall in *; intros x Hx; apply HL1; eapply Permutation_in; [apply Permutation_sym; exact P|exact Hx]).
      assert (Hli : ok li) by (rewrite Forall_forall in HL1; apply HL1; eapply nth_opt_In; eauto).
      assert (Hlj : ok lj) by (rewrite Forall_forall in HL2; apply HL2; eapply nth_opt_In; eauto).
      assert (li = lj).
      { apply (ltb_tie_eq A ok OL); auto.
        - apply Hmj. apply (Permutation_in _ P). eapply nth_opt_In; eauto.
        - apply Hmi. apply (Permutation_in _ (Permutation_sym P)). eapply nth_opt_In; eauto. }
      subst lj.
      destruct (set_nth_perm L1 i li (w_add A li w) Hi) as [r1 [P1 Q1]].
      destruct (set_nth_perm L2 j li (w_add A li w) Hj) as [r2 [P2 Q2]].
      apply (IH (set_nth L1 i (w_add A li w)) L1' (set_nth L2 j (w_add A li w)) L2');
        [exact Hwt|apply Forall_set_nth; auto|exact R1'|exact R2'|].
      rewrite Q1, Q2. constructor.
      apply (Permutation_cons_inv (a := li)). rewrite <- P1, <- P2. exact P.
  Qed.

  (* an LPT assignment is an LPT run *)
  Lemma is_lpt_assign_run : forall its p L, is_lpt_assign A its p L -> exists L', lpt_runW A (wtsW its) L L'.
  Proof.
    induction its as [|[w id] t IH]; intros p L H; cbn [is_lpt_assign wtsW map fst] in *.
    - eexists. constructor.
    - destruct H as [q [lq [_ [Hq [Hmin Ht]]]]]. destruct (IH _ _ Ht) as [L' R].
      exists L'. eapply lptW_give; eauto.
  Qed.

  (* ---------- the theorems ---------- *)

  Lemma nth_opt_allW {B} (P : B -> Prop) (l : list B) :
    (forall i, (i < length l)%nat -> exists x, nth_opt l i = Some x /\ P x) -> Forall P l.
  Proof.
    induction l as [|y t IH]; intros H; constructor.
    - destruct (H 0%nat) as [x [Hx Px]]; [cbn; lia|]. cbn in Hx. now injection Hx as ->.
    - apply IH. intros i Hi. apply (H (S i)). cbn; lia.
  Qed.

  Theorem greedyW_is_lpt : forall ws k p0 p, Forall ok ws -> (2 <= k)%nat -> greedyW A ws k p0 = Ok p ->
    let its := sort_items_descW A (items_ofW A ws) in
    length p = length ws /\ length p = length p0
    /\ Forall (fun x => (x < N.of_nat k)%N) p
    /\ Permutation (wtsW its) ws /\ descW (wtsW its)
    /\ is_lpt_assign A its p (repeat (w_zero A) k)
    /\ exists L, lpt_runW A (wtsW its) (repeat (w_zero A) k) L
         /\ forall L2, lpt_runW A (wtsW its) (repeat (w_zero A) k) L2 -> Permutation L L2.
  Proof.
    intros ws k p0 p Hok Hk H its. unfold greedyW in H.
    destruct (Nat.eqb (length ws) (length p0)) eqn:E; cbn [negb] in H; [|discriminate].
    apply Nat.eqb_eq in E.
    replace (Nat.ltb k 2) with false in H by (symmetry; apply Nat.ltb_ge; lia).
    fold its in H.
    destruct (greedy_loopW A its (repeat (w_zero A) k) p0) as [[p' pw]| | |] eqn:HL; cbn [bind fst] in H; try discriminate.
    injection H as ->.
    pose proof (sort_itemsW_perm (items_ofW A ws)) as P. fold its in P.
    assert (Pw : Permutation (wtsW its) ws).
    { unfold wtsW. rewrite (Permutation_map fst P). fold (wtsW (items_ofW A ws)). now rewrite wts_itemsW. }
    assert (Pi : Permutation (idsW its) (seq 0 (length ws))).
    { unfold idsW. rewrite (Permutation_map snd P). fold (idsW (items_ofW A ws)). now rewrite ids_itemsW. }
    assert (Hnd : NoDup (idsW its)) by (eapply Permutation_NoDup; [symmetry; exact Pi|apply seq_NoDup]).
    assert (Hokw : Forall ok (wtsW its)).
    { rewrite Forall_forall in *. intros x Hx. apply Hok. eapply Permutation_in; eauto. }
    assert (Hz : Forall ok (repeat (w_zero A) k)).
    { apply Forall_forall. intros x Hx. apply repeat_spec in Hx. subst. apply (zero_ok A ok OL). }
    destruct (greedy_loopW_spec _ _ _ _ _ Hnd Hz Hokw HL) as [L1 [L2 [Hok' [Hass [Hrun [Hin _]]]]]].
    rewrite repeat_length in *.
    split; [lia|]. split; [exact L1|]. split; [|split; [exact Pw|split; [|split; [exact Hass|]]]].
    - apply nth_opt_allW. intros i Hi. apply Hin. apply (Permutation_in _ (Permutation_sym Pi)). apply in_seq. lia.
    - unfold its. apply sort_itemsW_desc. now rewrite wts_itemsW.
    - exists pw. split; [exact Hrun|]. intros L2' R2.
      apply (lpt_runW_choice_independent (wtsW its) (repeat (w_zero A) k) pw (repeat (w_zero A) k) L2'); auto.
  Qed.

  Theorem greedyW_total : forall ws k p0, Forall ok ws ->
    (length ws = length p0 -> exists p, greedyW A ws k p0 = Ok p)
    /\ (length ws <> length p0 -> greedyW A ws k p0 = Err (InputLenMismatch (length p0) (length ws))).
  Proof.
    intros ws k p0 Hok. unfold greedyW. split; intros Hlen.
    - apply Nat.eqb_eq in Hlen as E. rewrite E. cbn [negb].
      destruct (Nat.ltb k 2) eqn:Ek; [eexists; reflexivity|]. apply Nat.ltb_ge in Ek.
      set (its := sort_items_descW A (items_ofW A ws)).
      pose proof (sort_itemsW_perm (items_ofW A ws)) as P. fold its in P.
      destruct (greedy_loopW_ok its (repeat (w_zero A) k) p0) as [[p pw] Hr].
      + apply Forall_forall. intros x Hx. apply repeat_spec in Hx. subst. apply (zero_ok A ok OL).
      + rewrite Forall_forall in *. intros x Hx. apply Hok.
        unfold wtsW in Hx. rewrite (Permutation_map fst P) in Hx. fold (wtsW (items_ofW A ws)) in Hx.
        now rewrite wts_itemsW in Hx.
      + destruct k; [lia|discriminate].
      + intros i Hi. unfold idsW in Hi. rewrite (Permutation_map snd P) in Hi. fold (idsW (items_ofW A ws)) in Hi.
        rewrite ids_itemsW in Hi. apply in_seq in Hi. lia.
      + rewrite Hr. cbn [bind fst]. eexists; reflexivity.
    - apply Nat.eqb_neq in Hlen. rewrite Hlen. reflexivity.
  Qed.

  (* ---------- the checker decides "is an LPT assignment" (no law needed) ---------- *)

  Lemma replay_lpt_ok : forall its p L, replay_lpt A its p L = true <-> is_lpt_assign A its p L.
  Proof.
    induction its as [|[w id] t IH]; intros p L; cbn [replay_lpt is_lpt_assign]; [tauto|].
    destruct (nth_opt p id) as [q|] eqn:Eq.
    2:{ split; [discriminate|]. intros [q [lq [C _]]]. discriminate. }
    destruct (nth_opt L (N.to_nat q)) as [lq|] eqn:El.
    2:{ split; [discriminate|]. intros [q' [lq [C [C2 _]]]]. injection C as E. subst q'. congruence. }
    rewrite andb_true_iff, forallb_forall, IH. split.
    - intros [Hm Ht]. exists q, lq. repeat split; auto. intros x Hx. specialize (Hm x Hx). now apply negb_true_iff in Hm.
    - intros [q' [lq' [C [C2 [Hm Ht]]]]]. injection C as E. subst q'. rewrite El in C2. injection C2 as E. subst lq'.
      split; auto. intros x Hx. apply negb_true_iff. auto.
  Qed.

  Theorem check_greedyW_ok ws k p :
    check_greedyW A ws k p = true <->
    (length p = length ws /\ Forall (fun x => (x < N.of_nat k)%N) p
     /\ is_lpt_assign A (sort_items_descW A (items_ofW A ws)) p (repeat (w_zero A) k)).
  Proof.
    unfold check_greedyW. rewrite !andb_true_iff, Nat.eqb_eq, replay_lpt_ok, forallb_forall, Forall_forall.
    split.
    - intros [[H1 H2] H3]. repeat split; auto. intros x Hx. apply N.ltb_lt. auto.
    - intros [H1 [H2 H3]]. repeat split; auto. intros x Hx. apply N.ltb_lt. auto.
  Qed.
End GreedyWProofs.

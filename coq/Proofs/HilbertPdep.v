(* pdep_u64_fallback: the 64-iteration loop deposits the low bits of src at
   the set positions of mask ([pdep_ref], then the bit-level [pdep_spec]); the
   2-D / 3-D interleavings built from it are the Morton codes il2 / il3. *)
From Coupe Require Import Lib.Prelude Model.Hilbert Gen.HilbertTables
  Proofs.HilbertCurve Proofs.HilbertCert Proofs.HilbertInst Proofs.HilbertEncode2D.
Open Scope N_scope.

(* lowest set bit / mask with its lowest set bit cleared, structurally *)
Fixpoint lsbP (p : positive) : positive :=
  match p with xH => xH | xO q => xO (lsbP q) | xI _ => xH end.
Fixpoint clrP (p : positive) : N :=
  match p with xH => 0 | xO q => N.double (clrP q) | xI q => Npos (xO q) end.

Lemma double_spec a : N.double a = 2 * a.
Proof. destruct a; reflexivity. Qed.

Lemma land_double a b : N.land (2 * a) (2 * b) = 2 * N.land a b.
Proof.
  apply N.bits_inj; intro j. rewrite N.land_spec.
  destruct (N.eq_dec j 0) as [E | E].
  - subst j. rewrite !N.testbit_even_0. reflexivity.
  - replace j with (N.succ (N.pred j)) by (apply N.succ_pred; assumption).
    rewrite !N.testbit_even_succ by lia. rewrite N.land_spec. reflexivity.
Qed.
Lemma lor_double a b : N.lor (2 * a) (2 * b) = 2 * N.lor a b.
Proof.
  apply N.bits_inj; intro j. rewrite N.lor_spec.
  destruct (N.eq_dec j 0) as [E | E].
  - subst j. rewrite !N.testbit_even_0. reflexivity.
  - replace j with (N.succ (N.pred j)) by (apply N.succ_pred; assumption).
    rewrite !N.testbit_even_succ by lia. rewrite N.lor_spec. reflexivity.
Qed.
Lemma land_odd_odd a b : N.land (2 * a + 1) (2 * b + 1) = 2 * N.land a b + 1.
Proof.
  apply N.bits_inj; intro j. rewrite N.land_spec.
  destruct (N.eq_dec j 0) as [E | E].
  - subst j. rewrite !N.testbit_odd_0. reflexivity.
  - replace j with (N.succ (N.pred j)) by (apply N.succ_pred; assumption).
    rewrite !N.testbit_odd_succ by lia. rewrite N.land_spec. reflexivity.
Qed.
Lemma land_even_odd a b : N.land (2 * a) (2 * b + 1) = 2 * N.land a b.
Proof.
  apply N.bits_inj; intro j. rewrite N.land_spec.
  destruct (N.eq_dec j 0) as [E | E].
  - subst j. rewrite N.testbit_odd_0, !N.testbit_even_0. reflexivity.
  - replace j with (N.succ (N.pred j)) by (apply N.succ_pred; assumption).
    rewrite N.testbit_odd_succ, !N.testbit_even_succ by lia. rewrite N.land_spec. reflexivity.
Qed.

(* q + r = 2^k - 1  ->  q & r = 0 *)
Lemma land_complement k q : q < 2 ^ k -> N.land q (2 ^ k - 1 - q) = 0.
Proof.
  intros Hq. rewrite <- N.pred_sub, <- N.ones_equiv.
  assert (L : N.ldiff q (N.ones k) = 0).
  { destruct (N.eq_dec q 0) as [E|E]; [subst q; apply N.ldiff_0_l|].
    apply N.ldiff_ones_r_low, N.log2_lt_pow2; lia. }
  rewrite (N.sub_nocarry_ldiff _ _ L).
  apply N.bits_inj; intro j. rewrite N.land_spec, N.ldiff_spec, N.bits_0.
  destruct (N.testbit q j), (N.testbit (N.ones k) j); reflexivity.
Qed.

(* bitmask & bitmask.wrapping_neg() isolates the lowest set bit *)
Lemma land_neg p : forall k, Npos p < 2 ^ k -> N.land (Npos p) (2 ^ k - Npos p) = Npos (lsbP p).
Proof.
  induction p as [q IH | q IH |]; intros k Hk.
  - (* 2q+1 *) destruct (N.eq_dec k 0) as [E|E]; [subst; cbn in Hk; lia|].
    replace k with (N.succ (N.pred k)) in * by (apply N.succ_pred; assumption).
    set (k' := N.pred k) in *. rewrite N.pow_succ_r' in *.
    change (N.pos q~1) with (2 * N.pos q + 1) in *.
    replace (2 * 2 ^ k' - (2 * N.pos q + 1)) with (2 * (2 ^ k' - 1 - N.pos q) + 1) by lia.
    rewrite land_odd_odd, land_complement by lia. reflexivity.
  - (* 2q *) destruct (N.eq_dec k 0) as [E|E]; [subst; cbn in Hk; lia|].
    replace k with (N.succ (N.pred k)) in * by (apply N.succ_pred; assumption).
    set (k' := N.pred k) in *. rewrite N.pow_succ_r' in *.
    change (N.pos q~0) with (2 * N.pos q) in *.
    replace (2 * 2 ^ k' - 2 * N.pos q) with (2 * (2 ^ k' - N.pos q)) by lia.
    rewrite land_double, IH by lia. reflexivity.
  - destruct (N.eq_dec k 0) as [E|E]; [subst; cbn in Hk; lia|].
    replace k with (N.succ (N.pred k)) in * by (apply N.succ_pred; assumption).
    set (k' := N.pred k) in *. rewrite N.pow_succ_r' in *.
    pose proof (pow2_pos k').
    replace (2 * 2 ^ k' - 1) with (2 * (2 ^ k' - 1) + 1) by lia.
    change 1 with (2 * 0 + 1) at 1. rewrite land_odd_odd, N.land_0_l. reflexivity.
Qed.

(* bitmask & (bitmask - 1) clears it *)
Lemma land_pred p : N.land (Npos p) (Npos p - 1) = clrP p.
Proof.
  induction p as [q IH | q IH |].
  - change (N.pos q~1) with (2 * N.pos q + 1). replace (2 * N.pos q + 1 - 1) with (2 * N.pos q) by lia.
    rewrite N.land_comm, land_even_odd, N.land_diag. reflexivity.
  - change (N.pos q~0) with (2 * N.pos q). replace (2 * N.pos q - 1) with (2 * (N.pos q - 1) + 1) by lia.
    rewrite land_even_odd, IH. cbn [clrP]. symmetry. apply double_spec.
  - reflexivity.
Qed.

Lemma clrP_le p : clrP p <= Npos p.
Proof.
  induction p as [q IH | q IH |]; cbn [clrP]; try rewrite (double_spec (clrP q)); try lia.
Qed.

Lemma popcount_double a : popcount (2 * a) = popcount a.
Proof. destruct a; reflexivity. Qed.
Lemma popcount_pos_ge1 p : 1 <= popcount_pos p.
Proof. induction p; cbn [popcount_pos]; lia. Qed.
Lemma popcount_clr p : popcount (clrP p) + 1 = popcount_pos p.
Proof.
  induction p as [q IH | q IH |]; cbn [clrP popcount popcount_pos].
  - lia.
  - rewrite (double_spec (clrP q)), popcount_double. exact IH.
  - reflexivity.
Qed.
Lemma popcount_le_size p : popcount_pos p <= N.pos (Pos.size p).
Proof. induction p as [q IH | q IH |]; cbn [popcount_pos Pos.size]; lia. Qed.
Lemma popcount_le_64 a : a < 2 ^ 64 -> popcount a <= 64.
Proof.
  intros Ha. destruct a as [|p]; [cbn; lia|]. cbn [popcount].
  pose proof (popcount_le_size p) as H1.
  pose proof (N.size_le (N.pos p)) as H2. change (N.size (N.pos p)) with (N.pos (Pos.size p)) in H2.
  assert (N.pos (Pos.size p) < 65).
  { apply (N.pow_lt_mono_r_iff 2); [lia|]. rewrite N.succ_double_spec in H2.
    change (2 ^ 65) with (2 * 2 ^ 64). lia. }
  lia.
Qed.

(* ------------------------------------------- the reference, one bit at a time *)
Lemma pdep_ref_double src m : pdep_ref src (2 * m) = 2 * pdep_ref src m.
Proof. destruct m; reflexivity. Qed.

Lemma pdep_ref_step p : forall src,
  pdep_ref src (Npos p) = N.lor ((src mod 2) * Npos (lsbP p)) (pdep_ref (src / 2) (clrP p)).
Proof.
  induction p as [q IH | q IH |]; intros src; cbn [pdep_ref pdep_pos lsbP clrP].
  - rewrite N.mul_1_r. reflexivity.
  - rewrite (double_spec (clrP q)), pdep_ref_double.
    change (N.pos (lsbP q)~0) with (2 * N.pos (lsbP q)).
    replace (src mod 2 * (2 * N.pos (lsbP q))) with (2 * (src mod 2 * N.pos (lsbP q))) by lia.
    rewrite lor_double. f_equal. apply (IH src).
  - rewrite N.mul_1_r, N.lor_0_r. reflexivity.
Qed.

(* ---------------------------------------------------------------- the loop *)
Lemma pdep_loop_spec fuel : forall res bm sb,
  bm < 2 ^ 64 -> popcount bm <= N.of_nat fuel ->
  fst (fst (pdep_loop fuel (res, bm, sb))) = N.lor res (pdep_ref sb bm).
Proof.
  induction fuel as [|f IH]; intros res bm sb Hbm Hpc.
  - destruct bm as [|p]; [cbn; rewrite N.lor_0_r; reflexivity|].
    cbn [popcount] in Hpc. pose proof (popcount_pos_ge1 p). lia.
  - cbn [pdep_loop]. destruct bm as [|p].
    + cbn [pdep_step]. change (0 =? 0) with true. cbv iota.
      rewrite IH by (cbn; lia). reflexivity.
    + unfold pdep_step. change (N.pos p =? 0) with false. cbv iota.
      rewrite wrap64_small by (change two64 with (2 ^ 64); lia).
      change two64 with (2 ^ 64). rewrite land_neg by assumption. rewrite land_pred.
      change 1 with (N.ones 1) at 1. rewrite N.land_ones, N.shiftr_div_pow2.
      change (2 ^ 1) with 2.
      rewrite IH.
      * rewrite <- N.lor_assoc, <- pdep_ref_step. reflexivity.
      * pose proof (clrP_le p). lia.
      * pose proof (popcount_clr p). cbn [popcount] in Hpc. lia.
Qed.

Theorem pdep_eq_ref src mask : mask < 2 ^ 64 -> pdep src mask = pdep_ref src mask.
Proof.
  intros Hm. unfold pdep. rewrite pdep_loop_spec; [apply N.lor_0_l | assumption |].
  pose proof (popcount_le_64 mask Hm). change (N.of_nat 64) with 64. assumption.
Qed.

(* ------------------------------------------------------------- bit-level *)
Lemma popcount_succ_double a : popcount (2 * a + 1) = 1 + popcount a.
Proof. destruct a; reflexivity. Qed.

Lemma mod2_bit0 a : N.testbit (a mod 2) 0 = N.testbit a 0.
Proof. change 2 with (2 ^ 1). apply N.mod_pow2_bits_low. lia. Qed.
Lemma mod2_bit_high a j : 0 < j -> N.testbit (a mod 2) j = false.
Proof. intros Hj. change 2 with (2 ^ 1). apply N.mod_pow2_bits_high. lia. Qed.

Lemma double_mod_pow2 a k : (2 * a) mod 2 ^ N.succ k = 2 * (a mod 2 ^ k).
Proof. rewrite N.pow_succ_r'. apply N.mul_mod_distr_l; [apply N.pow_nonzero|]; lia. Qed.
Lemma succ_double_mod_pow2 a k : (2 * a + 1) mod 2 ^ N.succ k = 2 * (a mod 2 ^ k) + 1.
Proof.
  rewrite N.pow_succ_r'. pose proof (pow2_pos k).
  symmetry. apply N.mod_unique with (q := a / 2 ^ k).
  - pose proof (N.mod_lt a (2 ^ k)). lia.
  - pose proof (N.div_mod a (2 ^ k)). lia.
Qed.

(* bit k of the result = (bit k of mask) && (bit (number of mask bits below k) of src) *)
Theorem pdep_ref_spec p : forall src k,
  N.testbit (pdep_pos p src) k = N.testbit (Npos p) k && N.testbit src (rank (Npos p) k).
Proof.
  induction p as [q IH | q IH |]; intros src k; cbn [pdep_pos].
  - (* xI *) change (N.pos q~1) with (2 * N.pos q + 1). rewrite N.lor_spec.
    destruct (N.eq_dec k 0) as [E|E].
    + subst k. rewrite mod2_bit0, N.testbit_even_0, N.testbit_odd_0, orb_false_r.
      unfold rank. rewrite N.pow_0_r, N.mod_1_r. reflexivity.
    + replace k with (N.succ (N.pred k)) by (apply N.succ_pred; assumption). set (k' := N.pred k).
      rewrite mod2_bit_high, N.testbit_even_succ, N.testbit_odd_succ by lia. cbn [orb].
      rewrite IH. unfold rank. rewrite succ_double_mod_pow2, popcount_succ_double.
      rewrite N.div2_bits, N.add_1_l. reflexivity.
  - (* xO *) change (N.pos q~0) with (2 * N.pos q).
    destruct (N.eq_dec k 0) as [E|E].
    + subst k. rewrite !N.testbit_even_0. reflexivity.
    + replace k with (N.succ (N.pred k)) by (apply N.succ_pred; assumption). set (k' := N.pred k).
      rewrite !N.testbit_even_succ by lia.
      rewrite IH. unfold rank. rewrite double_mod_pow2, popcount_double. reflexivity.
  - destruct (N.eq_dec k 0) as [E|E].
    + subst k. rewrite mod2_bit0. unfold rank. rewrite N.pow_0_r, N.mod_1_r. reflexivity.
    + rewrite mod2_bit_high by lia. change 1 with (2 ^ 0). rewrite N.pow2_bits_false by lia. reflexivity.
Qed.

Theorem pdep_spec src mask k : mask < 2 ^ 64 ->
  N.testbit (pdep src mask) k = N.testbit mask k && N.testbit src (rank mask k).
Proof.
  intros Hm. rewrite pdep_eq_ref by assumption. destruct mask as [|p].
  - cbn [pdep_ref]. rewrite N.bits_0. reflexivity.
  - apply pdep_ref_spec.
Qed.

(* The traced run of the k-means model ([kmeans_trace], used by the
   correspondence runs to compare the whole trajectory) ends with the result
   of the model proper: [final_of_trace part (kmeans_trace ..) = kmeans ..]. *)
From Coupe Require Import Lib.Prelude Lib.SFloat Lib.Rayon Model.KMeansAbs Model.KMeans Proofs.KMeansProofs.
Local Open Scope nat_scope.

Section Trace.
  Variable A : karith.
  Variable R : reds A.
  Variable rot : option (list (vec A)).
  Variable D : nat.
  Variable cfg : settings A.

  (* the state component of the traced iteration is the iteration; the trace
     grows at its head and its head is the final assignment *)
  Definition tr_rel (r : res (state A)) (rt : res (state A * list (list N))) (acc : list (list N)) : Prop :=
    match rt with
    | Ok (s, tr) => r = Ok s /\ exists tr', tr = st_asg A s :: tr' /\ exists pre, tr' = pre ++ acc
    | Err e => r = Err e
    | Panic p => r = Panic p
    | OutOfFuel => r = OutOfFuel
    end.

  Lemma kmeans_iter_tr_rel cur : forall points weights perm centers cids st acc,
    tr_rel (kmeans_iter A R rot D cfg cur points weights perm centers cids st)
           (kmeans_iter_tr A R rot D cfg cur points weights perm centers cids st acc) acc.
  Proof.
    induction cur as [|cur IH]; intros; cbn [kmeans_iter kmeans_iter_tr];
      destruct (assign_and_balance A R rot D cfg _ points weights perm centers cids st) as [st1| | |]; cbn [bind tr_rel]; auto;
      destruct (new_centers A R D _ points (st_asg A st1) cids centers) as [ncs| | |]; cbn [bind tr_rel]; auto;
      destruct (if s_erode cfg then _ else _) as [infl| | |]; cbn [bind tr_rel]; auto;
      destruct (r_maxby R _ (map2 (dist A) centers ncs)) as [[dm|]| | |]; cbn [bind tr_rel]; auto.
    - split; auto. exists acc. split; auto. exists []. reflexivity.
    - destruct (klt A dm _).
      + cbn [tr_rel]. split; auto. exists acc. split; auto. exists []. reflexivity.
      + destruct (relax_bounds A R _ _ _ _ _) as [lu| | |]; cbn [bind tr_rel]; auto.
        specialize (IH points weights perm ncs cids
                       (mkState A (st_asg A st1) infl (fst lu) (snd lu)) (st_asg A st1 :: acc)).
        destruct (kmeans_iter_tr A R rot D cfg cur points weights perm ncs cids _ _) as [[s tr]| | |]; cbn [tr_rel] in *; auto.
        destruct IH as (E & tr' & -> & pre & ->). split; auto. eexists; split; [reflexivity|].
        exists (pre ++ [st_asg A st1]). now rewrite <- app_assoc.
  Qed.

  Theorem kmeans_trace_final points weights part :
    final_of_trace part (kmeans_trace A R rot D cfg points weights part) = kmeans A R rot D cfg points weights part.
  Proof.
    unfold kmeans_trace, kmeans. destruct (_ <? 2)%N; [reflexivity|].
    unfold kmeans_with_initial. destruct (negb _); [reflexivity|].
    destruct (mapM _ (indexed 0 (center_ids part))) as [centers| | |]; cbn [bind final_of_trace]; auto.
    pose proof (kmeans_iter_tr_rel (s_max_iter cfg) points weights (seq 0 (length points)) centers (center_ids part)
                  (mkState A part (map (fun _ => k_one A) centers) (repeat (k_zero A) (length points))
                           (repeat (k_fmax A) (length points))) []) as H.
    destruct (kmeans_iter_tr A R rot D cfg _ _ _ _ _ _ _ _) as [[s tr]| | |]; cbn [tr_rel] in H; cbn [bind final_of_trace].
    - destruct H as (-> & tr' & -> & _). cbn [bind snd rev]. f_equal.
      now rewrite last_last.
    - now rewrite H.
    - now rewrite H.
    - now rewrite H.
  Qed.
End Trace.

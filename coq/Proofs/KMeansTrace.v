(* The traced run of the k-means model ([kmeans_trace], used by the
   correspondence runs to compare the whole trajectory) ends with the result
   of the model proper: [final_of_trace part (kmeans_trace ..) = kmeans ..]. *)
From Coupe Require Import Lib.Prelude Lib.SFloat Lib.Rayon Model.KMeansAbs Model.KMeans Proofs.KMeansProofs.
Local Open Scope nat_scope.

Section Trace.
  Variable A : karith.
  Variable R : reds A.
  Variable rot : option (list (vec A)).
  Variable D : nat.
  Variable cfg : settings A.

  (* the state component of the traced iteration is the iteration; the trace
     grows at its head and its head is the final assignment *)
  Definition tr_rel (r : res (state A)) (rt : res (state A * list (list N))) (acc : list (list N)) : Prop :=
    match rt with
    | Ok (s, tr) => r = Ok s /\ exists tr', tr = st_asg A s :: tr' /\ exists pre, tr' = pre ++ acc
    | Err e => r = Err e
    | Panic p => r = Panic p
    | OutOfFuel => r = OutOfFuel
    end.

  Lemma kmeans_iter_tr_rel cur : forall points weights perm centers cids st acc,
    tr_rel (kmeans_iter A R rot D cfg cur points weights perm centers cids st)
           (kmeans_iter_tr A R rot D cfg cur points weights perm centers cids st acc) acc.
  Proof.
    induction cur as [|cur IH]; intros; cbn [kmeans_iter kmeans_iter_tr];
      destruct (assign_and_balance A R rot D cfg _ points weights perm centers cids st) as [st1| | |]; cbn [bind tr_rel]; auto;
      destruct (new_centers A R D _ points (st_asg A st1) cids centers) as [ncs| | |]; cbn [bind tr_rel]; auto;
      destruct (if s_erode cfg then _ else _) as [infl| | |]; cbn [bind tr_rel]; auto;
      destruct (r_maxby R _ (map2 (dist A) centers ncs)) as [[dm|]| | |]; cbn [bind tr_rel]; auto.
    - split; auto. exists acc. split; auto. exists []. reflexivity.
    - destruct (klt A dm _).
      + cbn [tr_rel]. split; auto. exists acc. split; auto. exists []. reflexivity.
      + destruct (relax_bounds A R _ _ _ _ _) as [lu| | |]; cbn [bind tr_rel]; auto.
        specialize (IH points weights perm ncs cids
                       (mkState A (st_asg A st1) infl (fst lu) (snd lu)) (st_asg A st1 :: acc)).
        destruct (kmeans_iter_tr A R rot D cfg cur points weights perm ncs cids _ _) as [[s tr]| | |]; cbn [tr_rel] in *; auto.
        destruct IH as (E & tr' & -> & pre & ->). split; auto. eexists; split; [reflexivity|].
        exists (pre ++ [st_asg A st1]). now rewrite <- app_assoc.
  Qed.

  Theorem kmeans_trace_final points weights part :
    final_of_trace part (kmeans_trace A R rot D cfg points weights part) = kmeans A R rot D cfg points weights part.
  Proof.
    unfold kmeans_trace, kmeans. destruct (_ <? 2)%N; [reflexivity|].
    unfold kmeans_with_initial. destruct (negb _); [reflexivity|].
    destruct (mapM _ (indexed 0 (center_ids part))) as [centers| | |]; cbn [bind final_of_trace]; auto.
    pose proof (kmeans_iter_tr_rel (s_max_iter cfg) points weights (seq 0 (length points)) centers (center_ids part)
                  (mkState A part (map (fun _ => k_one A) centers) (repeat (k_zero A) (length points))
                           (repeat (k_fmax A) (length points))) []) as H.
    destruct (kmeans_iter_tr A R rot D cfg _ _ _ _ _ _ _ _) as [[s tr]| | |]; cbn [tr_rel] in H; cbn [bind final_of_trace].
    - destruct H as (-> & tr' & -> & _). cbn [bind snd rev]. f_equal.
      now rewrite last_last.
    - now rewrite H.
    - now rewrite H.
    - now rewrite H.
  Qed.
End Trace.

(* ---- the event-recording run (compared with the `coupe_verif` records of
   k_means.rs): its state component is the run proper *)
Definition res_fst {X Y} (r : res (X * Y)) : res X :=
  match r with
  | Ok (a, _) => Ok a
  | Err e => Err e
  | Panic p => Panic p
  | OutOfFuel => OutOfFuel
  end.

Section Events.
  Variable A : karith.
  Variable R : reds A.
  Variable rot : option (list (vec A)).
  Variable D : nat.
  Variable cfg : settings A.

  Lemma balance_loop_ev_fst b : forall it points weights perm centers cids dmbr target st ev,
    res_fst (balance_loop_ev A R D cfg b it points weights perm centers cids dmbr target st ev) =
    balance_loop A R D cfg b it points weights perm centers cids dmbr target st.
  Proof.
    induction b as [|b IH]; intros; cbn [balance_loop balance_loop_ev res_fst]; [reflexivity|].
    destruct (sweep A cfg points centers cids dmbr (st_infl A st) _) as [[[l u] w]| | |]; cbn [bind res_fst]; auto.
    destruct (apply_writes w (st_asg A st)) as [asg| | |]; cbn [bind res_fst]; auto.
    destruct (mapM _ (indexed 0 cids)) as [nw| | |]; cbn [bind res_fst]; auto.
    destruct (imbalance A R [it; S b] nw) as [imb| | |]; cbn [bind res_fst]; auto.
    destruct (klt A imb _); cbn [res_fst]; auto.
    destruct (new_centers A R D _ points asg cids centers) as [ncs| | |]; cbn [bind res_fst]; auto.
    destruct (relax_bounds A R _ _ _ _ _) as [lu| | |]; cbn [bind res_fst]; auto.
  Qed.

  Lemma assign_and_balance_ev_fst it points weights perm centers cids st ev :
    res_fst (assign_and_balance_ev A R rot D cfg it points weights perm centers cids st ev) =
    assign_and_balance A R rot D cfg it points weights perm centers cids st.
  Proof.
    unfold assign_and_balance_ev, assign_and_balance.
    destruct (obb_of A R rot D [1; it] points) as [obb| | |]; cbn [bind res_fst]; auto.
    destruct (mapM _ (combine centers (st_infl A st))) as [dmbr| | |]; cbn [bind res_fst]; auto.
    destruct (r_sum R [2; it] weights) as [tw| | |]; cbn [bind res_fst]; auto.
    apply balance_loop_ev_fst.
  Qed.

  Lemma kmeans_iter_ev_fst cur : forall points weights perm centers cids st ev,
    res_fst (kmeans_iter_ev A R rot D cfg cur points weights perm centers cids st ev) =
    kmeans_iter A R rot D cfg cur points weights perm centers cids st.
  Proof.
    induction cur as [|cur IH]; intros; cbn [kmeans_iter kmeans_iter_ev];
      rewrite <- (assign_and_balance_ev_fst _ points weights perm centers cids st ev);
      destruct (assign_and_balance_ev A R rot D cfg _ points weights perm centers cids st ev) as [[st1 ev1]| | |];
      cbn [bind res_fst]; auto;
      destruct (new_centers A R D _ points (st_asg A st1) cids centers) as [ncs| | |]; cbn [bind res_fst]; auto;
      destruct (if s_erode cfg then _ else _) as [infl| | |]; cbn [bind res_fst]; auto;
      destruct (r_maxby R _ (map2 (dist A) centers ncs)) as [[dm|]| | |]; cbn [bind res_fst]; auto.
    destruct (klt A dm _); cbn [res_fst]; auto.
    destruct (relax_bounds A R _ _ _ _ _) as [lu| | |]; cbn [bind res_fst]; auto.
  Qed.

  Theorem kmeans_events_final points weights part :
    res_fst (kmeans_events A R rot D cfg points weights part) = kmeans A R rot D cfg points weights part.
  Proof.
    unfold kmeans_events, kmeans. destruct (_ <? 2)%N; [reflexivity|].
    unfold kmeans_with_initial. destruct (negb _); [reflexivity|].
    destruct (mapM _ (indexed 0 (center_ids part))) as [centers| | |]; cbn [bind res_fst]; auto.
    rewrite <- (kmeans_iter_ev_fst (s_max_iter cfg) points weights (seq 0 (length points)) centers (center_ids part) _ []).
    destruct (kmeans_iter_ev A R rot D cfg _ _ _ _ _ _ _ _) as [[s ev]| | |]; cbn [bind res_fst fst]; auto.
  Qed.
End Events.

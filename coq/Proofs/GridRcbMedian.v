(* Proofs about the chunked weighted-median search of Model/GridRcb.v:
   loop invariant, result specification, termination with an explicit fuel
   bound for every pool size when there are at least two chunks, and the
   refutation of termination for the old chunk count (= pool size) at T = 1. *)
From Coupe Require Import Lib.Prelude Lib.SFloat Model.GridRcb.
Open Scope nat_scope.

(* ---------- lists ---------- *)

Lemma skipn_skipn' {A} (a b : nat) (l : list A) : skipn a (skipn b l) = skipn (b + a) l.
Proof.
  revert l; induction b as [|b IH]; intros l; cbn [skipn Nat.add]; auto.
  destruct l as [|x t]; [now rewrite skipn_nil|]. apply IH.
Qed.

Definition slice (ws : list Z) (a b : nat) : list Z := firstn (b - a) (skipn a ws).

Lemma slice_length ws a b : b <= length ws -> length (slice ws a b) = b - a.
Proof. intros H. unfold slice. rewrite firstn_length, skipn_length. lia. Qed.

Lemma skipn_slice ws a b n : skipn n (slice ws a b) = slice ws (a + n) b.
Proof.
  unfold slice. rewrite skipn_firstn_comm, skipn_skipn'. f_equal. lia.
Qed.

Lemma sumZ_cons x l : sumZ (x :: l) = (x + sumZ l)%Z.
Proof. reflexivity. Qed.

Lemma pre_0 ws : pre ws 0 = 0%Z.
Proof. reflexivity. Qed.

Lemma pre_add ws a n : pre ws (a + n) = (pre ws a + sumZ (firstn n (skipn a ws)))%Z.
Proof.
  unfold pre. revert ws; induction a as [|a IH]; intros ws; cbn [Nat.add firstn skipn].
  - cbn. lia.
  - destruct ws as [|x t]; cbn [firstn skipn].
    + rewrite firstn_nil. reflexivity.
    + cbn [sumZ fold_right]. fold (sumZ (firstn (a + n) t)). fold (sumZ (firstn a t)).
      rewrite IH. lia.
Qed.

Lemma firstn_slice ws a b n : a + n <= b -> firstn n (slice ws a b) = firstn n (skipn a ws).
Proof. intros H. unfold slice. rewrite firstn_firstn. f_equal. lia. Qed.

Lemma pre_S ws p : p < length ws -> exists w, nth_opt ws p = Some w /\ pre ws (S p) = (pre ws p + w)%Z.
Proof.
  unfold pre. revert p; induction ws as [|x t IH]; intros p Hp; cbn [length] in Hp; [lia|].
  destruct p as [|p].
  - exists x. cbn. split; auto. lia.
  - destruct (IH p ltac:(lia)) as (w & Hn & Hs). exists w. split; [exact Hn|].
    rewrite (firstn_cons (S p)), (firstn_cons p), !sumZ_cons, Hs. lia.
Qed.

Lemma fold_chunks_nil fuel cs : fold_chunks fuel cs [] = [].
Proof. destruct fuel; reflexivity. Qed.

Lemma fold_chunks_one l : l <> [] -> fold_chunks (length l) (length l) l = [sumZ l].
Proof.
  destruct l as [|x t]; [congruence|]. intros _.
  change (length (x :: t)) with (S (length t)) at 1. cbn [fold_chunks].
  rewrite firstn_all, skipn_all, fold_chunks_nil. reflexivity.
Qed.

(* ---------- one pass of the `for` loop ---------- *)

Section Pass.
  Variables (ws : list Z) (mn mx : Z) (min0 max cs : nat) (lw0 : Z).
  Hypothesis Hcs : 1 <= cs.
  Hypothesis Hmax : max <= length ws.
  Hypothesis Hbr : max = length ws \/ (mx < pre ws max)%Z.

  Definition inner (fuel idx : nat) (acc : Z) (rest : list Z) (curmin : nat) (curlw : Z) : loop_res :=
    for_loop (prefix_scan min0 cs lw0 idx acc (fold_chunks fuel cs rest)) mn mx curmin max curlw.

  (* result of the pass from a chunk boundary [a] on, after at least one chunk
     (the one starting at [curmin] = a - cs) went through the first branch *)
  Definition pass_post (curmin : nat) (r : loop_res) : Prop :=
    match r with
    | Ret p w => curmin <= p < max /\ w = pre ws p /\ (mn <= w <= mx)%Z
    | Cont min' max' lw' =>
        curmin <= min' /\ min' < max' /\ max' <= max /\ lw' = pre ws min' /\ (lw' < mn)%Z
        /\ (max' = length ws \/ (mx < pre ws max')%Z) /\ max' <= min' + cs
    end.

  Lemma pass_post_mono a b r : b <= a -> pass_post a r -> pass_post b r.
  Proof. destruct r; cbn [pass_post]; intuition lia. Qed.

  Lemma inner_spec : forall fuel idx acc curmin curlw,
    let a := min0 + idx * cs in
    length (slice ws a max) <= fuel ->
    curmin + cs = a -> curmin < max ->
    curlw = pre ws curmin -> (curlw < mn)%Z ->
    (a < max -> (lw0 + acc)%Z = pre ws a) ->
    pass_post curmin (inner fuel idx acc (slice ws a max) curmin curlw).
  Proof.
    induction fuel as [|f IH]; intros idx acc curmin curlw a Hlen Hcur Hlt Hlw Hlwmn Hacc.
    - (* no fuel: the slice is empty *)
      rewrite slice_length in Hlen by exact Hmax.
      unfold inner. cbn [fold_chunks prefix_scan for_loop pass_post].
      repeat split; try lia; auto.
    - unfold inner. cbn [fold_chunks].
      destruct (slice ws a max) as [|x rest'] eqn:Es.
      + cbn [prefix_scan for_loop pass_post].
        assert (Hl : length (slice ws a max) = 0) by (rewrite Es; reflexivity).
        rewrite slice_length in Hl by exact Hmax.
        repeat split; try lia; auto.
      + assert (Hl : length (slice ws a max) = max - a) by (apply slice_length; exact Hmax).
        assert (Ha : a < max) by (rewrite Es in Hl; cbn [length] in Hl; lia).
        specialize (Hacc Ha).
        rewrite <- Es.
        cbn [prefix_scan for_loop]. fold a. rewrite Hacc.
        destruct (pre ws a <? mn)%Z eqn:E1.
        * (* first branch: min := a *)
          rewrite skipn_slice.
          replace (a + cs) with (min0 + S idx * cs) by (unfold a; lia).
          apply (pass_post_mono a curmin); [lia|].
          apply (IH (S idx) (acc + sumZ (firstn cs (slice ws a max)))%Z a (pre ws a)).
          -- rewrite slice_length by exact Hmax.
             assert (length (x :: rest') = max - a) by (rewrite <- Es; exact Hl). lia.
          -- unfold a. lia.
          -- exact Ha.
          -- reflexivity.
          -- lia.
          -- intros Hlt'. replace (min0 + S idx * cs) with (a + cs) in * by (unfold a; lia).
             rewrite firstn_slice by lia. rewrite pre_add. lia.
        * destruct (mx <? pre ws a)%Z eqn:E2.
          -- (* second branch: max := a, break *)
             cbn [pass_post]. repeat split; try lia; auto; try (right; lia).
          -- cbn [pass_post]. repeat split; try lia.
  Qed.

  (* the whole pass, from the state (min0, max, lw0) of the outer loop *)
  Hypothesis Hmin : min0 < max.
  Hypothesis Hlw0 : lw0 = pre ws min0.
  Hypothesis Hlw0mx : (lw0 <= mx)%Z.

  Lemma pass_spec :
    pass_post min0 (for_loop (prefix_scan min0 cs lw0 0 0%Z
                                (fold_chunks (length (slice ws min0 max)) cs (slice ws min0 max)))
                             mn mx min0 max lw0).
  Proof.
    assert (Hl : length (slice ws min0 max) = max - min0) by (apply slice_length; exact Hmax).
    rewrite Hl.
    destruct (max - min0) as [|f] eqn:En; [lia|].
    cbn [fold_chunks].
    destruct (slice ws min0 max) as [|x rest'] eqn:Es; [cbn [length] in Hl; lia|].
    rewrite <- Es.
    cbn [prefix_scan for_loop].
    replace (min0 + 0 * cs) with min0 by lia. replace (lw0 + 0)%Z with lw0 by lia.
    destruct (lw0 <? mn)%Z eqn:E1.
    - rewrite skipn_slice.
      replace (min0 + cs) with (min0 + 1 * cs) by lia.
      apply (inner_spec f 1 (0 + sumZ (firstn cs (slice ws min0 max)))%Z min0 lw0).
      + rewrite slice_length by exact Hmax. lia.
      + lia.
      + exact Hmin.
      + exact Hlw0.
      + lia.
      + intros Hlt. replace (min0 + 1 * cs) with (min0 + cs) in * by lia.
        rewrite firstn_slice by lia. rewrite pre_add. lia.
    - destruct (mx <? lw0)%Z eqn:E2; [lia|].
      cbn [pass_post]. repeat split; try lia; try exact Hlw0.
  Qed.
End Pass.

(* ---------- the outer loop ---------- *)

Definition loop_inv (ws : list Z) (mn mx : Z) (min max : nat) (lw : Z) : Prop :=
  min < max /\ max <= length ws /\ lw = pre ws min /\ (lw <= mx)%Z
  /\ (max = length ws \/ (mx < pre ws max)%Z).

(* what a returned (position, left_weight) satisfies, in terms of the thresholds *)
Definition median_post (ws : list Z) (mn mx : Z) (p : nat) (w : Z) : Prop :=
  p < length ws /\ w = pre ws p
  /\ ((mn <= w <= mx)%Z \/ ((w < mn)%Z /\ (S p = length ws \/ (mx < pre ws (S p))%Z))).

Lemma median_loop_spec c T ws mn mx : (mn <= mx + 1)%Z ->
  forall fuel min max lw p w,
  loop_inv ws mn mx min max lw ->
  median_loop c fuel T ws mn mx min max lw = Ok (p, w) ->
  median_post ws mn mx p w.
Proof.
  intros Hmm. induction fuel as [|f IH]; intros min max lw p w Hinv Hr; [discriminate|].
  destruct Hinv as (Hlt & Hmax & Hlw & Hlwmx & Hbr).
  cbn [median_loop] in Hr.
  destruct (Nat.eqb (Nat.max (min_chunks c) T) 0); [discriminate|].
  destruct (Nat.ltb max min || Nat.ltb (length ws) max); [discriminate|].
  set (cs := Nat.max (min_chunk_size c) ((max - min) / Nat.max (min_chunks c) T)) in *.
  destruct (Nat.eqb_spec cs 0) as [|Hcs]; [discriminate|].
  fold (slice ws min max) in Hr.
  pose proof (pass_spec ws mn mx min max cs lw ltac:(lia) Hmax Hbr Hlt Hlw Hlwmx) as Hp.
  destruct (for_loop _ mn mx min max lw) as [p' w'|min' max' lw'].
  - injection Hr as <- <-. cbn [pass_post] in Hp. unfold median_post. intuition lia.
  - cbn [pass_post] in Hp. destruct Hp as (H1 & H2 & H3 & H4 & H5 & H6 & H7).
    destruct (Nat.leb_spec max' (min' + 1)) as [Hle|Hgt].
    + injection Hr as <- <-. unfold median_post.
      assert (max' = S min') by lia. subst max'.
      split; [lia|]. split; [exact H4|]. right. split; [exact H5|]. exact H6.
    + apply (IH min' max' lw' p w); [|exact Hr].
      unfold loop_inv. repeat split; auto; lia.
Qed.

(* no panic, no fuel exhaustion: the search returns when the chunk count is at
   least 2 and the least chunk size is 1, whatever the pool size *)
Lemma median_loop_total c T ws mn mx : (mn <= mx + 1)%Z ->
  2 <= min_chunks c -> min_chunk_size c = 1 ->
  forall fuel min max lw,
  loop_inv ws mn mx min max lw ->
  max - min < 2 ^ fuel ->
  exists p w, median_loop c fuel T ws mn mx min max lw = Ok (p, w).
Proof.
  intros Hmm Hcc Hmcs. induction fuel as [|f IH]; intros min max lw Hinv Hfuel.
  - destruct Hinv as (Hlt & _). cbn in Hfuel. lia.
  - destruct Hinv as (Hlt & Hmax & Hlw & Hlwmx & Hbr).
    cbn [median_loop].
    set (cc := Nat.max (min_chunks c) T).
    assert (Hcc2 : 2 <= cc) by (unfold cc; lia).
    destruct (Nat.eqb_spec cc 0) as [|_]; [lia|].
    destruct (Nat.ltb_spec max min) as [|_]; [lia|].
    destruct (Nat.ltb_spec (length ws) max) as [|_]; [lia|].
    cbn [orb].
    set (cs := Nat.max (min_chunk_size c) ((max - min) / cc)).
    assert (Hcs1 : 1 <= cs) by (unfold cs; lia).
    destruct (Nat.eqb_spec cs 0) as [|_]; [lia|].
    fold (slice ws min max).
    pose proof (pass_spec ws mn mx min max cs lw Hcs1 Hmax Hbr Hlt Hlw Hlwmx) as Hp.
    destruct (for_loop _ mn mx min max lw) as [p' w'|min' max' lw'].
    + eauto.
    + cbn [pass_post] in Hp. destruct Hp as (H1 & H2 & H3 & H4 & H5 & H6 & H7).
      destruct (Nat.leb_spec max' (min' + 1)) as [Hle|Hgt]; [eauto|].
      apply IH.
      * unfold loop_inv. repeat split; auto; lia.
      * (* interval halving: 2 <= max' - min' <= cs = (max - min) / cc <= (max - min) / 2 *)
        assert (Hcs2 : 2 <= cs) by lia.
        assert (Hcseq : cs = (max - min) / cc) by (unfold cs in *; rewrite Hmcs in *; lia).
        assert (Hdiv : (max - min) / cc <= (max - min) / 2)
          by (apply Nat.div_le_compat_l; lia).
        assert (Hhalf : (max - min) / 2 < 2 ^ f).
        { apply Nat.div_lt_upper_bound; [lia|]. cbn [Nat.pow] in Hfuel. lia. }
        lia.
Qed.

(* OLD chunk count (= pool size, no lower bound): with one worker there is a
   single chunk, the state (0, len, 0) repeats for ever *)
Lemma median_loop_T1_stuck c ws mn mx :
  min_chunks c <= 1 -> min_chunk_size c <= 1 -> 2 <= length ws -> (0 < mn)%Z ->
  forall fuel, median_loop c fuel 1 ws mn mx 0 (length ws) 0%Z = OutOfFuel.
Proof.
  intros Hc Hs Hlen Hmn. induction fuel as [|f IH]; [reflexivity|].
  cbn [median_loop].
  replace (Nat.max (min_chunks c) 1) with 1 by lia.
  cbn [Nat.eqb]. rewrite Nat.sub_0_r, Nat.div_1_r.
  destruct (Nat.ltb_spec (length ws) 0) as [|_]; [lia|].
  destruct (Nat.ltb_spec (length ws) (length ws)) as [|_]; [lia|].
  cbn [orb].
  replace (Nat.max (min_chunk_size c) (length ws)) with (length ws) by lia.
  destruct (Nat.eqb_spec (length ws) 0) as [|_]; [lia|].
  cbn [skipn]. rewrite firstn_all.
  assert (Hf : fold_chunks (length ws) (length ws) ws = [sumZ ws]).
  { apply fold_chunks_one. intros ->. cbn in Hlen. lia. }
  rewrite Hf. cbn [prefix_scan for_loop].
  replace (0 + 0)%Z with 0%Z by lia.
  destruct (Z.ltb_spec 0 mn) as [_|]; [|lia].
  replace (0 + 0 * length ws) with 0 by lia.
  destruct (Nat.leb_spec (length ws) (0 + 1)) as [|_]; [lia|].
  exact IH.
Qed.

(* ---------- weighted_median: thresholds + loop ---------- *)

(* the facts about the two f64 thresholds that the balance statement uses
   (decidable; established in Proofs/GridRcbFloat.v): sanity and position
   relative to half the total, then how far from 0.99 / 1.01 times half they
   can be -- one unit for i64 (truncation), a relative 2^-40 for f64 (rounding) *)
Definition band_ok_b (fw : wty) (tot mn mx : Z) : bool :=
  match fw with
  | I64 => if tot <? 2 ^ 46
           then (99 * tot - 200 <=? 200 * mn) && (200 * mx <=? 101 * tot + 200)
           else (2 ^ 40 * (100 * (tot - 2 * mn)) <=? (2 ^ 40 + 1) * tot + 2 ^ 40 * 200)
                && (2 ^ 40 * (100 * (2 * mx - tot)) <=? (2 ^ 40 + 1) * tot + 2 ^ 40 * 200)
  | F64 _ => (2 ^ 40 * (100 * (tot - 2 * mn)) <=? (2 ^ 40 + 1) * tot)
             && (2 ^ 40 * (100 * (2 * mx - tot)) <=? (2 ^ 40 + 1) * tot)
  end%Z.

Definition thr_ok_b (fw : wty) (tolb : N) (tot : Z) : bool :=
  let '(mn, mx) := thresholds fw tolb tot in
  ((0 <=? mx) && (mn <=? mx + 1)
   && (2 * mn <=? tot + 1) && (tot <=? 2 * mx + 1))%Z
  && band_ok_b fw tot mn mx.

Lemma thr_ok_b_spec fw tolb tot mn mx :
  thresholds fw tolb tot = (mn, mx) -> thr_ok_b fw tolb tot = true ->
  (0 <= mx /\ mn <= mx + 1 /\ 2 * mn <= tot + 1 /\ tot <= 2 * mx + 1)%Z
  /\ band_ok_b fw tot mn mx = true.
Proof.
  unfold thr_ok_b. intros ->. intros H. apply andb_true_iff in H as [H Hb]. split; [lia|exact Hb].
Qed.

Lemma weighted_median_spec c fuel T fw ws tot mn mx p w :
  thresholds fw (tol_bits c) tot = (mn, mx) -> (0 <= mx)%Z -> (mn <= mx + 1)%Z -> ws <> [] ->
  weighted_median c fuel T fw ws tot = Ok (p, w) ->
  median_post ws mn mx p w.
Proof.
  intros Ht H0 Hmm Hne. unfold weighted_median. rewrite Ht.
  apply median_loop_spec; [exact Hmm|].
  unfold loop_inv. rewrite pre_0. destruct ws; [congruence|]. cbn [length]. repeat split; auto; lia.
Qed.

Lemma weighted_median_total c fuel T fw ws tot mn mx :
  thresholds fw (tol_bits c) tot = (mn, mx) -> (0 <= mx)%Z -> (mn <= mx + 1)%Z -> ws <> [] ->
  2 <= min_chunks c -> min_chunk_size c = 1 -> length ws < 2 ^ fuel ->
  exists p w, weighted_median c fuel T fw ws tot = Ok (p, w).
Proof.
  intros Ht H0 Hmm Hne Hc Hs Hf. unfold weighted_median. rewrite Ht.
  apply median_loop_total; auto; [|lia].
  unfold loop_inv. rewrite pre_0. destruct ws; [congruence|]. cbn [length]. repeat split; auto; lia.
Qed.

(* the property's reading of a returned cut: the low side is within 1% of half
   the weight (i64: plus one unit; f64: no unit), or slab [p] strictly contains
   the half-weight mark *)
Definition band_of (fw : wty) : Z -> Z -> Prop :=
  match fw with I64 => band_i64 | F64 _ => band_rel 40 end.
Definition bal_strong (fw : wty) (tot wl sr sl : Z) : Prop :=
  band_of fw tot wl \/ (2 * wl < tot <= 2 * (wl + sr))%Z.

Lemma bal_strong_prop fw tot wl sr sl : bal_strong fw tot wl sr sl -> bal_prop fw tot wl sr sl.
Proof.
  unfold bal_strong, bal_prop, band_of. destruct fw; unfold bal_i64, bal_rel, adjacent; intros [H|H]; auto; right; left; lia.
Qed.

Lemma median_post_balanced fw tolb ws tot mn mx p w :
  thresholds fw tolb tot = (mn, mx) -> thr_ok_b fw tolb tot = true ->
  tot = sumZ ws -> (0 <= tot)%Z ->
  median_post ws mn mx p w ->
  exists s, nth_opt ws p = Some s /\ bal_strong fw tot w s 0.
Proof.
  intros Ht Hok Htot Hnn (Hp & Hw & Hb).
  destruct (thr_ok_b_spec _ _ _ _ _ Ht Hok) as ((H0 & H1 & H2 & H3) & Hband).
  destruct (pre_S ws p Hp) as (s & Hs & Hpre).
  exists s. split; [exact Hs|]. unfold bal_strong.
  destruct Hb as [Hb|(Hlt & Hb)].
  - left. unfold band_of, band_ok_b in *. destruct fw.
    + unfold band_i64. destruct (tot <? 2 ^ 46)%Z.
      * unfold band_unit. lia.
      * unfold band_unit_rel. change (2 ^ 40)%Z with 1099511627776%Z in *. lia.
    + unfold band_rel. change (2 ^ 40)%Z with 1099511627776%Z in *. lia.
  - right. destruct Hb as [Hb|Hb].
    + (* last slab: everything above the cut *)
      assert (pre ws (S p) = sumZ ws) by (unfold pre; rewrite Hb, firstn_all; reflexivity).
      lia.
    + lia.
Qed.

Lemma weighted_median_T1_stuck c fw ws tot :
  min_chunks c <= 1 -> min_chunk_size c <= 1 -> 2 <= length ws ->
  (0 < fst (thresholds fw (tol_bits c) tot))%Z ->
  forall fuel, weighted_median c fuel 1 fw ws tot = OutOfFuel.
Proof.
  intros Hc Hs Hl Hmn fuel. unfold weighted_median.
  destruct (thresholds fw (tol_bits c) tot) as [mn mx]. cbn [fst] in Hmn.
  apply median_loop_T1_stuck; auto.
Qed.

(* Proofs about Model/Rcb.v for C03: the in-place reordering computes the set
   split {x < pivot} / {x >= pivot}; the recursion produces a BisectTree with
   heap-numbered leaves; soundness of the checkers. *)
From Coupe Require Import Lib.Prelude Lib.SFloat Model.Rcb.
From Coq Require Import Permutation FSets.FMapPositive.
Open Scope Z_scope.

(* ---------- list helpers ---------- *)

Lemma swap_perm {A} (rest : list A) j x0 p :
  nth_opt rest j = Some p -> Permutation (p :: set_nth rest j x0) (x0 :: rest).
Proof.
  revert j; induction rest as [|y t IH]; intros [|j] H; cbn [nth_opt set_nth] in *; try discriminate.
  - inversion H; subst. apply perm_swap.
  - specialize (IH j H).
    eapply perm_trans; [apply perm_swap|].
    eapply perm_trans; [apply perm_skip, IH|]. apply perm_swap.
Qed.

Lemma filter_perm {A} (f : A -> bool) (l : list A) :
  Permutation (filter (fun x => negb (f x)) l ++ filter f l) l.
Proof.
  induction l as [|x t IH]; cbn [filter app]; [constructor|].
  destruct (f x); cbn [negb app].
  - eapply perm_trans; [apply Permutation_sym, Permutation_middle|]. apply perm_skip, IH.
  - apply perm_skip, IH.
Qed.

Lemma perm_h0 {A} (nl nr s : list A) x :
  Permutation (nl ++ nr) s -> Permutation ((nl ++ [x]) ++ nr) (x :: s).
Proof.
  intros H. rewrite <- app_assoc. cbn [app].
  eapply perm_trans; [apply Permutation_sym, Permutation_middle|]. apply perm_skip, H.
Qed.
Lemma perm_h2 {A} (nl nr s : list A) y :
  Permutation (nl ++ nr) s -> Permutation (nl ++ (nr ++ [y])) (s ++ [y]).
Proof. intros H. rewrite app_assoc. apply Permutation_app_tail, H. Qed.
Lemma perm_h1 {A} (nl nr s : list A) x y :
  Permutation (nl ++ nr) s -> Permutation ((nl ++ [y]) ++ (nr ++ [x])) (x :: s ++ [y]).
Proof.
  intros H. rewrite <- app_assoc. cbn [app].
  eapply perm_trans; [apply Permutation_sym, Permutation_middle|].
  eapply perm_trans; [apply perm_skip; rewrite app_assoc; apply Permutation_sym, Permutation_cons_append|].
  eapply perm_trans; [apply perm_swap|]. apply perm_skip.
  eapply perm_trans; [apply perm_skip, H|]. apply Permutation_cons_append.
Qed.

Lemma nth_opt_In {A} (l : list A) n x : nth_opt l n = Some x -> In x l.
Proof.
  revert n; induction l as [|y t IH]; intros [|n] H; cbn [nth_opt] in H; try discriminate.
  - inversion H; left; reflexivity.
  - right; eapply IH; exact H.
Qed.

Section Proofs.
  Variable C : Type.
  Variables ltb leb : C -> C -> bool.
  Variable mid : C -> C -> C.
  Variables dist addc : C -> C -> C.
  Variables zero inf : C.
  Variable within_tol : Z -> Z -> bool.
  Variables old by_coord probe_max : bool.
  Variable valid : C -> bool.

  (* Rust's `<` restricted to the valid (non-NaN) coordinates is a strict weak
     order and `<=` is its complement *)
  Hypothesis lt_irrefl : forall x, valid x = true -> ltb x x = false.
  Hypothesis lt_negtrans : forall x y z, valid x = true -> valid y = true -> valid z = true ->
    ltb x y = true -> ltb x z = true \/ ltb z y = true.
  Hypothesis le_lt : forall x y, valid x = true -> valid y = true -> leb x y = negb (ltb y x).

  Notation item := (item C).
  Notation keyed := (keyed C).
  Notation hoare := (hoare C ltb leb).
  Notation hoare_back := (hoare_back C ltb leb).
  Notation reorder_split := (reorder_split C ltb leb).

  Definition vkey (x : keyed) : Prop := valid (fst x) = true.

  (* ---------- reorder_split_scalar ---------- *)

  Lemma hoare_S pv n x f b aL aR :
    hoare pv (S n) (x :: f) b aL aR =
    if ltb (fst x) pv then hoare pv n f b (x :: aL) aR else hoare_back pv n x f b aL aR.
  Proof. reflexivity. Qed.
  Lemma hoare_back_0 pv x f b aL aR :
    hoare_back pv O x f b aL aR = if leb pv (fst x) then Some (aL, x :: aR) else Some (x :: aL, aR).
  Proof. reflexivity. Qed.
  Lemma hoare_back_S pv m x f y b aL aR :
    hoare_back pv (S m) x f (y :: b) aL aR =
    if leb pv (fst y) then hoare_back pv m x f b aL (y :: aR) else hoare pv m f b (y :: aL) (x :: aR).
  Proof. reflexivity. Qed.

  Definition hoare_post (pv : C) (seg aL aR : list keyed) (r : option (list keyed * list keyed)) : Prop :=
    exists nl nr, r = Some (nl ++ aL, nr ++ aR) /\ Permutation (nl ++ nr) seg
      /\ Forall (fun y => ltb (fst y) pv = true) nl /\ Forall (fun y => ltb (fst y) pv = false) nr.

  Lemma hoare_spec pv : valid pv = true -> forall n,
    (forall seg fs bs aL aR, length seg = n -> Forall vkey seg ->
       hoare_post pv seg aL aR (hoare pv n (seg ++ fs) (rev seg ++ bs) aL aR))
    /\ (forall x seg fs bs aL aR, length seg = n -> Forall vkey seg -> vkey x ->
          ltb (fst x) pv = false ->
          hoare_post pv (x :: seg) aL aR (hoare_back pv n x (seg ++ fs) (rev seg ++ bs) aL aR)).
  Proof.
    intros Hpv. induction n as [|n [IHf IHb]]; split.
    - intros seg fs bs aL aR Hl _. destruct seg; [|discriminate].
      exists [], []. cbn. repeat split; constructor.
    - intros x seg fs bs aL aR Hl _ Hx Hlt. destruct seg; [|discriminate].
      cbn [app rev]. rewrite hoare_back_0, (le_lt _ _ Hpv Hx), Hlt. cbn [negb].
      exists [], [x]. cbn. repeat split; try constructor; auto.
    - intros seg fs bs aL aR Hl Hv. destruct seg as [|x seg]; [discriminate|].
      injection Hl as Hl. inversion Hv as [|? ? Hx Hv']; subst.
      cbn [app]. rewrite hoare_S. destruct (ltb (fst x) pv) eqn:E.
      + cbn [rev]. rewrite <- app_assoc.
        destruct (IHf seg fs ([x] ++ bs) (x :: aL) aR eq_refl Hv') as (nl & nr & Hr & Hp & Hnl & Hnr).
        exists (nl ++ [x]), nr. rewrite Hr. repeat split.
        * rewrite <- app_assoc. reflexivity.
        * apply perm_h0, Hp.
        * apply Forall_app; split; [exact Hnl|]. constructor; [exact E|constructor].
        * exact Hnr.
      + cbn [rev]. rewrite <- app_assoc.
        exact (IHb x seg fs ([x] ++ bs) aL aR eq_refl Hv' Hx E).
    - intros x seg fs bs aL aR Hl Hv Hx Hlt.
      (* the last element of the segment *)
      destruct (rev seg) as [|y rs] eqn:Er.
      { apply (f_equal (@length _)) in Er. rewrite rev_length, Hl in Er. discriminate. }
      assert (Hseg : seg = rev rs ++ [y]).
      { rewrite <- (rev_involutive seg), Er. reflexivity. }
      assert (Hl' : length (rev rs) = n).
      { rewrite Hseg, app_length in Hl. cbn in Hl. lia. }
      assert (Hv2 : Forall vkey (rev rs) /\ vkey y).
      { rewrite Hseg in Hv. apply Forall_app in Hv. destruct Hv as [A B]. inversion B; auto. }
      destruct Hv2 as [Hvr Hy].
      cbn [app]. rewrite hoare_back_S, (le_lt _ _ Hpv Hy).
      destruct (ltb (fst y) pv) eqn:E; cbn [negb].
      + (* swap *)
        rewrite Hseg, <- app_assoc.
        pose proof (IHf (rev rs) ([y] ++ fs) bs (y :: aL) (x :: aR) Hl' Hvr) as H.
        rewrite rev_involutive in H.
        destruct H as (nl & nr & Hr & Hp & Hnl & Hnr).
        exists (nl ++ [y]), (nr ++ [x]). rewrite Hr. repeat split.
        * rewrite <- !app_assoc. reflexivity.
        * apply perm_h1, Hp.
        * apply Forall_app; split; [exact Hnl|]. constructor; [exact E|constructor].
        * apply Forall_app; split; [exact Hnr|]. constructor; [exact Hlt|constructor].
      + rewrite Hseg, <- app_assoc.
        pose proof (IHb x (rev rs) ([y] ++ fs) bs aL (y :: aR) Hl' Hvr Hx Hlt) as H.
        rewrite rev_involutive in H.
        destruct H as (nl & nr & Hr & Hp & Hnl & Hnr).
        exists nl, (nr ++ [y]). rewrite Hr. repeat split.
        * rewrite <- app_assoc. reflexivity.
        * apply (perm_h2 nl nr (x :: rev rs) y Hp).
        * exact Hnl.
        * apply Forall_app; split; [exact Hnr|]. constructor; [exact E|constructor].
  Qed.

  (* reorder_split_scalar returns a permutation of the items, the left part
     strictly below the pivot's coordinate, the right part not below it; it
     succeeds for every in-range pivot index *)
  Lemma reorder_split_scalar_spec (xs : list keyed) (i : nat) :
    Forall vkey xs -> (i < length xs)%nat ->
    exists p l r, nth_opt xs i = Some p /\ reorder_split xs i = Ok (l, r)
      /\ Permutation (l ++ r) xs
      /\ Forall (fun y => ltb (fst y) (fst p) = true) l
      /\ Forall (fun y => ltb (fst y) (fst p) = false) r.
  Proof.
    intros Hv Hi. destruct (nth_opt_lt xs i Hi) as [p Hp].
    exists p.
    destruct xs as [|x0 rest]; [cbn in Hi; lia|].
    unfold Rcb.reorder_split. rewrite Hp. rewrite <- !rev_alt.
    set (tail := match i with O => rest | S j => set_nth rest j x0 end).
    assert (Hperm : Permutation (p :: tail) (x0 :: rest)).
    { unfold tail. destruct i as [|j]; cbn [nth_opt] in Hp.
      - inversion Hp; subst. apply Permutation_refl.
      - apply swap_perm; exact Hp. }
    assert (Hvp : vkey p).
    { rewrite Forall_forall in Hv. apply Hv. eapply nth_opt_In; exact Hp. }
    assert (Hvt : Forall vkey tail).
    { assert (H : Forall vkey (p :: tail)).
      { rewrite Forall_forall in *. intros y Hy. apply Hv.
        eapply Permutation_in; [exact Hperm|exact Hy]. }
      inversion H; assumption. }
    destruct (proj1 (hoare_spec (fst p) Hvp (length tail)) tail [] [] [] [] eq_refl Hvt)
      as (nl & nr & Hr & Hpm & Hnl & Hnr).
    rewrite !app_nil_r in Hr. rewrite Hr.
    exists (match nl with [] => [] | z :: a' => z :: rev a' end), (p :: nr).
    split; [reflexivity|]. split; [destruct nl; [reflexivity|rewrite <- rev_alt; reflexivity]|]. split; [|split].
    - eapply perm_trans; [|exact Hperm].
      eapply perm_trans; [apply Permutation_sym, Permutation_middle|]. apply perm_skip.
      eapply perm_trans; [|exact Hpm]. apply Permutation_app_tail.
      destruct nl as [|z a']; [constructor|]. apply perm_skip, Permutation_sym, Permutation_rev.
    - destruct nl as [|z a']; [constructor|]. inversion Hnl; subst. constructor; [assumption|].
      rewrite Forall_forall in *. intros y Hy. apply in_rev in Hy. auto.
    - constructor; [apply lt_irrefl; exact Hvp|exact Hnr].
  Qed.

  (* ---------- rcb_recurse ---------- *)

  Notation rcb_rec := (rcb_rec C ltb leb mid dist addc zero inf within_tol old by_coord probe_max).
  Notation BisectTree := (BisectTree C ltb).

  Definition vitem (it : item) : Prop := Forall (fun c => valid c = true) (co it).
  Definition pit (x : item * N) : pitem C := (co (fst x), snd x).
  Definition in_heap (k : nat) (i : N) (x : item * N) : Prop :=
    ((i + 1) * 2 ^ N.of_nat k <= snd x + 1 /\ snd x + 2 <= (i + 2) * 2 ^ N.of_nat k)%N.

  Lemma keys_spec a (its : list item) xs : keys C a its = Some xs ->
    map snd xs = its /\ Forall (fun x => nth_opt (co (snd x)) a = Some (fst x)) xs.
  Proof.
    revert xs; induction its as [|it t IH]; intros xs H; cbn [keys] in H.
    - inversion H; subst. split; constructor.
    - destruct (nth_opt (co it) a) as [c|] eqn:E; [|discriminate].
      destruct (keys C a t) as [r|]; [|discriminate]. inversion H; subst.
      destruct (IH r eq_refl) as [A B]. cbn [map snd fst]. split; [f_equal; exact A|].
      constructor; [exact E|exact B].
  Qed.

  Lemma rcb_rec_nil fuel sched D k i a sum bb : rcb_rec fuel sched D k [] i a sum bb = Ok [].
  Proof. destruct k; reflexivity. Qed.

  Lemma reorder_split_inv (xs : list keyed) i l r :
    Forall vkey xs -> reorder_split xs i = Ok (l, r) ->
    exists p, nth_opt xs i = Some p /\ Permutation (l ++ r) xs
      /\ Forall (fun y => ltb (fst y) (fst p) = true) l
      /\ Forall (fun y => ltb (fst y) (fst p) = false) r.
  Proof.
    intros Hv H. destruct (Nat.lt_ge_cases i (length xs)) as [Hi|Hi].
    - destruct (reorder_split_scalar_spec xs i Hv Hi) as (p & l' & r' & Hp & Hr & A & B & D).
      rewrite Hr in H. inversion H; subst. exists p; auto.
    - exfalso. unfold Rcb.reorder_split in H.
      destruct (nth_opt xs i) as [p|] eqn:E.
      + apply nth_opt_Some in E. lia.
      + destruct xs as [|x0 rest]; [discriminate H|]. rewrite E in H. discriminate H.
  Qed.

  Lemma pow2_succ k : (2 ^ N.of_nat (S k) = 2 * 2 ^ N.of_nat k)%N.
  Proof. rewrite Nat2N.inj_succ, N.pow_succ_r'. reflexivity. Qed.

  Lemma vkey_of_keys a its xs : keys C a its = Some xs -> Forall vitem its -> Forall vkey xs.
  Proof.
    intros Hk Hv. destruct (keys_spec a its xs Hk) as [Hm Hc]. subst its.
    rewrite Forall_forall in *. intros x Hx. unfold vkey.
    specialize (Hc x Hx). specialize (Hv (snd x) (in_map snd _ _ Hx)).
    unfold vitem in Hv. rewrite Forall_forall in Hv. apply Hv. eapply nth_opt_In; exact Hc.
  Qed.

  (* the two node facts of rcb_rec_spec, stated separately for reuse (C04) *)
  Lemma node_below a (xs l r : list keyed) (p : C) (L R : list (item * N)) :
    Forall vkey xs -> Forall (fun x => nth_opt (co (snd x)) a = Some (fst x)) xs ->
    Permutation (l ++ r) xs ->
    Forall (fun y => ltb (fst y) p = true) l -> Forall (fun y => ltb (fst y) p = false) r ->
    valid p = true ->
    Permutation (map fst L) (map snd l) -> Permutation (map fst R) (map snd r) ->
    forall x y, In x (map pit L) -> In y (map pit R) -> below C ltb a x y.
  Proof.
    intros Hvx Hc Hperm Hl Hr Hp PL PR x y Hx Hy.
    apply in_map_iff in Hx, Hy. destruct Hx as ([itx idx] & <- & Hx), Hy as ([ity idy] & <- & Hy).
    assert (Hix : In itx (map snd l)).
    { eapply Permutation_in; [exact PL|]. apply (in_map fst) in Hx. exact Hx. }
    assert (Hiy : In ity (map snd r)).
    { eapply Permutation_in; [exact PR|]. apply (in_map fst) in Hy. exact Hy. }
    apply in_map_iff in Hix, Hiy.
    destruct Hix as ([cx itx'] & Ex & Hix), Hiy as ([cy ity'] & Ey & Hiy). cbn [snd] in Ex, Ey. subst.
    assert (Hinx : In (cx, itx) xs) by (eapply Permutation_in; [exact Hperm|apply in_or_app; left; exact Hix]).
    assert (Hiny : In (cy, ity) xs) by (eapply Permutation_in; [exact Hperm|apply in_or_app; right; exact Hiy]).
    rewrite Forall_forall in Hc, Hl, Hr, Hvx.
    exists cx, cy. unfold coord, pit. cbn [fst snd].
    split; [exact (Hc _ Hinx)|]. split; [exact (Hc _ Hiny)|].
    specialize (Hl _ Hix). specialize (Hr _ Hiy). cbn [fst] in Hl, Hr.
    destruct (lt_negtrans cx p cy (Hvx _ Hinx) Hp (Hvx _ Hiny) Hl) as [A|A]; [exact A|congruence].
  Qed.

  Lemma node_disjoint k iter_id (L R : list (item * N)) :
    Forall (in_heap k (2 * iter_id + 1)) L -> Forall (in_heap k (2 * iter_id + 2)) R ->
    ids_disjoint C (map pit L) (map pit R).
  Proof.
    intros RL RR x y Hx Hy Heq.
    apply in_map_iff in Hx, Hy. destruct Hx as (x' & <- & Hx), Hy as (y' & <- & Hy).
    rewrite Forall_forall in RL, RR. specialize (RL _ Hx). specialize (RR _ Hy).
    unfold in_heap, pit in *. cbn [snd] in Heq. rewrite Heq in RL.
    set (P := (2 ^ N.of_nat k)%N) in *.
    replace (2 * iter_id + 1 + 2)%N with (2 * iter_id + 3)%N in RL by lia.
    replace (2 * iter_id + 2 + 1)%N with (2 * iter_id + 3)%N in RR by lia.
    lia.
  Qed.

  Theorem rcb_rec_spec : forall k fuel sched D its iter_id a sum bb asg,
    Forall vitem its ->
    rcb_rec fuel sched D k its iter_id a sum bb = Ok asg ->
    Permutation (map fst asg) its /\ BisectTree D k a (map pit asg) /\ Forall (in_heap k iter_id) asg.
  Proof.
    induction k as [|k IH]; intros fuel sched D its iter_id a sum bb asg Hv H.
    - destruct its as [|it0 t]; cbn [Rcb.rcb_rec] in H; inversion H; subst.
      + repeat split; try constructor. intros x y [].
      + change ((it0, iter_id) :: map (fun it : item => (it, iter_id)) t)
          with (map (fun it : item => (it, iter_id)) (it0 :: t)).
        set (its := it0 :: t). repeat split.
        * rewrite map_map. cbn [fst]. rewrite map_id. apply Permutation_refl.
        * apply bt_leaf. intros x y Hx Hy. rewrite map_map in Hx, Hy.
          apply in_map_iff in Hx, Hy. destruct Hx as (? & <- & _), Hy as (? & <- & _). reflexivity.
        * rewrite Forall_forall. intros x Hx. apply in_map_iff in Hx. destruct Hx as (? & <- & _).
          unfold in_heap. cbn [snd N.of_nat]. lia.
    - destruct its as [|it0 t].
      { rewrite rcb_rec_nil in H. inversion H; subst. repeat split; try constructor. intros x y []. }
      set (its := it0 :: t) in *. cbn [Rcb.rcb_rec] in H. fold its in H.
      destruct (nth_opt bb a) as [[mn mx]|]; [|discriminate].
      destruct (keys C a its) as [xs|] eqn:Hk; [|discriminate].
      destruct (keys_spec a its xs Hk) as [Hm Hc].
      pose proof (vkey_of_keys a its xs Hk Hv) as Hvx.
      destruct (search C ltb leb mid dist addc zero inf within_tol old by_coord probe_max
                       fuel (sched iter_id) 0 xs sum mn mx None) as [sr|e|s|]; cbn [bind] in H; try discriminate.
      (* the two sides, whatever the search answered *)
      assert (Hsides : exists l r wl pos p,
        (match sr with
         | AllLeft pos => Ok (xs, [], sum, pos)
         | SplitAt i wl pos _ => bind (reorder_split xs i) (fun lr => Ok (fst lr, snd lr, wl, pos))
         end) = Ok (l, r, wl, pos)
        /\ Permutation (l ++ r) xs
        /\ Forall (fun y => ltb (fst y) p = true \/ r = []) l
        /\ Forall (fun y => ltb (fst y) p = false) r /\ (r = [] \/ valid p = true)).
      { destruct sr as [i wl pos why|pos].
        - destruct (reorder_split xs i) as [[l r]|e|s|] eqn:Hr; cbn [bind] in H; try discriminate.
          destruct (reorder_split_inv xs i l r Hvx Hr) as (p & Hp & A & B & B2).
          exists l, r, wl, pos, (fst p). cbn [bind fst snd]. repeat split; auto.
          + eapply Forall_impl; [|exact B]. intros; left; assumption.
          + right. rewrite Forall_forall in Hvx. apply Hvx. eapply nth_opt_In; exact Hp.
        - exists xs, [], sum, pos, mn. repeat split; auto.
          + rewrite app_nil_r. apply Permutation_refl.
          + rewrite Forall_forall. intros; right; reflexivity. }
      destruct Hsides as (l & r & wl & pos & p & Hs & Hperm & Hl & Hr & Hp).
      rewrite Hs in H. cbn [bind] in H.
      destruct (rcb_rec fuel sched D k (map snd l) (2 * iter_id + 1)%N ((a + 1) mod D)%nat wl
                        (set_nth bb a (mn, pos))) as [L|e|s|] eqn:HL; cbn [bind] in H; try discriminate.
      destruct (rcb_rec fuel sched D k (map snd r) (2 * iter_id + 2)%N ((a + 1) mod D)%nat (sum - wl)
                        (set_nth bb a (pos, mx))) as [R|e|s|] eqn:HR; cbn [bind] in H; try discriminate.
      inversion H; subst asg. clear H.
      assert (Hvl : Forall vitem (map snd l) /\ Forall vitem (map snd r)).
      { assert (Hall : Forall vitem (map snd (l ++ r))).
        { rewrite Forall_forall in *. intros it Hit. apply Hv. rewrite <- Hm.
          eapply Permutation_in; [apply Permutation_map, Hperm|exact Hit]. }
        rewrite map_app in Hall. apply Forall_app in Hall. exact Hall. }
      destruct Hvl as [Hvl Hvr].
      destruct (IH _ _ _ _ _ _ _ _ _ Hvl HL) as (PL & TL & RL).
      destruct (IH _ _ _ _ _ _ _ _ _ Hvr HR) as (PR & TR & RR).
      split; [|split].
      + rewrite map_app, <- Hm.
        eapply perm_trans; [apply Permutation_app; [exact PL|exact PR]|].
        rewrite <- map_app. apply Permutation_map, Hperm.
      + rewrite map_app. apply bt_node; [| |exact TL|exact TR].
        * (* separation *)
          intros x y Hx Hy.
          apply in_map_iff in Hx, Hy. destruct Hx as ([itx idx] & <- & Hx), Hy as ([ity idy] & <- & Hy).
          assert (Hix : In itx (map snd l)).
          { eapply Permutation_in; [exact PL|]. apply (in_map fst) in Hx. exact Hx. }
          assert (Hiy : In ity (map snd r)).
          { eapply Permutation_in; [exact PR|]. apply (in_map fst) in Hy. exact Hy. }
          apply in_map_iff in Hix, Hiy.
          destruct Hix as ([cx itx'] & Ex & Hix), Hiy as ([cy ity'] & Ey & Hiy). cbn [snd] in Ex, Ey. subst.
          assert (Hinx : In (cx, itx) xs) by (eapply Permutation_in; [exact Hperm|apply in_or_app; left; exact Hix]).
          assert (Hiny : In (cy, ity) xs) by (eapply Permutation_in; [exact Hperm|apply in_or_app; right; exact Hiy]).
          rewrite Forall_forall in Hc, Hl, Hr, Hvx.
          exists cx, cy. unfold coord, pit. cbn [fst snd].
          split; [exact (Hc _ Hinx)|]. split; [exact (Hc _ Hiny)|].
          destruct Hp as [Hp|Hp]; [subst r; destruct Hiy|].
          destruct (Hl _ Hix) as [Hlt|Hnil]; [|subst r; destruct Hiy].
          specialize (Hr _ Hiy). cbn [fst] in Hlt, Hr.
          destruct (lt_negtrans cx p cy (Hvx _ Hinx) Hp (Hvx _ Hiny) Hlt) as [A|A]; [exact A|congruence].
        * (* disjoint id ranges *)
          intros x y Hx Hy Heq.
          apply in_map_iff in Hx, Hy. destruct Hx as (x' & <- & Hx), Hy as (y' & <- & Hy).
          rewrite Forall_forall in RL, RR. specialize (RL _ Hx). specialize (RR _ Hy).
          unfold in_heap, pit in *. cbn [snd] in Heq. rewrite Heq in RL.
          set (P := (2 ^ N.of_nat k)%N) in *.
          replace (2 * iter_id + 1 + 2)%N with (2 * iter_id + 3)%N in RL by lia.
          replace (2 * iter_id + 2 + 1)%N with (2 * iter_id + 3)%N in RR by lia.
          lia.
      + apply Forall_app. rewrite Forall_forall in RL, RR.
        assert (HP : (0 < 2 ^ N.of_nat k)%N) by (apply N.neq_0_lt_0, N.pow_nonzero; lia).
        split; rewrite Forall_forall; intros x Hx; [specialize (RL _ Hx)|specialize (RR _ Hx)];
          unfold in_heap in *; rewrite pow2_succ; set (P := (2 ^ N.of_nat k)%N) in *; nia.
  Qed.

  (* ---------- the trie-based stores equal the sequential ones ---------- *)

  Lemma succ_pos_inj a b : N.succ_pos a = N.succ_pos b -> a = b.
  Proof.
    intros H. apply N.succ_inj. rewrite <- !N.succ_pos_spec, H. reflexivity.
  Qed.
  Lemma succ_pos_succ a : N.succ_pos (N.succ a) = Pos.succ (N.succ_pos a).
  Proof. destruct a; reflexivity. Qed.

  (* [j]: the position the key [N.succ_pos j] stands for *)
  Lemma readback_add m i v : forall p j,
    readback (PositiveMap.add (N.succ_pos i) v m) (N.succ_pos j) p
    = if ((j <=? i)%N && (i <? j + N.of_nat (length p))%N)%bool
      then set_nth (readback m (N.succ_pos j) p) (N.to_nat (i - j)) v
      else readback m (N.succ_pos j) p.
  Proof.
    induction p as [|w t IH]; intros j; cbn [readback length].
    - destruct (N.leb_spec j i), (N.ltb_spec i (j + N.of_nat 0)); cbn [andb]; try reflexivity; lia.
    - rewrite <- succ_pos_succ, IH. destruct (N.eq_dec i j) as [->|Hne].
      + rewrite PositiveMap.gss, N.sub_diag. cbn [N.to_nat set_nth].
        destruct (N.leb_spec j j), (N.ltb_spec j (j + N.of_nat (S (length t)))); cbn [andb]; try lia.
        destruct (N.leb_spec (N.succ j) j); [lia|]. cbn [andb]. reflexivity.
      + rewrite PositiveMap.gso by (intros Q; apply succ_pos_inj in Q; congruence).
        destruct (N.leb_spec j i), (N.ltb_spec i (j + N.of_nat (S (length t)))), (N.leb_spec (N.succ j) i),
          (N.ltb_spec i (N.succ j + N.of_nat (length t))); cbn [andb]; try lia; try reflexivity.
        replace (N.to_nat (i - j)) with (S (N.to_nat (i - N.succ j))) by lia. reflexivity.
  Qed.

  Lemma readback_empty : forall p j, readback (PositiveMap.empty N) j p = p.
  Proof. induction p as [|w t IH]; intros j; cbn [readback]; [reflexivity|]. rewrite PositiveMap.gempty, IH. reflexivity. Qed.

  Lemma scatter_all_in_range : forall asg p,
    scatter C p asg =
    if forallb (fun x => Nat.ltb (ix (fst x)) (length p)) asg
    then Ok (fold_left (fun q x => set_nth q (ix (fst x)) (snd x)) asg p) else Panic 3.
  Proof.
    induction asg as [|[it id] t IH]; intros p; cbn [scatter forallb fold_left fst snd]; [reflexivity|].
    destruct (Nat.ltb (ix it) (length p)); cbn [andb]; [|reflexivity].
    rewrite IH, set_nth_length. reflexivity.
  Qed.

  Theorem scatter_fast_eq p asg : scatter_fast C p asg = scatter C p asg.
  Proof.
    rewrite scatter_all_in_range. unfold scatter_fast. cbv zeta.
    assert (Hrange : forallb (fun x : item * N => (ixN (fst x) <? N.of_nat (length p))%N) asg
                     = forallb (fun x => Nat.ltb (ix (fst x)) (length p)) asg).
    { clear. induction asg as [|x t IH]; cbn [forallb]; [reflexivity|]. rewrite IH. f_equal. unfold Rcb.ix.
      destruct (N.ltb_spec (ixN (fst x)) (N.of_nat (length p))), (Nat.ltb_spec (N.to_nat (ixN (fst x))) (length p)); try reflexivity; lia. }
    rewrite Hrange.
    destruct (forallb (fun x => Nat.ltb (ix (fst x)) (length p)) asg) eqn:E; [|reflexivity]. f_equal.
    assert (G : forall asg m, forallb (fun x => Nat.ltb (ix (fst x)) (length p)) asg = true ->
              readback (fill C m asg) 1%positive p
              = fold_left (fun q x => set_nth q (ix (fst x)) (snd x)) asg (readback m 1%positive p)).
    { clear. induction asg as [|[it id] t IH]; intros m H; cbn [fill fold_left fst snd]; [reflexivity|].
      cbn [forallb fst] in H. apply andb_true_iff in H. destruct H as [H1 H2]. apply Nat.ltb_lt in H1. unfold Rcb.ix in H1.
      rewrite IH by exact H2. f_equal. change 1%positive with (N.succ_pos 0). rewrite readback_add.
      destruct (N.leb_spec 0 (ixN it)); [|lia].
      destruct (N.ltb_spec (ixN it) (0 + N.of_nat (length p))); [|lia]. cbn [andb]. rewrite N.sub_0_r. reflexivity. }
    rewrite (G asg _ E), readback_empty. reflexivity.
  Qed.

  (* ---------- stores, offset normalisation: rcb_core ---------- *)

  Notation rcb_core := (rcb_core C ltb leb mid dist addc zero inf within_tol old by_coord probe_max).

  Lemma scatter_keep : forall t p p' j v,
    scatter C p t = Ok p' -> ~ In j (map (fun x => ix (fst x)) t) ->
    nth_opt p j = Some v -> nth_opt p' j = Some v.
  Proof.
    induction t as [|[it2 id2] t IHt]; intros p p' j v H Hnot Hj; cbn [scatter] in H.
    - inversion H; subst. exact Hj.
    - destruct (Nat.ltb (ix it2) (length p)); [|discriminate].
      cbn [map fst] in Hnot. apply (IHt _ _ j v H).
      + intros Q; apply Hnot; right; exact Q.
      + rewrite nth_opt_set_nth_other; [exact Hj|]. intros Q; apply Hnot; left; exact Q.
  Qed.

  Lemma scatter_spec : forall asg p p',
    scatter C p asg = Ok p' ->
    length p' = length p
    /\ (NoDup (map (fun x => ix (fst x)) asg) ->
        forall x, In x asg -> nth_opt p' (ix (fst x)) = Some (snd x)).
  Proof.
    induction asg as [|[it id] t IH]; intros p p' H; cbn [scatter] in H.
    - inversion H; subst. split; [reflexivity|]. intros _ x [].
    - destruct (Nat.ltb (ix it) (length p)) eqn:E; [|discriminate].
      apply Nat.ltb_lt in E.
      destruct (IH _ _ H) as [Hl Hw]. rewrite set_nth_length in Hl. split; [exact Hl|].
      cbn [map fst]. intros Hnd x [Hx|Hx]; inversion Hnd as [|? ? Hnot Hnd']; subst.
      + cbn [fst snd]. apply (scatter_keep _ _ _ _ _ H Hnot). apply nth_opt_set_nth_same; exact E.
      + apply Hw; assumption.
  Qed.

  Lemma minN_spec d l : In (minN d l) (d :: l) /\ Forall (fun v => (minN d l <= v)%N) (d :: l).
  Proof.
    revert d; induction l as [|x t IH]; intros d; cbn [minN].
    - split; [left; reflexivity|constructor; [lia|constructor]].
    - destruct (IH (N.min d x)) as [A B]. inversion B as [|? ? B1 B2]; subst. split.
      + destruct A as [A|A]; [|right; right; exact A].
        destruct (N.min_spec d x) as [[_ Q]|[_ Q]]; [left|right; left]; rewrite <- A; exact (eq_sym Q).
      + constructor; [lia|]. constructor; [lia|exact B2].
  Qed.

  Lemma map_nth_seq {A} (l : list A) d : map (fun j => nth j l d) (seq 0 (length l)) = l.
  Proof.
    induction l as [|x t IH]; cbn [length seq map nth]; [reflexivity|].
    f_equal. rewrite <- seq_shift, map_map. exact IH.
  Qed.

  Lemma nth_opt_nth {A} (l : list A) n x d : nth_opt l n = Some x -> nth n l d = x.
  Proof.
    revert n; induction l as [|y t IH]; intros [|n] H; cbn [nth_opt nth] in *; try discriminate.
    - inversion H; reflexivity.
    - apply IH; exact H.
  Qed.

  Lemma BisectTree_map (f : N -> N) D : forall d a its,
    BisectTree D d a its ->
    (forall x y, In x its -> In y its -> f (snd x) = f (snd y) -> snd x = snd y) ->
    BisectTree D d a (map (fun x => (fst x, f (snd x))) its).
  Proof.
    induction 1 as [d a its Hs|d a lo hi Hb Hd Tl IHl Th IHh]; intros Hinj.
    - apply bt_leaf. intros x y Hx Hy. apply in_map_iff in Hx, Hy.
      destruct Hx as (x' & <- & Hx), Hy as (y' & <- & Hy). cbn [snd]. f_equal. apply Hs; assumption.
    - rewrite map_app. apply bt_node.
      + intros x y Hx Hy. apply in_map_iff in Hx, Hy.
        destruct Hx as (x' & <- & Hx), Hy as (y' & <- & Hy).
        destruct (Hb _ _ Hx Hy) as (cx & cy & A & B & Q). exists cx, cy. auto.
      + intros x y Hx Hy. apply in_map_iff in Hx, Hy.
        destruct Hx as (x' & <- & Hx), Hy as (y' & <- & Hy). cbn [snd]. intros Q.
        apply (Hd _ _ Hx Hy). apply Hinj; [apply in_or_app; left; exact Hx|apply in_or_app; right; exact Hy|exact Q].
      + apply IHl. intros x y Hx Hy. apply Hinj; apply in_or_app; left; assumption.
      + apply IHh. intros x y Hx Hy. apply Hinj; apply in_or_app; right; assumption.
  Qed.

  (* what rcb_core adds to rcb_rec: the stores and the offset; stated once
     for C03 and C04 *)
  Lemma rcb_core_asg : forall fuel sched D k its sum bb p0 p,
    Forall vitem its -> map ix its = seq 0 (length p0) -> its <> [] ->
    rcb_core fuel sched D k its sum bb p0 = Ok p ->
    exists asg off,
      rcb_rec fuel sched D k its 0%N 0%nat sum bb = Ok asg
      /\ (forall x, In x asg -> (off <= snd x)%N)
      /\ length p = length p0
      /\ Permutation (map (fun x => (fst x, (snd x - off)%N)) asg) (combine its p).
  Proof.
    intros fuel sched D k its sum bb p0 p Hv Hix Hne H. unfold Rcb.rcb_core in H.
    destruct (rcb_rec fuel sched D k its 0%N 0%nat sum bb) as [asg|e|s|] eqn:Hrec; cbn [bind] in H; try discriminate.
    rewrite scatter_fast_eq in H.
    destruct (rcb_rec_spec _ _ _ _ _ _ _ _ _ _ Hv Hrec) as (PL & TL & RL).
    destruct (scatter C p0 asg) as [p1|e|s|] eqn:Hsc; cbn [bind] in H; try discriminate.
    destruct (scatter_spec _ _ _ Hsc) as [Hlen Hw].
    assert (Hnd : NoDup (map (fun x => ix (fst x)) asg)).
    { rewrite <- (map_map fst ix). eapply Permutation_NoDup; [apply Permutation_sym, Permutation_map, PL|].
      rewrite Hix. apply seq_NoDup. }
    specialize (Hw Hnd).
    destruct p1 as [|v0 vt] eqn:Ep1; [discriminate|]. rewrite <- Ep1 in *.
    set (off := minN v0 vt) in *.
    assert (Hp : p = map (fun i => (i - off)%N) p1) by (rewrite Ep1 in *; inversion H; reflexivity).
    clear H.
    assert (Hread : map (fun it => nth (ix it) p1 0%N) its = p1).
    { rewrite <- (map_map ix (fun j => nth j p1 0%N)), Hix, <- Hlen. apply map_nth_seq. }
    assert (Hget : forall x, In x asg -> nth (ix (fst x)) p1 0%N = snd x).
    { intros x Hx. apply nth_opt_nth, Hw, Hx. }
    destruct (minN_spec v0 vt) as [Hoff_in Hoff_le]. fold off in Hoff_in, Hoff_le.
    rewrite <- Ep1 in Hoff_in, Hoff_le. rewrite Forall_forall in Hoff_le.
    exists asg, off. split; [reflexivity|]. split; [|split].
    - intros x Hx. apply Hoff_le. eapply nth_opt_In. apply Hw, Hx.
    - rewrite Hp, map_length; exact Hlen.
    - assert (Hc : combine its p = map (fun it => (it, (nth (ix it) p1 0 - off)%N)) its).
      { rewrite Hp. rewrite <- Hread at 1. rewrite map_map.
        clear. induction its as [|it t IH]; cbn [map combine]; [reflexivity|]. f_equal. exact IH. }
      rewrite Hc. eapply perm_trans; [|apply Permutation_map, PL]. rewrite map_map.
      erewrite map_ext_in; [apply Permutation_refl|].
      intros x Hx. cbn [fst snd]. rewrite (Hget x Hx). reflexivity.
  Qed.

  (* C03 main theorem, generic form: for every behaviour of the cut search
     (mid, dist, addc, within_tol, the variant flags are unconstrained) and
     every schedule *)
  Theorem rcb_core_bisect_tree : forall fuel sched D k its sum bb p0 p,
    Forall vitem its -> map ix its = seq 0 (length p0) -> its <> [] ->
    rcb_core fuel sched D k its sum bb p0 = Ok p ->
    length p = length p0
    /\ (exists t, Permutation t (combine (map co its) p) /\ BisectTree D k 0 t)
    /\ Forall (fun i => (i < 2 ^ N.of_nat k)%N) p.
  Proof.
    intros fuel sched D k its sum bb p0 p Hv Hix Hne H. unfold Rcb.rcb_core in H.
    destruct (rcb_rec fuel sched D k its 0%N 0%nat sum bb) as [asg|e|s|] eqn:Hrec; cbn [bind] in H; try discriminate.
    rewrite scatter_fast_eq in H.
    destruct (rcb_rec_spec _ _ _ _ _ _ _ _ _ _ Hv Hrec) as (PL & TL & RL).
    destruct (scatter C p0 asg) as [p1|e|s|] eqn:Hsc; cbn [bind] in H; try discriminate.
    destruct (scatter_spec _ _ _ Hsc) as [Hlen Hw].
    assert (Hnd : NoDup (map (fun x => ix (fst x)) asg)).
    { rewrite <- (map_map fst ix). eapply Permutation_NoDup; [apply Permutation_sym, Permutation_map, PL|].
      rewrite Hix. apply seq_NoDup. }
    specialize (Hw Hnd).
    destruct p1 as [|v0 vt] eqn:Ep1; [discriminate|]. rewrite <- Ep1 in *. 
    set (off := minN v0 vt) in *.
    assert (Hp : p = map (fun i => (i - off)%N) p1) by (rewrite Ep1 in *; inversion H; reflexivity).
    clear H.
    (* p1 read through the items *)
    assert (Hread : map (fun it => nth (ix it) p1 0%N) its = p1).
    { rewrite <- (map_map ix (fun j => nth j p1 0%N)), Hix, <- Hlen. apply map_nth_seq. }
    assert (Hget : forall x, In x asg -> nth (ix (fst x)) p1 0%N = snd x).
    { intros x Hx. apply nth_opt_nth, Hw, Hx. }
    assert (Hall : forall v, In v p1 -> exists x, In x asg /\ snd x = v).
    { intros v Hv1. rewrite <- Hread in Hv1. apply in_map_iff in Hv1. destruct Hv1 as (it & <- & Hit).
      assert (Hin : In it (map fst asg)) by (eapply Permutation_in; [apply Permutation_sym, PL|exact Hit]).
      apply in_map_iff in Hin. destruct Hin as (x & <- & Hx). exists x. split; [exact Hx|symmetry; apply Hget, Hx]. }
    destruct (minN_spec v0 vt) as [Hoff_in Hoff_le]. fold off in Hoff_in, Hoff_le.
    rewrite <- Ep1 in Hoff_in, Hoff_le. rewrite Forall_forall in Hoff_le.
    assert (Hge : forall x, In x asg -> (off <= snd x)%N).
    { intros x Hx. apply Hoff_le. eapply nth_opt_In. apply Hw, Hx. }
    split; [rewrite Hp, map_length; exact Hlen|]. split.
    - exists (map (fun x => (fst x, (snd x - off)%N)) (map pit asg)). split.
      + assert (Hc : combine (map co its) p = map (fun it => (co it, (nth (ix it) p1 0 - off)%N)) its).
        { rewrite Hp. rewrite <- Hread at 1. rewrite map_map.
          clear. induction its as [|it t IH]; cbn [map combine]; [reflexivity|]. f_equal. exact IH. }
        rewrite Hc, map_map.
        eapply perm_trans; [|apply Permutation_map, PL]. rewrite map_map.
        erewrite map_ext_in; [apply Permutation_refl|].
        intros x Hx. unfold pit. cbn [fst snd]. rewrite (Hget x Hx). reflexivity.
      + apply (BisectTree_map (fun i => (i - off)%N)); [exact TL|].
        intros x y Hx Hy Q. apply in_map_iff in Hx, Hy.
        destruct Hx as (x' & <- & Hx), Hy as (y' & <- & Hy). unfold pit in *. cbn [snd] in *.
        specialize (Hge _ Hx) as G1. specialize (Hge _ Hy) as G2. lia.
    - rewrite Hp, Forall_forall. intros i Hi. apply in_map_iff in Hi. destruct Hi as (v & <- & Hv1).
      destruct (Hall v Hv1) as (x & Hx & <-). destruct (Hall off Hoff_in) as (xo & Hxo & Eo).
      rewrite Forall_forall in RL. specialize (RL _ Hx) as R1. specialize (RL _ Hxo) as R2.
      unfold in_heap in R1, R2. rewrite Eo in R2. lia.
  Qed.

End Proofs.

Section Checker.
  Variable C : Type.
  Variable ltb : C -> C -> bool.
  Variable valid : C -> bool.
  Hypothesis lt_irrefl : forall x, valid x = true -> ltb x x = false.
  Hypothesis lt_negtrans : forall x y z, valid x = true -> valid y = true -> valid z = true ->
    ltb x y = true -> ltb x z = true \/ ltb z y = true.
  Notation BisectTree := (BisectTree C ltb).

  (* ---------- soundness of check_bisect ---------- *)

  Lemma cmax_in x l : In (cmax C ltb x l) (x :: l).
  Proof.
    unfold cmax. revert x; induction l as [|y t IH]; intros x; cbn [fold_left]; [left; reflexivity|].
    destruct (ltb x y).
    - destruct (IH y) as [A|A]; [right; left; exact A|right; right; exact A].
    - destruct (IH x) as [A|A]; [left; exact A|right; right; exact A].
  Qed.
  Lemma cmin_in x l : In (cmin C ltb x l) (x :: l).
  Proof.
    unfold cmin. revert x; induction l as [|y t IH]; intros x; cbn [fold_left]; [left; reflexivity|].
    destruct (ltb y x).
    - destruct (IH y) as [A|A]; [right; left; exact A|right; right; exact A].
    - destruct (IH x) as [A|A]; [left; exact A|right; right; exact A].
  Qed.

  Lemma sep_sound lo hi : sep C ltb lo hi = true ->
    Forall (fun c => valid c = true) lo -> Forall (fun c => valid c = true) hi ->
    forall x y, In x lo -> In y hi -> ltb x y = true.
  Proof.
    intros H Hl Hh x y Hx Hy. destruct lo as [|x0 lo']; [destruct Hx|]. destruct hi as [|y0 hi']; [destruct Hy|].
    cbn [sep] in H. apply andb_true_iff in H. destruct H as [H H3]. apply andb_true_iff in H. destruct H as [H1 H2].
    rewrite forallb_forall in H2, H3. rewrite Forall_forall in Hl, Hh.
    set (M := cmax C ltb x0 lo') in *. set (m := cmin C ltb y0 hi') in *.
    assert (HM : valid M = true) by (apply Hl, cmax_in).
    assert (Hm : valid m = true) by (apply Hh, cmin_in).
    specialize (H2 _ Hx). specialize (H3 _ Hy). apply negb_true_iff in H2, H3.
    destruct (lt_negtrans M m y HM Hm (Hh _ Hy) H1) as [A|A]; [|congruence].
    destruct (lt_negtrans M y x HM (Hh _ Hy) (Hl _ Hx) A) as [B|B]; [congruence|exact B].
  Qed.

  Lemma col_spec a (its : list (citem C)) cl : col C a its = Some cl ->
    forall it, In it its -> exists c, nth_opt (fst it) a = Some c /\ In c cl.
  Proof.
    revert cl; induction its as [|i0 t IH]; intros cl H it Hit; [destruct Hit|].
    cbn [col] in H. destruct (nth_opt (fst i0) a) as [c|] eqn:E; [|discriminate].
    destruct (col C a t) as [r|]; [|discriminate]. inversion H; subst.
    destruct Hit as [<-|Hit].
    - exists c. split; [exact E|left; reflexivity].
    - destruct (IH r eq_refl it Hit) as (c' & A & B). exists c'. split; [exact A|right; exact B].
  Qed.
  Lemma col_valid a (its : list (citem C)) cl : col C a its = Some cl ->
    Forall (fun x => Forall (fun c => valid c = true) (fst x)) its -> Forall (fun c => valid c = true) cl.
  Proof.
    revert cl; induction its as [|i0 t IH]; intros cl H Hv; cbn [col] in H.
    - inversion H; constructor.
    - destruct (nth_opt (fst i0) a) as [c|] eqn:E; [|discriminate].
      destruct (col C a t) as [r|]; [|discriminate]. inversion H; subst. inversion Hv; subst.
      constructor; [|apply IH; auto].
      match goal with Hq : Forall _ (fst i0) |- _ => rewrite Forall_forall in Hq; apply Hq end.
      eapply nth_opt_In; exact E.
  Qed.

  Lemma check_tree_sound D : forall d a its,
    check_tree C ltb D d a its = true ->
    Forall (fun x => Forall (fun c => valid c = true) (fst x)) its ->
    exists t, Permutation t its /\ BisectTree D d a t.
  Proof.
    induction d as [|d IH]; intros a its H Hv.
    - exists its. split; [apply Permutation_refl|]. apply bt_leaf. cbn [check_tree] in H.
      destruct its as [|x0 t]; [intros x y []|]. rewrite forallb_forall in H.
      assert (Hall : forall y, In y (x0 :: t) -> snd y = snd x0).
      { intros y [<-|Hy]; [reflexivity|]. apply N.eqb_eq, H, Hy. }
      intros x y Hx Hy. rewrite (Hall x Hx), (Hall y Hy). reflexivity.
    - cbn [check_tree] in H.
      set (lo := filter (fun it => negb (N.testbit (snd it) (N.of_nat d))) its) in *.
      set (hi := filter (fun it => N.testbit (snd it) (N.of_nat d)) its) in *.
      destruct (col C a lo) as [cl|] eqn:Ecl; [|discriminate].
      destruct (col C a hi) as [ch|] eqn:Ech; [|discriminate].
      apply andb_true_iff in H. destruct H as [H Hh]. apply andb_true_iff in H. destruct H as [Hs Hl].
      assert (Hvl : Forall (fun x => Forall (fun c => valid c = true) (fst x)) lo).
      { rewrite Forall_forall in *. intros x Hx. apply Hv. apply filter_In in Hx. tauto. }
      assert (Hvh : Forall (fun x => Forall (fun c => valid c = true) (fst x)) hi).
      { rewrite Forall_forall in *. intros x Hx. apply Hv. apply filter_In in Hx. tauto. }
      destruct (IH _ _ Hl Hvl) as (tl & Pl & Tl). destruct (IH _ _ Hh Hvh) as (th & Ph & Th).
      exists (tl ++ th). split.
      + eapply perm_trans; [apply Permutation_app; [exact Pl|exact Ph]|].
        apply (filter_perm (fun it => N.testbit (snd it) (N.of_nat d))).
      + apply bt_node; [| |exact Tl|exact Th].
        * intros x y Hx Hy.
          assert (Hx' : In x lo) by (eapply Permutation_in; [exact Pl|exact Hx]).
          assert (Hy' : In y hi) by (eapply Permutation_in; [exact Ph|exact Hy]).
          destruct (col_spec a lo cl Ecl x Hx') as (cx & Ax & Bx).
          destruct (col_spec a hi ch Ech y Hy') as (cy & Ay & By).
          exists cx, cy. split; [exact Ax|]. split; [exact Ay|].
          apply (sep_sound cl ch Hs (col_valid a lo cl Ecl Hvl) (col_valid a hi ch Ech Hvh)); assumption.
        * intros x y Hx Hy Q.
          assert (Hx' : In x lo) by (eapply Permutation_in; [exact Pl|exact Hx]).
          assert (Hy' : In y hi) by (eapply Permutation_in; [exact Ph|exact Hy]).
          apply filter_In in Hx', Hy'. destruct Hx' as [_ Bx], Hy' as [_ By].
          rewrite Q in Bx. rewrite By in Bx. discriminate.
  Qed.

  Lemma combine_off (pts : list (list C)) ids off :
    map (fun x => (fst x, (snd x - off)%N)) (with_off C off pts ids) = combine pts ids.
  Proof.
    unfold with_off. revert ids; induction pts as [|p t IH]; intros [|i ids]; cbn [map combine]; try reflexivity.
    cbn [fst snd]. f_equal; [f_equal; lia|apply IH].
  Qed.

  Lemma try_offsets_sound D k pts ids : forall n off,
    try_offsets C ltb n off D k pts ids = true ->
    exists o, check_tree C ltb D k 0 (with_off C o pts ids) = true.
  Proof.
    induction n as [|n IH]; intros off H; cbn [try_offsets] in H; [discriminate|].
    apply orb_true_iff in H. destruct H as [H|H].
    - apply andb_true_iff in H. exists off. tauto.
    - apply (IH _ H).
  Qed.

  (* the checker accepts only bisection trees *)
  Theorem check_bisect_sound D k pts ids :
    check_bisect C ltb valid D k pts ids = true ->
    length pts = length ids /\ Forall (fun i => (i < 2 ^ N.of_nat k)%N) ids
    /\ exists t, Permutation t (combine pts ids) /\ BisectTree D k 0 t.
  Proof.
    unfold check_bisect. intros H.
    apply andb_true_iff in H. destruct H as [H H4]. apply andb_true_iff in H. destruct H as [H H3].
    apply andb_true_iff in H. destruct H as [H1 H2].
    apply Nat.eqb_eq in H1. split; [exact H1|]. split.
    { rewrite Forall_forall. rewrite forallb_forall in H3. intros i Hi. apply N.ltb_lt, H3, Hi. }
    destruct (try_offsets_sound D k pts ids _ _ H4) as [o Ho].
    assert (Hv : Forall (fun x : citem C => Forall (fun c => valid c = true) (fst x)) (with_off C o pts ids)).
    { rewrite Forall_forall. intros x Hx. unfold with_off in Hx. destruct x as [pt c].
      apply in_combine_l in Hx. rewrite forallb_forall in H2. specialize (H2 _ Hx).
      apply andb_true_iff in H2. destruct H2 as [_ H2]. cbn [fst].
      rewrite Forall_forall. rewrite forallb_forall in H2. exact H2. }
    destruct (check_tree_sound D k 0 _ Ho Hv) as (t & Pt & Tt).
    exists (map (fun x => (fst x, (snd x - o)%N)) t). split.
    - rewrite <- (combine_off pts ids o). apply Permutation_map, Pt.
    - apply (BisectTree_map C ltb (fun i => (i - o)%N)); [exact Tt|].
      intros x y Hx Hy Q.
      assert (Hge : forall z, In z t -> (o <= snd z)%N).
      { intros z Hz. assert (Hz' : In z (with_off C o pts ids)) by (eapply Permutation_in; [exact Pt|exact Hz]).
        unfold with_off in Hz'. destruct z as [pt c]. apply in_combine_r in Hz'.
        apply in_map_iff in Hz'. destruct Hz' as (i & <- & _). cbn [snd]. lia. }
      specialize (Hge x Hx) as G1. specialize (Hge y Hy) as G2. lia.
  Qed.

  (* corollary: equal coordinate vectors share a part *)
  Lemma BisectTree_equal_coords D : forall d a its, BisectTree D d a its ->
    Forall (fun x => Forall (fun c => valid c = true) (fst x)) its ->
    forall x y, In x its -> In y its -> fst x = fst y -> snd x = snd y.
  Proof.
    induction 1 as [d a its Hs|d a lo hi Hb Hd Tl IHl Th IHh]; intros Hv x y Hx Hy E.
    - apply Hs; assumption.
    - apply Forall_app in Hv. destruct Hv as [Hvl Hvh].
      apply in_app_or in Hx, Hy. destruct Hx as [Hx|Hx], Hy as [Hy|Hy].
      + apply IHl; assumption.
      + exfalso. destruct (Hb _ _ Hx Hy) as (cx & cy & A & B & Q). unfold coord in *. rewrite E in A.
        rewrite A in B. inversion B; subst. rewrite Forall_forall in Hvh. specialize (Hvh _ Hy).
        rewrite Forall_forall in Hvh. rewrite lt_irrefl in Q; [discriminate|]. apply Hvh. eapply nth_opt_In; exact A.
      + exfalso. destruct (Hb _ _ Hy Hx) as (cx & cy & A & B & Q). unfold coord in *. rewrite <- E in A.
        rewrite A in B. inversion B; subst. rewrite Forall_forall in Hvh. specialize (Hvh _ Hx).
        rewrite Forall_forall in Hvh. rewrite lt_irrefl in Q; [discriminate|]. apply Hvh. eapply nth_opt_In; exact A.
      + apply IHh; assumption.
  Qed.
End Checker.

(* Proofs about the MEDIT ASCII serializer / parser of Model/Medit.v (C19):
   decimal integers, the token / line readers on what the writer emits, the
   section loop, the round trip, and the sniffing of a written ASCII file. *)
From Coq Require Import DecimalN DecimalPos.
From Coupe Require Import Lib.Prelude Gen.FormatsGen Model.Formats Proofs.FormatsProofs
  Model.MeditTypes Gen.MeditGen Model.Medit Proofs.MeditBinProofs.
Open Scope N_scope.

(* ---- words: non-empty, ASCII, no white space ---- *)

(* [ws_byte], [word_byte], [word_okb], [word_ok] are in Model/Medit.v *)

Lemma word_ok_nonempty w : word_ok w -> w <> [].
Proof. destruct w; [discriminate|discriminate]. Qed.

Lemma word_ok_bytes w : word_ok w -> forallb word_byte w = true.
Proof. destruct w; [discriminate|]. intros H. exact H. Qed.

Lemma word_byte_not_sep b : word_byte b = true -> is_separator b = false.
Proof.
  unfold word_byte, ws_byte, is_separator. intros H.
  apply andb_prop in H as [H1 H2]. apply negb_true_iff in H2.
  apply orb_false_iff in H2 as [H2 H3]. rewrite H3. cbn [orb].
  destruct (N.eqb_spec b 9) as [->|]; [discriminate H2|].
  destruct (N.eqb_spec b 13) as [->|]; [discriminate H2|].
  destruct (N.eqb_spec b 10) as [->|]; [discriminate H2|]. reflexivity.
Qed.

Lemma word_byte_not_nl b : word_byte b = true -> (b =? 10) = false.
Proof.
  intros H. apply word_byte_not_sep in H. unfold is_separator in H.
  apply orb_false_iff in H as [_ H]. exact H.
Qed.

Lemma word_byte_ascii b : word_byte b = true -> (b <? 128) = true.
Proof. unfold word_byte. intros H. now apply andb_prop in H as [H _]. Qed.

Lemma utf8_valid_ascii l : forallb (fun b => b <? 128) l = true -> utf8_valid l = true.
Proof.
  induction l as [|b t IH]; [reflexivity|]. cbn [forallb utf8_valid]. intros H.
  apply andb_prop in H as [H1 H2]. rewrite H1. auto.
Qed.

Lemma forallb_impl {A} (f g : A -> bool) l :
  (forall x, f x = true -> g x = true) -> forallb f l = true -> forallb g l = true.
Proof.
  intros Hi. induction l as [|x t IH]; [reflexivity|]. cbn [forallb]. intros H.
  apply andb_prop in H as [H1 H2]. rewrite (Hi _ H1). auto.
Qed.

Lemma ws_len_ascii b t : (b <? 128) = true -> ws_len (b :: t) = if ws_byte b then 1%nat else 0%nat.
Proof.
  intros Hb. apply N.ltb_lt in Hb. unfold ws_len, ws_byte.
  destruct (((9 <=? b) && (b <=? 13)) || (b =? 32)); [reflexivity|].
  destruct (N.eqb_spec b 194); [lia|]. destruct (N.eqb_spec b 225); [lia|].
  destruct (N.eqb_spec b 226); [lia|]. destruct (N.eqb_spec b 227); [lia|]. reflexivity.
Qed.

(* ---- decimal integers ---- *)

Lemma bytes_uint_bytes u : bytes_uint (uint_bytes u) = Some u.
Proof. induction u as [|u IH|u IH|u IH|u IH|u IH|u IH|u IH|u IH|u IH|u IH]; cbn [uint_bytes bytes_uint];
  [reflexivity|..]; rewrite IH; reflexivity. Qed.

Lemma uint_bytes_word u : forallb word_byte (uint_bytes u) = true.
Proof. induction u as [|u IH|u IH|u IH|u IH|u IH|u IH|u IH|u IH|u IH|u IH]; cbn [uint_bytes forallb];
  [reflexivity|..]; rewrite IH; reflexivity. Qed.

Lemma N_to_uint_nonnil n : N.to_uint n <> Decimal.Nil.
Proof. destruct n as [|p]; [discriminate|]. apply Unsigned.to_uint_nonnil. Qed.

Lemma print_N_word n : word_ok (print_N n).
Proof.
  unfold word_ok, word_okb, print_N. pose proof (N_to_uint_nonnil n) as H.
  destruct (N.to_uint n) eqn:E; try contradiction; rewrite <- E; rewrite uint_bytes_word;
    rewrite E; reflexivity.
Qed.

Lemma parse_digits_print n : parse_digits (print_N n) = Some n.
Proof.
  unfold parse_digits, print_N. pose proof (N_to_uint_nonnil n) as H.
  rewrite bytes_uint_bytes, DecimalN.Unsigned.of_to.
  destruct (N.to_uint n); try contradiction; reflexivity.
Qed.

(* the first byte of a printed unsigned number is a digit: no sign to strip *)
Lemma print_N_head n : exists d t, print_N n = d :: t /\ 48 <= d <= 57.
Proof.
  unfold print_N. pose proof (N_to_uint_nonnil n) as H.
  destruct (N.to_uint n); try contradiction; cbn [uint_bytes]; do 2 eexists; (split; [reflexivity|lia]).
Qed.

Lemma parse_usize_print n : n < 2 ^ 64 -> parse_usize (print_N n) = Some n.
Proof.
  intros Hn. unfold parse_usize.
  destruct (print_N_head n) as (d & t & E & Hd).
  assert (Hs : match print_N n with 43 :: t0 => t0 | _ => print_N n end = print_N n).
  { rewrite E. destruct (N.eqb_spec d 43) as [->|Hne]; [lia|].
    destruct d as [|p]; [reflexivity|].
    do 6 (destruct p as [p|p|]; try reflexivity). all: exfalso; apply Hne; reflexivity. }
  rewrite Hs, parse_digits_print. destruct (N.ltb_spec n (2 ^ 64)); [reflexivity|lia].
Qed.

Lemma print_Z_word z : word_ok (print_Z z).
Proof.
  unfold print_Z. destruct (z <? 0)%Z; [|apply print_N_word].
  pose proof (print_N_word (Z.to_N (- z))) as H. apply word_ok_bytes in H.
  unfold word_ok, word_okb. cbn [forallb]. rewrite H. reflexivity.
Qed.

Lemma parse_isize_print z : i64_ok z -> parse_isize (print_Z z) = Some z.
Proof.
  unfold i64_ok. intros Hz. unfold print_Z.
  change (2 ^ 63)%Z with 9223372036854775808%Z in Hz.
  destruct (Z.ltb_spec z 0) as [Hneg|Hpos].
  - cbn [parse_isize]. rewrite parse_digits_print.
    change (2 ^ 63) with 9223372036854775808.
    destruct (N.leb_spec (Z.to_N (- z)) 9223372036854775808); [|lia].
    f_equal. lia.
  - destruct (print_N_head (Z.to_N z)) as (d & t & E & Hd).
    unfold parse_isize.
    assert (Hs : forall A (f : list N -> A) (g : A),
              match print_N (Z.to_N z) with 45 :: t0 => f t0 | _ => g end = g).
    { intros A f g. rewrite E. destruct (N.eqb_spec d 45) as [->|Hne]; [lia|].
      destruct d as [|p]; [reflexivity|].
      do 6 (destruct p as [p|p|]; try reflexivity). all: exfalso; apply Hne; reflexivity. }
    rewrite Hs.
    assert (Hs' : match print_N (Z.to_N z) with 43 :: t0 => t0 | _ => print_N (Z.to_N z) end
                  = print_N (Z.to_N z)).
    { rewrite E. destruct (N.eqb_spec d 43) as [->|Hne]; [lia|].
      destruct d as [|p]; [reflexivity|].
      do 6 (destruct p as [p|p|]; try reflexivity). all: exfalso; apply Hne; reflexivity. }
    rewrite Hs', parse_digits_print. change (2 ^ 63) with 9223372036854775808.
    destruct (N.ltb_spec (Z.to_N z) 9223372036854775808); [|lia]. f_equal. lia.
Qed.

(* ---- the token reader on  <separators> <word> <separator or EOF> ---- *)

Definition seps_ok (l : list N) : Prop := forallb is_separator l = true.
Definition ends_token (rest : list N) : Prop :=
  match rest with [] => True | b :: _ => is_separator b = true end.

Lemma skip_seps_app seps : forall ln b t,
  seps_ok seps -> is_separator b = false -> exists ln', skip_seps ln (seps ++ b :: t) = (ln', b :: t).
Proof.
  induction seps as [|s seps IH]; intros ln b t Hs Hb.
  - exists ln. cbn [app skip_seps]. now rewrite Hb.
  - unfold seps_ok in Hs. cbn [forallb] in Hs. apply andb_prop in Hs as [H1 H2].
    cbn [app skip_seps]. rewrite H1. apply IH; assumption.
Qed.

Lemma span_token_word w : forall rest,
  forallb word_byte w = true -> ends_token rest -> span_token (w ++ rest) = (w, rest).
Proof.
  induction w as [|b w IH]; intros rest Hw Hr.
  - cbn [app]. destruct rest as [|c t]; [reflexivity|]. cbn [ends_token] in Hr.
    cbn [span_token]. now rewrite Hr.
  - cbn [forallb] in Hw. apply andb_prop in Hw as [H1 H2].
    cbn [app span_token]. rewrite (word_byte_not_sep _ H1), (IH rest H2 Hr). reflexivity.
Qed.

Lemma read_T_word ln seps w rest :
  seps_ok seps -> word_ok w -> ends_token rest ->
  exists ln', read_T (ln, seps ++ w ++ rest) = FOk (map to_lower w, (ln', rest)).
Proof.
  intros Hs Hw Hr. pose proof (word_ok_bytes _ Hw) as Hb.
  destruct w as [|b w']; [discriminate Hw|].
  assert (Hb0 : word_byte b = true) by (cbn [forallb] in Hb; now apply andb_prop in Hb as [H _]).
  destruct (skip_seps_app seps ln b (w' ++ rest) Hs (word_byte_not_sep _ Hb0)) as (ln' & Hsk).
  exists ln'. unfold read_T, skip_separators. cbn [fst snd].
  change ((b :: w') ++ rest) with (b :: w' ++ rest). rewrite Hsk.
  change (b :: w' ++ rest) with ((b :: w') ++ rest). rewrite (span_token_word _ _ Hb Hr).
  cbn [fst snd]. rewrite utf8_valid_ascii; [reflexivity|].
  eapply forallb_impl; [|exact Hb]. apply word_byte_ascii.
Qed.

Lemma lower_uint_bytes u : map to_lower (uint_bytes u) = uint_bytes u.
Proof. induction u; cbn [uint_bytes map]; [reflexivity|..]; rewrite IHu; reflexivity. Qed.

Lemma read_usize_word ln seps n rest :
  seps_ok seps -> n < 2 ^ 64 -> ends_token rest ->
  exists ln', read_usize (ln, seps ++ print_N n ++ rest) = FOk (n, (ln', rest)).
Proof.
  intros Hs Hn Hr.
  destruct (read_T_word ln seps (print_N n) rest Hs (print_N_word n) Hr) as (ln' & H).
  exists ln'. unfold read_usize. rewrite H.
  unfold print_N at 1. rewrite lower_uint_bytes. fold (print_N n).
  rewrite parse_usize_print by exact Hn. reflexivity.
Qed.

(* ---- the line reader on  <separators> (' ' word)+ '\n' ---- *)

Definition line_of (ws : list (list N)) : list N := flat_map sp ws ++ [10].
Definition body_of (ws : list (list N)) : list N := tl (flat_map sp ws) ++ [10].

Definition line_byte (b : N) : bool := (b <? 128) && negb (b =? 10).

Lemma word_byte_line b : word_byte b = true -> line_byte b = true.
Proof.
  intros H. unfold line_byte. rewrite (word_byte_ascii _ H), (word_byte_not_nl _ H). reflexivity.
Qed.

Lemma flat_map_sp_line ws : Forall word_ok ws -> forallb line_byte (flat_map sp ws) = true.
Proof.
  induction 1 as [|w t Hw Ht IH]; [reflexivity|].
  cbn [flat_map]. unfold sp at 1. change (forallb line_byte ((32 :: w) ++ flat_map sp t))
    with (line_byte 32 && forallb line_byte (w ++ flat_map sp t)).
  rewrite forallb_app, IH. rewrite (forallb_impl _ _ _ word_byte_line (word_ok_bytes _ Hw)). reflexivity.
Qed.

Lemma span_line_body l rest :
  forallb line_byte l = true -> span_line (l ++ 10 :: rest) = (l ++ [10], rest).
Proof.
  induction l as [|b t IH]; intros H; [reflexivity|].
  cbn [forallb] in H. apply andb_prop in H as [H1 H2].
  unfold line_byte in H1. apply andb_prop in H1 as [_ H1]. apply negb_true_iff in H1.
  cbn [app span_line]. rewrite H1, (IH H2). reflexivity.
Qed.

Lemma read_L_line ln seps ws rest :
  seps_ok seps -> ws <> [] -> Forall word_ok ws ->
  exists ln', read_L (ln, seps ++ line_of ws ++ rest) = FOk (body_of ws, (ln', rest)).
Proof.
  intros Hs Hne Hw. destruct ws as [|w t]; [congruence|].
  inversion Hw as [|? ? Hw0 Ht]; subst.
  pose proof (word_ok_bytes _ Hw0) as Hb.
  destruct w as [|b w']; [discriminate Hw0|].
  assert (Hb0 : word_byte b = true) by (cbn [forallb] in Hb; now apply andb_prop in Hb as [H _]).
  unfold line_of, body_of. cbn [flat_map]. change (sp (b :: w')) with (32 :: b :: w'). cbn [app tl].
  assert (Hs' : seps_ok (seps ++ [32])).
  { unfold seps_ok. rewrite forallb_app. unfold seps_ok in Hs. rewrite Hs. reflexivity. }
  set (tail := w' ++ flat_map sp t).
  destruct (skip_seps_app (seps ++ [32]) ln b (tail ++ 10 :: rest) Hs' (word_byte_not_sep _ Hb0))
    as (ln' & Hsk).
  exists (ln' + 1). unfold read_L, skip_separators. cbn [fst snd].
  replace (seps ++ 32 :: b :: (tail ++ [10]) ++ rest)
    with ((seps ++ [32]) ++ b :: tail ++ 10 :: rest)
    by (rewrite <- !app_assoc; reflexivity).
  rewrite Hsk.
  assert (Hl : forallb line_byte (b :: tail) = true).
  { pose proof (flat_map_sp_line ((b :: w') :: t) Hw) as H. cbn [flat_map] in H.
    change (forallb line_byte (sp (b :: w') ++ flat_map sp t))
      with (line_byte 32 && forallb line_byte (b :: tail)) in H.
    now apply andb_prop in H as [_ H]. }
  change (b :: tail ++ 10 :: rest) with ((b :: tail) ++ 10 :: rest).
  rewrite (span_line_body _ rest Hl). cbn [fst snd].
  rewrite utf8_valid_ascii.
  - reflexivity.
  - change (b :: tail ++ [10]) with ((b :: tail) ++ [10]). rewrite forallb_app.
    rewrite (forallb_impl line_byte (fun b => b <? 128) (b :: tail)); [reflexivity| |exact Hl].
    unfold line_byte. intros x Hx. now apply andb_prop in Hx as [Hx _].
Qed.

(* str::split_whitespace on such a line gives the words back *)
Lemma words_aux_word w : forall Y,
  forallb word_byte w = true ->
  words_aux (w ++ Y) 0 = (w ++ fst (words_aux Y 0), snd (words_aux Y 0)).
Proof.
  induction w as [|b w IH]; intros Y H.
  - cbn [app]. now destruct (words_aux Y 0).
  - cbn [forallb] in H. apply andb_prop in H as [H1 H2].
    cbn [app]. cbn [words_aux].
    rewrite (ws_len_ascii b (w ++ Y) (word_byte_ascii _ H1)).
    unfold word_byte in H1. apply andb_prop in H1 as [_ H1]. apply negb_true_iff in H1. rewrite H1.
    rewrite (IH Y H2). reflexivity.
Qed.

Lemma words_aux_line ws : Forall word_ok ws -> words_aux (flat_map sp ws ++ [10]) 0 = ([], ws).
Proof.
  induction 1 as [|w t Hw Ht IH].
  - cbn [flat_map app words_aux]. rewrite ws_len_ascii by reflexivity. reflexivity.
  - cbn [flat_map]. change ((sp w ++ flat_map sp t) ++ [10]) with (32 :: (w ++ flat_map sp t) ++ [10]).
    cbn [words_aux]. rewrite ws_len_ascii by reflexivity. change (ws_byte 32) with true. cbv iota.
    rewrite <- app_assoc, (words_aux_word w _ (word_ok_bytes _ Hw)), IH.
    cbn [fst snd]. rewrite app_nil_r. unfold cons_word. cbn [fst snd].
    destruct w; [discriminate Hw|reflexivity].
Qed.

Lemma split_body ws : ws <> [] -> Forall word_ok ws -> split_whitespace (body_of ws) = ws.
Proof.
  intros Hne Hw. destruct ws as [|w t]; [congruence|].
  inversion Hw as [|? ? Hw0 Ht]; subst.
  unfold body_of, split_whitespace. cbn [flat_map]. change (sp w) with (32 :: w). cbn [app tl].
  rewrite <- app_assoc, (words_aux_word w _ (word_ok_bytes _ Hw0)), (words_aux_line t Ht).
  cbn [fst snd]. rewrite app_nil_r. unfold cons_word. cbn [fst snd].
  destruct w; [discriminate Hw0|reflexivity].
Qed.

(* ---- counted loops over lines ---- *)

Lemma read_lines_roundtrip {A B} (wr : A -> list N) (rd : rstate -> fres (B * rstate)) (f : A -> B) :
  forall xs fuel ln seps rest,
    (length xs <= fuel)%nat -> seps_ok seps ->
    Forall (fun x => forall ln seps rest, seps_ok seps ->
              exists ln', rd (ln, seps ++ wr x ++ rest) = FOk (f x, (ln', rest))) xs ->
    exists ln' seps', seps_ok seps' /\
      read_lines fuel (N.of_nat (length xs)) rd (ln, seps ++ flat_map wr xs ++ rest)
      = FOk (map f xs, (ln', seps' ++ rest)).
Proof.
  induction xs as [|x xs IH]; intros fuel ln seps rest Hf Hs Hall.
  - exists ln, seps. split; [exact Hs|]. destruct fuel; reflexivity.
  - destruct fuel as [|fu]; [cbn [length] in Hf; lia|].
    inversion Hall as [|? ? Hx Hxs]; subst.
    cbn [length flat_map]. cbn [read_lines].
    destruct (N.eqb_spec (N.of_nat (S (length xs))) 0) as [H0|_]; [lia|].
    rewrite <- app_assoc.
    destruct (Hx ln seps (flat_map wr xs ++ rest) Hs) as (ln1 & H1). rewrite H1.
    replace (N.of_nat (S (length xs)) - 1) with (N.of_nat (length xs)) by lia.
    destruct (IH fu ln1 [] rest ltac:(cbn [length] in Hf; lia) ltac:(reflexivity) Hxs)
      as (ln2 & seps2 & Hs2 & H2).
    cbn [app] in H2. rewrite H2. exists ln2, seps2. split; [exact Hs2|reflexivity].
Qed.

Lemma flat_map_sp_map {A} (f : A -> list N) l : flat_map sp (map f l) = flat_map (fun c => sp (f c)) l.
Proof. induction l as [|x t IH]; [reflexivity|]. cbn [map flat_map]. now rewrite IH. Qed.

Lemma Forall_app_intro {A} (P : A -> Prop) l1 l2 : Forall P l1 -> Forall P l2 -> Forall P (l1 ++ l2).
Proof. intros H1 H2. apply Forall_app. split; assumption. Qed.

Lemma cap8_check_comm a b : cap8_check a b = cap8_check b a.
Proof. unfold cap8_check. now rewrite (N.mul_comm a b). Qed.

(* ---- elements ---- *)

Definition node_ok_ascii (n : N) : Prop := n < 2 ^ 64 - 1.

Definition elem_words (e : list N * Z) : list (list N) :=
  map (fun n => print_N (n + 1)) (fst e) ++ [print_Z (snd e)].
Definition asc_elem (e : list N * Z) : list N := line_of (elem_words e).

Lemma asc_elem_nodes_ok ns :
  Forall node_ok_ascii ns -> asc_elem_nodes ns = FOk (flat_map (fun n => sp (print_N (n + 1))) ns).
Proof.
  induction 1 as [|n t Hn Ht IH]; [reflexivity|].
  cbn [asc_elem_nodes flat_map]. unfold node_ok_ascii in Hn. unfold u64_max.
  change (2 ^ 64 - 1) with 18446744073709551615 in *. change (2 ^ 64) with 18446744073709551616.
  rewrite N.mod_small by lia.
  destruct (N.eqb_spec n 18446744073709551615) as [E|_]; [lia|]. now rewrite IH.
Qed.

Lemma asc_elems_ok es :
  Forall (fun e => Forall node_ok_ascii (fst e)) es -> asc_elems es = FOk (flat_map asc_elem es).
Proof.
  induction 1 as [|[ns r] t Hn Ht IH]; [reflexivity|].
  cbn [asc_elems flat_map]. cbn [fst] in Hn. rewrite asc_elem_nodes_ok by exact Hn. rewrite IH.
  unfold asc_elem, line_of, elem_words. cbn [fst snd].
  rewrite flat_map_app, flat_map_sp_map. cbn [flat_map]. rewrite app_nil_r, <- !app_assoc. reflexivity.
Qed.

Lemma element_nodes_ok ns : forall rest,
  Forall node_ok_ascii ns ->
  element_nodes (length ns) (map (fun n => print_N (n + 1)) ns ++ rest) = FOk (ns, rest).
Proof.
  induction ns as [|n t IH]; intros rest H; [reflexivity|].
  inversion H as [|? ? Hn Ht]; subst. unfold node_ok_ascii in Hn.
  cbn [length map app element_nodes].
  assert (H1 : n + 1 < 2 ^ 64).
  { change (2 ^ 64 - 1) with 18446744073709551615 in Hn. change (2 ^ 64) with 18446744073709551616. lia. }
  rewrite parse_usize_print by exact H1.
  destruct (N.eqb_spec (n + 1) 0) as [E|_]; [lia|].
  rewrite (IH rest Ht). f_equal. f_equal. f_equal. lia.
Qed.

Lemma elem_words_ok e :
  Forall node_ok_ascii (fst e) -> Forall word_ok (elem_words e) /\ elem_words e <> [].
Proof.
  intros H. split.
  - unfold elem_words. apply Forall_app_intro.
    + apply Forall_forall. intros w Hin. apply in_map_iff in Hin as (n & <- & _). apply print_N_word.
    + constructor; [apply print_Z_word|constructor].
  - unfold elem_words. destruct (map _ (fst e)); discriminate.
Qed.

Lemma element_line_ok npe ns r ln seps rest :
  seps_ok seps -> length ns = npe -> Forall node_ok_ascii ns -> i64_ok r ->
  exists ln', element_line npe (ln, seps ++ asc_elem (ns, r) ++ rest) = FOk ((ns, Some r), (ln', rest)).
Proof.
  intros Hs Hl Hn Hr.
  destruct (elem_words_ok (ns, r) Hn) as [Hw Hne].
  destruct (read_L_line ln seps (elem_words (ns, r)) rest Hs Hne Hw) as (ln' & H).
  exists ln'. unfold element_line, asc_elem. rewrite H.
  rewrite (split_body _ Hne Hw). unfold elem_words. cbn [fst snd].
  rewrite <- Hl. rewrite (element_nodes_ok ns _ Hn).
  destruct (Nat.ltb_spec (length ns) (length ns)) as [Hbad|_]; [lia|].
  rewrite parse_isize_print by exact Hr. reflexivity.
Qed.

Lemma asc_elem_length e : (1 <= length (asc_elem e))%nat.
Proof. unfold asc_elem, line_of. rewrite app_length. cbn [length]. lia. Qed.

Lemma read_elements_ascii npe nodes refs ln rest :
  (1 <= npe)%nat -> length nodes = (npe * length refs)%nat ->
  Forall node_ok_ascii nodes -> Forall i64_ok refs ->
  let es := zip_chunks npe nodes refs in
  exists ln' seps' es', seps_ok seps' /\
    read_lines (S (length ([10] ++ flat_map asc_elem es ++ rest))) (N.of_nat (length refs))
      (element_line npe) (ln, [10] ++ flat_map asc_elem es ++ rest) = FOk (es', (ln', seps' ++ rest))
    /\ flat_map fst es' = nodes /\ flat_map (fun e => opt_list (snd e)) es' = refs.
Proof.
  intros Hk Hlen Hn Hr es.
  destruct (zip_chunks_spec npe Hk refs nodes Hlen) as (H1 & H2 & H3 & H4).
  fold es in H1, H2, H3, H4.
  destruct (read_lines_roundtrip asc_elem (element_line npe) (fun e => (fst e, Some (snd e)))
              es (S (length ([10] ++ flat_map asc_elem es ++ rest))) ln [10] rest) as (ln' & seps' & Hs' & H).
  - rewrite !app_length. pose proof (flat_map_length_ge asc_elem es asc_elem_length). lia.
  - reflexivity.
  - rewrite <- H1 in Hn. rewrite <- H2 in Hr.
    apply Forall_flat_map_fst in Hn. apply Forall_map_snd in Hr.
    rewrite Forall_forall in *. intros [ns r] Hin ln0 seps0 rest0 Hs0. cbn [fst snd].
    apply element_line_ok; [exact Hs0|exact (H3 _ Hin)|exact (Hn _ Hin)|exact (Hr _ Hin)].
  - exists ln', seps', (map (fun e => (fst e, Some (snd e))) es).
    split; [exact Hs'|]. rewrite <- H4. split; [exact H|]. split.
    + rewrite <- H1. clear. induction es as [|e t IH]; [reflexivity|]. cbn [map flat_map fst]. now rewrite IH.
    + rewrite <- H2. clear. induction es as [|e t IH]; [reflexivity|].
      cbn [map flat_map snd opt_list app]. now rewrite IH.
Qed.

(* ---- tables: names and keywords of the element types (re-read from the source) ---- *)

Lemma etype_ascii_tables ty : ty <> Vertex ->
  word_ok (etype_ascii_name ty) /\
  bytes_eqb (map to_lower (etype_ascii_name ty)) kw_end = false /\
  bytes_eqb (map to_lower (etype_ascii_name ty)) kw_vertices = false /\
  lookup_kw (map to_lower (etype_ascii_name ty)) etype_keywords = Some ty /\
  (1 <= etype_node_count ty)%nat.
Proof. intros H. destruct ty; try congruence; vm_compute; repeat split; lia. Qed.

Lemma ascii_literal_tables :
  bytes_eqb (map to_lower [69; 110; 100]) kw_end = true /\
  bytes_eqb (map to_lower [86; 101; 114; 116; 105; 99; 101; 115]) kw_end = false /\
  bytes_eqb (map to_lower [86; 101; 114; 116; 105; 99; 101; 115]) kw_vertices = true.
Proof. vm_compute. repeat split. Qed.

Lemma asc_blocks_nonvertex ty ns rs t : ty <> Vertex ->
  asc_blocks (mkblock ty ns rs :: t) =
    match asc_elems (zip_chunks (etype_node_count ty) ns rs) with
    | FOk body =>
      match asc_blocks t with
      | FOk rest =>
        FOk ([10] ++ etype_ascii_name ty ++ [10; 9] ++ print_N (N.of_nat (length rs)) ++ [10] ++ body ++ rest)
      | e => e
      end
    | e => e
    end.
Proof. intros H. destruct ty; try congruence; reflexivity. Qed.

Definition block_ranges_ascii (b : block) : Prop :=
  Forall node_ok_ascii (b_nodes b) /\ Forall i64_ok (b_refs b) /\
  8 * N.of_nat (length (b_nodes b)) <= isize_max.

Section AsciiRoundtrip.
  Variable print_f64 : N -> list N.
  Variable parse_f64 : list N -> option N.

  (* what is assumed of Rust std's f64 Display / FromStr, per coordinate *)
  Definition float_ok (x : N) : Prop :=
    parse_f64 (print_f64 x) = Some x /\ word_ok (print_f64 x).

  (* ---- vertices ---- *)

  Definition node_words (n : list N * Z) : list (list N) :=
    map print_f64 (fst n) ++ [print_Z (snd n)].

  Lemma asc_node_line n : asc_node print_f64 n = line_of (node_words n).
  Proof.
    unfold asc_node, line_of, node_words. rewrite flat_map_app, flat_map_sp_map.
    cbn [flat_map]. rewrite app_nil_r, <- !app_assoc. reflexivity.
  Qed.

  Lemma vertex_coords_ok cs : forall fuel rest,
    Forall float_ok cs -> (length cs <= fuel)%nat ->
    vertex_coords parse_f64 fuel (N.of_nat (length cs)) (map print_f64 cs ++ rest) = FOk (cs, rest).
  Proof.
    induction cs as [|c t IH]; intros fuel rest H Hf.
    - destruct fuel; reflexivity.
    - destruct fuel as [|fu]; [cbn [length] in Hf; lia|].
      inversion H as [|? ? [Hc _] Ht]; subst.
      cbn [length map app vertex_coords].
      destruct (N.eqb_spec (N.of_nat (S (length t))) 0) as [E|_]; [lia|].
      rewrite Hc. replace (N.of_nat (S (length t)) - 1) with (N.of_nat (length t)) by lia.
      rewrite (IH fu rest Ht ltac:(cbn [length] in Hf; lia)). reflexivity.
  Qed.

  Lemma node_words_ok n :
    Forall float_ok (fst n) -> Forall word_ok (node_words n) /\ node_words n <> [].
  Proof.
    intros H. split.
    - unfold node_words. apply Forall_app_intro.
      + apply Forall_forall. intros w Hin. apply in_map_iff in Hin as (c & <- & Hc).
        rewrite Forall_forall in H. exact (proj2 (H _ Hc)).
      + constructor; [apply print_Z_word|constructor].
    - unfold node_words. destruct (map _ (fst n)); discriminate.
  Qed.

  Lemma vertex_line_ok dim cs r ln seps rest :
    seps_ok seps -> N.of_nat (length cs) = dim -> Forall float_ok cs -> i64_ok r ->
    exists ln', vertex_line parse_f64 dim (ln, seps ++ asc_node print_f64 (cs, r) ++ rest)
                = FOk ((cs, Some r), (ln', rest)).
  Proof.
    intros Hs Hd Hc Hr.
    destruct (node_words_ok (cs, r) Hc) as [Hw Hne].
    destruct (read_L_line ln seps (node_words (cs, r)) rest Hs Hne Hw) as (ln' & H).
    exists ln'. unfold vertex_line. rewrite asc_node_line, H.
    rewrite (split_body _ Hne Hw). unfold node_words. cbn [fst snd].
    rewrite <- Hd. rewrite vertex_coords_ok; [|exact Hc|rewrite app_length, map_length; lia].
    rewrite parse_isize_print by exact Hr. reflexivity.
  Qed.

  Lemma asc_node_length n : (1 <= length (asc_node print_f64 n))%nat.
  Proof. rewrite asc_node_line. unfold line_of. rewrite app_length. cbn [length]. lia. Qed.

  Lemma read_vertices_ascii dim coords nrefs ln rest :
    dim <> 0 -> N.of_nat (length coords) = dim * N.of_nat (length nrefs) ->
    Forall float_ok coords -> Forall i64_ok nrefs ->
    let ns := zip_chunks_exact dim coords nrefs in
    exists ln' seps' vs, seps_ok seps' /\
      read_lines (S (length ([10] ++ flat_map (asc_node print_f64) ns ++ rest))) (N.of_nat (length nrefs))
        (vertex_line parse_f64 dim) (ln, [10] ++ flat_map (asc_node print_f64) ns ++ rest)
      = FOk (vs, (ln', seps' ++ rest))
      /\ flat_map fst vs = coords /\ flat_map (fun v => opt_list (snd v)) vs = nrefs.
  Proof.
    intros Hd Hlen Hc Hr ns.
    destruct (zip_chunks_exact_spec dim Hd nrefs coords Hlen) as (H1 & H2 & H3 & H4).
    fold ns in H1, H2, H3, H4.
    destruct (read_lines_roundtrip (asc_node print_f64) (vertex_line parse_f64 dim)
                (fun e => (fst e, Some (snd e))) ns
                (S (length ([10] ++ flat_map (asc_node print_f64) ns ++ rest))) ln [10] rest)
      as (ln' & seps' & Hs' & H).
    - rewrite !app_length. pose proof (flat_map_length_ge (asc_node print_f64) ns asc_node_length). lia.
    - reflexivity.
    - rewrite <- H1 in Hc. rewrite <- H2 in Hr.
      apply Forall_flat_map_fst in Hc. apply Forall_map_snd in Hr.
      rewrite Forall_forall in *. intros [cs r] Hin ln0 seps0 rest0 Hs0. cbn [fst snd].
      apply vertex_line_ok; [exact Hs0|exact (H3 _ Hin)|exact (Hc _ Hin)|exact (Hr _ Hin)].
    - exists ln', seps', (map (fun e => (fst e, Some (snd e))) ns).
      split; [exact Hs'|]. rewrite <- H4. split; [exact H|]. split.
      + rewrite <- H1. clear. induction ns as [|e t IH]; [reflexivity|]. cbn [map flat_map fst]. now rewrite IH.
      + rewrite <- H2. clear. induction ns as [|e t IH]; [reflexivity|].
        cbn [map flat_map snd opt_list app]. now rewrite IH.
  Qed.

  (* ---- the element sections ---- *)

  Lemma parse_blocks_ascii : forall bs acc ln seps fuel,
    Forall block_shape bs -> Forall block_ranges_ascii bs ->
    (length (drop_vertex_blocks bs) < fuel)%nat -> seps_ok seps ->
    exists bytes, asc_blocks bs = FOk bytes /\
      parse_sections parse_f64 fuel acc (ln, seps ++ bytes ++ ascii_epilogue)
      = FOk (mkmesh (m_dim acc) (m_coords acc) (m_nrefs acc) (m_topo acc ++ drop_vertex_blocks bs)).
  Proof.
    induction bs as [|b t IH]; intros acc ln seps fuel Hsh Hrg Hfuel Hs.
    - exists []. split; [reflexivity|].
      destruct fuel as [|f]; [cbn [length drop_vertex_blocks filter] in Hfuel; lia|].
      cbn [app parse_sections]. unfold ascii_epilogue.
      assert (Hs' : seps_ok (seps ++ [10])).
      { unfold seps_ok in *. rewrite forallb_app, Hs. reflexivity. }
      destruct (read_T_word ln (seps ++ [10]) [69; 110; 100] [] Hs' ltac:(reflexivity) I) as (ln' & H).
      rewrite <- app_assoc in H. cbn [app] in H. rewrite H.
      destruct ascii_literal_tables as (L1 & _). rewrite L1.
      cbn [drop_vertex_blocks filter]. rewrite app_nil_r. now destruct acc.
    - destruct fuel as [|f]; [lia|].
      inversion Hsh as [|? ? Hb Ht]; subst. inversion Hrg as [|? ? Hbr Htr]; subst.
      destruct b as [ty ns rs].
      destruct (etype_eqb ty Vertex) eqn:Ev.
      + assert (ty = Vertex) by (destruct ty; try discriminate; reflexivity). subst ty.
        cbn [drop_vertex_blocks filter b_ty etype_eqb negb] in Hfuel. fold (drop_vertex_blocks t) in Hfuel.
        destruct (IH acc ln seps (S f) Ht Htr Hfuel Hs) as (bytes & Hsb & Hp).
        exists bytes. split; [exact Hsb|]. rewrite Hp. reflexivity.
      + assert (Hty : ty <> Vertex) by (intros ->; discriminate).
        cbn [drop_vertex_blocks filter b_ty] in Hfuel. rewrite Ev in Hfuel. cbn [negb length] in Hfuel.
        fold (drop_vertex_blocks t) in Hfuel.
        destruct (etype_ascii_tables ty Hty) as (T1 & T2 & T3 & T4 & T5).
        unfold block_shape in Hb. cbn [b_nodes b_refs b_ty] in Hb.
        destruct Hbr as (Hn & Hr & Hcap). cbn [b_nodes b_refs] in Hn, Hr, Hcap.
        rewrite asc_blocks_nonvertex by exact Hty.
        set (npe := etype_node_count ty) in *.
        set (es := zip_chunks npe ns rs).
        destruct (zip_chunks_spec npe T5 rs ns Hb) as (Z1 & Z2 & Z3 & Z4). fold es in Z1, Z2, Z3, Z4.
        assert (Hes : Forall (fun e => Forall node_ok_ascii (fst e)) es).
        { apply Forall_flat_map_fst. rewrite Z1. exact Hn. }
        rewrite (asc_elems_ok es Hes).
        set (acc' := mkmesh (m_dim acc) (m_coords acc) (m_nrefs acc) (m_topo acc ++ [mkblock ty ns rs])).
        (* the state after this block's lines is known only up to its separators: take the
           byte string of the remaining blocks first *)
        destruct (IH acc' 0 [] f Ht Htr ltac:(lia) ltac:(reflexivity)) as (bytes & Hsb & _).
        rewrite Hsb. eexists. split; [reflexivity|].
        cbn [parse_sections].
        assert (Hs' : seps_ok (seps ++ [10])).
        { unfold seps_ok in *. rewrite forallb_app, Hs. reflexivity. }
        set (count := N.of_nat (length rs)).
        set (after_name := [10; 9] ++ print_N count ++ [10] ++ flat_map asc_elem es ++ bytes ++ ascii_epilogue).
        destruct (read_T_word ln (seps ++ [10]) (etype_ascii_name ty) after_name Hs' T1 ltac:(reflexivity))
          as (ln1 & H1).
        replace (seps ++ ([10] ++ etype_ascii_name ty ++ [10; 9] ++ print_N count ++ [10]
                          ++ flat_map asc_elem es ++ bytes) ++ ascii_epilogue)
          with ((seps ++ [10]) ++ etype_ascii_name ty ++ after_name)
          by (unfold after_name; rewrite <- !app_assoc; reflexivity).
        rewrite H1, T2, T3, T4.
        (* the count *)
        assert (Hcnt : count < 2 ^ 64).
        { unfold count, isize_max in *. change (2 ^ 63 - 1) with 9223372036854775807 in Hcap.
          change (2 ^ 64) with 18446744073709551616. rewrite Hb in Hcap. nia. }
        set (after_count := [10] ++ flat_map asc_elem es ++ bytes ++ ascii_epilogue).
        destruct (read_T_word ln1 [10; 9] (print_N count) after_count ltac:(reflexivity)
                    (print_N_word count) ltac:(reflexivity)) as (ln2 & H2).
        assert (Hfc : find_count (S (length after_name)) ln1 (ln1, after_name)
                      = FOk (count, (ln2, after_count))).
        { cbn [find_count]. unfold after_name. fold after_count. rewrite H2.
          unfold print_N at 1. rewrite lower_uint_bytes. fold (print_N count).
          rewrite parse_usize_print by exact Hcnt. reflexivity. }
        cbn [fst snd]. rewrite Hfc. fold npe.
        rewrite cap8_ok by (unfold count; rewrite Hb in Hcap; lia).
        destruct (read_elements_ascii npe ns rs ln2 (bytes ++ ascii_epilogue) T5 Hb Hn Hr)
          as (ln3 & seps3 & es' & Hs3 & Hrd & E1 & E2).
        fold es in Hrd. cbn [snd]. unfold after_count, count. rewrite Hrd, E1, E2. fold acc'.
        destruct (IH acc' ln3 seps3 f Ht Htr ltac:(lia) Hs3) as (bytes' & Hsb' & Hp).
        rewrite Hsb in Hsb'. injection Hsb' as <-. rewrite Hp.
        cbn [drop_vertex_blocks filter b_ty]. rewrite Ev. cbn [negb].
        unfold acc'. cbn [m_dim m_coords m_nrefs m_topo]. rewrite <- app_assoc. reflexivity.
  Qed.
End AsciiRoundtrip.

Lemma asc_blocks_length bs : forall bytes,
  asc_blocks bs = FOk bytes -> (length (drop_vertex_blocks bs) <= length bytes)%nat.
Proof.
  induction bs as [|[ty ns rs] t IH]; intros bytes H.
  - cbn. lia.
  - destruct (etype_eqb ty Vertex) eqn:Ev.
    + assert (ty = Vertex) by (destruct ty; try discriminate; reflexivity). subst ty.
      cbn [asc_blocks b_ty] in H. apply IH in H. cbn [drop_vertex_blocks filter b_ty etype_eqb negb]. exact H.
    + assert (Hty : ty <> Vertex) by (intros ->; discriminate).
      rewrite asc_blocks_nonvertex in H by exact Hty.
      destruct (asc_elems _) as [body| | |]; try discriminate.
      destruct (asc_blocks t) as [rest'| | |] eqn:Es; try discriminate.
      specialize (IH rest' eq_refl). injection H as <-.
      cbn [drop_vertex_blocks filter b_ty]. rewrite Ev. cbn [negb length].
      fold (drop_vertex_blocks t). rewrite !app_length. cbn [length]. rewrite !app_length. cbn [length].
      rewrite !app_length. lia.
Qed.

(* the fixed text of the writer, as the token reader sees it *)
Lemma parse_ascii_prologue parse_f64 X :
  parse_ascii parse_f64 (ascii_prologue ++ X) =
  match read_usize (2, 32 :: X) with
  | FOk (dim, st4) => parse_sections parse_f64 (S (length (snd st4))) (mkmesh dim [] [] []) st4
  | FErr e => FErr e | FPanic p => FPanic p | FOutOfFuel => FOutOfFuel
  end.
Proof. reflexivity. Qed.

Definition mesh_ranges_ascii (m : mesh) : Prop :=
  m_dim m < 2 ^ 64 /\
  Forall i64_ok (m_nrefs m) /\
  8 * N.of_nat (length (m_coords m)) <= isize_max /\
  8 * N.of_nat (length (m_nrefs m)) <= isize_max /\
  Forall block_ranges_ascii (m_topo m).

Definition wf_mesh_ascii (m : mesh) : Prop := mesh_shape m /\ mesh_ranges_ascii m.

(* one iteration of the section loop on a "vertices" token *)
Lemma parse_sections_vertices parse_f64 f m st sec st1 :
  read_T st = FOk (sec, st1) -> bytes_eqb sec kw_end = false -> bytes_eqb sec kw_vertices = true ->
  parse_sections parse_f64 (S f) m st =
  match read_usize st1 with
  | FOk (nv, st2) =>
    match (match cap8_check (m_dim m) nv with Some p => Some p | None => cap8_check nv 1 end) with
    | Some p => FPanic p
    | None =>
      match read_lines (S (length (snd st2))) nv (vertex_line parse_f64 (m_dim m)) st2 with
      | FOk (vs, st3) =>
        parse_sections parse_f64 f
          (mkmesh (m_dim m) (flat_map fst vs) (flat_map (fun v => opt_list (snd v)) vs) (m_topo m)) st3
      | FErr e => FErr e | FPanic p => FPanic p | FOutOfFuel => FOutOfFuel
      end
    end
  | FErr e => FErr e | FPanic p => FPanic p | FOutOfFuel => FOutOfFuel
  end.
Proof. intros H1 H2 H3. cbn [parse_sections]. rewrite H1, H2, H3. reflexivity. Qed.

Section AsciiMain.
  Variable print_f64 : N -> list N.
  Variable parse_f64 : list N -> option N.

  Definition rw_medit_ascii (m : mesh) : fres mesh :=
    fbind (serialize_ascii print_f64 m) (parse_ascii parse_f64).

  Theorem medit_ascii_roundtrip_proof : forall m,
    wf_mesh_ascii m -> Forall (float_ok print_f64 parse_f64) (m_coords m) ->
    rw_medit_ascii m = FOk (norm_ascii m).
  Proof.
    intros [dim coords nrefs topo] [[Hd [Hlen Hsh]] [Hdim [Hr [Hcapc [Hcapr Hrg]]]]] Hc.
    cbn [m_dim m_coords m_nrefs m_topo] in *.
    unfold rw_medit_ascii, serialize_ascii. cbn [m_dim m_coords m_nrefs m_topo].
    destruct (N.eqb_spec dim 0) as [|_]; [contradiction|].
    set (acc := mkmesh dim coords nrefs []).
    destruct (parse_blocks_ascii parse_f64 topo acc 0 [] (S (length (drop_vertex_blocks topo)))
                Hsh Hrg ltac:(lia) ltac:(reflexivity)) as (bytes & Hser & _).
    rewrite Hser. cbn [fbind].
    set (ns := zip_chunks_exact dim coords nrefs).
    set (nv := N.of_nat (length nrefs)).
    rewrite <- ?app_assoc. rewrite parse_ascii_prologue.
    (* dimension *)
    set (after_dim := ascii_vertices_kw ++ print_N nv ++ [10] ++
                      flat_map (asc_node print_f64) ns ++ bytes ++ ascii_epilogue).
    destruct (read_usize_word 2 [32] dim after_dim ltac:(reflexivity) Hdim ltac:(reflexivity)) as (ln1 & H1).
    change (32 :: print_N dim ++ after_dim) with ([32] ++ print_N dim ++ after_dim). rewrite H1.
    cbn [snd].
    (* the section loop: Vertices *)
    assert (Hlt : (length (drop_vertex_blocks topo) + 4 <= length after_dim)%nat).
    { unfold after_dim, ascii_epilogue. rewrite !app_length. cbn [length].
      pose proof (asc_blocks_length topo bytes Hser). lia. }
    remember (length after_dim) as ft eqn:Eft. clear Eft.
    set (after_kw := [10; 9] ++ print_N nv ++ [10] ++ flat_map (asc_node print_f64) ns ++ bytes ++ ascii_epilogue).
    destruct (read_T_word ln1 [10; 10] [86; 101; 114; 116; 105; 99; 101; 115] after_kw
                ltac:(reflexivity) ltac:(reflexivity) ltac:(reflexivity)) as (ln2 & H2).
    destruct ascii_literal_tables as (_ & L2 & L3).
    rewrite (parse_sections_vertices parse_f64 ft _ _ _ _ H2 L2 L3).
    assert (Hnv : nv < 2 ^ 64).
    { unfold nv, isize_max in *. change (2 ^ 63 - 1) with 9223372036854775807 in Hcapr.
      change (2 ^ 64) with 18446744073709551616. lia. }
    set (after_nv := [10] ++ flat_map (asc_node print_f64) ns ++ bytes ++ ascii_epilogue).
    destruct (read_usize_word ln2 [10; 9] nv after_nv ltac:(reflexivity) Hnv ltac:(reflexivity)) as (ln3 & H3).
    unfold after_kw. fold after_nv. rewrite H3.
    cbn [m_dim].
    rewrite cap8_ok by (unfold nv; rewrite <- Hlen; exact Hcapc).
    rewrite cap8_ok by (unfold nv; rewrite N.mul_1_r; exact Hcapr).
    destruct (read_vertices_ascii print_f64 parse_f64 dim coords nrefs ln3 (bytes ++ ascii_epilogue)
                Hd Hlen Hc Hr) as (ln4 & seps4 & vs & Hs4 & Hrd & V1 & V2).
    fold ns in Hrd. cbn [snd]. unfold after_nv, nv. rewrite Hrd, V1, V2. cbn [m_topo].
    (* the element sections *)
    destruct (parse_blocks_ascii parse_f64 topo acc ln4 seps4 ft Hsh Hrg ltac:(lia) Hs4)
      as (bytes' & Hser' & Hp).
    rewrite Hser in Hser'. injection Hser' as <-.
    unfold acc in Hp. rewrite Hp. reflexivity.
  Qed.

  (* ---- sniffing: what display_medit_ascii emits is detected as ASCII ---- *)

  Lemma serialize_ascii_prefix m bytes :
    serialize_ascii print_f64 m = FOk bytes -> exists t, bytes = ascii_prologue ++ t.
  Proof.
    unfold serialize_ascii. destruct (m_dim m =? 0); [discriminate|].
    destruct (asc_blocks _) as [bl| | |]; try discriminate.
    intros H. injection H as <-. eexists. reflexivity.
  Qed.
End AsciiMain.

(* ---- every byte display_medit_ascii emits is ASCII, when the printed floats are ---- *)

Definition ascii_bytes (l : list N) : Prop := forallb (fun b => b <? 128) l = true.

Lemma ascii_bytes_app a b : ascii_bytes a -> ascii_bytes b -> ascii_bytes (a ++ b).
Proof. unfold ascii_bytes. intros Ha Hb. now rewrite forallb_app, Ha, Hb. Qed.

Lemma ascii_bytes_cons b l : (b <? 128) = true -> ascii_bytes l -> ascii_bytes (b :: l).
Proof. unfold ascii_bytes. intros Hb Hl. cbn [forallb]. now rewrite Hb, Hl. Qed.

Ltac ascii_split :=
  repeat first [ apply ascii_bytes_app | apply ascii_bytes_cons; [reflexivity|] ].

Lemma ascii_bytes_word w : word_ok w -> ascii_bytes w.
Proof. intros H. eapply forallb_impl; [|exact (word_ok_bytes _ H)]. apply word_byte_ascii. Qed.

Lemma ascii_bytes_sp w : word_ok w -> ascii_bytes (sp w).
Proof. intros H. unfold sp. change (32 :: w) with ([32] ++ w). apply ascii_bytes_app; [reflexivity|now apply ascii_bytes_word]. Qed.

Lemma asc_elem_nodes_ascii ns : forall b, asc_elem_nodes ns = FOk b -> ascii_bytes b.
Proof.
  induction ns as [|n t IH]; intros b H.
  - injection H as <-. reflexivity.
  - cbn [asc_elem_nodes] in H. destruct (n mod 2 ^ 64 =? u64_max); [discriminate|].
    destruct (asc_elem_nodes t) as [b'| | |]; try discriminate. injection H as <-.
    apply ascii_bytes_app; [apply ascii_bytes_sp, print_N_word|now apply IH].
Qed.

Lemma asc_elems_ascii es : forall b, asc_elems es = FOk b -> ascii_bytes b.
Proof.
  induction es as [|[ns r] t IH]; intros b H.
  - injection H as <-. reflexivity.
  - cbn [asc_elems] in H. destruct (asc_elem_nodes ns) as [b1| | |] eqn:E1; try discriminate.
    destruct (asc_elems t) as [b2| | |]; try discriminate. injection H as <-.
    ascii_split; [now apply (asc_elem_nodes_ascii ns)|apply ascii_bytes_sp, print_Z_word|now apply IH].
Qed.

Lemma etype_ascii_name_ascii ty : ascii_bytes (etype_ascii_name ty).
Proof. destruct ty; reflexivity. Qed.

Lemma asc_blocks_ascii bs : forall b, asc_blocks bs = FOk b -> ascii_bytes b.
Proof.
  induction bs as [|[ty ns rs] t IH]; intros b H.
  - injection H as <-. reflexivity.
  - destruct (etype_eqb ty Vertex) eqn:Ev.
    + assert (ty = Vertex) by (destruct ty; try discriminate; reflexivity). subst ty.
      cbn [asc_blocks b_ty] in H. now apply IH.
    + assert (Hty : ty <> Vertex) by (intros ->; discriminate).
      rewrite asc_blocks_nonvertex in H by exact Hty.
      destruct (asc_elems _) as [body| | |] eqn:Eb; try discriminate.
      destruct (asc_blocks t) as [rest'| | |]; try discriminate. injection H as <-.
      ascii_split; try reflexivity.
      * apply etype_ascii_name_ascii.
      * apply ascii_bytes_word, print_N_word.
      * exact (asc_elems_ascii _ body Eb).
      * now apply IH.
Qed.

Lemma zip_chunks_exact_in d : forall rs cs x,
  In x (flat_map fst (zip_chunks_exact d cs rs)) -> In x cs.
Proof.
  intros rs cs x. rewrite zip_chunks_exact_ref_eq. revert cs x.
  induction rs as [|r rs IH]; intros cs x H; [contradiction|].
  cbn [zip_chunks_exact_ref] in H. destruct (N.of_nat (length cs) <? d); [contradiction|].
  cbn [flat_map fst] in H. apply in_app_or in H. rewrite <- (firstn_skipn (N.to_nat d) cs).
  apply in_or_app. destruct H as [H|H]; [left; exact H|right; now apply IH].
Qed.

Section AsciiSniff.
  Variable print_f64 : N -> list N.

  Lemma serialize_ascii_bytes m bytes :
    serialize_ascii print_f64 m = FOk bytes ->
    Forall (fun x => word_ok (print_f64 x)) (m_coords m) -> ascii_bytes bytes.
  Proof.
    unfold serialize_ascii. destruct (m_dim m =? 0); [discriminate|].
    destruct (asc_blocks _) as [bl| | |] eqn:Eb; try discriminate.
    intros H Hc. injection H as <-.
    unfold ascii_prologue, ascii_vertices_kw, ascii_epilogue. ascii_split; try reflexivity.
    - apply ascii_bytes_word, print_N_word.
    - apply ascii_bytes_word, print_N_word.
    - set (ns := zip_chunks_exact _ _ _).
      assert (Hns : forall x, In x (flat_map fst ns) -> word_ok (print_f64 x)).
      { intros x Hx. apply zip_chunks_exact_in in Hx. rewrite Forall_forall in Hc. now apply Hc. }
      clearbody ns. induction ns as [|[cs r] t IH]; [reflexivity|].
      cbn [flat_map]. apply ascii_bytes_app.
      + unfold asc_node. cbn [fst snd]. apply ascii_bytes_app.
        * assert (Hcs : forall x, In x cs -> word_ok (print_f64 x)).
          { intros x Hx. apply Hns. cbn [flat_map fst]. apply in_or_app. now left. }
          clear -Hcs. induction cs as [|c cs IHc]; [reflexivity|].
          cbn [flat_map]. apply ascii_bytes_app; [apply ascii_bytes_sp, Hcs; now left|].
          apply IHc. intros x Hx. apply Hcs. now right.
        * apply ascii_bytes_app; [apply ascii_bytes_sp, print_Z_word|reflexivity].
      + apply IH. intros x Hx. apply Hns. cbn [flat_map fst]. apply in_or_app. now right.
    - exact (asc_blocks_ascii _ bl Eb).
  Qed.

  (* whatever prefix (>= 20 bytes) of the file from_reader looks at, it decides "ASCII" *)
  Theorem sniff_ascii_written_proof : forall m bytes n,
    serialize_ascii print_f64 m = FOk bytes ->
    Forall (fun x => word_ok (print_f64 x)) (m_coords m) ->
    (20 <= n)%nat -> sniff (firstn n bytes) = FOk FmtAscii.
  Proof.
    intros m bytes n H Hc Hn.
    pose proof (serialize_ascii_bytes m bytes H Hc) as Ha.
    apply serialize_ascii_prefix in H as [t ->].
    assert (Hp : ascii_bytes (firstn n (ascii_prologue ++ t))).
    { unfold ascii_bytes in *. rewrite <- (firstn_skipn n (ascii_prologue ++ t)), forallb_app in Ha.
      now apply andb_prop in Ha as [Ha _]. }
    (* the first 21 bytes are known *)
    do 20 (destruct n as [|n]; [lia|]).
    unfold ascii_prologue in *. cbn [app firstn] in Hp |- *.
    unfold sniff. cbn [test_format_binary]. change (bytes_eqb [77; 101; 115; 104] [1; 0; 0; 0]) with false.
    change (bytes_eqb [77; 101; 115; 104] [0; 0; 0; 1]) with false. cbn [orb].
    unfold test_format_ascii. rewrite (utf8_valid_ascii _ Hp). cbn [negb].
    destruct n as [|n]; reflexivity.
  Qed.
End AsciiSniff.

(* without Vertex blocks the ASCII round trip changes nothing *)
Lemma norm_ascii_novertex m : Forall (fun b => b_ty b <> Vertex) (m_topo m) -> norm_ascii m = m.
Proof.
  destruct m as [dim coords nrefs topo]. unfold norm_ascii. cbn [m_dim m_coords m_nrefs m_topo].
  intros H. f_equal. induction H as [|[ty ns rs] t Hb Ht IH]; [reflexivity|].
  cbn [b_ty] in Hb. cbn [drop_vertex_blocks filter b_ty].
  assert (E : etype_eqb ty Vertex = false) by (destruct ty; try reflexivity; congruence).
  rewrite E. cbn [negb]. f_equal. exact IH.
Qed.

Corollary medit_ascii_roundtrip_novertex print_f64 parse_f64 m :
  wf_mesh_ascii m -> Forall (float_ok print_f64 parse_f64) (m_coords m) ->
  Forall (fun b => b_ty b <> Vertex) (m_topo m) ->
  rw_medit_ascii print_f64 parse_f64 m = FOk m.
Proof.
  intros Hwf Hc Hv. rewrite medit_ascii_roundtrip_proof by assumption. now rewrite norm_ascii_novertex.
Qed.

(* Mesh::from_reader on the written text takes the ASCII parser *)
Corollary from_reader_ascii_written print_f64 parse_f64 m bytes :
  serialize_ascii print_f64 m = FOk bytes ->
  Forall (fun x => word_ok (print_f64 x)) (m_coords m) ->
  from_reader parse_f64 bytes = parse_ascii parse_f64 bytes.
Proof.
  intros H Hc. unfold from_reader.
  pose proof (sniff_ascii_written_proof print_f64 m bytes (length bytes) H Hc) as Hs.
  rewrite firstn_all in Hs. rewrite Hs; [reflexivity|].
  apply serialize_ascii_prefix in H as [t ->]. rewrite app_length. cbn [length ascii_prologue]. lia.
Qed.

(* ---- parse_ascii never runs out of the fuel it gives its loops ---- *)

Lemma skip_seps_le s : forall ln, (length (snd (skip_seps ln s)) <= length s)%nat.
Proof.
  induction s as [|b t IH]; intros ln; cbn [skip_seps]; [cbn; lia|].
  destruct (is_separator b); [specialize (IH (if b =? 10 then ln + 1 else ln)); cbn [length]; lia|cbn; lia].
Qed.

Lemma skip_seps_head s : forall ln ln' b t, skip_seps ln s = (ln', b :: t) -> is_separator b = false.
Proof.
  induction s as [|c s IH]; intros ln ln' b t; cbn [skip_seps]; [discriminate|].
  destruct (is_separator c) eqn:E; [apply IH|]. intros [= _ <- _]. exact E.
Qed.

Lemma span_token_length s : length s = (length (fst (span_token s)) + length (snd (span_token s)))%nat.
Proof.
  induction s as [|b t IH]; [reflexivity|]. cbn [span_token].
  destruct (is_separator b); cbn [fst snd length]; lia.
Qed.

Lemma span_line_length s : length s = (length (fst (span_line s)) + length (snd (span_line s)))%nat.
Proof.
  induction s as [|b t IH]; [reflexivity|]. cbn [span_line].
  destruct (b =? 10); cbn [fst snd length]; lia.
Qed.

Lemma skip_separators_spec st st' :
  skip_separators st = FOk st' ->
  (length (snd st') <= length (snd st))%nat /\ exists b t, snd st' = b :: t /\ is_separator b = false.
Proof.
  unfold skip_separators. destruct (skip_seps (fst st) (snd st)) as [ln' [|b t]] eqn:E; [discriminate|].
  intros [= <-]. cbn [snd]. split.
  - pose proof (skip_seps_le (snd st) (fst st)) as H. rewrite E in H. exact H.
  - exists b, t. split; [reflexivity|]. exact (skip_seps_head _ _ _ _ _ E).
Qed.

Lemma skip_separators_fuel st : skip_separators st <> FOutOfFuel.
Proof. unfold skip_separators. destruct (skip_seps _ _) as [? [|? ?]]; discriminate. Qed.

Lemma read_T_spec st :
  read_T st <> FOutOfFuel /\
  forall tok st', read_T st = FOk (tok, st') -> (length (snd st') < length (snd st))%nat.
Proof.
  unfold read_T. pose proof (skip_separators_fuel st) as Hf.
  destruct (skip_separators st) as [[ln s]| | |] eqn:E; try (split; [discriminate|intros; discriminate]);
    [|congruence].
  apply skip_separators_spec in E as (Hle & b & t & Hs & Hb). cbn [snd] in Hle, Hs. subst s.
  destruct (utf8_valid (fst (span_token (b :: t)))); (split; [discriminate|]); [|intros; discriminate].
  intros tok st' [= _ <-]. cbn [snd].
  pose proof (span_token_length (b :: t)) as Hl. cbn [span_token] in Hl |- *. rewrite Hb in Hl |- *.
  cbn [fst snd length] in Hl, Hle |- *. lia.
Qed.

Lemma read_L_spec st :
  read_L st <> FOutOfFuel /\
  forall line st', read_L st = FOk (line, st') -> (length (snd st') < length (snd st))%nat.
Proof.
  unfold read_L. pose proof (skip_separators_fuel st) as Hf.
  destruct (skip_separators st) as [[ln s]| | |] eqn:E; try (split; [discriminate|intros; discriminate]);
    [|congruence].
  apply skip_separators_spec in E as (Hle & b & t & Hs & Hb). cbn [snd] in Hle, Hs. subst s.
  destruct (utf8_valid (fst (span_line (b :: t)))); (split; [discriminate|]); [|intros; discriminate].
  intros line st' [= _ <-]. cbn [snd].
  pose proof (span_line_length (b :: t)) as Hl. cbn [span_line] in Hl |- *.
  cbn [length] in Hle. destruct (b =? 10); cbn [fst snd length] in Hl |- *; lia.
Qed.

Lemma read_usize_spec st :
  read_usize st <> FOutOfFuel /\
  forall n st', read_usize st = FOk (n, st') -> (length (snd st') < length (snd st))%nat.
Proof.
  unfold read_usize. destruct (read_T_spec st) as [Hf Hc].
  destruct (read_T st) as [[tok st1]| | |] eqn:E; try (split; [discriminate|intros; discriminate]);
    [|congruence].
  destruct (parse_usize tok); (split; [discriminate|]); [|intros; discriminate].
  intros n' st' [= _ <-]. exact (Hc _ _ eq_refl).
Qed.

Lemma read_lines_fuel {A} (rd : rstate -> fres (A * rstate)) :
  (forall st, rd st <> FOutOfFuel /\
              forall x st', rd st = FOk (x, st') -> (length (snd st') < length (snd st))%nat) ->
  forall fuel count st, (length (snd st) < fuel)%nat ->
    read_lines fuel count rd st <> FOutOfFuel /\
    forall xs st', read_lines fuel count rd st = FOk (xs, st') -> (length (snd st') <= length (snd st))%nat.
Proof.
  intros Hrd. induction fuel as [|f IH]; intros count st Hlen; [lia|].
  cbn [read_lines]. destruct (count =? 0).
  - split; [discriminate|]. intros xs st' [= _ <-]. lia.
  - destruct (Hrd st) as [Hf Hc].
    destruct (rd st) as [[x st1]| | |] eqn:E; try (split; [discriminate|intros; discriminate]);
      [|congruence].
    specialize (Hc _ _ eq_refl).
    destruct (IH (count - 1) st1 ltac:(lia)) as [Hf2 Hc2].
    destruct (read_lines f (count - 1) rd st1) as [[xs st2]| | |] eqn:E2;
      try (split; [discriminate|intros; discriminate]); [|congruence].
    specialize (Hc2 _ _ eq_refl). split; [discriminate|]. intros xs' st' [= _ <-]. lia.
Qed.

Section AsciiTermination.
  Variable parse_f64 : list N -> option N.

  Lemma vertex_coords_fuel : forall fuel dim ws,
    (length ws < fuel)%nat -> vertex_coords parse_f64 fuel dim ws <> FOutOfFuel.
  Proof.
    induction fuel as [|f IH]; intros dim ws Hlen; [lia|].
    cbn [vertex_coords]. destruct (dim =? 0); [discriminate|].
    destruct ws as [|w ws']; [discriminate|]. destruct (parse_f64 w); [|discriminate].
    specialize (IH (dim - 1) ws' ltac:(cbn [length] in Hlen; lia)).
    destruct (vertex_coords parse_f64 f (dim - 1) ws') as [[? ?]| | |]; try discriminate. congruence.
  Qed.

  Lemma vertex_line_spec dim st :
    vertex_line parse_f64 dim st <> FOutOfFuel /\
    forall x st', vertex_line parse_f64 dim st = FOk (x, st') -> (length (snd st') < length (snd st))%nat.
  Proof.
    unfold vertex_line. destruct (read_L_spec st) as [Hf Hc].
    destruct (read_L st) as [[line st1]| | |] eqn:E; try (split; [discriminate|intros; discriminate]);
      [|congruence].
    specialize (Hc _ _ eq_refl).
    pose proof (vertex_coords_fuel (S (length (split_whitespace line))) dim (split_whitespace line) ltac:(lia)) as Hv.
    destruct (vertex_coords parse_f64 _ dim _) as [[cs rest]| | |];
      try (split; [discriminate|intros; discriminate]); [|congruence].
    destruct rest as [|w rest']; [split; [discriminate|]; intros x st' [= _ <-]; exact Hc|].
    destruct (parse_isize w); [|split; [discriminate|intros; discriminate]].
    destruct rest'; (split; [discriminate|]); [|intros; discriminate].
    intros x st' [= _ <-]. exact Hc.
  Qed.

  Lemma element_nodes_fuel npe : forall ws, element_nodes npe ws <> FOutOfFuel.
  Proof.
    induction npe as [|k IH]; intros ws; cbn [element_nodes]; [discriminate|].
    destruct ws as [|w ws']; [discriminate|]. destruct (parse_usize w) as [c|]; [|discriminate].
    destruct (c =? 0); [discriminate|]. specialize (IH ws').
    destruct (element_nodes k ws') as [[? ?]| | |]; try discriminate. congruence.
  Qed.

  Lemma element_line_spec npe st :
    element_line npe st <> FOutOfFuel /\
    forall x st', element_line npe st = FOk (x, st') -> (length (snd st') < length (snd st))%nat.
  Proof.
    unfold element_line. destruct (read_L_spec st) as [Hf Hc].
    destruct (read_L st) as [[line st1]| | |] eqn:E; try (split; [discriminate|intros; discriminate]);
      [|congruence].
    specialize (Hc _ _ eq_refl).
    pose proof (element_nodes_fuel npe (split_whitespace line)) as Hn.
    destruct (element_nodes npe (split_whitespace line)) as [[ns rest]| | |];
      try (split; [discriminate|intros; discriminate]); [|congruence].
    destruct (length ns <? npe)%nat; [split; [discriminate|intros; discriminate]|].
    destruct rest as [|w rest']; [split; [discriminate|]; intros x st' [= _ <-]; exact Hc|].
    destruct (parse_isize w); (split; [discriminate|]); [|intros; discriminate].
    intros x st' [= _ <-]. exact Hc.
  Qed.

  Lemma skip_line_spec st :
    skip_line st <> FOutOfFuel /\
    forall x st', skip_line st = FOk (x, st') -> (length (snd st') < length (snd st))%nat.
  Proof.
    unfold skip_line. destruct (read_L_spec st) as [Hf Hc].
    destruct (read_L st) as [[line st1]| | |] eqn:E; try (split; [discriminate|intros; discriminate]);
      [|congruence].
    split; [discriminate|]. intros x st' [= _ <-]. exact (Hc _ _ eq_refl).
  Qed.

  Lemma find_count_spec : forall fuel prev st, (length (snd st) < fuel)%nat ->
    find_count fuel prev st <> FOutOfFuel /\
    forall n st', find_count fuel prev st = FOk (n, st') -> (length (snd st') < length (snd st))%nat.
  Proof.
    induction fuel as [|f IH]; intros prev st Hlen; [lia|].
    cbn [find_count]. destruct (read_T_spec st) as [Hf Hc].
    destruct (read_T st) as [[tok st1]| | |] eqn:E; try (split; [discriminate|intros; discriminate]);
      [|congruence].
    specialize (Hc _ _ eq_refl).
    destruct (parse_usize tok) as [n|].
    - split; [discriminate|]. intros n' st' [= _ <-]. exact Hc.
    - destruct (fst st1 =? prev); [|split; [discriminate|intros; discriminate]].
      destruct (IH prev st1 ltac:(lia)) as [Hf2 Hc2]. split; [exact Hf2|].
      intros n st' H. specialize (Hc2 _ _ H). lia.
  Qed.

  Lemma parse_sections_fuel : forall fuel m st,
    (length (snd st) < fuel)%nat -> parse_sections parse_f64 fuel m st <> FOutOfFuel.
  Proof.
    induction fuel as [|f IH]; intros m st Hlen; [lia|].
    cbn [parse_sections]. destruct (read_T_spec st) as [Hf Hc].
    destruct (read_T st) as [[sec st1]| | |] eqn:E; try discriminate; [|congruence].
    specialize (Hc _ _ eq_refl).
    destruct (bytes_eqb sec kw_end); [discriminate|].
    destruct (bytes_eqb sec kw_vertices).
    - destruct (read_usize_spec st1) as [Hf1 Hc1].
      destruct (read_usize st1) as [[nv st2]| | |] eqn:E1; try discriminate; [|congruence].
      specialize (Hc1 _ _ eq_refl).
      destruct (match cap8_check (m_dim m) nv with Some p => Some p | None => cap8_check nv 1 end); [discriminate|].
      destruct (read_lines_fuel (vertex_line parse_f64 (m_dim m)) (vertex_line_spec (m_dim m))
                  (S (length (snd st2))) nv st2 ltac:(lia)) as [Hf2 Hc2].
      destruct (read_lines _ nv _ st2) as [[vs st3]| | |] eqn:E2; try discriminate; [|congruence].
      specialize (Hc2 _ _ eq_refl). apply IH. lia.
    - destruct (lookup_kw sec etype_keywords) as [ty|].
      + destruct (find_count_spec (S (length (snd st1))) (fst st1) st1 ltac:(lia)) as [Hf1 Hc1].
        destruct (find_count _ _ st1) as [[ne st2]| | |] eqn:E1; try discriminate; [|congruence].
        specialize (Hc1 _ _ eq_refl).
        destruct (cap8_check ne (N.of_nat (etype_node_count ty))); [discriminate|].
        destruct (read_lines_fuel (element_line (etype_node_count ty)) (element_line_spec (etype_node_count ty))
                    (S (length (snd st2))) ne st2 ltac:(lia)) as [Hf2 Hc2].
        destruct (read_lines _ ne _ st2) as [[es st3]| | |] eqn:E2; try discriminate; [|congruence].
        specialize (Hc2 _ _ eq_refl). apply IH. lia.
      + destruct (mem_kw sec ascii_skipped_sections); [|discriminate].
        destruct (read_usize_spec st1) as [Hf1 Hc1].
        destruct (read_usize st1) as [[ne st2]| | |] eqn:E1; try discriminate; [|congruence].
        specialize (Hc1 _ _ eq_refl).
        destruct (read_lines_fuel skip_line skip_line_spec (S (length (snd st2))) ne st2 ltac:(lia)) as [Hf2 Hc2].
        destruct (read_lines _ ne skip_line st2) as [[xs st3]| | |] eqn:E2; try discriminate; [|congruence].
        specialize (Hc2 _ _ eq_refl). apply IH. lia.
  Qed.

  Theorem parse_ascii_terminates : forall s, parse_ascii parse_f64 s <> FOutOfFuel.
  Proof.
    intros s. unfold parse_ascii.
    destruct (read_T_spec (1, s)) as [Hf _].
    destruct (read_T (1, s)) as [[hd st1]| | |]; try discriminate; [|congruence].
    destruct (negb (bytes_eqb hd ascii_header)); [discriminate|].
    destruct (read_usize_spec st1) as [Hf1 _].
    destruct (read_usize st1) as [[v st2]| | |]; try discriminate; [|congruence].
    destruct (read_T_spec st2) as [Hf2 _].
    destruct (read_T st2) as [[dk st3]| | |]; try discriminate; [|congruence].
    destruct (negb (bytes_eqb dk kw_dimension)); [discriminate|].
    destruct (read_usize_spec st3) as [Hf3 _].
    destruct (read_usize st3) as [[dim st4]| | |]; try discriminate; [|congruence].
    apply parse_sections_fuel. lia.
  Qed.
End AsciiTermination.

(* ---- end to end: write in either format, read with Mesh::from_reader ---- *)

Theorem medit_auto_binary_proof parse_f64 m :
  wf_mesh m -> fbind (serialize_binary m) (from_reader parse_f64) = FOk (norm_bin m).
Proof.
  intros Hwf. pose proof (medit_bin_roundtrip_proof m Hwf) as H. unfold rw_medit_bin in H.
  destruct (serialize_binary m) as [bytes| | |] eqn:E; try discriminate H.
  cbn [fbind] in *. now rewrite (from_reader_binary_written parse_f64 m bytes E).
Qed.

Theorem medit_auto_ascii_proof print_f64 parse_f64 m :
  wf_mesh_ascii m -> Forall (float_ok print_f64 parse_f64) (m_coords m) ->
  fbind (serialize_ascii print_f64 m) (from_reader parse_f64) = FOk (norm_ascii m).
Proof.
  intros Hwf Hc. pose proof (medit_ascii_roundtrip_proof print_f64 parse_f64 m Hwf Hc) as H.
  unfold rw_medit_ascii in H.
  destruct (serialize_ascii print_f64 m) as [bytes| | |] eqn:E; try discriminate H.
  cbn [fbind] in *. rewrite (from_reader_ascii_written print_f64 parse_f64 m bytes E); [exact H|].
  eapply Forall_impl; [|exact Hc]. intros x [_ Hx]. exact Hx.
Qed.

(* C20 -- lemmas about the guard interpreter of Model/Errors.v: soundness of
   the static analyses ([reports_mismatch], [reaches]) with respect to
   [run_guards], for EVERY guard list, input shape and partition array. *)
From Coupe Require Import Lib.Prelude Model.Errors.

(* meaning of the assumed facts *)
Definition facts_hold (f : facts) (sh : input_shape) (p : list N) : Prop :=
  (forall w, mem_input w (f_eq f) = true -> len_of sh p (LInput w) = length p) /\
  (f_part_nonempty f = true -> length p <> 0) /\
  (f_points_nonempty f = true -> sh_points sh <> 0) /\
  (f_ids_ok f = true -> max_id p <> usize_max) /\
  (f_two_parts f = true -> (max_id p <= 1)%N) /\
  (f_nonneg f = true -> has_neg sh = false).

Lemma input_eqb_eq a b : input_eqb a b = true <-> a = b.
Proof. destruct a, b; cbn; split; intros H; congruence. Qed.

Lemma mem_input_In w l : mem_input w l = true <-> In w l.
Proof.
  unfold mem_input. rewrite existsb_exists. split.
  - intros [x [Hin Heq]]. apply input_eqb_eq in Heq. subst. exact Hin.
  - intros Hin. exists w. split; [exact Hin|apply input_eqb_eq; reflexivity].
Qed.

Lemma facts_hold_add_eq f sh p w :
  facts_hold f sh p -> len_of sh p (LInput w) = length p -> facts_hold (add_eq w f) sh p.
Proof.
  intros (Heq & Hrest) Hw. split; [|exact Hrest].
  intros w' Hmem. cbn [add_eq f_eq mem_input existsb] in Hmem.
  apply orb_true_iff in Hmem. destruct Hmem as [Hmem|Hmem].
  - apply input_eqb_eq in Hmem. subst. exact Hw.
  - apply Heq. exact Hmem.
Qed.

Lemma cond_refuted_sound f c sh p :
  cond_refuted f c = true -> facts_hold f sh p -> eval_cond c sh p = false.
Proof.
  intros Hc (Heq & Hpne & Hptne & _).
  induction c as [l|l|s| |a IHa b IHb]; cbn [cond_refuted] in Hc; try discriminate.
  - cbn [eval_cond]. apply Nat.eqb_neq.
    destruct l as [|[| |]].
    + cbn [len_of]. apply Hpne. exact Hc.
    + apply andb_true_iff in Hc. destruct Hc as [Hne Hm].
      rewrite (Heq _ Hm). apply Hpne. exact Hne.
    + apply orb_true_iff in Hc. destruct Hc as [Hc|Hc].
      * cbn [len_of]. apply Hptne. exact Hc.
      * apply andb_true_iff in Hc. destruct Hc as [Hne Hm].
        rewrite (Heq _ Hm). apply Hpne. exact Hne.
    + apply andb_true_iff in Hc. destruct Hc as [Hne Hm].
      rewrite (Heq _ Hm). apply Hpne. exact Hne.
  - apply andb_true_iff in Hc. destruct Hc as [Ha Hb].
    cbn [eval_cond]. rewrite (IHa Ha), (IHb Hb). reflexivity.
Qed.

Lemma guard_passes_sound f g sh p :
  guard_passes f g = true -> facts_hold f sh p -> step g sh p = None.
Proof.
  intros Hg Hf. pose proof Hf as (Heq & _ & _ & Hids & Htwo & Hnn).
  destruct g as [w e a|c|c| | |mx| | |]; cbn [guard_passes] in Hg; try discriminate; cbn [step].
  - rewrite (Heq _ Hg), Nat.eqb_refl. reflexivity.
  - rewrite (cond_refuted_sound _ _ _ _ Hg Hf). reflexivity.
  - rewrite (cond_refuted_sound _ _ _ _ Hg Hf). reflexivity.
  - specialize (Htwo Hg). destruct (N.ltb_spec 1 (max_id p)) as [Hlt|Hle]; [lia|reflexivity].
  - rewrite (Hnn Hg). reflexivity.
  - specialize (Hids Hg). destruct (N.eqb_spec (max_id p) usize_max) as [He|Hn]; [contradiction|reflexivity].
Qed.

Lemma subset_inputs_In a b : subset_inputs a b = true -> forall w, In w a -> mem_input w b = true.
Proof.
  unfold subset_inputs. rewrite forallb_forall. intros H w Hin. apply H. exact Hin.
Qed.

(* some input of [need] differs in length from the partition ==> InputLenMismatch, array untouched *)
Lemma reports_mismatch_sound need gs : forall f sh p,
  reports_mismatch need f gs = true -> facts_hold f sh p ->
  (exists w, In w need /\ len_of sh p (LInput w) <> length p) ->
  exists e a, run_guards gs sh p = (OErr (InputLenMismatch e a), p).
Proof.
  induction gs as [|g rest IH]; intros f sh p Hr Hf (w & Hin & Hne).
  - cbn [reports_mismatch] in Hr.
    destruct (subset_inputs need (f_eq f)) eqn:Hsub; [|discriminate].
    exfalso. apply Hne. destruct Hf as (Heq & _). apply Heq.
    apply (subset_inputs_In _ _ Hsub). exact Hin.
  - cbn [reports_mismatch] in Hr.
    destruct (subset_inputs need (f_eq f)) eqn:Hsub.
    { exfalso. apply Hne. destruct Hf as (Heq & _). apply Heq.
      apply (subset_inputs_In _ _ Hsub). exact Hin. }
    assert (Hgen : forall g', g = g' ->
              guard_passes f g' && reports_mismatch need f rest = true ->
              exists e a, run_guards (g' :: rest) sh p = (OErr (InputLenMismatch e a), p)).
    { intros g' _ Hand. apply andb_true_iff in Hand. destruct Hand as [Hp Hrest].
      cbn [run_guards]. rewrite (guard_passes_sound _ _ _ _ Hp Hf).
      apply (IH f sh p Hrest Hf). exists w. split; assumption. }
    destruct g as [w' e a|c|c| | |mx| | |]; try (apply Hgen; [reflexivity|exact Hr]).
    cbn [run_guards step].
    destruct (Nat.eqb_spec (len_of sh p (LInput w')) (length p)) as [Hq|Hq].
    + apply (IH (add_eq w' f) sh p Hr).
      * apply facts_hold_add_eq; assumption.
      * exists w. split; assumption.
    + eexists. eexists. reflexivity.
Qed.

Lemma guard_eqb_eq a b : guard_eqb a b = true -> a = b.
Proof.
  destruct a, b; cbn [guard_eqb]; intros H; try discriminate; try reflexivity.
  apply N.eqb_eq in H. subst. reflexivity.
Qed.

(* the guard [t] is reached with the array untouched; if it fires, its result is the result *)
Lemma reaches_sound t gs : forall f sh p r,
  reaches t f gs = true -> facts_hold f sh p -> step t sh p = Some r -> run_guards gs sh p = r.
Proof.
  induction gs as [|g rest IH]; intros f sh p r Hr Hf Hfire; cbn [reaches] in Hr; [discriminate|].
  destruct (guard_eqb g t) eqn:Hgt.
  - apply guard_eqb_eq in Hgt. subst. cbn [run_guards]. rewrite Hfire. reflexivity.
  - apply andb_true_iff in Hr. destruct Hr as [Hp Hrest].
    cbn [run_guards]. rewrite (guard_passes_sound _ _ _ _ Hp Hf).
    apply (IH f sh p r Hrest Hf Hfire).
Qed.

(* the only way a guard prefix modifies the array is the zero fill of an early Ok *)
Lemma run_guards_writes gs : forall sh p o p',
  run_guards gs sh p = (o, p') -> p' = p \/ (o = OEarlyOk /\ p' = map (fun _ => 0%N) p).
Proof.
  induction gs as [|g rest IH]; intros sh p o p' H; cbn [run_guards] in H.
  - inversion H. left. reflexivity.
  - destruct (step g sh p) as [r|] eqn:Hs; [|apply (IH _ _ _ _ H)].
    subst r.
    destruct g as [w e a|c|c| | |mx| | |]; cbn [step] in Hs.
    + destruct (Nat.eqb _ _); inversion Hs. left. reflexivity.
    + destruct (eval_cond c sh p); inversion Hs. left. reflexivity.
    + destruct (eval_cond c sh p); inversion Hs. right. split; reflexivity.
    + destruct (N.ltb _ _); inversion Hs. left. reflexivity.
    + destruct (has_neg sh); inversion Hs. left. reflexivity.
    + destruct (N.ltb _ _); inversion Hs. left. reflexivity.
    + destruct (N.eqb _ _); inversion Hs. left. reflexivity.
    + inversion Hs. left. reflexivity.
    + inversion Hs. left. reflexivity.
Qed.

Lemma run_guards_err_untouched gs sh p e p' : run_guards gs sh p = (OErr e, p') -> p' = p.
Proof.
  intros H. destruct (run_guards_writes _ _ _ _ _ H) as [Hp|[Ho _]]; [exact Hp|discriminate].
Qed.

Lemma run_guards_panic_untouched gs sh p s p' : run_guards gs sh p = (OPanic s, p') -> p' = p.
Proof.
  intros H. destruct (run_guards_writes _ _ _ _ _ H) as [Hp|[Ho _]]; [exact Hp|discriminate].
Qed.

(* ------------------------------------------------------------ per-shape facts *)

Lemma max_id_gt1_nonempty p : (1 < max_id p)%N -> length p <> 0.
Proof. destruct p; cbn [max_id fold_right length]; [lia|discriminate]. Qed.

Lemma has_neg_In sh : has_neg sh = true <-> In WNeg (sh_wsigns sh).
Proof.
  unfold has_neg. rewrite existsb_exists. split.
  - intros [x [Hin Hx]]. destruct x; try discriminate. exact Hin.
  - intros Hin. exists WNeg. split; [exact Hin|reflexivity].
Qed.

(* ------------------------------------------------------------ the checker *)

Lemma ids_eqb_eq a : forall b, ids_eqb a b = true <-> a = b.
Proof.
  induction a as [|x a IH]; intros [|y b]; cbn [ids_eqb]; split; intros H; try discriminate; try reflexivity.
  - apply andb_true_iff in H. destruct H as [Hx Hab].
    apply N.eqb_eq in Hx. apply IH in Hab. subst. reflexivity.
  - inversion H. subst. apply andb_true_iff. split; [apply N.eqb_refl|apply IH; reflexivity].
Qed.

Lemma check_C20_err_ok alg sh p0 code a b after :
  check_C20_err alg sh p0 code a b after = true <-> (err_justified alg sh p0 code a b = true /\ after = p0).
Proof.
  unfold check_C20_err. rewrite andb_true_iff, ids_eqb_eq. reflexivity.
Qed.

(* ------------------------------------------------------------ readable instances
   Each lemma turns one run of a static analysis on a guard list (a closed
   boolean computation, discharged by [eq_refl] at the generated lists in
   Properties/C20.v) into the statement of the property for that list. *)

Lemma no_facts_hold sh p : facts_hold no_facts sh p.
Proof. repeat split; cbn; intros; discriminate. Qed.

Lemma max_id_ge p : forall i, In i p -> (i <= max_id p)%N.
Proof.
  induction p as [|x t IH]; intros i Hin; [destruct Hin|].
  cbn [max_id fold_right]. destruct Hin as [Hx|Ht].
  - subst. lia.
  - specialize (IH i Ht). unfold max_id in IH. lia.
Qed.

Lemma max_id_In p : max_id p <> 0%N -> In (max_id p) p.
Proof.
  induction p as [|x t IH]; cbn [max_id fold_right]; intros H; [congruence|].
  fold (max_id t) in *.
  destruct (N.max_spec x (max_id t)) as [[Hlt Hm]|[Hle Hm]]; rewrite Hm in *.
  - right. apply IH. exact H.
  - left. reflexivity.
Qed.

Lemma no_usize_max_ids p : ~ In usize_max p -> max_id p <> usize_max.
Proof.
  intros Hn He. apply Hn. rewrite <- He. apply max_id_In. rewrite He. discriminate.
Qed.

(* inputs = weights *)
Lemma len_mismatch_W gs :
  reports_mismatch [InWeights] no_facts gs = true ->
  forall sh p, length (sh_wsigns sh) <> length p ->
  exists expected actual, run_guards gs sh p = (OErr (InputLenMismatch expected actual), p).
Proof.
  intros Hr sh p Hne. apply (reports_mismatch_sound _ _ _ _ _ Hr (no_facts_hold sh p)).
  exists InWeights. split; [left; reflexivity|exact Hne].
Qed.

(* inputs = weights, the array holds no id equal to usize::MAX *)
Definition facts_ids_ok : facts := mk_facts [] false false true false false.
Lemma len_mismatch_W_ids gs :
  reports_mismatch [InWeights] facts_ids_ok gs = true ->
  forall sh p, ~ In usize_max p -> length (sh_wsigns sh) <> length p ->
  exists expected actual, run_guards gs sh p = (OErr (InputLenMismatch expected actual), p).
Proof.
  intros Hr sh p Hids Hne.
  assert (Hf : facts_hold facts_ids_ok sh p).
  { repeat split; cbn; intros; try discriminate. apply no_usize_max_ids. exact Hids. }
  apply (reports_mismatch_sound _ _ _ _ _ Hr Hf).
  exists InWeights. split; [left; reflexivity|exact Hne].
Qed.

(* inputs = weights and points *)
Lemma len_mismatch_WP gs :
  reports_mismatch [InWeights; InPoints] no_facts gs = true ->
  forall sh p, length (sh_wsigns sh) <> length p \/ sh_points sh <> length p ->
  exists expected actual, run_guards gs sh p = (OErr (InputLenMismatch expected actual), p).
Proof.
  intros Hr sh p Hne. apply (reports_mismatch_sound _ _ _ _ _ Hr (no_facts_hold sh p)).
  destruct Hne as [Hne|Hne]; [exists InWeights|exists InPoints]; (split; [cbn; tauto|exact Hne]).
Qed.

(* inputs = weights and points, at least one point *)
Definition facts_points_nonempty : facts := mk_facts [] false true false false false.
Lemma len_mismatch_WP_nonempty gs :
  reports_mismatch [InWeights; InPoints] facts_points_nonempty gs = true ->
  forall sh p, sh_points sh <> 0 ->
  length (sh_wsigns sh) <> length p \/ sh_points sh <> length p ->
  exists expected actual, run_guards gs sh p = (OErr (InputLenMismatch expected actual), p).
Proof.
  intros Hr sh p Hpt Hne.
  assert (Hf : facts_hold facts_points_nonempty sh p).
  { repeat split; cbn; intros; try discriminate. exact Hpt. }
  apply (reports_mismatch_sound _ _ _ _ _ Hr Hf).
  destruct Hne as [Hne|Hne]; [exists InWeights|exists InPoints]; (split; [cbn; tauto|exact Hne]).
Qed.

(* inputs = weights and adjacency *)
Lemma len_mismatch_WA gs :
  reports_mismatch [InWeights; InAdjacency] no_facts gs = true ->
  forall sh p, length (sh_wsigns sh) <> length p \/ sh_adj sh <> length p ->
  exists expected actual, run_guards gs sh p = (OErr (InputLenMismatch expected actual), p).
Proof.
  intros Hr sh p Hne. apply (reports_mismatch_sound _ _ _ _ _ Hr (no_facts_hold sh p)).
  destruct Hne as [Hne|Hne]; [exists InWeights|exists InAdjacency]; (split; [cbn; tauto|exact Hne]).
Qed.

(* FiducciaMattheyses: matching lengths, some id above one *)
Definition facts_fm : facts := mk_facts [InWeights; InAdjacency] true false false false false.
Lemma bipart_only_reached gs :
  reaches GBipartOnly facts_fm gs = true ->
  forall sh p i, length (sh_wsigns sh) = length p -> sh_adj sh = length p ->
  In i p -> (1 < i)%N ->
  run_guards gs sh p = (OErr BiPartitioningOnly, p).
Proof.
  intros Hr sh p i Hw Ha Hin Hi.
  assert (Hmax : (1 < max_id p)%N) by (pose proof (max_id_ge p i Hin); lia).
  assert (Hf : facts_hold facts_fm sh p).
  { repeat split; cbn; intros; try discriminate.
    - match goal with H : _ = true |- _ => apply orb_true_iff in H; destruct H as [H|H] end.
      + apply input_eqb_eq in H. subst. exact Hw.
      + rewrite orb_false_r in H. apply input_eqb_eq in H. subst. exact Ha.
    - apply max_id_gt1_nonempty. exact Hmax. }
  apply (reaches_sound _ _ _ _ _ _ Hr Hf). cbn [step].
  destruct (N.ltb_spec 1 (max_id p)) as [_|Hle]; [reflexivity|lia].
Qed.

(* VnBest: matching lengths, a negative weight at any position *)
Definition facts_vn : facts := mk_facts [InWeights] false false true false false.
Lemma negative_reached gs :
  reaches GNegative facts_vn gs = true ->
  forall sh p i, length (sh_wsigns sh) = length p -> ~ In usize_max p ->
  nth_error (sh_wsigns sh) i = Some WNeg ->
  run_guards gs sh p = (OErr NegativeValues, p).
Proof.
  intros Hr sh p i Hw Hids Hi.
  assert (Hf : facts_hold facts_vn sh p).
  { repeat split; cbn; intros; try discriminate.
    - match goal with H : _ = true |- _ => rewrite orb_false_r in H; apply input_eqb_eq in H end.
      subst. exact Hw.
    - apply no_usize_max_ids. exact Hids. }
  apply (reaches_sound _ _ _ _ _ _ Hr Hf). cbn [step].
  assert (Hn : has_neg sh = true) by (apply has_neg_In; apply (nth_error_In _ _ Hi)).
  rewrite Hn. reflexivity.
Qed.

(* HilbertCurve: an order above the maximum *)
Lemma invalid_order_reached mx gs :
  reaches (GInvalidOrder mx) no_facts gs = true ->
  forall sh p, (mx < sh_order sh)%N ->
  run_guards gs sh p = (OErr (InvalidOrder mx (sh_order sh)), p).
Proof.
  intros Hr sh p Ho.
  apply (reaches_sound _ _ _ _ _ _ Hr (no_facts_hold sh p)). cbn [step].
  destruct (N.ltb_spec mx (sh_order sh)) as [_|Hle]; [reflexivity|lia].
Qed.

(* ------------------------------------------------------------ regression: the guard
   orders of the pinned tree (before the fix: commits ff0b1b4, ca5c301, 614d201,
   2b295a9, 32dabad, c5dff22, f977178), transcribed by hand; each lets a length mismatch
   through as an early Ok. *)
Definition greedy_guards_pinned : list guard :=
  [ GFillOk (CPartCountLt2 PcParam); GLenMismatch InWeights LPartition (LInput InWeights); GCompute ].
Definition kk_guards_pinned : list guard :=
  [ GEarlyOk (COr (CPartCountLt2 PcParam) (CLenLt2 LPartition));
    GLenMismatch InWeights LPartition (LInput InWeights); GCompute ].
Definition vnbest_guards_pinned : list guard :=
  [ GPartCountMaxId; GEarlyOk (CPartCountLt2 PcMaxId);
    GLenMismatch InWeights LPartition (LInput InWeights); GNegative;
    GEarlyOk (COr (CEmpty LPartition) (COr (CEmpty (LInput InWeights)) (COr CAllZero (CPartCountLt2 PcMaxId))));
    GCompute ].
Definition vnfirst_guards_pinned : list guard :=
  [ GPartCountMaxId; GEarlyOk (CPartCountLt2 PcMaxId);
    GLenMismatch InWeights LPartition (LInput InWeights);
    GEarlyOk (COr (CEmpty (LInput InWeights)) (CPartCountLt2 PcMaxId)); GCompute ].
Definition fm_guards_pinned : list guard :=
  [ GEarlyOk (CEmpty LPartition); GLenMismatch InWeights LPartition (LInput InWeights);
    GLenMismatch InAdjacency LPartition (LInput InAdjacency); GBipartOnly; GCompute ].
Definition arcswap_guards_pinned : list guard :=
  [ GEarlyOk (CEmpty LPartition); GLenMismatch InWeights LPartition (LInput InWeights);
    GLenMismatch InAdjacency LPartition (LInput InAdjacency); GPartCountMaxId; GCompute ].
(* Rib before fix f977178 (found while building this property): the oriented bounding box was
   built, and Ok(()) returned when there is no point, before rcb() compared the lengths *)
Definition rib_guards_before_f977178 : list guard :=
  [ GEarlyOk (CEmpty (LInput InPoints)); GLenMismatch InWeights LPartition (LInput InWeights);
    GLenMismatch InPoints LPartition (LInput InPoints); GCompute ].

Definition shape_w (ws : list wsign) (k : N) : input_shape := mk_shape ws 0 0 k 0.

Lemma greedy_pinned_refuted : exists sh p,
  length (sh_wsigns sh) <> length p /\ run_guards greedy_guards_pinned sh p = (OEarlyOk, [0; 0]%N) /\ p <> [0; 0]%N.
Proof. exists (shape_w [WPos] 1), [7; 7]%N. repeat split; [cbn; lia|discriminate]. Qed.
Lemma kk_pinned_refuted : exists sh p,
  length (sh_wsigns sh) <> length p /\ run_guards kk_guards_pinned sh p = (OEarlyOk, p).
Proof. exists (shape_w [WPos; WPos; WPos] 1), [7; 7]%N. split; [cbn; lia|reflexivity]. Qed.
Lemma vnbest_pinned_refuted : exists sh p,
  length (sh_wsigns sh) <> length p /\ ~ In usize_max p /\ run_guards vnbest_guards_pinned sh p = (OEarlyOk, p).
Proof. exists (shape_w [WPos; WNeg; WPos] 0), [0; 0]%N. repeat split; [cbn; lia|cbn; intuition discriminate]. Qed.
Lemma vnfirst_pinned_refuted : exists sh p,
  length (sh_wsigns sh) <> length p /\ ~ In usize_max p /\ run_guards vnfirst_guards_pinned sh p = (OEarlyOk, p).
Proof. exists (shape_w [WPos; WPos; WPos] 0), [0; 0]%N. repeat split; [cbn; lia|cbn; intuition discriminate]. Qed.
Lemma fm_pinned_refuted : exists sh p,
  length (sh_wsigns sh) <> length p /\ run_guards fm_guards_pinned sh p = (OEarlyOk, p).
Proof. exists (mk_shape [WPos; WPos] 0 2 0 0), []. split; [cbn; lia|reflexivity]. Qed.
Lemma arcswap_pinned_refuted : exists sh p,
  sh_adj sh <> length p /\ run_guards arcswap_guards_pinned sh p = (OEarlyOk, p).
Proof. exists (mk_shape [] 0 2 0 0), []. split; [cbn; lia|reflexivity]. Qed.
Lemma rib_before_f977178_refuted : exists sh p,
  sh_points sh <> length p /\ run_guards rib_guards_before_f977178 sh p = (OEarlyOk, p).
Proof. exists (mk_shape [WPos; WPos; WPos] 0 0 0 0), [7; 7; 7]%N. split; [cbn; lia|reflexivity]. Qed.

(* ------------------------------------------------------------ the property on an observation
   [C20_holds]: the property text, clause by clause, as a Prop on the input
   shape and on what was observed.  [check_C20] decides it; in particular a
   rejection ([check_C20 = false]) means the property fails on that call. *)
Definition C20_holds (alg : N) (sh : input_shape) (p0 : list N) (obs : observed) (after : list N) : Prop :=
  violation alg sh p0 = true ->
  after = p0 /\
  exists code a b, obs = ObsErr code a b /\
    ( (code = 1%N /\ mismatched alg sh p0 = true)
      \/ (code = 3%N /\ too_many_parts alg p0 = true)
      \/ (code = 2%N /\ negative_weight alg sh = true)
      \/ (code = 4%N /\ order_too_high alg sh = true /\ spec_max_order alg = Some a /\ b = sh_order sh) ).

Lemma err_justified_spec alg sh p0 code a b :
  err_justified alg sh p0 code a b = true <->
  ( (code = 1%N /\ mismatched alg sh p0 = true)
    \/ (code = 3%N /\ too_many_parts alg p0 = true)
    \/ (code = 2%N /\ negative_weight alg sh = true)
    \/ (code = 4%N /\ order_too_high alg sh = true /\ spec_max_order alg = Some a /\ b = sh_order sh) ).
Proof.
  unfold err_justified. rewrite !orb_true_iff, !andb_true_iff.
  split.
  - intros [[[[Hc H]|[Hc H]]|[Hc H]]|[[[Hc Ho] Hm] Hb]]; apply N.eqb_eq in Hc.
    + left. auto.
    + right. left. auto.
    + right. right. left. auto.
    + right. right. right.
      destruct (spec_max_order alg) as [mx|]; [|discriminate].
      apply N.eqb_eq in Hm. apply N.eqb_eq in Hb. subst. auto.
  - intros [[Hc H]|[[Hc H]|[[Hc H]|(Hc & Ho & Hm & Hb)]]]; subst code.
    + left. left. left. auto.
    + left. left. right. auto.
    + left. right. auto.
    + right. rewrite Hm. subst b. rewrite !N.eqb_refl. auto.
Qed.

Lemma check_C20_iff alg sh p0 obs after :
  check_C20 alg sh p0 obs after = true <-> C20_holds alg sh p0 obs after.
Proof.
  unfold check_C20, C20_holds. destruct (violation alg sh p0).
  - split.
    + intros H _. destruct obs as [|code a b| |]; try discriminate.
      apply check_C20_err_ok in H. destruct H as [Hj Ha].
      split; [exact Ha|]. exists code, a, b. split; [reflexivity|].
      apply err_justified_spec. exact Hj.
    + intros H. destruct (H eq_refl) as (Ha & code & a & b & Ho & Hj). subst obs.
      apply check_C20_err_ok. split; [apply err_justified_spec; exact Hj|exact Ha].
  - split; [intros _ H; discriminate|reflexivity].
Qed.

Lemma check_C20_rejects alg sh p0 obs after :
  check_C20 alg sh p0 obs after = false -> ~ C20_holds alg sh p0 obs after.
Proof.
  intros H Hh. apply check_C20_iff in Hh. congruence.
Qed.

(* the clauses one at a time (only that clause applies) *)
Lemma check_C20_mismatch_only alg sh p0 obs after :
  check_C20 alg sh p0 obs after = true ->
  mismatched alg sh p0 = true -> too_many_parts alg p0 = false -> negative_weight alg sh = false ->
  order_too_high alg sh = false ->
  after = p0 /\ exists a b, obs = ObsErr 1 a b.
Proof.
  intros Hc Hm Ht Hn Ho. apply check_C20_iff in Hc.
  assert (Hv : violation alg sh p0 = true) by (unfold violation; rewrite Hm; reflexivity).
  destruct (Hc Hv) as (Ha & code & a & b & Hobs & [H|[H|[H|H]]]).
  - destruct H as [-> _]. split; [exact Ha|]. exists a, b. exact Hobs.
  - destruct H as [_ H]. congruence.
  - destruct H as [_ H]. congruence.
  - destruct H as (_ & H & _). congruence.
Qed.

(* Ok (or a panic, or a hang) on a call with a length mismatch is always a rejection *)
Lemma check_C20_rejects_ok_on_mismatch alg sh p0 obs after :
  mismatched alg sh p0 = true -> (forall code a b, obs <> ObsErr code a b) ->
  check_C20 alg sh p0 obs after = false.
Proof.
  intros Hm Hne. unfold check_C20, violation. rewrite Hm. cbn [orb].
  destruct obs as [|code a b| |]; try reflexivity. exfalso. apply (Hne code a b). reflexivity.
Qed.

(* a modified array on any call to which a clause applies is always a rejection *)
Lemma check_C20_rejects_modified alg sh p0 obs after :
  violation alg sh p0 = true -> after <> p0 -> check_C20 alg sh p0 obs after = false.
Proof.
  intros Hv Hne. unfold check_C20. rewrite Hv.
  destruct obs as [|code a b| |]; try reflexivity.
  unfold check_C20_err. destruct (ids_eqb after p0) eqn:He.
  - apply ids_eqb_eq in He. contradiction.
  - apply andb_false_r.
Qed.

(* ------------------------------------------------ compact encodings (large calls) *)

(* what the harness computes on a large call: the positions at which the array
   after the call differs from the array before, with the new values *)
Fixpoint diff_of (a b : list N) (i : N) : list (N * N) :=
  match a, b with
  | x :: a', y :: b' => if (x =? y)%N then diff_of a' b' (i + 1) else (i, y) :: diff_of a' b' (i + 1)
  | _, _ => []
  end.

Lemma diff_of_ge a : forall b i j v, In (j, v) (diff_of a b i) -> (i <= j)%N.
Proof.
  induction a as [|x a' IH]; intros b i j v Hin; [destruct Hin|].
  destruct b as [|y b']; [destruct Hin|].
  cbn [diff_of] in Hin. destruct (N.eqb_spec x y) as [_|_].
  - apply IH in Hin. lia.
  - destruct Hin as [Heq|Hin]; [inversion Heq; lia | apply IH in Hin; lia].
Qed.

(* patching the array before the call with that comparison gives back the array after the call *)
Lemma patch_diff a : forall b i, length a = length b -> patch_ids a i (diff_of a b i) = b.
Proof.
  induction a as [|x a' IH]; intros b i Hlen; destruct b as [|y b']; try discriminate Hlen; [reflexivity|].
  injection Hlen as Hlen. specialize (IH b' (i + 1)%N Hlen).
  cbn [diff_of]. destruct (N.eqb_spec x y) as [Hxy|Hxy].
  - subst y. cbn [patch_ids]. destruct (diff_of a' b' (i + 1)) as [|[j v] ds] eqn:Ed.
    + now rewrite IH.
    + assert (Hge : (i + 1 <= j)%N) by (apply (diff_of_ge a' b' _ j v); rewrite Ed; now left).
      destruct (N.eqb_spec i j) as [Hij|_]; [lia|]. now rewrite IH.
  - cbn [patch_ids]. rewrite N.eqb_refl. now rewrite IH.
Qed.

Lemma patch_nil l : forall i, patch_ids l i [] = l.
Proof. induction l as [|x t IH]; intro i; cbn [patch_ids map]; [reflexivity | now rewrite IH]. Qed.

Lemma diff_nil_iff a : forall b i, length a = length b -> (diff_of a b i = [] <-> a = b).
Proof.
  intros b i Hlen; split; intro H.
  - rewrite <- (patch_diff a b i Hlen), H. symmetry; apply patch_nil.
  - subst b. revert i. induction a as [|x a' IH]; intro i; [reflexivity|].
    cbn [diff_of]. rewrite N.eqb_refl. apply IH. reflexivity.
Qed.

Lemma of_runs_singletons {A} (l : list A) : of_runs (map (fun x => (x, 1%N)) l) = l.
Proof. induction l as [|x t IH]; [reflexivity|]. cbn. unfold of_runs in IH. now rewrite IH. Qed.

(* The decidable premise box_ok32 of the totality / balance theorems holds on
   the narrow contract: for f64 coordinates (canonical binary64 values) that
   are finite and whose binary32 images are finite, the root box of the model
   -- per axis the f64 minimum / maximum of the f64 coordinates, found with
   `<` from (f64::MAX, f64::MIN), each bound then cast `as f32`
   (geometry.rs l.33-78, recursive_bisection.rs l.603-604) -- has finite
   canonical binary32 bounds that enclose every binary32 coordinate.
   Needs the monotonicity of the f64 -> f32 rounding: Flocq (real-number axioms). *)
From Coq Require Import ZArith Reals Lia Lra Bool List Floats.SpecFloat.
From Flocq Require Import Core BinarySingleNaN.
From Coupe Require Import Lib.Prelude Lib.SFloat Model.Rcb Proofs.SFOrder Proofs.F32Flocq.
Import ListNotations.
Local Open Scope R_scope.

#[local] Instance Hp64 : FLX.Prec_gt_0 53 := eq_refl _.
#[local] Instance Hm64 : Prec_lt_emax 53 1024 := eq_refl _.
Notation valid64 := (valid_binary 53 1024).

(* the narrow contract on one coordinate / on a point set *)
Definition coord_in_f32_range (c : spec_float) : Prop :=
  valid64 c = true /\ SFloat.is_finite c = true /\ SFloat.is_finite (f64_to_f32 c) = true.
Definition coords_in_f32_range (pts : list (list spec_float)) : Prop :=
  Forall (fun p => Forall coord_in_f32_range p) pts.

(* ---------- comparisons and the cast, in real numbers ---------- *)
Lemma cmp64 x y : valid64 x = true -> valid64 y = true -> SFloat.is_finite x = true -> SFloat.is_finite y = true ->
  flt x y = Rlt_bool (SF2R radix2 x) (SF2R radix2 y).
Proof.
  intros Vx Vy Fx Fy.
  rewrite <- (B2SF_SF2B 53 1024 x Vx), <- (B2SF_SF2B 53 1024 y Vy).
  change (flt (B2SF (SF2B x Vx)) (B2SF (SF2B y Vy))) with (Bltb (SF2B x Vx) (SF2B y Vy)).
  rewrite Bltb_correct, !B2R_SF2B, !B2SF_SF2B; [reflexivity| |]; destruct x, y; try discriminate; reflexivity.
Qed.

Lemma cmp32 x y : f32_fin x = true -> f32_fin y = true ->
  flt x y = Rlt_bool (SF2R radix2 x) (SF2R radix2 y).
Proof.
  intros Hx Hy. destruct (lift x Hx) as (X & <- & FX). destruct (lift y Hy) as (Y & <- & FY).
  rewrite flt_link, (Bltb_correct _ _ _ _ FX FY), !SF2R_B2SF. reflexivity.
Qed.

(* the cast of a finite value with a finite image: the rounding of its value *)
Lemma to32_real x : SFloat.is_finite x = true -> SFloat.is_finite (f64_to_f32 x) = true ->
  SF2R radix2 (f64_to_f32 x) = rnd (SF2R radix2 x) /\ Rabs (rnd (SF2R radix2 x)) < bpow radix2 128.
Proof.
  intros Fx F32. destruct x as [s|s| |s m e]; try discriminate.
  - change (f64_to_f32 (S754_zero s)) with (S754_zero s). change (SF2R radix2 (S754_zero s)) with 0%R.
    rewrite round_0 by auto with typeclass_instances. rewrite Rabs_R0. split; [reflexivity|apply bpow_gt_0].
  - unfold f64_to_f32 in *. rewrite binary_round_equiv in *.
    pose proof (binary_round_correct 24 128 Hprec Hmax mode_NE s m e) as [_ H]. cbv zeta in H. cbn [round_mode] in H.
    change (SF2R radix2 (S754_finite s m e)) with (F2R (Float radix2 (cond_Zopp s (Zpos m)) e)).
    destruct (Rlt_bool_spec (Rabs (rnd (F2R (Float radix2 (cond_Zopp s (Z.pos m)) e)))) (bpow radix2 128)) as [Hlt|Hge].
    + destruct H as (H1 & _). split; [exact H1|exact Hlt].
    + rewrite H in F32. discriminate.
Qed.

Lemma to32_fin x : SFloat.is_finite (f64_to_f32 x) = true -> f32_fin (f64_to_f32 x) = true.
Proof. intros H. unfold f32_fin. rewrite f64_to_f32_valid, H. reflexivity. Qed.

(* the cast is monotone *)
Lemma to32_mono x y : coord_in_f32_range x -> coord_in_f32_range y ->
  flt y x = false -> flt (f64_to_f32 y) (f64_to_f32 x) = false.
Proof.
  intros (Vx & Fx & Ix) (Vy & Fy & Iy) H.
  rewrite (cmp64 y x Vy Vx Fy Fx) in H.
  rewrite (cmp32 _ _ (to32_fin y Iy) (to32_fin x Ix)).
  destruct (to32_real x Fx Ix) as [Rx _]. destruct (to32_real y Fy Iy) as [Ry _]. rewrite Rx, Ry.
  destruct (Rlt_bool_spec (SF2R radix2 y) (SF2R radix2 x)) as [|Hle]; [discriminate|].
  apply Rlt_bool_false. apply rnd_mono. exact Hle.
Qed.

(* a value with a finite binary32 image is strictly inside (f64::MIN, f64::MAX) *)
Lemma bpow128_F32 : F32 (bpow radix2 128).
Proof. apply generic_format_bpow. cbv. discriminate. Qed.

Lemma in_range_lt_pow x : SFloat.is_finite x = true -> SFloat.is_finite (f64_to_f32 x) = true ->
  Rabs (SF2R radix2 x) < bpow radix2 128.
Proof.
  intros Fx Ix. destruct (to32_real x Fx Ix) as [_ Hb].
  destruct (Rlt_le_dec (Rabs (SF2R radix2 x)) (bpow radix2 128)) as [Q|Q]; [exact Q|exfalso].
  assert (Hr : bpow radix2 128 <= Rabs (rnd (SF2R radix2 x))).
  { destruct (Rle_lt_dec 0 (SF2R radix2 x)) as [P|P].
    - rewrite Rabs_pos_eq in Q by exact P.
      assert (bpow radix2 128 <= rnd (SF2R radix2 x)) by (rewrite <- (rnd_id _ bpow128_F32); apply rnd_mono, Q).
      eapply Rle_trans; [eassumption|apply Rle_abs].
    - rewrite Rabs_left in Q by exact P.
      assert (rnd (SF2R radix2 x) <= - bpow radix2 128).
      { rewrite <- (rnd_id (- bpow radix2 128)) by (apply generic_format_opp, bpow128_F32). apply rnd_mono. lra. }
      rewrite Rabs_left1 by (pose proof (bpow_gt_0 radix2 128); lra). lra. }
  lra.
Qed.

Lemma f64_max_shape : f64_max_value = S754_finite false 9007199254740991 971.
Proof. vm_compute. reflexivity. Qed.
Lemma f64_min_shape : f64_min_value = S754_finite true 9007199254740991 971.
Proof. vm_compute. reflexivity. Qed.

Lemma big_value : bpow radix2 128 <= IZR 9007199254740991 * bpow radix2 971.
Proof.
  assert (bpow radix2 128 <= bpow radix2 971) by (apply bpow_le; lia).
  assert (1 <= IZR 9007199254740991) by (apply IZR_le; lia).
  pose proof (bpow_gt_0 radix2 971). nra.
Qed.

Lemma below_f64_max x : coord_in_f32_range x -> flt x f64_max_value = true.
Proof.
  intros (Vx & Fx & Ix). rewrite (cmp64 x f64_max_value Vx); try (rewrite f64_max_shape; reflexivity); [|exact Fx].
  pose proof (in_range_lt_pow x Fx Ix) as H. apply Rlt_bool_true.
  rewrite f64_max_shape.
  change (SF2R radix2 (S754_finite false 9007199254740991 971)) with (IZR 9007199254740991 * bpow radix2 971).
  pose proof big_value. pose proof (Rle_abs (SF2R radix2 x)). lra.
Qed.

Lemma above_f64_min x : coord_in_f32_range x -> flt f64_min_value x = true.
Proof.
  intros (Vx & Fx & Ix). rewrite (cmp64 f64_min_value x); try (rewrite f64_min_shape; reflexivity); [|exact Vx|exact Fx].
  pose proof (in_range_lt_pow x Fx Ix) as H. apply Rlt_bool_true.
  rewrite f64_min_shape.
  change (SF2R radix2 (S754_finite true 9007199254740991 971)) with (IZR (- 9007199254740991) * bpow radix2 971).
  pose proof big_value. pose proof (Rle_abs (- SF2R radix2 x)) as Q. rewrite Rabs_Ropp in Q.
  replace (IZR (- 9007199254740991)) with (- IZR 9007199254740991) by (rewrite <- opp_IZR; reflexivity). lra.
Qed.

(* ---------- the fold of BoundingBox::from_points on one axis ---------- *)
Local Open Scope Z_scope.

Lemma range_nonnan c : coord_in_f32_range c -> f32v c = true.
Proof. intros (_ & F & _). destruct c; try discriminate; reflexivity. Qed.

(* invariant: the running bounds are elements already seen (or the initial
   values when nothing has been seen) and are not above / below any of them *)
Lemma bbox_axis_spec : forall col mn mx seen,
  Forall coord_in_f32_range col -> Forall coord_in_f32_range seen ->
  ((seen = [] /\ mn = f64_max_value /\ mx = f64_min_value)
   \/ (In mn seen /\ In mx seen /\ (forall v, In v seen -> flt v mn = false /\ flt mx v = false))) ->
  seen ++ col <> [] ->
  let '(lo, hi) := bbox_axis mn mx col in
  In lo (seen ++ col) /\ In hi (seen ++ col)
  /\ forall v, In v (seen ++ col) -> flt v lo = false /\ flt hi v = false.
Proof.
  induction col as [|v t IH]; intros mn mx seen Hc Hs Hinv Hne; cbn [bbox_axis].
  - rewrite app_nil_r in *. destruct Hinv as [(E & _ & _)|H]; [congruence|exact H].
  - inversion Hc as [|? ? Hv Ht]; subst.
    replace (seen ++ v :: t) with ((seen ++ [v]) ++ t) in * by (rewrite <- app_assoc; reflexivity).
    apply IH; [exact Ht|apply Forall_app; split; [exact Hs|constructor; [exact Hv|constructor]]| |].
    + right. pose proof (range_nonnan v Hv) as Nv.
      destruct Hinv as [(-> & -> & ->)|(Imn & Imx & Hall)].
      * rewrite (below_f64_max v Hv), (above_f64_min v Hv). cbn [app].
        split; [left; reflexivity|]. split; [left; reflexivity|].
        intros w [<-|[]]. split; apply flt_irrefl, Nv.
      * assert (Nmn : f32v mn = true) by (apply range_nonnan; rewrite Forall_forall in Hs; apply Hs, Imn).
        assert (Nmx : f32v mx = true) by (apply range_nonnan; rewrite Forall_forall in Hs; apply Hs, Imx).
        split; [|split].
        -- destruct (flt v mn); apply in_or_app; [right; left; reflexivity|left; exact Imn].
        -- destruct (flt mx v); apply in_or_app; [right; left; reflexivity|left; exact Imx].
        -- intros w Hw. apply in_app_or in Hw.
           assert (Nw : f32v w = true).
           { destruct Hw as [Hw|[<-|[]]]; [apply range_nonnan; rewrite Forall_forall in Hs; apply Hs, Hw|exact Nv]. }
           split.
           ++ destruct (flt v mn) eqn:E.
              ** destruct Hw as [Hw|[<-|[]]]; [|apply flt_irrefl, Nv].
                 destruct (flt w v) eqn:Q; [|reflexivity]. exfalso.
                 pose proof (flt_trans w v mn Nw Nv Nmn Q E) as Q2. rewrite (proj1 (Hall w Hw)) in Q2. discriminate.
              ** destruct Hw as [Hw|[<-|[]]]; [exact (proj1 (Hall w Hw))|exact E].
           ++ destruct (flt mx v) eqn:E.
              ** destruct Hw as [Hw|[<-|[]]]; [|apply flt_irrefl, Nv].
                 destruct (flt v w) eqn:Q; [|reflexivity]. exfalso.
                 pose proof (flt_trans mx v w Nmx Nv Nw E Q) as Q2. rewrite (proj2 (Hall w Hw)) in Q2. discriminate.
              ** destruct Hw as [Hw|[<-|[]]]; [exact (proj2 (Hall w Hw))|exact E].
    + destruct seen; discriminate.
Qed.

Lemma column_spec a : forall pts col, column a pts = Some col ->
  (forall p, In p pts -> exists c, nth_opt p a = Some c /\ In c col)
  /\ (forall c, In c col -> exists p, In p pts /\ nth_opt p a = Some c).
Proof.
  induction pts as [|p t IH]; intros col H; cbn [column] in H.
  - inversion H; subst. split; [intros p []|intros c []].
  - destruct (nth_opt p a) as [c|] eqn:E; [|discriminate].
    destruct (column a t) as [r|]; [|discriminate]. inversion H; subst.
    destruct (IH r eq_refl) as [A B]. split.
    + intros q [<-|Hq]; [exists c; split; [exact E|left; reflexivity]|].
      destruct (A q Hq) as (c' & P1 & P2). exists c'. split; [exact P1|right; exact P2].
    + intros c' [<-|Hc]; [exists p; split; [left; reflexivity|exact E]|].
      destruct (B c' Hc) as (q & P1 & P2). exists q. split; [right; exact P1|exact P2].
Qed.

Lemma column_total a : forall pts, (forall p, In p pts -> (a < length p)%nat) -> exists col, column a pts = Some col.
Proof.
  induction pts as [|p t IH]; intros H; cbn [column]; [eexists; reflexivity|].
  destruct (nth_opt_lt p a (H p (or_introl eq_refl))) as [c Hc]. rewrite Hc.
  destruct IH as [r Hr]; [intros q Hq; apply H; right; exact Hq|]. rewrite Hr. eexists; reflexivity.
Qed.

Lemma items_co c : forall pts ws i it, length pts = length ws -> In it (mk_items c i pts ws) ->
  exists p, In p pts /\ co it = map (cast32 c) p.
Proof.
  induction pts as [|p t IH]; intros [|w ws] i it H Hit; cbn [mk_items length] in *; try discriminate; [destruct Hit|].
  destruct Hit as [<-|Hit].
  - exists p. split; [left; reflexivity|reflexivity].
  - destruct (IH ws (N.succ i) it ltac:(lia) Hit) as (q & A & B). exists q. split; [right; exact A|exact B].
Qed.

Lemma nth_opt_map {A B} (f : A -> B) : forall l n, nth_opt (map f l) n = option_map f (nth_opt l n).
Proof. induction l as [|x t IH]; intros [|n]; cbn [map nth_opt option_map]; auto. Qed.

(* the boxes of all axes from a on *)
Lemma bbox_ok : forall D a pts ws, pts <> [] -> length pts = length ws ->
  (forall p, In p pts -> (a + D <= length p)%nat) -> coords_in_f32_range pts ->
  exists bb, bbox32 false D a pts = Some bb /\ box_ok_from a bb (mk_items false 0 pts ws) = true.
Proof.
  induction D as [|D IH]; intros a pts ws Hne Hlen Hshape Hr; cbn [bbox32].
  - exists []. split; reflexivity.
  - destruct (column_total a pts) as [col Hcol]; [intros p Hp; specialize (Hshape p Hp); lia|].
    rewrite Hcol.
    destruct (IH (S a) pts ws Hne Hlen) as (r & Hr' & Hok); [intros p Hp; specialize (Hshape p Hp); lia|exact Hr|].
    rewrite Hr'.
    destruct (column_spec a pts col Hcol) as [Cin Cout].
    assert (Hcr : Forall coord_in_f32_range col).
    { rewrite Forall_forall. intros c Hc. destruct (Cout c Hc) as (p & Hp & Hn).
      unfold coords_in_f32_range in Hr. rewrite Forall_forall in Hr. specialize (Hr p Hp).
      rewrite Forall_forall in Hr. apply Hr. eapply nth_opt_In; exact Hn. }
    assert (Hcne : [] ++ col <> []).
    { destruct pts as [|p0 t]; [congruence|]. destruct (Cin p0 (or_introl eq_refl)) as (c & _ & Hc).
      destruct col; [destruct Hc|discriminate]. }
    pose proof (bbox_axis_spec col f64_max_value f64_min_value [] Hcr (Forall_nil _)
                  (or_introl (conj eq_refl (conj eq_refl eq_refl))) Hcne) as S.
    destruct (bbox_axis f64_max_value f64_min_value col) as [lo hi]. cbn [app] in S.
    destruct S as (Ilo & Ihi & Hall).
    eexists. split; [reflexivity|]. cbn [box_ok_from]. unfold cast32.
    rewrite Forall_forall in Hcr.
    pose proof (Hcr lo Ilo) as Rlo. pose proof (Hcr hi Ihi) as Rhi.
    rewrite (to32_fin lo (proj2 (proj2 Rlo))), (to32_fin hi (proj2 (proj2 Rhi))), Hok. cbn [andb].
    rewrite andb_true_r. apply forallb_forall. intros it Hit.
    destruct (items_co false pts ws 0%N it Hlen Hit) as (p & Hp & Hco). rewrite Hco, nth_opt_map.
    destruct (Cin p Hp) as (c & Hn & Hc). rewrite Hn. cbn [option_map]. unfold cast32.
    destruct (Hall c Hc) as [A B].
    rewrite (to32_mono lo c Rlo (Hcr c Hc) A), (to32_mono c hi (Hcr c Hc) Rhi B). reflexivity.
Qed.

(* the premise box_ok32 holds on the narrow contract *)
Theorem box_ok32_holds : forall D pts ws, pts <> [] -> length pts = length ws ->
  Forall (fun p => length p = D) pts -> coords_in_f32_range pts -> box_ok32 D pts ws = true.
Proof.
  intros D pts ws Hne Hlen Hshape Hr. unfold box_ok32, box_ok32c.
  destruct (bbox_ok D 0%nat pts ws Hne Hlen) as (bb & -> & Hok); [|exact Hr|exact Hok].
  intros p Hp. rewrite Forall_forall in Hshape. rewrite (Hshape p Hp). lia.
Qed.

(* ================= the clamped cast ================= *)
Local Open Scope R_scope.

Definition coord_finite64 (c : spec_float) : Prop := valid64 c = true /\ SFloat.is_finite c = true.
Definition coords_finite_valid64 (pts : list (list spec_float)) : Prop :=
  Forall (fun p => Forall coord_finite64 p) pts.

Lemma f32_max_shape : f32_max_value = S754_finite false 16777215 104.
Proof. vm_compute. reflexivity. Qed.
Lemma f32_min_shape : f32_min_value = S754_finite true 16777215 104.
Proof. vm_compute. reflexivity. Qed.
Lemma f32_max_fin : f32_fin f32_max_value = true. Proof. vm_compute. reflexivity. Qed.
Lemma f32_min_fin : f32_fin f32_min_value = true. Proof. vm_compute. reflexivity. Qed.

Lemma SF2R_max : SF2R radix2 f32_max_value = MX.
Proof.
  rewrite f32_max_shape. unfold MX.
  change (SF2R radix2 (S754_finite false 16777215 104)) with (IZR 16777215 * bpow radix2 104).
  change (bpow radix2 128) with (IZR (2 ^ 128)). change (bpow radix2 (128 - 24)) with (IZR (2 ^ 104)).
  change (bpow radix2 104) with (IZR (2 ^ 104)). rewrite <- mult_IZR, <- minus_IZR. f_equal.
Qed.
Lemma SF2R_min : SF2R radix2 f32_min_value = - MX.
Proof.
  rewrite f32_min_shape. rewrite <- SF2R_max, f32_max_shape.
  change (SF2R radix2 (S754_finite true 16777215 104)) with (IZR (- 16777215) * bpow radix2 104).
  change (SF2R radix2 (S754_finite false 16777215 104)) with (IZR 16777215 * bpow radix2 104).
  replace (IZR (- 16777215)) with (- IZR 16777215) by (rewrite <- opp_IZR; reflexivity). ring.
Qed.

(* a finite canonical binary32 value lies in [f32::MIN, f32::MAX] *)
Lemma fin_abs_le_MX y : f32_fin y = true -> Rabs (SF2R radix2 y) <= MX.
Proof.
  intros H. destruct (lift y H) as (Y & <- & FY). rewrite SF2R_B2SF.
  exact (abs_B2R_le_emax_minus_prec 24 128 Hprec Y).
Qed.

Lemma clamp32_fin_id y : f32_fin y = true -> clamp32 y = y.
Proof.
  intros H. pose proof (fin_abs_le_MX y H) as B. unfold clamp32.
  assert (E1 : flt y f32_min_value = false).
  { rewrite (cmp32 _ _ H f32_min_fin), SF2R_min. apply Rlt_bool_false.
    pose proof (Rle_abs (- SF2R radix2 y)) as Q. rewrite Rabs_Ropp in Q. lra. }
  rewrite E1.
  assert (E2 : flt f32_max_value y = false).
  { rewrite (cmp32 _ _ f32_max_fin H), SF2R_max. apply Rlt_bool_false. pose proof (Rle_abs (SF2R radix2 y)). lra. }
  rewrite E2. reflexivity.
Qed.

(* the clamped cast of a finite f64: a finite canonical binary32 value whose
   real value is the rounding clamped to [-MX, MX] *)
Definition clampR (z : R) : R := Rmax (- MX) (Rmin MX z).

Lemma clampR_mono a b : a <= b -> clampR a <= clampR b.
Proof. intros H. unfold clampR. apply Rle_max_compat_l, Rle_min_compat_l, H. Qed.

Lemma cast_true_real x : SFloat.is_finite x = true ->
  f32_fin (cast32 true x) = true /\ SF2R radix2 (cast32 true x) = clampR (rnd (SF2R radix2 x)).
Proof.
  intros Fx. unfold cast32. pose proof MX_pos as HMX.
  destruct (SFloat.is_finite (f64_to_f32 x)) eqn:Fi.
  - (* finite image: the clamp is the identity *)
    pose proof (to32_fin x Fi) as F32. rewrite (clamp32_fin_id _ F32). split; [exact F32|].
    destruct (to32_real x Fx Fi) as [Rv _]. rewrite Rv.
    pose proof (fin_abs_le_MX _ F32) as B. rewrite Rv in B.
    unfold clampR. rewrite Rmin_right, Rmax_right; try reflexivity.
    + pose proof (Rle_abs (- rnd (SF2R radix2 x))) as Q. rewrite Rabs_Ropp in Q. lra.
    + pose proof (Rle_abs (rnd (SF2R radix2 x))). lra.
  - (* overflow: the image is the infinity of the sign of x *)
    destruct x as [s|s| |s m e]; try discriminate; try (cbn in Fi; discriminate).
    unfold f64_to_f32 in *. rewrite binary_round_equiv in *.
    pose proof (binary_round_correct 24 128 Hprec Hmax mode_NE s m e) as [_ H]. cbv zeta in H. cbn [round_mode] in H.
    change (SF2R radix2 (S754_finite s m e)) with (F2R (Float radix2 (cond_Zopp s (Zpos m)) e)).
    set (r := F2R (Float radix2 (cond_Zopp s (Z.pos m)) e)) in *.
    destruct (Rlt_bool_spec (Rabs (rnd r)) (bpow radix2 128)) as [Hlt|Hge].
    + destruct H as (_ & Hf & _). destruct (binary_round 24 128 mode_NE s m e); try discriminate; cbn in Fi; discriminate.
    + rewrite H. unfold binary_overflow. cbn [overflow_to_inf].
      assert (Hb : MX < bpow radix2 128) by apply MX_lt.
      destruct s.
      * (* negative *)
        assert (Hr0 : rnd r <= 0).
        { rewrite <- (round_0 radix2 fexp32 ZnearestE). apply rnd_mono. unfold r, F2R. cbn [cond_Zopp Fnum Fexp].
          pose proof (bpow_gt_0 radix2 e). assert (IZR (- Z.pos m) < 0) by (apply IZR_lt; lia). nra. }
        rewrite Rabs_left1 in Hge by exact Hr0.
        split; [vm_compute; reflexivity|].
        change (clamp32 (S754_infinity true)) with f32_min_value. rewrite SF2R_min.
        unfold clampR. rewrite Rmin_right by lra. rewrite Rmax_left by lra. reflexivity.
      * assert (Hr0 : 0 <= rnd r).
        { rewrite <- (round_0 radix2 fexp32 ZnearestE). apply rnd_mono. unfold r, F2R. cbn [cond_Zopp Fnum Fexp].
          pose proof (bpow_gt_0 radix2 e). assert (0 < IZR (Z.pos m)) by (apply IZR_lt; lia). nra. }
        rewrite Rabs_pos_eq in Hge by exact Hr0.
        split; [vm_compute; reflexivity|].
        change (clamp32 (S754_infinity false)) with f32_max_value. rewrite SF2R_max.
        unfold clampR. rewrite Rmin_left by lra. rewrite Rmax_right by lra. reflexivity.
Qed.

Lemma cast_true_mono x y : coord_finite64 x -> coord_finite64 y ->
  flt y x = false -> flt (cast32 true y) (cast32 true x) = false.
Proof.
  intros (Vx & Fx) (Vy & Fy) H.
  rewrite (cmp64 y x Vy Vx Fy Fx) in H.
  destruct (cast_true_real x Fx) as [Gx Rx]. destruct (cast_true_real y Fy) as [Gy Ry].
  rewrite (cmp32 _ _ Gy Gx), Rx, Ry.
  destruct (Rlt_bool_spec (SF2R radix2 y) (SF2R radix2 x)) as [|Hle]; [discriminate|].
  apply Rlt_bool_false. apply clampR_mono, rnd_mono. exact Hle.
Qed.

Local Open Scope Z_scope.

Lemma finite64_nonnan c : coord_finite64 c -> f32v c = true.
Proof. intros (_ & F). destruct c; try discriminate; reflexivity. Qed.

(* the fold of one axis on finite f64 values: finite f64 bounds that are not
   above / below any element (the bounds may be the initial f64::MAX / f64::MIN) *)
Lemma bbox_axis_spec_finite : forall col mn mx seen,
  Forall coord_finite64 col -> coord_finite64 mn -> coord_finite64 mx ->
  (forall v, In v seen -> coord_finite64 v /\ flt v mn = false /\ flt mx v = false) ->
  let '(lo, hi) := bbox_axis mn mx col in
  coord_finite64 lo /\ coord_finite64 hi
  /\ forall v, In v (seen ++ col) -> flt v lo = false /\ flt hi v = false.
Proof.
  induction col as [|v t IH]; intros mn mx seen Hc Hmn Hmx Hall; cbn [bbox_axis].
  - rewrite app_nil_r. split; [exact Hmn|]. split; [exact Hmx|]. intros w Hw. exact (proj2 (Hall w Hw)).
  - inversion Hc as [|? ? Hv Ht]; subst.
    replace (seen ++ v :: t) with ((seen ++ [v]) ++ t) by (rewrite <- app_assoc; reflexivity).
    pose proof (finite64_nonnan v Hv) as Nv. pose proof (finite64_nonnan mn Hmn) as Nmn. pose proof (finite64_nonnan mx Hmx) as Nmx.
    apply IH; [exact Ht| | |].
    + destruct (flt v mn); assumption.
    + destruct (flt mx v); assumption.
    + intros w Hw. apply in_app_or in Hw.
      assert (Fw : coord_finite64 w) by (destruct Hw as [Hw|[<-|[]]]; [exact (proj1 (Hall w Hw))|exact Hv]).
      pose proof (finite64_nonnan w Fw) as Nw.
      split; [exact Fw|]. split.
      * destruct (flt v mn) eqn:E.
        -- destruct Hw as [Hw|[<-|[]]]; [|apply flt_irrefl, Nv].
           destruct (flt w v) eqn:Q; [|reflexivity]. exfalso.
           pose proof (flt_trans w v mn Nw Nv Nmn Q E) as Q2. rewrite (proj1 (proj2 (Hall w Hw))) in Q2. discriminate.
        -- destruct Hw as [Hw|[<-|[]]]; [exact (proj1 (proj2 (Hall w Hw)))|exact E].
      * destruct (flt mx v) eqn:E.
        -- destruct Hw as [Hw|[<-|[]]]; [|apply flt_irrefl, Nv].
           destruct (flt v w) eqn:Q; [|reflexivity]. exfalso.
           pose proof (flt_trans mx v w Nmx Nv Nw E Q) as Q2. rewrite (proj2 (proj2 (Hall w Hw))) in Q2. discriminate.
        -- destruct Hw as [Hw|[<-|[]]]; [exact (proj2 (proj2 (Hall w Hw)))|exact E].
Qed.

Lemma f64_max_finite64 : coord_finite64 f64_max_value.
Proof. split; vm_compute; reflexivity. Qed.
Lemma f64_min_finite64 : coord_finite64 f64_min_value.
Proof. split; vm_compute; reflexivity. Qed.

Lemma bbox_ok_clamped : forall D a pts ws, length pts = length ws ->
  (forall p, In p pts -> (a + D <= length p)%nat) -> coords_finite_valid64 pts ->
  exists bb, bbox32 true D a pts = Some bb /\ box_ok_from a bb (mk_items true 0 pts ws) = true.
Proof.
  induction D as [|D IH]; intros a pts ws Hlen Hshape Hr; cbn [bbox32].
  - exists []. split; reflexivity.
  - destruct (column_total a pts) as [col Hcol]; [intros p Hp; specialize (Hshape p Hp); lia|].
    rewrite Hcol.
    destruct (IH (S a) pts ws Hlen) as (r & Hr' & Hok); [intros p Hp; specialize (Hshape p Hp); lia|exact Hr|].
    rewrite Hr'.
    destruct (column_spec a pts col Hcol) as [Cin Cout].
    assert (Hcr : Forall coord_finite64 col).
    { rewrite Forall_forall. intros c Hc. destruct (Cout c Hc) as (p & Hp & Hn).
      unfold coords_finite_valid64 in Hr. rewrite Forall_forall in Hr. specialize (Hr p Hp).
      rewrite Forall_forall in Hr. apply Hr. eapply nth_opt_In; exact Hn. }
    pose proof (bbox_axis_spec_finite col f64_max_value f64_min_value [] Hcr f64_max_finite64 f64_min_finite64
                  (fun v (H : In v []) => match H with end)) as S.
    destruct (bbox_axis f64_max_value f64_min_value col) as [lo hi]. cbn [app] in S.
    destruct S as (Flo & Fhi & Hall).
    eexists. split; [reflexivity|]. cbn [box_ok_from].
    rewrite (proj1 (cast_true_real lo (proj2 Flo))), (proj1 (cast_true_real hi (proj2 Fhi))), Hok. cbn [andb].
    rewrite andb_true_r. apply forallb_forall. intros it Hit.
    destruct (items_co true pts ws 0%N it Hlen Hit) as (p & Hp & Hco). rewrite Hco, nth_opt_map.
    destruct (Cin p Hp) as (c & Hn & Hc). rewrite Hn. cbn [option_map].
    destruct (Hall c Hc) as [A B]. rewrite Forall_forall in Hcr.
    rewrite (cast_true_mono lo c Flo (Hcr c Hc) A), (cast_true_mono c hi (Hcr c Hc) Fhi B). reflexivity.
Qed.

(* with the clamped cast the box premise holds for EVERY finite f64 coordinate set *)
Theorem box_ok32c_true_holds : forall D pts ws, length pts = length ws ->
  Forall (fun p => length p = D) pts -> coords_finite_valid64 pts -> box_ok32c true D pts ws = true.
Proof.
  intros D pts ws Hlen Hshape Hr. unfold box_ok32c.
  destruct (bbox_ok_clamped D 0%nat pts ws Hlen) as (bb & -> & Hok); [|exact Hr|exact Hok].
  intros p Hp. rewrite Forall_forall in Hshape. rewrite (Hshape p Hp). lia.
Qed.

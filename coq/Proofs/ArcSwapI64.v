(* ArcSwap with the f64 share of the code on ALL i64 operands (no 2^53 bound).
   - The strict caps clause is FALSE above 2^53: `h as f64` may round up, so a single worker can be
     handed more than the headroom ([headroom_f64_overallocates], [caps_refuted_above_2p53]: two
     vertices, weights 2^53+4 and 1, one worker, the light part ends one unit above the cap; the
     implementation does the same, design-probes/c05_i64_above_2p53_probe.rs).
   - What does hold for every i64 operand: the over-allocation is bounded by the two roundings,
     tc * share <= d * (1 + 2^-51) (Proofs/ArcSwapFloat.v), hence every part stays below
     max(input weight, cap + |cap| / 2^51) ([arcswap_caps_f64_i64]); the share never panics for
     |cap| + total weight <= 2^63 - 1024, so no reachable state panics or is stuck
     ([arcswap_no_panic_f64]) and every run can be completed ([arcswap_completes_f64]).
   Mutual exclusion, gain exactness, accounting, valid ids, move_count and termination do not
   depend on the share at all (C05_arcswap_mutex / _accounting / _terminates hold for any [cf_hr]).
   Uses the real-number axioms through Proofs/ArcSwapFloat.v. *)
From Coupe Require Import Lib.Prelude Lib.SFloat Model.ArcSwap Proofs.ArcSwapCut Proofs.ArcSwapProto
  Proofs.ArcSwapAcct Proofs.ArcSwapCaps Proofs.ArcSwapProgress Proofs.ArcSwapTerm Proofs.ArcSwapSafe
  Proofs.ArcSwapFloat Proofs.ArcSwapShare.
Open Scope Z_scope.

Lemma sumZ_nn l : Forall (fun x => 0 <= x) l -> 0 <= sumZ l.
Proof. induction 1 as [|x l Hx _ IH]; [cbn; lia|]. change (sumZ (x :: l)) with (x + sumZ l). lia. Qed.

(* ------------------------------------------------------------- refutation *)

Lemma headroom_f64_overallocates :
  exists d tc h, 0 <= d < 2 ^ 63 /\ headroom_f64 d tc = Some h /\ Z.of_nat tc * h > d.
Proof. exists (2 ^ 53 + 3), 1%nat, (2 ^ 53 + 4). split; [lia|]. split; [vm_compute; reflexivity|lia]. Qed.

Definition big_g : graph := [[(1%nat, 1)]; [(0%nat, 1)]].
Definition big_vw : list Z := [2 ^ 53 + 4; 1].
Definition big_p0 : list nat := [0; 1]%nat.

(* max_imbalance = None: the cap is the heaviest input part, 2^53 + 4 *)
Lemma big_cap : cap_of None (loads big_vw big_p0 2) 2 = Some (2 ^ 53 + 4).
Proof. vm_compute. reflexivity. Qed.

(* one worker (pool of 1): the run ends with part 1 at 2^53 + 5 > max(1, cap) *)
Lemma caps_refuted_above_2p53 :
  let cf := config_of headroom_f64 big_g big_vw big_p0 1 (2 ^ 53 + 4) in
  exists st0 sch st, init_state cf big_p0 = Some st0 /\ run cf st0 sch = Some st /\ g_fin st = true
    /\ load big_vw (g_part st) 1 = 2 ^ 53 + 5
    /\ Z.max (load big_vw big_p0 1) (2 ^ 53 + 4) = 2 ^ 53 + 4
    /\ Z.abs (2 ^ 53 + 4) + sumZ big_vw < 2 ^ 63.
Proof.
  cbv zeta.
  destruct (init_state (config_of headroom_f64 big_g big_vw big_p0 1 (2 ^ 53 + 4)) big_p0) as [st0|] eqn:E0;
    [|vm_compute in E0; discriminate].
  exists st0, (fst (drive (config_of headroom_f64 big_g big_vw big_p0 1 (2 ^ 53 + 4)) 2000 0 st0 [])),
              (snd (drive (config_of headroom_f64 big_g big_vw big_p0 1 (2 ^ 53 + 4)) 2000 0 st0 [])).
  vm_compute in E0. injection E0 as <-. vm_compute. repeat split; reflexivity.
Qed.

(* ---------------------------------------------- what holds on all of i64 *)

Definition slack_f64 (cap : Z) : Z := Z.abs cap / 2 ^ 51.

Lemma f64_hr_ok_on cf : cf_hr cf = headroom_f64 -> 1 <= Z.of_nat (cf_tc cf) <= 2 ^ 53 ->
  Forall (fun x => 0 <= x) (cf_vw cf) -> Z.abs (cf_cap cf) + sumZ (cf_vw cf) <= 2 ^ 64 ->
  hr_ok_on cf (slack_f64 (cf_cap cf)).
Proof.
  intros E Htc Hvw Hsmall d h Hd Hh. rewrite E in Hh.
  assert (HW : 0 <= sumZ (cf_vw cf)) by now apply sumZ_nn.
  destruct (headroom_f64_bounds d (cf_tc cf) h ltac:(lia) Htc Hh) as [A B].
  split; [|exact B]. intros Hd0. destruct (A Hd0) as [A1 A2]. split; [exact A1|].
  assert (Hle : Z.of_nat (cf_tc cf) * h - d <= d / 2 ^ 51).
  { apply Z.div_le_lower_bound; lia. }
  assert (Hm : d / 2 ^ 51 <= Z.abs (cf_cap cf) / 2 ^ 51) by (apply Z.div_le_mono; lia).
  unfold slack_f64. lia.
Qed.

Lemma slack_f64_nonneg cap : 0 <= slack_f64 cap.
Proof. unfold slack_f64. apply Z.div_pos; lia. Qed.

Lemma config_of_tc hr g vw p0 T cap : (1 <= length p0)%nat -> (1 <= T)%nat ->
  (1 <= cf_tc (config_of hr g vw p0 T cap) <= length p0)%nat.
Proof.
  intros Hn HT. pose proof (work_share_tc_le (length p0) T Hn HT) as H.
  unfold config_of. destruct (work_share (length p0) T). exact H.
Qed.

(* caps up to the rounding slack, for every i64 input *)
Theorem arcswap_caps_f64_i64 g vw p0 T cap st0 sch st :
  graph_ok g -> length p0 = length g -> Forall (fun x => 0 <= x) vw ->
  (1 <= length g)%nat -> (1 <= T)%nat -> Z.of_nat (length g) <= 2 ^ 53 ->
  Z.abs cap + sumZ vw <= 2 ^ 63 ->
  let cf := config_of headroom_f64 g vw p0 T cap in
  init_state cf p0 = Some st0 -> run cf st0 sch = Some st ->
  forall q, (q < part_count p0)%nat ->
    load vw (g_part st) q <= Z.max (load vw p0 q) (cap + Z.abs cap / 2 ^ 51).
Proof.
  intros Hg Hl Hvw Hn HT Hnb Hsmall cf Hi Hr.
  destruct (config_of_fields headroom_f64 g vw p0 T cap) as (E1 & E2 & E3 & E4 & E5). fold cf in E1, E2, E3, E4, E5.
  pose proof (config_of_tc headroom_f64 g vw p0 T cap) as Htc. fold cf in Htc. rewrite Hl in Htc. specialize (Htc Hn HT).
  pose proof (arcswap_caps_slack cf p0) as S. rewrite E1, E2, E3, E4 in S.
  apply (S Hg Hl (part_count_bound p0) Hvw (slack_f64 cap) st0 sch st (slack_f64_nonneg cap)); auto.
  rewrite <- E4. apply f64_hr_ok_on; rewrite ?E2, ?E4; auto; lia.
Qed.

(* ---- no panic: the share made total agrees with the share of the code on the operands that arise ---- *)

Definition headroom_f64_total (d : Z) (tc : nat) : option Z :=
  match headroom_f64 d tc with Some h => Some h | None => Some 0 end.

Lemma config_of_wf_total g vw p0 T cap : graph_ok g -> length vw = length g -> length p0 = length g ->
  (1 <= length g)%nat -> (1 <= T)%nat -> config_wf (config_of headroom_f64_total g vw p0 T cap).
Proof.
  intros Hg Hvw Hp Hn HT. unfold config_of.
  pose proof (work_share_chunks (length p0) T) as Hws. rewrite Hp in Hws. specialize (Hws Hn HT).
  rewrite Hp. destruct (work_share (length g) T) as [ipt tc]. destruct Hws as [Htc Hch].
  split; cbn [cf_g cf_vw cf_k cf_ipt cf_tc cf_hr]; auto.
  - apply (go_range _ Hg).
  - unfold part_count. lia.
  - intros d. unfold headroom_f64_total. destruct (headroom_f64 d tc); discriminate.
Qed.

Lemma run_app cf l1 : forall st l2, run cf st (l1 ++ l2) =
  match run cf st l1 with Some st' => run cf st' l2 | None => None end.
Proof.
  induction l1 as [|t l1 IH]; intros st l2; [reflexivity|].
  cbn [app run]. destruct (step cf st t); [apply IH|reflexivity].
Qed.

Section NoPanic.
Variables (g : graph) (vw : list Z) (p0 : list nat) (T : nat) (cap : Z).
Hypothesis Hg : graph_ok g.
Hypothesis Hlv : length vw = length g.
Hypothesis Hl : length p0 = length g.
Hypothesis Hvw : Forall (fun x => 0 <= x) vw.
Hypothesis Hn : (1 <= length g)%nat.
Hypothesis HT : (1 <= T)%nat.
Hypothesis Hnb : Z.of_nat (length g) <= 2 ^ 53.
Hypothesis Hsmall : Z.abs cap + sumZ vw <= 2 ^ 63 - 1024.
Let cf := config_of headroom_f64 g vw p0 T cap.
Let cft := config_of headroom_f64_total g vw p0 T cap.

Lemma cf_is_with_hr : cf = with_hr cft headroom_f64.
Proof. apply config_of_with_hr. Qed.

Lemma same_machine :
  init_state cf p0 = init_state cft p0 /\
  forall st0 sch, init_state cft p0 = Some st0 -> run cf st0 sch = run cft st0 sch.
Proof.
  rewrite cf_is_with_hr.
  destruct (config_of_fields headroom_f64_total g vw p0 T cap) as (E1 & E2 & E3 & E4 & E5). fold cft in E1, E2, E3, E4, E5.
  pose proof (config_of_tc headroom_f64_total g vw p0 T cap) as Htc. fold cft in Htc. rewrite Hl in Htc. specialize (Htc Hn HT).
  assert (HW : 0 <= sumZ vw) by now apply sumZ_nn.
  apply (share_agree_irrelevant cft headroom_f64 (slack_f64 cap) p0).
  - now rewrite E1.
  - now rewrite E1.
  - rewrite E3. apply part_count_bound.
  - now rewrite E2.
  - apply slack_f64_nonneg.
  - (* the total share satisfies the spec: where the f64 share is defined it is that share *)
    intros d h Hd Hh. rewrite E5 in Hh. unfold headroom_f64_total in Hh. rewrite E4, E2 in Hd.
    destruct (headroom_f64 d (cf_tc cft)) as [h'|] eqn:Ef.
    + injection Hh as <-.
      destruct (headroom_f64_bounds d (cf_tc cft) h' ltac:(lia) ltac:(lia) Ef) as [A B].
      split; [|exact B]. intros Hd0. destruct (A Hd0) as [A1 A2]. split; [exact A1|].
      assert (Hle : Z.of_nat (cf_tc cft) * h' - d <= d / 2 ^ 51) by (apply Z.div_le_lower_bound; lia).
      assert (Hm : d / 2 ^ 51 <= Z.abs cap / 2 ^ 51) by (apply Z.div_le_mono; lia).
      unfold slack_f64. lia.
    + injection Hh as <-. pose proof (slack_f64_nonneg cap). split; intros; lia.
  - intros x Hx. rewrite E5, E4. rewrite E2 in Hx. unfold headroom_f64_total.
    destruct (headroom_f64_some (cap - x) (cf_tc cft)) as [h Eh]; [lia|lia|]. now rewrite Eh.
Qed.

Theorem arcswap_no_panic_f64 :
  init_state cf p0 <> None /\
  forall st0 sch st, init_state cf p0 = Some st0 -> run cf st0 sch = Some st -> g_fin st = false ->
    (forall t w, nth_opt (g_ws st) t = Some w -> w_pc w <> PDone -> step cf st t <> None)
    /\ exists t st', step cf st t = Some st'.
Proof.
  destruct same_machine as [Ei Er].
  pose proof (config_of_wf_total g vw p0 T cap Hg Hlv Hl Hn HT) as Hwf. fold cft in Hwf.
  destruct (config_of_fields headroom_f64_total g vw p0 T cap) as (E1 & E2 & E3 & E4 & E5). fold cft in E1, E2, E3, E4, E5.
  assert (Hlq : length p0 = length (cf_g cft)) by now rewrite E1.
  assert (Hidq : Forall (fun x => (x < cf_k cft)%nat) p0) by (rewrite E3; apply part_count_bound).
  destruct (arcswap_no_panic cft p0 Hwf Hlq Hidq) as [Hinit Hnp].
  split; [now rewrite Ei|].
  intros st0 sch st Hi Hr Hnf. rewrite Ei in Hi. rewrite (Er st0 sch Hi) in Hr.
  destruct (Hnp st0 sch st Hi Hr Hnf) as [Hall (t & st' & Hs)].
  assert (Hstep : forall t, step cf st t = step cft st t).
  { intros t0. pose proof (Er st0 (sch ++ [t0]) Hi) as H. rewrite !run_app in H.
    rewrite (Er st0 sch Hi), Hr in H. cbn [run] in H.
    destruct (step cf st t0), (step cft st t0); congruence. }
  split.
  - intros t0 w Hw Hnd. rewrite Hstep. eauto.
  - exists t, st'. now rewrite Hstep.
Qed.

Theorem arcswap_completes_f64 st0 sch st :
  init_state cf p0 = Some st0 -> run cf st0 sch = Some st ->
  exists sch' st', run cf st sch' = Some st' /\ g_fin st' = true.
Proof.
  destruct same_machine as [Ei Er]. intros Hi Hr. rewrite Ei in Hi.
  pose proof (config_of_wf_total g vw p0 T cap Hg Hlv Hl Hn HT) as Hwf. fold cft in Hwf.
  destruct (config_of_fields headroom_f64_total g vw p0 T cap) as (E1 & E2 & E3 & E4 & E5). fold cft in E1, E2, E3, E4, E5.
  assert (Hgq : graph_ok (cf_g cft)) by now rewrite E1.
  assert (Hlq : length p0 = length (cf_g cft)) by now rewrite E1.
  assert (Hidq : Forall (fun x => (x < cf_k cft)%nat) p0) by (rewrite E3; apply part_count_bound).
  pose proof Hr as Hr'. rewrite (Er st0 sch Hi) in Hr'.
  destruct (arcswap_completes cft p0 Hgq Hwf Hlq Hidq st0 sch st Hi Hr') as (sch' & st' & Hc & Hf).
  exists sch', st'. split; [|exact Hf].
  pose proof (Er st0 (sch ++ sch') Hi) as H. rewrite !run_app, Hr, Hr' in H. congruence.
Qed.
End NoPanic.

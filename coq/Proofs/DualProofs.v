(* Proofs about Model/Dual.v. *)
From Coupe Require Import Lib.Prelude Gen.MeshTables Model.Dual.
From Coq Require Import Sorting.Sorted Permutation.

(* ---------- facts read off the generated tables ---------- *)
Lemma node_count_pos : forall t, 1 <= et_node_count t.
Proof. intros []; cbn; lia. Qed.

Lemma edge_dimension : et_dimension Edge = 1.
Proof. reflexivity. Qed.

(* Proofs about Model/Dual.v: the rows computed by the model of `dual` are the
   brute-force definition ([spec_rows]) for every mesh of the contract; hence
   adjacency, symmetry, irreflexivity, sortedness, vertex count; agreement of
   the three element counts; no panic (no underflow in element_to_nodes);
   independence from the order of rayon's row writes; checker correctness. *)
From Coupe Require Import Lib.Prelude Gen.MeshTables Model.Dual.
From Coq Require Import Sorting.Sorted Permutation.

(* ---------- facts read off the generated tables ---------- *)
Lemma node_count_pos : forall t, 1 <= et_node_count t.
Proof. intros []; cbn; lia. Qed.

Lemma edge_dimension : et_dimension Edge = 1.
Proof. reflexivity. Qed.

Lemma threshold_le dim c : threshold dim c = (dim <=? c).
Proof. reflexivity. Qed.

(* for a highest dimension other than 1 the `== Edge` clause is vacuous, whichever
   function carries it *)
Lemma ignored_eq f dim t : dim <> 1 -> ignored f dim t = negb (et_dimension t =? dim).
Proof.
  intros Hd. unfold ignored.
  destruct (Nat.eqb_spec (et_dimension t) dim) as [E|E]; cbn [negb orb]; [|reflexivity].
  destruct t; cbn [etype_eqb andb]; try (destruct f; reflexivity).
  exfalso. apply Hd. rewrite <- E. reflexivity.
Qed.

(* ---------- the res monad ---------- *)
Lemma bind_Ok {A B} (r : res A) (f : A -> res B) b :
  bind r f = Ok b -> exists a, r = Ok a /\ f a = Ok b.
Proof. destruct r; cbn; intros H; try discriminate. eauto. Qed.

Lemma mapM_pure {A B} (f : A -> res B) (g : A -> B) l :
  (forall x, In x l -> f x = Ok (g x)) -> mapM f l = Ok (map g l).
Proof.
  induction l as [|x t IH]; intros H; cbn [mapM map]; [reflexivity|].
  rewrite (H x (or_introl eq_refl)). cbn [bind]. rewrite IH; [reflexivity|].
  intros y Hy. apply H. right; exact Hy.
Qed.

Lemma filterM_pure {A} (f : A -> res bool) (g : A -> bool) l :
  (forall x, In x l -> f x = Ok (g x)) -> filterM f l = Ok (filter g l).
Proof.
  induction l as [|x t IH]; intros H; cbn [filterM filter]; [reflexivity|].
  rewrite (H x (or_introl eq_refl)). cbn [bind]. rewrite IH; [reflexivity|].
  intros y Hy. apply H. right; exact Hy.
Qed.

(* ---------- lists ---------- *)
Lemma skipn_skipn {A} a b (l : list A) : skipn a (skipn b l) = skipn (b + a) l.
Proof.
  revert l; induction b as [|b IH]; intros l; [reflexivity|].
  destruct l as [|x t]; cbn [skipn Nat.add]; [destruct a; reflexivity|apply IH].
Qed.

Lemma nth_opt_nth {A} (l : list A) i d : i < length l -> nth_opt l i = Some (nth i l d).
Proof.
  revert i; induction l as [|x t IH]; intros [|i] H; cbn in *; try lia; [reflexivity|].
  apply IH. lia.
Qed.

Lemma nth_opt_None {A} (l : list A) i : length l <= i -> nth_opt l i = None.
Proof.
  revert i; induction l as [|x t IH]; intros [|i] H; cbn in *; try lia; try reflexivity.
  apply IH. lia.
Qed.

Lemma nth_set_nth_same {A} (l : list A) i v d : i < length l -> nth i (set_nth l i v) d = v.
Proof.
  revert i; induction l as [|x t IH]; intros [|i] H; cbn in *; try lia; [reflexivity|].
  apply IH. lia.
Qed.

Lemma nth_set_nth_other {A} (l : list A) i j v d : i <> j -> nth j (set_nth l i v) d = nth j l d.
Proof.
  revert i j; induction l as [|x t IH]; intros [|i] [|j] H; cbn; try reflexivity; try congruence.
  apply IH. congruence.
Qed.

Lemma set_nth_comm {A} (l : list A) i j u v :
  i <> j -> set_nth (set_nth l i u) j v = set_nth (set_nth l j v) i u.
Proof.
  revert i j; induction l as [|x t IH]; intros [|i] [|j] H; cbn; try reflexivity; try congruence.
  f_equal. apply IH. congruence.
Qed.

Lemma nth_map' {A B} (f : A -> B) l i d d' : i < length l -> nth i (map f l) d = f (nth i l d').
Proof.
  revert i; induction l as [|x t IH]; intros [|i] H; cbn in *; try lia; [reflexivity|].
  apply IH. lia.
Qed.

(* ---------- chunks_exact = block_elements ---------- *)
Lemma div_step n L : 1 <= n -> n <= L -> L / n = S ((L - n) / n).
Proof.
  intros Hn HL. replace L with (1 * n + (L - n)) at 1 by lia.
  rewrite Nat.div_add_l by lia. reflexivity.
Qed.

Lemma block_elements_length npe nodes : length (block_elements npe nodes) = length nodes / npe.
Proof. unfold block_elements. rewrite map_length, seq_length. reflexivity. Qed.

Lemma block_elements_nth npe nodes i :
  i < length nodes / npe ->
  nth i (block_elements npe nodes) [] = firstn npe (skipn (i * npe) nodes).
Proof.
  intros Hi. unfold block_elements.
  rewrite (nth_map' _ _ _ _ 0) by (rewrite seq_length; exact Hi).
  rewrite seq_nth by exact Hi. reflexivity.
Qed.

Lemma block_elements_step n (l : list nat) :
  1 <= n -> n <= length l ->
  block_elements n l = firstn n l :: block_elements n (skipn n l).
Proof.
  intros Hn Hl. unfold block_elements.
  rewrite (div_step n (length l)) by assumption.
  cbn [seq map]. rewrite Nat.mul_0_l. cbn [skipn]. f_equal.
  rewrite <- seq_shift, map_map, skipn_length.
  apply map_ext. intros i. rewrite skipn_skipn. reflexivity.
Qed.

Lemma chunks_exact_aux_spec fuel n (l : list nat) :
  1 <= n -> length l <= fuel -> chunks_exact_aux fuel n l = Ok (block_elements n l).
Proof.
  intros Hn. revert l. induction fuel as [|f IH]; intros l Hl.
  - cbn [chunks_exact_aux]. destruct (Nat.ltb_spec (length l) n) as [H|H]; [|lia].
    unfold block_elements. rewrite Nat.div_small by exact H. reflexivity.
  - cbn [chunks_exact_aux]. destruct (Nat.ltb_spec (length l) n) as [H|H].
    + unfold block_elements. rewrite Nat.div_small by exact H. reflexivity.
    + rewrite IH by (rewrite skipn_length; lia). cbn [bind].
      rewrite (block_elements_step n l) by assumption. reflexivity.
Qed.

(* sufficient fuel: the length of the slice (never OutOfFuel) *)
Lemma chunks_exact_spec n (l : list nat) :
  1 <= n -> chunks_exact n l = Ok (block_elements n l).
Proof.
  intros Hn. unfold chunks_exact. destruct n as [|n]; [lia|].
  apply chunks_exact_aux_spec; lia.
Qed.

(* ---------- Mesh::elements and the kept elements ---------- *)
Definition tagged (b : block) : list (etype * list nat) :=
  map (fun c => (fst b, c)) (block_elements (et_node_count (fst b)) (snd b)).

Lemma mesh_elements_spec topo : mesh_elements topo = Ok (flat_map tagged topo).
Proof.
  unfold mesh_elements.
  rewrite (mapM_pure _ tagged).
  - cbn [bind]. rewrite flat_map_concat_map. reflexivity.
  - intros b _. rewrite chunks_exact_spec by apply node_count_pos. reflexivity.
Qed.

(* what `dual` keeps, with its own filter clause *)
Definition kept_elements (f : bool) (dim : nat) (topo : list block) : list (list nat) :=
  flat_map (fun b : block =>
              if ignored f dim (fst b) then []
              else block_elements (et_node_count (fst b)) (snd b)) topo.

Lemma kept_filter f dim topo :
  map snd (filter (fun e : etype * list nat => negb (ignored f dim (fst e))) (flat_map tagged topo))
  = kept_elements f dim topo.
Proof.
  induction topo as [|b t IH]; [reflexivity|].
  cbn [flat_map kept_elements]. rewrite filter_app, map_app, IH. f_equal.
  unfold tagged. generalize (block_elements (et_node_count (fst b)) (snd b)) as cs.
  intros cs. destruct (ignored f dim (fst b)) eqn:E.
  - induction cs as [|c cs IHc]; [reflexivity|]. cbn [map filter fst]. rewrite E. cbn [negb]. exact IHc.
  - induction cs as [|c cs IHc]; [reflexivity|]. cbn [map filter fst]. rewrite E. cbn [negb map snd].
    f_equal. exact IHc.
Qed.

Lemma dual_elements_spec dim topo :
  dual_elements dim topo = Ok (kept_elements dual_drops_edges dim topo).
Proof.
  unfold dual_elements. rewrite mesh_elements_spec. cbn [bind]. rewrite kept_filter. reflexivity.
Qed.

Lemma kept_is_spec f dim topo : dim <> 1 -> kept_elements f dim topo = spec_elements dim topo.
Proof.
  intros Hd. unfold kept_elements, spec_elements.
  induction topo as [|b t IH]; [reflexivity|]. cbn [flat_map]. rewrite IH. f_equal.
  rewrite ignored_eq by exact Hd. destruct (et_dimension (fst b) =? dim); reflexivity.
Qed.

(* ---------- chunks: start offsets, element_to_nodes ---------- *)
Inductive cover : list chunk -> nat -> list (list nat) -> Prop :=
| cover_nil s : cover [] s []
| cover_cons s npe nodes rest els :
    1 <= npe -> length nodes mod npe = 0 ->
    cover rest (s + length nodes / npe) els ->
    cover (mkChunk s npe nodes :: rest) s (block_elements npe nodes ++ els).

Lemma blocks_ok_cons b t :
  blocks_ok (b :: t) = true ->
  1 <= et_node_count (fst b) /\ length (snd b) mod et_node_count (fst b) = 0 /\ blocks_ok t = true.
Proof.
  unfold blocks_ok. cbn [forallb]. intros H.
  apply andb_true_iff in H as [H1 H2]. apply andb_true_iff in H1 as [H1 H3].
  apply Nat.leb_le in H1. apply Nat.eqb_eq in H3. auto.
Qed.

Lemma topology_chunks_cover dim topo : blocks_ok topo = true ->
  forall s, exists cs, topology_chunks dim s topo = Ok cs
                       /\ cover cs s (kept_elements dual_drops_edges dim topo).
Proof.
  induction topo as [|[t nodes] rest IH]; intros Hb s.
  - exists []. split; [reflexivity|constructor].
  - apply blocks_ok_cons in Hb as (Hn & Hm & Hb). cbn [fst snd] in Hn, Hm.
    cbn [topology_chunks kept_elements flat_map fst snd].
    destruct (ignored dual_drops_edges dim t).
    + destruct (IH Hb s) as (cs & E & C). exists cs. split; [exact E|exact C].
    + destruct (Nat.eqb_spec (et_node_count t) 0) as [Z|_]; [lia|].
      destruct (IH Hb (s + length nodes / et_node_count t)) as (cs & E & C).
      exists (mkChunk s (et_node_count t) nodes :: cs). rewrite E. split; [reflexivity|].
      constructor; assumption.
Qed.

Lemma cover_count cs s els : cover cs s els ->
  fold_right Nat.add 0 (map (fun c => length (c_nodes c) / c_npe c) cs) = length els.
Proof.
  induction 1 as [|s npe nodes rest els Hn Hm _ IH]; [reflexivity|].
  cbn [map fold_right c_nodes c_npe]. rewrite IH, app_length, block_elements_length. reflexivity.
Qed.

Lemma exact_len npe (nodes : list nat) :
  1 <= npe -> length nodes mod npe = 0 -> length nodes = (length nodes / npe) * npe.
Proof.
  intros Hn Hm. pose proof (Nat.div_mod (length nodes) npe ltac:(lia)) as E. rewrite Hm in E. lia.
Qed.

(* the lookup finds the element numbered e: chunks are visited in order *)
Lemma cover_e2n cs s els : cover cs s els ->
  forall e, s <= e < s + length els -> element_to_nodes cs e = Ok (nth (e - s) els []).
Proof.
  induction 1 as [|s npe nodes rest els Hn Hm _ IH]; intros e He; [cbn in He; lia|].
  rewrite app_length, block_elements_length in He.
  cbn [element_to_nodes c_start c_npe c_nodes].
  destruct (Nat.ltb_spec e s) as [Hlt|_]; [lia|].
  pose proof (exact_len npe nodes Hn Hm) as EL.
  set (k := length nodes / npe) in *.
  destruct (Nat.ltb_spec ((e - s) * npe) (length nodes)) as [Hin|Hout].
  - assert (Hk : e - s < k) by nia.
    destruct (Nat.leb_spec ((e - s) * npe + npe) (length nodes)) as [_|Hbad]; [|nia].
    rewrite app_nth1 by (rewrite block_elements_length; exact Hk).
    rewrite block_elements_nth by exact Hk. reflexivity.
  - assert (Hk : k <= e - s) by nia.
    rewrite IH by lia.
    rewrite app_nth2 by (rewrite block_elements_length; exact Hk).
    rewrite block_elements_length. fold k. do 2 f_equal. lia.
Qed.

(* `e - item.start_idx` never goes below zero, whatever e *)
Lemma cover_no_underflow cs s els : cover cs s els ->
  forall e, s <= e -> element_to_nodes cs e <> Panic P_UNDERFLOW.
Proof.
  induction 1 as [|s npe nodes rest els Hn Hm _ IH]; intros e He; [discriminate|].
  cbn [element_to_nodes c_start c_npe c_nodes].
  destruct (Nat.ltb_spec e s) as [Hlt|_]; [lia|].
  pose proof (exact_len npe nodes Hn Hm) as EL.
  destruct (Nat.ltb_spec ((e - s) * npe) (length nodes)) as [Hin|Hout].
  - destruct (Nat.leb_spec ((e - s) * npe + npe) (length nodes)); discriminate.
  - apply IH. nia.
Qed.

(* ---------- node -> elements index ---------- *)
Lemma ins_In e l x : In x (ins e l) <-> x = e \/ In x l.
Proof.
  induction l as [|y t IH]; cbn [ins].
  - cbn. intuition.
  - destruct (Nat.ltb_spec e y) as [H|H]; [cbn; intuition|].
    destruct (Nat.eqb_spec e y) as [E|E]; [subst; cbn; intuition|].
    cbn [In]. rewrite IH. intuition.
Qed.

Lemma ins_sorted e l : StronglySorted lt l -> StronglySorted lt (ins e l).
Proof.
  induction l as [|y t IH]; intros Hs; cbn [ins].
  - repeat constructor.
  - apply StronglySorted_inv in Hs as [Ht Hy].
    destruct (Nat.ltb_spec e y) as [H|H].
    + constructor; [constructor; assumption|].
      constructor; [exact H|]. rewrite Forall_forall in *. intros z Hz. specialize (Hy z Hz). lia.
    + destruct (Nat.eqb_spec e y) as [E|E]; [constructor; assumption|].
      constructor; [apply IH; exact Ht|].
      rewrite Forall_forall in *. intros z Hz. apply ins_In in Hz as [->|Hz]; [lia|apply Hy; exact Hz].
Qed.

(* state of the index: one row per node *)
Definition n2e_rel (n2e n2e' : list (list nat)) (P : nat -> nat -> Prop) : Prop :=
  length n2e' = length n2e /\
  forall v x, v < length n2e -> (In x (nth v n2e' []) <-> In x (nth v n2e []) \/ P v x).

Lemma n2e_add_spec nodes : forall n2e e,
  Forall (fun v => v < length n2e) nodes ->
  exists n2e', n2e_add n2e e nodes = Ok n2e' /\ n2e_rel n2e n2e' (fun v x => x = e /\ In v nodes).
Proof.
  induction nodes as [|w t IH]; intros n2e e Hr.
  - exists n2e. split; [reflexivity|]. split; [reflexivity|]. intros v x _. cbn. intuition.
  - inversion Hr as [|? ? Hw Ht]; subst. cbn [n2e_add].
    rewrite (nth_opt_nth n2e w []) by exact Hw.
    destruct (IH (set_nth n2e w (ins e (nth w n2e []))) e) as (n2e' & E & L & M).
    { rewrite set_nth_length. exact Ht. }
    exists n2e'. split; [exact E|]. rewrite set_nth_length in L, M. split; [exact L|].
    intros v x Hv. rewrite (M v x Hv).
    destruct (Nat.eq_dec w v) as [->|Hne].
    + rewrite nth_set_nth_same by exact Hv. rewrite ins_In. cbn [In]. intuition.
    + rewrite nth_set_nth_other by exact Hne. cbn [In]. intuition congruence.
Qed.

Lemma n2e_add_sorted nodes : forall n2e e n2e',
  n2e_add n2e e nodes = Ok n2e' -> Forall (StronglySorted lt) n2e -> Forall (StronglySorted lt) n2e'.
Proof.
  induction nodes as [|w t IH]; intros n2e e n2e' E Hs; cbn [n2e_add] in E.
  - injection E as <-. exact Hs.
  - destruct (nth_opt n2e w) as [l|] eqn:El; [|discriminate].
    apply (IH _ _ _ E).
    assert (Hl : StronglySorted lt l).
    { pose proof (nth_opt_Some _ _ _ El) as Hw. rewrite (nth_opt_nth n2e w []) in El by exact Hw.
      injection El as <-. rewrite Forall_forall in Hs. apply Hs. apply nth_In. exact Hw. }
    clear E El. revert w. induction Hs as [|y n2e Hy Hn IHn]; intros [|w]; cbn [set_nth]; constructor; auto.
    apply ins_sorted. exact Hl.
Qed.

Lemma n2e_build_spec els : forall n2e e0,
  Forall (Forall (fun v => v < length n2e)) els ->
  exists n2e', n2e_build n2e e0 els = Ok n2e'
    /\ n2e_rel n2e n2e' (fun v x => exists i, i < length els /\ x = e0 + i /\ In v (nth i els [])).
Proof.
  induction els as [|nodes t IH]; intros n2e e0 Hr.
  - exists n2e. split; [reflexivity|]. split; [reflexivity|]. intros v x _.
    split; [auto|]. intros [H|(i & Hi & _)]; [exact H|cbn in Hi; lia].
  - inversion Hr as [|? ? Hn Ht]; subst. cbn [n2e_build].
    destruct (n2e_add_spec nodes n2e e0 Hn) as (n1 & E1 & L1 & M1). rewrite E1. cbn [bind].
    destruct (IH n1 (S e0)) as (n2 & E2 & L2 & M2).
    { rewrite L1. exact Ht. }
    exists n2. split; [exact E2|]. rewrite L1 in L2, M2. split; [exact L2|].
    intros v x Hv. rewrite (M2 v x Hv), (M1 v x Hv). split.
    + intros [[H|[-> Hin]]|(i & Hi & -> & Hin)].
      * left; exact H.
      * right. exists 0. cbn. repeat split; [lia|lia|exact Hin].
      * right. exists (S i). cbn. repeat split; [lia|lia|exact Hin].
    + intros [H|(i & Hi & -> & Hin)]; [left; left; exact H|].
      destruct i as [|i]; cbn in Hin, Hi.
      * left; right. split; [lia|exact Hin].
      * right. exists i. repeat split; [lia|lia|exact Hin].
Qed.

Lemma n2e_build_sorted els : forall n2e e0 n2e',
  n2e_build n2e e0 els = Ok n2e' -> Forall (StronglySorted lt) n2e -> Forall (StronglySorted lt) n2e'.
Proof.
  induction els as [|nodes t IH]; intros n2e e0 n2e' E Hs; cbn [n2e_build] in E.
  - injection E as <-. exact Hs.
  - apply bind_Ok in E as (n1 & E1 & E2). apply (IH _ _ _ E2). apply (n2e_add_sorted _ _ _ _ E1 Hs).
Qed.

(* the index after the loop: e is listed under v exactly when v is a node of element e *)
Lemma node_to_elements_spec nc els :
  Forall (Forall (fun v => v < nc)) els ->
  exists n2e, node_to_elements nc els = Ok n2e /\ length n2e = nc /\
    forall v x, v < nc -> (In x (nth v n2e []) <-> x < length els /\ In v (nth x els [])).
Proof.
  intros Hr. unfold node_to_elements.
  destruct (n2e_build_spec els (repeat [] nc) 0) as (n2e & E & L & M).
  { rewrite repeat_length. exact Hr. }
  rewrite repeat_length in L, M. exists n2e. split; [exact E|]. split; [exact L|].
  intros v x Hv. rewrite (M v x Hv). rewrite nth_repeat. cbn [In]. split.
  - intros [[]|(i & Hi & -> & Hin)]. cbn. auto.
  - intros [Hx Hin]. right. exists x. auto.
Qed.

(* the vectors handed to binary_search are strictly sorted at every step *)
Lemma n2e_rows_sorted nc els n2e :
  node_to_elements nc els = Ok n2e -> Forall (StronglySorted lt) n2e.
Proof.
  intros E. apply (n2e_build_sorted _ _ _ _ E).
  clear. induction nc as [|n IH]; cbn [repeat]; constructor; [constructor|exact IH].
Qed.

(* ---------- sort + dedup ---------- *)
Lemma insert_sorted_In y l x : In x (insert_sorted y l) <-> x = y \/ In x l.
Proof.
  induction l as [|z t IH]; cbn [insert_sorted]; [cbn; intuition|].
  destruct (Nat.leb_spec y z); cbn [In]; [intuition|]. rewrite IH. intuition.
Qed.

Lemma insert_sorted_sorted y l : StronglySorted le l -> StronglySorted le (insert_sorted y l).
Proof.
  induction l as [|z t IH]; intros Hs; cbn [insert_sorted]; [repeat constructor|].
  apply StronglySorted_inv in Hs as [Ht Hz].
  destruct (Nat.leb_spec y z) as [H|H].
  - constructor; [constructor; assumption|]. constructor; [exact H|].
    rewrite Forall_forall in *. intros w Hw. specialize (Hz w Hw). lia.
  - constructor; [apply IH; exact Ht|]. rewrite Forall_forall in *.
    intros w Hw. apply insert_sorted_In in Hw as [->|Hw]; [lia|apply Hz; exact Hw].
Qed.

Lemma sort_nat_In l x : In x (sort_nat l) <-> In x l.
Proof.
  induction l as [|y t IH]; [reflexivity|]. cbn [sort_nat fold_right].
  rewrite insert_sorted_In. fold (sort_nat t). rewrite IH. cbn [In]. intuition.
Qed.

Lemma sort_nat_sorted l : StronglySorted le (sort_nat l).
Proof.
  induction l as [|y t IH]; [constructor|]. cbn [sort_nat fold_right].
  apply insert_sorted_sorted. exact IH.
Qed.

Lemma dedup_cons x t : dedup (x :: t) = match t with [] => [x] | y :: _ => if x =? y then dedup t else x :: dedup t end.
Proof. reflexivity. Qed.

Lemma dedup_In l x : In x (dedup l) <-> In x l.
Proof.
  induction l as [|y t IH]; [reflexivity|]. rewrite dedup_cons.
  destruct t as [|z t']; [reflexivity|].
  destruct (Nat.eqb_spec y z) as [->|Hne].
  - rewrite IH. cbn [In]. intuition.
  - cbn [In] in *. rewrite IH. reflexivity.
Qed.

Lemma dedup_sorted l : StronglySorted le l -> StronglySorted lt (dedup l).
Proof.
  induction l as [|y t IH]; intros Hs; [constructor|]. rewrite dedup_cons.
  apply StronglySorted_inv in Hs as [Ht Hy].
  destruct t as [|z t']; [repeat constructor|].
  destruct (Nat.eqb_spec y z) as [->|Hne]; [apply IH; exact Ht|].
  constructor; [apply IH; exact Ht|].
  rewrite Forall_forall in *. intros w Hw. apply (proj1 (dedup_In _ _)) in Hw.
  pose proof (Hy z (or_introl eq_refl)) as Hyz.
  apply StronglySorted_inv in Ht as [_ Hz]. rewrite Forall_forall in Hz.
  destruct Hw as [<-|Hw]; [lia|]. specialize (Hz w Hw). lia.
Qed.

(* a strictly increasing list is determined by its elements *)
Lemma sorted_lt_unique l1 : forall l2,
  StronglySorted lt l1 -> StronglySorted lt l2 -> (forall x, In x l1 <-> In x l2) -> l1 = l2.
Proof.
  induction l1 as [|a t1 IH]; intros [|b t2] H1 H2 Hin.
  - reflexivity.
  - exfalso. apply (proj2 (Hin b)). left; reflexivity.
  - exfalso. apply (proj1 (Hin a)). left; reflexivity.
  - apply StronglySorted_inv in H1 as [S1 F1]. apply StronglySorted_inv in H2 as [S2 F2].
    rewrite Forall_forall in F1, F2.
    assert (a = b).
    { destruct (proj1 (Hin a) (or_introl eq_refl)) as [E|Ha]; [auto|].
      destruct (proj2 (Hin b) (or_introl eq_refl)) as [E|Hb]; [auto|].
      specialize (F1 b Hb). specialize (F2 a Ha). lia. }
    subst b. f_equal. apply IH; [exact S1|exact S2|].
    intros x. split; intros Hx.
    + destruct (proj1 (Hin x) (or_intror Hx)) as [E|H]; [|exact H]. subst x. specialize (F1 a Hx). lia.
    + destruct (proj2 (Hin x) (or_intror Hx)) as [E|H]; [|exact H]. subst x. specialize (F2 a Hx). lia.
Qed.

Lemma seq_sorted a n : StronglySorted lt (seq a n).
Proof.
  revert a; induction n as [|n IH]; intros a; cbn [seq]; constructor; [apply IH|].
  rewrite Forall_forall. intros x Hx. apply in_seq in Hx. lia.
Qed.

Lemma filter_sorted (P : nat -> bool) l : StronglySorted lt l -> StronglySorted lt (filter P l).
Proof.
  induction l as [|a t IH]; intros Hs; [constructor|].
  apply StronglySorted_inv in Hs as [St Fa]. cbn [filter].
  destruct (P a); [|apply IH; exact St].
  constructor; [apply IH; exact St|]. rewrite Forall_forall in *.
  intros x Hx. apply filter_In in Hx as [Hx _]. apply Fa. exact Hx.
Qed.

(* ---------- the steps of the row pipeline, in any order that works ---------- *)
(* abstract run: f = a filter was applied, s = sorted, st = strictly sorted *)
Fixpoint steps_ok (steps : list row_step) (f s st : bool) : bool :=
  match steps with
  | [] => f && st
  | RFilter :: t => steps_ok t true s st
  | RSort :: t => steps_ok t f true false
  | RDedup :: t => steps_ok t f s s
  end.

(* the pipeline as written in the source now is one for which the theorems hold *)
Lemma pipeline_ok : steps_ok dual_row_steps false false false = true.
Proof. reflexivity. Qed.

Lemma filter_sorted_le (P : nat -> bool) l : StronglySorted le l -> StronglySorted le (filter P l).
Proof.
  induction l as [|a t IH]; intros Hs; [constructor|].
  apply StronglySorted_inv in Hs as [St Fa]. cbn [filter].
  destruct (P a); [|apply IH; exact St].
  constructor; [apply IH; exact St|]. rewrite Forall_forall in *.
  intros x Hx. apply filter_In in Hx as [Hx _]. apply Fa. exact Hx.
Qed.

Lemma sorted_lt_le l : StronglySorted lt l -> StronglySorted le l.
Proof.
  induction 1 as [|a t Ht IH Fa]; constructor; [exact IH|].
  rewrite Forall_forall in *. intros x Hx. specialize (Fa x Hx). lia.
Qed.

Lemma run_steps_spec (pred : nat -> res bool) (g : nat -> bool) (l0 : list nat) :
  (forall x, In x l0 -> pred x = Ok (g x)) ->
  forall steps l f s st,
    (forall x, In x l <-> In x l0 /\ (f = true -> g x = true)) ->
    (s = true -> StronglySorted le l) -> (st = true -> StronglySorted lt l) ->
    steps_ok steps f s st = true ->
    exists l', run_steps pred steps l = Ok l' /\ StronglySorted lt l'
               /\ forall x, In x l' <-> In x l0 /\ g x = true.
Proof.
  intros Hpred. induction steps as [|[| |] t IH]; intros l f s st Hm Hs Hst Hok; cbn [steps_ok] in Hok.
  - apply andb_true_iff in Hok as [-> ->]. exists l. split; [reflexivity|]. split; [auto|].
    intros x. rewrite Hm. intuition.
  - cbn [run_steps run_step]. rewrite (filterM_pure pred g).
    2:{ intros x Hx. apply Hpred. apply Hm in Hx. tauto. }
    cbn [bind]. apply (IH (filter g l) true s st); [|intros H; apply filter_sorted_le; auto|intros H; apply filter_sorted; auto|exact Hok].
    intros x. rewrite filter_In, Hm. intuition.
  - cbn [run_steps run_step bind]. apply (IH (sort_nat l) f true false); [|intros _; apply sort_nat_sorted|discriminate|exact Hok].
    intros x. rewrite sort_nat_In. apply Hm.
  - cbn [run_steps run_step bind]. apply (IH (dedup l) f s s); [| | |exact Hok].
    + intros x. rewrite dedup_In. apply Hm.
    + intros H. apply sorted_lt_le, dedup_sorted. auto.
    + intros H. apply dedup_sorted. auto.
Qed.

(* ---------- one row ---------- *)
Lemma count_common_pos a b : 1 <= count_common a b -> exists v, In v a /\ In v b.
Proof.
  unfold count_common. intros H.
  destruct (filter (fun x => existsb (Nat.eqb x) b) a) as [|v l] eqn:E; [cbn in H; lia|].
  assert (Hv : In v (filter (fun x => existsb (Nat.eqb x) b) a)) by (rewrite E; left; reflexivity).
  apply filter_In in Hv as [Ha Hb]. apply existsb_exists in Hb as (w & Hw & Ew).
  apply Nat.eqb_eq in Ew. subst w. eauto.
Qed.

Lemma map_snd_combine {A B} (l1 : list A) : forall (l2 : list B),
  length l1 = length l2 -> map snd (combine l1 l2) = l2.
Proof.
  induction l1 as [|x t IH]; intros [|y u] H; cbn in *; try lia; [reflexivity|].
  f_equal. apply IH. lia.
Qed.

Lemma set_nth_app_len {A} (pre : list A) x t v :
  set_nth (pre ++ x :: t) (length pre) v = pre ++ v :: t.
Proof. induction pre as [|y p IH]; cbn; [reflexivity|f_equal; exact IH]. Qed.

Lemma apply_writes_seq (Rf : nat -> list nat) b : forall a pre,
  length pre = a ->
  apply_writes (pre ++ repeat [] b) (map (fun e => (e, Rf e)) (seq a b)) = Ok (pre ++ map Rf (seq a b)).
Proof.
  induction b as [|b IH]; intros a pre Hp; cbn [seq map repeat apply_writes]; [reflexivity|].
  destruct (Nat.ltb_spec a (length (pre ++ [] :: repeat [] b))) as [_|H];
    [|rewrite app_length in H; cbn in H; lia].
  subst a. rewrite set_nth_app_len.
  replace (pre ++ Rf (length pre) :: repeat [] b) with ((pre ++ [Rf (length pre)]) ++ repeat [] b)
    by (rewrite <- app_assoc; reflexivity).
  rewrite IH by (rewrite app_length; cbn; lia).
  rewrite <- app_assoc. reflexivity.
Qed.

Section Rows.
  Variables (dim nc : nat) (cs : list chunk) (els : list (list nat)) (n2e : list (list nat)).
  Hypothesis Hdim : 1 <= dim.
  Hypothesis Hcover : cover cs 0 els.
  Hypothesis Hlen : length n2e = nc.
  Hypothesis Hn2e : forall v x, v < nc ->
    (In x (nth v n2e []) <-> x < length els /\ In v (nth x els [])).
  Hypothesis Hrange : Forall (Forall (fun v => v < nc)) els.

  (* the row of e1 by the definition *)
  Definition spec_row (e1 : nat) : list nat := filter (adjacent dim els e1) (seq 0 (length els)).

  Lemma row_of_spec e1 : e1 < length els -> row_of dim n2e cs e1 (nth e1 els []) = Ok (spec_row e1).
  Proof.
    intros He1. unfold row_of. set (nodes := nth e1 els []).
    assert (Hnodes : forall v, In v nodes -> v < nc).
    { rewrite Forall_forall in Hrange. specialize (Hrange nodes (nth_In _ _ He1)).
      rewrite Forall_forall in Hrange. exact Hrange. }
    rewrite (mapM_pure _ (fun v => nth v n2e [])).
    2:{ intros v Hv. rewrite (nth_opt_nth n2e v []) by (rewrite Hlen; auto). reflexivity. }
    cbn [bind]. set (cands := concat (map (fun v => nth v n2e []) nodes)).
    assert (Hc : forall e2, In e2 cands <-> exists v, In v nodes /\ e2 < length els /\ In v (nth e2 els [])).
    { intros e2. unfold cands. rewrite in_concat. split.
      - intros (l & Hl & Hin). apply in_map_iff in Hl as (v & <- & Hv).
        apply Hn2e in Hin; [|auto]. exists v. tauto.
      - intros (v & Hv & Hlt & Hin). exists (nth v n2e []). split.
        + apply in_map_iff. exists v. auto.
        + apply Hn2e; auto. }
    destruct (run_steps_spec
                (fun e2 => if e1 =? e2 then Ok false
                           else bind (element_to_nodes cs e2)
                                     (fun e2_nodes => Ok (threshold dim (count_common nodes e2_nodes))))
                (adjacent dim els e1) cands) with (steps := dual_row_steps) (l := cands)
                (f := false) (s := false) (st := false) as (l' & El & Sl & Ml).
    { intros e2 He2. apply Hc in He2 as (v & _ & Hlt & _). unfold adjacent.
      destruct (Nat.eqb_spec e1 e2) as [E|E]; [reflexivity|].
      rewrite (cover_e2n _ _ _ Hcover) by lia. rewrite Nat.sub_0_r. cbn [bind negb andb].
      rewrite threshold_le. reflexivity. }
    { intros x. split; [intros H; split; [exact H|discriminate]|tauto]. }
    { discriminate. }
    { discriminate. }
    { exact pipeline_ok. }
    rewrite El. f_equal. unfold spec_row.
    apply sorted_lt_unique.
    - exact Sl.
    - apply filter_sorted, seq_sorted.
    - intros x. rewrite Ml, !filter_In, in_seq. split.
      + intros [Hx Ha]. apply Hc in Hx as (v & _ & Hlt & _). split; [lia|exact Ha].
      + intros [Hx Ha]. split; [|exact Ha]. apply Hc.
        unfold adjacent in Ha. apply andb_true_iff in Ha as [_ Ha]. apply Nat.leb_le in Ha.
        destruct (count_common_pos nodes (nth x els [])) as (v & Hv1 & Hv2); [unfold shared in Ha; fold nodes in Ha; lia|].
        exists v. split; [exact Hv1|]. split; [lia|exact Hv2].
  Qed.

  (* the writes issued for the chunks: (e, row e) for the element numbers they cover *)
  Lemma chunk_writes_spec cs' s els' : cover cs' s els' ->
    (forall i, i < length els' -> nth i els' [] = nth (s + i) els []) ->
    s + length els' <= length els ->
    exists ws, mapM (chunk_writes dim n2e cs) cs' = Ok ws
               /\ concat ws = map (fun e => (e, spec_row e)) (seq s (length els')).
  Proof.
    induction 1 as [s|s npe nodes rest els'' Hn Hm Hc IH]; intros Hnth Hle.
    - exists []. split; reflexivity.
    - set (k := length nodes / npe) in *.
      assert (Lbe : length (block_elements npe nodes) = k) by apply block_elements_length.
      rewrite app_length, Lbe in Hle.
      destruct IH as (ws & E & Cw).
      { intros i Hi. specialize (Hnth (k + i)). rewrite app_length, Lbe in Hnth.
        rewrite app_nth2 in Hnth by lia. rewrite Lbe in Hnth.
        replace (k + i - k) with i in Hnth by lia. rewrite Hnth by lia. f_equal. lia. }
      { lia. }
      cbn [mapM]. unfold chunk_writes at 1. cbn [c_npe c_nodes c_start].
      rewrite chunks_exact_spec by exact Hn. cbn [bind]. fold k.
      rewrite (mapM_pure _ (fun p : list nat * nat => (snd p, spec_row (snd p)))).
      2:{ intros p Hp. destruct (In_nth _ _ ([], 0) Hp) as (i & Hi & Ep).
          rewrite combine_length, Lbe, seq_length, Nat.min_id in Hi.
          rewrite combine_nth in Ep by (rewrite Lbe, seq_length; reflexivity).
          rewrite seq_nth in Ep by exact Hi. subst p. cbn [fst snd].
          specialize (Hnth i). rewrite app_length, Lbe in Hnth.
          rewrite app_nth1 in Hnth by lia. rewrite Hnth by lia.
          rewrite row_of_spec by lia. reflexivity. }
      cbn [bind]. rewrite E. cbn [bind]. eexists. split; [reflexivity|].
      cbn [concat]. rewrite Cw, app_length, Lbe, seq_app, map_app. f_equal.
      rewrite <- (map_map snd (fun e => (e, spec_row e))).
      rewrite map_snd_combine by (rewrite Lbe, seq_length; reflexivity). reflexivity.
  Qed.

  Lemma all_writes_spec :
    all_writes dim n2e cs = Ok (map (fun e => (e, spec_row e)) (seq 0 (length els))).
  Proof.
    unfold all_writes.
    destruct (chunk_writes_spec cs 0 els Hcover) as (ws & E & C); [reflexivity|lia|].
    rewrite E. cbn [bind]. rewrite C. reflexivity.
  Qed.
End Rows.

Lemma spec_rows_eq dim els : spec_rows dim els = map (spec_row dim els) (seq 0 (length els)).
Proof. reflexivity. Qed.

(* the raw-pointer writes commute: any order of the same writes gives the same vector *)
Lemma apply_writes_perm ws ws' : Permutation ws ws' -> NoDup (map fst ws) ->
  forall locks, apply_writes locks ws = apply_writes locks ws'.
Proof.
  induction 1 as [|[a ra] l l' HP IH|[a ra] [b rb] l|l l' l'' HP1 IH1 HP2 IH2]; intros Hnd locks.
  - reflexivity.
  - cbn [apply_writes]. cbn [map fst] in Hnd. inversion Hnd; subst.
    destruct (a <? length locks); [apply IH; assumption|reflexivity].
  - cbn [apply_writes]. cbn [map fst] in Hnd.
    assert (Hab : a <> b).
    { inversion Hnd as [|? ? Hnotin _]; subst. intros ->. apply Hnotin. left; reflexivity. }
    rewrite !set_nth_length.
    destruct (a <? length locks), (b <? length locks); try reflexivity.
    rewrite (set_nth_comm locks a b) by exact Hab. reflexivity.
  - rewrite IH1 by exact Hnd. apply IH2.
    apply (Permutation_NoDup (Permutation_map fst HP1)). exact Hnd.
Qed.

(* ---------- CSR assembly ---------- *)
Lemma split_rows_prefix rows : forall acc,
  split_rows acc (prefix_sums acc (map (@length nat) rows)) (concat rows) = Some rows.
Proof.
  induction rows as [|r t IH]; intros acc; [reflexivity|].
  cbn [map prefix_sums concat split_rows].
  destruct (Nat.ltb_spec (acc + length r) acc) as [H|_]; [lia|].
  replace (acc + length r - acc) with (length r) by lia.
  destruct (Nat.ltb_spec (length (r ++ concat t)) (length r)) as [H|_]; [rewrite app_length in H; lia|].
  rewrite skipn_app, Nat.sub_diag, skipn_all. cbn [skipn app].
  rewrite IH. rewrite firstn_app, Nat.sub_diag, firstn_all. cbn [firstn]. rewrite app_nil_r. reflexivity.
Qed.

Lemma prefix_sums_length acc l : length (prefix_sums acc l) = length l.
Proof. revert acc; induction l as [|x t IH]; intros acc; cbn; [reflexivity|rewrite IH; reflexivity]. Qed.

(* the rows view agrees with the usual row accessor *)
Lemma split_rows_row ptrs : forall prev idx rows pre,
  split_rows prev ptrs idx = Some rows -> length pre = prev ->
  length rows = length ptrs /\
  forall i, i < length rows ->
    nth i rows [] = firstn (nth (S i) (prev :: ptrs) 0 - nth i (prev :: ptrs) 0)
                           (skipn (nth i (prev :: ptrs) 0) (pre ++ idx)).
Proof.
  induction ptrs as [|p t IH]; intros prev idx rows pre E Hp.
  - cbn [split_rows] in E. destruct idx; [|discriminate]. injection E as <-. split; [reflexivity|].
    intros i Hi. cbn in Hi. lia.
  - cbn [split_rows] in E.
    destruct (Nat.ltb_spec p prev) as [|Hge]; [discriminate|].
    destruct (Nat.ltb_spec (length idx) (p - prev)) as [|Hle]; [discriminate|].
    destruct (split_rows p t (skipn (p - prev) idx)) as [r|] eqn:Er; [|discriminate].
    injection E as <-.
    destruct (IH p (skipn (p - prev) idx) r (pre ++ firstn (p - prev) idx) Er) as (L & Hrow).
    { rewrite app_length, firstn_length_le by exact Hle. lia. }
    split; [cbn [length]; rewrite L; reflexivity|].
    intros [|i] Hi.
    + cbn [nth]. rewrite skipn_app, Hp, Nat.sub_diag. rewrite skipn_all2 by lia. reflexivity.
    + cbn [length] in Hi. rewrite <- app_assoc, firstn_skipn in Hrow.
      change (nth (S i) (firstn (p - prev) idx :: r) []) with (nth i r []).
      rewrite Hrow by lia. reflexivity.
Qed.

Lemma csr_rows_row g rows :
  csr_rows (g_indptr g) (g_indices g) = Some rows ->
  S (length rows) = length (g_indptr g) /\ forall i, i < length rows -> csr_row g i = nth i rows [].
Proof.
  unfold csr_rows, csr_row. destruct (g_indptr g) as [|[|z] t]; try discriminate.
  intros E. destruct (split_rows_row t 0 (g_indices g) rows [] E eq_refl) as (L & H).
  split; [cbn [length]; rewrite L; reflexivity|].
  intros i Hi. rewrite (H i Hi). reflexivity.
Qed.

Lemma strictly_increasing_sorted l : StronglySorted lt l -> strictly_increasing l = true.
Proof.
  induction l as [|x t IH]; intros Hs; [reflexivity|].
  apply StronglySorted_inv in Hs as [St Fx]. cbn [strictly_increasing].
  destruct t as [|y t']; [reflexivity|].
  inversion Fx; subst. apply andb_true_iff. split; [apply Nat.ltb_lt; assumption|apply IH; exact St].
Qed.

Lemma run_copies_concat rows : forall acc pre,
  length pre = acc ->
  run_copies (pre ++ repeat 0 (length (concat rows)))
             (copy_tasks acc (prefix_sums acc (map (@length nat) rows)) rows)
  = Ok (pre ++ concat rows).
Proof.
  induction rows as [|r t IH]; intros acc pre Hp.
  - cbn. reflexivity.
  - cbn [map prefix_sums concat copy_tasks run_copies]. unfold copy_row.
    rewrite !app_length, repeat_length.
    destruct (Nat.ltb_spec (acc + length r) acc) as [H|_]; [lia|].
    destruct (Nat.ltb_spec (length pre + (length r + length (concat t))) (acc + length r)) as [H|_]; [lia|].
    cbn [orb bind].
    replace (acc + length r - acc) with (length r) by lia.
    rewrite firstn_all.
    rewrite firstn_app, <- Hp, Nat.sub_diag, firstn_all. cbn [firstn]. rewrite app_nil_r.
    rewrite skipn_app. rewrite skipn_all2 by lia. cbn [app].
    replace (length pre + length r - length pre) with (length r) by lia.
    rewrite (repeat_app 0 (length r) (length (concat t))).
    rewrite skipn_app, repeat_length, Nat.sub_diag. rewrite skipn_all2 by (rewrite repeat_length; lia).
    cbn [skipn app].
    specialize (IH (length pre + length r) (pre ++ r)).
    rewrite app_length in IH. specialize (IH eq_refl).
    rewrite <- !app_assoc in IH. subst acc. exact IH.
Qed.

(* --- the copies may be performed in any order: pointwise description of the result --- *)
Definition t_in (t : copy_task) (k : nat) : Prop := fst (fst t) <= k < snd (fst t).
Definition t_val (t : copy_task) (k : nat) : nat := nth (k - fst (fst t)) (snd t) 0.
Definition t_ok (total : nat) (t : copy_task) : Prop :=
  fst (fst t) <= snd (fst t) <= total /\ snd (fst t) - fst (fst t) = length (snd t).
Definition t_disjoint (ts : list copy_task) : Prop :=
  forall t1 t2, In t1 ts -> In t2 ts -> forall k, t_in t1 k -> t_in t2 k -> t1 = t2.

Lemma t_in_dec t k : {t_in t k} + {~ t_in t k}.
Proof.
  unfold t_in. destruct (le_dec (fst (fst t)) k); destruct (lt_dec k (snd (fst t))); [left|right|right|right]; lia.
Qed.

Lemma nth_firstn {A} (l : list A) : forall n k d, k < n -> nth k (firstn n l) d = nth k l d.
Proof.
  induction l as [|x t IH]; intros [|n] [|k] d H; cbn; try lia; try reflexivity.
  apply IH. lia.
Qed.

Lemma nth_skipn {A} (l : list A) : forall n k d, nth k (skipn n l) d = nth (n + k) l d.
Proof.
  induction l as [|x t IH]; intros [|n] k d; cbn [skipn Nat.add]; try reflexivity.
  - destruct k; reflexivity.
  - cbn [nth]. apply IH.
Qed.

Lemma copy_row_spec I a b r : a <= b <= length I -> b - a = length r ->
  exists I', copy_row I a b r = Ok I' /\ length I' = length I /\
    forall k, nth k I' 0 = if (a <=? k) && (k <? b) then nth (k - a) r 0 else nth k I 0.
Proof.
  intros Hab Hr. unfold copy_row.
  destruct (Nat.ltb_spec b a) as [H|_]; [lia|].
  destruct (Nat.ltb_spec (length I) b) as [H|_]; [lia|]. cbn [orb].
  eexists. split; [reflexivity|]. rewrite (firstn_all2 r) by lia.
  assert (La : length (firstn a I) = a) by (apply firstn_length_le; lia).
  split.
  - rewrite !app_length, La, skipn_length. lia.
  - intros k. destruct (Nat.leb_spec a k) as [Hak|Hak]; cbn [andb].
    + rewrite app_nth2 by lia. rewrite La.
      destruct (Nat.ltb_spec k b) as [Hkb|Hkb].
      * rewrite app_nth1 by lia. reflexivity.
      * rewrite app_nth2 by lia. rewrite nth_skipn. f_equal. lia.
    + rewrite app_nth1 by lia. apply nth_firstn. exact Hak.
Qed.

Lemma run_copies_spec ts : forall I,
  Forall (t_ok (length I)) ts -> t_disjoint ts ->
  exists I', run_copies I ts = Ok I' /\ length I' = length I /\
    forall k, (forall t, In t ts -> t_in t k -> nth k I' 0 = t_val t k)
              /\ ((forall t, In t ts -> ~ t_in t k) -> nth k I' 0 = nth k I 0).
Proof.
  induction ts as [|[[a b] r] ts IH]; intros I Hok Hdis.
  - exists I. split; [reflexivity|]. split; [reflexivity|]. intros k. split; [intros t []|reflexivity].
  - inversion Hok as [|? ? H0 Hrest]; subst. destruct H0 as [Hab Hr]. cbn [fst snd] in Hab, Hr.
    destruct (copy_row_spec I a b r Hab Hr) as (I1 & E1 & L1 & N1).
    cbn [run_copies]. rewrite E1. cbn [bind].
    destruct (IH I1) as (I' & E' & L' & N').
    { rewrite L1. exact Hrest. }
    { intros t1 t2 H1 H2. apply Hdis; right; assumption. }
    exists I'. split; [exact E'|]. split; [lia|]. intros k. destruct (N' k) as [Nin Nout].
    assert (Hhead : t_in (a, b, r) k -> nth k I1 0 = t_val (a, b, r) k).
    { unfold t_in, t_val. cbn [fst snd]. intros [H1 H2]. rewrite N1.
      destruct (Nat.leb_spec a k); [|lia]. destruct (Nat.ltb_spec k b); [|lia]. reflexivity. }
    assert (Hnothead : ~ t_in (a, b, r) k -> nth k I1 0 = nth k I 0).
    { unfold t_in. cbn [fst snd]. intros Hn. rewrite N1.
      destruct (Nat.leb_spec a k); destruct (Nat.ltb_spec k b); cbn [andb]; try reflexivity. lia. }
    destruct (Exists_dec (fun t => t_in t k) ts (fun t => t_in_dec t k)) as [Hex|Hnex].
    + apply Exists_exists in Hex as (t0 & Ht0 & Hin0). split.
      * intros t [<-|Ht] Hin; [|apply Nin; assumption].
        rewrite (Hdis (a, b, r) t0 (or_introl eq_refl) (or_intror Ht0) k Hin Hin0). apply Nin; assumption.
      * intros Hnone. exfalso. apply (Hnone t0 (or_intror Ht0) Hin0).
    + assert (Hnone : forall t, In t ts -> ~ t_in t k).
      { intros t Ht Hin. apply Hnex. apply Exists_exists. eauto. }
      rewrite (Nout Hnone). split.
      * intros t [<-|Ht] Hin; [apply Hhead; exact Hin|exfalso; apply (Hnone t Ht Hin)].
      * intros Hn. apply Hnothead. apply Hn. left; reflexivity.
Qed.

Lemma run_copies_perm ts ts' I : Permutation ts ts' ->
  Forall (t_ok (length I)) ts -> t_disjoint ts -> run_copies I ts' = run_copies I ts.
Proof.
  intros HP Hok Hdis.
  assert (Hok' : Forall (t_ok (length I)) ts').
  { rewrite Forall_forall in *. intros t Ht. apply Hok. apply (Permutation_in _ (Permutation_sym HP) Ht). }
  assert (Hdis' : t_disjoint ts').
  { intros t1 t2 H1 H2. apply Hdis; apply (Permutation_in _ (Permutation_sym HP)); assumption. }
  destruct (run_copies_spec ts I Hok Hdis) as (I1 & E1 & L1 & N1).
  destruct (run_copies_spec ts' I Hok' Hdis') as (I2 & E2 & L2 & N2).
  rewrite E1, E2. f_equal. apply (nth_ext _ _ 0 0); [lia|]. intros k _.
  destruct (N1 k) as [A1 B1]. destruct (N2 k) as [A2 B2].
  destruct (Exists_dec (fun t => t_in t k) ts (fun t => t_in_dec t k)) as [Hex|Hnex].
  - apply Exists_exists in Hex as (t0 & Ht0 & Hin0).
    rewrite (A1 t0 Ht0 Hin0). apply A2; [apply (Permutation_in _ HP Ht0)|exact Hin0].
  - assert (Hnone : forall t, In t ts -> ~ t_in t k).
    { intros t Ht Hin. apply Hnex. apply Exists_exists. eauto. }
    rewrite (B1 Hnone). apply B2. intros t Ht. apply Hnone. apply (Permutation_in _ (Permutation_sym HP) Ht).
Qed.

(* the tasks built from the prefix sums are in bounds and pairwise disjoint *)
Lemma copy_tasks_ok rows : forall acc total,
  acc + length (concat rows) <= total ->
  let ts := copy_tasks acc (prefix_sums acc (map (@length nat) rows)) rows in
  Forall (t_ok total) ts /\ (forall t, In t ts -> acc <= fst (fst t)) /\ t_disjoint ts.
Proof.
  induction rows as [|r rs IH]; intros acc total Hle.
  - cbn. split; [constructor|]. split; [intros t []|intros t1 t2 []].
  - cbn [map prefix_sums copy_tasks concat] in *. rewrite app_length in Hle.
    destruct (IH (acc + length r) total ltac:(lia)) as (Hok & Hlow & Hdis).
    split; [|split].
    + constructor; [|exact Hok]. unfold t_ok. cbn [fst snd]. lia.
    + intros t [<-|Ht]; [cbn; lia|]. specialize (Hlow t Ht). lia.
    + intros t1 t2 [<-|H1] [<-|H2] k K1 K2; try reflexivity.
      * exfalso. specialize (Hlow t2 H2). unfold t_in in *. cbn [fst snd] in *. lia.
      * exfalso. specialize (Hlow t1 H1). unfold t_in in *. cbn [fst snd] in *. lia.
      * apply (Hdis t1 t2 H1 H2 k K1 K2).
Qed.

Lemma last_prefix_sums l : forall acc, last (acc :: prefix_sums acc l) 0 = acc + fold_right Nat.add 0 l.
Proof.
  induction l as [|x t IH]; intros acc; [cbn; lia|].
  cbn [prefix_sums fold_right]. change (last (acc :: ?a :: ?r) 0) with (last (a :: r) 0).
  rewrite IH. lia.
Qed.

Lemma length_concat (rows : list (list nat)) :
  length (concat rows) = fold_right Nat.add 0 (map (@length nat) rows).
Proof. induction rows as [|r t IH]; [reflexivity|]. cbn [concat map fold_right]. rewrite app_length, IH. reflexivity. Qed.

Lemma assemble_sched_spec sched rows :
  (forall ts, Permutation ts (sched ts)) ->
  (forall r, In r rows -> StronglySorted lt r /\ forall x, In x r -> x < length rows) ->
  assemble_sched sched rows
  = Ok (mkCsr (length rows) (length rows) (0 :: prefix_sums 0 (map (@length nat) rows))
              (concat rows) (repeat ONE_BITS (length (concat rows)))).
Proof.
  intros Hsched Hr.
  assert (Hsz : length (0 :: prefix_sums 0 (map (@length nat) rows)) - 1 = length rows)
    by (cbn [length]; rewrite prefix_sums_length, map_length; lia).
  unfold assemble_sched. rewrite Hsz.
  rewrite last_prefix_sums, Nat.add_0_l, <- length_concat.
  set (ts := copy_tasks 0 (prefix_sums 0 (map (@length nat) rows)) rows).
  destruct (copy_tasks_ok rows 0 (length (concat rows)) ltac:(lia)) as (Hok & _ & Hdis). fold ts in Hok, Hdis.
  rewrite (run_copies_perm ts (sched ts) _ (Hsched ts)) by (rewrite ?repeat_length; assumption).
  pose proof (run_copies_concat rows 0 [] eq_refl) as Hcp. cbn [app] in Hcp. fold ts in Hcp.
  rewrite Hcp. cbn [bind].
  assert (V : csmat_valid (length rows) (0 :: prefix_sums 0 (map (@length nat) rows)) (concat rows)
                          (repeat ONE_BITS (length (concat rows))) = true).
  { unfold csmat_valid. rewrite repeat_length, Nat.eqb_refl. cbn [length].
    rewrite prefix_sums_length, map_length, Nat.eqb_refl. cbn [andb csr_rows].
    rewrite split_rows_prefix. apply forallb_forall. intros r Hin. destruct (Hr r Hin) as [Hs Hx].
    apply andb_true_iff. split; [apply strictly_increasing_sorted; exact Hs|].
    apply forallb_forall. intros x Hxin. apply Nat.ltb_lt. auto. }
  rewrite V. reflexivity.
Qed.

Lemma spec_rows_length dim els : length (spec_rows dim els) = length els.
Proof. unfold spec_rows. rewrite map_length, seq_length. reflexivity. Qed.

Lemma spec_rows_nth dim els e1 : e1 < length els ->
  nth e1 (spec_rows dim els) [] = spec_row dim els e1.
Proof.
  intros H. unfold spec_rows. rewrite (nth_map' _ _ _ _ 0) by (rewrite seq_length; exact H).
  rewrite seq_nth by exact H. reflexivity.
Qed.

Lemma spec_rows_wf dim els r : In r (spec_rows dim els) ->
  StronglySorted lt r /\ forall x, In x r -> x < length (spec_rows dim els).
Proof.
  intros Hin. unfold spec_rows in Hin. apply in_map_iff in Hin as (e1 & <- & _). split.
  - apply filter_sorted, seq_sorted.
  - intros x Hx. apply filter_In in Hx as [Hx _]. apply in_seq in Hx. rewrite spec_rows_length. lia.
Qed.

(* ---------- node ids of the kept elements are in range ---------- *)
Lemma In_firstn {A} n (l : list A) x : In x (firstn n l) -> In x l.
Proof. intros H. rewrite <- (firstn_skipn n l). apply in_or_app. left; exact H. Qed.
Lemma In_skipn {A} n (l : list A) x : In x (skipn n l) -> In x l.
Proof. intros H. rewrite <- (firstn_skipn n l). apply in_or_app. right; exact H. Qed.

Lemma block_elements_In npe nodes e x : In e (block_elements npe nodes) -> In x e -> In x nodes.
Proof.
  unfold block_elements. intros He Hx. apply in_map_iff in He as (i & <- & _).
  apply In_firstn, In_skipn in Hx. exact Hx.
Qed.

Lemma spec_elements_range nc dim topo : nodes_in_range nc topo = true ->
  Forall (Forall (fun v => v < nc)) (spec_elements dim topo).
Proof.
  unfold nodes_in_range. intros Hr. rewrite forallb_forall in Hr.
  apply Forall_forall. intros e He. apply Forall_forall. intros x Hx.
  unfold spec_elements in He. apply in_flat_map in He as (b & Hb & He).
  destruct (et_dimension (fst b) =? dim); [|destruct He].
  specialize (Hr b Hb). rewrite forallb_forall in Hr. apply Nat.ltb_lt. apply Hr.
  eapply block_elements_In; eassumption.
Qed.

(* ---------- the rows computed by the model are the definition ---------- *)
Theorem dual_rows_sched_spec sched m dim :
  (forall ws, Permutation ws (sched ws)) ->
  1 <= dim -> dim <> 1 ->
  blocks_ok (m_topology m) = true -> nodes_in_range (m_node_count m) (m_topology m) = true ->
  dual_rows_sched sched dim m = Ok (spec_rows dim (spec_elements dim (m_topology m))).
Proof.
  intros Hsched Hd1 Hd2 Hb Hr. unfold dual_rows_sched.
  destruct (topology_chunks_cover dim (m_topology m) Hb 0) as (cs & Ecs & Hc).
  rewrite Ecs. cbn [bind]. rewrite dual_elements_spec. cbn [bind].
  rewrite kept_is_spec in * by exact Hd2.
  set (els := spec_elements dim (m_topology m)) in *.
  pose proof (spec_elements_range (m_node_count m) dim (m_topology m) Hr) as Hrange. fold els in Hrange.
  destruct (node_to_elements_spec (m_node_count m) els Hrange) as (n2e & En & Ln & Hn).
  rewrite En. cbn [bind].
  rewrite (all_writes_spec dim (m_node_count m) cs els n2e Hd1 Hc Ln Hn Hrange). cbn [bind].
  rewrite (cover_count _ _ _ Hc).
  set (ws := map (fun e => (e, spec_row dim els e)) (seq 0 (length els))).
  rewrite <- (apply_writes_perm ws (sched ws) (Hsched ws)).
  2:{ unfold ws. rewrite map_map. cbn [fst]. rewrite map_id. apply seq_NoDup. }
  unfold ws. exact (apply_writes_seq (spec_row dim els) (length els) 0 [] eq_refl).
Qed.

(* ---------- the usage contract, unpacked ---------- *)
Lemma nodupb_NoDup l : nodupb l = true <-> NoDup l.
Proof.
  induction l as [|x t IH]; cbn [nodupb]; [split; [constructor|reflexivity]|].
  rewrite andb_true_iff, negb_true_iff, IH. split.
  - intros [Hx Ht]. constructor; [|exact Ht]. intros Hin.
    assert (existsb (Nat.eqb x) t = true) by (apply existsb_exists; exists x; split; [exact Hin|apply Nat.eqb_refl]).
    congruence.
  - intros Hnd. inversion Hnd as [|? ? Hx Ht]; subst. split; [|exact Ht].
    destruct (existsb (Nat.eqb x) t) eqn:E; [|reflexivity].
    apply existsb_exists in E as (y & Hy & Ey). apply Nat.eqb_eq in Ey. subst y. contradiction.
Qed.

Record contract (m : mesh) (dim : nat) : Prop := {
  ct_dim : max_dimension (m_topology m) = Some dim;
  ct_23 : dim = 2 \/ dim = 3;
  ct_blocks : blocks_ok (m_topology m) = true;
  ct_range : nodes_in_range (m_node_count m) (m_topology m) = true;
  ct_nodup : Forall (@NoDup nat) (spec_elements dim (m_topology m))
}.

Lemma wf_mesh_contract m : wf_mesh m = true <-> exists dim, contract m dim.
Proof.
  unfold wf_mesh. split.
  - destruct (max_dimension (m_topology m)) as [dim|] eqn:E; [|discriminate].
    intros H. apply andb_true_iff in H as [H H4]. apply andb_true_iff in H as [H H3].
    apply andb_true_iff in H as [H1 H2]. exists dim. constructor; auto.
    + apply orb_true_iff in H1 as [H1|H1]; apply Nat.eqb_eq in H1; auto.
    + apply Forall_forall. intros e He. apply nodupb_NoDup. rewrite forallb_forall in H4. auto.
  - intros (dim & [E H23 Hb Hr Hn]). rewrite E, Hb, Hr.
    assert (forallb nodupb (spec_elements dim (m_topology m)) = true) as ->.
    { apply forallb_forall. intros e He. apply nodupb_NoDup. rewrite Forall_forall in Hn. auto. }
    destruct H23 as [->| ->]; reflexivity.
Qed.

(* ---------- the matrix ---------- *)
Definition spec_csr (dim : nat) (els : list (list nat)) : csr :=
  let rows := spec_rows dim els in
  mkCsr (length els) (length els) (0 :: prefix_sums 0 (map (@length nat) rows))
        (concat rows) (repeat ONE_BITS (length (concat rows))).

Theorem dual_sched_eq sched sched2 m dim :
  (forall ws, Permutation ws (sched ws)) -> (forall ts, Permutation ts (sched2 ts)) -> contract m dim ->
  dual_sched sched sched2 m = Ok (spec_csr dim (spec_elements dim (m_topology m))).
Proof.
  intros Hs Hs2 [E H23 Hb Hr _]. unfold dual_sched. rewrite E.
  rewrite (dual_rows_sched_spec sched m dim Hs) by (auto; lia). cbn [bind].
  rewrite (assemble_sched_spec sched2 _ Hs2) by apply spec_rows_wf.
  unfold spec_csr. rewrite spec_rows_length. reflexivity.
Qed.

Lemma perm_id {A} (ws : list A) : Permutation ws ((fun x => x) ws).
Proof. apply Permutation_refl. Qed.

Theorem dual_eq m dim : contract m dim ->
  dual m = Ok (spec_csr dim (spec_elements dim (m_topology m))).
Proof. apply (dual_sched_eq (fun ws => ws) (fun ts => ts)); intros; apply Permutation_refl. Qed.

(* whatever order rayon performs the row writes in, the matrix is the same *)
Theorem dual_sched_indep sched sched2 m :
  (forall ws, Permutation ws (sched ws)) -> (forall ts, Permutation ts (sched2 ts)) ->
  wf_mesh m = true -> dual_sched sched sched2 m = dual m.
Proof.
  intros Hs Hs2 Hwf. apply wf_mesh_contract in Hwf as (dim & Hc).
  rewrite (dual_sched_eq sched sched2 m dim Hs Hs2 Hc), (dual_eq m dim Hc). reflexivity.
Qed.

(* no panic, no fuel exhaustion inside the contract *)
Theorem dual_total m : wf_mesh m = true -> exists g, dual m = Ok g.
Proof. intros Hwf. apply wf_mesh_contract in Hwf as (dim & Hc). eexists. apply (dual_eq m dim Hc). Qed.

(* ---------- shared-node counts ---------- *)
Lemma common_In a b x : In x (filter (fun x => existsb (Nat.eqb x) b) a) <-> In x a /\ In x b.
Proof.
  rewrite filter_In, existsb_exists. split.
  - intros [Ha (y & Hy & E)]. apply Nat.eqb_eq in E. subst y. auto.
  - intros [Ha Hb]. split; [exact Ha|]. exists x. split; [exact Hb|apply Nat.eqb_refl].
Qed.

Lemma shared_sym a b : NoDup a -> NoDup b -> shared a b = shared b a.
Proof.
  intros Ha Hb. unfold shared, count_common. apply Permutation_length.
  apply NoDup_Permutation; [apply NoDup_filter; exact Ha|apply NoDup_filter; exact Hb|].
  intros x. rewrite !common_In. tauto.
Qed.

Lemma spec_row_In dim els e1 e2 :
  In e2 (spec_row dim els e1) <->
  e2 < length els /\ e1 <> e2 /\ dim <= shared (nth e1 els []) (nth e2 els []).
Proof.
  unfold spec_row, adjacent. rewrite filter_In, in_seq, andb_true_iff, negb_true_iff, Nat.eqb_neq, Nat.leb_le.
  intuition lia.
Qed.

(* ---------- the property holds of the specification matrix ---------- *)
Lemma spec_csr_rows dim els :
  csr_rows (g_indptr (spec_csr dim els)) (g_indices (spec_csr dim els)) = Some (spec_rows dim els).
Proof. unfold spec_csr. cbn [g_indptr g_indices csr_rows]. apply split_rows_prefix. Qed.

Lemma spec_csr_row dim els e1 : e1 < length els ->
  csr_row (spec_csr dim els) e1 = spec_row dim els e1.
Proof.
  intros H. destruct (csr_rows_row _ _ (spec_csr_rows dim els)) as [_ Hrow].
  rewrite Hrow by (rewrite spec_rows_length; exact H). apply spec_rows_nth. exact H.
Qed.

Lemma Forall_repeat {A} (P : A -> Prop) x n : P x -> Forall P (repeat x n).
Proof. intros H. induction n; cbn; constructor; auto. Qed.

Lemma spec_csr_holds dim els : C18_holds dim els (spec_csr dim els) (length els) (length els).
Proof.
  unfold C18_holds.
  assert (L : length (g_indptr (spec_csr dim els)) = S (length els)).
  { cbn [g_indptr spec_csr length]. rewrite prefix_sums_length, map_length, spec_rows_length. reflexivity. }
  split; [reflexivity|]. split; [reflexivity|]. split; [exact L|]. split.
  - exists (spec_rows dim els). split; [apply spec_csr_rows|]. split; [apply spec_rows_length|].
    split; [|split].
    + intros e1 H. rewrite spec_csr_row, spec_rows_nth by exact H. reflexivity.
    + intros e1 H. rewrite spec_rows_nth by exact H. apply filter_sorted, seq_sorted.
    + intros e1 e2 H. rewrite spec_rows_nth by exact H. apply spec_row_In.
  - split; [cbn [g_data g_indices spec_csr]; apply repeat_length|].
    split; [apply Forall_repeat; reflexivity|]. split; reflexivity.
Qed.

(* ---------- the theorems of the property ---------- *)
Section Property.
  Variables (m : mesh) (dim : nat) (g : csr).
  Hypothesis Hc : contract m dim.
  Hypothesis Hg : dual m = Ok g.
  Let els := spec_elements dim (m_topology m).

  Lemma g_is_spec : g = spec_csr dim els.
  Proof. rewrite (dual_eq m dim Hc) in Hg. injection Hg as <-. reflexivity. Qed.

  Theorem dual_spec e1 e2 : e1 < length els ->
    (In e2 (csr_row g e1) <->
     e2 < length els /\ e1 <> e2 /\ dim <= shared (nth e1 els []) (nth e2 els [])).
  Proof. intros H. rewrite g_is_spec, spec_csr_row by exact H. apply spec_row_In. Qed.

  Theorem dual_symmetric e1 e2 : e1 < length els -> e2 < length els ->
    (In e2 (csr_row g e1) <-> In e1 (csr_row g e2)).
  Proof.
    intros H1 H2. rewrite (dual_spec e1 e2 H1), (dual_spec e2 e1 H2).
    assert (Hn : forall e, e < length els -> NoDup (nth e els [])).
    { intros e He. pose proof (ct_nodup m dim Hc) as F. rewrite Forall_forall in F. apply F.
      apply nth_In. exact He. }
    rewrite (shared_sym (nth e1 els []) (nth e2 els [])) by auto. intuition.
  Qed.

  Theorem dual_irreflexive e : e < length els -> ~ In e (csr_row g e).
  Proof. intros H Hin. apply (dual_spec e e H) in Hin. destruct Hin as (_ & Hne & _). apply Hne. reflexivity. Qed.

  Theorem dual_rows_sorted_nodup e : e < length els ->
    StronglySorted lt (csr_row g e) /\ NoDup (csr_row g e).
  Proof.
    intros H. rewrite g_is_spec, spec_csr_row by exact H. split.
    - apply filter_sorted, seq_sorted.
    - apply NoDup_filter, seq_NoDup.
  Qed.

  (* one vertex per element of the highest dimension *)
  Theorem dual_vertex_count :
    g_rows g = length els /\ g_cols g = length els /\ length (g_indptr g) = S (length els).
  Proof.
    rewrite g_is_spec. cbn [g_rows g_cols g_indptr spec_csr length].
    rewrite prefix_sums_length, map_length, spec_rows_length. auto.
  Qed.

  Theorem dual_data_ones :
    length (g_data g) = length (g_indices g) /\ Forall (eq ONE_BITS) (g_data g).
  Proof.
    rewrite g_is_spec. cbn [g_data g_indices spec_csr]. rewrite repeat_length. split; [reflexivity|].
    apply Forall_repeat. reflexivity.
  Qed.
End Property.

(* number of elements of dimension dim = what the block sizes say *)
Lemma spec_elements_length dim topo :
  length (spec_elements dim topo)
  = fold_right Nat.add 0 (map (fun b : block => if et_dimension (fst b) =? dim
                                                then length (snd b) / et_node_count (fst b) else 0) topo).
Proof.
  induction topo as [|b t IH]; [reflexivity|].
  unfold spec_elements in *. cbn [flat_map map fold_right]. rewrite app_length, IH. f_equal.
  destruct (et_dimension (fst b) =? dim); [apply block_elements_length|reflexivity].
Qed.

(* ---------- the counts ---------- *)
Theorem barycentre_count_eq m dim : contract m dim ->
  barycentre_count m = Ok (length (spec_elements dim (m_topology m))).
Proof.
  intros [E H23 Hb Hr _]. unfold barycentre_count. rewrite E, mesh_elements_spec. cbn [bind].
  rewrite (filterM_pure _ (fun e : etype * list nat => negb (ignored barycentres_drops_edges dim (fst e)))).
  - cbn [bind]. rewrite <- (kept_is_spec barycentres_drops_edges) by lia.
    rewrite <- kept_filter, map_length. reflexivity.
  - intros [t nodes] Hin. cbn [fst snd]. destruct (ignored barycentres_drops_edges dim t); [reflexivity|].
    cbn [negb]. assert (forallb (fun v => v <? m_node_count m) nodes = true) as ->; [|reflexivity].
    apply in_flat_map in Hin as (b & Hb' & Hin). unfold tagged in Hin.
    apply in_map_iff in Hin as (c & Ec & Hc). injection Ec as _ ->.
    unfold nodes_in_range in Hr. rewrite forallb_forall in Hr. specialize (Hr b Hb').
    rewrite forallb_forall in Hr. apply forallb_forall. intros x Hx. apply Hr.
    eapply block_elements_In; eassumption.
Qed.

Theorem used_element_count_eq m dim : contract m dim ->
  used_element_count m = Ok (length (spec_elements dim (m_topology m))).
Proof.
  intros [E H23 Hb Hr _]. unfold used_element_count. rewrite E.
  rewrite (mapM_pure _ (fun b : block => if et_dimension (fst b) =? dim
                                         then length (snd b) / et_node_count (fst b) else 0)).
  - cbn [bind]. rewrite spec_elements_length. reflexivity.
  - intros b _. rewrite ignored_eq by lia.
    destruct (et_dimension (fst b) =? dim); cbn [negb]; [|reflexivity].
    destruct (Nat.eqb_spec (et_node_count (fst b)) 0) as [Z|_]; [|reflexivity].
    pose proof (node_count_pos (fst b)). lia.
Qed.

(* number of cell centres = number of graph vertices = used_element_count *)
Theorem counts_agree m g : wf_mesh m = true -> dual m = Ok g ->
  barycentre_count m = Ok (g_rows g) /\ used_element_count m = Ok (g_rows g).
Proof.
  intros Hwf Hg. apply wf_mesh_contract in Hwf as (dim & Hc).
  destruct (dual_vertex_count m dim g Hc Hg) as (-> & _ & _).
  split; [apply barycentre_count_eq|apply used_element_count_eq]; exact Hc.
Qed.

(* ---------- element_to_nodes ---------- *)
Theorem element_to_nodes_no_underflow dim topo cs : blocks_ok topo = true ->
  topology_chunks dim 0 topo = Ok cs ->
  forall e, element_to_nodes cs e <> Panic P_UNDERFLOW.
Proof.
  intros Hb E e. destruct (topology_chunks_cover dim topo Hb 0) as (cs' & E' & Hc).
  rewrite E in E'. injection E' as <-. apply (cover_no_underflow _ _ _ Hc). lia.
Qed.

Theorem element_to_nodes_total dim topo cs : blocks_ok topo = true ->
  topology_chunks dim 0 topo = Ok cs ->
  forall e, e < length (kept_elements dual_drops_edges dim topo) ->
    element_to_nodes cs e = Ok (nth e (kept_elements dual_drops_edges dim topo) []).
Proof.
  intros Hb E e He. destruct (topology_chunks_cover dim topo Hb 0) as (cs' & E' & Hc).
  rewrite E in E'. injection E' as <-. rewrite (cover_e2n _ _ _ Hc) by lia.
  rewrite Nat.sub_0_r. reflexivity.
Qed.

(* ---------- the checker decides the property ---------- *)
Lemma list_nat_eqb_eq a : forall b, list_nat_eqb a b = true <-> a = b.
Proof.
  induction a as [|x t IH]; intros [|y u]; cbn [list_nat_eqb]; try (split; [discriminate|discriminate]).
  - split; reflexivity.
  - rewrite andb_true_iff, Nat.eqb_eq, IH. split; [intros [-> ->]; reflexivity|intros E; injection E; auto].
Qed.

Lemma rows_eqb_eq a : forall b, rows_eqb a b = true <-> a = b.
Proof.
  induction a as [|x t IH]; intros [|y u]; cbn [rows_eqb]; try (split; [discriminate|discriminate]).
  - split; reflexivity.
  - rewrite andb_true_iff, list_nat_eqb_eq, IH. split; [intros [-> ->]; reflexivity|intros E; injection E; auto].
Qed.

Lemma forallb_ones d : forallb (N.eqb ONE_BITS) d = true <-> Forall (eq ONE_BITS) d.
Proof.
  rewrite forallb_forall, Forall_forall. split; intros H x Hx.
  - apply N.eqb_eq. auto.
  - apply N.eqb_eq. auto.
Qed.

Theorem check_C18_ok m g nb nu :
  check_C18 m g nb nu = true <->
  exists dim, max_dimension (m_topology m) = Some dim
              /\ C18_holds dim (spec_elements dim (m_topology m)) g nb nu.
Proof.
  unfold check_C18. split.
  - destruct (max_dimension (m_topology m)) as [dim|]; [|discriminate].
    set (els := spec_elements dim (m_topology m)). intros H.
    repeat (apply andb_true_iff in H as [H ?]).
    destruct (csr_rows (g_indptr g) (g_indices g)) as [rows|] eqn:Er; [|discriminate].
    repeat match goal with X : (_ =? _) = true |- _ => apply Nat.eqb_eq in X end.
    match goal with X : rows_eqb _ _ = true |- _ => apply rows_eqb_eq in X; subst rows end.
    match goal with X : forallb _ _ = true |- _ => apply forallb_ones in X end.
    exists dim. split; [reflexivity|]. unfold C18_holds. fold els.
    repeat (split; [assumption|]). split; [|auto].
    exists (spec_rows dim els). split; [exact Er|]. split; [apply spec_rows_length|].
    destruct (csr_rows_row g _ Er) as [_ Hrow]. rewrite spec_rows_length in Hrow.
    split; [exact Hrow|]. split.
    + intros e1 He. rewrite spec_rows_nth by exact He. apply filter_sorted, seq_sorted.
    + intros e1 e2 He. rewrite spec_rows_nth by exact He. apply spec_row_In.
  - intros (dim & E & Hh). rewrite E. set (els := spec_elements dim (m_topology m)) in *.
    destruct Hh as (H1 & H2 & H3 & (rows & Er & Lr & _ & Hs & Hin) & H5 & H6 & H7 & H8).
    rewrite Er.
    assert (rows = spec_rows dim els) as ->.
    { apply (nth_ext _ _ [] []); [rewrite spec_rows_length; exact Lr|].
      intros i Hi. rewrite Lr in Hi. rewrite spec_rows_nth by exact Hi.
      apply sorted_lt_unique; [apply Hs; exact Hi|apply filter_sorted, seq_sorted|].
      intros x. rewrite (Hin i x Hi), spec_row_In. reflexivity. }
    rewrite H1, H2, H3, H5, H7, H8, !Nat.eqb_refl.
    rewrite (proj2 (rows_eqb_eq _ _) eq_refl), (proj2 (forallb_ones _) H6). reflexivity.
Qed.

(* the model's outputs pass the checker on every mesh of the contract *)
Theorem model_passes_checker m g nb nu : wf_mesh m = true ->
  dual m = Ok g -> barycentre_count m = Ok nb -> used_element_count m = Ok nu ->
  check_C18 m g nb nu = true.
Proof.
  intros Hwf Hg Hb Hu. apply wf_mesh_contract in Hwf as (dim & Hc).
  apply check_C18_ok. exists dim. split; [apply (ct_dim m dim Hc)|].
  rewrite (barycentre_count_eq m dim Hc) in Hb. injection Hb as <-.
  rewrite (used_element_count_eq m dim Hc) in Hu. injection Hu as <-.
  rewrite (g_is_spec m dim g Hc Hg). apply spec_csr_holds.
Qed.

(* ---------- statements with the contract as the boolean [wf_mesh] ---------- *)
Lemma wf_contract m dim : wf_mesh m = true -> max_dimension (m_topology m) = Some dim -> contract m dim.
Proof.
  intros Hwf E. apply wf_mesh_contract in Hwf as (d & Hc).
  pose proof (ct_dim m d Hc) as E'. rewrite E in E'. injection E' as ->. exact Hc.
Qed.

Lemma wf_dim23 m : wf_mesh m = true ->
  max_dimension (m_topology m) = Some 2 \/ max_dimension (m_topology m) = Some 3.
Proof.
  intros Hwf. apply wf_mesh_contract in Hwf as (d & Hc).
  destruct (ct_23 m d Hc) as [->| ->]; [left|right]; apply (ct_dim _ _ Hc).
Qed.

Section Statements.
  Variables (m : mesh) (dim : nat) (g : csr).
  Hypothesis Hwf : wf_mesh m = true.
  Hypothesis Hdim : max_dimension (m_topology m) = Some dim.
  Hypothesis Hg : dual m = Ok g.
  Let els := spec_elements dim (m_topology m).

  Lemma S_dual_spec e1 e2 : e1 < length els ->
    (In e2 (csr_row g e1) <-> e2 < length els /\ e1 <> e2 /\ dim <= shared (nth e1 els []) (nth e2 els [])).
  Proof. apply (dual_spec m dim g (wf_contract m dim Hwf Hdim) Hg). Qed.
  Lemma S_dual_symmetric e1 e2 : e1 < length els -> e2 < length els ->
    (In e2 (csr_row g e1) <-> In e1 (csr_row g e2)).
  Proof. apply (dual_symmetric m dim g (wf_contract m dim Hwf Hdim) Hg). Qed.
  Lemma S_dual_irreflexive e : e < length els -> ~ In e (csr_row g e).
  Proof. apply (dual_irreflexive m dim g (wf_contract m dim Hwf Hdim) Hg). Qed.
  Lemma S_dual_rows_sorted_nodup e : e < length els ->
    StronglySorted lt (csr_row g e) /\ NoDup (csr_row g e).
  Proof. apply (dual_rows_sorted_nodup m dim g (wf_contract m dim Hwf Hdim) Hg). Qed.
  Lemma S_dual_vertex_count :
    g_rows g = length els /\ g_cols g = length els /\ length (g_indptr g) = S (length els)
    /\ length els = fold_right Nat.add 0
         (map (fun b : block => if et_dimension (fst b) =? dim
                                then length (snd b) / et_node_count (fst b) else 0) (m_topology m)).
  Proof.
    destruct (dual_vertex_count m dim g (wf_contract m dim Hwf Hdim) Hg) as (A & B & C).
    repeat split; auto. apply spec_elements_length.
  Qed.
End Statements.

(* ---------- inside the contract the checker's verdict IS the correspondence ---------- *)
Lemma split_rows_inv ptrs : forall prev idx rows,
  split_rows prev ptrs idx = Some rows ->
  ptrs = prefix_sums prev (map (@length nat) rows) /\ idx = concat rows.
Proof.
  induction ptrs as [|p t IH]; intros prev idx rows E; cbn [split_rows] in E.
  - destruct idx; [|discriminate]. injection E as <-. split; reflexivity.
  - destruct (Nat.ltb_spec p prev) as [|Hge]; [discriminate|].
    destruct (Nat.ltb_spec (length idx) (p - prev)) as [|Hle]; [discriminate|].
    destruct (split_rows p t (skipn (p - prev) idx)) as [r|] eqn:Er; [|discriminate].
    injection E as <-. destruct (IH _ _ _ Er) as [Ht Hi].
    cbn [map prefix_sums concat]. rewrite firstn_length_le by exact Hle.
    replace (prev + (p - prev)) with p by lia. split; [f_equal; exact Ht|].
    rewrite <- Hi. symmetry. apply firstn_skipn.
Qed.

Lemma csr_rows_inv indptr idx rows : csr_rows indptr idx = Some rows ->
  indptr = 0 :: prefix_sums 0 (map (@length nat) rows) /\ idx = concat rows.
Proof.
  unfold csr_rows. destruct indptr as [|[|z] t]; try discriminate.
  intros E. destruct (split_rows_inv _ _ _ _ E) as [-> ->]. split; reflexivity.
Qed.

Lemma ones_repeat d : Forall (eq ONE_BITS) d -> d = repeat ONE_BITS (length d).
Proof. induction 1 as [|x t <- _ IH]; cbn [length repeat]; [reflexivity|f_equal; exact IH]. Qed.

Lemma holds_rows dim els g nb nu rows : C18_holds dim els g nb nu ->
  csr_rows (g_indptr g) (g_indices g) = Some rows -> rows = spec_rows dim els.
Proof.
  intros (_ & _ & _ & (rows' & Er & Lr & _ & Hs & Hin) & _) E. rewrite E in Er. injection Er as <-.
  apply (nth_ext _ _ [] []); [rewrite spec_rows_length; exact Lr|].
  intros i Hi. rewrite Lr in Hi. rewrite spec_rows_nth by exact Hi.
  apply sorted_lt_unique; [apply Hs; exact Hi|apply filter_sorted, seq_sorted|].
  intros x. rewrite (Hin i x Hi), spec_row_In. reflexivity.
Qed.

(* the property determines the matrix: it is the specification matrix *)
Theorem holds_is_spec dim els g nb nu : C18_holds dim els g nb nu ->
  g = spec_csr dim els /\ nb = length els /\ nu = length els.
Proof.
  intros Hh. pose proof Hh as (H1 & H2 & H3 & (rows & Er & _) & H5 & H6 & H7 & H8).
  pose proof (holds_rows _ _ _ _ _ _ Hh Er) as ->.
  destruct (csr_rows_inv _ _ _ Er) as [Hp Hi].
  split; [|auto]. destruct g as [gr gc gp gi gd]. cbn [g_rows g_cols g_indptr g_indices g_data] in *.
  unfold spec_csr. subst gr gc gp gi. f_equal.
  rewrite (ones_repeat gd H6), H5. reflexivity.
Qed.

Theorem checker_implies_model m g nb nu : wf_mesh m = true -> check_C18 m g nb nu = true ->
  dual m = Ok g /\ barycentre_count m = Ok nb /\ used_element_count m = Ok nu.
Proof.
  intros Hwf Hck. apply check_C18_ok in Hck as (dim & E & Hh).
  pose proof (wf_contract m dim Hwf E) as Hc.
  destruct (holds_is_spec _ _ _ _ _ Hh) as (-> & -> & ->).
  split; [apply dual_eq; exact Hc|]. split; [apply barycentre_count_eq|apply used_element_count_eq]; exact Hc.
Qed.

(* lambda_cut of Model/Metrics.v equals its definition: the sum, over the
   vertices, of the vertex weight times the number of parts other than the
   vertex's own that own one of its neighbours. *)
From Coupe Require Import Lib.Prelude Lib.Csr Model.Metrics Proofs.MetricsCutProofs.
From Coq Require Import Permutation.
Open Scope Z_scope.

(* ---------------------------------------------------- dedup = set cardinality *)

Lemma existsb_eqb_In x l : existsb (Nat.eqb x) l = true <-> In x l.
Proof.
  rewrite existsb_exists. split.
  - intros [y [Hy E]]. apply Nat.eqb_eq in E. subst. exact Hy.
  - intros H. exists x. split; [exact H|apply Nat.eqb_refl].
Qed.

Lemma dedup_In x l : In x (dedup l) <-> In x l.
Proof.
  induction l as [|y l IH]; [reflexivity|]. cbn [dedup].
  destruct (existsb (Nat.eqb y) l) eqn:E.
  - rewrite IH. split; [right; assumption|]. intros [->|H]; [apply existsb_eqb_In; exact E|exact H].
  - cbn [In]. rewrite IH. reflexivity.
Qed.

Lemma dedup_NoDup l : NoDup (dedup l).
Proof.
  induction l as [|y l IH]; [constructor|]. cbn [dedup].
  destruct (existsb (Nat.eqb y) l) eqn:E; [exact IH|].
  constructor; [|exact IH]. rewrite dedup_In. intros H. apply existsb_eqb_In in H. congruence.
Qed.

Lemma dedup_length_count l k :
  Forall (fun x => (x < k)%nat) l ->
  length (dedup l) = length (filter (fun q => existsb (Nat.eqb q) l) (seq 0 k)).
Proof.
  intros H. apply Permutation_length. apply NoDup_Permutation.
  - apply dedup_NoDup.
  - apply NoDup_filter. apply seq_NoDup.
  - intros x. rewrite dedup_In, filter_In, in_seq, existsb_eqb_In. rewrite Forall_forall in H.
    split; [intros Hx; split; [specialize (H x Hx); lia|exact Hx]|intros [_ Hx]; exact Hx].
Qed.

Lemma filter_length_split {A} (f c : A -> bool) l :
  length (filter f l)
  = (length (filter (fun x => c x && f x) l) + length (filter (fun x => negb (c x) && f x) l))%nat.
Proof.
  induction l as [|x l IH]; [reflexivity|]. cbn [filter].
  destruct (c x), (f x); cbn [negb andb length]; lia.
Qed.

Lemma filter_eq_one a s k :
  (s <= a < s + k)%nat -> length (filter (fun q => Nat.eqb q a) (seq s k)) = 1%nat.
Proof.
  revert s. induction k as [|k IH]; intros s H; [lia|]. cbn [seq filter].
  destruct (Nat.eqb_spec s a) as [->|Hne].
  - cbn [length]. f_equal.
    assert (G : forall n s', (a < s')%nat -> filter (fun q => Nat.eqb q a) (seq s' n) = []).
    { clear. induction n as [|n IH]; intros s' H; [reflexivity|]. cbn [seq filter].
      destruct (Nat.eqb_spec s' a); [lia|]. apply IH. lia. }
    rewrite G by lia. reflexivity.
  - apply IH. lia.
Qed.

(* |{own} U neighbours' parts| - 1 = number of foreign parts among the neighbours *)
Lemma foreign_count (pv : nat) (ps : list nat) (k : nat) :
  (pv < k)%nat -> Forall (fun x => (x < k)%nat) ps ->
  Z.of_nat (length (dedup (pv :: ps)) - 1)
  = Z.of_nat (length (filter (fun q => negb (Nat.eqb q pv) && existsb (Nat.eqb q) ps) (seq 0 k))).
Proof.
  intros Hpv Hps. rewrite (dedup_length_count (pv :: ps) k) by (constructor; assumption).
  rewrite (filter_length_split _ (fun q => Nat.eqb q pv)).
  assert (E1 : filter (fun x => Nat.eqb x pv && existsb (Nat.eqb x) (pv :: ps)) (seq 0 k)
               = filter (fun x => Nat.eqb x pv) (seq 0 k)).
  { apply filter_ext. intros q. cbn [existsb]. destruct (Nat.eqb q pv); reflexivity. }
  rewrite E1, filter_eq_one by lia.
  assert (E2 : filter (fun x => negb (Nat.eqb x pv) && existsb (Nat.eqb x) (pv :: ps)) (seq 0 k)
               = filter (fun q => negb (Nat.eqb q pv) && existsb (Nat.eqb q) ps) (seq 0 k)).
  { apply filter_ext. intros q. cbn [existsb]. destruct (Nat.eqb q pv); reflexivity. }
  rewrite E2. f_equal. lia.
Qed.

Lemma existsb_map_pt p q (r : row) :
  existsb (Nat.eqb q) (map (pt p) (map fst r)) = existsb (fun e : nat * Z => Nat.eqb (pt p (fst e)) q) r.
Proof.
  induction r as [|e r IH]; [reflexivity|]. cbn [map existsb]. rewrite IH, (Nat.eqb_sym q). reflexivity.
Qed.

(* --------------------------------------------------------------- per vertex *)

Section InRange.
  Variables (g : graph) (p : list nat) (k : nat).
  Hypothesis Hwf : wf_graph g.
  Hypothesis Hlen : (length g <= length p)%nat.
  Hypothesis Hk : Forall (fun q => (q < k)%nat) p.

  Lemma pt_lt v : (v < length p)%nat -> (pt p v < k)%nat.
  Proof. intros H. rewrite Forall_forall in Hk. apply Hk. unfold pt. apply nth_In. exact H. Qed.

  Lemma lambda_vertex_def v r :
    In (v, r) (indexed g) ->
    lambda_vertex p v (map fst r) = Ok (foreign_parts k g p v).
  Proof.
    intros Hin. apply indexed_in in Hin. pose proof (nth_opt_Some _ _ _ Hin) as Hv.
    assert (Hr : forall u, In u (map fst r) -> (u < length p)%nat).
    { intros u Hu. apply in_map_iff in Hu as [e [<- He]].
      eapply row_entries_in_range; eauto. }
    unfold lambda_vertex. rewrite part_at_ok by lia. cbn [bind].
    rewrite (traverse_ok (part_at p) (pt p)) by (intros u Hu; apply part_at_ok; auto).
    cbn [bind]. f_equal.
    rewrite (foreign_count (pt p v) (map (pt p) (map fst r)) k).
    - unfold foreign_parts. rewrite (row_of_nth g v r Hin). f_equal. f_equal.
      apply filter_ext. intros q. rewrite existsb_map_pt. reflexivity.
    - apply pt_lt. lia.
    - rewrite Forall_forall. intros x Hx. apply in_map_iff in Hx as [u [<- Hu]]. apply pt_lt. auto.
  Qed.
End InRange.

(* sum over the rows zipped with a weight per vertex *)
Lemma sum_indexed_w (g : graph) (ws : list Z) (F : nat -> row -> Z -> Z) :
  length ws = length g ->
  sumZ (map (fun x : (nat * row) * Z => F (fst (fst x)) (snd (fst x)) (snd x)) (combine (indexed g) ws))
  = sum_range 0 (length g) (fun v => F v (row_of g v) (nth v ws 0)).
Proof.
  unfold indexed, sum_range.
  assert (G : forall (t pre : graph) (wt wpre : list Z), length wt = length t -> length wpre = length pre ->
     sumZ (map (fun x : (nat * row) * Z => F (fst (fst x)) (snd (fst x)) (snd x))
               (combine (combine (seq (length pre) (length t)) t) wt))
     = sumZ (map (fun v => F v (row_of (pre ++ t) v) (nth v (wpre ++ wt) 0)) (seq (length pre) (length t)))).
  { induction t as [|r t IH]; intros pre wt wpre Hw Hp; [reflexivity|].
    destruct wt as [|w wt]; [cbn in Hw; lia|].
    cbn [length seq combine map]. rewrite !sumZ_cons. f_equal.
    - cbn [fst snd]. unfold row_of. rewrite !app_nth2 by lia. rewrite Hp, !Nat.sub_diag. reflexivity.
    - replace (S (length pre)) with (length (pre ++ [r])) by (rewrite app_length; cbn [length]; lia).
      replace (pre ++ r :: t) with ((pre ++ [r]) ++ t) by (rewrite <- app_assoc; reflexivity).
      replace (wpre ++ w :: wt) with ((wpre ++ [w]) ++ wt) by (rewrite <- app_assoc; reflexivity).
      apply IH; [cbn [length] in Hw; lia|rewrite !app_length; cbn [length]; lia]. }
  intros H. exact (G g [] ws [] H eq_refl).
Qed.

Theorem lambda_cut_def g p ws k :
  wf_graph g -> (length g <= length p)%nat -> length ws = length g ->
  Forall (fun q => (q < k)%nat) p ->
  lambda_cut g p ws = Ok (lambda_def k g p ws).
Proof.
  intros Hwf Hlen Hws Hk. unfold lambda_cut.
  rewrite (sum_res_ok _ (fun x : (nat * row) * Z => foreign_parts k g p (fst (fst x)) * snd x)).
  - f_equal.
    etransitivity; [exact (sum_indexed_w g ws (fun v _ w => foreign_parts k g p v * w) Hws)|].
    unfold lambda_def. apply sum_range_ext. intros v _. lia.
  - intros [[v r] w] Hin. cbn [fst snd].
    apply in_combine_l in Hin.
    rewrite (lambda_vertex_def g p k Hwf Hlen Hk v r Hin). reflexivity.
Qed.

Theorem sprs_lambda_cut_def g p ws k :
  wf_graph g -> (length g <= length p)%nat -> length ws = length g ->
  Forall (fun q => (q < k)%nat) p ->
  sprs_lambda_cut g p ws = Ok (lambda_def k g p ws).
Proof. intros. rewrite csr_lambda_eq_generic. apply lambda_cut_def; assumption. Qed.

(* The scaling factor of segment_to_segment is a valid, finite, non-negative
   binary64 (except in one signed-zero corner, treated separately), so the
   monotonicity / range theorems of Proofs/HilbertSeg.v apply to the factor the
   code computes: validity of every 64-bit pattern read as a float, Flocq's
   Bdiv for `n / width`, and the bit-stepping of nextafter. *)
From Coq Require Import ZArith Reals Lia Lra Bool Floats.SpecFloat.
From Flocq Require Import Core BinarySingleNaN PrimFloat.
From Coupe Require Import Lib.Prelude Lib.SFloat Model.Hilbert Gen.HilbertTables
  Proofs.HilbertCert Proofs.HilbertEncode2D Proofs.HilbertSegFloat Proofs.HilbertSeg.
Open Scope Z_scope.

(* ------------------------------------------------ bit patterns are valid floats *)
Lemma of_bits_unfold b :
  f64_of_bits b =
  let z := Z.of_N b in
  let s := Z.testbit z 63 in
  let e := Z.land (Z.shiftr z 52) 2047 in
  let m := Z.land z 4503599627370495 in
  if e =? 0 then
    match m with Zpos p => S754_finite s p (-1074) | _ => S754_zero s end
  else if e =? 2047 then (if m =? 0 then S754_infinity s else S754_nan)
  else match m + 4503599627370496 with Zpos p => S754_finite s p (e - 1075) | _ => S754_nan end.
Proof.
  unfold of_bits. cbv zeta.
  replace (Z.of_N b) with (Z.of_N b) by reflexivity.
  change (Z.log2 1024 + 1 + (53 - 1)) with 63. change (53 - 1) with 52.
  change (2 ^ (Z.log2 1024 + 1) - 1) with 2047. change (2 ^ 52 - 1) with 4503599627370495.
  change (3 - 1024 - 53) with (-1074). change (2 ^ 52) with 4503599627370496.
  destruct (Z.land (Z.shiftr (Z.of_N b) 52) 2047 =? 0); [reflexivity|].
  destruct (Z.land (Z.shiftr (Z.of_N b) 52) 2047 =? 2047); [reflexivity|].
  destruct (Z.land (Z.of_N b) 4503599627370495 + 4503599627370496); try reflexivity.
  f_equal. lia.
Qed.

Lemma bounded_sub p : Zpos p < 2 ^ 52 -> bounded 53 1024 p (-1074) = true.
Proof.
  intros Hp. unfold bounded, canonical_mantissa, fexp, emin. rewrite Zpos_digits2_pos.
  assert (D : Zdigits radix2 (Zpos p) <= 52) by (apply Zdigits_le_Zpower; cbn [Z.abs]; exact Hp).
  apply andb_true_intro. split; [apply Zeq_is_eq_bool; lia | apply Zle_bool_true; lia].
Qed.

Lemma bounded_norm p e : 2 ^ 52 <= Zpos p < 2 ^ 53 -> -1074 <= e <= 971 -> bounded 53 1024 p e = true.
Proof.
  intros Hp He. unfold bounded, canonical_mantissa, fexp, emin. rewrite Zpos_digits2_pos.
  assert (D : Zdigits radix2 (Zpos p) = 53) by (apply Zdigits_unique; cbn [Z.abs]; exact Hp).
  rewrite D. apply andb_true_intro. split; [apply Zeq_is_eq_bool; lia | apply Zle_bool_true; lia].
Qed.

Lemma fields z : 0 <= z ->
  let e := Z.land (Z.shiftr z 52) 2047 in let m := Z.land z 4503599627370495 in
  0 <= e < 2048 /\ 0 <= m < 2 ^ 52 /\ e = (z / 2 ^ 52) mod 2048 /\ m = z mod 2 ^ 52.
Proof.
  intros Hz. cbv zeta.
  change 2047 with (Z.ones 11). change 4503599627370495 with (Z.ones 52).
  rewrite !Z.land_ones by lia. rewrite Z.shiftr_div_pow2 by lia.
  change (2 ^ 11) with 2048.
  pose proof (Z.mod_pos_bound (z / 2 ^ 52) 2048). pose proof (Z.mod_pos_bound z (2 ^ 52)). lia.
Qed.

Theorem of_bits_valid b : valid_binary 53 1024 (f64_of_bits b) = true.
Proof.
  rewrite of_bits_unfold. cbv zeta.
  destruct (fields (Z.of_N b) (N2Z.is_nonneg b)) as [He [Hm _]].
  set (e := Z.land (Z.shiftr (Z.of_N b) 52) 2047) in *.
  set (m := Z.land (Z.of_N b) 4503599627370495) in *.
  destruct (Z.eqb_spec e 0) as [E0 | E0].
  - destruct m as [|p|p] eqn:Em; try reflexivity. cbn [valid_binary]. apply bounded_sub. lia.
  - destruct (Z.eqb_spec e 2047) as [E1 | E1].
    + destruct (m =? 0); reflexivity.
    + destruct (m + 4503599627370496) as [|p|p] eqn:Em; try reflexivity.
      cbn [valid_binary]. apply bounded_norm; [| lia].
      change (2 ^ 52) with 4503599627370496 in *. change (2 ^ 53) with 9007199254740992. lia.
Qed.

(* patterns below 0x7FF0_0000_0000_0000 are finite and carry a clear sign bit *)
Lemma of_bits_small b : (b < 2047 * 2 ^ 52)%N ->
  SFloat.is_finite (f64_of_bits b) = true /\ sign_of (f64_of_bits b) = false.
Proof.
  intros Hb. rewrite of_bits_unfold. cbv zeta.
  assert (Hz : 0 <= Z.of_N b < 2047 * 2 ^ 52) by lia.
  destruct (fields (Z.of_N b) (N2Z.is_nonneg b)) as [He [Hm [Ee Em]]].
  set (e := Z.land (Z.shiftr (Z.of_N b) 52) 2047) in *.
  set (m := Z.land (Z.of_N b) 4503599627370495) in *.
  assert (S : Z.testbit (Z.of_N b) 63 = false).
  { destruct (Z.eq_dec (Z.of_N b) 0) as [E|E]; [rewrite E; apply Z.testbit_0_l|].
    apply Z.bits_above_log2; [lia|]. apply Z.log2_lt_pow2; [lia|].
    change (2 ^ 63) with (2048 * 2 ^ 52). lia. }
  assert (E2047 : e <> 2047).
  { rewrite Ee. assert (Z.of_N b / 2 ^ 52 < 2047) by (apply Z.div_lt_upper_bound; lia).
    assert (0 <= Z.of_N b / 2 ^ 52) by (apply Z.div_pos; lia).
    rewrite Z.mod_small by lia. lia. }
  rewrite S.
  destruct (Z.eqb_spec e 0) as [E0 | E0].
  - destruct m; split; reflexivity.
  - destruct (Z.eqb_spec e 2047) as [E1 | E1]; [contradiction|].
    destruct (m + 4503599627370496) as [|p|p] eqn:Em'; try lia. split; reflexivity.
Qed.

(* valid finite positive floats have a pattern below 0x7FF0_0000_0000_0000 *)
Lemma to_bits_small m e : bounded 53 1024 m e = true ->
  (f64_to_bits (S754_finite false m e) < 2047 * 2 ^ 52)%N /\ (1 <= f64_to_bits (S754_finite false m e))%N.
Proof.
  intros B. unfold bounded in B. apply andb_prop in B. destruct B as [B1 B2].
  apply Zle_bool_imp_le in B2. unfold canonical_mantissa, fexp, emin in B1.
  apply Zeq_bool_eq in B1. rewrite Zpos_digits2_pos in B1.
  assert (D : Zdigits radix2 (Zpos m) <= 53) by lia.
  apply Zpower_gt_Zdigits in D. cbn [Z.abs] in D. change (radix2 ^ 53) with 9007199254740992 in D.
  assert (Emin : -1074 <= e) by lia.
  unfold to_bits. cbv zeta.
  change (2 ^ (53 - 1)) with 4503599627370496.
  destruct (Z.ltb_spec (Zpos m) 4503599627370496) as [Hs | Hn].
  - split; lia.
  - split.
    + apply N2Z.inj_lt. rewrite Z2N.id by nia. change (Z.of_N (2047 * 2 ^ 52)) with (2047 * 4503599627370496). nia.
    + apply N2Z.inj_le. rewrite Z2N.id by nia. change (Z.of_N 1) with 1. nia.
Qed.

(* ------------------------------------------------------------ the factor *)
Definition good (f : spec_float) : Prop :=
  valid_binary 53 1024 f = true /\ SFloat.is_finite f = true /\ sign_of f = false.

Lemma good_zero : good f64_zero.
Proof. repeat split; reflexivity. Qed.
Lemma good_max : good f64_max_value.
Proof. repeat split; reflexivity. Qed.

Lemma nextafter_good f : good f -> good (nextafter f f64_zero).
Proof.
  intros [V [F S]]. destruct f as [s|s| |s m e]; try discriminate; cbn in S; subst s.
  - cbn. exact good_zero.
  - cbn [valid_binary] in V. destruct (to_bits_small m e V) as [Hlt Hge].
    unfold nextafter.
    change (feq (S754_finite false m e) f64_zero) with false.
    change (SFloat.is_nan (S754_finite false m e) || SFloat.is_nan f64_zero) with false.
    change (fge (S754_finite false m e) (f64_inf false)) with false.
    change (fle (S754_finite false m e) (f64_inf true)) with false.
    change (Bool.eqb (flt (S754_finite false m e) f64_zero) (flt f64_zero (S754_finite false m e))) with false.
    cbv iota. cbn [sign_of].
    set (ret := f64_of_bits (f64_to_bits (S754_finite false m e) - 1)).
    assert (Hb : (f64_to_bits (S754_finite false m e) - 1 < 2047 * 2 ^ 52)%N) by lia.
    destruct (of_bits_small _ Hb) as [Fr Sr]. fold ret in Fr, Sr.
    pose proof (of_bits_valid (f64_to_bits (S754_finite false m e) - 1)) as Vr. fold ret in Vr.
    assert (G : good ret) by (repeat split; assumption).
    destruct (feq ret f64_zero); [|exact G].
    destruct ret as [sr|sr| |sr mr er]; try discriminate; cbn in Sr; subst sr; exact G.
Qed.

Lemma seg_loop_good fuel : forall n w f0 f, seg_loop fuel n w f0 = Ok f -> good f0 -> good f.
Proof.
  induction fuel as [|k IH]; intros n w f0 f H G; cbn [seg_loop] in H.
  - destruct (fle n (f64_mul w f0)); [discriminate|]. inversion H. subst. assumption.
  - destruct (fle n (f64_mul w f0)).
    + apply (IH _ _ _ _ H). apply nextafter_good. assumption.
    + inversion H. subst. assumption.
Qed.

Local Notation bf := (binary_float 53 1024).
Local Notation finB := (@BinarySingleNaN.is_finite 53 1024).
Local Notation nanB := (@BinarySingleNaN.is_nan 53 1024).
Local Existing Instance Hp.
Local Existing Instance Hm.

Lemma div_link (x y : bf) : f64_div (B2SF x) (B2SF y) = B2SF (Bdiv mode_NE x y).
Proof.
  destruct x as [sx|sx| |sx mx ex Bx], y as [sy|sy| |sy my ey By]; try reflexivity.
  cbn. rewrite B2SF_SF2B.
  set (melz := SFdiv_core_binary _ _ _ _ _ _). destruct melz as [[mz ez] lz].
  apply binary_round_aux_equiv.
Qed.

Lemma min_good d : good d -> good (f64_min d f64_max_value).
Proof.
  intros G. destruct G as [V [F S]]. unfold f64_min.
  assert (N : SFloat.is_nan d = false) by (destruct d; try discriminate; reflexivity). rewrite N.
  change (SFloat.is_nan f64_max_value) with false. cbv iota.
  destruct (flt f64_max_value d); [exact good_max | repeat split; assumption].
Qed.

Lemma good_B (x : bf) : finB x = true -> Bsign x = false -> good (B2SF x).
Proof.
  intros F S. repeat split.
  - apply valid_binary_B2SF.
  - destruct x; try discriminate; reflexivity.
  - destruct x; try discriminate; cbn in *; assumption.
Qed.

(* n / w capped at f64::MAX, for a finite positive n and a non-negative w *)
Lemma f0_good mn' en (Bn : bounded 53 1024 mn' en = true) (w : bf) :
  nanB w = false -> Bsign w = false ->
  good (f64_min (f64_div (B2SF (B754_finite false mn' en Bn : bf)) (B2SF w)) f64_max_value).
Proof.
  intros Nw Sw. rewrite div_link. set (n := B754_finite false mn' en Bn : bf).
  destruct w as [s|s| |s m e B]; try discriminate; cbn in Sw; subst s.
  - (* w = +0: n / 0 = +inf, capped *) cbn. exact good_max.
  - (* w = +inf: n / inf = +0 *) cbn. exact good_zero.
  - set (w := B754_finite false m e B).
    assert (Pw : (B2R w <> 0)%R).
    { apply Rgt_not_eq. apply F2R_gt_0. cbn. lia. }
    pose proof (Bdiv_correct 53 1024 Hp Hm mode_NE n w Pw) as H.
    destruct (Rlt_bool _ _).
    + destruct H as [_ [H2 H3]].
      apply min_good, good_B; [exact H2|].
      rewrite H3; [reflexivity|]. apply fin_not_nan. exact H2.
    + rewrite H. exact good_max.
Qed.

Lemma B2R_zero_is_zero (x : bf) : finB x = true -> B2R x = 0%R -> exists s, x = B754_zero s.
Proof.
  destruct x as [s|s| |s m e B]; try discriminate; intros _ H.
  - exists s. reflexivity.
  - exfalso. cbn in H. apply eq_0_F2R in H. destruct s; discriminate.
Qed.

(* width = max - min for finite min <= max: never NaN; non-negative sign,
   except for the corner max = -0.0, min = +0.0 where it is -0.0 *)
Lemma width_sign (mx mn : bf) : finB mx = true -> finB mn = true -> Bleb mn mx = true ->
  let w := Bminus mode_NE mx mn in
  nanB w = false /\ (Bsign w = false \/ (mx = B754_zero true /\ mn = B754_zero false)).
Proof.
  intros Fx Fn Hle. cbv zeta.
  destruct (val_minus mx mn Fx Fn) as [Nw _]. split; [exact Nw|].
  rewrite Bleb_correct in Hle by assumption.
  assert (Hr : (B2R mn <= B2R mx)%R) by (destruct (Rle_bool_spec (B2R mn) (B2R mx)); [assumption|discriminate]).
  pose proof (Bminus_correct 53 1024 Hp Hm mode_NE mx mn Fx Fn) as H.
  destruct (Rlt_bool_spec (Rabs (round radix2 (SpecFloat.fexp 53 1024) (round_mode mode_NE) (B2R mx - B2R mn))) (bpow radix2 1024)) as [Hlt|Hge].
  - destruct H as [_ [_ H3]]. rewrite H3.
    destruct (Rcompare_spec (B2R mx - B2R mn) 0) as [C|C|C].
    + lra.
    + destruct (Bsign mx) eqn:Sx, (Bsign mn) eqn:Sn; cbn; auto.
      right. pose proof (Bsign_true_nonpos mx Sx). pose proof (Bsign_false_nonneg mn Sn).
      assert (Ex : B2R mx = 0%R) by lra. assert (En : B2R mn = 0%R) by lra.
      destruct (B2R_zero_is_zero mx Fx Ex) as [s1 E1], (B2R_zero_is_zero mn Fn En) as [s2 E2].
      subst. cbn in Sx, Sn. subst. auto.
    + left. reflexivity.
  - destruct H as [H1 H2]. left.
    destruct (Bsign mx) eqn:Sx.
    + exfalso. assert (Sn : Bsign mn = false) by (destruct (Bsign mn); [discriminate|reflexivity]).
      pose proof (Bsign_true_nonpos mx Sx). pose proof (Bsign_false_nonneg mn Sn).
      assert (E : (B2R mx - B2R mn = 0)%R) by lra. rewrite E in Hge.
      rewrite round_0 in Hge by apply valid_rnd_N. rewrite Rabs_R0 in Hge.
      pose proof (bpow_gt_0 radix2 1024). lra.
    + cbn in H1. apply of_B2SF_inf in H1. rewrite H1. reflexivity.
Qed.

(* ------------------------------------------------------ the full theorems *)
Lemma pow2_float_form order : (order < 64)%N ->
  exists B : bounded 53 1024 4503599627370496 (Z.of_N order - 52) = true,
  f64_of_Z (Z.of_N (2 ^ order)) = B2SF (B754_finite false 4503599627370496 (Z.of_N order - 52) B : bf).
Proof.
  intros Ho.
  assert (F : forallb (fun k =>
     bounded 53 1024 4503599627370496 (Z.of_N k - 52) &&
     match f64_of_Z (Z.of_N (2 ^ k)) with
     | S754_finite false m e => Pos.eqb m 4503599627370496 && (e =? Z.of_N k - 52)%Z
     | _ => false
     end) (range 64) = true) by (vm_compute; reflexivity).
  pose proof (forallb_range _ _ F order Ho) as G. cbv beta in G.
  apply andb_prop in G. destruct G as [G1 G2]. exists G1.
  destruct (f64_of_Z (Z.of_N (2 ^ order))) as [s|s| |s m e]; try discriminate.
  destruct s; [discriminate|]. apply andb_prop in G2. destruct G2 as [G2 G3].
  apply Pos.eqb_eq in G2. apply Z.eqb_eq in G3. subst m e. reflexivity.
Qed.

Definition corner (mn mx : spec_float) : Prop := mn = S754_zero false /\ mx = S754_zero true.

(* the factor the code computes is a valid finite non-negative float, unless
   min = +0.0 and max = -0.0 *)
Theorem seg_factor_good fuel mn mx order f :
  seg_factor fuel mn mx order = Ok f ->
  valid_binary 53 1024 mn = true -> valid_binary 53 1024 mx = true ->
  SFloat.is_finite mn = true -> SFloat.is_finite mx = true ->
  good f \/ corner mn mx.
Proof.
  intros Hf Vmn Vmx Fmn Fmx.
  unfold seg_factor, seg_factor_gen in Hf. change seg_factor_capped with true in Hf.
  destruct (fle mn mx) eqn:Hle; [|discriminate]. cbn [negb] in Hf.
  destruct (N.leb_spec 64 order) as [|Ho]; [discriminate|]. cbv zeta iota in Hf.
  set (Bmn := SF2B mn Vmn). set (Bmx := SF2B mx Vmx).
  assert (Emn : mn = B2SF Bmn) by (symmetry; apply B2SF_SF2B).
  assert (Emx : mx = B2SF Bmx) by (symmetry; apply B2SF_SF2B).
  assert (Fmn' : finB Bmn = true) by (unfold Bmn; rewrite fin_SF2B; assumption).
  assert (Fmx' : finB Bmx = true) by (unfold Bmx; rewrite fin_SF2B; assumption).
  clearbody Bmn Bmx. subst mn mx. rewrite fle_link in Hle.
  destruct (width_sign Bmx Bmn Fmx' Fmn' Hle) as [Nw [Sw | [Cx Cn]]].
  - left. destruct (pow2_float_form order Ho) as [Bn En]. rewrite En, sub_link in Hf.
    apply (seg_loop_good _ _ _ _ _ Hf). apply f0_good; assumption.
  - right. subst. split; reflexivity.
Qed.

(* in the corner every value of the interval is a zero and every cell is 0 *)
Lemma corner_cell fuel order f v c :
  seg_factor fuel (S754_zero false) (S754_zero true) order = Ok f ->
  seg_cell f (S754_zero false) (S754_zero true) v = Ok c -> c = 0%N.
Proof.
  intros Hf Hc.
  unfold seg_factor, seg_factor_gen in Hf. change seg_factor_capped with true in Hf.
  change (negb (fle (S754_zero false) (S754_zero true))) with false in Hf. cbv iota in Hf.
  destruct (N.leb_spec 64 order) as [|Ho]; [discriminate|]. cbv zeta iota in Hf.
  destruct (pow2_float_form order Ho) as [Bn En]. rewrite En in Hf. cbn [B2SF] in Hf.
  change (f64_sub (S754_zero true) (S754_zero false)) with (S754_zero true) in Hf.
  change (f64_div (S754_finite false 4503599627370496 (Z.of_N order - 52)) (S754_zero true))
    with (S754_infinity true) in Hf.
  change (f64_min (S754_infinity true) f64_max_value) with (S754_infinity true) in Hf.
  assert (E : f = S754_infinity true).
  { destruct fuel; cbn [seg_loop] in Hf;
      change (f64_mul (S754_zero true) (S754_infinity true)) with S754_nan in Hf;
      change (fle (S754_finite false 4503599627370496 (Z.of_N order - 52)) S754_nan) with false in Hf;
      inversion Hf; reflexivity. }
  subst f. unfold seg_cell in Hc.
  destruct v as [s|s| |s m e].
  - destruct s; cbn in Hc; inversion Hc; reflexivity.
  - destruct s; cbn in Hc; discriminate.
  - cbn in Hc. discriminate.
  - destruct s; cbn in Hc; discriminate.
Qed.

(* v <= v'  =>  cell v <= cell v' *)
Theorem seg_monotone_full fuel mn mx order f v v' c c' :
  seg_factor fuel mn mx order = Ok f ->
  valid_binary 53 1024 mn = true -> valid_binary 53 1024 mx = true ->
  valid_binary 53 1024 v = true -> valid_binary 53 1024 v' = true ->
  SFloat.is_finite mn = true -> SFloat.is_finite mx = true ->
  SFloat.is_finite v = true -> SFloat.is_finite v' = true ->
  fle v v' = true ->
  seg_cell f mn mx v = Ok c -> seg_cell f mn mx v' = Ok c' -> (c <= c')%N.
Proof.
  intros Hf Vmn Vmx Vv Vv' Fmn Fmx Fv Fv' Hvv Hc Hc'.
  destruct (seg_factor_good _ _ _ _ _ Hf Vmn Vmx Fmn Fmx) as [[Vf [Ff Sf]] | [Cn Cx]].
  - apply (seg_monotone f mn mx v v'); assumption.
  - subst mn mx. rewrite (corner_cell _ _ _ _ _ Hf Hc), (corner_cell _ _ _ _ _ Hf Hc'). reflexivity.
Qed.

(* min <= v <= max  =>  cell v <= 2^order - 1 *)
Theorem seg_range_full fuel mn mx order f v c :
  seg_factor fuel mn mx order = Ok f ->
  valid_binary 53 1024 mn = true -> valid_binary 53 1024 mx = true -> valid_binary 53 1024 v = true ->
  SFloat.is_finite mn = true -> SFloat.is_finite mx = true -> SFloat.is_finite v = true ->
  seg_cell f mn mx v = Ok c -> (c <= 2 ^ order - 1)%N.
Proof.
  intros Hf Vmn Vmx Vv Fmn Fmx Fv Hc.
  destruct (seg_factor_good _ _ _ _ _ Hf Vmn Vmx Fmn Fmx) as [[Vf [Ff Sf]] | [Cn Cx]].
  - apply (seg_range fuel mn mx order f v); assumption.
  - subst mn mx. rewrite (corner_cell _ _ _ _ _ Hf Hc). lia.
Qed.

(* the same for the bit patterns the caller passes (every pattern is a valid float) *)
Corollary seg_bits_monotone fuel bmn bmx order f bv bv' c c' :
  let mn := f64_of_bits bmn in let mx := f64_of_bits bmx in
  let v := f64_of_bits bv in let v' := f64_of_bits bv' in
  seg_factor fuel mn mx order = Ok f ->
  SFloat.is_finite mn = true -> SFloat.is_finite mx = true ->
  SFloat.is_finite v = true -> SFloat.is_finite v' = true ->
  fle v v' = true ->
  seg_cell f mn mx v = Ok c -> seg_cell f mn mx v' = Ok c' -> (c <= c')%N.
Proof.
  intros mn mx v v' Hf. apply (seg_monotone_full fuel mn mx order f v v' c c' Hf); apply of_bits_valid.
Qed.
Corollary seg_bits_range fuel bmn bmx order f bv c :
  let mn := f64_of_bits bmn in let mx := f64_of_bits bmx in let v := f64_of_bits bv in
  seg_factor fuel mn mx order = Ok f ->
  SFloat.is_finite mn = true -> SFloat.is_finite mx = true -> SFloat.is_finite v = true ->
  seg_cell f mn mx v = Ok c -> (c <= 2 ^ order - 1)%N.
Proof.
  intros mn mx v Hf. apply (seg_range_full fuel mn mx order f v c Hf); apply of_bits_valid.
Qed.

(* ------------------------------------------- termination of the nextafter loop *)
Lemma to_of_bits b : (b < 2047 * 2 ^ 52)%N -> f64_to_bits (f64_of_bits b) = b.
Proof.
  intros Hb. rewrite of_bits_unfold. cbv zeta.
  assert (Hz : 0 <= Z.of_N b < 2047 * 2 ^ 52) by lia.
  destruct (fields (Z.of_N b) (N2Z.is_nonneg b)) as [He [Hm [Ee Em]]].
  set (e := Z.land (Z.shiftr (Z.of_N b) 52) 2047) in *.
  set (m := Z.land (Z.of_N b) 4503599627370495) in *.
  assert (S : Z.testbit (Z.of_N b) 63 = false).
  { destruct (Z.eq_dec (Z.of_N b) 0) as [E|E]; [rewrite E; apply Z.testbit_0_l|].
    apply Z.bits_above_log2; [lia|]. apply Z.log2_lt_pow2; [lia|].
    change (2 ^ 63) with (2048 * 2 ^ 52). lia. }
  assert (Q : 0 <= Z.of_N b / 2 ^ 52 < 2047).
  { split; [apply Z.div_pos; lia | apply Z.div_lt_upper_bound; lia]. }
  assert (Ee' : e = Z.of_N b / 2 ^ 52) by (rewrite Ee; apply Z.mod_small; lia).
  assert (DM : Z.of_N b = 2 ^ 52 * e + m) by (rewrite Ee', Em; apply Z.div_mod; lia).
  rewrite S. change (2 ^ 52) with 4503599627370496 in *.
  destruct (Z.eqb_spec e 0) as [E0 | E0].
  - destruct m as [|p|p] eqn:Em'.
    + cbn. lia.
    + unfold to_bits. cbv zeta. change (2 ^ (53 - 1)) with 4503599627370496.
      destruct (Z.ltb_spec (Z.pos p) 4503599627370496); lia.
    + lia.
  - destruct (Z.eqb_spec e 2047) as [E1 | E1]; [lia|].
    destruct (m + 4503599627370496) as [|p|p] eqn:Em'; try lia.
    unfold to_bits. cbv zeta. change (2 ^ (53 - 1)) with 4503599627370496.
    destruct (Z.ltb_spec (Z.pos p) 4503599627370496); lia.
Qed.

Lemma nextafter_pos m e : bounded 53 1024 m e = true ->
  nextafter (S754_finite false m e) f64_zero = f64_of_bits (f64_to_bits (S754_finite false m e) - 1).
Proof.
  intros V. destruct (to_bits_small m e V) as [Hlt Hge].
  unfold nextafter.
  change (feq (S754_finite false m e) f64_zero) with false.
  change (SFloat.is_nan (S754_finite false m e) || SFloat.is_nan f64_zero) with false.
  change (fge (S754_finite false m e) (f64_inf false)) with false.
  change (fle (S754_finite false m e) (f64_inf true)) with false.
  change (Bool.eqb (flt (S754_finite false m e) f64_zero) (flt f64_zero (S754_finite false m e))) with false.
  cbv iota. cbn [sign_of].
  set (ret := f64_of_bits (f64_to_bits (S754_finite false m e) - 1)).
  assert (Hb : (f64_to_bits (S754_finite false m e) - 1 < 2047 * 2 ^ 52)%N) by lia.
  destruct (of_bits_small _ Hb) as [Fr Sr]. fold ret in Fr, Sr.
  destruct (feq ret f64_zero); [|reflexivity].
  destruct ret as [sr|sr| |sr mr er]; try discriminate; cbn in Sr; subst sr; reflexivity.
Qed.

(* n > 0 is never <= w * 0 *)
Lemma exit_at_zero mn' en w : fle (S754_finite false mn' en) (f64_mul w (S754_zero false)) = false.
Proof. destruct w as [s|s| |s m e]; try reflexivity; destruct s; reflexivity. Qed.

Lemma seg_loop_terminates mn' en w (k : nat) : forall f,
  good f -> (f64_to_bits f <= N.of_nat k)%N ->
  forall fuel, (k <= fuel)%nat -> exists f', seg_loop fuel (S754_finite false mn' en) w f = Ok f'.
Proof.
  induction k as [|k IH]; intros f G Hk fuel Hfuel.
  - (* pattern 0: f = +0.0, the loop exits *)
    destruct G as [V [F S]]. destruct f as [s|s| |s m e]; try discriminate; cbn in S; subst s.
    + exists (S754_zero false). destruct fuel; cbn [seg_loop]; rewrite exit_at_zero; reflexivity.
    + cbn [valid_binary] in V. destruct (to_bits_small m e V). lia.
  - destruct (fle (S754_finite false mn' en) (f64_mul w f)) eqn:E.
    + destruct fuel as [|fuel']; [lia|]. cbn [seg_loop]. rewrite E.
      pose proof G as G0. destruct G as [V [F S]].
      destruct f as [s|s| |s m e]; try discriminate; cbn in S; subst s.
      * rewrite exit_at_zero in E. discriminate.
      * cbn [valid_binary] in V. destruct (to_bits_small m e V) as [Hlt Hge].
        apply IH; [apply nextafter_good; assumption | | lia].
        rewrite (nextafter_pos m e V), to_of_bits by lia. lia.
    + exists f. destruct fuel; cbn [seg_loop]; rewrite E; reflexivity.
Qed.

(* segment_to_segment returns for every finite interval and every order < 64 *)
Theorem seg_factor_terminates mn mx order :
  valid_binary 53 1024 mn = true -> valid_binary 53 1024 mx = true ->
  SFloat.is_finite mn = true -> SFloat.is_finite mx = true ->
  fle mn mx = true -> (order < 64)%N ->
  exists fuel0 : nat, forall fuel, (fuel0 <= fuel)%nat -> exists f, seg_factor fuel mn mx order = Ok f.
Proof.
  intros Vmn Vmx Fmn Fmx Hle Ho.
  unfold seg_factor, seg_factor_gen. change seg_factor_capped with true.
  rewrite Hle. cbn [negb]. destruct (N.leb_spec 64 order) as [|_]; [lia|]. cbv zeta iota.
  destruct (pow2_float_form order Ho) as [Bn En]. rewrite En. cbn [B2SF].
  set (Bmn := SF2B mn Vmn). set (Bmx := SF2B mx Vmx).
  assert (Emn : mn = B2SF Bmn) by (symmetry; apply B2SF_SF2B).
  assert (Emx : mx = B2SF Bmx) by (symmetry; apply B2SF_SF2B).
  assert (Fmn' : finB Bmn = true) by (unfold Bmn; rewrite fin_SF2B; assumption).
  assert (Fmx' : finB Bmx = true) by (unfold Bmx; rewrite fin_SF2B; assumption).
  clearbody Bmn Bmx. subst mn mx. rewrite fle_link in Hle.
  destruct (width_sign Bmx Bmn Fmx' Fmn' Hle) as [Nw [Sw | [Cx Cn]]].
  - rewrite sub_link.
    pose proof (f0_good _ _ Bn (Bminus mode_NE Bmx Bmn) Nw Sw) as G. cbn [B2SF] in G.
    set (f0 := f64_min _ _) in *.
    exists (N.to_nat (f64_to_bits f0)). intros fuel Hfuel.
    apply (seg_loop_terminates _ _ _ (N.to_nat (f64_to_bits f0))); [assumption | lia | assumption].
  - subst. exists 0%nat. intros fuel _. cbn [B2SF].
    change (f64_sub (S754_zero true) (S754_zero false)) with (S754_zero true).
    change (f64_div (S754_finite false 4503599627370496 (Z.of_N order - 52)) (S754_zero true))
      with (S754_infinity true).
    change (f64_min (S754_infinity true) f64_max_value) with (S754_infinity true).
    exists (S754_infinity true).
    destruct fuel; cbn [seg_loop];
      change (f64_mul (S754_zero true) (S754_infinity true)) with S754_nan;
      change (fle (S754_finite false 4503599627370496 (Z.of_N order - 52)) S754_nan) with false;
      reflexivity.
Qed.

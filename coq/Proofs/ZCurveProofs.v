(* Proofs about the ZCurve half of Model/SfcPart.v. *)
From Coupe Require Import Lib.Prelude Lib.Sorting Model.SfcPart Proofs.SortingProofs.
From Coq Require Import Sorting.Permutation Sorting.Sorted.
Open Scope nat_scope.

(* ------------------------------------------------------------------ *)
(* the library binary search on a PARTITIONED array = partition point   *)
(* ------------------------------------------------------------------ *)

Section PartitionPoint.
  Context {A : Type}.
  Variables (cmp : A -> comparison) (a : list A) (t : nat).
  Hypothesis cmp_ne : forall x, cmp x <> Eq.
  Hypothesis t_le : t <= length a.
  Hypothesis part : forall j x, nth_opt a j = Some x -> (j < t <-> cmp x = Lt).

  Lemma bs_loop_pp : forall fuel base size,
    1 <= size -> base + size <= length a -> size <= fuel ->
    (base = 0 \/ base < t) -> t <= base + size ->
    exists b, bs_loop cmp a fuel base size = Ok b /\ b < length a /\ (b = 0 \/ b < t) /\ t <= b + 1.
  Proof.
    induction fuel as [|f IH]; intros base size Hs Hb Hf HI1 HI2; [lia|].
    destruct (Nat.leb_spec size 1) as [Hle|Hgt].
    - rewrite bs_loop_stop by lia. exists base. repeat split; auto; lia.
    - pose proof (div2_bounds size) as [D1 D2].
      destruct (nth_opt_lt a (base + Nat.div2 size)) as [x Hx]; [lia|].
      rewrite (bs_loop_step a cmp f base size x Hgt Hx).
      pose proof (part _ _ Hx) as Hp.
      destruct (cmp x) eqn:E.
      + exfalso. eapply cmp_ne; eauto.
      + apply IH; try lia. right. apply Hp. reflexivity.
      + assert (~ base + Nat.div2 size < t) by (intros C; apply Hp in C; discriminate).
        apply IH; try lia.
  Qed.

  Lemma bsearch_by_partition_point : bsearch_by cmp a = Ok (false, t).
  Proof.
    unfold bsearch_by. destruct a as [|y l] eqn:Ea.
    - cbn [length] in t_le. replace t with 0 by lia. reflexivity.
    - rewrite <- Ea in *.
      destruct (bs_loop_pp (length a) 0 (length a)) as [b [E [Hb [HI1 HI2]]]]; try lia.
      + subst a. cbn [length]. lia.
      + rewrite E. destruct (nth_opt_lt a b Hb) as [x Hx]. rewrite Hx.
        pose proof (part _ _ Hx) as Hp.
        destruct (cmp x) eqn:Ec.
        * exfalso. eapply cmp_ne; eauto.
        * assert (b < t) by (apply Hp; reflexivity). do 2 f_equal. lia.
        * assert (~ b < t) by (intros C; apply Hp in C; discriminate). do 2 f_equal. lia.
  Qed.
End PartitionPoint.

(* ------------------------------------------------------------------ *)
(* small list facts                                                     *)
(* ------------------------------------------------------------------ *)

Lemma firstn_length_app {A} (l1 l2 : list A) : firstn (length l1) (l1 ++ l2) = l1.
Proof. induction l1 as [|x t IH]; cbn [length firstn app]; [destruct l2; reflexivity|f_equal; exact IH]. Qed.

Lemma skipn_length_app {A} (l1 l2 : list A) : skipn (length l1) (l1 ++ l2) = l2.
Proof. induction l1 as [|x t IH]; cbn [length skipn app]; [reflexivity|exact IH]. Qed.

Lemma nth_opt_app_l {A} (l1 l2 : list A) j : j < length l1 -> nth_opt (l1 ++ l2) j = nth_opt l1 j.
Proof.
  revert j. induction l1 as [|x t IH]; intros [|j] H; cbn [length] in H; try lia; cbn [app nth_opt]; [reflexivity|].
  apply IH. lia.
Qed.

Lemma nth_opt_app_r {A} (l1 l2 : list A) j : length l1 <= j -> nth_opt (l1 ++ l2) j = nth_opt l2 (j - length l1).
Proof.
  revert j. induction l1 as [|x t IH]; intros j H; cbn [length app] in *.
  - rewrite Nat.sub_0_r. reflexivity.
  - destruct j as [|j]; [lia|]. cbn [nth_opt]. rewrite IH by lia. reflexivity.
Qed.

Lemma nth_opt_In {A} (l : list A) j x : nth_opt l j = Some x -> In x l.
Proof.
  revert j. induction l as [|y t IH]; intros [|j] H; cbn [nth_opt] in H; try discriminate.
  - injection H as <-. left. reflexivity.
  - right. eapply IH; eauto.
Qed.

Lemma In_nth_opt {A} (l : list A) x : In x l -> exists j, nth_opt l j = Some x.
Proof.
  induction l as [|y t IH]; intros H; [destruct H|].
  destruct H as [->|H]; [exists 0; reflexivity|]. destruct (IH H) as [j Hj]. exists (S j). exact Hj.
Qed.

Lemma filter_none {A} (p : A -> bool) l : Forall (fun x => p x = false) l -> filter p l = [].
Proof. induction 1 as [|x t Hx _ IH]; cbn [filter]; [reflexivity|rewrite Hx; exact IH]. Qed.

Lemma filter_all {A} (p : A -> bool) l : Forall (fun x => p x = true) l -> filter p l = l.
Proof. induction 1 as [|x t Hx _ IH]; cbn [filter]; [reflexivity|rewrite Hx; f_equal; exact IH]. Qed.

Lemma filter_filter {A} (p r : A -> bool) l : filter p (filter r l) = filter (fun x => p x && r x) l.
Proof.
  induction l as [|x t IH]; cbn [filter]; [reflexivity|].
  destruct (r x) eqn:Er; cbn [filter]; rewrite ?andb_true_r, ?andb_false_r.
  - destruct (p x); rewrite IH; reflexivity.
  - exact IH.
Qed.

Lemma StronglySorted_filter {A} (R : A -> A -> Prop) (p : A -> bool) l :
  StronglySorted R l -> StronglySorted R (filter p l).
Proof.
  induction 1 as [|x t Hs IH Hf]; cbn [filter]; [constructor|].
  destruct (p x); [|exact IH]. constructor; [exact IH|].
  rewrite Forall_forall in *. intros y Hy. apply filter_In in Hy. apply Hf, Hy.
Qed.

Lemma StronglySorted_app {A} (R : A -> A -> Prop) l1 l2 :
  StronglySorted R l1 -> StronglySorted R l2 -> (forall a b, In a l1 -> In b l2 -> R a b) ->
  StronglySorted R (l1 ++ l2).
Proof.
  induction 1 as [|x t Hs IH Hf]; intros H2 Hc; cbn [app]; [exact H2|].
  constructor.
  - apply IH; auto. intros a b Ha Hb. apply Hc; [right; exact Ha|exact Hb].
  - apply Forall_app. split; [exact Hf|]. rewrite Forall_forall. intros b Hb. apply Hc; [left; reflexivity|exact Hb].
Qed.

Lemma StronglySorted_impl_in {A} (R1 R2 : A -> A -> Prop) l :
  (forall a b, In a l -> In b l -> R1 a b -> R2 a b) -> StronglySorted R1 l -> StronglySorted R2 l.
Proof.
  intros Hi H. induction H as [|x t Hs IH Hf]; [constructor|].
  constructor.
  - apply IH. intros a b Ha Hb. apply Hi; right; assumption.
  - rewrite Forall_forall in *. intros b Hb. apply Hi; [left; reflexivity|right; exact Hb|apply Hf, Hb].
Qed.

(* ------------------------------------------------------------------ *)
(* a list sorted by an N-valued key, cut at thresholds                  *)
(* ------------------------------------------------------------------ *)

Definition key_le (key : nat -> N) (a b : nat) : Prop := (key a <= key b)%N.

(* what `par_sort_unstable_by_key` guarantees (tie order arbitrary) *)
Definition sort_contract (sorter : (nat -> N) -> list nat -> list nat) : Prop :=
  forall key l, Permutation (sorter key l) l /\ StronglySorted (key_le key) (sorter key l).

Section Cut.
  Variable key : nat -> N.
  Definition lt_n (n : nat) (i : nat) : bool := (key i <? N.of_nat n)%N.
  Definition f_lt (n : nat) (L : list nat) := filter (lt_n n) L.
  Definition g_ge (n : nat) (L : list nat) := filter (fun i => negb (lt_n n i)) L.
  Definition e_eq (n : nat) (L : list nat) := filter (fun i => (key i =? N.of_nat n)%N) L.

  Lemma sorted_split n L : StronglySorted (key_le key) L -> L = f_lt n L ++ g_ge n L.
  Proof.
    unfold f_lt, g_ge. induction 1 as [|y t Hs IH Hf]; cbn [filter]; [reflexivity|].
    destruct (lt_n n y) eqn:E; cbn [negb app].
    - f_equal. exact IH.
    - assert (HF : Forall (fun z => lt_n n z = false) t).
      { rewrite Forall_forall in *. intros z Hz. specialize (Hf z Hz). unfold key_le, lt_n in *.
        destruct (N.ltb_spec (key y) (N.of_nat n)); [discriminate|].
        destruct (N.ltb_spec (key z) (N.of_nat n)); [lia|reflexivity]. }
      rewrite (filter_none _ _ HF). cbn [app]. f_equal. symmetry. apply filter_all.
      eapply Forall_impl; [|exact HF]. cbn beta. intros z ->. reflexivity.
  Qed.

  Lemma g_ge_0 L : g_ge 0 L = L.
  Proof.
    unfold g_ge. apply filter_all. rewrite Forall_forall. intros x _. unfold lt_n.
    destruct (N.ltb_spec (key x) (N.of_nat 0)); [lia|reflexivity].
  Qed.

  Lemma f_lt_0 L : f_lt 0 L = [].
  Proof.
    unfold f_lt. apply filter_none. rewrite Forall_forall. intros x _. unfold lt_n.
    destruct (N.ltb_spec (key x) (N.of_nat 0)); [lia|reflexivity].
  Qed.

  Lemma g_ge_step a L : StronglySorted (key_le key) L -> g_ge a L = e_eq a L ++ g_ge (S a) L.
  Proof.
    intros Hs.
    assert (Hg : StronglySorted (key_le key) (g_ge a L)) by (apply StronglySorted_filter, Hs).
    rewrite (sorted_split (S a) _ Hg) at 1. unfold f_lt, g_ge, e_eq. rewrite !filter_filter. f_equal.
    - apply filter_ext. intros x. unfold lt_n.
      destruct (N.ltb_spec (key x) (N.of_nat (S a))), (N.ltb_spec (key x) (N.of_nat a)), (N.eqb_spec (key x) (N.of_nat a));
        cbn [negb andb]; try reflexivity; lia.
    - apply filter_ext. intros x. unfold lt_n.
      destruct (N.ltb_spec (key x) (N.of_nat (S a))), (N.ltb_spec (key x) (N.of_nat a));
        cbn [negb andb]; try reflexivity; lia.
  Qed.

  (* the positions the binary searches find: #{key < n} *)
  Definition cut (n : nat) (L : list nat) : nat := length (f_lt n L).

  Lemma cut_step a L : StronglySorted (key_le key) L -> cut (S a) L = cut a L + length (e_eq a L).
  Proof.
    intros Hs. unfold cut.
    pose proof (f_equal (@length nat) (sorted_split a L Hs)) as E1.
    pose proof (f_equal (@length nat) (sorted_split (S a) L Hs)) as E2.
    rewrite (g_ge_step a L Hs) in E1. rewrite !app_length in *. lia.
  Qed.

  Lemma split_positions_spec L : StronglySorted (key_le key) L -> forall ns,
    split_positions key L ns = Ok (map (fun n => cut n L) ns).
  Proof.
    intros Hs. induction ns as [|n nt IH]; cbn [split_positions map]; [reflexivity|].
    rewrite (bsearch_by_partition_point _ L (cut n L)).
    - rewrite IH. reflexivity.
    - intros x. destruct (key x <? N.of_nat n)%N; discriminate.
    - unfold cut, f_lt. rewrite (sorted_split n L Hs) at 2. rewrite app_length. unfold f_lt. lia.
    - intros j x Hx. unfold cut. rewrite (sorted_split n L Hs) in Hx.
      fold (lt_n n x). destruct (Nat.lt_ge_cases j (length (f_lt n L))) as [Hj|Hj].
      + rewrite nth_opt_app_l in Hx by exact Hj. apply nth_opt_In in Hx.
        unfold f_lt in Hx. apply filter_In in Hx. destruct Hx as [_ ->]. split; auto.
      + rewrite nth_opt_app_r in Hx by exact Hj. apply nth_opt_In in Hx.
        unfold g_ge in Hx. apply filter_In in Hx. destruct Hx as [_ Hn].
        destruct (lt_n n x); [discriminate|]. split; [lia|discriminate].
  Qed.

  Lemma split_at_many_spec L : StronglySorted (key_le key) L -> forall m a,
    split_at_many (g_ge a L) (map (fun n => cut n L) (seq (S a) m)) (cut a L)
    = Ok (map (fun n => e_eq n L) (seq a m) ++ [g_ge (a + m) L]).
  Proof.
    intros Hs. induction m as [|m IH]; intros a; cbn [seq map split_at_many].
    - rewrite Nat.add_0_r. reflexivity.
    - pose proof (cut_step a L Hs) as Hc.
      destruct (Nat.ltb_spec (cut (S a) L) (cut a L)) as [C|_]; [lia|].
      replace (cut (S a) L - cut a L) with (length (e_eq a L)) by lia.
      rewrite (g_ge_step a L Hs). rewrite app_length.
      destruct (Nat.ltb_spec (length (e_eq a L) + length (g_ge (S a) L)) (length (e_eq a L))) as [C|_]; [lia|].
      rewrite firstn_length_app, skipn_length_app.
      replace (cut a L + length (e_eq a L)) with (cut (S a) L) by lia.
      rewrite IH. cbn [bind app]. replace (S a + m) with (a + S m) by lia. reflexivity.
  Qed.

  (* all slices of the recursion: slice n = the points whose quadrant is n *)
  Lemma slices_spec nq L :
    1 <= nq -> (forall x, In x L -> (key x < N.of_nat nq)%N) -> StronglySorted (key_le key) L ->
    split_at_many L (map (fun n => cut n L) (seq 1 (nq - 1))) 0 = Ok (map (fun n => e_eq n L) (seq 0 nq)).
  Proof.
    intros Hq Hr Hs.
    pose proof (split_at_many_spec L Hs (nq - 1) 0) as H.
    rewrite g_ge_0 in H. unfold cut at 2 in H. rewrite f_lt_0 in H. cbn [length] in H.
    rewrite H. f_equal.
    replace nq with ((nq - 1) + 1) at 3 by lia. rewrite seq_app, map_app. f_equal.
    cbn [seq map Nat.add]. f_equal.
    unfold g_ge, e_eq. apply filter_ext_in. intros x Hx. specialize (Hr x Hx). unfold lt_n.
    destruct (N.ltb_spec (key x) (N.of_nat (nq - 1))), (N.eqb_spec (key x) (N.of_nat (nq - 1)));
      cbn [negb]; try reflexivity; lia.
  Qed.
End Cut.

Lemma split_at_many_concat {A} : forall positions (l : list A) drained sl,
  split_at_many l positions drained = Ok sl -> concat sl = l.
Proof.
  induction positions as [|pos pt IH]; intros l drained sl H; cbn [split_at_many] in H.
  - injection H as <-. cbn [concat]. apply app_nil_r.
  - destruct (Nat.ltb pos drained); [discriminate|].
    destruct (Nat.ltb (length l) (pos - drained)); [discriminate|].
    destruct (split_at_many (skipn (pos - drained) l) pt (drained + (pos - drained))) as [r| | |] eqn:E;
      cbn [bind] in H; try discriminate.
    injection H as <-. cbn [concat]. rewrite (IH _ _ _ E). apply firstn_skipn.
Qed.

Lemma nth_opt_map_seq {B} (f : nat -> B) : forall m a d s,
  nth_opt (map f (seq a m)) d = Some s -> s = f (a + d) /\ d < m.
Proof.
  induction m as [|m IH]; intros a d s H; cbn [seq map nth_opt] in H; [destruct d; discriminate|].
  destruct d as [|d]; cbn [nth_opt] in H.
  - injection H as <-. rewrite Nat.add_0_r. split; [reflexivity|lia].
  - apply IH in H. destruct H as [-> Hd]. split; [f_equal; lia|lia].
Qed.

(* ------------------------------------------------------------------ *)
(* the quadrant recursion sorts by the depth-[order] cell               *)
(* ------------------------------------------------------------------ *)

Lemma lex_leb_cons_same x a b : lex_leb (x :: a) (x :: b) = lex_leb a b.
Proof. cbn [lex_leb]. rewrite N.ltb_irrefl, N.eqb_refl. reflexivity. Qed.

Lemma lex_leb_cons_lt x y a b : (x < y)%N -> lex_leb (x :: a) (y :: b) = true.
Proof. intros H. cbn [lex_leb]. destruct (N.ltb_spec x y); [reflexivity|lia]. Qed.

Lemma lex_leb_refl a : lex_leb a a = true.
Proof. induction a as [|x t IH]; [reflexivity|rewrite lex_leb_cons_same; exact IH]. Qed.

(* a comes before-or-with b in depth-[o] Z order, for the boxes below [path] *)
Definition Rc (q : list N -> nat -> N) (o : nat) (path : list N) (a b : nat) : Prop :=
  lex_leb (zcode q o path a) (zcode q o path b) = true.

Lemma StronglySorted_total {A} (R : A -> A -> Prop) l : (forall a b, R a b) -> StronglySorted R l.
Proof.
  intros H. induction l as [|x t IH]; constructor; [exact IH|]. rewrite Forall_forall. intros; apply H.
Qed.

Lemma zslices_spec q o path (rec : N -> list nat -> res (list nat)) :
  (forall j s, exists r, rec (N.of_nat j) s = Ok r /\ Permutation r s
                         /\ StronglySorted (Rc q o (path ++ [N.of_nat j])) r) ->
  forall sl i,
  (forall d s, nth_opt sl d = Some s -> Forall (fun x => q path x = N.of_nat (i + d)) s) ->
  exists r, zslices rec i sl = Ok r /\ Permutation r (concat sl) /\ StronglySorted (Rc q (S o) path) r.
Proof.
  intros Hrec. induction sl as [|s st IH]; intros i Hk; cbn [zslices concat].
  - exists []. repeat split; constructor.
  - destruct (Hrec i s) as [r1 [E1 [P1 S1]]].
    destruct (IH (S i)) as [r2 [E2 [P2 S2]]].
    { intros d s' Hd. specialize (Hk (S d) s' Hd). replace (S i + d) with (i + S d) by lia. exact Hk. }
    rewrite E1. cbn [bind]. rewrite E2. cbn [bind]. exists (r1 ++ r2).
    split; [reflexivity|]. split; [apply Permutation_app; assumption|].
    assert (K1 : forall a, In a r1 -> q path a = N.of_nat i).
    { intros a Ha. pose proof (Hk 0 s eq_refl) as F. rewrite Forall_forall in F.
      rewrite <- (Nat.add_0_r i). apply F. eapply Permutation_in; eauto. }
    assert (K2 : forall b, In b r2 -> (N.of_nat i < q path b)%N).
    { intros b Hb. apply (Permutation_in _ P2) in Hb. apply in_concat in Hb.
      destruct Hb as [s' [Hs' Hb]]. destruct (In_nth_opt _ _ Hs') as [d Hd].
      pose proof (Hk (S d) s' Hd) as F. rewrite Forall_forall in F. rewrite (F b Hb). lia. }
    apply StronglySorted_app.
    + eapply StronglySorted_impl_in; [|exact S1]. intros a b Ha Hb HR.
      unfold Rc in *. cbn [zcode]. rewrite (K1 a Ha), (K1 b Hb), lex_leb_cons_same. exact HR.
    + exact S2.
    + intros a b Ha Hb. unfold Rc. cbn [zcode]. apply lex_leb_cons_lt. rewrite (K1 a Ha). apply K2, Hb.
Qed.

Theorem zrec_spec nq q sorter :
  1 <= nq -> sort_contract sorter -> (forall path x, (q path x < N.of_nat nq)%N) ->
  forall order path permu,
  exists r, zrec nq q sorter order path permu = Ok r /\ Permutation r permu
            /\ StronglySorted (Rc q order path) r.
Proof.
  intros Hnq Hsort Hq. induction order as [|o IH]; intros path permu.
  - exists permu. split; [reflexivity|]. split; [apply Permutation_refl|].
    apply StronglySorted_total. intros a b. reflexivity.
  - cbn [zrec]. destruct (Nat.leb_spec (length permu) 1) as [Hl|Hl].
    + exists permu. split; [reflexivity|]. split; [apply Permutation_refl|].
      destruct permu as [|x [|y t]]; [constructor|constructor; constructor|cbn [length] in Hl; lia].
    + destruct (Hsort (q path) permu) as [HP HS].
      set (L := sorter (q path) permu) in *.
      rewrite (split_positions_spec (q path) L HS). cbn [bind].
      rewrite (slices_spec (q path) nq L Hnq (fun x _ => Hq path x) HS). cbn [bind].
      destruct (zslices_spec q o path (fun i s => zrec nq q sorter o (path ++ [i]) s))
        with (sl := map (fun n => e_eq (q path) n L) (seq 0 nq)) (i := 0) as [r [E [P S']]].
      * intros j s. apply IH.
      * intros d s Hd. apply nth_opt_map_seq in Hd. destruct Hd as [-> _]. cbn [Nat.add].
        rewrite Forall_forall. intros x Hx. unfold e_eq in Hx. apply filter_In in Hx.
        destruct Hx as [_ Hx]. apply N.eqb_eq in Hx. exact Hx.
      * exists r. split; [exact E|]. split; [|exact S'].
        eapply Permutation_trans; [exact P|].
        pose proof (slices_spec (q path) nq L Hnq (fun x _ => Hq path x) HS) as Hsl.
        apply split_at_many_concat in Hsl. rewrite Hsl. exact HP.
Qed.

(* ------------------------------------------------------------------ *)
(* chunk numbering                                                      *)
(* ------------------------------------------------------------------ *)

Lemma chunks_exact {A} : forall m size (l : list A) fuel,
  1 <= size -> length l = size * m -> length l <= fuel ->
  concat (chunks fuel size l) = l /\ length (chunks fuel size l) = m
  /\ Forall (fun c => length c = size) (chunks fuel size l).
Proof.
  induction m as [|m IH]; intros size l fuel Hs Hl Hf.
  - rewrite Nat.mul_0_r in Hl. destruct l; [|discriminate]. destruct fuel; cbn [chunks concat length]; auto.
  - destruct l as [|x t] eqn:El; [cbn [length] in Hl; lia|]. rewrite <- El in *.
    destruct fuel as [|f]; [subst l; cbn [length] in Hf; lia|].
    assert (E : chunks (S f) size l = firstn size l :: chunks f size (skipn size l)) by (subst l; reflexivity).
    rewrite E. clear E.
    assert (Hfn : length (firstn size l) = size) by (rewrite firstn_length; lia).
    destruct (IH size (skipn size l) f) as [C1 [C2 C3]]; try lia.
    { rewrite skipn_length. lia. }
    { rewrite skipn_length. lia. }
    cbn [concat length]. rewrite C1, C2. repeat split; auto using firstn_skipn.
Qed.

Lemma write_ids_spec : forall c p id,
  Forall (fun a => a < length p) c ->
  exists p', write_ids p c id = Ok p' /\ length p' = length p
    /\ (forall a, In a c -> nth_opt p' a = Some id)
    /\ (forall a, ~ In a c -> nth_opt p' a = nth_opt p a).
Proof.
  induction c as [|i t IH]; intros p id HF; cbn [write_ids].
  - exists p. repeat split; auto. intros a [].
  - inversion HF as [|? ? Hi Ht]; subst.
    destruct (Nat.ltb_spec i (length p)) as [_|C]; [|lia].
    destruct (IH (set_nth p i id) id) as [p' [E [L [W U]]]].
    { rewrite set_nth_length. exact Ht. }
    exists p'. split; [exact E|]. split; [rewrite L; apply set_nth_length|]. split.
    + intros a [->|Ha]; [|apply W, Ha].
      destruct (in_dec Nat.eq_dec a t) as [Hin|Hnin]; [apply W, Hin|].
      rewrite (U a Hnin). apply nth_opt_set_nth_same. exact Hi.
    + intros a Ha. rewrite U by (intros C; apply Ha; right; exact C).
      apply nth_opt_set_nth_other. intros ->. apply Ha. left. reflexivity.
Qed.

Lemma NoDup_app_inv {A} (l1 l2 : list A) :
  NoDup (l1 ++ l2) -> NoDup l1 /\ NoDup l2 /\ (forall a, In a l1 -> ~ In a l2).
Proof.
  induction l1 as [|x t IH]; cbn [app]; intros H.
  - repeat split; [constructor|exact H|intros a []].
  - inversion H as [|? ? Hx Ht]; subst. destruct (IH Ht) as [N1 [N2 D]].
    repeat split; auto.
    + constructor; [|exact N1]. intros C. apply Hx. apply in_or_app. left. exact C.
    + intros a [->|Ha] C; [apply Hx; apply in_or_app; right; exact C|eapply D; eauto].
Qed.

Definition blocks_ok (p : list N) (cs : list (list nat)) (id : N) : Prop :=
  forall d c, nth_opt cs d = Some c -> Forall (fun a => nth_opt p a = Some (id + N.of_nat d)%N) c.

Lemma write_chunks_spec : forall cs p id,
  NoDup (concat cs) -> Forall (fun a => a < length p) (concat cs) ->
  exists p', write_chunks p cs id = Ok p' /\ length p' = length p
    /\ blocks_ok p' cs id
    /\ (forall a, ~ In a (concat cs) -> nth_opt p' a = nth_opt p a).
Proof.
  induction cs as [|c ct IH]; intros p id Hnd Hb; cbn [write_chunks concat] in *.
  - exists p. repeat split; auto. intros d c H. destruct d; discriminate.
  - apply Forall_app in Hb. destruct Hb as [Hbc Hbt].
    destruct (write_ids_spec c p id Hbc) as [p1 [E1 [L1 [W1 U1]]]].
    rewrite E1. cbn [bind].
    destruct (IH p1 (id + 1)%N) as [p' [E [L [B U]]]].
    { apply NoDup_app_inv in Hnd. tauto. }
    { rewrite L1. exact Hbt. }
    exists p'. split; [exact E|]. split; [congruence|]. split.
    + intros d c' Hd. destruct d as [|d]; cbn [nth_opt] in Hd.
      * injection Hd as <-. rewrite Forall_forall. intros a Ha.
        rewrite U.
        -- rewrite N.add_0_r. apply W1, Ha.
        -- intros C. apply NoDup_app_inv in Hnd. destruct Hnd as [_ [_ D]]. eapply D; eauto.
      * specialize (B d c' Hd). eapply Forall_impl; [|exact B]. cbn beta. intros a ->. f_equal. lia.
    + intros a Ha. rewrite U by (intros C; apply Ha; apply in_or_app; right; exact C).
      apply U1. intros C. apply Ha. apply in_or_app. left. exact C.
Qed.

Lemma runs_ok_of_chunks parts : forall cs j,
  blocks_ok parts cs j -> runs_ok parts (concat cs) (map (@length nat) cs) j.
Proof.
  induction cs as [|c ct IH]; intros j HB; cbn [concat map runs_ok]; [reflexivity|].
  exists c, (concat ct). split; [reflexivity|]. split; [reflexivity|]. split.
  - pose proof (HB 0 c eq_refl) as F. eapply Forall_impl; [|exact F]. cbn beta. intros a ->. f_equal. lia.
  - apply IH. intros d c' Hd. specialize (HB (S d) c' Hd).
    eapply Forall_impl; [|exact HB]. cbn beta. intros a ->. f_equal. lia.
Qed.

Lemma runs_ok_app parts : forall s1 perm1 perm2 s2 j,
  runs_ok parts perm1 s1 j -> runs_ok parts perm2 s2 (j + N.of_nat (length s1))%N ->
  runs_ok parts (perm1 ++ perm2) (s1 ++ s2) j.
Proof.
  induction s1 as [|s st IH]; intros perm1 perm2 s2 j H1 H2; cbn [runs_ok app length] in *.
  - subst perm1. cbn [app]. replace (j + N.of_nat 0)%N with j in H2 by lia. exact H2.
  - destruct H1 as [b [rest [-> [Hl [Hf Hr]]]]].
    exists b, (rest ++ perm2). split; [rewrite app_assoc; reflexivity|]. split; [exact Hl|]. split; [exact Hf|].
    apply IH; [exact Hr|]. replace (j + 1 + N.of_nat (length st))%N with (j + N.of_nat (S (length st)))%N by lia.
    exact H2.
Qed.

Lemma runs_ok_nil_zeros parts : forall m j, runs_ok parts [] (repeat 0 m) j.
Proof.
  induction m as [|m IH]; intros j; cbn [repeat runs_ok]; [reflexivity|].
  exists [], []. repeat split; auto.
Qed.

Lemma map_length_repeat {A} (cs : list (list A)) size :
  Forall (fun c => length c = size) cs -> map (@length A) cs = repeat size (length cs).
Proof. induction 1 as [|c ct Hc _ IH]; cbn [map length repeat]; [reflexivity|rewrite Hc, IH; reflexivity]. Qed.

Lemma map_const_seq {B} (f : nat -> B) c : forall m a,
  (forall j, a <= j < a + m -> f j = c) -> map f (seq a m) = repeat c m.
Proof.
  induction m as [|m IH]; intros a H; cbn [seq map repeat]; [reflexivity|].
  rewrite H by lia. f_equal. apply IH. intros j Hj. apply H. lia.
Qed.

Lemma block_sizes_eq n k : 1 <= k ->
  block_sizes n k = repeat (n / k + 1) (n mod k) ++ repeat (n / k) (k - n mod k).
Proof.
  intros Hk. unfold block_sizes.
  assert (Hr : n mod k < k) by (apply Nat.mod_upper_bound; lia).
  assert (E : seq 0 k = seq 0 (n mod k) ++ seq (0 + n mod k) (k - n mod k))
    by (rewrite <- seq_app; f_equal; lia).
  rewrite E, map_app. cbn [Nat.add]. f_equal.
  - apply map_const_seq. intros j Hj. unfold chunk_size.
    destruct (Nat.ltb_spec j (n mod k)); [reflexivity|lia].
  - apply map_const_seq. intros j Hj. unfold chunk_size.
    destruct (Nat.ltb_spec j (n mod k)); [lia|]. destruct (Nat.ltb_spec j k); [reflexivity|lia].
Qed.

Lemma list_sum_repeat c m : list_sum (repeat c m) = c * m.
Proof.
  induction m as [|m IH]; cbn [repeat]; [cbn; lia|].
  change (list_sum (c :: repeat c m)) with (c + list_sum (repeat c m)). rewrite IH. lia.
Qed.

(* the arithmetic of the chunking: sizes differ by at most one and sum to n;
   with more parts than points the first n parts have one point, the others none *)
Theorem chunk_sizes n k : 1 <= k ->
  list_sum (block_sizes n k) = n
  /\ (forall j j', j < k -> j' < k -> chunk_size n k j <= chunk_size n k j' + 1)
  /\ (forall j, k <= j -> chunk_size n k j = 0)
  /\ (k <= n -> forall j, j < k -> 1 <= chunk_size n k j)
  /\ (n < k -> forall j, chunk_size n k j = if Nat.ltb j n then 1 else 0).
Proof.
  intros Hk.
  assert (Hr : n mod k < k) by (apply Nat.mod_upper_bound; lia).
  pose proof (Nat.div_mod n k ltac:(lia)) as Hdm.
  split; [|split; [|split; [|split]]].
  - rewrite block_sizes_eq by exact Hk. rewrite list_sum_app, !list_sum_repeat. nia.
  - intros j j' Hj Hj'. unfold chunk_size.
    destruct (Nat.ltb_spec j (n mod k)), (Nat.ltb_spec j' (n mod k)), (Nat.ltb_spec j k), (Nat.ltb_spec j' k); lia.
  - intros j Hj. unfold chunk_size.
    destruct (Nat.ltb_spec j (n mod k)); [lia|]. destruct (Nat.ltb_spec j k); [lia|reflexivity].
  - intros Hn j Hj. unfold chunk_size.
    assert (1 <= n / k) by (apply Nat.div_str_pos; lia).
    destruct (Nat.ltb_spec j (n mod k)); [lia|]. destruct (Nat.ltb_spec j k); lia.
  - intros Hn j. unfold chunk_size. rewrite (Nat.div_small n k Hn), (Nat.mod_small n k Hn).
    destruct (Nat.ltb_spec j n); [reflexivity|]. destruct (Nat.ltb_spec j k); reflexivity.
Qed.

Theorem z_assign_spec perm k p0 :
  1 <= k -> NoDup perm -> Forall (fun a => a < length p0) perm ->
  exists p, z_assign true perm k p0 = Ok p /\ length p = length p0
    /\ runs_ok p perm (block_sizes (length perm) k) 0%N
    /\ (forall a, ~ In a perm -> nth_opt p a = nth_opt p0 a).
Proof.
  intros Hk Hnd Hb. unfold z_assign.
  set (n := length perm). set (q := n / k). set (r := n mod k).
  assert (Hr : r < k) by (apply Nat.mod_upper_bound; lia).
  pose proof (Nat.div_mod n k ltac:(lia)) as Hdm. fold q r in Hdm.
  destruct k as [|k']; [lia|]. set (k := S k') in *.
  assert (Hthr : (q + 1) * r <= n) by nia.
  destruct (Nat.ltb_spec n ((q + 1) * r)) as [C|_]; [lia|].
  destruct (Nat.max 1 q) as [|s'] eqn:Emax; [lia|]. rewrite <- Emax. clear s' Emax.
  set (thr := (q + 1) * r) in *.
  set (l1 := firstn thr perm). set (l2 := skipn thr perm).
  assert (Hl1 : length l1 = (q + 1) * r) by (unfold l1; rewrite firstn_length; fold n; lia).
  assert (Hl2 : length l2 = q * (k - r)) by (unfold l2; rewrite skipn_length; fold n; nia).
  destruct (chunks_exact r (q + 1) l1 thr) as [C1 [C1l C1f]]; try lia.
  set (cs1 := chunks thr (q + 1) l1) in *.
  set (cs2 := chunks (n - thr) (Nat.max 1 q) l2).
  assert (C2 : concat cs2 = l2
               /\ forall parts j, blocks_ok parts cs2 j -> runs_ok parts l2 (repeat q (k - r)) j).
  { destruct q as [|q'] eqn:Eq.
    - assert (l2 = []) by (destruct l2; [reflexivity|cbn [length] in Hl2; lia]).
      assert (E0 : forall f s, @chunks nat f s [] = []) by (intros [|f] s; reflexivity).
      unfold cs2. rewrite H, E0. split; [reflexivity|].
      intros parts j _. apply runs_ok_nil_zeros.
    - destruct (chunks_exact (k - r) (S q') l2 (n - thr)) as [D1 [D2 D3]]; try lia.
      assert (Ecs2 : cs2 = chunks (n - thr) (S q') l2) by (unfold cs2; f_equal; lia).
      rewrite Ecs2. split; [exact D1|].
      intros parts j HB. apply runs_ok_of_chunks in HB.
      rewrite D1, (map_length_repeat _ _ D3), D2 in HB. exact HB. }
  destruct C2 as [C2 C2r].
  assert (Hcat : concat (cs1 ++ cs2) = perm).
  { rewrite concat_app, C1, C2. apply firstn_skipn. }
  destruct (write_chunks_spec (cs1 ++ cs2) p0 0%N) as [p [E [L [B U]]]].
  { rewrite Hcat. exact Hnd. }
  { rewrite Hcat. exact Hb. }
  exists p. split; [exact E|]. split; [exact L|]. split; [|rewrite Hcat in U; exact U].
  rewrite block_sizes_eq by lia. fold n q r.
  rewrite <- (firstn_skipn thr perm). fold l1 l2.
  apply runs_ok_app.
  - rewrite <- C1. replace (repeat (q + 1) r) with (map (@length nat) cs1)
      by (rewrite (map_length_repeat _ _ C1f), C1l; reflexivity).
    apply runs_ok_of_chunks. intros d c Hd. apply B.
    rewrite nth_opt_app_l; [exact Hd|]. eapply nth_opt_Some; eauto.
  - rewrite repeat_length. apply C2r. intros d c Hd.
    pose proof (B (length cs1 + d) c) as B'.
    rewrite nth_opt_app_r in B' by lia. replace (length cs1 + d - length cs1) with d in B' by lia.
    specialize (B' Hd). eapply Forall_impl; [|exact B']. cbn beta. intros a ->. f_equal. lia.
Qed.

(* every point of the permutation gets the id of a non-empty block *)
Lemma runs_ok_ids parts : forall sizes perm j,
  runs_ok parts perm sizes j ->
  Forall (fun a => exists d, d < length sizes /\ nth_opt parts a = Some (j + N.of_nat d)%N
                             /\ 1 <= nth d sizes 0) perm.
Proof.
  induction sizes as [|s st IH]; intros perm j H; cbn [runs_ok] in H.
  - subst perm. constructor.
  - destruct H as [b [rest [-> [Hl [Hf Hr]]]]]. apply Forall_app. split.
    + rewrite Forall_forall in *. intros a Ha. exists 0. cbn [length nth].
      split; [lia|]. split; [rewrite N.add_0_r; apply Hf, Ha|].
      destruct b; [destruct Ha|cbn [length] in Hl; lia].
    + specialize (IH rest (j + 1)%N Hr). eapply Forall_impl; [|exact IH]. cbn beta.
      intros a [d [Hd [Hp Hs]]]. exists (S d). cbn [length nth]. split; [lia|]. split; [|exact Hs].
      rewrite Hp. f_equal. lia.
Qed.

(* ------------------------------------------------------------------ *)
(* z_curve_partition as a whole                                         *)
(* ------------------------------------------------------------------ *)

(* C09 for ZCurve: for every quadrant function and every sort oracle, inside
   the contract the call returns, the final permutation is a permutation of
   the points sorted by their depth-[order] Z cell, and the parts are
   consecutive blocks of it of sizes [block_sizes n k]. *)
Theorem zcurve_runs nq maxo q sorter order k n p0 :
  1 <= nq -> sort_contract sorter -> (forall path x, (q path x < N.of_nat nq)%N) ->
  length p0 = n -> order <= maxo -> 1 <= k ->
  exists p, zcurve true nq maxo q sorter order k n p0 = Ok p /\ length p = n
    /\ exists perm, Permutation perm (seq 0 n)
         /\ StronglySorted (Rc q order []) perm
         /\ runs_ok p perm (block_sizes n k) 0%N.
Proof.
  intros Hnq Hsort Hq Hl Ho Hk. unfold zcurve.
  rewrite Hl, Nat.eqb_refl. cbn [negb].
  destruct (Nat.ltb_spec maxo order) as [C|_]; [lia|].
  destruct (zrec_spec nq q sorter Hnq Hsort Hq order [] (seq 0 n)) as [perm [E [P S']]].
  assert (Hlen : length perm = n) by (rewrite (Permutation_length P); apply seq_length).
  assert (Hnd : NoDup perm) by (eapply Permutation_NoDup; [apply Permutation_sym; exact P|apply seq_NoDup]).
  assert (Hb : Forall (fun a => a < length p0) perm).
  { rewrite Forall_forall. intros a Ha. apply (Permutation_in _ P) in Ha. apply in_seq in Ha. lia. }
  destruct (z_assign_spec perm k p0 Hk Hnd Hb) as [p [EA [LA [RA _]]]].
  rewrite Hlen in RA.
  destruct n as [|n'].
  - destruct p0; [|discriminate]. destruct perm; [|discriminate].
    exists []. split; [reflexivity|]. split; [reflexivity|].
    exists []. split; [constructor|]. split; [constructor|].
    assert (p = []) by (destruct p; [reflexivity|discriminate]). subst p. exact RA.
  - rewrite E. cbn [bind]. exists p. split; [exact EA|]. split; [congruence|].
    exists perm. auto.
Qed.

(* ids are below part_count; with more parts than points, below the number of points *)
Theorem zcurve_ids_lt nq maxo q sorter order k n p0 p :
  1 <= nq -> sort_contract sorter -> (forall path x, (q path x < N.of_nat nq)%N) ->
  length p0 = n -> order <= maxo -> 1 <= k ->
  zcurve true nq maxo q sorter order k n p0 = Ok p ->
  Forall (fun x => (x < N.of_nat (Nat.min k n))%N) p.
Proof.
  intros Hnq Hsort Hq Hl Ho Hk H.
  destruct (zcurve_runs nq maxo q sorter order k n p0 Hnq Hsort Hq Hl Ho Hk)
    as [p' [E [Lp [perm [P [_ R]]]]]].
  rewrite H in E. injection E as <-.
  apply runs_ok_ids in R. rewrite Forall_forall in R.
  apply Forall_forall. intros x Hx. destruct (In_nth_opt _ _ Hx) as [a Ha].
  assert (Hin : In a perm).
  { apply (Permutation_in a (Permutation_sym P)). apply in_seq. apply nth_opt_Some in Ha. lia. }
  destruct (R a Hin) as [d [Hd [Hp Hs]]]. rewrite Ha in Hp. injection Hp as ->.
  unfold block_sizes in Hd, Hs. rewrite map_length, seq_length in Hd.
  rewrite (nth_indep _ 0 (chunk_size n k 0)) in Hs by (rewrite map_length, seq_length; exact Hd).
  rewrite map_nth, seq_nth in Hs by exact Hd. cbn [Nat.add] in Hs.
  destruct (Nat.lt_ge_cases n k) as [Hnk|Hnk].
  - destruct (chunk_sizes n k Hk) as [_ [_ [_ [_ Hsmall]]]]. rewrite (Hsmall Hnk d) in Hs.
    destruct (Nat.ltb_spec d n); lia.
  - lia.
Qed.

(* outside the contract: what the model does *)
Theorem zcurve_order_panics guard nq maxo q sorter order k n p0 :
  length p0 = n -> maxo < order -> zcurve guard nq maxo q sorter order k n p0 = Panic 30.
Proof.
  intros Hl Ho. unfold zcurve. rewrite Hl, Nat.eqb_refl. cbn [negb].
  destruct (Nat.ltb_spec maxo order); [reflexivity|lia].
Qed.

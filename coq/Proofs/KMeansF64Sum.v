(* binary64: a sum of integers whose absolute values add up to at most 2^53 does
   not depend on the order of the additions -- [sums_exact] and [vsums_exact]
   (Proofs/KMeansSched.v) for [sum_ok_f64].
   f64 `+` on two integers below 2^53 whose sum is below 2^53 is exact: Flocq's
   Bplus_correct.  This file uses the real-number axioms of Coq's standard
   library through Flocq (named in the trusted base). *)
From Coq Require Import ZArith Reals Lia Lra Psatz Bool Floats.SpecFloat.
From Flocq Require Import Core BinarySingleNaN.
From Coupe Require Import Lib.Prelude Lib.SFloat Lib.Rayon Model.KMeansAbs Model.KMeans
  Proofs.ArcSwapFloat Proofs.KMeansSched.

Local Open Scope Z_scope.

Local Notation prec := 53%Z.
Local Notation emax := 1024%Z.
#[local] Existing Instance Hprec.
#[local] Existing Instance Hmax.
Local Notation bf := (binary_float prec emax).
Local Notation fexp64 := (SpecFloat.fexp prec emax).
Local Notation rnd := (round radix2 fexp64 ZnearestE).
Local Notation finB := (@BinarySingleNaN.is_finite prec emax).

Lemma add_link (x y : bf) : f64_add (B2SF x) (B2SF y) = B2SF (Bplus mode_NE x y).
Proof.
  destruct x as [sx|sx| |sx mx ex Bx]; destruct y as [sy|sy| |sy my ey By]; try reflexivity.
  - cbn. destruct (Bool.eqb sx sy); reflexivity.
  - cbn. destruct (Bool.eqb sx sy); reflexivity.
  - unfold fadd. cbn [B2SF SFadd Bplus]. unfold Fplus_naive. apply binary_normalize_equiv.
Qed.

Lemma BofZ_sign z : Z.abs z <= 2 ^ 53 -> Bsign (BofZ z) = (z <? 0).
Proof.
  intros Hz. pose proof (binary_normalize_correct prec emax Hprec Hmax mode_NE z 0 false) as H.
  cbv zeta in H. fold (BofZ z) in H.
  assert (E : F2R (Float radix2 z 0) = IZR z) by (unfold F2R; cbn; lra).
  rewrite E in H. change (round_mode mode_NE) with ZnearestE in H.
  rewrite (rnd_id _ (int_format z Hz)) in H.
  rewrite Rlt_bool_true in H.
  - destruct H as (_ & _ & ->).
    destruct (Rcompare_spec (IZR z) 0) as [L|L|L].
    + apply lt_IZR in L. symmetry. apply Z.ltb_lt. exact L.
    + apply eq_IZR in L. subst. reflexivity.
    + apply lt_IZR in L. symmetry. apply Z.ltb_ge. lia.
  - rewrite <- abs_IZR. apply Rle_lt_trans with (IZR (2 ^ 53)); [apply IZR_le; exact Hz|apply bpow_emax_big].
Qed.

(* f64 `+` is exact on integers when operands and result are within 2^53 *)
Lemma add_int_exact a b : Z.abs a <= 2 ^ 53 -> Z.abs b <= 2 ^ 53 -> Z.abs (a + b) <= 2 ^ 53 ->
  f64_add (f64_of_Z a) (f64_of_Z b) = f64_of_Z (a + b).
Proof.
  intros Ha Hb Hab. rewrite !BofZ_link, add_link. f_equal.
  destruct (BofZ_correct a Ha) as [Ra Fa]. destruct (BofZ_correct b Hb) as [Rb Fb].
  destruct (BofZ_correct (a + b) Hab) as [Rab Fab].
  pose proof (Bplus_correct prec emax Hprec Hmax mode_NE (BofZ a) (BofZ b) Fa Fb) as H.
  rewrite Ra, Rb, <- plus_IZR in H. change (round_mode mode_NE) with ZnearestE in H.
  rewrite (rnd_id _ (int_format (a + b) Hab)) in H.
  rewrite Rlt_bool_true in H.
  2:{ rewrite <- abs_IZR. apply Rle_lt_trans with (IZR (2 ^ 53)); [apply IZR_le; exact Hab|apply bpow_emax_big]. }
  destruct H as (Rp & Fp & Sp).
  apply B2R_Bsign_inj; auto; [congruence|].
  rewrite Sp, (BofZ_sign _ Hab), (BofZ_sign _ Ha), (BofZ_sign _ Hb).
  destruct (Rcompare_spec (IZR (a + b)) 0) as [L|L|L].
  - apply lt_IZR in L. symmetry. apply Z.ltb_lt. exact L.
  - apply eq_IZR in L. rewrite L. cbn.
    destruct (Z.ltb_spec a 0), (Z.ltb_spec b 0); cbn; try reflexivity. lia.
  - apply lt_IZR in L. symmetry. apply Z.ltb_ge. lia.
Qed.

(* ------------------------------------------------------------ lists, trees *)

Lemma sf_eqb_eq a b : sf_eqb a b = true -> a = b.
Proof.
  destruct a as [s1|s1| |s1 m1 e1], b as [s2|s2| |s2 m2 e2]; cbn [sf_eqb]; intros H; try discriminate; try reflexivity.
  - apply eqb_prop in H. congruence.
  - apply eqb_prop in H. congruence.
  - apply andb_prop in H. destruct H as [H H3]. apply andb_prop in H. destruct H as [H1 H2].
    apply eqb_prop in H1. apply Pos.eqb_eq in H2. apply Z.eqb_eq in H3. congruence.
Qed.

Definition sumabs (zs : list Z) : Z := fold_right (fun z s => Z.abs z + s) 0 zs.

Lemma sumabs_nonneg zs : 0 <= sumabs zs.
Proof. induction zs as [|z t IH]; cbn [sumabs fold_right]; [lia|]. fold (sumabs t). lia. Qed.

Lemma sumabs_app a b : sumabs (a ++ b) = sumabs a + sumabs b.
Proof. induction a as [|z t IH]; cbn [app sumabs fold_right]; [reflexivity|]. fold (sumabs (t ++ b)) (sumabs t). lia. Qed.

Lemma sumZ_abs zs : Z.abs (sumZ zs) <= sumabs zs.
Proof. induction zs as [|z t IH]; cbn [sumZ sumabs fold_right]; [lia|]. fold (sumZ t) (sumabs t). lia. Qed.

Lemma ints_of xs s : abs_total xs = Some s -> exists zs, xs = map f64_of_Z zs /\ sumabs zs = s.
Proof.
  revert s. induction xs as [|x t IH]; cbn [abs_total]; intros s H.
  - injection H as <-. exists []. auto.
  - destruct (f64_int x) as [z|] eqn:Ez; [|discriminate]. destruct (abs_total t) as [s'|]; [|discriminate].
    injection H as <-. destruct (IH _ eq_refl) as (zs & -> & <-). exists (z :: zs). split; [|reflexivity].
    cbn [map]. f_equal. unfold f64_int in Ez. destruct (trunc_Z x) as [z'|]; [|discriminate].
    destruct (sf_eqb (f64_of_Z z') x) eqn:E; [|discriminate]. injection Ez as <-. symmetry. now apply sf_eqb_eq.
Qed.

Section TreeSum.
  Variables (lg : spec_float -> spec_float -> spec_float) (ex : spec_float -> spec_float).
  Variables fmax_bits fmin_bits eps_bits step_bits : N.
  Let A := F64km lg ex fmax_bits fmin_bits eps_bits step_bits.

  (* the identity of the sum: -0.0 (f64) or 0.0 (nalgebra vectors) *)
  Variable z0 : spec_float.
  Hypothesis z0_l : forall z, Z.abs z <= 2 ^ 53 -> f64_add z0 (f64_of_Z z) = f64_of_Z z.
  Hypothesis z0_r : forall z, Z.abs z <= 2 ^ 53 -> f64_add (f64_of_Z z) z0 = f64_of_Z z.
  Hypothesis z0_z : f64_add z0 z0 = z0.

  Definition V (zs : list Z) : spec_float := match zs with [] => z0 | _ => f64_of_Z (sumZ zs) end.

  Lemma fold_acc t : forall acc, Z.abs acc + sumabs t <= 2 ^ 53 ->
    fold_left f64_add (map f64_of_Z t) (f64_of_Z acc) = f64_of_Z (acc + sumZ t).
  Proof.
    induction t as [|z t IH]; intros acc H; cbn [map fold_left sumZ fold_right].
    - f_equal. lia.
    - cbn [sumabs fold_right] in H. fold (sumabs t) in H. fold (sumZ t). pose proof (sumabs_nonneg t).
      rewrite add_int_exact by lia. rewrite IH by lia. f_equal. lia.
  Qed.

  Lemma seq_sum_V zs : sumabs zs <= 2 ^ 53 -> seq_sum_from A z0 (map f64_of_Z zs) = V zs.
  Proof.
    intros H. unfold seq_sum_from. cbn [A F64km k_add]. destruct zs as [|z t]; [reflexivity|].
    cbn [map fold_left V]. cbn [sumabs fold_right] in H. fold (sumabs t) in H. pose proof (sumabs_nonneg t).
    rewrite z0_l by lia. rewrite fold_acc by lia. reflexivity.
  Qed.

  Lemma sum2_V xs ys : sumabs (xs ++ ys) <= 2 ^ 53 -> sum2_from A z0 (V xs) (V ys) = V (xs ++ ys).
  Proof.
    intros H. rewrite sumabs_app in H. pose proof (sumabs_nonneg xs). pose proof (sumabs_nonneg ys).
    pose proof (sumZ_abs xs). pose proof (sumZ_abs ys).
    unfold sum2_from, seq_sum_from. cbn [A F64km k_add fold_left].
    destruct xs as [|x xs'].
    - cbn [V app]. rewrite z0_z. destruct ys as [|y ys']; [exact z0_z|]. cbn [V]. apply z0_l. lia.
    - remember (x :: xs') as xs eqn:Ex. assert (Vx : V xs = f64_of_Z (sumZ xs)) by (subst; reflexivity).
      assert (Vxy : V (xs ++ ys) = f64_of_Z (sumZ (xs ++ ys))) by (subst; reflexivity).
      rewrite Vx, Vxy, z0_l by lia. destruct ys as [|y ys'].
      + cbn [V]. rewrite app_nil_r. apply z0_r. lia.
      + remember (y :: ys') as ys eqn:Ey. assert (Vy : V ys = f64_of_Z (sumZ ys)) by (subst; reflexivity).
        rewrite Vy, sumZ_app. apply add_int_exact; lia.
  Qed.

  Lemma tree_sum_V t : forall zs, sumabs zs <= 2 ^ 53 -> tree_sum_from A z0 t (map f64_of_Z zs) = V zs.
  Proof.
    unfold tree_sum_from. induction t as [|k l IHl r IHr]; intros zs H; cbn [par_fold].
    - rewrite seq_sum_V by exact H. change (seq_sum_from A z0 []) with (V []). now rewrite sum2_V.
    - rewrite firstn_map, skipn_map.
      assert (Hs : sumabs (firstn k zs) + sumabs (skipn k zs) = sumabs zs) by (rewrite <- sumabs_app, firstn_skipn; reflexivity).
      pose proof (sumabs_nonneg (firstn k zs)). pose proof (sumabs_nonneg (skipn k zs)).
      rewrite IHl, IHr by lia. rewrite sum2_V by (rewrite firstn_skipn; exact H). now rewrite firstn_skipn.
  Qed.

  Lemma tree_sum_from_indep xs : sum_ok_f64 xs = true ->
    forall t1 t2, tree_sum_from A z0 t1 xs = tree_sum_from A z0 t2 xs.
  Proof.
    unfold sum_ok_f64. destruct (abs_total xs) as [s|] eqn:E; [|discriminate]. intros H t1 t2.
    apply Z.leb_le in H. destruct (ints_of xs s E) as (zs & -> & <-). now rewrite !tree_sum_V.
  Qed.
End TreeSum.

Lemma nzero_l y : f64_add (S754_zero true) y = y.
Proof. destruct y as [[|]|s| |s m e]; reflexivity. Qed.
Lemma nzero_r y : f64_add y (S754_zero true) = y.
Proof. destruct y as [[|]|s| |s m e]; reflexivity. Qed.

Section F64Sums.
  Variables (lg : spec_float -> spec_float -> spec_float) (ex : spec_float -> spec_float).
  Variables fmax_bits fmin_bits eps_bits step_bits : N.
  Let A := F64km lg ex fmax_bits fmin_bits eps_bits step_bits.

  Theorem sums_exact_f64 : sums_exact A sum_ok_f64.
  Proof.
    intros xs H t1 t2. unfold tree_sum. cbn [A F64km k_nzero].
    apply (tree_sum_from_indep lg ex fmax_bits fmin_bits eps_bits step_bits (S754_zero true)); auto;
      intros; first [apply nzero_l | apply nzero_r].
  Qed.

  Theorem vsums_exact_f64 : vsums_exact A sum_ok_f64.
  Proof.
    intros D xs H t1 t2. unfold tree_vsum. apply map_ext_in. intros c Hc.
    unfold vsum_ok in H. apply andb_prop in H. destruct H as [_ H]. rewrite forallb_forall in H.
    specialize (H c Hc). cbn [A F64km k_zero].
    apply (tree_sum_from_indep lg ex fmax_bits fmin_bits eps_bits step_bits (S754_zero false)); auto.
    - intros z Hz. change (S754_zero false) with (f64_of_Z 0). rewrite add_int_exact; auto; cbn; lia.
    - intros z Hz. change (S754_zero false) with (f64_of_Z 0). rewrite add_int_exact; auto; try (cbn; lia).
      now rewrite Z.add_0_r.
  Qed.
End F64Sums.

(* Proofs about the VnBest model of Model/Vn.v: the load gap never grows, the
   total is preserved, ids stay below the input's part count, negative weights
   are rejected, the loop terminates within its fuel (the sum of the squared
   part loads decreases at every move), no panic. *)
From Coupe Require Import Lib.Prelude Model.NumPart Model.Vn Proofs.NumPartLemmas.
From Coq Require Import Permutation.
Open Scope Z_scope.

(* ---------- compute_parts_load ---------- *)

Lemma parts_load_spec : forall ws p acc,
  length ws = length p -> (forall x, In x p -> (N.to_nat x < length acc)%nat) ->
  exists L, parts_load ws p acc = Ok L /\ length L = length acc
    /\ forall q a, nth_opt acc q = Some a -> nth_opt L q = Some (a + load ws p (N.of_nat q)).
Proof.
  induction ws as [|w ws IH]; intros [|x p] acc Hlen Hr; cbn [length] in Hlen; try lia; cbn [parts_load load].
  - exists acc. repeat split; auto. intros q a Ha. rewrite Ha. f_equal. lia.
  - assert (Hx : (N.to_nat x < length acc)%nat) by (apply Hr; now left).
    destruct (nth_opt_lt acc _ Hx) as [a0 Ha0]. rewrite Ha0.
    destruct (IH p (set_nth acc (N.to_nat x) (a0 + w))) as [L [HL [Hlen' Hq]]].
    + lia.
    + intros y Hy. rewrite set_nth_length. apply Hr. now right.
    + rewrite set_nth_length in Hlen'. exists L. split; [exact HL|]. split; [exact Hlen'|].
      intros q a Ha. destruct (Nat.eq_dec q (N.to_nat x)) as [->|Hne].
      * rewrite Ha0 in Ha. injection Ha as <-.
        rewrite (Hq _ (a0 + w)) by (now apply nth_opt_set_nth_same).
        destruct (N.eqb_spec x (N.of_nat (N.to_nat x))); [f_equal; lia|lia].
      * rewrite (Hq q a) by (rewrite nth_opt_set_nth_other; auto).
        destruct (N.eqb_spec x (N.of_nat q)); [lia|]. f_equal.
Qed.

Lemma ids_lt_part_count p : Forall (fun x => (x < N.of_nat (part_count p))%N) p.
Proof.
  apply Forall_forall. intros x Hx. apply maxN_ge in Hx. unfold part_count. lia.
Qed.

Lemma parts_load_loads ws p : length ws = length p ->
  parts_load ws p (repeat 0 (part_count p)) = Ok (loads ws p (part_count p)).
Proof.
  intros Hlen. set (k := part_count p).
  destruct (parts_load_spec ws p (repeat 0 k) Hlen) as [L [HL [Hl Hq]]].
  { intros x Hx. rewrite repeat_length. pose proof (ids_lt_part_count p) as F.
    rewrite Forall_forall in F. specialize (F x Hx). fold k in F. lia. }
  rewrite HL. f_equal. rewrite repeat_length in Hl. apply nth_opt_ext. intros q.
  destruct (Nat.lt_ge_cases q k) as [Hqk|Hqk].
  - rewrite (Hq q 0) by (now apply nth_opt_repeat). rewrite nth_opt_loads by exact Hqk. f_equal.
  - rewrite !nth_opt_None; auto; rewrite ?loads_length; lia.
Qed.

(* ---------- the pieces of one turn ---------- *)

Lemma minmax_pos_spec L under over : minmax_pos L = Some (under, over) ->
  exists lu lo, nth_opt L under = Some lu /\ nth_opt L over = Some lo
    /\ (forall x, In x L -> lu <= x) /\ (forall x, In x L -> x <= lo).
Proof.
  destruct L as [|x t]; cbn [minmax_pos]; [discriminate|]. intros H. injection H as <- <-.
  destruct (argmin_first_aux_spec t [x] 0%nat x eq_refl) as [lu [Hlu Hmin]].
  { intros y [<-|[]]. lia. }
  destruct (argmax_last_aux_spec t [x] 0%nat x eq_refl) as [lo [Hlo Hmax]].
  { intros y [<-|[]]. lia. }
  exists lu, lo. auto.
Qed.

Lemma nearest_spec : forall fuel crit p over t2 above below c,
  nearest fuel crit p over t2 above below = Ok (Some c) ->
  exists cc, nth_opt crit c = Some cc /\ nth_opt p (snd cc) = Some over.
Proof.
  induction fuel as [|f IH]; intros crit p over t2 above below c H; cbn [nearest] in H; [discriminate|].
  match type of H with
  | match ?pick with _ => _ end = _ => destruct pick as [[[c0 ia]|]| | |] eqn:Ep; try discriminate
  end.
  destruct (nth_opt crit c0) as [cc|] eqn:Ec; [|discriminate].
  destruct (nth_opt p (snd cc)) as [pc|] eqn:Epc; [|discriminate].
  destruct (N.eqb_spec pc over) as [->|Hne].
  - injection H as <-. exists cc. auto.
  - destruct ia; eapply IH; eauto.
Qed.

Lemma nearest_no_panic : forall fuel crit p over t2 above below,
  (forall cc, In cc crit -> (snd cc < length p)%nat) ->
  (forall a, above = Some a -> (a < length crit)%nat) ->
  (forall b, below = Some b -> (b < length crit)%nat) ->
  forall s, nearest fuel crit p over t2 above below <> Panic s.
Proof.
  induction fuel as [|f IH]; intros crit p over t2 above below Hr Ha Hb s; cbn [nearest]; [discriminate|]. unfold item in *.
  assert (STEP : forall c ia, (c < length crit)%nat ->
    match nth_opt crit c with
    | Some cc =>
      match nth_opt p (snd cc) with
      | Some pc =>
        if (pc =? over)%N then Ok (Some c)
        else if ia : bool then nearest f crit p over t2 (if Nat.ltb (S c) (length crit) then Some (S c) else None) below
        else nearest f crit p over t2 above (match c with O => None | S c' => Some c' end)
      | None => Panic 2
      end
    | None => Panic 2
    end <> Panic s).
  { intros c ia Hc. destruct (nth_opt_lt crit c Hc) as [cc Hcc]. rewrite Hcc.
    assert (Hin : In cc crit) by (eapply nth_opt_In; eauto).
    destruct (nth_opt_lt p (snd cc) (Hr cc Hin)) as [pc Hpc]. rewrite Hpc.
    destruct (pc =? over)%N; [discriminate|]. destruct ia.
    - apply IH; auto. intros a. destruct (Nat.ltb_spec (S c) (length crit)); [|discriminate].
      intros E. injection E as <-. lia.
    - apply IH; auto. intros b. destruct c as [|c']; [discriminate|]. intros E. injection E as <-. lia. }
  destruct above as [a|], below as [b|].
  - pose proof (Ha a eq_refl) as Hla. pose proof (Hb b eq_refl) as Hlb.
    destruct (nth_opt_lt crit a Hla) as [ca Hca]. destruct (nth_opt_lt crit b Hlb) as [cb Hcb].
    rewrite Hca, Hcb. destruct (2 * fst ca - t2 <? t2 - 2 * fst cb); [apply (STEP a true)|apply (STEP b false)]; auto.
  - apply (STEP a true). auto.
  - apply (STEP b false). auto.
  - discriminate.
Qed.

Lemma nearest_fuel : forall fuel crit p over t2 above below,
  (match above with Some a => length crit - a | None => 0 end
   + match below with Some b => S b | None => 0 end < fuel)%nat ->
  (forall a, above = Some a -> (a < length crit)%nat) ->
  nearest fuel crit p over t2 above below <> OutOfFuel.
Proof.
  induction fuel as [|f IH]; intros crit p over t2 above below Hm Ha; [lia|]. cbn [nearest]. unfold item in *.
  assert (STEP : forall c ia,
    (ia = true -> above = Some c) -> (ia = false -> below = Some c) ->
    match nth_opt crit c with
    | Some cc =>
      match nth_opt p (snd cc) with
      | Some pc =>
        if (pc =? over)%N then Ok (Some c)
        else if ia : bool then nearest f crit p over t2 (if Nat.ltb (S c) (length crit) then Some (S c) else None) below
        else nearest f crit p over t2 above (match c with O => None | S c' => Some c' end)
      | None => Panic 2
      end
    | None => Panic 2
    end <> OutOfFuel).
  { intros c ia Hia Hib. destruct (nth_opt crit c) as [cc|]; [|discriminate].
    destruct (nth_opt p (snd cc)) as [pc|]; [|discriminate].
    destruct (pc =? over)%N; [discriminate|]. destruct ia.
    - rewrite (Hia eq_refl) in *. specialize (Ha c eq_refl). apply IH.
      + destruct (Nat.ltb_spec (S c) (length crit)); destruct below; lia.
      + intros a. destruct (Nat.ltb_spec (S c) (length crit)); [|discriminate]. intros E. injection E as <-. lia.
    - rewrite (Hib eq_refl) in *. apply IH; auto.
      destruct c as [|c']; destruct above; lia. }
  destruct above as [a|], below as [b|].
  - destruct (nth_opt crit a) as [ca|]; [|discriminate]. destruct (nth_opt crit b) as [cb|]; [|discriminate].
    destruct (2 * fst ca - t2 <? t2 - 2 * fst cb); [apply (STEP a true)|apply (STEP b false)]; auto; discriminate.
  - apply (STEP a true); auto; discriminate.
  - apply (STEP b false); auto; discriminate.
  - discriminate.
Qed.

Lemma count_lt_le t2 crit : (count_lt t2 crit <= length crit)%nat.
Proof. induction crit as [|x t IH]; cbn [count_lt length]; [lia|]. destruct (2 * fst x <? t2); lia. Qed.

(* ---------- the progress test of fix 98041ea never fires on integers ---------- *)

Lemma vb_guard_never lo lu w : (lo - lu <=? w) = false -> vb_guard lo lu w = false.
Proof.
  intros H. apply Z.leb_gt in H. unfold vb_guard.
  destruct (Z.ltb_spec (lo - w) (lu + w)); cbn [andb]; auto.
  destruct (Z.ltb_spec (lu + w - (lo - w)) (lo - lu)); cbn [negb]; auto. lia.
Qed.

Lemma vb_step_eq flt crit st : vb_step flt crit st = vb_step0 flt crit st.
Proof.
  unfold vb_step, vb_step0, vb_step_g. destruct st as [[p L] n].
  destruct (minmax_pos L) as [[under over]|]; auto.
  destruct (nth_opt L over) as [lo|]; auto. destruct (nth_opt L under) as [lu|]; auto.
  destruct (nearest _ _ _ _ _ _ _) as [[c|]| | |]; auto.
  destruct (nth_opt crit c) as [[w id]|]; auto.
  destruct ((lo - lu <=? w) || (w =? 0)) eqn:E; auto.
  apply orb_false_iff in E as [E _]. rewrite (vb_guard_never _ _ _ E). reflexivity.
Qed.

Lemma iter_pos_ext {St R} (f g : St -> St + R) : (forall s, f s = g s) ->
  forall n s, iter_pos f n s = iter_pos g n s.
Proof.
  intros H. induction n as [n IH|n IH|]; intros s; cbn [iter_pos].
  - rewrite H. destruct (g s) as [s1|r]; auto. rewrite IH. destruct (iter_pos g n s1); auto.
  - rewrite IH. destruct (iter_pos g n s); auto.
  - apply H.
Qed.

(* ---------- the invariant of the loop ---------- *)

Section Loop.
  Variables (flt : bool) (ws : list Z) (k : nat).
  Hypothesis ws_nonneg : Forall (fun w => 0 <= w) ws.
  Let crit := rev (sort_items_desc (items_of ws)).

  Definition VB (st : vb_state) : Prop :=
    let '(p, L, n) := st in
    length p = length ws /\ Forall (fun x => (x < N.of_nat k)%N) p /\ L = loads ws p k.

  Lemma crit_items cc : In cc crit -> nth_opt ws (snd cc) = Some (fst cc).
  Proof.
    intros H. unfold crit in H. apply in_rev in H.
    apply (Permutation_in _ (sort_items_perm (items_of ws))) in H. destruct cc. now apply In_items.
  Qed.

  (* what a move is *)
  Lemma vb_step_move p L n p' L' n' : VB (p, L, n) -> vb_step0 flt crit (p, L, n) = inl (p', L', n') ->
    exists under over id w lu lo,
      nth_opt L under = Some lu /\ nth_opt L over = Some lo
      /\ (forall x, In x L -> lu <= x) /\ (forall x, In x L -> x <= lo)
      /\ nth_opt ws id = Some w /\ nth_opt p id = Some (N.of_nat over)
      /\ 0 < w < lo - lu
      /\ p' = set_nth p id (N.of_nat under)
      /\ L' = set_nth (set_nth L over (lo - w)) under (lu + w).
  Proof.
    intros [Hlen [Hk HL]] H. unfold vb_step0, vb_step_g in H. cbn [andb] in H.
    destruct (minmax_pos L) as [[under over]|] eqn:Em; [|discriminate].
    destruct (minmax_pos_spec _ _ _ Em) as [lu [lo [Hu [Ho [Hmin Hmax]]]]].
    rewrite Ho, Hu in H.
    destruct (nearest _ _ _ _ _ _ _) as [[c|]| | |] eqn:En; try discriminate.
    destruct (nearest_spec _ _ _ _ _ _ _ _ En) as [cc [Hcc Hpc]]. rewrite Hcc in H.
    destruct cc as [w id]. cbn [snd] in Hpc.
    destruct ((lo - lu <=? w) || (w =? 0)) eqn:Eb; [discriminate|].
    apply orb_false_iff in Eb as [E1 E2]. apply Z.leb_gt in E1. apply Z.eqb_neq in E2.
    destruct (Nat.ltb id (length p)); [|discriminate].
    assert (Hw : nth_opt ws id = Some w) by (apply (crit_items (w, id)); eapply nth_opt_In; eauto).
    assert (Hw0 : 0 <= w).
    { rewrite Forall_forall in ws_nonneg. apply ws_nonneg. eapply nth_opt_In; eauto. }
    assert (Hne : over <> under) by (intro; subst; rewrite Ho in Hu; injection Hu as ->; lia).
    rewrite nth_opt_set_nth_other, Hu in H by exact Hne.
    injection H as <- <- <-.
    exists under, over, id, w, lu, lo. repeat split; auto; lia.
  Qed.

  Lemma vb_step_pres st st' : (2 <= k)%nat -> VB st -> vb_step0 flt crit st = inl st' ->
    VB st' /\ gap (snd (fst st')) <= gap (snd (fst st)) /\ 0 <= sumsq (snd (fst st')) < sumsq (snd (fst st)).
  Proof.
    destruct st as [[p L] n], st' as [[p' L'] n']. intros Hk2 HV H. cbn [fst snd].
    destruct (vb_step_move _ _ _ _ _ _ HV H) as [under [over [id [w [lu [lo [Hu [Ho [Hmin [Hmax [Hw [Hp [Hwr [-> ->]]]]]]]]]]]]]].
    destruct HV as [Hlen [Hk HL]].
    assert (Hne : over <> under) by (intro; subst; rewrite Ho in Hu; injection Hu as ->; lia).
    assert (Huk : (under < k)%nat) by (apply nth_opt_Some in Hu; now rewrite HL, loads_length in Hu).
    split; [|split].
    - split; [now rewrite set_nth_length|]. split.
      + apply Forall_set_nth; auto. lia.
      + rewrite HL in Hu, Ho. rewrite (loads_move ws p k id w over under lo lu Hw Hp Hne Ho Hu), <- HL. reflexivity.
    - (* every load stays between the old minimum and the old maximum *)
      set (L2 := set_nth (set_nth L over (lo - w)) under (lu + w)).
      assert (Hne0 : L <> []) by (intro C; rewrite C in Ho; destruct over; discriminate).
      assert (Hne2 : L2 <> []).
      { intro C. apply (f_equal (@length Z)) in C. unfold L2 in C. rewrite !set_nth_length in C.
        destruct L; [congruence|discriminate]. }
      assert (Hb : forall x, In x L2 -> lu <= x <= lo).
      { intros x Hx. unfold L2 in Hx. apply set_nth_In in Hx as [->|Hx]; [lia|].
        apply set_nth_In in Hx as [->|Hx]; [lia|]. split; [now apply Hmin|now apply Hmax]. }
      assert (maxl L = lo).
      { apply Z.le_antisymm; [apply maxl_le_bound; auto|apply maxl_ge; eapply nth_opt_In; eauto]. }
      assert (minl L = lu).
      { apply Z.le_antisymm; [apply minl_le; eapply nth_opt_In; eauto|apply minl_ge_bound; auto]. }
      assert (maxl L2 <= lo) by (apply maxl_le_bound; auto; intros x Hx; now apply Hb).
      assert (lu <= minl L2) by (apply minl_ge_bound; auto; intros x Hx; now apply Hb).
      unfold gap. lia.
    - (* the sum of squares decreases by 2 w (lo - lu - w) *)
      destruct (set_nth_perm L over lo (lo - w) Ho) as [r1 [P1 Q1]].
      assert (Hu1 : nth_opt (set_nth L over (lo - w)) under = Some lu) by (rewrite nth_opt_set_nth_other; auto).
      destruct (set_nth_perm _ under lu (lu + w) Hu1) as [r2 [P2 Q2]].
      assert (SQ : forall a b : list Z, Permutation a b -> sumsq a = sumsq b).
      { intros a b P. unfold sumsq. induction P; cbn [map]; rewrite ?sumZ_cons; lia. }
      rewrite (SQ _ _ Q2), (SQ _ _ P1).
      pose proof (SQ _ _ Q1) as E1. pose proof (SQ _ _ P2) as E2. rewrite E1 in E2.
      unfold sumsq in *. cbn [map] in *. rewrite !sumZ_cons in *.
      assert (0 <= sumZ (map (fun x => x * x) r2)).
      { clear. induction r2 as [|x t IH]; cbn [map]; rewrite ?sumZ_cons; [unfold sumZ; cbn; lia|nia]. }
      assert (Hpos : 0 < w * (lo - lu - w)) by (apply Z.mul_pos_pos; lia).
      assert (Hsq : 0 <= (lu + w) * (lu + w)) by apply Z.square_nonneg.
      split; lia.
  Qed.
End Loop.

(* ---------- the entry point ---------- *)

Lemma existsb_neg ws : existsb (fun w => w <? 0) ws = false <-> Forall (fun w => 0 <= w) ws.
Proof.
  induction ws as [|w t IH]; cbn [existsb]; split; intros H; auto.
  - apply orb_false_iff in H as [H1 H2]. constructor; [lia|now apply IH].
  - inversion H; subst. apply orb_false_iff. split; [lia|now apply IH].
Qed.

(* what vn_best does beyond its early returns *)
Lemma vn_best_inv flt ws p r : vn_best flt ws p = r ->
  (length ws <> length p /\ r = Err (InputLenMismatch (length p) (length ws)))
  \/ (length ws = length p /\ ~ Forall (fun w => 0 <= w) ws /\ r = Err NegativeValues)
  \/ (length ws = length p /\ Forall (fun w => 0 <= w) ws /\
      (r = Ok (p, 0%N)
       \/ ((2 <= part_count p)%nat /\
           r = match iter_pos (vb_step0 flt (rev (sort_items_desc (items_of ws))))
                              (Z.to_pos (1 + sumsq (loads ws p (part_count p))))
                              (p, loads ws p (part_count p), 0%N) with
               | inl _ => OutOfFuel
               | inr r => r
               end))).
Proof.
  unfold vn_best. intros <-.
  destruct (Nat.eqb_spec (length ws) (length p)) as [Hlen|Hlen]; cbn [negb]; [|left; auto].
  right. destruct (existsb (fun w => w <? 0) ws) eqn:En.
  - left. repeat split; auto. intro C. apply existsb_neg in C. congruence.
  - right. apply existsb_neg in En. repeat split; auto.
    destruct (Nat.eqb (length p) 0 || forallb (fun w => w =? 0) ws || Nat.ltb (part_count p) 2) eqn:Ee; [left; auto|].
    right. apply orb_false_iff in Ee as [_ Ek]. apply Nat.ltb_ge in Ek. split; [exact Ek|].
    rewrite parts_load_loads by exact Hlen. cbn [bind].
    rewrite (iter_pos_ext _ _ (vb_step_eq flt (rev (sort_items_desc (items_of ws))))). reflexivity.
Qed.

Theorem vnbest_terminates : forall flt ws p, vn_best flt ws p <> OutOfFuel.
Proof.
  intros flt ws p H.
  destruct (vn_best_inv _ _ _ _ H) as [[_ C]|[[_ [_ C]]|[Hlen [Hnn [C|[Hk C]]]]]]; try discriminate.
  set (k := part_count p) in *. set (L0 := loads ws p k) in *.
  set (crit := rev (sort_items_desc (items_of ws))) in *.
  rewrite iter_pos_nat in C.
  assert (Hsq : 0 <= sumsq L0).
  { unfold sumsq. clear. induction L0 as [|x t IH]; cbn [map]; rewrite ?sumZ_cons; [unfold sumZ; cbn; lia|nia]. }
  destruct (iter_nat_term (vb_step0 flt crit) (VB ws k) (fun st => sumsq (snd (fst st)))) with
    (n := Pos.to_nat (Z.to_pos (1 + sumsq L0))) (s := (p, L0, 0%N)) as [r Hr].
  - intros s s' Hs E. destruct (vb_step_pres flt ws k Hnn s s' Hk Hs E) as [V [_ M]]. auto.
  - repeat split; auto. apply ids_lt_part_count.
  - exact Hsq.
  - cbn [fst snd]. rewrite positive_nat_Z, Z2Pos.id by lia. lia.
  - rewrite Hr in C.
    (* the result of the loop itself is never OutOfFuel *)
    destruct (iter_nat_inv (vb_step0 flt crit) (fun _ => True) (fun _ _ _ _ => I) _ _ _ I Hr) as [[[p1 L1] n1] [_ E]].
    subst r. unfold vb_step0, vb_step_g in E. cbn [andb] in E.
    destruct (minmax_pos L1) as [[under over]|]; [|discriminate].
    destruct (nth_opt L1 over); [|discriminate]. destruct (nth_opt L1 under); [|discriminate].
    destruct (nearest _ _ _ _ _ _ _) as [[c|]| | |] eqn:En; try discriminate.
    + destruct (nth_opt crit c) as [[w id]|]; [|discriminate].
      destruct (_ || _); [discriminate|]. destruct (Nat.ltb id (length p1)); [|discriminate].
      destruct (nth_opt _ under); discriminate.
    + revert En. apply nearest_fuel.
      * pose proof (count_lt_le (target2 flt (z - z0)) crit) as Hc.
        set (c := count_lt (target2 flt (z - z0)) crit) in *.
        destruct (Nat.ltb_spec c (length crit)); destruct c; lia.
      * intros a. destruct (Nat.ltb_spec (count_lt (target2 flt (z - z0)) crit) (length crit)); [|discriminate].
        intros Ea. injection Ea as <-. lia.
Qed.

Theorem vnbest_gap : forall flt ws p p' n, vn_best flt ws p = Ok (p', n) ->
  let k := part_count p in
  length p' = length p /\ Forall (fun x => (x <= maxN p)%N) p'
  /\ gap (loads ws p' k) <= gap (loads ws p k)
  /\ sumZ (loads ws p' k) = sumZ (loads ws p k).
Proof.
  intros flt ws p p' n H k.
  assert (G : length p' = length p /\ Forall (fun x => (x < N.of_nat k)%N) p' /\ length ws = length p
              /\ gap (loads ws p' k) <= gap (loads ws p k)).
  { destruct (vn_best_inv _ _ _ _ H) as [[_ C]|[[_ [_ C]]|[Hlen [Hnn [C|[Hk C]]]]]]; try discriminate.
    - injection C as -> ->. repeat split; auto; [apply ids_lt_part_count|lia].
    - fold k in C, Hk. set (L0 := loads ws p k) in *.
      set (crit := rev (sort_items_desc (items_of ws))) in *.
      rewrite iter_pos_nat in C.
      destruct (iter_nat (vb_step0 flt crit) _ _) as [?|r] eqn:Hr; [discriminate|]. subst r.
      destruct (iter_nat_inv (vb_step0 flt crit)
                  (fun st => VB ws k st /\ gap (snd (fst st)) <= gap L0)) with
        (n := Pos.to_nat (Z.to_pos (1 + sumsq L0))) (s := (p, L0, 0%N)) (r := @Ok (list N * N) (p', n))
        as [[[p1 L1] n1] [[[Hl1 [Hk1 HL1]] Hg] E]].
      + intros s s' [Hs Hg] E. destruct (vb_step_pres flt ws k Hnn s s' Hk Hs E) as [V [G1 _]]. split; auto. lia.
      + split; [|cbn; lia]. repeat split; auto. apply ids_lt_part_count.
      + exact Hr.
      + (* the loop ends by returning the current partition *)
        assert (p1 = p').
        { unfold vb_step0, vb_step_g in E. cbn [andb] in E.
          destruct (minmax_pos L1) as [[under over]|]; [|discriminate].
          destruct (nth_opt L1 over); [|discriminate]. destruct (nth_opt L1 under); [|discriminate].
          destruct (nearest _ _ _ _ _ _ _) as [[c|]| | |]; try discriminate.
          - destruct (nth_opt crit c) as [[w id]|]; [|discriminate].
            destruct (_ || _); [injection E as -> _; reflexivity|].
            destruct (Nat.ltb id (length p1)); [|discriminate]. destruct (nth_opt _ under); discriminate.
          - injection E as -> _; reflexivity. }
        subst p1. cbn [fst snd] in Hg. rewrite HL1 in Hg. repeat split; auto; lia. }
  destruct G as [G1 [G2 [G3 G4]]]. split; [exact G1|]. split; [|split; [exact G4|]].
  - rewrite Forall_forall in *. intros x Hx. specialize (G2 x Hx). unfold k, part_count in G2. lia.
  - rewrite !sumZ_loads; auto; try lia.
    + apply ids_below_le, ids_lt_part_count.
    + now apply ids_below_le.
Qed.

Theorem vnbest_negative : forall flt ws p, length ws = length p -> Exists (fun w => w < 0) ws ->
  vn_best flt ws p = Err NegativeValues.
Proof.
  intros flt ws p Hlen Hex.
  destruct (vn_best_inv flt ws p _ eq_refl) as [[C _]|[[_ [_ C]]|[_ [Hnn _]]]]; [contradiction|exact C|].
  exfalso. apply Exists_exists in Hex as [w [Hw Hneg]]. rewrite Forall_forall in Hnn. specialize (Hnn w Hw). lia.
Qed.

Theorem vnbest_mismatch : forall flt ws p, length ws <> length p ->
  vn_best flt ws p = Err (InputLenMismatch (length p) (length ws)).
Proof.
  intros flt ws p Hlen.
  destruct (vn_best_inv flt ws p _ eq_refl) as [[_ C]|[[C _]|[C _]]]; [exact C|contradiction|contradiction].
Qed.

Theorem vnbest_no_panic : forall flt ws p s, vn_best flt ws p <> Panic s.
Proof.
  intros flt ws p s H.
  destruct (vn_best_inv _ _ _ _ H) as [[_ C]|[[_ [_ C]]|[Hlen [Hnn [C|[Hk C]]]]]]; try discriminate.
  set (k := part_count p) in *. set (L0 := loads ws p k) in *.
  set (crit := rev (sort_items_desc (items_of ws))) in *.
  rewrite iter_pos_nat in C.
  destruct (iter_nat (vb_step0 flt crit) _ _) as [?|r] eqn:Hr; [discriminate|]. subst r.
  destruct (iter_nat_inv (vb_step0 flt crit) (VB ws k)) with
    (n := Pos.to_nat (Z.to_pos (1 + sumsq L0))) (s := (p, L0, 0%N)) (r := @Panic (list N * N) s)
    as [[[p1 L1] n1] [[Hl1 [Hk1 HL1]] E]].
  - intros s0 s' Hs E. now destruct (vb_step_pres flt ws k Hnn s0 s' Hk Hs E) as [V _].
  - repeat split; auto. apply ids_lt_part_count.
  - exact Hr.
  - unfold vb_step0, vb_step_g in E. cbn [andb] in E.
    assert (HlenL : length L1 = k) by (rewrite HL1; apply loads_length).
    destruct (minmax_pos L1) as [[under over]|] eqn:Em.
    2:{ destruct L1; [cbn in HlenL; lia|discriminate]. }
    destruct (minmax_pos_spec _ _ _ Em) as [lu [lo [Hu [Ho _]]]]. rewrite Ho, Hu in E.
    assert (Hcr : forall cc, In cc crit -> (snd cc < length p1)%nat).
    { intros cc Hc. rewrite Hl1. eapply nth_opt_Some. eapply (crit_items ws). exact Hc. }
    destruct (nearest _ _ _ _ _ _ _) as [[c|]| | |] eqn:En; try discriminate.
    + destruct (nearest_spec _ _ _ _ _ _ _ _ En) as [cc [Hcc Hpc]]. rewrite Hcc in E. destruct cc as [w id].
      destruct (_ || _); [discriminate|].
      assert (Hid : (id < length p1)%nat) by (apply (Hcr (w, id)); eapply nth_opt_In; eauto).
      apply Nat.ltb_lt in Hid. rewrite Hid in E.
      destruct (nth_opt (set_nth L1 over (lo - w)) under) eqn:E2; [discriminate|].
      apply nth_opt_Some in Hu.
      destruct (nth_opt_lt (set_nth L1 over (lo - w)) under) as [x Hx]; [now rewrite set_nth_length|]. congruence.
    + injection E as <-. revert En. apply nearest_no_panic; auto.
      * intros a. destruct (Nat.ltb_spec (count_lt (target2 flt (lo - lu)) crit) (length crit)); [|discriminate].
        intros Ea. injection Ea as <-. exact H0.
      * intros b. pose proof (count_lt_le (target2 flt (lo - lu)) crit) as Hc.
        destruct (count_lt _ crit) as [|i] eqn:Ei; [discriminate|]. intros Eb. injection Eb as <-. unfold item in *. lia.
Qed.

(* ---------- under the contract VnBest answers Ok ---------- *)

Lemma nearest_no_err crit p over t2 : forall f a b e, nearest f crit p over t2 a b <> Err e.
Proof.
  induction f as [|f IH]; intros a b e H; cbn [nearest] in H; [discriminate|].
  destruct a as [a|], b as [b|]; cbv beta iota zeta in H.
  - destruct (nth_opt crit a) as [ca|]; [|discriminate]. destruct (nth_opt crit b) as [cb|]; [|discriminate].
    destruct (2 * fst ca - t2 <? t2 - 2 * fst cb); cbv beta iota zeta in H.
    + destruct (nth_opt crit a) as [cc|]; [|discriminate]. destruct (nth_opt p (snd cc)); [|discriminate].
      destruct (_ =? over)%N; [discriminate|]. exact (IH _ _ _ H).
    + destruct (nth_opt crit b) as [cc|]; [|discriminate]. destruct (nth_opt p (snd cc)); [|discriminate].
      destruct (_ =? over)%N; [discriminate|]. exact (IH _ _ _ H).
  - destruct (nth_opt crit a) as [cc|]; [|discriminate]. destruct (nth_opt p (snd cc)); [|discriminate].
    destruct (_ =? over)%N; [discriminate|]. exact (IH _ _ _ H).
  - destruct (nth_opt crit b) as [cc|]; [|discriminate]. destruct (nth_opt p (snd cc)); [|discriminate].
    destruct (_ =? over)%N; [discriminate|]. exact (IH _ _ _ H).
  - discriminate.
Qed.

Lemma vnbest_no_error : forall flt ws p e, length ws = length p -> Forall (fun w => 0 <= w) ws ->
  vn_best flt ws p <> Err e.
Proof.
  intros flt ws p e Hl Hnn E.
  destruct (vn_best_inv _ _ _ _ E) as [[C _]|[[_ [C _]]|[_ [_ [C|[Hk C]]]]]];
    [contradiction|contradiction|discriminate|].
  rewrite iter_pos_nat in C.
  destruct (iter_nat (vb_step0 flt (rev (sort_items_desc (items_of ws)))) _ _) as [?|r] eqn:Hr; [discriminate|].
  subst r.
  destruct (iter_nat_inv (vb_step0 flt (rev (sort_items_desc (items_of ws)))) (fun _ => True)
              (fun _ _ _ _ => I) _ _ _ I Hr) as [[[p1 L1] n1] [_ E1]].
  unfold vb_step0, vb_step_g in E1. cbn [andb] in E1.
  destruct (minmax_pos L1) as [[under over]|]; [|discriminate].
  destruct (nth_opt L1 over); [|discriminate]. destruct (nth_opt L1 under); [|discriminate].
  destruct (nearest _ _ _ _ _ _ _) as [[c|]|e'| |] eqn:En; try discriminate.
  + destruct (nth_opt _ c) as [[w id]|]; [|discriminate].
    destruct (_ || _); [discriminate|]. destruct (Nat.ltb id (length p1)); [|discriminate].
    destruct (nth_opt _ under); discriminate.
  + exact (nearest_no_err _ _ _ _ _ _ _ _ En).
Qed.

(* matching lengths, non-negative weights: Ok (no error value, no panic, enough fuel: the fuel
   1 + sum of squared loads is part of [vn_best]) *)
Theorem vnbest_ok_in_contract : forall flt ws p, length ws = length p -> Forall (fun w => 0 <= w) ws ->
  exists p' n, vn_best flt ws p = Ok (p', n).
Proof.
  intros flt ws p Hl Hnn. destruct (vn_best flt ws p) as [[p' n]|e|s|] eqn:E.
  - eauto.
  - exfalso. exact (vnbest_no_error flt ws p e Hl Hnn E).
  - exfalso. exact (vnbest_no_panic flt ws p s E).
  - exfalso. exact (vnbest_terminates flt ws p E).
Qed.

(* Proofs about Model/Rcb.v for C04: the balance predicate, soundness and
   completeness of check_split, soundness of check_balance; the loop invariant
   of the repaired cut search and the balance of every node of the recursion. *)
From Coupe Require Import Lib.Prelude Lib.SFloat Model.Rcb Proofs.RcbProofs.
From Coq Require Import Permutation.
Open Scope Z_scope.

Lemma filter_Permutation {A} (f : A -> bool) (a b : list A) :
  Permutation a b -> Permutation (filter f a) (filter f b).
Proof.
  induction 1 as [|x a b H IH|x y a|a b c H1 IH1 H2 IH2]; cbn [filter].
  - constructor.
  - destruct (f x); [apply perm_skip|]; exact IH.
  - destruct (f x), (f y); try apply perm_swap; apply Permutation_refl.
  - eapply perm_trans; eassumption.
Qed.

Section Bal.
  Variable C : Type.
  Variable ltb : C -> C -> bool.
  Variable within_tol : Z -> Z -> bool.
  Variable valid : C -> bool.
  Hypothesis lt_irrefl : forall x, valid x = true -> ltb x x = false.
  Hypothesis lt_negtrans : forall x y z, valid x = true -> valid y = true -> valid z = true ->
    ltb x y = true -> ltb x z = true \/ ltb z y = true.
  Hypothesis lt_trans : forall x y z, valid x = true -> valid y = true -> valid z = true ->
    ltb x y = true -> ltb y z = true -> ltb x z = true.

  Notation wsum := (wsum C).
  Notation upto := (upto C ltb).
  Notation from := (from C ltb).
  Notation bob := (balanced_or_bracket C ltb within_tol).
  Notation check_split := (check_split C ltb within_tol).

  Definition vaw (l : list (C * Z)) : Prop := Forall (fun q => valid (fst q) = true /\ 0 <= snd q) l.

  Lemma wsum_app a b : wsum (a ++ b) = wsum a + wsum b.
  Proof. unfold Rcb.wsum. rewrite map_app. apply sumZ_app. Qed.
  Lemma wsum_cons q l : wsum (q :: l) = snd q + wsum l.
  Proof. reflexivity. Qed.

  Lemma wsum_perm a b : Permutation a b -> wsum a = wsum b.
  Proof.
    induction 1 as [|x a b H IH|x y a|a b c H1 IH1 H2 IH2]; rewrite ?wsum_cons; try lia; reflexivity.
  Qed.

  Lemma wsum_nonneg l : vaw l -> 0 <= wsum l.
  Proof. induction 1 as [|q l [_ Hq] _ IH]; rewrite ?wsum_cons; [cbn; lia|lia]. Qed.

  Lemma vaw_filter f l : vaw l -> vaw (filter f l).
  Proof. unfold vaw. rewrite !Forall_forall. intros H q Hq. apply filter_In in Hq. apply H; tauto. Qed.

  Lemma wsum_filter_le (f g : C * Z -> bool) l : vaw l ->
    (forall q, In q l -> f q = true -> g q = true) -> wsum (filter f l) <= wsum (filter g l).
  Proof.
    induction 1 as [|q l [_ Hq] Hl IH]; intros Hfg; cbn [filter]; [lia|].
    assert (IH' : wsum (filter f l) <= wsum (filter g l)) by (apply IH; intros; apply Hfg; [right|]; assumption).
    destruct (f q) eqn:Ef.
    - rewrite (Hfg q (or_introl eq_refl) Ef). rewrite !wsum_cons. lia.
    - destruct (g q); rewrite ?wsum_cons; lia.
  Qed.

  Lemma wsum_filter_split (f : C * Z -> bool) l :
    wsum l = wsum (filter f l) + wsum (filter (fun q => negb (f q)) l).
  Proof.
    induction l as [|q l IH]; cbn [filter]; [reflexivity|].
    destruct (f q); cbn [negb]; rewrite !wsum_cons; lia.
  Qed.

  Lemma bob_perm lo hi lo' hi' : Permutation lo lo' -> Permutation hi hi' -> bob lo hi -> bob lo' hi'.
  Proof.
    intros Pl Ph H. unfold Rcb.balanced_or_bracket in *.
    rewrite <- (wsum_perm _ _ Pl), <- (wsum_perm _ _ Ph).
    destruct H as [H|[H|[[H1 H2]|[H1 H2]]]]; [left; exact H|right; left; exact H| |].
    - right; right; left. split; [exact H1|]. intros y Hy.
      unfold Rcb.upto. rewrite <- (wsum_perm _ _ (filter_Permutation _ _ _ Ph)).
      apply H2. eapply Permutation_in; [apply Permutation_sym, Ph|exact Hy].
    - right; right; right. split; [exact H1|]. intros x Hx.
      unfold Rcb.from. rewrite <- (wsum_perm _ _ (filter_Permutation _ _ _ Pl)).
      apply H2. eapply Permutation_in; [apply Permutation_sym, Pl|exact Hx].
  Qed.

  (* the smallest coordinate is not above any other *)
  Lemma cmin_le x l : valid x = true -> Forall (fun c => valid c = true) l ->
    forall y, In y (x :: l) -> ltb y (cmin C ltb x l) = false.
  Proof.
    unfold cmin. revert x. induction l as [|z t IH]; intros x Hx Hl y Hy; cbn [fold_left].
    - destruct Hy as [<-|[]]. apply lt_irrefl, Hx.
    - inversion Hl as [|? ? Hz Ht]; subst. destruct (ltb z x) eqn:E.
      + destruct Hy as [<-|[<-|Hy]].
        * (* y = x, new min m <= z < x *)
          destruct (ltb x (fold_left (fun m y => if ltb y m then y else m) t z)) eqn:Q; [|reflexivity].
          exfalso. pose proof (IH z Hz Ht z (or_introl eq_refl)) as Hzm.
          assert (Hm : valid (fold_left (fun m y => if ltb y m then y else m) t z) = true).
          { pose proof (cmin_in C ltb z t) as Hin. unfold cmin in Hin.
            destruct Hin as [<-|Hin]; [exact Hz|]. rewrite Forall_forall in Ht. apply Ht, Hin. }
          pose proof (lt_trans z x _ Hz Hx Hm E Q). congruence.
        * apply IH; [exact Hz|exact Ht|left; reflexivity].
        * apply IH; [exact Hz|exact Ht|right; exact Hy].
      + destruct Hy as [<-|[<-|Hy]].
        * apply IH; [exact Hx|exact Ht|left; reflexivity].
        * destruct (ltb z (fold_left (fun m y => if ltb y m then y else m) t x)) eqn:Q; [|reflexivity].
          exfalso. pose proof (IH x Hx Ht x (or_introl eq_refl)) as Hxm.
          assert (Hm : valid (fold_left (fun m y => if ltb y m then y else m) t x) = true).
          { pose proof (cmin_in C ltb x t) as Hin. unfold cmin in Hin.
            destruct Hin as [<-|Hin]; [exact Hx|]. rewrite Forall_forall in Ht. apply Ht, Hin. }
          destruct (lt_negtrans z _ x Hz Hm Hx Q) as [A|A]; congruence.
        * apply IH; [exact Hx|exact Ht|right; exact Hy].
  Qed.

  Lemma cmax_ge x l : valid x = true -> Forall (fun c => valid c = true) l ->
    forall y, In y (x :: l) -> ltb (cmax C ltb x l) y = false.
  Proof.
    unfold cmax. revert x. induction l as [|z t IH]; intros x Hx Hl y Hy; cbn [fold_left].
    - destruct Hy as [<-|[]]. apply lt_irrefl, Hx.
    - inversion Hl as [|? ? Hz Ht]; subst. destruct (ltb x z) eqn:E.
      + destruct Hy as [<-|[<-|Hy]].
        * destruct (ltb (fold_left (fun m y => if ltb m y then y else m) t z) x) eqn:Q; [|reflexivity].
          exfalso. pose proof (IH z Hz Ht z (or_introl eq_refl)) as Hzm.
          assert (Hm : valid (fold_left (fun m y => if ltb m y then y else m) t z) = true).
          { pose proof (cmax_in C ltb z t) as Hin. unfold cmax in Hin.
            destruct Hin as [<-|Hin]; [exact Hz|]. rewrite Forall_forall in Ht. apply Ht, Hin. }
          pose proof (lt_trans _ x z Hm Hx Hz Q E). congruence.
        * apply IH; [exact Hz|exact Ht|left; reflexivity].
        * apply IH; [exact Hz|exact Ht|right; exact Hy].
      + destruct Hy as [<-|[<-|Hy]].
        * apply IH; [exact Hx|exact Ht|left; reflexivity].
        * destruct (ltb (fold_left (fun m y => if ltb m y then y else m) t x) z) eqn:Q; [|reflexivity].
          exfalso. pose proof (IH x Hx Ht x (or_introl eq_refl)) as Hxm.
          assert (Hm : valid (fold_left (fun m y => if ltb m y then y else m) t x) = true).
          { pose proof (cmax_in C ltb x t) as Hin. unfold cmax in Hin.
            destruct Hin as [<-|Hin]; [exact Hx|]. rewrite Forall_forall in Ht. apply Ht, Hin. }
          destruct (lt_negtrans _ z x Hm Hz Hx Q) as [A|A]; congruence.
        * apply IH; [exact Hx|exact Ht|right; exact Hy].
  Qed.

  Lemma vaw_valid l : vaw l -> Forall (fun c => valid c = true) (map fst l).
  Proof. unfold vaw. rewrite !Forall_forall. intros H c Hc. apply in_map_iff in Hc. destruct Hc as (q & <- & Hq). apply H, Hq. Qed.

  (* first_group is the smallest [upto], last_group the smallest [from] *)
  Lemma first_group_min hi : vaw hi -> forall y, In y hi -> first_group C ltb hi <= upto hi (fst y).
  Proof.
    intros Hv y Hy. destruct hi as [|[y0 w0] t]; [destruct Hy|]. cbn [first_group].
    set (m := cmin C ltb y0 (map fst t)).
    pose proof (vaw_valid _ Hv) as Hvc. cbn [map fst] in Hvc. inversion Hvc as [|? ? Hy0 Hvt]; subst.
    assert (Hm : valid m = true).
    { destruct (cmin_in C ltb y0 (map fst t)) as [Q|Q]; fold m in Q; [rewrite <- Q; exact Hy0|].
      rewrite Forall_forall in Hvt. apply Hvt, Q. }
    assert (Hym : ltb (fst y) m = false).
    { apply (cmin_le y0 (map fst t) Hy0 Hvt). change (y0 :: map fst t) with (map fst ((y0, w0) :: t)). apply in_map, Hy. }
    assert (Hvy : valid (fst y) = true).
    { unfold vaw in Hv. rewrite Forall_forall in Hv. apply Hv, Hy. }
    unfold Rcb.upto. apply wsum_filter_le; [exact Hv|].
    intros q Hq Hf. apply negb_true_iff in Hf. apply negb_true_iff.
    destruct (ltb (fst y) (fst q)) eqn:Q; [|reflexivity]. exfalso.
    assert (Hvq : valid (fst q) = true).
    { unfold vaw in Hv. rewrite Forall_forall in Hv. apply Hv, Hq. }
    destruct (lt_negtrans _ _ m Hvy Hvq Hm Q) as [A|A]; congruence.
  Qed.

  Lemma last_group_min lo : vaw lo -> forall x, In x lo -> last_group C ltb lo <= from lo (fst x).
  Proof.
    intros Hv x Hx. destruct lo as [|[x0 w0] t]; [destruct Hx|]. cbn [last_group].
    set (M := cmax C ltb x0 (map fst t)).
    pose proof (vaw_valid _ Hv) as Hvc. cbn [map fst] in Hvc. inversion Hvc as [|? ? Hx0 Hvt]; subst.
    assert (HM : valid M = true).
    { destruct (cmax_in C ltb x0 (map fst t)) as [Q|Q]; fold M in Q; [rewrite <- Q; exact Hx0|].
      rewrite Forall_forall in Hvt. apply Hvt, Q. }
    assert (HxM : ltb M (fst x) = false).
    { apply (cmax_ge x0 (map fst t) Hx0 Hvt). change (x0 :: map fst t) with (map fst ((x0, w0) :: t)). apply in_map, Hx. }
    assert (Hvx : valid (fst x) = true).
    { unfold vaw in Hv. rewrite Forall_forall in Hv. apply Hv, Hx. }
    unfold Rcb.from. apply wsum_filter_le; [exact Hv|].
    intros q Hq Hf. apply negb_true_iff in Hf. apply negb_true_iff.
    destruct (ltb (fst q) (fst x)) eqn:Q; [|reflexivity]. exfalso.
    assert (Hvq : valid (fst q) = true).
    { unfold vaw in Hv. rewrite Forall_forall in Hv. apply Hv, Hq. }
    destruct (lt_negtrans _ _ M Hvq Hvx HM Q) as [A|A]; congruence.
  Qed.

  Lemma first_group_attained hi : hi <> [] -> exists y, In y hi /\ first_group C ltb hi = upto hi (fst y).
  Proof.
    destruct hi as [|[y0 w0] t]; [congruence|]. intros _. cbn [first_group].
    destruct (cmin_in C ltb y0 (map fst t)) as [Q|Q].
    - exists (y0, w0). split; [left; reflexivity|]. cbn [fst]. rewrite <- Q. reflexivity.
    - apply in_map_iff in Q. destruct Q as (q & Eq & Hq). exists q. split; [right; exact Hq|]. rewrite Eq. reflexivity.
  Qed.
  Lemma last_group_attained lo : lo <> [] -> exists x, In x lo /\ last_group C ltb lo = from lo (fst x).
  Proof.
    destruct lo as [|[x0 w0] t]; [congruence|]. intros _. cbn [last_group].
    destruct (cmax_in C ltb x0 (map fst t)) as [Q|Q].
    - exists (x0, w0). split; [left; reflexivity|]. cbn [fst]. rewrite <- Q. reflexivity.
    - apply in_map_iff in Q. destruct Q as (q & Eq & Hq). exists q. split; [right; exact Hq|]. rewrite Eq. reflexivity.
  Qed.

  (* the boolean test decides the balance predicate (valid coordinates,
     non-negative weights) *)
  Theorem check_split_iff lo hi : vaw lo -> vaw hi -> (check_split lo hi = true <-> bob lo hi).
  Proof.
    intros Hl Hh. unfold Rcb.check_split, Rcb.balanced_or_bracket.
    set (wl := wsum lo). set (tot := wsum lo + wsum hi).
    pose proof (wsum_nonneg _ Hl) as Nl. pose proof (wsum_nonneg _ Hh) as Nh. fold wl in Nl.
    rewrite !orb_true_iff, !andb_true_iff, Z.eqb_eq, Z.ltb_lt, Z.geb_le, Z.gtb_lt, Z.leb_le.
    split.
    - intros [[[H|H]|[H1 H2]]|[H1 H2]]; [left; exact H|right; left; exact H| |].
      + right; right; left. split; [exact H1|]. intros y Hy. pose proof (first_group_min hi Hh y Hy). lia.
      + right; right; right. split; [lia|]. intros x Hx. pose proof (last_group_min lo Hl x Hx). lia.
    - intros [H|[H|[[H1 H2]|[H1 H2]]]]; [left; left; left; exact H|left; left; right; exact H| |].
      + left; right. split; [exact H1|]. destruct hi as [|h0 ht] eqn:E.
        * exfalso. assert (Z0 : wsum [] = 0) by reflexivity. unfold tot in H1. rewrite Z0 in *. lia.
        * destruct (first_group_attained (h0 :: ht)) as (y & Hy & ->); [discriminate|]. specialize (H2 y Hy). lia.
      + right. split; [lia|]. destruct lo as [|l0 lt'] eqn:E.
        * exfalso. assert (Z0 : wsum [] = 0) by reflexivity. unfold wl, tot in *. rewrite Z0 in *. lia.
        * destruct (last_group_attained (l0 :: lt')) as (x & Hx & ->); [discriminate|]. specialize (H2 x Hx). lia.
  Qed.

  (* ---------- soundness of check_balance ---------- *)

  Notation witem := (witem C).
  Notation BalTree := (BalTree C ltb within_tol).
  Definition vw (x : witem) : Prop := Forall (fun c => valid c = true) (fst (fst x)) /\ 0 <= snd (fst x).
  Definition remap (f : N -> N) (x : witem) : witem := (fst x, f (snd x)).

  Lemma axis_w_spec a (its : list witem) cl : axis_w C a its = Some cl ->
    (forall it, In it its -> exists c, nth_opt (fst (fst it)) a = Some c /\ In (c, snd (fst it)) cl)
    /\ (Forall vw its -> vaw cl).
  Proof.
    revert cl; induction its as [|[[cs w] i] t IH]; intros cl H; cbn [axis_w] in H.
    - inversion H; subst. split; [intros it []|intros _; constructor].
    - destruct (nth_opt cs a) as [c|] eqn:E; [|discriminate].
      destruct (axis_w C a t) as [r|]; [|discriminate]. inversion H; subst.
      destruct (IH r eq_refl) as [A B]. split.
      + intros it [<-|Hit]; cbn [fst snd].
        * exists c. split; [exact E|left; reflexivity].
        * destruct (A it Hit) as (c' & P1 & P2). exists c'. split; [exact P1|right; exact P2].
      + intros Hv. inversion Hv as [|? ? [V1 V2] Hv']; subst. cbn [fst snd] in *. constructor; [|apply B, Hv'].
        cbn [fst snd]. split; [|exact V2]. rewrite Forall_forall in V1. apply V1. eapply nth_opt_In; exact E.
  Qed.

  Lemma axis_w_perm a (l l' : list witem) : Permutation l l' -> forall cl, axis_w C a l = Some cl ->
    exists cl', axis_w C a l' = Some cl' /\ Permutation cl cl'.
  Proof.
    induction 1 as [|[[cs w] i] l l' H IH|[[cs1 w1] i1] [[cs2 w2] i2] l|l1 l2 l3 H1 IH1 H2 IH2]; intros cl Hcl.
    - exists cl. split; [exact Hcl|apply Permutation_refl].
    - cbn [axis_w] in *. destruct (nth_opt cs a) as [c|]; [|discriminate].
      destruct (axis_w C a l) as [r|]; [|discriminate]. inversion Hcl; subst.
      destruct (IH r eq_refl) as (r' & -> & Pr). exists ((c, w) :: r'). split; [reflexivity|apply perm_skip, Pr].
    - cbn [axis_w] in *. destruct (nth_opt cs2 a) as [c2|]; [|discriminate].
      destruct (nth_opt cs1 a) as [c1|]; [|destruct (axis_w C a l); discriminate].
      destruct (axis_w C a l) as [r|]; [|discriminate]. inversion Hcl; subst.
      exists ((c1, w1) :: (c2, w2) :: r). split; [reflexivity|apply perm_swap].
    - destruct (IH1 cl Hcl) as (c2 & A2 & P2). destruct (IH2 c2 A2) as (c3 & A3 & P3).
      exists c3. split; [exact A3|eapply perm_trans; eassumption].
  Qed.

  Lemma axis_w_remap f a (l : list witem) : axis_w C a (map (remap f) l) = axis_w C a l.
  Proof.
    induction l as [|[[cs w] i] t IH]; cbn [map remap axis_w fst snd]; [reflexivity|].
    rewrite IH. reflexivity.
  Qed.

  Lemma BalTree_map (f : N -> N) D : forall d a its,
    BalTree D d a its ->
    (forall x y, In x its -> In y its -> f (snd x) = f (snd y) -> snd x = snd y) ->
    BalTree D d a (map (remap f) its).
  Proof.
    induction 1 as [d a its Hs|d a lo hi cl ch Hb Hd Al Ah Hbob Tl IHl Th IHh]; intros Hinj.
    - apply bal_leaf. intros x y Hx Hy. rewrite map_map in Hx, Hy. apply in_map_iff in Hx, Hy.
      destruct Hx as (x' & <- & Hx), Hy as (y' & <- & Hy). unfold wp, remap. cbn [fst snd]. f_equal.
      apply (Hs (wp C x') (wp C y')); apply in_map; assumption.
    - rewrite map_app. eapply bal_node with (cl := cl) (ch := ch).
      + intros x y Hx Hy. apply in_map_iff in Hx, Hy.
        destruct Hx as (x' & <- & Hx), Hy as (y' & <- & Hy).
        destruct (Hb _ _ Hx Hy) as (cx & cy & A & B & Q). exists cx, cy. auto.
      + intros x y Hx Hy. rewrite map_map in Hx, Hy. apply in_map_iff in Hx, Hy.
        destruct Hx as (x' & <- & Hx), Hy as (y' & <- & Hy). unfold wp, remap. cbn [fst snd]. intros Q.
        apply (Hd (wp C x') (wp C y')); [apply in_map, Hx|apply in_map, Hy|].
        unfold wp; cbn [snd]. apply Hinj; [apply in_or_app; left; exact Hx|apply in_or_app; right; exact Hy|exact Q].
      + rewrite axis_w_remap. exact Al.
      + rewrite axis_w_remap. exact Ah.
      + exact Hbob.
      + apply IHl. intros x y Hx Hy. apply Hinj; apply in_or_app; left; assumption.
      + apply IHh. intros x y Hx Hy. apply Hinj; apply in_or_app; right; assumption.
  Qed.

  Lemma In_fst_cl (cl : list (C * Z)) c w : In (c, w) cl -> In c (map fst cl).
  Proof. intros H. apply (in_map fst) in H. exact H. Qed.

  Lemma check_nodes_sound D : forall d a its,
    check_nodes C ltb within_tol D d a its = true -> Forall vw its ->
    exists t, Permutation t its /\ BalTree D d a t.
  Proof.
    induction d as [|d IH]; intros a its H Hv.
    - exists its. split; [apply Permutation_refl|]. apply bal_leaf. cbn [check_nodes] in H.
      destruct its as [|x0 t]; [intros x y []|]. rewrite forallb_forall in H.
      assert (Hall : forall y, In y (x0 :: t) -> snd y = snd x0).
      { intros y [<-|Hy]; [reflexivity|]. apply N.eqb_eq, H, Hy. }
      intros x y Hx Hy. apply in_map_iff in Hx, Hy.
      destruct Hx as (x' & <- & Hx), Hy as (y' & <- & Hy). unfold wp; cbn [snd].
      rewrite (Hall x' Hx), (Hall y' Hy). reflexivity.
    - cbn [check_nodes] in H.
      set (lo := filter (fun it => negb (N.testbit (snd it) (N.of_nat d))) its) in *.
      set (hi := filter (fun it => N.testbit (snd it) (N.of_nat d)) its) in *.
      destruct (axis_w C a lo) as [cl|] eqn:Ecl; [|discriminate].
      destruct (axis_w C a hi) as [ch|] eqn:Ech; [|discriminate].
      apply andb_true_iff in H. destruct H as [H Hh]. apply andb_true_iff in H. destruct H as [H Hl].
      apply andb_true_iff in H. destruct H as [Hsep Hsplit].
      assert (Hvl : Forall vw lo).
      { rewrite Forall_forall in *. intros x Hx. apply Hv. apply filter_In in Hx. tauto. }
      assert (Hvh : Forall vw hi).
      { rewrite Forall_forall in *. intros x Hx. apply Hv. apply filter_In in Hx. tauto. }
      destruct (axis_w_spec a lo cl Ecl) as [Acl Vcl]. destruct (axis_w_spec a hi ch Ech) as [Ach Vch].
      specialize (Vcl Hvl). specialize (Vch Hvh).
      destruct (IH _ _ Hl Hvl) as (tl & Pl & Tl). destruct (IH _ _ Hh Hvh) as (th & Ph & Th).
      destruct (axis_w_perm a lo tl (Permutation_sym Pl) cl Ecl) as (cl' & Acl' & Pcl).
      destruct (axis_w_perm a hi th (Permutation_sym Ph) ch Ech) as (ch' & Ach' & Pch).
      exists (tl ++ th). split.
      + eapply perm_trans; [apply Permutation_app; [exact Pl|exact Ph]|].
        apply (filter_perm (fun it => N.testbit (snd it) (N.of_nat d))).
      + eapply bal_node with (cl := cl') (ch := ch'); [| |exact Acl'|exact Ach'| |exact Tl|exact Th].
        * intros x y Hx Hy.
          assert (Hx' : In x lo) by (eapply Permutation_in; [exact Pl|exact Hx]).
          assert (Hy' : In y hi) by (eapply Permutation_in; [exact Ph|exact Hy]).
          destruct (Acl x Hx') as (cx & Ax & Bx). destruct (Ach y Hy') as (cy & Ay & By).
          exists cx, cy. unfold coord, wp. cbn [fst]. split; [exact Ax|]. split; [exact Ay|].
          apply (sep_sound C ltb valid lt_negtrans (map fst cl) (map fst ch) Hsep (vaw_valid _ Vcl) (vaw_valid _ Vch));
            eapply In_fst_cl; eassumption.
        * intros x y Hx Hy Q. apply in_map_iff in Hx, Hy.
          destruct Hx as (x' & <- & Hx), Hy as (y' & <- & Hy). unfold wp in Q; cbn [snd] in Q.
          assert (Hx' : In x' lo) by (eapply Permutation_in; [exact Pl|exact Hx]).
          assert (Hy' : In y' hi) by (eapply Permutation_in; [exact Ph|exact Hy]).
          apply filter_In in Hx', Hy'. destruct Hx' as [_ Bx], Hy' as [_ By].
          rewrite Q in Bx. rewrite By in Bx. discriminate.
        * apply (bob_perm cl ch cl' ch' Pcl Pch). apply (check_split_iff cl ch Vcl Vch). exact Hsplit.
  Qed.

  Lemma witems_off pts ws ids off :
    map (remap (fun i => (i - off)%N)) (witems C off pts ws ids) = combine (combine pts ws) ids.
  Proof.
    unfold witems. generalize (combine pts ws) as l. intros l.
    revert ids; induction l as [|p t IH]; intros [|i ids]; cbn [map combine]; try reflexivity.
    unfold remap at 1. cbn [fst snd]. f_equal; [f_equal; lia|apply IH].
  Qed.

  Lemma try_balance_sound D k pts ws ids : forall n off,
    try_balance C ltb within_tol n off D k pts ws ids = true ->
    exists o, check_nodes C ltb within_tol D k 0 (witems C o pts ws ids) = true.
  Proof.
    induction n as [|n IH]; intros off H; cbn [try_balance] in H; [discriminate|].
    apply orb_true_iff in H. destruct H as [H|H].
    - apply andb_true_iff in H. exists off. tauto.
    - apply (IH _ H).
  Qed.

  (* the C04 checker accepts only balanced bisection trees *)
  Theorem check_balance_sound D k pts ws ids :
    check_balance C ltb within_tol valid D k pts ws ids = true ->
    length pts = length ids /\ length ws = length ids
    /\ exists t, Permutation t (combine (combine pts ws) ids) /\ BalTree D k 0 t.
  Proof.
    unfold check_balance. intros H.
    apply andb_true_iff in H. destruct H as [H H6]. apply andb_true_iff in H. destruct H as [H H5].
    apply andb_true_iff in H. destruct H as [H H4]. apply andb_true_iff in H. destruct H as [H H3].
    apply andb_true_iff in H. destruct H as [H1 H2].
    apply Nat.eqb_eq in H1, H2. split; [exact H1|]. split; [exact H2|].
    destruct (try_balance_sound D k pts ws ids _ _ H6) as [o Ho].
    assert (Hv : Forall vw (witems C o pts ws ids)).
    { rewrite Forall_forall. intros [[pt w] c] Hx. unfold witems in Hx.
      apply in_combine_l in Hx. pose proof (in_combine_l _ _ _ _ Hx) as Hp. pose proof (in_combine_r _ _ _ _ Hx) as Hw.
      rewrite forallb_forall in H3, H4. specialize (H3 _ Hp). specialize (H4 _ Hw).
      apply andb_true_iff in H3. destruct H3 as [_ H3]. unfold vw. cbn [fst snd]. split.
      - rewrite Forall_forall. rewrite forallb_forall in H3. exact H3.
      - apply Z.leb_le, H4. }
    destruct (check_nodes_sound D k 0 _ Ho Hv) as (t & Pt & Tt).
    exists (map (remap (fun i => (i - o)%N)) t). split.
    - rewrite <- (witems_off pts ws ids o). apply Permutation_map, Pt.
    - apply BalTree_map; [exact Tt|].
      intros x y Hx Hy Q.
      assert (Hge : forall z, In z t -> (o <= snd z)%N).
      { intros z Hz. assert (Hz' : In z (witems C o pts ws ids)) by (eapply Permutation_in; [exact Pt|exact Hz]).
        unfold witems in Hz'. destruct z as [pt c]. apply in_combine_r in Hz'.
        apply in_map_iff in Hz'. destruct Hz' as (i & <- & _). cbn [snd]. lia. }
      specialize (Hge x Hx) as G1. specialize (Hge y Hy) as G2. lia.
  Qed.
End Bal.

(* Proofs about Model/Rcb.v for C04: the balance predicate, soundness and
   completeness of check_split, soundness of check_balance; the loop invariant
   of the repaired cut search and the balance of every node of the recursion. *)
From Coupe Require Import Lib.Prelude Lib.SFloat Model.Rcb Proofs.RcbProofs.
From Coq Require Import Permutation.
Open Scope Z_scope.

Lemma filter_Permutation {A} (f : A -> bool) (a b : list A) :
  Permutation a b -> Permutation (filter f a) (filter f b).
Proof.
  induction 1 as [|x a b H IH|x y a|a b c H1 IH1 H2 IH2]; cbn [filter].
  - constructor.
  - destruct (f x); [apply perm_skip|]; exact IH.
  - destruct (f x), (f y); try apply perm_swap; apply Permutation_refl.
  - eapply perm_trans; eassumption.
Qed.

Section Bal.
  Variable C : Type.
  Variable ltb : C -> C -> bool.
  Variable within_tol : Z -> Z -> bool.
  Variable valid : C -> bool.
  Hypothesis lt_irrefl : forall x, valid x = true -> ltb x x = false.
  Hypothesis lt_negtrans : forall x y z, valid x = true -> valid y = true -> valid z = true ->
    ltb x y = true -> ltb x z = true \/ ltb z y = true.
  Hypothesis lt_trans : forall x y z, valid x = true -> valid y = true -> valid z = true ->
    ltb x y = true -> ltb y z = true -> ltb x z = true.

  Notation wsum := (wsum C).
  Notation upto := (upto C ltb).
  Notation from := (from C ltb).
  Notation bob := (balanced_or_bracket C ltb within_tol).
  Notation check_split := (check_split C ltb within_tol).

  Definition vaw (l : list (C * Z)) : Prop := Forall (fun q => valid (fst q) = true /\ 0 <= snd q) l.

  Lemma wsum_app a b : wsum (a ++ b) = wsum a + wsum b.
  Proof. unfold Rcb.wsum. rewrite map_app. apply sumZ_app. Qed.
  Lemma wsum_cons q l : wsum (q :: l) = snd q + wsum l.
  Proof. reflexivity. Qed.

  Lemma wsum_perm a b : Permutation a b -> wsum a = wsum b.
  Proof.
    induction 1 as [|x a b H IH|x y a|a b c H1 IH1 H2 IH2]; rewrite ?wsum_cons; try lia; reflexivity.
  Qed.

  Lemma wsum_nonneg l : vaw l -> 0 <= wsum l.
  Proof. induction 1 as [|q l [_ Hq] _ IH]; rewrite ?wsum_cons; [cbn; lia|lia]. Qed.

  Lemma vaw_filter f l : vaw l -> vaw (filter f l).
  Proof. unfold vaw. rewrite !Forall_forall. intros H q Hq. apply filter_In in Hq. apply H; tauto. Qed.

  Lemma wsum_filter_le (f g : C * Z -> bool) l : vaw l ->
    (forall q, In q l -> f q = true -> g q = true) -> wsum (filter f l) <= wsum (filter g l).
  Proof.
    induction 1 as [|q l [_ Hq] Hl IH]; intros Hfg; cbn [filter]; [lia|].
    assert (IH' : wsum (filter f l) <= wsum (filter g l)) by (apply IH; intros; apply Hfg; [right|]; assumption).
    destruct (f q) eqn:Ef.
    - rewrite (Hfg q (or_introl eq_refl) Ef). rewrite !wsum_cons. lia.
    - destruct (g q); rewrite ?wsum_cons; lia.
  Qed.

  Lemma wsum_filter_split (f : C * Z -> bool) l :
    wsum l = wsum (filter f l) + wsum (filter (fun q => negb (f q)) l).
  Proof.
    induction l as [|q l IH]; cbn [filter]; [reflexivity|].
    destruct (f q); cbn [negb]; rewrite !wsum_cons; lia.
  Qed.

  Lemma bob_perm lo hi lo' hi' : Permutation lo lo' -> Permutation hi hi' -> bob lo hi -> bob lo' hi'.
  Proof.
    intros Pl Ph H. unfold Rcb.balanced_or_bracket in *.
    rewrite <- (wsum_perm _ _ Pl), <- (wsum_perm _ _ Ph).
    destruct H as [H|[H|[[H1 H2]|[H1 H2]]]]; [left; exact H|right; left; exact H| |].
    - right; right; left. split; [exact H1|]. intros y Hy.
      unfold Rcb.upto. rewrite <- (wsum_perm _ _ (filter_Permutation _ _ _ Ph)).
      apply H2. eapply Permutation_in; [apply Permutation_sym, Ph|exact Hy].
    - right; right; right. split; [exact H1|]. intros x Hx.
      unfold Rcb.from. rewrite <- (wsum_perm _ _ (filter_Permutation _ _ _ Pl)).
      apply H2. eapply Permutation_in; [apply Permutation_sym, Pl|exact Hx].
  Qed.

  (* the smallest coordinate is not above any other *)
  Lemma cmin_le x l : valid x = true -> Forall (fun c => valid c = true) l ->
    forall y, In y (x :: l) -> ltb y (cmin C ltb x l) = false.
  Proof.
    unfold cmin. revert x. induction l as [|z t IH]; intros x Hx Hl y Hy; cbn [fold_left].
    - destruct Hy as [<-|[]]. apply lt_irrefl, Hx.
    - inversion Hl as [|? ? Hz Ht]; subst. destruct (ltb z x) eqn:E.
      + destruct Hy as [<-|[<-|Hy]].
        * (* y = x, new min m <= z < x *)
          destruct (ltb x (fold_left (fun m y => if ltb y m then y else m) t z)) eqn:Q; [|reflexivity].
          exfalso. pose proof (IH z Hz Ht z (or_introl eq_refl)) as Hzm.
          assert (Hm : valid (fold_left (fun m y => if ltb y m then y else m) t z) = true).
          { pose proof (cmin_in C ltb z t) as Hin. unfold cmin in Hin.
            destruct Hin as [<-|Hin]; [exact Hz|]. rewrite Forall_forall in Ht. apply Ht, Hin. }
          pose proof (lt_trans z x _ Hz Hx Hm E Q). congruence.
        * apply IH; [exact Hz|exact Ht|left; reflexivity].
        * apply IH; [exact Hz|exact Ht|right; exact Hy].
      + destruct Hy as [<-|[<-|Hy]].
        * apply IH; [exact Hx|exact Ht|left; reflexivity].
        * destruct (ltb z (fold_left (fun m y => if ltb y m then y else m) t x)) eqn:Q; [|reflexivity].
          exfalso. pose proof (IH x Hx Ht x (or_introl eq_refl)) as Hxm.
          assert (Hm : valid (fold_left (fun m y => if ltb y m then y else m) t x) = true).
          { pose proof (cmin_in C ltb x t) as Hin. unfold cmin in Hin.
            destruct Hin as [<-|Hin]; [exact Hx|]. rewrite Forall_forall in Ht. apply Ht, Hin. }
          destruct (lt_negtrans z _ x Hz Hm Hx Q) as [A|A]; congruence.
        * apply IH; [exact Hx|exact Ht|right; exact Hy].
  Qed.

  Lemma cmax_ge x l : valid x = true -> Forall (fun c => valid c = true) l ->
    forall y, In y (x :: l) -> ltb (cmax C ltb x l) y = false.
  Proof.
    unfold cmax. revert x. induction l as [|z t IH]; intros x Hx Hl y Hy; cbn [fold_left].
    - destruct Hy as [<-|[]]. apply lt_irrefl, Hx.
    - inversion Hl as [|? ? Hz Ht]; subst. destruct (ltb x z) eqn:E.
      + destruct Hy as [<-|[<-|Hy]].
        * destruct (ltb (fold_left (fun m y => if ltb m y then y else m) t z) x) eqn:Q; [|reflexivity].
          exfalso. pose proof (IH z Hz Ht z (or_introl eq_refl)) as Hzm.
          assert (Hm : valid (fold_left (fun m y => if ltb m y then y else m) t z) = true).
          { pose proof (cmax_in C ltb z t) as Hin. unfold cmax in Hin.
            destruct Hin as [<-|Hin]; [exact Hz|]. rewrite Forall_forall in Ht. apply Ht, Hin. }
          pose proof (lt_trans _ x z Hm Hx Hz Q E). congruence.
        * apply IH; [exact Hz|exact Ht|left; reflexivity].
        * apply IH; [exact Hz|exact Ht|right; exact Hy].
      + destruct Hy as [<-|[<-|Hy]].
        * apply IH; [exact Hx|exact Ht|left; reflexivity].
        * destruct (ltb (fold_left (fun m y => if ltb m y then y else m) t x) z) eqn:Q; [|reflexivity].
          exfalso. pose proof (IH x Hx Ht x (or_introl eq_refl)) as Hxm.
          assert (Hm : valid (fold_left (fun m y => if ltb m y then y else m) t x) = true).
          { pose proof (cmax_in C ltb x t) as Hin. unfold cmax in Hin.
            destruct Hin as [<-|Hin]; [exact Hx|]. rewrite Forall_forall in Ht. apply Ht, Hin. }
          destruct (lt_negtrans _ z x Hm Hz Hx Q) as [A|A]; congruence.
        * apply IH; [exact Hx|exact Ht|right; exact Hy].
  Qed.

  Lemma vaw_valid l : vaw l -> Forall (fun c => valid c = true) (map fst l).
  Proof. unfold vaw. rewrite !Forall_forall. intros H c Hc. apply in_map_iff in Hc. destruct Hc as (q & <- & Hq). apply H, Hq. Qed.

  (* first_group is the smallest [upto], last_group the smallest [from] *)
  Lemma first_group_min hi : vaw hi -> forall y, In y hi -> first_group C ltb hi <= upto hi (fst y).
  Proof.
    intros Hv y Hy. destruct hi as [|[y0 w0] t]; [destruct Hy|]. cbn [first_group].
    set (m := cmin C ltb y0 (map fst t)).
    pose proof (vaw_valid _ Hv) as Hvc. cbn [map fst] in Hvc. inversion Hvc as [|? ? Hy0 Hvt]; subst.
    assert (Hm : valid m = true).
    { destruct (cmin_in C ltb y0 (map fst t)) as [Q|Q]; fold m in Q; [rewrite <- Q; exact Hy0|].
      rewrite Forall_forall in Hvt. apply Hvt, Q. }
    assert (Hym : ltb (fst y) m = false).
    { apply (cmin_le y0 (map fst t) Hy0 Hvt). change (y0 :: map fst t) with (map fst ((y0, w0) :: t)). apply in_map, Hy. }
    assert (Hvy : valid (fst y) = true).
    { unfold vaw in Hv. rewrite Forall_forall in Hv. apply Hv, Hy. }
    unfold Rcb.upto. apply wsum_filter_le; [exact Hv|].
    intros q Hq Hf. apply negb_true_iff in Hf. apply negb_true_iff.
    destruct (ltb (fst y) (fst q)) eqn:Q; [|reflexivity]. exfalso.
    assert (Hvq : valid (fst q) = true).
    { unfold vaw in Hv. rewrite Forall_forall in Hv. apply Hv, Hq. }
    destruct (lt_negtrans _ _ m Hvy Hvq Hm Q) as [A|A]; congruence.
  Qed.

  Lemma last_group_min lo : vaw lo -> forall x, In x lo -> last_group C ltb lo <= from lo (fst x).
  Proof.
    intros Hv x Hx. destruct lo as [|[x0 w0] t]; [destruct Hx|]. cbn [last_group].
    set (M := cmax C ltb x0 (map fst t)).
    pose proof (vaw_valid _ Hv) as Hvc. cbn [map fst] in Hvc. inversion Hvc as [|? ? Hx0 Hvt]; subst.
    assert (HM : valid M = true).
    { destruct (cmax_in C ltb x0 (map fst t)) as [Q|Q]; fold M in Q; [rewrite <- Q; exact Hx0|].
      rewrite Forall_forall in Hvt. apply Hvt, Q. }
    assert (HxM : ltb M (fst x) = false).
    { apply (cmax_ge x0 (map fst t) Hx0 Hvt). change (x0 :: map fst t) with (map fst ((x0, w0) :: t)). apply in_map, Hx. }
    assert (Hvx : valid (fst x) = true).
    { unfold vaw in Hv. rewrite Forall_forall in Hv. apply Hv, Hx. }
    unfold Rcb.from. apply wsum_filter_le; [exact Hv|].
    intros q Hq Hf. apply negb_true_iff in Hf. apply negb_true_iff.
    destruct (ltb (fst q) (fst x)) eqn:Q; [|reflexivity]. exfalso.
    assert (Hvq : valid (fst q) = true).
    { unfold vaw in Hv. rewrite Forall_forall in Hv. apply Hv, Hq. }
    destruct (lt_negtrans _ _ M Hvq Hvx HM Q) as [A|A]; congruence.
  Qed.

  Lemma first_group_attained hi : hi <> [] -> exists y, In y hi /\ first_group C ltb hi = upto hi (fst y).
  Proof.
    destruct hi as [|[y0 w0] t]; [congruence|]. intros _. cbn [first_group].
    destruct (cmin_in C ltb y0 (map fst t)) as [Q|Q].
    - exists (y0, w0). split; [left; reflexivity|]. cbn [fst]. rewrite <- Q. reflexivity.
    - apply in_map_iff in Q. destruct Q as (q & Eq & Hq). exists q. split; [right; exact Hq|]. rewrite Eq. reflexivity.
  Qed.
  Lemma last_group_attained lo : lo <> [] -> exists x, In x lo /\ last_group C ltb lo = from lo (fst x).
  Proof.
    destruct lo as [|[x0 w0] t]; [congruence|]. intros _. cbn [last_group].
    destruct (cmax_in C ltb x0 (map fst t)) as [Q|Q].
    - exists (x0, w0). split; [left; reflexivity|]. cbn [fst]. rewrite <- Q. reflexivity.
    - apply in_map_iff in Q. destruct Q as (q & Eq & Hq). exists q. split; [right; exact Hq|]. rewrite Eq. reflexivity.
  Qed.

  (* the boolean test decides the balance predicate (valid coordinates,
     non-negative weights) *)
  Theorem check_split_iff lo hi : vaw lo -> vaw hi -> (check_split lo hi = true <-> bob lo hi).
  Proof.
    intros Hl Hh. unfold Rcb.check_split, Rcb.balanced_or_bracket.
    set (wl := wsum lo). set (tot := wsum lo + wsum hi).
    pose proof (wsum_nonneg _ Hl) as Nl. pose proof (wsum_nonneg _ Hh) as Nh. fold wl in Nl.
    rewrite !orb_true_iff, !andb_true_iff, Z.eqb_eq, Z.ltb_lt, Z.geb_le, Z.gtb_lt, Z.leb_le.
    split.
    - intros [[[H|H]|[H1 H2]]|[H1 H2]]; [left; exact H|right; left; exact H| |].
      + right; right; left. split; [exact H1|]. intros y Hy. pose proof (first_group_min hi Hh y Hy). lia.
      + right; right; right. split; [lia|]. intros x Hx. pose proof (last_group_min lo Hl x Hx). lia.
    - intros [H|[H|[[H1 H2]|[H1 H2]]]]; [left; left; left; exact H|left; left; right; exact H| |].
      + left; right. split; [exact H1|]. destruct hi as [|h0 ht] eqn:E.
        * exfalso. assert (Z0 : wsum [] = 0) by reflexivity. unfold tot in H1. rewrite Z0 in *. lia.
        * destruct (first_group_attained (h0 :: ht)) as (y & Hy & ->); [discriminate|]. specialize (H2 y Hy). lia.
      + right. split; [lia|]. destruct lo as [|l0 lt'] eqn:E.
        * exfalso. assert (Z0 : wsum [] = 0) by reflexivity. unfold wl, tot in *. rewrite Z0 in *. lia.
        * destruct (last_group_attained (l0 :: lt')) as (x & Hx & ->); [discriminate|]. specialize (H2 x Hx). lia.
  Qed.

  (* ---------- soundness of check_balance ---------- *)

  Notation witem := (witem C).
  Notation BalTree := (BalTree C ltb within_tol).
  Definition vw (x : witem) : Prop := Forall (fun c => valid c = true) (fst (fst x)) /\ 0 <= snd (fst x).
  Definition remap (f : N -> N) (x : witem) : witem := (fst x, f (snd x)).

  Lemma axis_w_spec a (its : list witem) cl : axis_w C a its = Some cl ->
    (forall it, In it its -> exists c, nth_opt (fst (fst it)) a = Some c /\ In (c, snd (fst it)) cl)
    /\ (Forall vw its -> vaw cl).
  Proof.
    revert cl; induction its as [|[[cs w] i] t IH]; intros cl H; cbn [axis_w] in H.
    - inversion H; subst. split; [intros it []|intros _; constructor].
    - destruct (nth_opt cs a) as [c|] eqn:E; [|discriminate].
      destruct (axis_w C a t) as [r|]; [|discriminate]. inversion H; subst.
      destruct (IH r eq_refl) as [A B]. split.
      + intros it [<-|Hit]; cbn [fst snd].
        * exists c. split; [exact E|left; reflexivity].
        * destruct (A it Hit) as (c' & P1 & P2). exists c'. split; [exact P1|right; exact P2].
      + intros Hv. inversion Hv as [|? ? [V1 V2] Hv']; subst. cbn [fst snd] in *. constructor; [|apply B, Hv'].
        cbn [fst snd]. split; [|exact V2]. rewrite Forall_forall in V1. apply V1. eapply nth_opt_In; exact E.
  Qed.

  Lemma axis_w_perm a (l l' : list witem) : Permutation l l' -> forall cl, axis_w C a l = Some cl ->
    exists cl', axis_w C a l' = Some cl' /\ Permutation cl cl'.
  Proof.
    induction 1 as [|[[cs w] i] l l' H IH|[[cs1 w1] i1] [[cs2 w2] i2] l|l1 l2 l3 H1 IH1 H2 IH2]; intros cl Hcl.
    - exists cl. split; [exact Hcl|apply Permutation_refl].
    - cbn [axis_w] in *. destruct (nth_opt cs a) as [c|]; [|discriminate].
      destruct (axis_w C a l) as [r|]; [|discriminate]. inversion Hcl; subst.
      destruct (IH r eq_refl) as (r' & -> & Pr). exists ((c, w) :: r'). split; [reflexivity|apply perm_skip, Pr].
    - cbn [axis_w] in *. destruct (nth_opt cs2 a) as [c2|]; [|discriminate].
      destruct (nth_opt cs1 a) as [c1|]; [|destruct (axis_w C a l); discriminate].
      destruct (axis_w C a l) as [r|]; [|discriminate]. inversion Hcl; subst.
      exists ((c1, w1) :: (c2, w2) :: r). split; [reflexivity|apply perm_swap].
    - destruct (IH1 cl Hcl) as (c2 & A2 & P2). destruct (IH2 c2 A2) as (c3 & A3 & P3).
      exists c3. split; [exact A3|eapply perm_trans; eassumption].
  Qed.

  Lemma axis_w_remap f a (l : list witem) : axis_w C a (map (remap f) l) = axis_w C a l.
  Proof.
    induction l as [|[[cs w] i] t IH]; cbn [map remap axis_w fst snd]; [reflexivity|].
    rewrite IH. reflexivity.
  Qed.

  Lemma BalTree_map (f : N -> N) D : forall d a its,
    BalTree D d a its ->
    (forall x y, In x its -> In y its -> f (snd x) = f (snd y) -> snd x = snd y) ->
    BalTree D d a (map (remap f) its).
  Proof.
    induction 1 as [d a its Hs|d a lo hi cl ch Hb Hd Al Ah Hbob Tl IHl Th IHh]; intros Hinj.
    - apply bal_leaf. intros x y Hx Hy. rewrite map_map in Hx, Hy. apply in_map_iff in Hx, Hy.
      destruct Hx as (x' & <- & Hx), Hy as (y' & <- & Hy). unfold wp, remap. cbn [fst snd]. f_equal.
      apply (Hs (wp C x') (wp C y')); apply in_map; assumption.
    - rewrite map_app. eapply bal_node with (cl := cl) (ch := ch).
      + intros x y Hx Hy. apply in_map_iff in Hx, Hy.
        destruct Hx as (x' & <- & Hx), Hy as (y' & <- & Hy).
        destruct (Hb _ _ Hx Hy) as (cx & cy & A & B & Q). exists cx, cy. auto.
      + intros x y Hx Hy. rewrite map_map in Hx, Hy. apply in_map_iff in Hx, Hy.
        destruct Hx as (x' & <- & Hx), Hy as (y' & <- & Hy). unfold wp, remap. cbn [fst snd]. intros Q.
        apply (Hd (wp C x') (wp C y')); [apply in_map, Hx|apply in_map, Hy|].
        unfold wp; cbn [snd]. apply Hinj; [apply in_or_app; left; exact Hx|apply in_or_app; right; exact Hy|exact Q].
      + rewrite axis_w_remap. exact Al.
      + rewrite axis_w_remap. exact Ah.
      + exact Hbob.
      + apply IHl. intros x y Hx Hy. apply Hinj; apply in_or_app; left; assumption.
      + apply IHh. intros x y Hx Hy. apply Hinj; apply in_or_app; right; assumption.
  Qed.

  Lemma In_fst_cl (cl : list (C * Z)) c w : In (c, w) cl -> In c (map fst cl).
  Proof. intros H. apply (in_map fst) in H. exact H. Qed.

  Lemma check_nodes_sound D : forall d a its,
    check_nodes C ltb within_tol D d a its = true -> Forall vw its ->
    exists t, Permutation t its /\ BalTree D d a t.
  Proof.
    induction d as [|d IH]; intros a its H Hv.
    - exists its. split; [apply Permutation_refl|]. apply bal_leaf. cbn [check_nodes] in H.
      destruct its as [|x0 t]; [intros x y []|]. rewrite forallb_forall in H.
      assert (Hall : forall y, In y (x0 :: t) -> snd y = snd x0).
      { intros y [<-|Hy]; [reflexivity|]. apply N.eqb_eq, H, Hy. }
      intros x y Hx Hy. apply in_map_iff in Hx, Hy.
      destruct Hx as (x' & <- & Hx), Hy as (y' & <- & Hy). unfold wp; cbn [snd].
      rewrite (Hall x' Hx), (Hall y' Hy). reflexivity.
    - cbn [check_nodes] in H.
      set (lo := filter (fun it => negb (N.testbit (snd it) (N.of_nat d))) its) in *.
      set (hi := filter (fun it => N.testbit (snd it) (N.of_nat d)) its) in *.
      destruct (axis_w C a lo) as [cl|] eqn:Ecl; [|discriminate].
      destruct (axis_w C a hi) as [ch|] eqn:Ech; [|discriminate].
      apply andb_true_iff in H. destruct H as [H Hh]. apply andb_true_iff in H. destruct H as [H Hl].
      apply andb_true_iff in H. destruct H as [Hsep Hsplit].
      assert (Hvl : Forall vw lo).
      { rewrite Forall_forall in *. intros x Hx. apply Hv. apply filter_In in Hx. tauto. }
      assert (Hvh : Forall vw hi).
      { rewrite Forall_forall in *. intros x Hx. apply Hv. apply filter_In in Hx. tauto. }
      destruct (axis_w_spec a lo cl Ecl) as [Acl Vcl]. destruct (axis_w_spec a hi ch Ech) as [Ach Vch].
      specialize (Vcl Hvl). specialize (Vch Hvh).
      destruct (IH _ _ Hl Hvl) as (tl & Pl & Tl). destruct (IH _ _ Hh Hvh) as (th & Ph & Th).
      destruct (axis_w_perm a lo tl (Permutation_sym Pl) cl Ecl) as (cl' & Acl' & Pcl).
      destruct (axis_w_perm a hi th (Permutation_sym Ph) ch Ech) as (ch' & Ach' & Pch).
      exists (tl ++ th). split.
      + eapply perm_trans; [apply Permutation_app; [exact Pl|exact Ph]|].
        apply (filter_perm (fun it => N.testbit (snd it) (N.of_nat d))).
      + eapply bal_node with (cl := cl') (ch := ch'); [| |exact Acl'|exact Ach'| |exact Tl|exact Th].
        * intros x y Hx Hy.
          assert (Hx' : In x lo) by (eapply Permutation_in; [exact Pl|exact Hx]).
          assert (Hy' : In y hi) by (eapply Permutation_in; [exact Ph|exact Hy]).
          destruct (Acl x Hx') as (cx & Ax & Bx). destruct (Ach y Hy') as (cy & Ay & By).
          exists cx, cy. unfold coord, wp. cbn [fst]. split; [exact Ax|]. split; [exact Ay|].
          apply (sep_sound C ltb valid lt_negtrans (map fst cl) (map fst ch) Hsep (vaw_valid _ Vcl) (vaw_valid _ Vch));
            eapply In_fst_cl; eassumption.
        * intros x y Hx Hy Q. apply in_map_iff in Hx, Hy.
          destruct Hx as (x' & <- & Hx), Hy as (y' & <- & Hy). unfold wp in Q; cbn [snd] in Q.
          assert (Hx' : In x' lo) by (eapply Permutation_in; [exact Pl|exact Hx]).
          assert (Hy' : In y' hi) by (eapply Permutation_in; [exact Ph|exact Hy]).
          apply filter_In in Hx', Hy'. destruct Hx' as [_ Bx], Hy' as [_ By].
          rewrite Q in Bx. rewrite By in Bx. discriminate.
        * apply (bob_perm cl ch cl' ch' Pcl Pch). apply (check_split_iff cl ch Vcl Vch). exact Hsplit.
  Qed.

  Lemma witems_off pts ws ids off :
    map (remap (fun i => (i - off)%N)) (witems C off pts ws ids) = combine (combine pts ws) ids.
  Proof.
    unfold witems. generalize (combine pts ws) as l. intros l.
    revert ids; induction l as [|p t IH]; intros [|i ids]; cbn [map combine]; try reflexivity.
    unfold remap at 1. cbn [fst snd]. f_equal; [f_equal; lia|apply IH].
  Qed.

  Lemma try_balance_sound D k pts ws ids : forall n off,
    try_balance C ltb within_tol n off D k pts ws ids = true ->
    exists o, check_nodes C ltb within_tol D k 0 (witems C o pts ws ids) = true.
  Proof.
    induction n as [|n IH]; intros off H; cbn [try_balance] in H; [discriminate|].
    apply orb_true_iff in H. destruct H as [H|H].
    - apply andb_true_iff in H. exists off. tauto.
    - apply (IH _ H).
  Qed.

  (* the C04 checker accepts only balanced bisection trees *)
  Theorem check_balance_sound D k pts ws ids :
    check_balance C ltb within_tol valid D k pts ws ids = true ->
    length pts = length ids /\ length ws = length ids
    /\ exists t, Permutation t (combine (combine pts ws) ids) /\ BalTree D k 0 t.
  Proof.
    unfold check_balance. intros H.
    apply andb_true_iff in H. destruct H as [H H6]. apply andb_true_iff in H. destruct H as [H H5].
    apply andb_true_iff in H. destruct H as [H H4]. apply andb_true_iff in H. destruct H as [H H3].
    apply andb_true_iff in H. destruct H as [H1 H2].
    apply Nat.eqb_eq in H1, H2. split; [exact H1|]. split; [exact H2|].
    destruct (try_balance_sound D k pts ws ids _ _ H6) as [o Ho].
    assert (Hv : Forall vw (witems C o pts ws ids)).
    { rewrite Forall_forall. intros [[pt w] c] Hx. unfold witems in Hx.
      apply in_combine_l in Hx. pose proof (in_combine_l _ _ _ _ Hx) as Hp. pose proof (in_combine_r _ _ _ _ Hx) as Hw.
      rewrite forallb_forall in H3, H4. specialize (H3 _ Hp). specialize (H4 _ Hw).
      apply andb_true_iff in H3. destruct H3 as [_ H3]. unfold vw. cbn [fst snd]. split.
      - rewrite Forall_forall. rewrite forallb_forall in H3. exact H3.
      - apply Z.leb_le, H4. }
    destruct (check_nodes_sound D k 0 _ Ho Hv) as (t & Pt & Tt).
    exists (map (remap (fun i => (i - o)%N)) t). split.
    - rewrite <- (witems_off pts ws ids o). apply Permutation_map, Pt.
    - apply BalTree_map; [exact Tt|].
      intros x y Hx Hy Q.
      assert (Hge : forall z, In z t -> (o <= snd z)%N).
      { intros z Hz. assert (Hz' : In z (witems C o pts ws ids)) by (eapply Permutation_in; [exact Pt|exact Hz]).
        unfold witems in Hz'. destruct z as [pt c]. apply in_combine_r in Hz'.
        apply in_map_iff in Hz'. destruct Hz' as (i & <- & _). cbn [snd]. lia. }
      specialize (Hge x Hx) as G1. specialize (Hge y Hy) as G2. lia.
  Qed.
End Bal.

(* ================= the cut search at HEAD ================= *)

Lemma nth_opt_firstn {A} (l : list A) k j x : nth_opt (firstn k l) j = Some x -> nth_opt l j = Some x.
Proof.
  revert k j; induction l as [|y t IH]; intros [|k] [|j] H; cbn [firstn nth_opt] in *; try discriminate; auto.
  eapply IH; exact H.
Qed.
Lemma nth_opt_skipn {A} (l : list A) k j : nth_opt (skipn k l) j = nth_opt l (k + j).
Proof.
  revert k j; induction l as [|y t IH]; intros [|k] j; cbn [skipn nth_opt Nat.add]; try reflexivity.
  apply IH.
Qed.
Lemma nth_opt_app_r {A} (l r : list A) x : nth_opt (l ++ x :: r) (length l) = Some x.
Proof. induction l as [|y t IH]; cbn [app length nth_opt]; auto. Qed.
Lemma nth_opt_app_l {A} (l r : list A) j x : nth_opt l j = Some x -> nth_opt (l ++ r) j = Some x.
Proof.
  revert j; induction l as [|y t IH]; intros [|j] H; cbn [app nth_opt] in *; try discriminate; auto.
Qed.

Section Search.
  Variable C : Type.
  Variables ltb leb : C -> C -> bool.
  Variable mid : C -> C -> C.
  Variables dist addc : C -> C -> C.
  Variables zero inf : C.
  Variable within_tol : Z -> Z -> bool.
  Variable valid : C -> bool.
  (* [fin]: the finite coordinates *)
  Variable fin : C -> bool.

  Hypothesis lt_irrefl : forall x, valid x = true -> ltb x x = false.
  Hypothesis lt_negtrans : forall x y z, valid x = true -> valid y = true -> valid z = true ->
    ltb x y = true -> ltb x z = true \/ ltb z y = true.
  Hypothesis lt_trans : forall x y z, valid x = true -> valid y = true -> valid z = true ->
    ltb x y = true -> ltb y z = true -> ltb x z = true.
  Hypothesis le_lt : forall x y, valid x = true -> valid y = true -> leb x y = negb (ltb y x).
  Hypothesis inf_valid : valid inf = true.
  Hypothesis fin_valid : forall x, fin x = true -> valid x = true.
  Hypothesis fin_inf : forall x, fin x = true -> ltb x inf = true.
  (* the two facts about the midpoint the balance proof uses (true of
     `min / 2.0 + max / 2.0` on finite binary32 values; NOT proved here for
     SpecFloat): it is finite, and when it does not fall strictly between its
     arguments no finite value does *)
  Hypothesis mid_fin : forall a b, fin a = true -> fin b = true -> fin (mid a b) = true.
  Hypothesis mid_exhausted : forall a b x, fin a = true -> fin b = true -> fin x = true ->
    negb (ltb a (mid a b) && ltb (mid a b) b) = true -> ltb a x = true -> ltb x b = true -> False.

  Notation keyed := (keyed C).
  Notation wsum := (wsum C).
  Notation bob := (balanced_or_bracket C ltb within_tol).
  (* the variant at HEAD: repaired stop rules, pivot by coordinate, last probe at max *)
  Notation fold_step := (fold_step C ltb dist zero true).
  Notation fold_chunk := (fold_chunk C ltb dist zero true).
  Notation par_fold := (par_fold C ltb dist zero inf true).
  Notation search := (search C ltb leb mid dist addc zero inf within_tol false true true).

  Definition aw_of (xs : list keyed) : list (C * Z) := map (fun x => (fst x, wt (snd x))) xs.
  Definition Wl (t : C) (xs : list keyed) : Z := wsum (filter (fun q => ltb (fst q) t) (aw_of xs)).
  Definition fkey (x : keyed) : Prop := fin (fst x) = true.

  Lemma Wl_app t a b : Wl t (a ++ b) = Wl t a + Wl t b.
  Proof. unfold Wl, aw_of. rewrite map_app, filter_app. apply wsum_app. Qed.
  Lemma Wl_nil t : Wl t [] = 0.
  Proof. reflexivity. Qed.
  Lemma Wl_one t x : Wl t [x] = if ltb (fst x) t then wt (snd x) else 0.
  Proof. unfold Wl, aw_of. cbn [map filter fst]. destruct (ltb (fst x) t); cbn; lia. Qed.

  Lemma lt_asym x y : valid x = true -> valid y = true -> ltb x y = true -> ltb y x = false.
  Proof.
    intros Hx Hy H. destruct (ltb y x) eqn:E; [|reflexivity].
    pose proof (lt_trans x y x Hx Hy Hx H E) as Q. rewrite (lt_irrefl x Hx) in Q. discriminate.
  Qed.

  (* what the fold/reduce returns, for EVERY split tree *)
  Definition PF (t : C) (base : nat) (xs : list keyed) (a : acc C) : Prop :=
    let '(cnt, wl, ni, nd) := a in
    wl = Wl t xs /\ valid nd = true /\
    match ni with
    | None => nd = inf /\ forall x, In x xs -> ltb (fst x) t = true \/ ltb (fst x) inf = false
    | Some i => exists e, (base <= i)%nat /\ nth_opt xs (i - base) = Some e /\ fst e = nd
                  /\ ltb nd t = false /\ ltb nd inf = true
                  /\ forall y, In y xs -> ltb (fst y) t = false -> ltb (fst y) nd = false
    end.

  Lemma fold_chunk_PF0 t : forall rest pre base a,
    Forall (fun x => valid (fst x) = true) (pre ++ rest) ->
    PF t base pre a ->
    PF t base (pre ++ rest) (fold_chunk t a (base + length pre) rest).
  Proof.
    induction rest as [|[x it] rest IH]; intros pre base a Hv Ha; cbn [Rcb.fold_chunk].
    - rewrite app_nil_r. exact Ha.
    - replace (pre ++ (x, it) :: rest) with ((pre ++ [(x, it)]) ++ rest) in * by (rewrite <- app_assoc; reflexivity).
      replace (S (base + length pre)) with (base + length (pre ++ [(x, it)]))%nat by (rewrite app_length; cbn; lia).
      apply IH; [exact Hv|].
      assert (Hvx : valid x = true).
      { rewrite Forall_forall in Hv. apply (Hv (x, it)). apply in_or_app; left. apply in_or_app; right; left; reflexivity. }
      assert (Hvp : forall y, In y pre -> valid (fst y) = true).
      { intros y Hy. rewrite Forall_forall in Hv. apply Hv. apply in_or_app; left. apply in_or_app; left; exact Hy. }
      destruct a as [[[cnt wl] ni] nd]. unfold Rcb.fold_step. cbn [PF] in *.
      destruct Ha as (Hwl & Hnd & Hni).
      destruct (ltb x t) eqn:Ext.
      + (* left of the target *)
        split; [rewrite Wl_app, Wl_one; cbn [fst snd]; rewrite Ext; lia|]. split; [exact Hnd|].
        destruct ni as [i|].
        * destruct Hni as (e & Hb & He & Hk & Hr & Hf & Hmin). exists e. repeat split; auto.
          -- apply nth_opt_app_l; exact He.
          -- intros y Hy Hyt. apply in_app_or in Hy. destruct Hy as [Hy|[<-|[]]]; [apply Hmin; assumption|].
             cbn [fst] in Hyt. congruence.
        * destruct Hni as (Hi & Hall). split; [exact Hi|]. intros y Hy. apply in_app_or in Hy.
          destruct Hy as [Hy|[<-|[]]]; [apply Hall, Hy|left; exact Ext].
      + destruct (ltb x nd) eqn:Exn.
        * (* new nearest *)
          split; [rewrite Wl_app, Wl_one; cbn [fst snd]; rewrite Ext; lia|]. split; [exact Hvx|].
          exists (x, it). split; [lia|]. split.
          { replace (base + length pre - base)%nat with (length pre) by lia. apply nth_opt_app_r. }
          split; [reflexivity|]. split; [exact Ext|]. split.
          { destruct ni as [i|].
            - destruct Hni as (e & _ & _ & _ & _ & Hf & _). apply (lt_trans x nd inf Hvx Hnd inf_valid Exn Hf).
            - destruct Hni as (-> & _). exact Exn. }
          intros y Hy Hyt. apply in_app_or in Hy. destruct Hy as [Hy|[<-|[]]]; [|apply lt_irrefl, Hvx].
          destruct (ltb (fst y) x) eqn:Q; [|reflexivity]. exfalso.
          pose proof (lt_trans (fst y) x nd (Hvp y Hy) Hvx Hnd Q Exn) as Q2.
          destruct ni as [i|].
          -- destruct Hni as (e & _ & _ & _ & _ & _ & Hmin). rewrite (Hmin y Hy Hyt) in Q2. discriminate.
          -- destruct Hni as (-> & Hall). destruct (Hall y Hy) as [A|A]; congruence.
        * split; [rewrite Wl_app, Wl_one; cbn [fst snd]; rewrite Ext; lia|]. split; [exact Hnd|].
          destruct ni as [i|].
          -- destruct Hni as (e & Hb & He & Hk & Hr & Hf & Hmin). exists e. repeat split; auto.
             ++ apply nth_opt_app_l; exact He.
             ++ intros y Hy Hyt. apply in_app_or in Hy. destruct Hy as [Hy|[<-|[]]]; [apply Hmin; assumption|exact Exn].
          -- destruct Hni as (-> & Hall). split; [reflexivity|]. intros y Hy. apply in_app_or in Hy.
             destruct Hy as [Hy|[<-|[]]]; [apply Hall, Hy|right; exact Exn].
  Qed.

  Lemma PF_acc0 t base : PF t base [] (acc0 C inf).
  Proof. cbn. split; [reflexivity|]. split; [exact inf_valid|]. split; [reflexivity|]. intros x []. Qed.

  Lemma par_fold_node t k l r base xs :
    par_fold t (SNode k l r) base xs =
    reduce C ltb (par_fold t l base (firstn k xs)) (par_fold t r (base + k)%nat (skipn k xs)).
  Proof. reflexivity. Qed.

  Lemma par_fold_PF0 t : forall s base xs,
    Forall (fun x => valid (fst x) = true) xs -> PF t base xs (par_fold t s base xs).
  Proof.
    induction s as [|k l IHl r IHr]; intros base xs Hv; [cbn [Rcb.par_fold]|rewrite par_fold_node].
    - pose proof (fold_chunk_PF0 t xs [] base (acc0 C inf) Hv (PF_acc0 t base)) as H.
      cbn [app length] in H. rewrite Nat.add_0_r in H. exact H.
    - assert (Hv1 : Forall (fun x : keyed => valid (fst x) = true) (firstn k xs)).
      { rewrite <- (firstn_skipn k xs) in Hv. apply Forall_app in Hv. tauto. }
      assert (Hv2 : Forall (fun x : keyed => valid (fst x) = true) (skipn k xs)).
      { rewrite <- (firstn_skipn k xs) in Hv. apply Forall_app in Hv. tauto. }
      specialize (IHl base (firstn k xs) Hv1). specialize (IHr (base + k)%nat (skipn k xs) Hv2).
      unfold Rcb.keyed in *.
      match goal with |- PF _ _ _ (reduce _ _ ?a ?b) =>
        destruct a as [[[c0 w0] n0] d0]; destruct b as [[[c1 w1] n1] d1] end.
      unfold PF in IHl, IHr. destruct IHl as (Hw0 & Hd0 & Hn0), IHr as (Hw1 & Hd1 & Hn1).
      assert (Hw : w0 + w1 = Wl t xs).
      { rewrite <- (firstn_skipn k xs) at 1. rewrite Wl_app. lia. }
      assert (Hin : forall y, In y xs -> In y (firstn k xs) \/ In y (skipn k xs)).
      { intros y Hy. rewrite <- (firstn_skipn k xs) in Hy. apply in_app_or, Hy. }
      assert (Hvy : forall y, In y xs -> valid (fst y) = true).
      { rewrite Forall_forall in Hv. exact Hv. }
      assert (Hin1 : forall y, In y (firstn k xs) -> In y xs).
      { intros y Hy. rewrite <- (firstn_skipn k xs). apply in_or_app; left; exact Hy. }
      assert (Hin2 : forall y, In y (skipn k xs) -> In y xs).
      { intros y Hy. rewrite <- (firstn_skipn k xs). apply in_or_app; right; exact Hy. }
      (* index transport *)
      assert (Hidx1 : forall i e, (base <= i)%nat -> nth_opt (firstn k xs) (i - base) = Some e ->
                                  nth_opt xs (i - base) = Some e).
      { intros i e _ H. eapply nth_opt_firstn; exact H. }
      assert (Hidx2 : forall i e, (base + k <= i)%nat -> nth_opt (skipn k xs) (i - (base + k)) = Some e ->
                                  (base <= i)%nat /\ nth_opt xs (i - base) = Some e).
      { intros i e Hb H. split; [lia|]. rewrite nth_opt_skipn in H.
        replace (i - base)%nat with (k + (i - (base + k)))%nat by lia. exact H. }
      unfold Rcb.reduce.
      destruct n0 as [i0|], n1 as [i1|].
      + destruct Hn0 as (e0 & B0 & E0 & K0 & R0 & F0 & M0), Hn1 as (e1 & B1 & E1 & K1 & R1 & F1 & M1).
        destruct (ltb d0 d1) eqn:Q; unfold PF; (split; [exact Hw|]).
        * split; [exact Hd0|]. exists e0. repeat split; auto.
          intros y Hy Hyt. destruct (Hin y Hy) as [A|A]; [apply M0; assumption|].
          destruct (ltb (fst y) d0) eqn:Q2; [|reflexivity]. exfalso.
          pose proof (lt_trans (fst y) d0 d1 (Hvy y Hy) Hd0 Hd1 Q2 Q) as Q3. rewrite (M1 y A Hyt) in Q3. discriminate.
        * split; [exact Hd1|]. destruct (Hidx2 i1 e1 B1 E1) as [B1' E1']. exists e1. repeat split; auto.
          intros y Hy Hyt. destruct (Hin y Hy) as [A|A]; [|apply M1; assumption].
          destruct (ltb (fst y) d1) eqn:Q2; [|reflexivity]. exfalso.
          destruct (lt_negtrans (fst y) d1 d0 (Hvy y Hy) Hd1 Hd0 Q2) as [Q3|Q3]; [|congruence].
          rewrite (M0 y A Hyt) in Q3. discriminate.
      + destruct Hn0 as (e0 & B0 & E0 & K0 & R0 & F0 & M0), Hn1 as (-> & A1).
        rewrite F0. unfold PF. split; [exact Hw|]. split; [exact Hd0|]. exists e0. repeat split; auto.
        intros y Hy Hyt. destruct (Hin y Hy) as [A|A]; [apply M0; assumption|].
        destruct (A1 y A) as [Q|Q]; [congruence|].
        destruct (ltb (fst y) d0) eqn:Q2; [|reflexivity]. exfalso.
        pose proof (lt_trans (fst y) d0 inf (Hvy y Hy) Hd0 inf_valid Q2 F0). congruence.
      + destruct Hn0 as (-> & A0), Hn1 as (e1 & B1 & E1 & K1 & R1 & F1 & M1).
        rewrite (lt_asym d1 inf Hd1 inf_valid F1). unfold PF. split; [exact Hw|]. split; [exact Hd1|].
        destruct (Hidx2 i1 e1 B1 E1) as [B1' E1']. exists e1. repeat split; auto.
        intros y Hy Hyt. destruct (Hin y Hy) as [A|A]; [|apply M1; assumption].
        destruct (A0 y A) as [Q|Q]; [congruence|].
        destruct (ltb (fst y) d1) eqn:Q2; [|reflexivity]. exfalso.
        pose proof (lt_trans (fst y) d1 inf (Hvy y Hy) Hd1 inf_valid Q2 F1). congruence.
      + destruct Hn0 as (-> & A0), Hn1 as (-> & A1). rewrite (lt_irrefl inf inf_valid). unfold PF.
        split; [exact Hw|]. split; [exact inf_valid|]. split; [reflexivity|].
        intros y Hy. destruct (Hin y Hy) as [A|A]; [apply A0, A|apply A1, A].
  Qed.

  (* the forms used by Proofs/C06Collect.v (the validity of the target is not needed) *)
  Lemma par_fold_PF t : valid t = true -> forall s base xs,
    Forall (fun x => valid (fst x) = true) xs -> PF t base xs (par_fold t s base xs).
  Proof. intros _. exact (par_fold_PF0 t). Qed.
  (* ---------- the loop invariant of the search ---------- *)
  Section OneSearch.

  Variable xs : list keyed.
  Variable sum : Z.
  Hypothesis xs_fin : Forall fkey xs.
  Hypothesis xs_nonneg : Forall (fun x => 0 <= wt (snd x)) xs.
  Hypothesis sum_true : sum = wsum (aw_of xs).

  Let aw := aw_of xs.

  Lemma aw_vaw : vaw C valid aw.
  Proof.
    unfold aw, aw_of, vaw. rewrite Forall_forall. intros q Hq. apply in_map_iff in Hq.
    destruct Hq as (x & <- & Hx). cbn [fst snd]. rewrite Forall_forall in xs_fin, xs_nonneg.
    split; [apply fin_valid, xs_fin, Hx|apply xs_nonneg, Hx].
  Qed.

  Lemma aw_fin q : In q aw -> fin (fst q) = true.
  Proof.
    unfold aw, aw_of. intros Hq. apply in_map_iff in Hq. destruct Hq as (x & <- & Hx).
    rewrite Forall_forall in xs_fin. apply xs_fin, Hx.
  Qed.
  Lemma aw_in x : In x xs -> In (fst x, wt (snd x)) aw.
  Proof. intros H. unfold aw, aw_of. apply (in_map (fun x => (fst x, wt (snd x)))) in H. exact H. Qed.

  Definition I1 (mn : C) : Prop := 2 * Wl mn xs < sum \/ (forall q, In q aw -> ltb (fst q) mn = false).
  Definition I2 (mx : C) : Prop := 2 * Wl mx xs >= sum \/ (forall q, In q aw -> ltb mx (fst q) = false).

  Lemma Wl_mono a b : (forall q, In q aw -> ltb (fst q) a = true -> ltb (fst q) b = true) -> Wl a xs <= Wl b xs.
  Proof. intros H. unfold Wl. apply (wsum_filter_le C valid); [exact aw_vaw|exact H]. Qed.

  Lemma Wl_split t : sum = Wl t xs + wsum (filter (fun q => negb (ltb (fst q) t)) aw).
  Proof. rewrite sum_true. unfold Wl. apply wsum_filter_split. Qed.

  Lemma Wl_nonneg t : 0 <= Wl t xs.
  Proof. unfold Wl. apply (wsum_nonneg C valid), (vaw_filter C valid), aw_vaw. Qed.

  Lemma filter_all {A} (f : A -> bool) l : (forall q, In q l -> f q = true) -> filter f l = l.
  Proof.
    induction l as [|q l IH]; intros H; cbn [filter]; [reflexivity|].
    rewrite (H q (or_introl eq_refl)). f_equal. apply IH. intros; apply H; right; assumption.
  Qed.
  Lemma filter_none {A} (f : A -> bool) l : (forall q, In q l -> f q = false) -> filter f l = [].
  Proof.
    induction l as [|q l IH]; intros H; cbn [filter]; [reflexivity|].
    rewrite (H q (or_introl eq_refl)). apply IH. intros; apply H; right; assumption.
  Qed.

  Lemma wsum_filter_filter_le (f g : C * Z -> bool) l : vaw C valid l ->
    wsum (filter f (filter g l)) <= wsum (filter f l).
  Proof.
    induction 1 as [|q l [_ Hq] Hl IH]; cbn [filter]; [lia|].
    destruct (g q); cbn [filter]; destruct (f q); rewrite ?wsum_cons; lia.
  Qed.

  (* weight strictly below a point coordinate c that is not above mn *)
  Lemma below_mn mn c : fin mn = true -> fin c = true -> ltb mn c = false -> I1 mn -> 2 * Wl c xs <= sum.
  Proof.
    intros Hmn Hc Hle H1.
    assert (Hm : Wl c xs <= Wl mn xs).
    { apply Wl_mono. intros q Hq Hqc.
      destruct (lt_negtrans (fst q) c mn (fin_valid _ (aw_fin q Hq)) (fin_valid _ Hc) (fin_valid _ Hmn) Hqc) as [A|A];
        [exact A|congruence]. }
    destruct H1 as [H1|H1]; [lia|].
    assert (Z0 : Wl mn xs = 0).
    { unfold Wl. fold aw. rewrite (filter_none _ aw); [reflexivity|]. intros q Hq. apply H1, Hq. }
    pose proof (Wl_nonneg c). pose proof (Wl_split c).
    assert (0 <= wsum (filter (fun q => negb (ltb (fst q) c)) aw))
      by (apply (wsum_nonneg C valid), (vaw_filter C valid), aw_vaw).
    lia.
  Qed.

  Definition Post (sr : split_res C) : Prop :=
    match sr with
    | AllLeft pos => bob aw [] /\ fin pos = true /\ (forall q, In q aw -> ltb pos (fst q) = false)
    | SplitAt i wl pos why =>
      exists p, nth_opt xs i = Some p /\ fin pos = true
        /\ (forall q, In q aw -> ltb (fst q) (fst p) = ltb (fst q) pos)
        /\ wl = Wl pos xs
        /\ bob (filter (fun q => ltb (fst q) pos) aw) (filter (fun q => negb (ltb (fst q) pos)) aw)
    end.

  Lemma search_S f sch it mn mx prev :
    search (S f) sch it xs sum mn mx prev =
    let m := mid mn mx in
    let exhausted := negb (ltb mn m && ltb m mx) in
    let t := if true && exhausted then mx else m in
    let '(cnt, wl, ni, nd) := par_fold t (sch it) 0%nat xs in
    match ni with
    | None => if exhausted then Ok (AllLeft mx) else search f sch (S it) xs sum mn t prev
    | Some i =>
      let wr := sum - wl in
      let nothing_right := leb mx nd in
      let tol := within_tol wl sum in
      if exhausted || ((wl <? wr) && nothing_right) || tol then
        Ok (SplitAt i wl t (if tol then StTol else if exhausted then StExhausted else StNothingRight))
      else if wl <? wr then search f sch (S it) xs sum t mx prev
      else search f sch (S it) xs sum mn t prev
    end.
  Proof. reflexivity. Qed.

  (* all points of the high side are equivalent: moving past any of them takes the whole side *)
  Lemma upto_all (R : list (C * Z)) (y : C * Z) :
    (forall q, In q R -> ltb (fst y) (fst q) = false) -> upto C ltb R (fst y) = wsum R.
  Proof.
    intros H. unfold Rcb.upto. rewrite filter_all; [reflexivity|]. intros q Hq. rewrite (H q Hq). reflexivity.
  Qed.

  Theorem search_post : forall fuel sch it mn mx prev sr,
    fin mn = true -> fin mx = true -> I1 mn -> I2 mx ->
    search fuel sch it xs sum mn mx prev = Ok sr -> Post sr.
  Proof.
    assert (Hsum0 : 0 <= sum) by (rewrite sum_true; apply (wsum_nonneg C valid), aw_vaw).
    induction fuel as [|f IH]; intros sch it mn mx prev sr Hmn Hmx H1 H2 H; [discriminate|].
    rewrite search_S in H. cbv zeta in H.
    set (m := mid mn mx) in *.
    assert (Hm : fin m = true) by (apply mid_fin; assumption).
    destruct (negb (ltb mn m && ltb m mx)) eqn:Eexh.
    - (* exhausted: probe at mx *)
      cbn [andb] in H.
      pose proof (par_fold_PF0 mx (sch it) 0%nat xs) as HPF.
      assert (Hvx : Forall (fun x : keyed => valid (fst x) = true) xs).
      { rewrite Forall_forall in *. intros x Hx. apply fin_valid, xs_fin, Hx. }
      specialize (HPF Hvx).
      destruct (par_fold mx (sch it) 0%nat xs) as [[[cnt wl] ni] nd]. unfold PF in HPF.
      destruct HPF as (Hwl & Hnd & Hni).
      (* every point strictly below mx is not above mn *)
      assert (Hgap : forall c, fin c = true -> ltb c mx = true -> ltb mn c = false).
      { intros c Hc Hlt. destruct (ltb mn c) eqn:Q; [|reflexivity]. exfalso.
        exact (mid_exhausted mn mx c Hmn Hmx Hc Eexh Q Hlt). }
      destruct ni as [i|].
      + (* split at mx *)
        destruct Hni as (p & _ & Hp & Hk & Hr & Hf & Hmin). rewrite Nat.sub_0_r in Hp.
        cbn [orb] in H. inversion H; subst sr. clear H.
        exists p. split; [exact Hp|]. split; [exact Hmx|]. split; [|split; [exact Hwl|]].
        { intros q Hq. unfold aw, aw_of in Hq. apply in_map_iff in Hq. destruct Hq as (x & <- & Hx). cbn [fst].
          rewrite Hk. rewrite Forall_forall in Hvx. destruct (ltb (fst x) mx) eqn:Q.
          - destruct (lt_negtrans (fst x) mx nd (Hvx x Hx) (fin_valid _ Hmx) Hnd Q) as [A|A]; [exact A|congruence].
          - apply Hmin; assumption. }
        set (L := filter (fun q => ltb (fst q) mx) aw). set (R := filter (fun q => negb (ltb (fst q) mx)) aw).
        assert (HL : wsum L = wl) by (rewrite Hwl; reflexivity).
        assert (HS : sum = wsum L + wsum R) by (rewrite HL, Hwl; apply Wl_split).
        unfold Rcb.balanced_or_bracket. rewrite <- HS, HL.
        destruct (Z.lt_total (2 * wl) sum) as [Hlt|[Heq|Hgt]]; [|right; left; exact Heq|].
        * right; right; left. split; [exact Hlt|]. intros y Hy.
          destruct H2 as [H2|H2]; [rewrite <- Hwl in H2; lia|].
          rewrite upto_all; [lia|]. intros q Hq.
          apply filter_In in Hy, Hq. destruct Hy as [Hy Hy2], Hq as [Hq Hq2]. apply negb_true_iff in Hy2, Hq2.
          destruct (ltb (fst y) (fst q)) eqn:Q; [|reflexivity]. exfalso.
          destruct (lt_negtrans (fst y) (fst q) mx (fin_valid _ (aw_fin y Hy)) (fin_valid _ (aw_fin q Hq)) (fin_valid _ Hmx) Q) as [A|A];
            [congruence|]. rewrite (H2 q Hq) in A. discriminate.
        * right; right; right. split; [lia|]. intros x Hx.
          apply filter_In in Hx. destruct Hx as [Hx Hx2].
          pose proof (below_mn mn (fst x) Hmn (aw_fin x Hx) (Hgap _ (aw_fin x Hx) Hx2) H1) as Hb.
          pose proof (wsum_filter_split C (fun q => negb (ltb (fst q) (fst x))) L) as Hsp.
          assert (Hle : wsum (filter (fun q => negb (negb (ltb (fst q) (fst x)))) L) <= Wl (fst x) xs).
          { unfold Wl, L. fold aw.
            erewrite (filter_ext (fun q => negb (negb (ltb (fst q) (fst x)))) (fun q => ltb (fst q) (fst x)));
              [|intros q; apply negb_involutive].
            apply wsum_filter_filter_le, aw_vaw. }
          cbv beta in Hsp. unfold Rcb.from. lia.
      + (* all on the left *)
        destruct Hni as (_ & Hall). inversion H; subst sr. clear H.
        assert (Hlt : forall q, In q aw -> ltb (fst q) mx = true).
        { intros q Hq. unfold aw, aw_of in Hq. apply in_map_iff in Hq. destruct Hq as (x & <- & Hx). cbn [fst].
          destruct (Hall x Hx) as [A|A]; [exact A|]. rewrite Forall_forall in xs_fin. rewrite (fin_inf _ (xs_fin x Hx)) in A. discriminate. }
        split; [|split; [exact Hmx|]].
        * unfold Rcb.balanced_or_bracket. change (wsum []) with 0. rewrite Z.add_0_r. fold aw in sum_true. rewrite <- sum_true.
          pose proof (wsum_nonneg C valid aw aw_vaw) as Hn. rewrite <- sum_true in Hn.
          destruct (Z.eq_dec sum 0) as [Z0|NZ]; [right; left; lia|].
          right; right; right. split; [lia|]. intros x Hx.
          pose proof (below_mn mn (fst x) Hmn (aw_fin x Hx) (Hgap _ (aw_fin x Hx) (Hlt x Hx)) H1) as Hb.
          pose proof (wsum_filter_split C (fun q => negb (ltb (fst q) (fst x))) aw) as Hsp.
          assert (Hle : wsum (filter (fun q => negb (negb (ltb (fst q) (fst x)))) aw) = Wl (fst x) xs).
          { unfold Wl. fold aw. f_equal. apply filter_ext. intros q; apply negb_involutive. }
          cbv beta in Hsp. unfold Rcb.from. rewrite <- sum_true in Hsp. lia.
        * intros q Hq. apply lt_asym; [apply fin_valid, aw_fin, Hq|apply fin_valid, Hmx|apply Hlt, Hq].
    - (* not exhausted: probe at the midpoint, mn < m < mx *)
      cbn [andb] in H.
      apply negb_false_iff, andb_true_iff in Eexh. destruct Eexh as [Emn Emx].
      pose proof (par_fold_PF0 m (sch it) 0%nat xs) as HPF.
      assert (Hvx : Forall (fun x : keyed => valid (fst x) = true) xs).
      { rewrite Forall_forall in *. intros x Hx. apply fin_valid, xs_fin, Hx. }
      specialize (HPF Hvx).
      destruct (par_fold m (sch it) 0%nat xs) as [[[cnt wl] ni] nd]. unfold PF in HPF.
      destruct HPF as (Hwl & Hnd & Hni).
      destruct ni as [i|].
      + destruct Hni as (p & _ & Hp & Hk & Hr & Hf & Hmin). rewrite Nat.sub_0_r in Hp.
        cbn [orb] in H.
        destruct ((wl <? sum - wl) && leb mx nd || within_tol wl sum) eqn:Estop.
        * inversion H; subst sr. clear H.
          exists p. split; [exact Hp|]. split; [exact Hm|]. split; [|split; [exact Hwl|]].
          { intros q Hq. unfold aw, aw_of in Hq. apply in_map_iff in Hq. destruct Hq as (x & <- & Hx). cbn [fst].
            rewrite Hk. rewrite Forall_forall in Hvx. destruct (ltb (fst x) m) eqn:Q.
            - destruct (lt_negtrans (fst x) m nd (Hvx x Hx) (fin_valid _ Hm) Hnd Q) as [A|A]; [exact A|congruence].
            - apply Hmin; assumption. }
          set (L := filter (fun q => ltb (fst q) m) aw). set (R := filter (fun q => negb (ltb (fst q) m)) aw).
          assert (HL : wsum L = wl) by (rewrite Hwl; reflexivity).
          assert (HS : sum = wsum L + wsum R) by (rewrite HL, Hwl; apply Wl_split).
          unfold Rcb.balanced_or_bracket. rewrite <- HS, HL.
          destruct (within_tol wl sum) eqn:Etol; [left; reflexivity|].
          rewrite orb_false_r in Estop. apply andb_true_iff in Estop. destruct Estop as [Elt Enr].
          apply Z.ltb_lt in Elt. rewrite (le_lt mx nd (fin_valid _ Hmx) Hnd) in Enr. apply negb_true_iff in Enr.
          (* no point in [m, mx) *)
          assert (Hno : forall q, In q aw -> ltb (fst q) m = false -> ltb (fst q) mx = false).
          { intros q Hq Hqm. destruct (ltb (fst q) mx) eqn:Q; [|reflexivity]. exfalso.
            unfold aw, aw_of in Hq. apply in_map_iff in Hq. destruct Hq as (x & <- & Hx). cbn [fst] in *.
            rewrite Forall_forall in Hvx.
            destruct (lt_negtrans (fst x) mx nd (Hvx x Hx) (fin_valid _ Hmx) Hnd Q) as [A|A]; [|congruence].
            rewrite (Hmin x Hx Hqm) in A. discriminate. }
          right; right; left. split; [lia|]. intros y Hy.
          destruct H2 as [H2|H2].
          { exfalso. assert (Wl mx xs <= Wl m xs).
            { apply Wl_mono. intros q Hq Hqx. destruct (ltb (fst q) m) eqn:Q; [reflexivity|].
              rewrite (Hno q Hq Q) in Hqx. discriminate. }
            lia. }
          rewrite upto_all; [lia|]. intros q Hq.
          apply filter_In in Hy, Hq. destruct Hy as [Hy Hy2], Hq as [Hq Hq2]. apply negb_true_iff in Hy2, Hq2.
          destruct (ltb (fst y) (fst q)) eqn:Q; [|reflexivity]. exfalso.
          destruct (lt_negtrans (fst y) (fst q) mx (fin_valid _ (aw_fin y Hy)) (fin_valid _ (aw_fin q Hq)) (fin_valid _ Hmx) Q) as [A|A].
          -- rewrite (Hno y Hy Hy2) in A. discriminate.
          -- rewrite (H2 q Hq) in A. discriminate.
        * destruct (wl <? sum - wl) eqn:Elt.
          -- apply Z.ltb_lt in Elt. apply (IH _ _ _ _ _ _ Hm Hmx) in H; [exact H| |exact H2].
             left. rewrite <- Hwl. lia.
          -- apply Z.ltb_ge in Elt. apply (IH _ _ _ _ _ _ Hmn Hm) in H; [exact H|exact H1|].
             left. rewrite <- Hwl. lia.
      + destruct Hni as (_ & Hall).
        apply (IH _ _ _ _ _ _ Hmn Hm) in H; [exact H|exact H1|].
        right. intros q Hq. unfold aw, aw_of in Hq. apply in_map_iff in Hq. destruct Hq as (x & <- & Hx). cbn [fst].
        rewrite Forall_forall in xs_fin, Hvx.
        destruct (Hall x Hx) as [A|A]; [|rewrite (fin_inf _ (xs_fin x Hx)) in A; discriminate].
        apply lt_asym; [apply Hvx, Hx|apply fin_valid, Hm|exact A].
  Qed.
  End OneSearch.

  (* ---------- every node of the recursion is balanced ---------- *)

  Notation item := (item C).
  Notation rcb_rec := (rcb_rec C ltb leb mid dist addc zero inf within_tol false true true).
  Notation reorder_split := (reorder_split C ltb leb).
  Notation BalTree := (BalTree C ltb within_tol).

  Definition fitem (it : item) : Prop := Forall (fun c => fin c = true) (co it) /\ 0 <= wt it.
  (* every bound of the box is finite and encloses the items on its axis *)
  Definition BoxOK (bb : box C) (its : list item) : Prop :=
    forall a mn mx, nth_opt bb a = Some (mn, mx) ->
      fin mn = true /\ fin mx = true
      /\ forall it c, In it its -> nth_opt (co it) a = Some c -> ltb c mn = false /\ ltb mx c = false.
  Definition wit (x : item * N) : witem C := (co (fst x), wt (fst x), snd x).
  Definition tw (its : list item) : Z := sumZ (map wt its).

  Lemma tw_app a b : tw (a ++ b) = tw a + tw b.
  Proof. unfold tw. rewrite map_app. apply sumZ_app. Qed.
  Lemma tw_perm a b : Permutation a b -> tw a = tw b.
  Proof.
    unfold tw, sumZ. induction 1 as [|x a b H IH|x y a|a b c H1 IH1 H2 IH2]; cbn [map fold_right]; lia.
  Qed.

  Lemma wsum_aw_of (ks : list keyed) : wsum (aw_of ks) = tw (map snd ks).
  Proof. unfold Rcb.wsum, aw_of, tw. rewrite !map_map. reflexivity. Qed.

  Lemma keys_of_keyed a (l : list keyed) :
    Forall (fun x => nth_opt (co (snd x)) a = Some (fst x)) l -> keys C a (map snd l) = Some l.
  Proof.
    induction 1 as [|[c it] l Hx _ IH]; cbn [map keys snd fst] in *; [reflexivity|].
    rewrite Hx, IH. reflexivity.
  Qed.

  Lemma keys_perm a (its its' : list item) : Permutation its its' -> forall ks, keys C a its = Some ks ->
    exists ks', keys C a its' = Some ks' /\ Permutation ks ks'.
  Proof.
    induction 1 as [|it l l' H IH|it1 it2 l|l1 l2 l3 H1 IH1 H2 IH2]; intros ks Hk.
    - exists ks. split; [exact Hk|apply Permutation_refl].
    - cbn [keys] in *. destruct (nth_opt (co it) a) as [c|]; [|discriminate].
      destruct (keys C a l) as [r|]; [|discriminate]. inversion Hk; subst.
      destruct (IH r eq_refl) as (r' & -> & Pr). exists ((c, it) :: r'). split; [reflexivity|apply perm_skip, Pr].
    - cbn [keys] in *. destruct (nth_opt (co it2) a) as [c2|]; [|discriminate].
      destruct (nth_opt (co it1) a) as [c1|]; [|destruct (keys C a l); discriminate].
      destruct (keys C a l) as [r|]; [|discriminate]. inversion Hk; subst.
      exists ((c1, it1) :: (c2, it2) :: r). split; [reflexivity|apply perm_swap].
    - destruct (IH1 ks Hk) as (k2 & A2 & P2). destruct (IH2 k2 A2) as (k3 & A3 & P3).
      exists k3. split; [exact A3|eapply perm_trans; eassumption].
  Qed.

  Lemma axis_w_wit a (asg : list (item * N)) ks :
    keys C a (map fst asg) = Some ks -> axis_w C a (map wit asg) = Some (aw_of ks).
  Proof.
    revert ks; induction asg as [|[it id] t IH]; intros ks H; cbn [map keys axis_w wit fst snd] in *.
    - inversion H; reflexivity.
    - destruct (nth_opt (co it) a) as [c|]; [|discriminate].
      destruct (keys C a (map fst t)) as [r|]; [|discriminate]. inversion H; subst.
      rewrite (IH r eq_refl). reflexivity.
  Qed.

  Lemma map_wp_wit (asg : list (item * N)) : map (wp C) (map wit asg) = map (pit C) asg.
  Proof. rewrite map_map. apply map_ext. intros [it id]. reflexivity. Qed.

  Lemma aw_filter_side (ks l r : list keyed) (f : C * Z -> bool) :
    Permutation (l ++ r) ks ->
    (forall y, In y l -> f (fst y, wt (snd y)) = true) -> (forall y, In y r -> f (fst y, wt (snd y)) = false) ->
    Permutation (aw_of l) (filter f (aw_of ks)) /\ Permutation (aw_of r) (filter (fun q => negb (f q)) (aw_of ks)).
  Proof.
    intros Hp Hl Hr.
    assert (P : Permutation (aw_of l ++ aw_of r) (aw_of ks)).
    { unfold aw_of. rewrite <- map_app. apply Permutation_map, Hp. }
    split.
    - eapply perm_trans; [|apply filter_Permutation, P]. rewrite filter_app.
      rewrite (filter_all _ (aw_of l)), (filter_none _ (aw_of r)); [rewrite app_nil_r; apply Permutation_refl| |].
      + intros q Hq. unfold aw_of in Hq. apply in_map_iff in Hq. destruct Hq as (y & <- & Hy). apply Hr, Hy.
      + intros q Hq. unfold aw_of in Hq. apply in_map_iff in Hq. destruct Hq as (y & <- & Hy). apply Hl, Hy.
    - eapply perm_trans; [|apply filter_Permutation, P]. rewrite filter_app.
      rewrite (filter_none _ (aw_of l)), (filter_all _ (aw_of r)); [apply Permutation_refl| |].
      + intros q Hq. unfold aw_of in Hq. apply in_map_iff in Hq. destruct Hq as (y & <- & Hy). rewrite (Hr y Hy). reflexivity.
      + intros q Hq. unfold aw_of in Hq. apply in_map_iff in Hq. destruct Hq as (y & <- & Hy). rewrite (Hl y Hy). reflexivity.
  Qed.

  Lemma fitem_vitem it : fitem it -> vitem C valid it.
  Proof. intros [H _]. unfold vitem. rewrite Forall_forall in *. intros c Hc. apply fin_valid, H, Hc. Qed.

  Theorem rcb_rec_balanced : forall k fuel sched D its iter_id a sum bb asg,
    Forall fitem its -> BoxOK bb its -> sum = tw its ->
    rcb_rec fuel sched D k its iter_id a sum bb = Ok asg ->
    BalTree D k a (map wit asg).
  Proof.
    induction k as [|k IH]; intros fuel sched D its iter_id a sum bb asg Hf Hbox Hsum H.
    - apply bal_leaf. rewrite map_wp_wit.
      destruct its as [|it0 t]; cbn [Rcb.rcb_rec] in H; inversion H; subst; [intros x y []|].
      intros x y Hx Hy. change ((it0, iter_id) :: map (fun it : item => (it, iter_id)) t)
          with (map (fun it : item => (it, iter_id)) (it0 :: t)) in Hx, Hy.
      rewrite map_map in Hx, Hy. apply in_map_iff in Hx, Hy.
      destruct Hx as (? & <- & _), Hy as (? & <- & _). reflexivity.
    - destruct its as [|it0 t].
      { rewrite (rcb_rec_nil C ltb leb mid dist addc zero inf within_tol false true true) in H.
        inversion H; subst. apply bal_leaf. intros x y []. }
      set (its := it0 :: t) in *.
      assert (Hv : Forall (vitem C valid) its).
      { rewrite Forall_forall in *. intros it Hit. apply fitem_vitem, Hf, Hit. }
      pose proof H as Hcall.
      cbn [Rcb.rcb_rec] in H. fold its in H.
      destruct (nth_opt bb a) as [[mn mx]|] eqn:Ebb; [|discriminate].
      destruct (keys C a its) as [xs|] eqn:Hk; [|discriminate].
      destruct (keys_spec C a its xs Hk) as [Hm Hc].
      pose proof (vkey_of_keys C valid a its xs Hk Hv) as Hvx.
      destruct (Hbox a mn mx Ebb) as (Hmn & Hmx & Hencl).
      assert (Hxf : Forall fkey xs).
      { rewrite Forall_forall in *. intros x Hx. unfold fkey. specialize (Hc x Hx).
        assert (Hit : In (snd x) its) by (rewrite <- Hm; apply in_map, Hx).
        destruct (Hf _ Hit) as [Hco _]. rewrite Forall_forall in Hco. apply Hco. eapply nth_opt_In; exact Hc. }
      assert (Hxn : Forall (fun x : keyed => 0 <= wt (snd x)) xs).
      { rewrite Forall_forall in *. intros x Hx.
        assert (Hit : In (snd x) its) by (rewrite <- Hm; apply in_map, Hx). apply (Hf _ Hit). }
      assert (Hst : sum = wsum (aw_of xs)) by (rewrite wsum_aw_of, Hm; exact Hsum).
      assert (Hencl' : forall q, In q (aw_of xs) -> ltb (fst q) mn = false /\ ltb mx (fst q) = false).
      { intros q Hq. unfold aw_of in Hq. apply in_map_iff in Hq. destruct Hq as (x & <- & Hx). cbn [fst].
        rewrite Forall_forall in Hc. apply (Hencl (snd x)); [rewrite <- Hm; apply in_map, Hx|apply Hc, Hx]. }
      destruct (search fuel (sched iter_id) 0 xs sum mn mx None) as [sr|e|s|] eqn:Hsr; cbn [bind] in H; try discriminate.
      pose proof (search_post xs sum Hxf Hxn Hst fuel (sched iter_id) 0%nat mn mx None sr Hmn Hmx
                    (or_intror (fun q Hq => proj1 (Hencl' q Hq))) (or_intror (fun q Hq => proj2 (Hencl' q Hq))) Hsr) as HP.
      (* the two sides *)
      assert (Hsides : exists l r wl pos,
        (match sr with
         | AllLeft pos => Ok (xs, [], sum, pos)
         | SplitAt i wl pos _ => bind (reorder_split xs i) (fun lr => Ok (fst lr, snd lr, wl, pos))
         end) = Ok (l, r, wl, pos)
        /\ Permutation (l ++ r) xs /\ fin pos = true
        /\ (forall y, In y l -> ltb (fst y) pos = true \/ (r = [] /\ ltb pos (fst y) = false))
        /\ (forall y, In y r -> ltb (fst y) pos = false)
        /\ wl = tw (map snd l)
        /\ (forall cl ch, Permutation (aw_of l) cl -> Permutation (aw_of r) ch -> bob cl ch)
        /\ (r = [] \/ exists p, valid p = true /\ Forall (fun y => ltb (fst y) p = true) l
                              /\ Forall (fun y => ltb (fst y) p = false) r)).
      { destruct sr as [i wl pos why|pos].
        - destruct HP as (p & Hp & Hpos & Heq & Hwl & Hbob).
          destruct (reorder_split xs i) as [[l r]|e|s|] eqn:Hr; cbn [bind] in H; try discriminate.
          destruct (reorder_split_inv C ltb leb valid lt_irrefl le_lt xs i l r Hvx Hr) as (p' & Hp' & A & B & B2).
          rewrite Hp in Hp'. inversion Hp'; subst p'. clear Hp'.
          assert (Hinl : forall y, In y l -> In (fst y, wt (snd y)) (aw_of xs)).
          { intros y Hy. apply aw_in. eapply Permutation_in; [exact A|apply in_or_app; left; exact Hy]. }
          assert (Hinr : forall y, In y r -> In (fst y, wt (snd y)) (aw_of xs)).
          { intros y Hy. apply aw_in. eapply Permutation_in; [exact A|apply in_or_app; right; exact Hy]. }
          assert (Hl' : forall y, In y l -> ltb (fst y) pos = true).
          { intros y Hy. rewrite Forall_forall in B. pose proof (Heq _ (Hinl y Hy)) as E. cbn [fst] in E. rewrite <- E. apply B, Hy. }
          assert (Hr' : forall y, In y r -> ltb (fst y) pos = false).
          { intros y Hy. rewrite Forall_forall in B2. pose proof (Heq _ (Hinr y Hy)) as E. cbn [fst] in E. rewrite <- E. apply B2, Hy. }
          destruct (aw_filter_side xs l r (fun q => ltb (fst q) pos) A Hl' Hr') as [PLs PRs].
          exists l, r, wl, pos. cbn [bind fst snd]. split; [reflexivity|]. split; [exact A|]. split; [exact Hpos|].
          split; [intros y Hy; left; apply Hl', Hy|]. split; [exact Hr'|]. split; [|split].
          + rewrite Hwl. unfold Wl. rewrite <- (wsum_perm C _ _ PLs). apply wsum_aw_of.
          + intros cl ch Pcl Pch. eapply (bob_perm C ltb within_tol); [| |exact Hbob].
            * eapply perm_trans; [apply Permutation_sym, PLs|exact Pcl].
            * eapply perm_trans; [apply Permutation_sym, PRs|exact Pch].
          + right. exists (fst p). split; [|split; [exact B|exact B2]].
            rewrite Forall_forall in Hvx. apply Hvx. eapply nth_opt_In; exact Hp.
        - destruct HP as (Hbob & Hpos & Hle).
          exists xs, [], sum, pos. split; [reflexivity|]. split; [rewrite app_nil_r; apply Permutation_refl|].
          split; [exact Hpos|]. split; [|split; [intros y []|split; [|split]]].
          + intros y Hy. right. split; [reflexivity|]. apply (Hle (fst y, wt (snd y))), aw_in, Hy.
          + rewrite Hm. exact Hsum.
          + intros cl ch Pcl Pch. apply Permutation_nil in Pch. subst ch.
            eapply (bob_perm C ltb within_tol); [exact Pcl|apply Permutation_refl|exact Hbob].
          + left; reflexivity. }
      destruct Hsides as (l & r & wl & pos & Hs & Hperm & Hpos & Hl & Hr & Hwl & Hbob & Hpiv).
      rewrite Hs in H. cbn [bind] in H.
      destruct (rcb_rec fuel sched D k (map snd l) (2 * iter_id + 1)%N ((a + 1) mod D)%nat wl
                        (set_nth bb a (mn, pos))) as [L|e|s|] eqn:HL; cbn [bind] in H; try discriminate.
      destruct (rcb_rec fuel sched D k (map snd r) (2 * iter_id + 2)%N ((a + 1) mod D)%nat (sum - wl)
                        (set_nth bb a (pos, mx))) as [R|e|s|] eqn:HR; cbn [bind] in H; try discriminate.
      inversion H; subst asg. clear H.
      (* items of the two sides *)
      assert (Hsub : forall it, In it (map snd l) \/ In it (map snd r) -> In it its).
      { intros it Hit. rewrite <- Hm. eapply Permutation_in; [apply Permutation_map, Hperm|].
        rewrite map_app. apply in_or_app. exact Hit. }
      assert (Hfl : Forall fitem (map snd l)).
      { rewrite Forall_forall in *. intros it Hit. apply Hf, Hsub. left; exact Hit. }
      assert (Hfr : Forall fitem (map snd r)).
      { rewrite Forall_forall in *. intros it Hit. apply Hf, Hsub. right; exact Hit. }
      assert (Hvl : Forall (vitem C valid) (map snd l)).
      { rewrite Forall_forall in *. intros it Hit. apply fitem_vitem, Hfl, Hit. }
      assert (Hvr : Forall (vitem C valid) (map snd r)).
      { rewrite Forall_forall in *. intros it Hit. apply fitem_vitem, Hfr, Hit. }
      destruct (rcb_rec_spec C ltb leb mid dist addc zero inf within_tol false true true valid
                  lt_irrefl lt_negtrans le_lt _ _ _ _ _ _ _ _ _ _ Hvl HL) as (PL & _ & RL).
      destruct (rcb_rec_spec C ltb leb mid dist addc zero inf within_tol false true true valid
                  lt_irrefl lt_negtrans le_lt _ _ _ _ _ _ _ _ _ _ Hvr HR) as (PR & _ & RR).
      (* key of each element of l, r *)
      assert (Hcl : Forall (fun x : keyed => nth_opt (co (snd x)) a = Some (fst x)) l).
      { rewrite Forall_forall in *. intros x Hx. apply Hc. eapply Permutation_in; [exact Hperm|apply in_or_app; left; exact Hx]. }
      assert (Hcr : Forall (fun x : keyed => nth_opt (co (snd x)) a = Some (fst x)) r).
      { rewrite Forall_forall in *. intros x Hx. apply Hc. eapply Permutation_in; [exact Hperm|apply in_or_app; right; exact Hx]. }
      destruct (keys_perm a (map snd l) (map fst L) (Permutation_sym PL) l (keys_of_keyed a l Hcl)) as (kl & Kl & Pkl).
      destruct (keys_perm a (map snd r) (map fst R) (Permutation_sym PR) r (keys_of_keyed a r Hcr)) as (kr & Kr & Pkr).
      (* boxes of the children *)
      assert (HboxL : BoxOK (set_nth bb a (mn, pos)) (map snd l)).
      { intros a' mn' mx' Hn. destruct (Nat.eq_dec a a') as [<-|Hne].
        - rewrite nth_opt_set_nth_same in Hn by (eapply nth_opt_Some; exact Ebb). inversion Hn; subst mn' mx'.
          split; [exact Hmn|]. split; [exact Hpos|]. intros it c Hit Hco.
          apply in_map_iff in Hit. destruct Hit as (x & <- & Hx). rewrite Forall_forall in Hcl.
          rewrite (Hcl x Hx) in Hco. inversion Hco; subst c. split.
          + apply (Hencl' (fst x, wt (snd x))). apply aw_in. eapply Permutation_in; [exact Hperm|apply in_or_app; left; exact Hx].
          + destruct (Hl x Hx) as [Q|[_ Q]]; [|exact Q].
            rewrite Forall_forall in Hvx. apply lt_asym; [apply Hvx; eapply Permutation_in; [exact Hperm|apply in_or_app; left; exact Hx]|apply fin_valid, Hpos|exact Q].
        - rewrite nth_opt_set_nth_other in Hn by exact Hne. destruct (Hbox a' mn' mx' Hn) as (A1 & A2 & A3).
          split; [exact A1|]. split; [exact A2|]. intros it c Hit Hco. apply (A3 it c); [apply Hsub; left; exact Hit|exact Hco]. }
      assert (HboxR : BoxOK (set_nth bb a (pos, mx)) (map snd r)).
      { intros a' mn' mx' Hn. destruct (Nat.eq_dec a a') as [<-|Hne].
        - rewrite nth_opt_set_nth_same in Hn by (eapply nth_opt_Some; exact Ebb). inversion Hn; subst mn' mx'.
          split; [exact Hpos|]. split; [exact Hmx|]. intros it c Hit Hco.
          apply in_map_iff in Hit. destruct Hit as (x & <- & Hx). rewrite Forall_forall in Hcr.
          rewrite (Hcr x Hx) in Hco. inversion Hco; subst c. split.
          + apply Hr, Hx.
          + apply (Hencl' (fst x, wt (snd x))). apply aw_in. eapply Permutation_in; [exact Hperm|apply in_or_app; right; exact Hx].
        - rewrite nth_opt_set_nth_other in Hn by exact Hne. destruct (Hbox a' mn' mx' Hn) as (A1 & A2 & A3).
          split; [exact A1|]. split; [exact A2|]. intros it c Hit Hco. apply (A3 it c); [apply Hsub; right; exact Hit|exact Hco]. }
      assert (Hwr : sum - wl = tw (map snd r)).
      { rewrite Hwl, Hsum, <- Hm, <- (tw_perm _ _ (Permutation_map snd Hperm)), map_app, tw_app.
        unfold Rcb.keyed in *. lia. }
      pose proof (IH _ _ _ _ _ _ _ _ _ Hfl HboxL Hwl HL) as TL.
      pose proof (IH _ _ _ _ _ _ _ _ _ Hfr HboxR Hwr HR) as TR.
      rewrite map_app.
      eapply bal_node with (cl := aw_of kl) (ch := aw_of kr); [| |apply axis_w_wit, Kl|apply axis_w_wit, Kr| |exact TL|exact TR].
      + intros x y Hx Hy. apply (in_map (wp C)) in Hx, Hy. rewrite map_wp_wit in Hx, Hy.
        destruct Hpiv as [->|(p & Hp & Bl & Br)].
        * cbn [map] in PR. apply Permutation_sym, Permutation_nil in PR. destruct R; [destruct Hy|discriminate].
        * exact (node_below C ltb valid lt_negtrans a xs l r p L R Hvx Hc Hperm Bl Br Hp PL PR _ _ Hx Hy).
      + rewrite !map_wp_wit. exact (node_disjoint C k iter_id L R RL RR).
      + apply Hbob; unfold aw_of; apply Permutation_map; assumption.
  Qed.
  Notation rcb_core := (rcb_core C ltb leb mid dist addc zero inf within_tol false true true).

  Lemma combine_wit (its : list item) (p : list N) :
    map (fun x : item * N => (co (fst x), wt (fst x), snd x)) (combine its p)
    = combine (combine (map co its) (map wt its)) p.
  Proof.
    revert p; induction its as [|it t IH]; intros [|i p]; cbn [map combine fst snd]; try reflexivity.
    f_equal. apply IH.
  Qed.

  (* C04, generic form: for every split tree and fuel, if the call returns Ok
     the partition is a bisection tree all of whose nodes are balanced *)
  Theorem rcb_core_balanced : forall fuel sched D k its sum bb p0 p,
    Forall fitem its -> BoxOK bb its -> sum = tw its ->
    map ix its = seq 0 (length p0) -> its <> [] ->
    rcb_core fuel sched D k its sum bb p0 = Ok p ->
    exists t, Permutation t (combine (combine (map co its) (map wt its)) p) /\ BalTree D k 0%nat t.
  Proof.
    intros fuel sched D k its sum bb p0 p Hf Hbox Hsum Hix Hne H.
    assert (Hv : Forall (vitem C valid) its).
    { rewrite Forall_forall in *. intros it Hit. apply fitem_vitem, Hf, Hit. }
    destruct (rcb_core_asg C ltb leb mid dist addc zero inf within_tol false true true valid
                lt_irrefl lt_negtrans le_lt fuel sched D k its sum bb p0 p Hv Hix Hne H)
      as (asg & off & Hrec & Hge & Hlen & Hperm).
    pose proof (rcb_rec_balanced _ _ _ _ _ _ _ _ _ _ Hf Hbox Hsum Hrec) as T.
    exists (map (remap C (fun i => (i - off)%N)) (map wit asg)). split.
    - rewrite <- combine_wit. rewrite map_map.
      eapply perm_trans; [|apply Permutation_map, Hperm]. rewrite map_map.
      apply Permutation_refl.
    - apply (BalTree_map C ltb within_tol); [exact T|].
      intros x y Hx Hy Q. apply in_map_iff in Hx, Hy.
      destruct Hx as (x' & <- & Hx), Hy as (y' & <- & Hy). unfold wit in *. cbn [snd] in *.
      specialize (Hge _ Hx) as G1. specialize (Hge _ Hy) as G2. lia.
  Qed.
End Search.

(* Generic theory of table-driven recursive curves (Model/Hilbert.v, Section
   Curve) in any dimension D: for tables satisfying a FINITE certificate
   (rows are permutations, consecutive quadrants are adjacent, child entry /
   exit corners glue) the encoder is a bijection at every order, the decoder
   is continuous (consecutive indices are face-adjacent cells), and dropping
   one digit gives the parent cell's index.  Instantiated with coupe's tables
   in Proofs/HilbertTablesCert.v. *)
From Coupe Require Import Lib.Prelude Model.Hilbert.
Open Scope N_scope.

Lemma pow2_pos k : 0 < 2 ^ k.
Proof. apply N.neq_0_lt_0, N.pow_nonzero; lia. Qed.

Section CurveFacts.
  Variable D : N.
  Variable digit next : N -> N -> N.
  Variable nstates : N.
  Variable entry exit_ : N -> N.

  Notation Q := (2 ^ D).
  Notation Qp := (Qp D).
  Notation qd := (qd D).
  Notation enc := (enc D digit next).
  Notation st := (st D next).
  Notation dec := (dec D digit next).
  Notation invq := (invq D digit).
  Notation qbit := (qbit D).
  Notation coord := (coord D).

  Definition axes : list N := map N.of_nat (seq 0 (N.to_nat D)).

  (* quadrants qa, qb differ on exactly one axis i; the exit corner ea (inside
     qa) faces qb and the entry corner eb (inside qb) faces qa; on every other
     axis the quadrants agree and the corners agree *)
  Definition glue (qa qb ea eb : N) : bool :=
    existsb (fun i =>
      negb (qbit qa i =? qbit qb i) && (qbit ea i =? qbit qb i) && (qbit eb i =? qbit qa i)
      && forallb (fun j => (j =? i) || ((qbit qa j =? qbit qb j) && (qbit ea j =? qbit eb j))) axes) axes.

  Hypothesis H_closed : forall s q, s < nstates -> q < Q -> next s q < nstates.
  Hypothesis H_digit_lt : forall s q, s < nstates -> q < Q -> digit s q < Q.
  Hypothesis H_inv1 : forall s q, s < nstates -> q < Q -> invq s (digit s q) = q.
  Hypothesis H_inv2 : forall s d, s < nstates -> d < Q -> invq s d < Q /\ digit s (invq s d) = d.
  Hypothesis H_entry : forall s, s < nstates -> invq s 0 = entry s /\ entry (next s (entry s)) = entry s.
  Hypothesis H_exit : forall s, s < nstates -> invq s (Q - 1) = exit_ s /\ exit_ (next s (exit_ s)) = exit_ s.
  Hypothesis H_glue : forall s d, s < nstates -> d + 1 < Q ->
    glue (invq s d) (invq s (d + 1)) (exit_ (next s (invq s d))) (entry (next s (invq s (d + 1)))) = true.

  (* ---------------------------------------------------------- arithmetic *)
  Lemma Qp_pos m : 0 < Qp m.
  Proof. apply pow2_pos. Qed.
  Lemma Q_pos : 0 < Q.
  Proof. apply pow2_pos. Qed.
  Lemma Qp_0 : Qp 0 = 1.
  Proof. unfold Hilbert.Qp. rewrite N.mul_0_r. reflexivity. Qed.
  Lemma Qp_S m : Qp (S m) = Q * Qp m.
  Proof.
    unfold Hilbert.Qp. rewrite Nat2N.inj_succ, N.mul_succ_r, N.pow_add_r. lia.
  Qed.
  Lemma Qp_add n m : Qp (n + m) = Qp n * Qp m.
  Proof.
    unfold Hilbert.Qp. rewrite Nat2N.inj_add, N.mul_add_distr_l, N.pow_add_r. reflexivity.
  Qed.
  Lemma Qp_1 : Qp 1 = Q.
  Proof. rewrite Qp_S, Qp_0. lia. Qed.

  Lemma qd_lt m z : qd m z < Q.
  Proof. unfold Hilbert.qd. apply N.mod_lt. pose proof Q_pos; lia. Qed.

  Lemma qd_mod k m z : (k < m)%nat -> qd k (z mod Qp m) = qd k z.
  Proof.
    intros Hk. unfold Hilbert.qd, Hilbert.Qp. apply N.bits_inj; intro j.
    destruct (N.lt_ge_cases j D) as [Hj | Hj].
    - rewrite !N.mod_pow2_bits_low by assumption.
      rewrite !N.div_pow2_bits. apply N.mod_pow2_bits_low. nia.
    - rewrite !N.mod_pow2_bits_high by assumption. reflexivity.
  Qed.

  Lemma qd_div n m z : qd n (z / Qp m) = qd (n + m) z.
  Proof.
    unfold Hilbert.qd. rewrite N.div_div, Qp_add by (pose proof (Qp_pos m); pose proof (Qp_pos n); lia).
    f_equal. f_equal. lia.
  Qed.

  Lemma split_top m d r : d < Q -> r < Qp m ->
    qd m (d * Qp m + r) = d /\ (d * Qp m + r) mod Qp m = r.
  Proof.
    intros Hd Hr. pose proof (Qp_pos m) as P. unfold Hilbert.qd. split.
    - replace ((d * Qp m + r) / Qp m) with d.
      + apply N.mod_small; assumption.
      + apply N.div_unique with (r := r); lia.
    - symmetry. apply N.mod_unique with (q := d); lia.
  Qed.

  Lemma mod_Qp_S m z : z mod Qp (S m) = qd m z * Qp m + z mod Qp m.
  Proof.
    rewrite Qp_S. pose proof (Qp_pos m). pose proof Q_pos.
    rewrite (N.mul_comm Q), N.mod_mul_r by lia. unfold Hilbert.qd. lia.
  Qed.

  (* ------------------------------------- the functions only read n digits *)
  Lemma mod_mod_S m z : (z mod Qp (S m)) mod Qp m = z mod Qp m.
  Proof.
    rewrite Qp_S. pose proof (Qp_pos m). pose proof Q_pos.
    rewrite (N.mul_comm Q), N.mod_mul_r by lia.
    rewrite (N.mul_comm (Qp m)), N.mod_add by lia. rewrite N.mod_mod by lia. reflexivity.
  Qed.

  Lemma enc_mod n : forall s z, enc n s z = enc n s (z mod Qp n).
  Proof.
    induction n as [|m IH]; intros s z; cbn [Hilbert.enc]; [reflexivity|].
    rewrite (qd_mod m (S m)) by lia.
    rewrite (IH _ z), (IH _ (z mod Qp (S m))), mod_mod_S. reflexivity.
  Qed.

  Lemma st_mod n : forall s z, st n s z = st n s (z mod Qp n).
  Proof.
    induction n as [|m IH]; intros s z; cbn [Hilbert.st]; [reflexivity|].
    rewrite (qd_mod m (S m)) by lia.
    rewrite (IH _ z), (IH _ (z mod Qp (S m))), mod_mod_S. reflexivity.
  Qed.

  Lemma dec_mod n : forall s h, dec n s h = dec n s (h mod Qp n).
  Proof.
    induction n as [|m IH]; intros s h; cbn [Hilbert.dec]; [reflexivity|].
    rewrite (qd_mod m (S m)) by lia. cbv zeta.
    rewrite (IH _ h), (IH _ (h mod Qp (S m))), mod_mod_S. reflexivity.
  Qed.

  Lemma coord_mod n i : forall z, coord n i z = coord n i (z mod Qp n).
  Proof.
    induction n as [|m IH]; intros z; cbn [Hilbert.coord]; [reflexivity|].
    rewrite (qd_mod m (S m)) by lia.
    rewrite (IH z), (IH (z mod Qp (S m))), mod_mod_S. reflexivity.
  Qed.

  (* --------------------------------------------------------------- ranges *)
  Lemma st_closed n : forall s z, s < nstates -> st n s z < nstates.
  Proof.
    induction n as [|m IH]; intros s z Hs; cbn [Hilbert.st]; [assumption|].
    apply IH, H_closed; [assumption | apply qd_lt].
  Qed.

  Lemma enc_lt n : forall s z, s < nstates -> enc n s z < Qp n.
  Proof.
    induction n as [|m IH]; intros s z Hs; cbn [Hilbert.enc].
    - rewrite Qp_0. lia.
    - pose proof (H_digit_lt s (qd m z) Hs (qd_lt m z)) as Hd.
      pose proof (IH (next s (qd m z)) z (H_closed _ _ Hs (qd_lt m z))) as He.
      rewrite Qp_S. nia.
  Qed.

  Lemma dec_lt n : forall s h, s < nstates -> dec n s h < Qp n.
  Proof.
    induction n as [|m IH]; intros s h Hs; cbn [Hilbert.dec].
    - rewrite Qp_0. lia.
    - cbv zeta. destruct (H_inv2 s (qd m h) Hs (qd_lt m h)) as [Hq _].
      pose proof (IH (next s (invq s (qd m h))) h (H_closed _ _ Hs Hq)) as He.
      rewrite Qp_S. nia.
  Qed.

  Lemma coord_lt n i : forall z, coord n i z < 2 ^ N.of_nat n.
  Proof.
    induction n as [|m IH]; intros z; cbn [Hilbert.coord].
    - cbn. lia.
    - rewrite Nat2N.inj_succ, N.pow_succ_r'. specialize (IH z).
      unfold Hilbert.qbit. destruct (N.testbit _ _); cbn [N.b2n]; lia.
  Qed.

  (* ------------------------------------------------------------ bijection *)
  Theorem dec_enc n : forall s z, s < nstates -> dec n s (enc n s z) = z mod Qp n.
  Proof.
    induction n as [|m IH]; intros s z Hs.
    - cbn [Hilbert.dec]. rewrite Qp_0, N.mod_1_r. reflexivity.
    - cbn [Hilbert.enc Hilbert.dec]. cbv zeta.
      pose proof (qd_lt m z) as Hq.
      pose proof (H_digit_lt s _ Hs Hq) as Hd.
      pose proof (enc_lt m _ z (H_closed _ _ Hs Hq)) as He.
      destruct (split_top m _ _ Hd He) as [E1 E2].
      rewrite E1, (H_inv1 s _ Hs Hq).
      rewrite dec_mod, E2, IH by (apply H_closed; assumption).
      symmetry. apply mod_Qp_S.
  Qed.

  Theorem enc_dec n : forall s h, s < nstates -> enc n s (dec n s h) = h mod Qp n.
  Proof.
    induction n as [|m IH]; intros s h Hs.
    - cbn [Hilbert.enc]. rewrite Qp_0, N.mod_1_r. reflexivity.
    - cbn [Hilbert.enc Hilbert.dec]. cbv zeta.
      pose proof (qd_lt m h) as Hq.
      destruct (H_inv2 s _ Hs Hq) as [Hi Hdi].
      pose proof (dec_lt m _ h (H_closed _ _ Hs Hi)) as He.
      destruct (split_top m _ _ Hi He) as [E1 E2].
      rewrite E1, Hdi.
      rewrite enc_mod, E2, IH by (apply H_closed; assumption).
      symmetry. apply mod_Qp_S.
  Qed.

  (* ---------------------------------------------------------- composition *)
  Lemma st_app n m : forall s z, st (n + m) s z = st m (st n s (z / Qp m)) z.
  Proof.
    induction n as [|k IH]; intros s z; cbn [Nat.add Hilbert.st]; [reflexivity|].
    rewrite IH, qd_div. reflexivity.
  Qed.

  Theorem enc_app n m : forall s z,
    enc (n + m) s z = enc n s (z / Qp m) * Qp m + enc m (st n s (z / Qp m)) z.
  Proof.
    induction n as [|k IH]; intros s z; cbn [Nat.add Hilbert.enc Hilbert.st].
    - lia.
    - rewrite IH, qd_div, Qp_add. lia.
  Qed.

  (* dropping the last digit of the index = index of the parent cell *)
  Theorem enc_parent n s z : s < nstates -> enc (S n) s z / Q = enc n s (z / Q).
  Proof.
    intros Hs. replace (S n) with (n + 1)%nat by lia.
    rewrite enc_app, Qp_1.
    pose proof (enc_lt 1 (st n s (z / Q)) z (st_closed n s _ Hs)) as H1. rewrite Qp_1 in H1.
    pose proof Q_pos.
    symmetry. apply N.div_unique with (r := enc 1 (st n s (z / Q)) z); lia.
  Qed.

  (* -------------------------------------------------------------- corners *)
  Lemma coord_top m i q r : q < Q -> r < Qp m ->
    coord (S m) i (q * Qp m + r) = qbit q i * 2 ^ N.of_nat m + coord m i r.
  Proof.
    intros Hq Hr. cbn [Hilbert.coord]. destruct (split_top m q r Hq Hr) as [E1 E2].
    rewrite E1, (coord_mod m), E2. reflexivity.
  Qed.

  Lemma entry_lt s : s < nstates -> entry s < Q.
  Proof. intros Hs. destruct (H_entry s Hs) as [E _]. rewrite <- E. apply H_inv2; [assumption|apply Q_pos]. Qed.
  Lemma exit_lt s : s < nstates -> exit_ s < Q.
  Proof.
    intros Hs. destruct (H_exit s Hs) as [E _]. rewrite <- E. apply H_inv2; [assumption|].
    pose proof Q_pos; lia.
  Qed.

  Lemma qbit_le1 q i : qbit q i = 0 \/ qbit q i = 1.
  Proof. unfold Hilbert.qbit. destruct (N.testbit _ _); cbn; auto. Qed.

  Lemma qd_0 m : qd m 0 = 0.
  Proof. unfold Hilbert.qd. rewrite N.div_0_l by (pose proof (Qp_pos m); lia). apply N.mod_0_l. pose proof Q_pos; lia. Qed.

  Lemma dec_first n i : forall s, s < nstates ->
    coord n i (dec n s 0) = qbit (entry s) i * (2 ^ N.of_nat n - 1).
  Proof.
    induction n as [|m IH]; intros s Hs.
    - cbn [Hilbert.coord]. cbn. lia.
    - cbn [Hilbert.dec]. cbv zeta. rewrite qd_0.
      destruct (H_entry s Hs) as [E1 E2]. rewrite E1.
      pose proof (entry_lt s Hs) as He.
      rewrite coord_top by (try assumption; apply dec_lt, H_closed; assumption).
      rewrite IH, E2 by (apply H_closed; assumption).
      rewrite Nat2N.inj_succ, N.pow_succ_r'. pose proof (pow2_pos (N.of_nat m)).
      destruct (qbit_le1 (entry s) i) as [B|B]; rewrite B; lia.
  Qed.

  Lemma qd_last m : qd m (Qp (S m) - 1) = Q - 1 /\ (Qp (S m) - 1) mod Qp m = Qp m - 1.
  Proof.
    pose proof (Qp_pos m). pose proof Q_pos.
    replace (Qp (S m) - 1) with ((Q - 1) * Qp m + (Qp m - 1)) by (rewrite Qp_S; nia).
    apply split_top; lia.
  Qed.

  Lemma dec_last n i : forall s, s < nstates ->
    coord n i (dec n s (Qp n - 1)) = qbit (exit_ s) i * (2 ^ N.of_nat n - 1).
  Proof.
    induction n as [|m IH]; intros s Hs.
    - cbn [Hilbert.coord]. cbn. lia.
    - cbn [Hilbert.dec]. cbv zeta. destruct (qd_last m) as [L1 L2]. rewrite L1.
      destruct (H_exit s Hs) as [E1 E2]. rewrite E1.
      pose proof (exit_lt s Hs) as He.
      rewrite coord_top by (try assumption; apply dec_lt, H_closed; assumption).
      rewrite dec_mod, L2, IH, E2 by (apply H_closed; assumption).
      rewrite Nat2N.inj_succ, N.pow_succ_r'. pose proof (pow2_pos (N.of_nat m)).
      destruct (qbit_le1 (exit_ s) i) as [B|B]; rewrite B; lia.
  Qed.

  (* ----------------------------------------------------------- continuity *)
  Lemma in_axes i : In i axes <-> i < D.
  Proof.
    unfold axes. rewrite in_map_iff. split.
    - intros [k [E Hk]]. apply in_seq in Hk. lia.
    - intros Hi. exists (N.to_nat i). split; [apply N2Nat.id | apply in_seq; lia].
  Qed.

  Theorem dec_continuous n : forall s h, s < nstates -> h + 1 < Qp n ->
    adjacent D n (dec n s h) (dec n s (h + 1)).
  Proof.
    induction n as [|m IH]; intros s h Hs Hh.
    - rewrite Qp_0 in Hh. lia.
    - pose proof (Qp_pos m) as P. pose proof Q_pos as PQ. rewrite Qp_S in Hh.
      set (p := Qp m) in *.
      set (d := h / p). set (r := h mod p).
      assert (Hdr : h = d * p + r) by (unfold d, r; rewrite N.mul_comm; apply N.div_mod; lia).
      assert (Hr : r < p) by (apply N.mod_lt; lia).
      assert (Hd : d < Q) by (apply N.div_lt_upper_bound; lia).
      destruct (N.lt_ge_cases (r + 1) p) as [Hin | Hout].
      + (* same quadrant *)
        destruct (split_top m d r Hd Hr) as [A1 A2].
        destruct (split_top m d (r + 1) Hd Hin) as [B1 B2].
        fold p in A1, A2, B1, B2.
        replace (h + 1) with (d * p + (r + 1)) by lia. rewrite Hdr.
        cbn [Hilbert.dec]. cbv zeta. fold p. rewrite A1, B1.
        destruct (H_inv2 s d Hs Hd) as [Hq _].
        set (q := invq s d) in *. set (s' := next s q).
        assert (Hs' : s' < nstates) by (apply H_closed; assumption).
        rewrite (dec_mod m s' (d * p + r)), (dec_mod m s' (d * p + (r + 1))).
        fold p. rewrite A2, B2.
        destruct (IH s' r Hs' Hin) as [i [Hi [Hstep Hoth]]].
        exists i. split; [assumption|].
        pose proof (dec_lt m s' r Hs') as L1. pose proof (dec_lt m s' (r + 1) Hs') as L2.
        unfold p. rewrite !coord_top by assumption. split; [lia|].
        intros j Hj Hji. rewrite !coord_top by assumption. rewrite (Hoth j Hj Hji). reflexivity.
      + (* crossing into the next quadrant *)
        assert (Er : r = p - 1) by lia.
        assert (Hd3 : d + 1 < Q) by nia.
        assert (Z0 : 0 < p) by assumption.
        destruct (split_top m d r Hd Hr) as [A1 A2].
        destruct (split_top m (d + 1) 0 Hd3 Z0) as [B1 B2].
        fold p in A1, A2, B1, B2.
        replace (h + 1) with ((d + 1) * p + 0) by lia. rewrite Hdr.
        cbn [Hilbert.dec]. cbv zeta. fold p. rewrite A1, B1.
        pose proof (H_glue s d Hs Hd3) as G.
        destruct (H_inv2 s d Hs Hd) as [Hqa _]. destruct (H_inv2 s (d + 1) Hs Hd3) as [Hqb _].
        set (qa := invq s d) in *. set (qb := invq s (d + 1)) in *.
        set (sa := next s qa) in *. set (sb := next s qb) in *.
        assert (Hsa : sa < nstates) by (apply H_closed; assumption).
        assert (Hsb : sb < nstates) by (apply H_closed; assumption).
        rewrite (dec_mod m sa (d * p + r)), (dec_mod m sb ((d + 1) * p + 0)).
        fold p. rewrite A2, B2, Er.
        pose proof (dec_lt m sa (p - 1) Hsa) as L1. pose proof (dec_lt m sb 0 Hsb) as L2.
        unfold glue in G. apply existsb_exists in G. destruct G as [i [Hi G]].
        apply in_axes in Hi.
        apply andb_prop in G. destruct G as [G G4]. apply andb_prop in G. destruct G as [G G3].
        apply andb_prop in G. destruct G as [G1 G2].
        apply negb_true_iff, N.eqb_neq in G1. apply N.eqb_eq in G2. apply N.eqb_eq in G3.
        rewrite forallb_forall in G4.
        exists i. split; [assumption|].
        unfold p in *. rewrite !coord_top by assumption.
        pose proof (dec_last m) as DL. unfold p in DL.
        split.
        * rewrite (DL i sa Hsa), (dec_first m i sb Hsb). rewrite G2, G3.
          pose proof (pow2_pos (N.of_nat m)).
          destruct (qbit_le1 qa i) as [Ba|Ba], (qbit_le1 qb i) as [Bb|Bb]; rewrite Ba, Bb in *; try congruence; lia.
        * intros j Hj Hji. rewrite !coord_top by assumption.
          rewrite (DL j sa Hsa), (dec_first m j sb Hsb).
          assert (Hin : In j axes) by (apply in_axes; assumption).
          specialize (G4 j Hin). apply orb_prop in G4. destruct G4 as [G4|G4].
          -- apply N.eqb_eq in G4. congruence.
          -- apply andb_prop in G4. destruct G4 as [G5 G6].
             apply N.eqb_eq in G5. apply N.eqb_eq in G6. rewrite G5, G6. reflexivity.
  Qed.

End CurveFacts.

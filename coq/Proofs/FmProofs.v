(* Proofs about Model/Fm.v (FiducciaMattheyses), for every oracle.

   fm_inv / fm_moves_inv   invariant of a pass: stored gains are the true gains, the bucket a
                           vertex sits in is labelled with its gain, current_edge_cut is the cut,
                           part_weights are the loads, cap bound, best prefix
   fm_cut_tracked          the debug assertion `current_edge_cut == edge_cut(partition)` never fires
   fm_sound                cut not worse, cap, metadata
   fm_terminates           fuel bounds *)
From Coupe Require Import Lib.Prelude Lib.SFloat Lib.Graph Model.Fm.
Open Scope Z_scope.

(* ------------------------------------------------------------ list lemmas *)

Lemma nth_opt_nth {A} (l : list A) i d x : nth_opt l i = Some x -> nth i l d = x.
Proof.
  revert i; induction l as [|y t IH]; intros [|i]; cbn [nth_opt nth]; intros H; try discriminate.
  - now inversion H.
  - now apply IH.
Qed.

Lemma nth_opt_nth_lt {A} (l : list A) i d : (i < length l)%nat -> nth_opt l i = Some (nth i l d).
Proof.
  revert i; induction l as [|y t IH]; intros [|i]; cbn [nth_opt nth length]; intros H; try lia; auto.
  apply IH. lia.
Qed.

Lemma nth_opt_ge {A} (l : list A) i : (length l <= i)%nat -> nth_opt l i = None.
Proof.
  revert i; induction l as [|y t IH]; intros [|i]; cbn [nth_opt length]; intros H; try lia; auto.
  apply IH. lia.
Qed.

Lemma nth_set_nth {A} (l : list A) i j v d :
  nth j (set_nth l i v) d = if Nat.eqb i j && Nat.ltb i (length l) then v else nth j l d.
Proof.
  revert i j; induction l as [|y t IH]; intros i j.
  - replace (set_nth [] i v) with (@nil A) by (destruct i; reflexivity). cbn [length].
    destruct (Nat.ltb_spec i 0); [lia|]. now rewrite andb_false_r.
  - destruct i as [|i]; destruct j as [|j]; cbn [set_nth nth length Nat.eqb andb]; try reflexivity.
    rewrite IH. destruct (Nat.eqb i j); cbn [andb]; [|reflexivity].
    destruct (Nat.ltb_spec i (length t)), (Nat.ltb_spec (S i) (S (length t))); try lia; reflexivity.
Qed.

Lemma nth_opt_set_nth {A} (l : list A) i j v :
  nth_opt (set_nth l i v) j = if Nat.eqb i j && Nat.ltb i (length l) then Some v else nth_opt l j.
Proof.
  destruct (Nat.eqb_spec i j) as [->|Hne]; cbn [andb].
  - destruct (Nat.ltb_spec j (length l)) as [L|L].
    + now apply nth_opt_set_nth_same.
    + rewrite !nth_opt_ge; auto. now rewrite set_nth_length.
  - now apply nth_opt_set_nth_other.
Qed.

Lemma set_nth_same_id {A} (l : list A) i x : nth_opt l i = Some x -> set_nth l i x = l.
Proof.
  revert i; induction l as [|y t IH]; intros [|i]; cbn [nth_opt set_nth]; intros H; try discriminate.
  - now inversion H.
  - f_equal. now apply IH.
Qed.

Lemma set_nth_set_nth_same {A} (l : list A) i x y : set_nth (set_nth l i x) i y = set_nth l i y.
Proof. revert i; induction l as [|z t IH]; intros [|i]; cbn [set_nth]; auto. f_equal. apply IH. Qed.

Lemma set_nth_comm {A} (l : list A) i j x y : i <> j ->
  set_nth (set_nth l i x) j y = set_nth (set_nth l j y) i x.
Proof.
  revert i j; induction l as [|z t IH]; intros [|i] [|j] H; cbn [set_nth]; auto; try congruence.
  f_equal. apply IH. congruence.
Qed.

(* ------------------------------------------------------------------- loads *)

Lemma load_set_nth ws : forall p v x y w b, nth_opt p v = Some x -> nth_opt ws v = Some w ->
  load ws (set_nth p v y) b = load ws p b - (if (x =? b)%N then w else 0) + (if (y =? b)%N then w else 0).
Proof.
  induction ws as [|w0 ws IH]; intros p v x y w b Hp Hw; [destruct v; discriminate|].
  destruct p as [|x0 p]; [destruct v; discriminate|].
  destruct v as [|v]; cbn [nth_opt set_nth load] in *.
  - inversion Hp; inversion Hw; subst. lia.
  - rewrite (IH p v x y w b Hp Hw). lia.
Qed.

(* ----------------------------------------------------------------- hamming *)

Lemma hamming_refl p : hamming p p = O.
Proof. induction p as [|x t IH]; cbn [hamming]; [reflexivity|]. rewrite N.eqb_refl, IH. reflexivity. Qed.

Lemma hamming_set_nth : forall p q v x, (hamming p (set_nth q v x) <= hamming p q + 1)%nat.
Proof.
  induction p as [|a p IH]; intros q v x; [cbn; lia|].
  destruct q as [|b q]; [destruct v; cbn; lia|].
  destruct v as [|v]; cbn [set_nth hamming].
  - destruct (a =? x)%N, (a =? b)%N; lia.
  - specialize (IH q v x). lia.
Qed.

Lemma hamming_triangle : forall a b c, length b = length a -> length c = length a ->
  (hamming a c <= hamming a b + hamming b c)%nat.
Proof.
  induction a as [|x a IH]; intros b c Hb Hc; [cbn; lia|].
  destruct b as [|y b]; [discriminate|]. destruct c as [|z c]; [discriminate|].
  cbn [hamming length] in *. specialize (IH b c ltac:(lia) ltac:(lia)).
  destruct (N.eqb_spec x z), (N.eqb_spec x y), (N.eqb_spec y z); try lia; congruence.
Qed.

Lemma sumN_app a b : sumN (a ++ b) = (sumN a + sumN b)%N.
Proof. induction a as [|x t IH]; cbn [sumN app]; [reflexivity|]. rewrite IH. lia. Qed.

(* ------------------------------------------------ undoing recorded moves *)

(* the partition part of [rewind] *)
Fixpoint undo (p : list N) (h : list (nat * N)) : list N :=
  match h with [] => p | (v, i) :: h' => undo (set_nth p v i) h' end.

Lemma undo_length h : forall p, length (undo p h) = length p.
Proof. induction h as [|[v i] h IH]; intros p; cbn [undo]; [reflexivity|]. now rewrite IH, set_nth_length. Qed.

Lemma undo_app h1 h2 p : undo p (h1 ++ h2) = undo (undo p h1) h2.
Proof. revert p; induction h1 as [|[v i] h IH]; intros p; cbn [undo app]; auto. Qed.

Lemma undo_set_comm h : forall p v x, ~ In v (map fst h) -> undo (set_nth p v x) h = set_nth (undo p h) v x.
Proof.
  induction h as [|[u i] h IH]; intros p v x Hn; cbn [undo]; [reflexivity|].
  cbn [map fst In] in Hn. rewrite set_nth_comm by (intros ->; tauto). apply IH. tauto.
Qed.

Lemma undo_nth_notin h : forall p v, ~ In v (map fst h) -> nth_opt (undo p h) v = nth_opt p v.
Proof.
  induction h as [|[u i] h IH]; intros p v Hn; cbn [undo]; [reflexivity|].
  cbn [map fst In] in Hn. rewrite IH by tauto. apply nth_opt_set_nth_other. intros ->; tauto.
Qed.

Lemma two_way_set_nth p v x : two_way p -> (x <= 1)%N -> two_way (set_nth p v x).
Proof.
  unfold two_way. revert v; induction p as [|y t IH]; intros [|v] H Hx; cbn [set_nth]; auto;
    inversion H; subst; constructor; auto.
Qed.

Lemma two_way_nth p v x : two_way p -> nth_opt p v = Some x -> (x <= 1)%N.
Proof.
  unfold two_way. revert v; induction p as [|y t IH]; intros [|v] H Hn; cbn [nth_opt] in Hn; try discriminate;
    inversion H; subst.
  - now inversion Hn; subst.
  - eauto.
Qed.

Lemma two_way_pfun p u : two_way p -> (pfun p u <= 1)%N.
Proof.
  intros H. unfold pfun. destruct (Nat.lt_ge_cases u (length p)) as [L|L].
  - unfold two_way in H. rewrite Forall_forall in H. apply H. apply nth_In. exact L.
  - rewrite nth_overflow by lia. lia.
Qed.

Lemma pfun_nth_opt p v x : nth_opt p v = Some x -> pfun p v = x.
Proof. intros H. unfold pfun. eapply nth_opt_nth; eauto. Qed.

(* --------------------------------------------------------------- the gains *)

Lemma row_gain_cons pf v e r :
  row_gain pf v (e :: r) = (if N.eqb (pf (fst e)) (pf v) then - snd e else snd e) + row_gain pf v r.
Proof. reflexivity. Qed.

Lemma row_gain_chk_some p v : forall r gn,
  row_gain_chk p (pfun p v) r = Some gn -> gn = row_gain (pfun p) v r.
Proof.
  induction r as [|[u w] t IH]; intros gn H; cbn [row_gain_chk] in H.
  - inversion H. reflexivity.
  - destruct (nth_opt p u) as [pu|] eqn:Eu; [|discriminate].
    destruct (row_gain_chk p (pfun p v) t) as [s|]; [|discriminate].
    inversion H; subst. rewrite row_gain_cons. cbn [fst snd]. rewrite (pfun_nth_opt _ _ _ Eu).
    now rewrite (IH s eq_refl).
Qed.

Lemma row_gain_chk_ok p v : forall r, Forall (fun e => (fst e < length p)%nat) r ->
  row_gain_chk p (pfun p v) r = Some (row_gain (pfun p) v r).
Proof.
  induction r as [|[u w] t IH]; intros F; [reflexivity|].
  inversion F as [|? ? Hu Ft]; subst. cbn [fst] in Hu. cbn [row_gain_chk].
  destruct (nth_opt_lt p u Hu) as [pu Eu]. rewrite Eu, (IH Ft). rewrite row_gain_cons. cbn [fst snd].
  now rewrite (pfun_nth_opt _ _ _ Eu).
Qed.

Lemma row_gain_bound pf v r : Forall (fun e => 0 <= snd e) r ->
  - row_weight r <= row_gain pf v r <= row_weight r.
Proof.
  unfold row_weight. induction r as [|e t IH]; intros F; [cbn; lia|].
  inversion F as [|? ? He Ft]; subst. specialize (IH Ft). rewrite row_gain_cons. cbn [map]. rewrite sumZ_cons.
  destruct (N.eqb _ _); lia.
Qed.

Lemma row_weight_nonneg r : Forall (fun e => 0 <= snd e) r -> 0 <= row_weight r.
Proof.
  unfold row_weight. induction r as [|e t IH]; intros F; [cbn; lia|].
  inversion F; subst. cbn [map]. rewrite sumZ_cons. specialize (IH H2). lia.
Qed.

Lemma rowof_nonneg g v : nonneg_edges g -> Forall (fun e => 0 <= snd e) (rowof g v).
Proof.
  intros H. unfold rowof. destruct (Nat.lt_ge_cases v (length g)) as [L|L].
  - unfold nonneg_edges in H. rewrite Forall_forall in H. apply H. apply nth_In. exact L.
  - rewrite nth_overflow by lia. constructor.
Qed.

Lemma fold_max_ge (l : list row) : forall a, a <= fold_left (fun a r' => Z.max a (row_weight r')) l a
  /\ forall r, In r l -> row_weight r <= fold_left (fun a r' => Z.max a (row_weight r')) l a.
Proof.
  induction l as [|x t IH]; intros a; cbn [fold_left]; [split; [lia|intros r []]|].
  destruct (IH (Z.max a (row_weight x))) as [H1 H2]. split; [lia|].
  intros r [<-|Hr]; [lia|auto].
Qed.

Lemma max_gain_spec g mpg : nonneg_edges g -> max_gain g = Some mpg ->
  0 <= mpg /\ forall v, row_weight (rowof g v) <= mpg.
Proof.
  intros Hn H. destruct g as [|r t]; [discriminate|]. cbn [max_gain] in H. inversion H; subst; clear H.
  destruct (fold_max_ge t (row_weight r)) as [H1 H2].
  assert (R0 : 0 <= row_weight r) by (apply row_weight_nonneg; inversion Hn; assumption).
  split; [lia|]. intros v. unfold rowof. destruct v as [|v]; cbn [nth]; [lia|].
  destruct (Nat.lt_ge_cases v (length t)) as [L|L].
  - apply H2. apply nth_In. exact L.
  - rewrite nth_overflow by lia. cbn. lia.
Qed.

Lemma row_gain_ext pf qf v r : (forall x, pf x = qf x) -> row_gain pf v r = row_gain qf v r.
Proof. intros H. unfold row_gain. f_equal. apply map_ext. intros e. now rewrite !H. Qed.

(* moving v changes the gain of another vertex u through the pair weight only *)
Lemma row_gain_upd g n pf v b u : wf_graph g n -> (v < n)%nat -> u <> v ->
  row_gain (upd pf v b) u (rowof g u) =
  row_gain pf u (rowof g u)
  + ((if N.eqb b (pf u) then -1 else 1) - (if N.eqb (pf v) (pf u) then -1 else 1)) * wt g u v.
Proof.
  intros Hw Hv Hne. unfold row_gain.
  rewrite (map_ext _ (fun e => (if N.eqb (upd pf v b (fst e)) (upd pf v b u) then -1 else 1) * snd e))
    by (intros e; destruct (N.eqb _ _); lia).
  rewrite (map_ext (fun e => if N.eqb (pf (fst e)) (pf u) then - snd e else snd e)
                   (fun e => (if N.eqb (pf (fst e)) (pf u) then -1 else 1) * snd e))
    by (intros e; destruct (N.eqb _ _); lia).
  rewrite (row_sum_wt (fun x => if N.eqb (upd pf v b x) (upd pf v b u) then -1 else 1) n) by (apply rowof_wf; exact Hw).
  rewrite (row_sum_wt (fun x => if N.eqb (pf x) (pf u) then -1 else 1) n) by (apply rowof_wf; exact Hw).
  fold (wt g u).
  match goal with |- ?A = ?B + ?C => assert (E : A - B = C); [|lia] end.
  rewrite sumn_sub. rewrite (sumn_single _ _ v).
  - replace (Nat.ltb v n) with true by (symmetry; apply Nat.ltb_lt; exact Hv).
    rewrite upd_same, (upd_other pf v b u Hne). unfold wt. lia.
  - intros i _ Hi. rewrite (upd_other pf v b i Hi), (upd_other pf v b u Hne). lia.
Qed.

(* ------------------------------------------------------------- gain table *)

Lemma In_bucket_insert b v u : In u (bucket_insert b v) <-> u = v \/ In u b.
Proof.
  unfold bucket_insert. destruct (existsb (Nat.eqb v) b) eqn:E.
  - split; [auto|]. intros [->|Hu]; [|exact Hu]. apply existsb_exists in E. destruct E as [x [Hx E]].
    apply Nat.eqb_eq in E. now subst.
  - cbn [In]. split; intros [Hu|Hu]; auto.
Qed.

Lemma In_bucket_remove b v u : In u (bucket_remove b v) <-> In u b /\ u <> v.
Proof.
  unfold bucket_remove. rewrite filter_In, negb_true_iff, Nat.eqb_neq. tauto.
Qed.

Lemma tbl_idx_spec mpg gn k : tbl_idx mpg gn = Some k -> k = gn /\ - mpg <= gn <= mpg.
Proof.
  unfold tbl_idx. destruct (Z.leb_spec 0 (gn + mpg)) as [L|L]; cbn [andb]; [|discriminate].
  destruct (Z.ltb_spec (gn + mpg) (2 * mpg + 1)) as [U|U]; intros E; inversion E. split; [reflexivity|lia].
Qed.

Lemma tbl_idx_ok mpg gn : - mpg <= gn <= mpg -> tbl_idx mpg gn = Some gn.
Proof.
  intros H0. unfold tbl_idx. destruct (Z.leb_spec 0 (gn + mpg)) as [L|L]; [|lia].
  destruct (Z.ltb_spec (gn + mpg) (2 * mpg + 1)) as [U|U]; [reflexivity|lia].
Qed.

(* the association list behaves as the slice of buckets *)
Lemma tget_tset : forall t k b k', tget (tset t k b) k' = if k =? k' then b else tget t k'.
Proof.
  induction t as [|[k0 b0] t IH]; intros k b k'; cbn [tset tget].
  - reflexivity.
  - destruct (Z.eqb_spec k0 k) as [->|N0]; cbn [tget].
    + destruct (Z.eqb_spec k k'); reflexivity.
    + destruct (Z.ltb_spec k0 k); cbn [tget].
      * reflexivity.
      * rewrite IH. destruct (Z.eqb_spec k0 k') as [->|N1]; [|reflexivity].
        destruct (Z.eqb_spec k k'); [congruence|reflexivity].
Qed.

(* strictly descending gains: the scan of the stored buckets is the top-down scan of the slice *)
Fixpoint tsorted (t : table) : Prop :=
  match t with
  | [] => True
  | (k, _) :: t' => (forall k' b', In (k', b') t' -> k' < k) /\ tsorted t'
  end.

Lemma tset_keys : forall t k b k' b', In (k', b') (tset t k b) -> k' = k \/ In (k', b') t.
Proof.
  induction t as [|[k0 b0] t IH]; intros k b k' b' H; cbn [tset] in H.
  - destruct H as [E|[]]. inversion E. left; reflexivity.
  - destruct (k0 =? k).
    + destruct H as [E|H]; [inversion E; left; reflexivity|right; right; exact H].
    + destruct (k0 <? k).
      * destruct H as [E|H]; [inversion E; left; reflexivity|right; exact H].
      * destruct H as [E|H]; [right; left; exact E|]. apply IH in H. destruct H; [left; assumption|right; right; assumption].
Qed.

Lemma tset_sorted : forall t k b, tsorted t -> tsorted (tset t k b).
Proof.
  induction t as [|[k0 b0] t IH]; intros k b S; cbn [tset].
  - cbn. split; [intros ? ? []|exact I].
  - cbn [tsorted] in S. destruct S as [S1 S2]. destruct (Z.eqb_spec k0 k) as [->|N0].
    + cbn [tsorted]. split; assumption.
    + destruct (Z.ltb_spec k0 k) as [L|L].
      * cbn [tsorted]. split; [|split; assumption].
        intros k' b' [E|H]; [inversion E; subst; exact L|]. specialize (S1 _ _ H). lia.
      * cbn [tsorted]. split; [|apply IH; exact S2].
        intros k' b' H. apply tset_keys in H. destruct H as [->|H]; [lia|eauto].
Qed.

Lemma tsorted_In_tget : forall t k b, tsorted t -> In (k, b) t -> tget t k = b.
Proof.
  induction t as [|[k0 b0] t IH]; intros k b S H; [destruct H|].
  cbn [tsorted] in S. destruct S as [S1 S2]. cbn [tget]. destruct H as [E|H].
  - inversion E; subst. now rewrite Z.eqb_refl.
  - specialize (S1 _ _ H). destruct (Z.eqb_spec k0 k); [lia|]. apply IH; assumption.
Qed.

Lemma tbl_upd_spec t oi f t' : tbl_upd t oi f = Some t' ->
  exists k, oi = Some k /\ t' = tset t k (f (tget t k)).
Proof. unfold tbl_upd. destruct oi as [k|]; [|discriminate]. intros H; inversion H. eauto. Qed.

Lemma tbl_upd_ok t k f : tbl_upd t (Some k) f = Some (tset t k (f (tget t k))).
Proof. reflexivity. Qed.

Lemma wt_row_cons u0 w r u : wt_row ((u0, w) :: r) u = (if Nat.eqb u0 u then w else 0) + wt_row r u.
Proof. reflexivity. Qed.

(* ============================================================ one pass *)
Section Pass.
Variables (g : graph) (ws : list Z) (n : nat) (mpg cap : Z).
Hypothesis Hwf : wf_graph g n.
Hypothesis Hsym : symmetric g.
Hypothesis Hnsl : no_self_loop g.
Hypothesis Hnn : nonneg_edges g.
Hypothesis Hsorted : rows_sorted g.
Hypothesis Hws : length ws = n.
Hypothesis Hwpos : Forall (fun w => 0 <= w) ws.
Hypothesis Hmpg0 : 0 <= mpg.
Hypothesis Hmpg : forall v, row_weight (rowof g v) <= mpg.

(* every bucket is labelled with the stored gain of its members *)
Definition bucket_inv (v2g : list (option Z)) (t : table) : Prop :=
  forall k u, In u (tget t k) -> nth_opt v2g u = Some (Some k).

Lemma upd_nbrs_inv p' init : forall r v2g t v2g' t',
  length v2g = n -> tsorted t -> bucket_inv v2g t ->
  upd_nbrs mpg p' init r v2g t = Some (v2g', t') ->
  length v2g' = n /\ tsorted t' /\ bucket_inv v2g' t'
  /\ (forall u, nth_opt v2g' u =
                match nth_opt v2g u with
                | Some (Some x) => Some (Some (x + (if (pfun p' u =? init)%N then 2 else -2) * wt_row r u))
                | o => o
                end).
Proof.
  induction r as [|[u0 w] r IH]; intros v2g t v2g' t' Lv Lt Hb H; cbn [upd_nbrs] in H.
  - inversion H; subst. repeat split; auto. intros u. destruct (nth_opt v2g' u) as [[x|]|]; auto.
    rewrite wt_row_nil. do 2 f_equal. lia.
  - destruct (nth_opt v2g u0) as [[old|]|] eqn:E0; [| |discriminate].
    + destruct (nth_opt p' u0) as [pu|] eqn:Ep; [|discriminate].
      set (new := if (pu =? init)%N then old + 2 * w else old - 2 * w) in *.
      destruct (tbl_upd t (tbl_idx mpg old) (fun b => bucket_remove b u0)) as [t1|] eqn:E1; [|discriminate].
      destruct (tbl_upd t1 (tbl_idx mpg new) (fun b => bucket_insert b u0)) as [t2|] eqn:E2; [|discriminate].
      apply tbl_upd_spec in E1. destruct E1 as [io [Eio Et1]].
      apply tbl_upd_spec in E2. destruct E2 as [inw [Einw Et2]].
      apply tbl_idx_spec in Eio. destruct Eio as [Eio _]. apply tbl_idx_spec in Einw. destruct Einw as [Einw _].
      assert (Lu0 : (u0 < length v2g)%nat) by (eapply nth_opt_Some; eauto).
      assert (Lt1 : tsorted t1) by (rewrite Et1; apply tset_sorted; exact Lt).
      assert (Hb2 : bucket_inv (set_nth v2g u0 (Some new)) t2).
      { intros i u Hin. rewrite Et2 in Hin. rewrite tget_tset in Hin.
        assert (Old : In u (tget t1 i) -> nth_opt (set_nth v2g u0 (Some new)) u = Some (Some i)).
        { intros Hin1. rewrite Et1 in Hin1. rewrite tget_tset in Hin1.
          destruct (Z.eqb_spec io i) as [->|Hne].
          - apply In_bucket_remove in Hin1. destruct Hin1 as [Hin1 Hne]. apply Hb in Hin1.
            rewrite nth_opt_set_nth_other by auto. exact Hin1.
          - pose proof (Hb _ _ Hin1) as Hg. destruct (Nat.eq_dec u u0) as [->|Hne2].
            + rewrite E0 in Hg. inversion Hg. lia.
            + rewrite nth_opt_set_nth_other by auto. exact Hg. }
        destruct (Z.eqb_spec inw i) as [->|Hne]; [|auto].
        apply In_bucket_insert in Hin. destruct Hin as [->|Hin]; [|auto].
        rewrite nth_opt_set_nth_same by exact Lu0. do 2 f_equal. lia. }
      assert (Lv2 : length (set_nth v2g u0 (Some new)) = n) by (rewrite set_nth_length; exact Lv).
      assert (Lt2 : tsorted t2) by (rewrite Et2; apply tset_sorted; exact Lt1).
      destruct (IH (set_nth v2g u0 (Some new)) t2 v2g' t' Lv2 Lt2 Hb2 H) as [L1 [L2 [B3 G]]].
      repeat split; auto. intros u. rewrite G, wt_row_cons.
      destruct (Nat.eqb_spec u0 u) as [->|Hne].
      * rewrite nth_opt_set_nth_same by exact Lu0. rewrite E0. do 2 f_equal.
        rewrite (pfun_nth_opt _ _ _ Ep). unfold new. destruct (pu =? init)%N; lia.
      * rewrite nth_opt_set_nth_other by exact Hne. destruct (nth_opt v2g u) as [[x|]|]; auto;
          try (do 2 f_equal; lia).
    + destruct (IH _ _ _ _ Lv Lt Hb H) as [L1 [L2 [B3 G]]]. repeat split; auto.
      intros u. rewrite G, wt_row_cons. destruct (Nat.eqb_spec u0 u) as [->|Hne].
      * now rewrite E0.
      * destruct (nth_opt v2g u) as [[x|]|]; auto; try (do 2 f_equal; lia).
Qed.

Variable p_in : list N.       (* the input of the algorithm (cap bound) *)
Variable pstart : list N.     (* the partition at the start of the pass *)
Variable best0 : Z.           (* best_edge_cut at the start of the pass *)
Hypothesis Hpstart : length pstart = n.

(* each part weighs at most the larger of its input weight and the cap *)
Definition capb (p : list N) : Prop :=
  forall q, (q <= 1)%N -> load ws p q <= Z.max (load ws p_in q) cap.

Definition rewind_to (st : fm_st) : nat := match s_bestmove st with Some m => S m | None => O end.

Record inv (st : fm_st) : Prop := {
  i_len : length (s_p st) = n;
  i_two : two_way (s_p st);
  i_v2g_len : length (s_v2g st) = n;
  i_sorted : tsorted (s_g2v st);
  i_gain : forall v gv, nth_opt (s_v2g st) v = Some (Some gv) -> gv = row_gain (pfun (s_p st)) v (rowof g v);
  i_bucket : bucket_inv (s_v2g st) (s_g2v st);
  i_cur : s_cur st = edge_cut g (s_p st);
  i_pw : s_pw st = (load ws (s_p st) 0, load ws (s_p st) 1);
  i_cap : capb (s_p st);
  i_locked : forall v i, In (v, i) (s_hist st) -> nth_opt (s_v2g st) v = Some None;
  i_nodup : NoDup (map fst (s_hist st));
  i_hpart : forall v i, In (v, i) (s_hist st) -> (i <= 1)%N /\ nth_opt (s_p st) v = Some (1 - i)%N;
  i_ham : (hamming pstart (s_p st) <= length (s_hist st))%nat;
  i_k : (rewind_to st <= length (s_hist st))%nat;
  i_best : s_best st = edge_cut g (undo (s_p st) (skipn (rewind_to st) (s_hist st)));
  i_bcap : capb (undo (s_p st) (skipn (rewind_to st) (s_hist st)));
  i_bham : (hamming pstart (undo (s_p st) (skipn (rewind_to st) (s_hist st))) <= rewind_to st)%nat;
  i_ble : s_best st <= best0
}.

Lemma In_skipn_in {A} (x : A) k l : In x (skipn k l) -> In x l.
Proof.
  revert l; induction k as [|k IH]; intros l H; [exact H|].
  destruct l as [|y t]; [exact H|]. right. apply IH. exact H.
Qed.

Lemma NoDup_snoc {A} (l : list A) a : NoDup l -> ~ In a l -> NoDup (l ++ [a]).
Proof.
  induction l as [|x t IH]; intros ND Na; cbn [app]; [constructor; [intros []|constructor]|].
  inversion ND as [|? ? Nx ND']; subst. cbn [In] in Na. constructor.
  - intros Hin. apply in_app_or in Hin. cbn [In] in Hin. intuition.
  - apply IH; tauto.
Qed.

(* what an accepted choice guarantees *)
Lemma choice_ok_facts st gn mint v gv : inv st ->
  choice_ok ws st mpg cap gn mint v gv = true ->
  nth_opt (s_v2g st) v = Some (Some gn)
  /\ exists w init, nth_opt ws v = Some w /\ nth_opt (s_p st) v = Some init /\ (init <= 1)%N
     /\ 0 <= w /\ pw_get (s_pw st) (1 - init)%N + w <= cap /\ (v < n)%nat.
Proof.
  intros I H. unfold choice_ok in H. apply andb_true_iff in H. destruct H as [H H3].
  apply andb_true_iff in H. destruct H as [_ H2]. split.
  - destruct (tbl_idx mpg gn) as [i|] eqn:Ei; [|discriminate].
    apply existsb_exists in H2. destruct H2 as [x [Hx E]]. apply Nat.eqb_eq in E. subst x.
    apply tbl_idx_spec in Ei. destruct Ei as [-> _].
    apply (i_bucket st I _ _ Hx).
  - unfold feas in H3. destruct (nth_opt ws v) as [w|] eqn:Ew; [|discriminate].
    destruct (nth_opt (s_p st) v) as [init|] eqn:Ep; [|discriminate].
    unfold other in H3. destruct (N.leb_spec init 1) as [L|L]; [|discriminate].
    destruct (Z.ltb_spec cap (pw_get (s_pw st) (1 - init) + w)) as [C|C]; [discriminate|].
    exists w, init. repeat split; auto.
    + rewrite Forall_forall in Hwpos. apply Hwpos. rewrite <- (nth_opt_nth _ _ 0 _ Ew). apply nth_In.
      eapply nth_opt_Some; eauto.
    + rewrite <- (i_len st I). eapply nth_opt_Some; eauto.
Qed.

Lemma rowof_nth_opt v r : nth_opt g v = Some r -> rowof g v = r.
Proof. intros H. unfold rowof. eapply nth_opt_nth; eauto. Qed.

Lemma pw_add_loads p v init w tgt : two_way p -> nth_opt p v = Some init -> nth_opt ws v = Some w ->
  (init <= 1)%N -> tgt = (1 - init)%N ->
  pw_add (pw_add (load ws p 0, load ws p 1) init (- w)) tgt w
  = (load ws (set_nth p v tgt) 0, load ws (set_nth p v tgt) 1).
Proof.
  intros H2 Hp Hw Hi ->. rewrite !(load_set_nth ws p v init (1 - init)%N w _ Hp Hw).
  unfold pw_add. cbn [fst snd].
  destruct (N.eqb_spec init 0), (N.eqb_spec (1 - init) 0), (N.eqb_spec init 1), (N.eqb_spec (1 - init) 1);
    cbn [fst snd]; try (exfalso; lia); f_equal; lia.
Qed.

(* one accepted move preserves the invariant *)
Lemma do_move_inv dbg st move_num v gn mint gv st' : inv st -> length (s_hist st) = move_num ->
  choice_ok ws st mpg cap gn mint v gv = true ->
  do_move dbg g ws mpg st move_num v gn = Ok st' ->
  inv st' /\ length (s_hist st') = S move_num /\ s_nbad st' = s_nbad st.
Proof.
  intros I Hmn Hc H. destruct (choice_ok_facts st gn mint v gv I Hc) as [Hvg [w [init [Ew [Ep [Li [Hw0 [Hfe Hvn]]]]]]]].
  unfold do_move in H. rewrite Ep, Ew in H.
  destruct (nth_opt g v) as [r|] eqn:Er; [|discriminate]. apply rowof_nth_opt in Er.
  unfold other in H. replace (init <=? 1)%N with true in H by (symmetry; apply N.leb_le; exact Li).
  set (tgt := (1 - init)%N) in *.
  destruct (tbl_upd (s_g2v st) (tbl_idx mpg gn) (fun b => bucket_remove b v)) as [t1|] eqn:E1; [|discriminate].
  set (p' := set_nth (s_p st) v tgt) in *.
  destruct (dbg && negb (s_cur st - gn =? edge_cut_sprs g p')); [discriminate|].
  destruct (upd_nbrs mpg p' init r (set_nth (s_v2g st) v None) t1) as [[v2g' t2]|] eqn:Eu; [|discriminate].
  inversion H; subst st'; clear H. cbn [s_hist s_nbad].
  split; [|split; [rewrite app_length; cbn [length]; lia|reflexivity]].
  pose proof (i_len st I) as Lp. pose proof (i_two st I) as T2.
  assert (Pv : pfun (s_p st) v = init) by (apply pfun_nth_opt; exact Ep).
  assert (Ltgt : (tgt <= 1)%N) by (unfold tgt; lia).
  apply tbl_upd_spec in E1. destruct E1 as [ig [Eig Et1]]. apply tbl_idx_spec in Eig. destruct Eig as [Eig _].
  (* tables after the loop *)
  assert (Hb1 : bucket_inv (set_nth (s_v2g st) v None) t1).
  { intros i u Hin. rewrite Et1 in Hin. rewrite tget_tset in Hin.
    destruct (Z.eqb_spec ig i) as [->|Hne].
    - apply In_bucket_remove in Hin. destruct Hin as [Hin Hne]. rewrite nth_opt_set_nth_other by auto.
      apply (i_bucket st I). exact Hin.
    - pose proof (i_bucket st I _ _ Hin) as Hg. destruct (Nat.eq_dec u v) as [->|Hne2].
      + rewrite Hvg in Hg. inversion Hg. lia.
      + rewrite nth_opt_set_nth_other by auto. exact Hg. }
  assert (Lv1 : length (set_nth (s_v2g st) v None) = n) by (rewrite set_nth_length; apply (i_v2g_len st I)).
  assert (Lt1 : tsorted t1) by (rewrite Et1; apply tset_sorted; apply (i_sorted st I)).
  destruct (upd_nbrs_inv p' init r (set_nth (s_v2g st) v None) t1 v2g' t2 Lv1 Lt1 Hb1 Eu) as [Lv' [Lt' [Hb' G]]].
  assert (Gv : nth_opt v2g' v = Some None).
  { rewrite G. rewrite nth_opt_set_nth_same by (rewrite (i_v2g_len st I); exact Hvn). reflexivity. }
  assert (Gu : forall u, u <> v -> nth_opt v2g' u =
            match nth_opt (s_v2g st) u with
            | Some (Some x) => Some (Some (x + (if (pfun p' u =? init)%N then 2 else -2) * wt_row r u))
            | o => o end).
  { intros u Hne. rewrite G. rewrite nth_opt_set_nth_other by auto. reflexivity. }
  assert (Hcut : s_cur st - gn = edge_cut g p').
  { unfold p', tgt. rewrite <- Pv. rewrite edge_cut_flip; try assumption; try (rewrite Lp; assumption).
    rewrite (i_cur st I). f_equal. apply (i_gain st I). exact Hvg. }
  assert (Hcap' : capb p').
  { intros q Hq. unfold p'. rewrite (load_set_nth ws _ v init tgt w q Ep Ew).
    pose proof (i_cap st I q Hq) as Cq. pose proof (i_cap st I tgt Ltgt) as Ct.
    rewrite (i_pw st I) in Hfe. fold tgt in Hfe.
    unfold pw_get in Hfe. cbn [fst snd] in Hfe.
    destruct (N.eqb_spec init q) as [E1|N1]; destruct (N.eqb_spec tgt q) as [E2|N2].
    - unfold tgt in E2. lia.
    - lia.
    - subst q. destruct (N.eqb_spec tgt 0) as [E0|E0].
      + rewrite E0 in *. lia.
      + assert (E1 : tgt = 1%N) by lia. rewrite E1 in *. lia.
    - lia. }
  assert (Hnin : ~ In v (map fst (s_hist st))).
  { intros Hin. apply in_map_iff in Hin. destruct Hin as [[u i] [Eq Hin]]. cbn [fst] in Eq. subst u.
    rewrite (i_locked st I _ _ Hin) in Hvg. discriminate. }
  assert (Hham' : (hamming pstart p' <= length (s_hist st ++ [(v, init)]))%nat).
  { rewrite app_length. cbn [length]. pose proof (hamming_set_nth pstart (s_p st) v tgt). pose proof (i_ham st I). unfold p'. lia. }
  constructor; cbn [s_p s_pw s_v2g s_g2v s_cur s_best s_bestmove s_hist].
  - unfold p'. rewrite set_nth_length. exact Lp.
  - apply two_way_set_nth; assumption.
  - exact Lv'.
  - exact Lt'.
  - (* gains *)
    intros u gu Hu. destruct (Nat.eq_dec u v) as [->|Hne]; [rewrite Gv in Hu; discriminate|].
    rewrite (Gu u Hne) in Hu. destruct (nth_opt (s_v2g st) u) as [[x|]|] eqn:Ex; try discriminate.
    inversion Hu; subst gu; clear Hu. pose proof (i_gain st I _ _ Ex) as Hx.
    rewrite (row_gain_ext (pfun p') (upd (pfun (s_p st)) v tgt) u)
      by (intros y; apply pfun_set_nth; rewrite Lp; exact Hvn).
    rewrite (row_gain_upd g n _ v tgt u Hwf Hvn Hne). rewrite <- Hx. f_equal.
    assert (Pu : pfun p' u = pfun (s_p st) u).
    { unfold p'. rewrite pfun_set_nth by (rewrite Lp; exact Hvn). apply upd_other. exact Hne. }
    rewrite Pu, Pv. rewrite <- Er. fold (wt g v u). rewrite (Hsym v u).
    pose proof (two_way_pfun (s_p st) u T2) as Lu.
    destruct (N.eqb_spec (pfun (s_p st) u) init) as [E|E].
    + rewrite E. rewrite N.eqb_refl. destruct (N.eqb_spec tgt init) as [E2|E2]; [unfold tgt in E2; lia|]. lia.
    + destruct (N.eqb_spec tgt (pfun (s_p st) u)) as [E2|E2]; [|unfold tgt in E2; lia].
      destruct (N.eqb_spec init (pfun (s_p st) u)) as [E3|E3]; [congruence|]. lia.
  - exact Hb'.
  - exact Hcut.
  - rewrite (i_pw st I). unfold p'. apply pw_add_loads; auto.
  - exact Hcap'.
  - (* locked *)
    intros u i Hin. apply in_app_or in Hin. destruct Hin as [Hin|[Hin|[]]].
    + destruct (Nat.eq_dec u v) as [->|Hne]; [exact Gv|]. rewrite (Gu u Hne).
      now rewrite (i_locked st I _ _ Hin).
    + inversion Hin; subst. exact Gv.
  - rewrite map_app. cbn [map fst]. apply NoDup_snoc; [apply (i_nodup st I)|exact Hnin].
  - (* recorded initial parts *)
    intros u i Hin. apply in_app_or in Hin. destruct Hin as [Hin|[Hin|[]]].
    + destruct (i_hpart st I _ _ Hin) as [Hi Hp]. split; [exact Hi|].
      unfold p'. rewrite nth_opt_set_nth_other; [exact Hp|].
      intros <-. apply Hnin. apply in_map_iff. exists (v, i). auto.
    + inversion Hin; subst. split; [exact Li|]. unfold p'. apply nth_opt_set_nth_same. rewrite Lp. exact Hvn.
  - exact Hham'.
  - (* k <= length *)
    unfold rewind_to. cbn [s_bestmove]. rewrite app_length. cbn [length].
    destruct (s_cur st - gn <? s_best st); [lia|]. pose proof (i_k st I) as K. unfold rewind_to in K. lia.
  - (* best *)
    unfold rewind_to. cbn [s_bestmove]. destruct (Z.ltb_spec (s_cur st - gn) (s_best st)) as [B|B].
    + replace (S move_num) with (length (s_hist st ++ [(v, init)])) by (rewrite app_length; cbn [length]; lia).
      rewrite skipn_all. cbn [undo]. exact Hcut.
    + fold (rewind_to st). pose proof (i_k st I) as K.
      rewrite skipn_app. replace (rewind_to st - length (s_hist st))%nat with O by lia. cbn [skipn].
      rewrite undo_app. cbn [undo]. unfold p'.
      assert (Hn2 : ~ In v (map fst (skipn (rewind_to st) (s_hist st)))).
      { intros Hin. apply Hnin. apply in_map_iff in Hin. destruct Hin as [x [Ex Hin]].
        apply in_map_iff. exists x. split; [exact Ex|]. eapply In_skipn_in; eauto. }
      rewrite undo_set_comm by exact Hn2. rewrite set_nth_set_nth_same.
      rewrite set_nth_same_id by (rewrite undo_nth_notin by exact Hn2; exact Ep).
      apply (i_best st I).
  - (* cap of the best prefix *)
    unfold rewind_to. cbn [s_bestmove]. destruct (Z.ltb_spec (s_cur st - gn) (s_best st)) as [B|B].
    + replace (S move_num) with (length (s_hist st ++ [(v, init)])) by (rewrite app_length; cbn [length]; lia).
      rewrite skipn_all. cbn [undo]. exact Hcap'.
    + fold (rewind_to st). pose proof (i_k st I) as K.
      rewrite skipn_app. replace (rewind_to st - length (s_hist st))%nat with O by lia. cbn [skipn].
      rewrite undo_app. cbn [undo]. unfold p'.
      assert (Hn2 : ~ In v (map fst (skipn (rewind_to st) (s_hist st)))).
      { intros Hin. apply Hnin. apply in_map_iff in Hin. destruct Hin as [x [Ex Hin]].
        apply in_map_iff. exists x. split; [exact Ex|]. eapply In_skipn_in; eauto. }
      rewrite undo_set_comm by exact Hn2. rewrite set_nth_set_nth_same.
      rewrite set_nth_same_id by (rewrite undo_nth_notin by exact Hn2; exact Ep).
      apply (i_bcap st I).
  - (* hamming of the best prefix *)
    unfold rewind_to. cbn [s_bestmove]. destruct (Z.ltb_spec (s_cur st - gn) (s_best st)) as [B|B].
    + replace (S move_num) with (length (s_hist st ++ [(v, init)])) at 1 by (rewrite app_length; cbn [length]; lia).
      rewrite skipn_all. cbn [undo]. rewrite app_length in Hham'. cbn [length] in Hham'. lia.
    + fold (rewind_to st). pose proof (i_k st I) as K.
      rewrite skipn_app. replace (rewind_to st - length (s_hist st))%nat with O by lia. cbn [skipn].
      rewrite undo_app. cbn [undo]. unfold p'.
      assert (Hn2 : ~ In v (map fst (skipn (rewind_to st) (s_hist st)))).
      { intros Hin. apply Hnin. apply in_map_iff in Hin. destruct Hin as [x [Ex Hin]].
        apply in_map_iff. exists x. split; [exact Ex|]. eapply In_skipn_in; eauto. }
      rewrite undo_set_comm by exact Hn2. rewrite set_nth_set_nth_same.
      rewrite set_nth_same_id by (rewrite undo_nth_notin by exact Hn2; exact Ep).
      apply (i_bham st I).
  - pose proof (i_ble st I). destruct (Z.ltb_spec (s_cur st - gn) (s_best st)); lia.
Qed.

Lemma inv_set_nbad st x : inv st ->
  inv {| s_p := s_p st; s_pw := s_pw st; s_v2g := s_v2g st; s_g2v := s_g2v st; s_cur := s_cur st;
         s_best := s_best st; s_bestmove := s_bestmove st; s_nbad := x; s_hist := s_hist st |}.
Proof. intros I. destruct I. constructor; assumption. Qed.

(* the move loop preserves the invariant, whatever the oracle says *)
Lemma fm_moves_inv cfg : forall fuel move_num st orc st',
  inv st -> length (s_hist st) = move_num ->
  (forall m, fm_max_moves cfg = Some m -> (N.of_nat move_num <= m)%N) ->
  fm_moves cfg g ws mpg cap fuel move_num st orc = Ok (MvOk st') ->
  inv st' /\ (forall m, fm_max_moves cfg = Some m -> (N.of_nat (length (s_hist st')) <= m)%N).
Proof.
  induction fuel as [|f IH]; intros move_num st orc st' I Hmn Hmax H; cbn [fm_moves] in H; [discriminate|].
  assert (Stop : Ok (match orc with [] => MvOk st | _ :: _ => MvBad 3 end) = Ok (MvOk st') ->
                 inv st' /\ (forall m, fm_max_moves cfg = Some m -> (N.of_nat (length (s_hist st')) <= m)%N)).
  { intros E. destruct orc; inversion E as [E']; subst st'. split; [exact I|]. rewrite Hmn. exact Hmax. }
  destruct (match fm_max_moves cfg with Some m => (m <=? N.of_nat move_num)%N | None => false end) eqn:Elim; [auto|].
  destruct (find_top ws (s_p st) (s_pw st) cap (buckets_desc mpg (s_g2v st))) as [[[gn mint]|]|]; [|auto|discriminate].
  destruct ((gn <=? 0) && (fm_max_bad cfg <=? s_nbad st)%N); [auto|].
  destruct orc as [|[v gv] orc']; [discriminate|].
  destruct (choice_ok ws st mpg cap gn mint v gv) eqn:Hc; [|discriminate].
  match type of H with context [do_move _ _ _ _ ?s _ _ _] => set (st1 := s) in * end.
  destruct (do_move (fm_dbg cfg) g ws mpg st1 move_num v gn) as [st2| | |] eqn:Ed; try discriminate.
  assert (I1 : inv st1) by (apply inv_set_nbad; exact I).
  assert (Hc1 : choice_ok ws st1 mpg cap gn mint v gv = true) by exact Hc.
  destruct (do_move_inv _ st1 move_num v gn mint gv st2 I1 Hmn Hc1 Ed) as [I2 [L2 _]].
  eapply IH; [exact I2|exact L2| |exact H].
  intros m Hm. rewrite Hm in Elim. apply N.leb_gt in Elim. lia.
Qed.

Lemma pw_add_loads_back p v init w : nth_opt p v = Some (1 - init)%N -> nth_opt ws v = Some w ->
  (init <= 1)%N ->
  pw_add (pw_add (load ws p 0, load ws p 1) init w) (1 - init)%N (- w)
  = (load ws (set_nth p v init) 0, load ws (set_nth p v init) 1).
Proof.
  intros Hp Hw Hi. rewrite !(load_set_nth ws p v (1 - init)%N init w _ Hp Hw).
  unfold pw_add. cbn [fst snd].
  destruct (N.eqb_spec init 0), (N.eqb_spec (1 - init) 0), (N.eqb_spec init 1), (N.eqb_spec (1 - init) 1);
    cbn [fst snd]; try (exfalso; lia); f_equal; lia.
Qed.

(* `move_history.drain(rewind_to..)` restores partition and part weights of the kept prefix *)
Lemma rewind_spec : forall h p, length p = n -> NoDup (map fst h) ->
  (forall v i, In (v, i) h -> (i <= 1)%N /\ nth_opt p v = Some (1 - i)%N) ->
  rewind ws p (load ws p 0, load ws p 1) h
  = Some (undo p h, (load ws (undo p h) 0, load ws (undo p h) 1)).
Proof.
  induction h as [|[v i] h IH]; intros p Lp ND Hh; cbn [rewind undo]; [reflexivity|].
  destruct (Hh v i (or_introl eq_refl)) as [Li Hp].
  assert (Lv : (v < n)%nat) by (rewrite <- Lp; eapply nth_opt_Some; eauto).
  destruct (nth_opt_lt ws v ltac:(lia)) as [w Ew]. rewrite Ew.
  unfold other. replace (i <=? 1)%N with true by (symmetry; apply N.leb_le; exact Li).
  replace (Nat.ltb v (length p)) with true by (symmetry; apply Nat.ltb_lt; lia).
  rewrite (pw_add_loads_back p v i w Hp Ew Li).
  cbn [map fst] in ND. inversion ND as [|? ? Nv ND']; subst.
  apply IH; [now rewrite set_nth_length|exact ND'|].
  intros u j Hin. destruct (Hh u j (or_intror Hin)) as [Lj Hu]. split; [exact Lj|].
  rewrite nth_opt_set_nth_other; [exact Hu|]. intros <-. apply Nv. apply in_map_iff. exists (v, j). auto.
Qed.

Lemma two_way_undo h : forall p, two_way p -> (forall v i, In (v, i) h -> (i <= 1)%N) -> two_way (undo p h).
Proof.
  induction h as [|[v i] h IH]; intros p T Hh; cbn [undo]; [exact T|].
  apply IH; [apply two_way_set_nth; [exact T|apply (Hh v i); left; reflexivity]|].
  intros u j Hin. apply (Hh u j). right. exact Hin.
Qed.

(* what a pass leaves: the state after the rewind *)
Lemma pass_end st : inv st ->
  let k := rewind_to st in
  let pe := undo (s_p st) (skipn k (s_hist st)) in
  rewind ws (s_p st) (s_pw st) (skipn k (s_hist st)) = Some (pe, (load ws pe 0, load ws pe 1))
  /\ length pe = n /\ two_way pe /\ s_best st = edge_cut g pe /\ capb pe
  /\ (hamming pstart pe <= k)%nat /\ (k <= length (s_hist st))%nat /\ s_best st <= best0.
Proof.
  intros I k pe. pose proof (i_nodup st I) as ND.
  assert (ND2 : NoDup (map fst (skipn k (s_hist st)))).
  { rewrite <- (firstn_skipn k (s_hist st)) in ND. rewrite map_app in ND.
    clear -ND. induction (map fst (firstn k (s_hist st))) as [|x t IH]; cbn [app] in ND; [exact ND|].
    inversion ND; subst. auto. }
  assert (Hh : forall v i, In (v, i) (skipn k (s_hist st)) -> (i <= 1)%N /\ nth_opt (s_p st) v = Some (1 - i)%N).
  { intros v i Hin. apply (i_hpart st I). eapply In_skipn_in; eauto. }
  split; [|split; [|split; [|split; [|split; [|split; [|split]]]]]].
  - rewrite (i_pw st I). apply rewind_spec; [apply (i_len st I)|exact ND2|exact Hh].
  - unfold pe. rewrite undo_length. apply (i_len st I).
  - unfold pe. apply two_way_undo; [apply (i_two st I)|]. intros v i Hin. apply (Hh v i Hin).
  - apply (i_best st I).
  - apply (i_bcap st I).
  - apply (i_bham st I).
  - apply (i_k st I).
  - apply (i_ble st I).
Qed.

(* the tables built at the start of a pass *)
Lemma init_tables_spec p : length p = n -> forall pv g1 p1 rows t v2g t',
  g = g1 ++ rows -> p = p1 ++ pv -> length g1 = length p1 -> tsorted t ->
  (forall k u, In u (tget t k) -> (u < length p1)%nat /\ row_gain (pfun p) u (rowof g u) = k) ->
  init_tables p mpg (length p1) rows pv t = Some (v2g, t') ->
  length v2g = length pv /\ tsorted t'
  /\ (forall j, (j < length pv)%nat ->
        nth_opt v2g j = Some (Some (row_gain (pfun p) (length p1 + j) (rowof g (length p1 + j)))))
  /\ (forall k u, In u (tget t' k) -> (u < n)%nat /\ row_gain (pfun p) u (rowof g u) = k).
Proof.
  intros Lp. induction pv as [|x pv IH]; intros g1 p1 rows t v2g t' Eg Epp Ll Lt Ht H; cbn [init_tables] in H.
  - inversion H; subst. split; [reflexivity|]. split; [exact Lt|]. split.
    + intros j Hj. cbn in Hj. lia.
    + intros i u Hin. apply Ht in Hin. destruct Hin as [Hu Hg]. split; [|exact Hg].
      rewrite <- Lp, app_length. lia.
  - destruct rows as [|r rows]; [discriminate|].
    assert (Er : rowof g (length p1) = r).
    { unfold rowof. rewrite Eg, app_nth2 by lia. rewrite Ll, Nat.sub_diag. reflexivity. }
    assert (Ex : pfun p (length p1) = x).
    { unfold pfun. rewrite Epp, app_nth2 by lia. rewrite Nat.sub_diag. reflexivity. }
    rewrite <- Ex in H.
    destruct (row_gain_chk p (pfun p (length p1)) r) as [gn|] eqn:Eg0; [|discriminate].
    apply row_gain_chk_some in Eg0. rewrite <- Er in Eg0.
    destruct (tbl_upd t (tbl_idx mpg gn) (fun b => bucket_insert b (length p1))) as [t1|] eqn:E1; [|discriminate].
    apply tbl_upd_spec in E1. destruct E1 as [ig [Eig Et1]]. apply tbl_idx_spec in Eig. destruct Eig as [Eig _].
    destruct (init_tables p mpg (S (length p1)) rows pv t1) as [[l t2]|] eqn:Ei; [|discriminate].
    inversion H; subst v2g t'; clear H.
    replace (S (length p1)) with (length (p1 ++ [x])) in Ei by (rewrite app_length; cbn [length]; lia).
    assert (Ht1 : forall k u, In u (tget t1 k) ->
              (u < length (p1 ++ [x]))%nat /\ row_gain (pfun p) u (rowof g u) = k).
    { intros i u Hin. rewrite app_length. cbn [length]. rewrite Et1 in Hin. rewrite tget_tset in Hin.
      destruct (Z.eqb_spec ig i) as [->|Hne].
      - apply In_bucket_insert in Hin. destruct Hin as [->|Hin].
        + split; [lia|]. rewrite <- Eg0. lia.
        + apply Ht in Hin. destruct Hin; split; [lia|assumption].
      - apply Ht in Hin. destruct Hin; split; [lia|assumption]. }
    assert (St1 : tsorted t1) by (rewrite Et1; apply tset_sorted; exact Lt).
    destruct (IH (g1 ++ [r]) (p1 ++ [x]) rows t1 l t2
                ltac:(rewrite <- app_assoc; exact Eg) ltac:(rewrite <- app_assoc; exact Epp)
                ltac:(rewrite !app_length; cbn [length]; lia)
                St1 Ht1 Ei) as [L1 [L2 [G B]]].
    split; [cbn [length]; lia|]. split; [exact L2|]. split; [|exact B].
    intros j Hj. destruct j as [|j]; cbn [nth_opt].
    + rewrite Nat.add_0_r. now rewrite Eg0.
    + cbn [length] in Hj. rewrite (G j ltac:(lia)). rewrite app_length. cbn [length].
      replace (length p1 + 1 + j)%nat with (length p1 + S j)%nat by lia. reflexivity.
Qed.

(* the state a pass starts from satisfies the invariant *)
Lemma pass_start p v2g t : length p = n -> two_way p -> capb p -> p = pstart -> best0 = edge_cut g p ->
  init_tables p mpg 0 g p [] = Some (v2g, t) ->
  inv {| s_p := p; s_pw := (load ws p 0, load ws p 1); s_v2g := v2g; s_g2v := t; s_cur := best0; s_best := best0;
         s_bestmove := None; s_nbad := 0%N; s_hist := [] |}.
Proof.
  intros Lp T2 C Eps Eb H.
  destruct (init_tables_spec p Lp p [] [] g [] v2g t eq_refl eq_refl eq_refl I
              ltac:(intros i u Hin; destruct Hin) H) as [L1 [L2 [G B]]].
  cbn [length Nat.add] in G.
  constructor; cbn [s_p s_pw s_v2g s_g2v s_cur s_best s_bestmove s_hist rewind_to skipn undo length]; auto.
  - lia.
  - intros v gv Hv. assert (Lv : (v < length p)%nat) by (rewrite <- L1; eapply nth_opt_Some; eauto).
    rewrite (G v Lv) in Hv. inversion Hv. reflexivity.
  - intros i u Hin. apply B in Hin. destruct Hin as [Lu Hg]. rewrite (G u ltac:(lia)). do 2 f_equal. exact Hg.
  - intros v i [].
  - constructor.
  - intros v i [].
  - subst pstart. rewrite hamming_refl. lia.
  - subst pstart. rewrite hamming_refl. lia.
  - lia.
Qed.

End Pass.

(* ============================================================ the pass loop *)
Section Run.
Variables (cfg : fm_cfg) (g : graph) (ws : list Z) (n : nat) (mpg cap : Z) (p_in : list N).
Hypothesis Hwf : wf_graph g n.
Hypothesis Hsym : symmetric g.
Hypothesis Hnsl : no_self_loop g.
Hypothesis Hnn : nonneg_edges g.
Hypothesis Hsorted : rows_sorted g.
Hypothesis Hws : length ws = n.
Hypothesis Hwpos : Forall (fun w => 0 <= w) ws.
Hypothesis Hmpg0 : 0 <= mpg.
Hypothesis Hmpg : forall v, row_weight (rowof g v) <= mpg.
Hypothesis Hpin : length p_in = n.

Record pinv (p : list N) (pw : Z * Z) (best : Z) (mpp rpp : list N) (pass : N) : Prop := {
  q_len : length p = n;
  q_two : two_way p;
  q_pw : pw = (load ws p 0, load ws p 1);
  q_best : best = edge_cut g p;
  q_cap : capb ws cap p_in p;
  q_le : best <= edge_cut g p_in;
  q_len2 : length rpp = length mpp;
  q_pass : N.of_nat (length mpp) = pass;
  q_mp : forall m, fm_max_passes cfg = Some m -> (pass <= m)%N;
  q_mm : forall m, fm_max_moves cfg = Some m -> Forall (fun x => (x <= m)%N) mpp;
  q_rm : Forall2 (fun r m => (r <= m)%N) rpp mpp;
  q_ham : (N.of_nat (hamming p_in p) + sumN rpp <= sumN mpp)%N
}.

Lemma Forall2_snoc {A B} (R : A -> B -> Prop) l1 l2 a b : Forall2 R l1 l2 -> R a b -> Forall2 R (l1 ++ [a]) (l2 ++ [b]).
Proof. intros H Hab. apply Forall2_app; [exact H|constructor; [exact Hab|constructor]]. Qed.

(* one pass: from the loop invariant to the loop invariant *)
Lemma pass_step p pw best mpp rpp pass v2g t moves st p' pw' :
  pinv p pw best mpp rpp pass ->
  match fm_max_passes cfg with Some m => (m <=? pass)%N | None => false end = false ->
  init_tables p mpg 0 g p [] = Some (v2g, t) ->
  fm_moves cfg g ws mpg cap (S (length p)) 0
    {| s_p := p; s_pw := pw; s_v2g := v2g; s_g2v := t; s_cur := best; s_best := best;
       s_bestmove := None; s_nbad := 0%N; s_hist := [] |} moves = Ok (MvOk st) ->
  rewind ws (s_p st) (s_pw st)
    (skipn (match s_bestmove st with Some m => S m | None => O end) (s_hist st)) = Some (p', pw') ->
  pinv p' pw' (s_best st)
       (mpp ++ [N.of_nat (length (s_hist st))])
       (rpp ++ [N.of_nat (length (s_hist st) - match s_bestmove st with Some m => S m | None => O end)])
       (pass + 1)%N
  /\ s_best st <= best.
Proof.
  intros Q Hlim Hi Hm Hr.
  pose proof (q_len _ _ _ _ _ _ Q) as Lp.
  assert (I0 : inv g ws n cap p_in p best
                 {| s_p := p; s_pw := pw; s_v2g := v2g; s_g2v := t; s_cur := best; s_best := best;
                    s_bestmove := None; s_nbad := 0%N; s_hist := [] |}).
  { rewrite (q_pw _ _ _ _ _ _ Q).
    apply (pass_start g ws n mpg cap Hwf Hsym Hnsl Hnn Hsorted Hws Hmpg p_in p best Lp p v2g t Lp
             (q_two _ _ _ _ _ _ Q) (q_cap _ _ _ _ _ _ Q) eq_refl (q_best _ _ _ _ _ _ Q) Hi). }
  assert (Hm0 : forall m : N, fm_max_moves cfg = Some m -> (N.of_nat 0 <= m)%N) by (intros m _; lia).
  destruct (fm_moves_inv g ws n mpg cap Hwf Hsym Hnsl Hws Hwpos p_in p best Lp cfg _ 0%nat _ _ st I0 eq_refl Hm0 Hm)
    as [I Hmm].
  destruct (pass_end g ws n cap Hwf Hws p_in p best Lp st I) as [Er [Lpe [Tpe [Ebest [Cpe [Hham [Hk Hble]]]]]]].
  fold (rewind_to st) in Hr. rewrite Er in Hr. inversion Hr; subst p' pw'; clear Hr.
  fold (rewind_to st).
  set (pe := undo (s_p st) (skipn (rewind_to st) (s_hist st))) in *.
  split; [|exact Hble].
  constructor; auto.
  - pose proof (q_le _ _ _ _ _ _ Q). lia.
  - rewrite !app_length. cbn [length]. pose proof (q_len2 _ _ _ _ _ _ Q). lia.
  - rewrite app_length. cbn [length]. pose proof (q_pass _ _ _ _ _ _ Q). lia.
  - intros m Hm'. rewrite Hm' in Hlim. apply N.leb_gt in Hlim. lia.
  - intros m Hm'. apply Forall_app. split; [apply (q_mm _ _ _ _ _ _ Q); exact Hm'|].
    constructor; [apply Hmm; exact Hm'|constructor].
  - apply Forall2_snoc; [apply (q_rm _ _ _ _ _ _ Q)|]. lia.
  - rewrite !sumN_app. cbn [sumN]. pose proof (q_ham _ _ _ _ _ _ Q).
    pose proof (hamming_triangle p_in p pe ltac:(lia) ltac:(lia)). lia.
Qed.

Lemma fm_passes_sound : forall fuel pass p pw best mpp rpp orc p' mpp' rpp',
  pinv p pw best mpp rpp pass ->
  fm_passes cfg g ws mpg cap fuel pass p pw best mpp rpp orc = Ok (FmOk p' mpp' rpp') ->
  exists pw' best' pass', pinv p' pw' best' mpp' rpp' pass'.
Proof.
  induction fuel as [|f IH]; intros pass p pw best mpp rpp orc p' mpp' rpp' Q H; cbn [fm_passes] in H; [discriminate|].
  destruct (match fm_max_passes cfg with Some m => (m <=? pass)%N | None => false end) eqn:Hlim.
  { destruct orc; inversion H; subst. eauto. }
  destruct orc as [|[rc moves] orc']; [discriminate|].
  destruct (negb (rc =? best)); [discriminate|].
  destruct (init_tables p mpg 0 g p []) as [[v2g t]|] eqn:Hi; [|discriminate].
  destruct (fm_moves cfg g ws mpg cap (S (length p)) 0 _ moves) as [[st|c]| | |] eqn:Hm; try discriminate.
  destruct (rewind ws (s_p st) (s_pw st) _) as [[pe pwe]|] eqn:Hr; [|discriminate].
  destruct (pass_step _ _ _ _ _ _ _ _ _ _ _ _ Q Hlim Hi Hm Hr) as [Q' _].
  destruct (best <=? s_best st).
  - destruct orc'; inversion H; subst. eauto.
  - eapply IH; eauto.
Qed.

(* ---- the debug assertion `current_edge_cut == edge_cut(partition)` never fires ---- *)

Lemma do_move_no6 pstart best0 dbg st move_num v gn mint gv : length pstart = n ->
  inv g ws n cap p_in pstart best0 st ->
  choice_ok ws st mpg cap gn mint v gv = true ->
  do_move dbg g ws mpg st move_num v gn <> Panic 6.
Proof.
  intros Lps I Hc.
  destruct (choice_ok_facts g ws n mpg cap Hwpos p_in pstart best0 st gn mint v gv I Hc)
    as [Hvg [w [init [Ew [Ep [Li [Hw0 [Hfe Hvn]]]]]]]].
  unfold do_move. rewrite Ep, Ew.
  destruct (nth_opt g v) as [r|] eqn:Er; [|discriminate].
  unfold other. replace (init <=? 1)%N with true by (symmetry; apply N.leb_le; exact Li).
  destruct (tbl_upd (s_g2v st) (tbl_idx mpg gn) (fun b => bucket_remove b v)) as [t1|]; [|discriminate].
  assert (Hcut : s_cur st - gn = edge_cut_sprs g (set_nth (s_p st) v (1 - init)%N)).
  { rewrite edge_cut_sprs_eq by exact Hsorted.
    pose proof (i_len _ _ _ _ _ _ _ _ I) as Lp.
    assert (Pv : pfun (s_p st) v = init) by (apply pfun_nth_opt; exact Ep).
    rewrite <- Pv. rewrite edge_cut_flip; try assumption; try (rewrite Lp; assumption).
    - rewrite (i_cur _ _ _ _ _ _ _ _ I). f_equal. apply (i_gain _ _ _ _ _ _ _ _ I). exact Hvg.
    - apply (i_two _ _ _ _ _ _ _ _ I). }
  rewrite Hcut, Z.eqb_refl, andb_false_r.
  destruct (upd_nbrs _ _ _ _ _ _) as [[? ?]|]; discriminate.
Qed.

Lemma fm_moves_no6 pstart best0 : length pstart = n -> forall fuel move_num st orc,
  inv g ws n cap p_in pstart best0 st -> length (s_hist st) = move_num ->
  fm_moves cfg g ws mpg cap fuel move_num st orc <> Panic 6.
Proof.
  intros Lps. induction fuel as [|f IH]; intros move_num st orc I Hmn; cbn [fm_moves]; [discriminate|].
  destruct (match fm_max_moves cfg with Some m => (m <=? N.of_nat move_num)%N | None => false end); [discriminate|].
  destruct (find_top ws (s_p st) (s_pw st) cap (buckets_desc mpg (s_g2v st))) as [[[gn mint]|]|]; try discriminate.
  destruct ((gn <=? 0) && (fm_max_bad cfg <=? s_nbad st)%N); [discriminate|].
  destruct orc as [|[v gv] orc']; [discriminate|].
  destruct (choice_ok ws st mpg cap gn mint v gv) eqn:Hc; [|discriminate].
  match goal with |- context [do_move _ _ _ _ ?s _ _ _] => set (st1 := s) in * end.
  assert (I1 : inv g ws n cap p_in pstart best0 st1) by (apply inv_set_nbad; exact I).
  assert (Hc1 : choice_ok ws st1 mpg cap gn mint v gv = true) by exact Hc.
  destruct (do_move (fm_dbg cfg) g ws mpg st1 move_num v gn) as [st2|e|s|] eqn:Ed; try discriminate.
  - destruct (do_move_inv g ws n mpg cap Hwf Hsym Hnsl Hws Hwpos p_in pstart best0 Lps _ st1 move_num v gn mint gv st2
                I1 Hmn Hc1 Ed) as [I2 [L2 _]].
    apply IH; assumption.
  - intros E. inversion E; subst s. revert Ed. apply (do_move_no6 pstart best0 _ st1 move_num v gn mint gv Lps I1 Hc1).
Qed.

Lemma fm_passes_no6 : forall fuel pass p pw best mpp rpp orc,
  pinv p pw best mpp rpp pass ->
  fm_passes cfg g ws mpg cap fuel pass p pw best mpp rpp orc <> Panic 6.
Proof.
  induction fuel as [|f IH]; intros pass p pw best mpp rpp orc Q; cbn [fm_passes]; [discriminate|].
  destruct (match fm_max_passes cfg with Some m => (m <=? pass)%N | None => false end) eqn:Hlim; [discriminate|].
  destruct orc as [|[rc moves] orc']; [discriminate|].
  destruct (negb (rc =? best)); [discriminate|].
  destruct (init_tables p mpg 0 g p []) as [[v2g t]|] eqn:Hi; [|discriminate].
  pose proof (q_len _ _ _ _ _ _ Q) as Lp.
  destruct (fm_moves cfg g ws mpg cap (S (length p)) 0 _ moves) as [[st|c]| |s|] eqn:Hm; try discriminate.
  - destruct (rewind ws (s_p st) (s_pw st) _) as [[pe pwe]|] eqn:Hr; [|discriminate].
    destruct (pass_step _ _ _ _ _ _ _ _ _ _ _ _ Q Hlim Hi Hm Hr) as [Q' _].
    destruct (best <=? s_best st); [discriminate|]. apply IH. exact Q'.
  - intros E. inversion E; subst s. revert Hm. apply (fm_moves_no6 p best Lp); [|reflexivity].
    rewrite (q_pw _ _ _ _ _ _ Q).
    apply (pass_start g ws n mpg cap Hwf Hsym Hnsl Hnn Hsorted Hws Hmpg p_in p best Lp p v2g t Lp
             (q_two _ _ _ _ _ _ Q) (q_cap _ _ _ _ _ _ Q) eq_refl (q_best _ _ _ _ _ _ Q) Hi).
Qed.

(* ------------------------------------------------------------ termination *)

(* a pass moves every vertex at most once *)
Lemma hist_short pstart best0 st : inv g ws n cap p_in pstart best0 st -> (length (s_hist st) <= n)%nat.
Proof.
  intros I. rewrite <- (map_length fst). rewrite <- (seq_length n 0).
  apply NoDup_incl_length; [apply (i_nodup _ _ _ _ _ _ _ _ I)|].
  intros v Hin. apply in_map_iff in Hin. destruct Hin as [[u i] [E Hin]]. cbn [fst] in E. subst u.
  apply in_seq. destruct (i_hpart _ _ _ _ _ _ _ _ I _ _ Hin) as [_ Hp].
  apply nth_opt_Some in Hp. rewrite (i_len _ _ _ _ _ _ _ _ I) in Hp. lia.
Qed.

Lemma fm_moves_terminates pstart best0 : length pstart = n -> forall fuel move_num st orc,
  inv g ws n cap p_in pstart best0 st -> length (s_hist st) = move_num ->
  (n < fuel + move_num)%nat ->
  fm_moves cfg g ws mpg cap fuel move_num st orc <> OutOfFuel.
Proof.
  intros Lps. induction fuel as [|f IH]; intros move_num st orc I Hmn Hf; cbn [fm_moves].
  - pose proof (hist_short _ _ _ I). lia.
  - destruct (match fm_max_moves cfg with Some m => (m <=? N.of_nat move_num)%N | None => false end); [discriminate|].
    destruct (find_top ws (s_p st) (s_pw st) cap (buckets_desc mpg (s_g2v st))) as [[[gn mint]|]|]; try discriminate.
    destruct ((gn <=? 0) && (fm_max_bad cfg <=? s_nbad st)%N); [discriminate|].
    destruct orc as [|[v gv] orc']; [discriminate|].
    destruct (choice_ok ws st mpg cap gn mint v gv) eqn:Hc; [|discriminate].
    match goal with |- context [do_move _ _ _ _ ?s _ _ _] => set (st1 := s) in * end.
    assert (I1 : inv g ws n cap p_in pstart best0 st1) by (apply inv_set_nbad; exact I).
    assert (Hc1 : choice_ok ws st1 mpg cap gn mint v gv = true) by exact Hc.
    destruct (do_move (fm_dbg cfg) g ws mpg st1 move_num v gn) as [st2|e|s|] eqn:Ed; try discriminate.
    + destruct (do_move_inv g ws n mpg cap Hwf Hsym Hnsl Hws Hwpos p_in pstart best0 Lps _ st1 move_num v gn mint gv st2
                  I1 Hmn Hc1 Ed) as [I2 [L2 _]].
      apply IH; try assumption. lia.
    + exfalso. revert Ed. unfold do_move.
      repeat match goal with
             | |- context [match ?x with _ => _ end] => destruct x
             | |- context [if ?x then _ else _] => destruct x
             end; discriminate.
Qed.

Lemma fm_passes_terminates : forall fuel pass p pw best mpp rpp orc,
  pinv p pw best mpp rpp pass -> (Z.to_nat best < fuel)%nat ->
  fm_passes cfg g ws mpg cap fuel pass p pw best mpp rpp orc <> OutOfFuel.
Proof.
  induction fuel as [|f IH]; intros pass p pw best mpp rpp orc Q Hf; cbn [fm_passes]; [lia|].
  destruct (match fm_max_passes cfg with Some m => (m <=? pass)%N | None => false end) eqn:Hlim; [discriminate|].
  destruct orc as [|[rc moves] orc']; [discriminate|].
  destruct (negb (rc =? best)); [discriminate|].
  destruct (init_tables p mpg 0 g p []) as [[v2g t]|] eqn:Hi; [|discriminate].
  pose proof (q_len _ _ _ _ _ _ Q) as Lp.
  destruct (fm_moves cfg g ws mpg cap (S (length p)) 0 _ moves) as [[st|c]| | |] eqn:Hm; try discriminate.
  - destruct (rewind ws (s_p st) (s_pw st) _) as [[pe pwe]|] eqn:Hr; [|discriminate].
    destruct (pass_step _ _ _ _ _ _ _ _ _ _ _ _ Q Hlim Hi Hm Hr) as [Q' _].
    destruct (Z.leb_spec best (s_best st)) as [Le|Lt]; [discriminate|]. apply IH; [exact Q'|].
    assert (0 <= s_best st).
    { rewrite (q_best _ _ _ _ _ _ Q'). apply edge_cut_nonneg. exact Hnn. }
    lia.
  - exfalso. revert Hm. apply (fm_moves_terminates p best Lp); [|reflexivity|lia].
    rewrite (q_pw _ _ _ _ _ _ Q).
    apply (pass_start g ws n mpg cap Hwf Hsym Hnsl Hnn Hsorted Hws Hmpg p_in p best Lp p v2g t Lp
             (q_two _ _ _ _ _ _ Q) (q_cap _ _ _ _ _ _ Q) eq_refl (q_best _ _ _ _ _ _ Q) Hi).
Qed.

End Run.

(* ======================================================== the entry point *)

(* the usage contract of the property *)
Definition fm_contract (g : graph) (ws : list Z) (p0 : list N) : Prop :=
  wf_graph g (length p0) /\ rows_sorted g /\ symmetric g /\ no_self_loop g /\ nonneg_edges g
  /\ Forall (fun w => 0 <= w) ws.

Lemma existsb_two_way p : existsb (fun x => (1 <? x)%N) p = false -> two_way p.
Proof.
  unfold two_way. induction p as [|x t IH]; cbn [existsb]; intros H; constructor.
  - apply orb_false_iff in H. destruct H as [H _]. apply N.ltb_ge in H. exact H.
  - apply IH. apply orb_false_iff in H. tauto.
Qed.

(* past the entry checks, [fm] is the pass loop started from a state satisfying [pinv] *)
Lemma fm_unfold cfg fuel g ws p0 orc : fm_contract g ws p0 -> p0 <> [] ->
  (exists e, fm cfg fuel g ws p0 orc = Err e)
  \/ (fm cfg fuel g ws p0 orc = Panic 7 /\ fm_cap (fm_max_imb cfg) (load ws p0 0, load ws p0 1) = None)
  \/ exists cap mpg,
       fm_cap (fm_max_imb cfg) (load ws p0 0, load ws p0 1) = Some cap /\
       length ws = length p0 /\ 0 <= mpg /\ (forall v, row_weight (rowof g v) <= mpg) /\
       fm cfg fuel g ws p0 orc
       = fm_passes cfg g ws mpg cap fuel 0%N p0 (load ws p0 0, load ws p0 1) (edge_cut_sprs g p0) [] [] orc /\
       pinv cfg g ws (length p0) cap p0 p0 (load ws p0 0, load ws p0 1) (edge_cut_sprs g p0) [] [] 0%N.
Proof.
  intros [Hwf [Hso [Hsy [Hns [Hnn Hwp]]]]] Hne. unfold fm.
  destruct (Nat.eqb_spec (length p0) (length ws)) as [E1|E1]; cbn [negb]; [|left; eauto].
  destruct (Nat.eqb_spec (length p0) (length g)) as [E2|E2]; cbn [negb]; [|left; eauto].
  destruct p0 as [|x0 p0']; [congruence|]. set (p0 := x0 :: p0') in *.
  destruct (existsb (fun x => (1 <? x)%N) p0) eqn:E3; [left; eauto|].
  destruct (fm_cap (fm_max_imb cfg) (load ws p0 0, load ws p0 1)) as [cap|] eqn:Ec; [|right; left; split; reflexivity].
  destruct (max_gain g) as [mpg|] eqn:Em.
  2:{ destruct g; [cbn in E2; discriminate|discriminate]. }
  destruct (max_gain_spec g mpg Hnn Em) as [M0 M1].
  destruct (Z.ltb_spec mpg 0) as [L|L]; [lia|].
  right. right. exists cap, mpg. repeat split; auto.
  - apply existsb_two_way. exact E3.
  - apply edge_cut_sprs_eq. exact Hso.
  - intros q Hq. lia.
  - rewrite edge_cut_sprs_eq by exact Hso. lia.
  - intros m _. lia.
  - rewrite hamming_refl. cbn. lia.
Qed.

Lemma forallb2_Forall2 {A B} (f : A -> B -> bool) (R : A -> B -> Prop) :
  (forall a b, f a b = true <-> R a b) -> forall l1 l2, forallb2 f l1 l2 = true <-> Forall2 R l1 l2.
Proof.
  intros H. induction l1 as [|x t IH]; intros [|y t2]; cbn [forallb2]; split; intros E; try discriminate;
    try constructor; try (inversion E; fail).
  - apply andb_true_iff in E. apply H. tauto.
  - apply andb_true_iff in E. apply IH. tauto.
  - inversion E; subst. apply andb_true_iff. split; [apply H|apply IH]; assumption.
Qed.

Lemma metadata_okb_ok mp mm p0 p mpp rpp :
  metadata_okb mp mm p0 p mpp rpp = true <-> metadata_ok mp mm p0 p mpp rpp.
Proof.
  unfold metadata_okb, metadata_ok. rewrite !andb_true_iff, Nat.eqb_eq, N.leb_le.
  rewrite (forallb2_Forall2 _ (fun r m => (r <= m)%N)) by (intros; apply N.leb_le).
  assert (A : match mp with Some m => (N.of_nat (length mpp) <=? m)%N | None => true end = true
              <-> forall m, mp = Some m -> (N.of_nat (length mpp) <= m)%N).
  { destruct mp as [m|]; split; intros H.
    - intros m' E; inversion E; subst. apply N.leb_le. exact H.
    - apply N.leb_le. auto.
    - intros m' E; discriminate.
    - reflexivity. }
  assert (B : match mm with Some m => forallb (fun x => (x <=? m)%N) mpp | None => true end = true
              <-> forall m, mm = Some m -> Forall (fun x => (x <= m)%N) mpp).
  { destruct mm as [m|]; split; intros H.
    - intros m' E; inversion E; subst. apply Forall_forall. intros x Hx. rewrite forallb_forall in H.
      apply N.leb_le. auto.
    - apply forallb_forall. intros x Hx. apply N.leb_le. specialize (H m eq_refl). rewrite Forall_forall in H. auto.
    - intros m' E; discriminate.
    - reflexivity. }
  rewrite A, B. tauto.
Qed.

(* C07: cut not worse, cap, metadata -- for every oracle *)
Theorem fm_sound cfg fuel g ws p0 orc cap p mpp rpp : fm_contract g ws p0 ->
  fm_cap (fm_max_imb cfg) (load ws p0 0, load ws p0 1) = Some cap ->
  fm cfg fuel g ws p0 orc = Ok (FmOk p mpp rpp) ->
  length p = length p0 /\ two_way p
  /\ edge_cut g p <= edge_cut g p0
  /\ (forall q, (q <= 1)%N -> load ws p q <= Z.max (load ws p0 q) cap)
  /\ metadata_ok (fm_max_passes cfg) (fm_max_moves cfg) p0 p mpp rpp.
Proof.
  intros C Hcap H. destruct p0 as [|x0 p0'].
  - (* empty input: Ok(Metadata::default()) *)
    unfold fm in H. destruct ws as [|? ?]; cbn in H.
    + destruct g as [|? ?]; cbn in H; [|discriminate]. destruct orc; inversion H; subst.
      repeat split; auto; try constructor; try (intros; cbn; lia); try (intros; constructor).
    + discriminate.
  - destruct (fm_unfold cfg fuel g ws (x0 :: p0') orc C ltac:(discriminate)) as [[e E]|[[E Ec0]|[cap' [mpg [Ec [Lw [M0 [M1 [E Q]]]]]]]]];
      try congruence.
    rewrite Hcap in Ec. inversion Ec; subst cap'. rewrite E in H.
    destruct C as [Hwf [Hso [Hsy [Hns [Hnn Hwp]]]]].
    destruct (fm_passes_sound cfg g ws (length (x0 :: p0')) mpg cap (x0 :: p0') Hwf Hsy Hns Hnn Hso Lw Hwp M1 eq_refl
                _ _ _ _ _ _ _ _ _ _ _ Q H) as [pw' [best' [pass' Q']]].
    split; [apply (q_len _ _ _ _ _ _ _ _ _ _ _ _ Q')|]. split; [apply (q_two _ _ _ _ _ _ _ _ _ _ _ _ Q')|].
    split; [rewrite <- (q_best _ _ _ _ _ _ _ _ _ _ _ _ Q'); apply (q_le _ _ _ _ _ _ _ _ _ _ _ _ Q')|].
    split; [apply (q_cap _ _ _ _ _ _ _ _ _ _ _ _ Q')|].
    unfold metadata_ok. split; [apply (q_len2 _ _ _ _ _ _ _ _ _ _ _ _ Q')|].
    split; [intros m Hm; rewrite (q_pass _ _ _ _ _ _ _ _ _ _ _ _ Q'); apply (q_mp _ _ _ _ _ _ _ _ _ _ _ _ Q'); exact Hm|].
    split; [apply (q_mm _ _ _ _ _ _ _ _ _ _ _ _ Q')|].
    split; [apply (q_rm _ _ _ _ _ _ _ _ _ _ _ _ Q')|apply (q_ham _ _ _ _ _ _ _ _ _ _ _ _ Q')].
Qed.

(* `debug_assert_eq!(current_edge_cut, adjacency.edge_cut(partition))` holds after every move of
   every execution: the model run with debug assertions never reaches that panic *)
Theorem fm_cut_tracked cfg fuel g ws p0 orc : fm_contract g ws p0 -> fm cfg fuel g ws p0 orc <> Panic 6.
Proof.
  intros C. destruct p0 as [|x0 p0'].
  - unfold fm. destruct (negb _); [discriminate|]. destruct (negb _); [discriminate|]. destruct orc; discriminate.
  - destruct (fm_unfold cfg fuel g ws (x0 :: p0') orc C ltac:(discriminate)) as [[e E]|[[E Ec0]|[cap [mpg [Ec [Lw [M0 [M1 [E Q]]]]]]]]];
      try (rewrite E; discriminate).
    rewrite E. destruct C as [Hwf [Hso [Hsy [Hns [Hnn Hwp]]]]].
    apply (fm_passes_no6 cfg g ws (length (x0 :: p0')) mpg cap (x0 :: p0') Hwf Hsy Hns Hnn Hso Lw Hwp M1 eq_refl).
    exact Q.
Qed.

(* a pass makes at most n moves; a pass that does not lower the (non-negative) cut is the last *)
Theorem fm_terminates cfg fuel g ws p0 orc : fm_contract g ws p0 -> (fm_fuel g p0 <= fuel)%nat ->
  fm cfg fuel g ws p0 orc <> OutOfFuel.
Proof.
  intros C Hf. destruct p0 as [|x0 p0'].
  - unfold fm. destruct (negb _); [discriminate|]. destruct (negb _); [discriminate|]. destruct orc; discriminate.
  - destruct (fm_unfold cfg fuel g ws (x0 :: p0') orc C ltac:(discriminate)) as [[e E]|[[E Ec0]|[cap [mpg [Ec [Lw [M0 [M1 [E Q]]]]]]]]];
      try (rewrite E; discriminate).
    rewrite E. destruct C as [Hwf [Hso [Hsy [Hns [Hnn Hwp]]]]].
    apply (fm_passes_terminates cfg g ws (length (x0 :: p0')) mpg cap (x0 :: p0') Hwf Hsy Hns Hnn Hso Lw Hwp M1 eq_refl).
    + exact Q.
    + unfold fm_fuel in Hf. lia.
Qed.

(* the checker decides the property clauses *)
Theorem check_C07_ok g ws cap mp mm p0 p mpp rpp :
  check_C07 g ws cap mp mm p0 p mpp rpp = true <->
  (length p = length p0 /\ two_way p /\ edge_cut g p <= edge_cut g p0
   /\ load ws p 0 <= Z.max (load ws p0 0) cap /\ load ws p 1 <= Z.max (load ws p0 1) cap
   /\ metadata_ok mp mm p0 p mpp rpp).
Proof.
  unfold check_C07. rewrite !andb_true_iff, Nat.eqb_eq, !Z.leb_le, metadata_okb_ok.
  assert (T : forallb (fun x => (x <=? 1)%N) p = true <-> two_way p).
  { unfold two_way. rewrite forallb_forall, Forall_forall. split; intros H x Hx; apply N.leb_le; auto. }
  rewrite T. tauto.
Qed.

(* C07 with the cap of the property text ([cap_prop]: the exact (1 + mi) * total / 2 rounded once),
   on the inputs where the code's cap (three roundings) does not exceed it -- decidable from the
   input, evaluated for every case by the run glue; always the case without max_imbalance.
   Beyond: C07_cap_exact_refuted_above_2p53 in Properties/C07.v. *)
Theorem fm_sound_prop cfg fuel g ws p0 orc cap capp p mpp rpp : fm_contract g ws p0 ->
  fm_cap (fm_max_imb cfg) (load ws p0 0, load ws p0 1) = Some cap ->
  cap_prop (fm_max_imb cfg) (load ws p0 0, load ws p0 1) = Some capp ->
  cap <= capp ->
  fm cfg fuel g ws p0 orc = Ok (FmOk p mpp rpp) ->
  length p = length p0 /\ two_way p
  /\ edge_cut g p <= edge_cut g p0
  /\ (forall q, (q <= 1)%N -> load ws p q <= Z.max (load ws p0 q) capp)
  /\ metadata_ok (fm_max_passes cfg) (fm_max_moves cfg) p0 p mpp rpp.
Proof.
  intros C Hcap Hp Hle H.
  destruct (fm_sound cfg fuel g ws p0 orc cap p mpp rpp C Hcap H) as (A & B & D & E & F).
  split; [exact A|]. split; [exact B|]. split; [exact D|]. split; [|exact F].
  intros q Hq. specialize (E q Hq). lia.
Qed.

(* without max_imbalance the two caps are the same: the heaviest input part *)
Lemma cap_prop_none pw : cap_prop None pw = fm_cap None pw.
Proof. reflexivity. Qed.

Theorem fm_sound_prop_none cfg fuel g ws p0 orc capp p mpp rpp : fm_contract g ws p0 ->
  fm_max_imb cfg = None ->
  cap_prop None (load ws p0 0, load ws p0 1) = Some capp ->
  fm cfg fuel g ws p0 orc = Ok (FmOk p mpp rpp) ->
  length p = length p0 /\ two_way p
  /\ edge_cut g p <= edge_cut g p0
  /\ (forall q, (q <= 1)%N -> load ws p q <= Z.max (load ws p0 q) capp)
  /\ metadata_ok (fm_max_passes cfg) (fm_max_moves cfg) p0 p mpp rpp.
Proof.
  intros C Hn Hp H.
  apply (fm_sound_prop cfg fuel g ws p0 orc capp capp p mpp rpp C); rewrite ?Hn; try assumption; try lia.
Qed.

(* the boolean contract of the run glue implies the contract of the theorems *)
Lemma fm_contractb_ok g ws p0 :
  wf_graphb g (length p0) = true -> length g = length p0 -> rows_sortedb g = true -> symmetricb g = true
  -> no_self_loopb g = true -> pos_edgesb g = true -> forallb (fun w => 0 <=? w) ws = true ->
  fm_contract g ws p0.
Proof.
  intros H1 HL H2 H3 H4 H5 H6. unfold fm_contract.
  apply wf_graphb_ok in H1. split; [exact H1|]. split; [apply rows_sortedb_ok; exact H2|].
  split; [apply symmetricb_ok; [rewrite HL; exact H1|exact H3]|].
  split; [apply no_self_loopb_ok; exact H4|].
  split; [apply pos_nonneg_edges, pos_edgesb_ok; exact H5|].
  rewrite forallb_forall in H6. apply Forall_forall. intros w Hw. apply Z.leb_le. auto.
Qed.

(* ============================ every state an execution of a pass goes through *)

Definition with_nbad (st : fm_st) (x : N) : fm_st :=
  {| s_p := s_p st; s_pw := s_pw st; s_v2g := s_v2g st; s_g2v := s_g2v st; s_cur := s_cur st;
     s_best := s_best st; s_bestmove := s_bestmove st; s_nbad := x; s_hist := s_hist st |}.

(* states reachable from the pass start by moves the code may choose (any oracle) *)
Inductive pass_reach (dbg : bool) (g : graph) (ws : list Z) (mpg cap : Z) (st0 : fm_st) : fm_st -> Prop :=
| pr_init : pass_reach dbg g ws mpg cap st0 st0
| pr_move st x v gn mint gv st' :
    pass_reach dbg g ws mpg cap st0 st ->
    choice_ok ws st mpg cap gn mint v gv = true ->
    do_move dbg g ws mpg (with_nbad st x) (length (s_hist st)) v gn = Ok st' ->
    pass_reach dbg g ws mpg cap st0 st'.

Lemma fm_moves_reach cfg g ws mpg cap st0 : forall fuel mn st orc st',
  pass_reach (fm_dbg cfg) g ws mpg cap st0 st -> length (s_hist st) = mn ->
  fm_moves cfg g ws mpg cap fuel mn st orc = Ok (MvOk st') ->
  pass_reach (fm_dbg cfg) g ws mpg cap st0 st'.
Proof.
  induction fuel as [|f IH]; intros mn st orc st' R Hmn H; cbn [fm_moves] in H; [discriminate|].
  assert (Stop : Ok (match orc with [] => MvOk st | _ :: _ => MvBad 3 end) = Ok (MvOk st') ->
                 pass_reach (fm_dbg cfg) g ws mpg cap st0 st').
  { intros E. destruct orc; inversion E; subst. exact R. }
  destruct (match fm_max_moves cfg with Some m => (m <=? N.of_nat mn)%N | None => false end); [auto|].
  destruct (find_top ws (s_p st) (s_pw st) cap (buckets_desc mpg (s_g2v st))) as [[[gn mint]|]|]; [|auto|discriminate].
  destruct ((gn <=? 0) && (fm_max_bad cfg <=? s_nbad st)%N); [auto|].
  destruct orc as [|[v gv] orc']; [discriminate|].
  destruct (choice_ok ws st mpg cap gn mint v gv) eqn:Hc; [|discriminate].
  match type of H with context [do_move _ _ _ _ ?s _ _ _] => change s with (with_nbad st (if gn <=? 0 then (s_nbad st + 1)%N else 0%N)) in H end.
  destruct (do_move (fm_dbg cfg) g ws mpg _ mn v gn) as [st2| | |] eqn:Ed; try discriminate.
  assert (L2 : length (s_hist st2) = S mn).
  { revert Ed. unfold do_move. cbn [with_nbad s_p s_pw s_v2g s_g2v s_cur s_best s_bestmove s_hist].
    repeat match goal with
           | |- context [match ?x with _ => _ end] => destruct x
           | |- context [if ?x then _ else _] => destruct x
           end; intros E; inversion E; subst; cbn [s_hist]; rewrite app_length; cbn [length]; lia. }
  eapply IH; [|exact L2|exact H].
  rewrite <- Hmn in Ed. eapply pr_move; eauto.
Qed.

Section Reach.
Variables (dbg : bool) (g : graph) (ws : list Z) (n : nat) (mpg cap : Z) (p_in pstart : list N) (best0 : Z).
Hypothesis Hwf : wf_graph g n.
Hypothesis Hsym : symmetric g.
Hypothesis Hnsl : no_self_loop g.
Hypothesis Hnn : nonneg_edges g.
Hypothesis Hws : length ws = n.
Hypothesis Hwpos : Forall (fun w => 0 <= w) ws.
Hypothesis Hmpg0 : 0 <= mpg.
Hypothesis Hmpg : forall v, row_weight (rowof g v) <= mpg.
Hypothesis Hps : length pstart = n.
Variable st0 : fm_st.
Hypothesis I0 : inv g ws n cap p_in pstart best0 st0.

Lemma reach_inv st : pass_reach dbg g ws mpg cap st0 st -> inv g ws n cap p_in pstart best0 st.
Proof.
  induction 1 as [|st x v gn mint gv st' R IH Hc Ed]; [exact I0|].
  assert (I1 : inv g ws n cap p_in pstart best0 (with_nbad st x)) by (apply inv_set_nbad; exact IH).
  assert (Hc1 : choice_ok ws (with_nbad st x) mpg cap gn mint v gv = true) by exact Hc.
  destruct (do_move_inv g ws n mpg cap Hwf Hsym Hnsl Hws Hwpos p_in pstart best0 Hps dbg (with_nbad st x)
              (length (s_hist st)) v gn mint gv st' I1 eq_refl Hc1 Ed) as [I2 _].
  exact I2.
Qed.

(* the stored gain of every free vertex is its true gain and indexes the table in range;
   a vertex sits only in the bucket labelled with its gain *)
Lemma reach_gain_invariant st : pass_reach dbg g ws mpg cap st0 st ->
  (forall v gv, nth_opt (s_v2g st) v = Some (Some gv) ->
     gv = row_gain (pfun (s_p st)) v (rowof g v)
     /\ tbl_idx mpg gv = Some gv)
  /\ (forall k v, In v (tget (s_g2v st) k) -> nth_opt (s_v2g st) v = Some (Some k)).
Proof.
  intros R. pose proof (reach_inv st R) as I. split; [|apply (i_bucket _ _ _ _ _ _ _ _ I)].
  intros v gv Hv. pose proof (i_gain _ _ _ _ _ _ _ _ I v gv Hv) as Eg. split; [exact Eg|].
  pose proof (row_gain_bound (pfun (s_p st)) v (rowof g v) (rowof_nonneg g v Hnn)) as B.
  pose proof (Hmpg v) as M. rewrite <- Eg in B.
  apply tbl_idx_ok; lia.
Qed.

(* current_edge_cut is the cut of the current partition; part_weights are its loads *)
Lemma reach_cut_tracked st : pass_reach dbg g ws mpg cap st0 st ->
  s_cur st = edge_cut g (s_p st) /\ s_pw st = (load ws (s_p st) 0, load ws (s_p st) 1).
Proof. intros R. pose proof (reach_inv st R) as I. split; [apply (i_cur _ _ _ _ _ _ _ _ I)|apply (i_pw _ _ _ _ _ _ _ _ I)]. Qed.

(* the cap holds at every history point *)
Lemma reach_cap st : pass_reach dbg g ws mpg cap st0 st ->
  forall q, (q <= 1)%N -> load ws (s_p st) q <= Z.max (load ws p_in q) cap.
Proof. intros R. pose proof (reach_inv st R) as I. apply (i_cap _ _ _ _ _ _ _ _ I). Qed.
End Reach.

(* the state a pass starts from *)
Definition pass_state0 (ws : list Z) (p : list N) (v2g : list (option Z)) (t : table) (best : Z) : fm_st :=
  {| s_p := p; s_pw := (load ws p 0, load ws p 1); s_v2g := v2g; s_g2v := t; s_cur := best; s_best := best;
     s_bestmove := None; s_nbad := 0%N; s_hist := [] |}.

(* hypotheses shared by the three statements below: the contract, the table size, a pass start *)
Definition pass_setting (g : graph) (ws : list Z) (mpg cap : Z) (p_in p : list N)
           (v2g : list (option Z)) (t : table) : Prop :=
  fm_contract g ws p /\ length ws = length p /\ two_way p
  /\ 0 <= mpg /\ (forall v, row_weight (rowof g v) <= mpg)
  /\ (forall q, (q <= 1)%N -> load ws p q <= Z.max (load ws p_in q) cap)
  /\ init_tables p mpg 0 g p [] = Some (v2g, t).

Lemma pass_setting_inv g ws mpg cap p_in p v2g t : pass_setting g ws mpg cap p_in p v2g t ->
  inv g ws (length p) cap p_in p (edge_cut g p) (pass_state0 ws p v2g t (edge_cut g p)).
Proof.
  intros [[Hwf [Hso [Hsy [Hns [Hnn Hwp]]]]] [Lw [T2 [M0 [M1 [C Hi]]]]]].
  apply (pass_start g ws (length p) mpg cap Hwf Hsy Hns Hnn Hso Lw M1 p_in p (edge_cut g p) eq_refl p v2g t
           eq_refl T2 C eq_refl eq_refl Hi).
Qed.

Theorem fm_gain_invariant dbg g ws mpg cap p_in p v2g t st :
  pass_setting g ws mpg cap p_in p v2g t ->
  pass_reach dbg g ws mpg cap (pass_state0 ws p v2g t (edge_cut g p)) st ->
  (forall v gv, nth_opt (s_v2g st) v = Some (Some gv) ->
     gv = row_gain (pfun (s_p st)) v (rowof g v)
     /\ tbl_idx mpg gv = Some gv)
  /\ (forall k v, In v (tget (s_g2v st) k) -> nth_opt (s_v2g st) v = Some (Some k)).
Proof.
  intros S R. pose proof (pass_setting_inv _ _ _ _ _ _ _ _ S) as I0.
  destruct S as [[Hwf [Hso [Hsy [Hns [Hnn Hwp]]]]] [Lw [T2 [M0 [M1 [C Hi]]]]]].
  exact (reach_gain_invariant dbg g ws (length p) mpg cap p_in p (edge_cut g p) Hwf Hsy Hns Hnn Lw Hwp M1 eq_refl _ I0 st R).
Qed.

Theorem fm_cut_tracked_state dbg g ws mpg cap p_in p v2g t st :
  pass_setting g ws mpg cap p_in p v2g t ->
  pass_reach dbg g ws mpg cap (pass_state0 ws p v2g t (edge_cut g p)) st ->
  s_cur st = edge_cut g (s_p st) /\ s_pw st = (load ws (s_p st) 0, load ws (s_p st) 1).
Proof.
  intros S R. pose proof (pass_setting_inv _ _ _ _ _ _ _ _ S) as I0.
  destruct S as [[Hwf [Hso [Hsy [Hns [Hnn Hwp]]]]] [Lw [T2 [M0 [M1 [C Hi]]]]]].
  exact (reach_cut_tracked dbg g ws (length p) mpg cap p_in p (edge_cut g p) Hwf Hsy Hns Lw Hwp eq_refl _ I0 st R).
Qed.

Theorem fm_cap_every_point dbg g ws mpg cap p_in p v2g t st :
  pass_setting g ws mpg cap p_in p v2g t ->
  pass_reach dbg g ws mpg cap (pass_state0 ws p v2g t (edge_cut g p)) st ->
  forall q, (q <= 1)%N -> load ws (s_p st) q <= Z.max (load ws p_in q) cap.
Proof.
  intros S R. pose proof (pass_setting_inv _ _ _ _ _ _ _ _ S) as I0.
  destruct S as [[Hwf [Hso [Hsy [Hns [Hnn Hwp]]]]] [Lw [T2 [M0 [M1 [C Hi]]]]]].
  exact (reach_cap dbg g ws (length p) mpg cap p_in p (edge_cut g p) Hwf Hsy Hns Lw Hwp eq_refl _ I0 st R).
Qed.

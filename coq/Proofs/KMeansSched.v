(* Schedule independence of the concrete k-means model.

   [reds_chk sum_ok val_ok cmp_ok T P] computes every reduction over the split tree
   [T key] like [reds_tree T P], but answers `Panic 99` when the reduced values
   are not covered by the exactness premises:
     - sums (`.sum::<f64>()`, `.sum::<PointND<D>>()`): [sum_ok] of the summed list
       (per coordinate for vectors);
     - the bounding-box fold: [val_ok] of every value; max_by / min_by: [cmp_ok] of the list.
   Main theorem ([kmeans_chk_sched_indep]): if the CHECKED run under one family
   of trees answers r <> Panic 99, then the run under EVERY family of trees
   answers r.  The premises on the arithmetic are those of Section [Sched]:
   a sum of an accepted list does not depend on the tree, a max / min / box of
   accepted values does not depend on the tree.  They are proved for binary64
   in Proofs/KMeansF64Sched.v with [sum_ok_f64] (integers, absolute values adding
   up to at most 2^53), [val_ok_f64] (neither NaN nor -0.0) and [cmp_ok_f64] (no NaN,
   not both 0.0 and -0.0).
   `erode` is excluded (its sum runs in HashMap order, and its ln / exp are
   not modelled); the rotation matrix is the same on both sides (it is an input
   of the model: class `obb-inexact-sums` of C06 otherwise). *)
From Coupe Require Import Lib.Prelude Lib.SFloat Lib.Rayon Model.KMeansAbs Model.KMeans Proofs.KMeansProofs.
Local Open Scope nat_scope.

Definition ref {X} (r1 r2 : res X) : Prop := r1 = Panic 99 \/ r1 = r2.

Lemma ref_refl {X} (r : res X) : ref r r.
Proof. right; reflexivity. Qed.

Lemma ref_bind {X Y} (r1 r2 : res X) (f1 f2 : X -> res Y) :
  ref r1 r2 -> (forall x, ref (f1 x) (f2 x)) -> ref (bind r1 f1) (bind r2 f2).
Proof.
  intros [->| ->] Hf; [left; reflexivity|]. destruct r2; cbn [bind]; try apply ref_refl. apply Hf.
Qed.

Lemma ref_mapM {X Y} (f1 f2 : X -> res Y) l : (forall x, ref (f1 x) (f2 x)) -> ref (mapM f1 l) (mapM f2 l).
Proof.
  intros Hf. induction l as [|a t IH]; cbn [mapM]; [apply ref_refl|].
  apply ref_bind; auto. intros y. apply ref_bind; auto. intros ys. apply ref_refl.
Qed.

Definition refR {A} (R1 R2 : reds A) : Prop :=
  (forall k xs, ref (r_sum R1 k xs) (r_sum R2 k xs)) /\
  (forall k D xs, ref (r_vsum R1 k D xs) (r_vsum R2 k D xs)) /\
  (forall k xs, ref (r_maxby R1 k xs) (r_maxby R2 k xs)) /\
  (forall k xs, ref (r_minby R1 k xs) (r_minby R2 k xs)) /\
  (forall k D xs, ref (r_bbox R1 k D xs) (r_bbox R2 k D xs)) /\
  (forall k xs, ref (r_gsum R1 k xs) (r_gsum R2 k xs)).

Section Ref.
  Variable A : karith.
  Variables R1 R2 : reds A.
  Variable rot : option (list (vec A)).
  Variable D : nat.
  Variable cfg : settings A.
  Hypothesis HR : refR R1 R2.

  Let H1 := proj1 HR.
  Let H2 := proj1 (proj2 HR).
  Let H3 := proj1 (proj2 (proj2 HR)).
  Let H4 := proj1 (proj2 (proj2 (proj2 HR))).
  Let H5 := proj1 (proj2 (proj2 (proj2 (proj2 HR)))).
  Let H6 := proj2 (proj2 (proj2 (proj2 (proj2 HR)))).

  Lemma center_ref k pts : ref (center A R1 D k pts) (center A R2 D k pts).
  Proof. unfold center. destruct pts; [apply ref_refl|]. apply ref_bind; auto. intros; apply ref_refl. Qed.

  Lemma obb_of_ref k pts : ref (obb_of A R1 rot D k pts) (obb_of A R2 rot D k pts).
  Proof. unfold obb_of. destruct rot; [|apply ref_refl]. apply ref_bind; auto. intros; apply ref_refl. Qed.

  Lemma imbalance_ref k ws : ref (imbalance A R1 k ws) (imbalance A R2 k ws).
  Proof.
    unfold imbalance. apply ref_bind; auto. intros mn. apply ref_bind; auto. intros mx. apply ref_refl.
  Qed.

  Lemma relax_bounds_ref k l u d i : ref (relax_bounds A R1 k l u d i) (relax_bounds A R2 k l u d i).
  Proof. unfold relax_bounds. apply ref_bind; auto. intros; apply ref_refl. Qed.

  Lemma new_centers_ref k points asg cids centers :
    ref (new_centers A R1 D k points asg cids centers) (new_centers A R2 D k points asg cids centers).
  Proof.
    unfold new_centers. apply ref_mapM. intros [j [cid old]]. destruct (select asg points cid); [apply ref_refl|].
    apply center_ref.
  Qed.

  Lemma balance_loop_ref b : forall it points weights perm centers cids dmbr target st,
    ref (balance_loop A R1 D cfg b it points weights perm centers cids dmbr target st)
        (balance_loop A R2 D cfg b it points weights perm centers cids dmbr target st).
  Proof.
    induction b as [|b IH]; intros; cbn [balance_loop]; [apply ref_refl|].
    apply ref_bind; [apply ref_refl|]. intros [[l u] w].
    apply ref_bind; [apply ref_refl|]. intros asg.
    apply ref_bind; [apply ref_mapM; intros [j cid]; apply H1|]. intros nw.
    apply ref_bind; [apply imbalance_ref|]. intros imb.
    destruct (klt A imb _); [apply ref_refl|].
    apply ref_bind; [apply new_centers_ref|]. intros ncs.
    apply ref_bind; [apply relax_bounds_ref|]. intros lu. apply IH.
  Qed.

  Lemma assign_and_balance_ref it points weights perm centers cids st :
    ref (assign_and_balance A R1 rot D cfg it points weights perm centers cids st)
        (assign_and_balance A R2 rot D cfg it points weights perm centers cids st).
  Proof.
    unfold assign_and_balance. apply ref_bind; [apply obb_of_ref|]. intros obb.
    apply ref_bind; [apply ref_refl|]. intros dmbr.
    apply ref_bind; auto. intros tw. apply balance_loop_ref.
  Qed.

  Lemma erode_ref it points asg nc infl dm :
    ref (erode A R1 it points asg nc infl dm) (erode A R2 it points asg nc infl dm).
  Proof.
    unfold erode. apply ref_bind; [apply ref_refl|]. intros ds. apply ref_bind; auto. intros; apply ref_refl.
  Qed.

  Lemma kmeans_iter_ref cur : forall points weights perm centers cids st,
    ref (kmeans_iter A R1 rot D cfg cur points weights perm centers cids st)
        (kmeans_iter A R2 rot D cfg cur points weights perm centers cids st).
  Proof.
    induction cur as [|cur IH]; intros; cbn [kmeans_iter].
    - apply ref_bind; [apply assign_and_balance_ref|]. intros st1.
      apply ref_bind; [apply new_centers_ref|]. intros ncs.
      apply ref_bind; [destruct (s_erode cfg); [apply erode_ref|apply ref_refl]|]. intros infl.
      apply ref_bind; auto. intros dm. apply ref_refl.
    - apply ref_bind; [apply assign_and_balance_ref|]. intros st1.
      apply ref_bind; [apply new_centers_ref|]. intros ncs.
      apply ref_bind; [destruct (s_erode cfg); [apply erode_ref|apply ref_refl]|]. intros infl.
      apply ref_bind; auto. intros [dm|]; [|apply ref_refl].
      destruct (klt A dm _); [apply ref_refl|].
      apply ref_bind; [apply relax_bounds_ref|]. intros lu. apply IH.
  Qed.

  Theorem kmeans_ref points weights part :
    ref (kmeans A R1 rot D cfg points weights part) (kmeans A R2 rot D cfg points weights part).
  Proof.
    unfold kmeans. destruct (_ <? 2)%N; [apply ref_refl|].
    unfold kmeans_with_initial. destruct (negb _); [apply ref_refl|].
    apply ref_bind; [apply ref_mapM; intros [j cid]; apply center_ref|]. intros centers.
    apply ref_bind; [apply kmeans_iter_ref|]. intros; apply ref_refl.
  Qed.
End Ref.

Section Sched.
  Variable A : karith.
  Variable sum_ok : list (num A) -> bool.
  Variable val_ok : num A -> bool.
  Variable cmp_ok : list (num A) -> bool.

  (* the exactness premises *)
  Definition sums_exact : Prop :=
    forall xs, sum_ok xs = true -> forall t1 t2, tree_sum A t1 xs = tree_sum A t2 xs.
  Definition vsums_exact : Prop :=
    forall D xs, vsum_ok A sum_ok D xs = true -> forall t1 t2, tree_vsum A t1 D xs = tree_vsum A t2 D xs.
  Definition max_decided : Prop :=
    forall xs, cmp_ok xs = true ->
    forall t1 t2, tree_reduce (max_op A) t1 xs = tree_reduce (max_op A) t2 xs.
  Definition min_decided : Prop :=
    forall xs, cmp_ok xs = true ->
    forall t1 t2, tree_reduce (min_op A) t1 xs = tree_reduce (min_op A) t2 xs.
  Definition bbox_decided : Prop :=
    forall D xs, forallb (fun v => Nat.eqb (length v) D && forallb val_ok v) xs = true ->
    forall t1 t2, tree_bbox A t1 D xs = tree_bbox A t2 D xs.

  Hypothesis HS : sums_exact.
  Hypothesis HV : vsums_exact.
  Hypothesis HMx : max_decided.
  Hypothesis HMn : min_decided.
  Hypothesis HB : bbox_decided.

  Lemma chk_refines_tree T1 T2 P : refR (reds_chk A sum_ok val_ok cmp_ok T1 P) (reds_tree A T2 P).
  Proof.
    unfold refR, reds_chk, reds_tree, guard; cbn [r_sum r_vsum r_maxby r_minby r_bbox r_gsum].
    repeat split; intros.
    - destruct (sum_ok xs) eqn:E; [right; f_equal; now apply HS|left; reflexivity].
    - destruct (vsum_ok A sum_ok D xs) eqn:E; [right; f_equal; now apply HV|left; reflexivity].
    - destruct (cmp_ok xs) eqn:E; [right; f_equal; now apply HMx|left; reflexivity].
    - destruct (cmp_ok xs) eqn:E; [right; f_equal; now apply HMn|left; reflexivity].
    - destruct (forallb (fun v => Nat.eqb (length v) D && forallb val_ok v) xs) eqn:E;
        [right; f_equal; now apply HB|left; reflexivity].
    - destruct (sum_ok xs); [right; reflexivity|left; reflexivity].
  Qed.

  (* a checked run that raises no flag is the run of every schedule *)
  Theorem kmeans_chk_sched_indep : forall T1 T2 P rot D cfg points weights part r,
    kmeans A (reds_chk A sum_ok val_ok cmp_ok T1 P) rot D cfg points weights part = r ->
    r <> Panic 99 ->
    kmeans A (reds_tree A T2 P) rot D cfg points weights part = r.
  Proof.
    intros T1 T2 P rot D cfg points weights part r H Hr.
    destruct (kmeans_ref A _ _ rot D cfg (chk_refines_tree T1 T2 P) points weights part) as [E|E]; congruence.
  Qed.

  (* any two families of split trees *)
  Corollary kmeans_sched_indep : forall T0 T1 T2 P rot D cfg points weights part,
    kmeans A (reds_chk A sum_ok val_ok cmp_ok T0 P) rot D cfg points weights part <> Panic 99 ->
    kmeans A (reds_tree A T1 P) rot D cfg points weights part =
    kmeans A (reds_tree A T2 P) rot D cfg points weights part.
  Proof.
    intros. rewrite (kmeans_chk_sched_indep T0 T1 P rot D cfg points weights part _ eq_refl H).
    rewrite (kmeans_chk_sched_indep T0 T2 P rot D cfg points weights part _ eq_refl H). reflexivity.
  Qed.
End Sched.
